(* C16 — Programs and primitive values are shareable across goroutines without data races.

   An INTERLEAVING model.  A goroutine is a list of memory events; an execution is a trace of
   (thread, event) pairs that is an interleaving of the threads' lists; happens-before is
   program order + unlock->lock order + atomic-write->atomic-read order, transitively closed
   (the Go memory model, go.dev/ref/mem: mutexes, and sync/atomic = sequentially consistent
   atomics "like Java volatiles": a write synchronises with the later reads of the variable).
   A race is a pair of conflicting accesses of different threads not ordered by hb.

   The event lists of the operations are TRANSCRIBED BY HAND from /repo (file:line cited at each
   definition).  Which locations the Go code really touches is therefore asserted, and sampled by
   the -race stage of the check (harness/cmd/c16); see checks/C16.py "assumptions".

   Definitions only; proofs are in Proofs.v / Locks.v / Once.v. *)
From Coq Require Import List Arith NArith Bool.
Import ListNotations.

(* ------------------------------------------------------------------------------------------ *)
(* Locations                                                                                  *)

(* Memory owned by a compiled Program (compiler.go:70 type Program {code, funcName, src, srcMap})
   and by the objects its instructions point to. [site] numbers the instruction. *)
Inductive ploc :=
| PCode                                   (* Program.code []instruction, incl. nested function Programs (newFunc.prg) *)
| PFuncName | PSrc | PSrcMap              (* compiler.go:73-75 *)
| PLiteral (site : N)                     (* a primitive Value embedded in an instruction (loadVal, ...) *)
| PRegexPattern (site : N)                (* vm.go:2815 newRegexp.pattern: regexp.go:62 regexpPattern fields and wrappers *)
| PTmplSlice (site : N) (raw : bool)      (* vm.go:5307 getTaggedTmplObject.raw / .cooked backing arrays *)
| PTmplCell (site : N) (raw : bool) (i : N)  (* the *valueProperty cells created at compiler_expr.go:1262/1272 *)
| PNames (site : N).                      (* names maps of enterBlock/enterCatchBlock/enterFunc* (vm.go:3654-3880) *)

Inductive loc :=
| LProg (p : N) (f : ploc)
| LImpS (s : N) | LImpU (s : N) | LImpScanned (s : N)   (* string_imported.go:27 importedString{s,u,scanned,...} *)
| LStrData (s : N)            (* content of an asciiString / unicodeString (immutable Go string / []uint16) *)
| LSymDesc (y : N)            (* value.go:119 Symbol.desc *)
| LIntCache                   (* value.go:60 intCache, filled by init() value.go:1194 *)
| LPkgHasher                  (* value.go:18 pkgHasher: package init only *)
| LHashConst                  (* value.go:20-23 hashFalse/hashTrue/hashNull/hashUndef *)
| LOnceDone (s : N)           (* importedString.scanDone (atomic.Uint32, string_imported.go:34); the mutex scanMu is mutex [s] *)
| LRt (r : nat) (x : N).      (* anything owned by Runtime r / goroutine r: vm registers, stack, stashes,
                                 heap objects, the CLONED regexp pattern, the runtime's maphash.Hash, ... *)

Definition ploc_eq_dec : forall a b : ploc, {a = b} + {a <> b}.
Proof. decide equality; try apply N.eq_dec; apply Bool.bool_dec. Defined.
Definition loc_eq_dec : forall a b : loc, {a = b} + {a <> b}.
Proof. decide equality; try apply N.eq_dec; try apply Nat.eq_dec; apply ploc_eq_dec. Defined.
Definition loc_eqb (a b : loc) : bool := if loc_eq_dec a b then true else false.

(* a location is either owned by one runtime/goroutine or shared *)
Definition owner (l : loc) : option nat := match l with LRt r _ => Some r | _ => None end.
Definition is_prog_loc (p : N) (l : loc) : bool :=
  match l with LProg q _ => N.eqb p q | _ => false end.

(* ------------------------------------------------------------------------------------------ *)
(* Events, traces, happens-before, races                                                      *)

Inductive kind := KRd | KWr | KARd | KAWr.          (* plain read / plain write / atomic load / atomic store *)
(* [v]: for FLAG locations the boolean read or written (see [consistent]); [false] elsewhere *)
Inductive event := Acc (k : kind) (l : loc) (v : bool) | Lock (m : N) | Unlock (m : N).

Definition Rd (l : loc) := Acc KRd l false.
Definition Wr (l : loc) := Acc KWr l false.

Definition is_write (k : kind) := match k with KWr | KAWr => true | _ => false end.
Definition is_atomic (k : kind) := match k with KARd | KAWr => true | _ => false end.

Definition tev := (nat * event)%type.     (* thread id, event *)
Definition trace := list tev.

(* two accesses conflict: same location, at least one writes, not both atomic *)
Definition conflict (e1 e2 : event) : Prop :=
  match e1, e2 with
  | Acc k1 l1 _, Acc k2 l2 _ =>
      l1 = l2 /\ (is_write k1 || is_write k2) = true /\ (is_atomic k1 && is_atomic k2) = false
  | _, _ => False
  end.

Inductive hb (tr : trace) : nat -> nat -> Prop :=
| hb_po : forall i j t a b, i < j ->
    nth_error tr i = Some (t, a) -> nth_error tr j = Some (t, b) -> hb tr i j
| hb_lock : forall i j t1 t2 m, i < j ->
    nth_error tr i = Some (t1, Unlock m) -> nth_error tr j = Some (t2, Lock m) -> hb tr i j
| hb_atomic : forall i j t1 t2 l v1 v2, i < j ->
    nth_error tr i = Some (t1, Acc KAWr l v1) -> nth_error tr j = Some (t2, Acc KARd l v2) -> hb tr i j
| hb_trans : forall i j k, hb tr i j -> hb tr j k -> hb tr i k.

Definition race_at (tr : trace) (i j : nat) : Prop :=
  i < j /\ exists ti tj ei ej,
    nth_error tr i = Some (ti, ei) /\ nth_error tr j = Some (tj, ej) /\
    ti <> tj /\ conflict ei ej /\ ~ hb tr i j.
Definition race (tr : trace) : Prop := exists i j, race_at tr i j.

(* ------------------------------------------------------------------------------------------ *)
(* Executions                                                                                 *)

Definition proj (t : nat) (tr : trace) : list event :=
  map snd (filter (fun p => Nat.eqb (fst p) t) tr).

(* [tr] is an interleaving of the threads [ths] (thread t = nth t ths) *)
Definition interleaving (ths : list (list event)) (tr : trace) : Prop :=
  (forall t e, In (t, e) tr -> t < length ths) /\
  (forall t, t < length ths -> proj t tr = nth t ths []).

(* executable scheduler: [sched] names the thread that moves next *)
Fixpoint set_nth {A} (n : nat) (x : A) (l : list A) : list A :=
  match l, n with
  | [], _ => []
  | _ :: r, O => x :: r
  | y :: r, S n' => y :: set_nth n' x r
  end.
Fixpoint interleave (sched : list nat) (ths : list (list event)) : trace :=
  match sched with
  | [] => []
  | t :: s => match nth t ths [] with
              | [] => interleave s ths
              | e :: r => (t, e) :: interleave s (set_nth t r ths)
              end
  end.

(* mutual exclusion: between two acquisitions of m the first holder released it *)
Definition lock_wf (tr : trace) : Prop :=
  forall a c t t' m, a < c ->
    nth_error tr a = Some (t, Lock m) -> nth_error tr c = Some (t', Lock m) ->
    exists u, a < u < c /\ nth_error tr u = Some (t, Unlock m).

(* thread t holds mutex m at position i *)
Definition holds (tr : trace) (t : nat) (m : N) (i : nat) : Prop :=
  exists a, a < i /\ nth_error tr a = Some (t, Lock m) /\
            forall u, a < u < i -> nth_error tr u <> Some (t, Unlock m).

(* Flag locations carry their boolean in the event; an execution is value-consistent when every
   read of a flag sees [true] iff some write to it precedes in the trace (flags start false and are
   only ever set to true). This is what makes an operation take the branch its event list belongs to. *)
Definition is_flag (l : loc) : bool :=
  match l with LOnceDone _ => true | _ => false end.
Definition writes_loc (l : loc) (p : tev) : bool :=
  match snd p with Acc k l' _ => is_write k && loc_eqb l l' | _ => false end.
Definition consistent (tr : trace) : Prop :=
  forall i t k l v, nth_error tr i = Some (t, Acc k l v) -> is_write k = false -> is_flag l = true ->
    v = existsb (writes_loc l) (firstn i tr).

(* The discipline that makes sharing safe: a thread writes only what it owns and touches nothing
   owned by another thread. *)
Definition respects (t : nat) (e : event) : Prop :=
  match e with
  | Acc k l _ => match owner l with Some r => r = t | None => is_write k = false end
  | _ => True
  end.
Definition respectsb (t : nat) (e : event) : bool :=
  match e with
  | Acc k l _ => match owner l with Some r => Nat.eqb r t | None => negb (is_write k) end
  | _ => true
  end.
Definition writes_prog (p : N) (e : event) : bool :=
  match e with Acc k l _ => is_write k && is_prog_loc p l | _ => false end.

(* ------------------------------------------------------------------------------------------ *)
(* Running a shared Program p in Runtime r: the steps that touch Program-owned memory          *)

Inductive vop :=
| OFetch                       (* vm.go:626-640 vm.run: vm.prg.code[pc].exec(vm); pc/sp/stack are the runtime's *)
| OLoadLit (site : N)          (* loadVal & co: push an embedded primitive on the runtime's stack *)
| ONewRegexp (site : N)        (* vm.go:2820 newRegexp.exec: n.pattern.clone() (regexp.go:197 reads every field,
                                  regexp2Wrapper.clone shares only the immutable rx, regexp.go:488), n.src read;
                                  the clone and the RegExp object are the runtime's *)
| ORegexExec (site : N)        (* exec/test/replace on the CLONE: lazily createRegexp2 (regexp.go:111-120) and the
                                  regexp2 match cache are written in the clone, i.e. runtime-owned *)
| OTaggedTmpl (site : N) (n : N)
                               (* vm.go:5361 getTaggedTmplObject.exec: copyTaggedTmplValues (vm.go:5351) COPIES the
                                  Program's raw/cooked slices and every *valueProperty cell into fresh runtime memory
                                  (fix 34e62dd of finding C16-N1); idPtr = &c.raw is only compared *)
| OTmplRead (site : N) (raw : bool) (i : N)   (* script reads strings[i] / strings.raw[i]: the runtime's copies *)
| OTmplWriteAttempt (site : N) (raw : bool) (i : N)
                               (* strings[i] = x, delete, length = 0, sort ...: the (copied) cell is read, found
                                  non-writable/non-configurable, rejected *)
| OTmplRedefine (site : N) (raw : bool) (i : N)
                               (* Object.defineProperty(strings, i, {value: strings[i]}) / Object.freeze / Object.seal:
                                  a permitted no-op redefinition: object.go:709-745 stores into the existing cell and
                                  array.go:435 stores it back into the slice — both are the runtime's copies now *)
| OEnterBlock (site : N)       (* vm.go:3660/3684: vm.stash.names = e.names (shared map, only read afterwards) *)
| OEnterFunc (site : N) (extensible : bool)
                               (* vm.go:3747-3757 (also 3817, 3864): the names map is COPIED when the scope is dynamic
                                  (sloppy direct eval / with), shared otherwise *)
| OBindGlobal (site : N)       (* vm.go bindGlobal.exec: checkBind*Global / createGlobal{Var,Func}Bindings / createLexBinding read the
                                  instruction's vars/funcs/lets/consts slices (Program-owned) and define the bindings on the
                                  runtime's global object / global stash *)
| OLookupName (site : N)       (* dynamic lookup stash.names[name] (vm.go:486-529) on a shared map: read *)
| OEvalBindVar                 (* eval("var x"): bindVars vm.go:4251 -> stash.createBinding vm.go:563 writes the names
                                  map of the nearest function stash, which is a copy (extensible) or fresh: runtime-owned;
                                  at top level bindGlobal writes r.global.stash: runtime-owned *)
| ODeleteBinding               (* vm.go:2931 deleteVar: only bindings created by eval are deletable: runtime-owned map *)
| ONewFunc (site : N)          (* newFunc/newClass...: read nested Program pointer, name, source from the instruction *)
| OStackTrace                  (* capturing a stack / position: reads src, srcMap, funcName (vm.go captureStack) *)
| OLocal (x : N).              (* any step on the runtime's own state (stack, stash values, heap objects) *)

Definition ev_vop (r : nat) (p : N) (o : vop) : list event :=
  let P f := LProg p f in
  match o with
  | OFetch => [Rd (LRt r 0); Rd (P PCode); Wr (LRt r 0)]
  | OLoadLit s => [Rd (P (PLiteral s)); Wr (LRt r 1)]
  | ONewRegexp s => [Rd (P (PRegexPattern s)); Rd (P (PLiteral s)); Wr (LRt r 2); Wr (LRt r 1)]
  | ORegexExec s => [Rd (LRt r 2); Wr (LRt r 2)]
  | OTaggedTmpl s n =>
      [Rd (P (PTmplSlice s false)); Rd (P (PTmplSlice s true))] ++
      flat_map (fun i => [Rd (P (PTmplCell s false i)); Rd (P (PTmplCell s true i))]) (map N.of_nat (seq 0 (N.to_nat n))) ++
      [Wr (LRt r 3); Wr (LRt r 1)]
  | OTmplRead s raw i => [Rd (LRt r 3); Wr (LRt r 1)]
  | OTmplWriteAttempt s raw i => [Rd (LRt r 3)]
  | OTmplRedefine s raw i => [Rd (LRt r 3); Wr (LRt r 3)]
  | OEnterBlock s => [Rd (P (PNames s)); Wr (LRt r 4)]
  | OEnterFunc s ext => [Rd (P (PNames s)); Wr (LRt r 4)]
  | OBindGlobal s => [Rd (P (PNames s)); Rd (LRt r 4); Wr (LRt r 4)]
  | OLookupName s => [Rd (LRt r 4); Rd (P (PNames s))]
  | OEvalBindVar => [Rd (LRt r 4); Wr (LRt r 4)]
  | ODeleteBinding => [Rd (LRt r 4); Wr (LRt r 4)]
  | ONewFunc s => [Rd (P PCode); Rd (P (PLiteral s)); Wr (LRt r 5)]
  | OStackTrace => [Rd (P PSrc); Rd (P PSrcMap); Rd (P PFuncName); Wr (LRt r 5)]
  | OLocal x => [Rd (LRt r (6 + x)); Wr (LRt r (6 + x))]
  end.

Definition events_of_run (r : nat) (p : N) (ops : list vop) : list event :=
  flat_map (ev_vop r p) ops.

(* ------------------------------------------------------------------------------------------ *)
(* Primitive values used by several runtimes                                                  *)

Inductive pval :=
| VAscii (s : N) | VUnicode (s : N)     (* string_ascii.go / string_unicode.go: immutable *)
| VSym (y : N)                          (* *Symbol *)
| VInt | VFloat | VBool | VNullUndef.   (* value types, copied; small ints come from intCache *)

Inductive pop :=
| PLength | PCharAt | PConcat | PSubstring | PCompare | PEquals | PHash | PExport | PToNumber | PIndex
| PAsKey.    (* use as a property key / Map key *)

(* asciiString / unicodeString methods only read the content; hash writes the RUNTIME's hasher
   (string_ascii.go hash, string_unicode.go hash; the *maphash.Hash argument is r.hasher);
   Symbol: value.go:1055-1160 read s.desc only, hash = pointer value (value.go:1128);
   numbers / booleans: value receivers, hash of bool/null/undefined reads the init-time constants (value.go:20) *)
Definition ev_pop (r : nat) (v : pval) (o : pop) : list event :=
  let res := Wr (LRt r 1) in
  match v with
  | VAscii s | VUnicode s =>
      match o with
      | PHash | PAsKey => [Rd (LStrData s); Rd (LRt r 7); Wr (LRt r 7); res]
      | _ => [Rd (LStrData s); res]
      end
  | VSym y =>
      match o with
      | PHash | PAsKey | PEquals | PCompare => [res]
      | _ => [Rd (LSymDesc y); res]
      end
  | VInt => [Rd LIntCache; res]
  | VFloat => [res]
  | VBool | VNullUndef => match o with PHash | PAsKey => [Rd LHashConst; res] | _ => [res] end
  end.

Definition events_of_prims (r : nat) (uses : list (pval * pop)) : list event :=
  flat_map (fun u => ev_pop r (fst u) (snd u)) uses.

(* ------------------------------------------------------------------------------------------ *)
(* importedString (string_imported.go after fix 17789cc of finding F14)                       *)

(* isScanned (line 54): scanDone.Load().  scan (line 44): scanMu.Lock(); if scanDone.Load()==0 { u = Scan(s);
   scanned = true; scanDone.Store(1) }; scanMu.Unlock().  ensureScanned (line 58): if !isScanned() { scan() }.
   The three ways through ensureScanned; the branch taken is recorded in the flag values of the atomic loads. *)
Inductive once_path := OnceFast | OnceSlowNoop | OnceSlowScan.
Definition ev_ensure (s : N) (w : once_path) : list event :=
  let D := LOnceDone s in
  match w with
  | OnceFast => [Acc KARd D true]
  | OnceSlowNoop => [Acc KARd D false; Lock s; Acc KARd D true; Unlock s]
  | OnceSlowScan => [Acc KARd D false; Lock s; Acc KARd D false; Rd (LImpS s); Wr (LImpU s);
                     Acc KWr (LImpScanned s) true; Acc KAWr D true; Unlock s]
  end.

Inductive imethod :=
| IEnsureThenU (w : once_path)
                    (* ToInteger 64, string 76, ToFloat 92, ToNumber 100, baseObject 163, hash 171, CharAt 179,
                       Length 187, Substring 214, CompareTo 222, utf16Runes 300, index 308, lastIndex 316,
                       toLower 324, toUpper 332; devirtualizeString string.go:324, unicodeString.StrictEquals
                       string_unicode.go:456, concatStrings vm.go:5298: ensureScanned(); read u; then u or s *)
| IReadSOnly        (* String 88, ToBoolean 108, Export 155, toTrimmedUTF8 341, toString/ToString/ToObject/ExportType *)
| IStrictEqAscii (seen : bool)
                    (* StrictEquals 133-137 with an asciiString; asciiString.StrictEquals string_ascii.go:335;
                       builtin_string.go:473: isScanned() && u ...: u is read only when the flag was seen set *)
| IStrictEqUnicode (w : once_path)   (* StrictEquals 138-142: ensureScanned; read u *)
| IStrictEqImported (o : N) (same_bytes : bool) (w wo : once_path)
                    (* 143-150: i.s == other.s; otherwise both are scanned and the u's compared *)
| IEquals (seen : bool) (w : once_path)
                    (* Equals 120-129: StrictEquals (ascii case shown) then ensureScanned; read u; s *)
| IConcatImported (o : N) (seen oseen joined : bool) (w : once_path)
                    (* Concat 195-212 with an importedString argument: isScanned(); if not, other.isScanned(); both
                       unscanned: DecodeLastRune(s) and possibly s + other.s; otherwise ensureScanned; read u; s *)
| IConcatOther (seen : bool) (w : once_path)    (* Concat with a non-imported argument *)
| IReader (seen : bool).
                    (* Reader 230, utf16Reader 276, utf16RuneReader 288: isScanned(); if set read u, s else s *)

Definition ev_imethod (s : N) (m : imethod) : list event :=
  let after := [Rd (LImpU s); Rd (LImpS s)] in
  let isScanned x v := Acc KARd (LOnceDone x) v in
  match m with
  | IEnsureThenU w => ev_ensure s w ++ after
  | IReadSOnly => [Rd (LImpS s)]
  | IStrictEqAscii seen => isScanned s seen :: (if seen then [Rd (LImpU s)] else []) ++ [Rd (LImpS s)]
  | IStrictEqUnicode w => ev_ensure s w ++ [Rd (LImpU s)]
  | IStrictEqImported o same w wo =>
      [Rd (LImpS s); Rd (LImpS o)] ++
      (if same then [] else ev_ensure s w ++ ev_ensure o wo ++ [Rd (LImpU s); Rd (LImpU o)])
  | IEquals seen w =>
      isScanned s seen :: (if seen then [Rd (LImpU s)] else []) ++ [Rd (LImpS s)] ++ ev_ensure s w ++ after
  | IConcatImported o seen oseen joined w =>
      if seen then isScanned s true :: after
      else if oseen
           then [isScanned s false; isScanned o true] ++ ev_ensure s w ++ after
           else [isScanned s false; isScanned o false; Rd (LImpS s)] ++
                (if joined then [Rd (LImpS s); Rd (LImpS o)] else ev_ensure s w ++ after)
  | IConcatOther seen w =>
      if seen then isScanned s true :: after
      else isScanned s false :: ev_ensure s w ++ after
  | IReader seen =>
      if seen then [isScanned s true; Rd (LImpU s); Rd (LImpS s)]
      else [isScanned s false; Rd (LImpS s)]
  end.

(* a goroutine uses imported strings through any sequence of method calls *)
Definition events_of_imported (calls : list (N * imethod)) : list event :=
  flat_map (fun c => ev_imethod (fst c) (snd c)) calls.

(* ------------------------------------------------------------------------------------------ *)
(* Everything a goroutine with its own Runtime r may do with shared values                    *)

Inductive action :=
| ARun (p : N) (o : vop)          (* a step of running shared Program p *)
| APrim (v : pval) (o : pop)      (* an operation on a shared ascii/unicode string, symbol, number, ... *)
| AImp (s : N) (m : imethod).     (* a method of shared imported string s *)

Definition ev_action (r : nat) (a : action) : list event :=
  match a with
  | ARun p o => ev_vop r p o
  | APrim v o => ev_pop r v o
  | AImp s m => ev_imethod s m
  end.

Definition events_of_actions (r : nat) (acts : list action) : list event := flat_map (ev_action r) acts.

(* ------------------------------------------------------------------------------------------ *)
(* Cross-runtime objects (runtime.go:1795-1805 toValue)                                       *)

Inductive gval := GPrim (v : pval) | GImported (s : N) | GObject (rt : nat) | GNilObject.
Inductive tv_result := TVOk (v : gval) | TVNull | TVTypeError.
Definition to_value (r : nat) (g : gval) : tv_result :=
  match g with
  | GNilObject => TVNull
  | GObject rt => if Nat.eqb rt r then TVOk g else TVTypeError
  | _ => TVOk g
  end.

(* values passed directly as this / newTarget / arguments of another runtime's Callable or Constructor wrapper, or to
   Runtime.New (runtime.go checkOwnValues, fix ecabeef of finding C16-N2): an Object of another runtime is refused
   with the same TypeError as toValue; everything else is pushed as it is *)
Definition call_arg_impl (r : nat) (g : gval) : tv_result :=
  match g with
  | GObject rt => if Nat.eqb rt r then TVOk g else TVTypeError
  | _ => TVOk g
  end.
