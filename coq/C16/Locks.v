(* C16 — lock discipline: accesses made while holding one mutex are ordered by happens-before.
   Used to show what a fix of finding F14 must achieve. *)
From Coq Require Import List Arith NArith Bool Lia.
Import ListNotations.
From Verif.C16 Require Import Model Proofs.

(* ------------------------------------------------------------------------------------------ *)
(* positions in the trace vs positions in the thread                                          *)

Lemma nth_split_proj : forall tr i t e, nth_error tr i = Some (t, e) ->
  exists pre post, tr = pre ++ (t, e) :: post /\ length pre = i /\
                   proj t tr = proj t pre ++ e :: proj t post.
Proof.
  intros tr i t e H. destruct (nth_error_split _ _ H) as (pre & post & -> & Hl).
  exists pre, post. repeat split; auto. rewrite proj_app, proj_cons_same. reflexivity.
Qed.

Lemma in_pre_index : forall (pre rest : list (nat * event)) x, In x pre ->
  exists a, a < length pre /\ nth_error (pre ++ rest) a = Some x.
Proof.
  intros pre rest x H. destruct (In_nth_error _ _ H) as [a Ha].
  assert (a < length pre) by (apply nth_error_Some; congruence).
  exists a. split; [assumption|]. rewrite nth_error_app1; assumption.
Qed.

Lemma index_in_pre : forall (pre rest : list (nat * event)) a x, a < length pre ->
  nth_error (pre ++ rest) a = Some x -> In x pre.
Proof.
  intros pre rest a x Ha H. rewrite nth_error_app1 in H by assumption. eapply nth_error_In; eauto.
Qed.

Lemma prefix_in_body : forall (A P body : list event) e u,
  A ++ e :: P = body ++ [u] -> e <> u -> forall y, In y A -> In y body.
Proof.
  intros A P body e u H Hne y Hy.
  destruct (exists_last (l := e :: P)) as (P' & z & HP); [discriminate|].
  rewrite HP in H. rewrite app_assoc in H. apply app_inj_tail in H. destruct H as [Hb Hz].
  destruct P' as [|e' P''].
  - simpl in HP. inversion HP; subst. contradiction.
  - simpl in HP. inversion HP; subst. apply in_or_app. left. exact Hy.
Qed.

Definition is_acc (e : event) : bool := match e with Acc _ _ _ => true | _ => false end.

(* a thread of the form  Lock m; body; Unlock m  holds m at each of its body accesses *)
Lemma locked_holds : forall tr i t k l v m body,
  nth_error tr i = Some (t, Acc k l v) ->
  proj t tr = Lock m :: body ++ [Unlock m] ->
  forallb is_acc body = true ->
  holds tr t m i.
Proof.
  intros tr i t k l v m body Hi Hp Hb.
  destruct (nth_split_proj _ _ _ _ Hi) as (pre & post & Htr & Hlen & Hpr).
  rewrite Hpr in Hp.
  destruct (proj t pre) as [|x A] eqn:EA; simpl in Hp; [inversion Hp|].
  inversion Hp as [[Hx Hrest]]. subst x.
  assert (Hlk : In (t, Lock m) pre) by (apply proj_in; rewrite EA; left; reflexivity).
  destruct (in_pre_index pre ((t, Acc k l v) :: post) _ Hlk) as (a & Ha & Hna).
  subst tr.
  exists a. split; [lia|]. split; [exact Hna|].
  intros u Hu Hun.
  assert (Hin : In (t, Unlock m) pre).
  { apply (index_in_pre pre ((t, Acc k l v) :: post) u); [lia|exact Hun]. }
  apply in_proj in Hin. rewrite EA in Hin. destruct Hin as [Hin|Hin]; [discriminate|].
  assert (Hbody : In (Unlock m) body).
  { eapply prefix_in_body; [exact Hrest|discriminate|exact Hin]. }
  rewrite forallb_forall in Hb. apply Hb in Hbody. discriminate.
Qed.

(* ------------------------------------------------------------------------------------------ *)
(* critical sections of one mutex are totally ordered by happens-before                       *)

Lemma cs_ordered : forall tr t t' m i j ei ej,
  lock_wf tr -> t <> t' -> i < j ->
  nth_error tr i = Some (t, ei) -> nth_error tr j = Some (t', ej) ->
  holds tr t m i -> holds tr t' m j -> hb tr i j.
Proof.
  intros tr t t' m i j ei ej Hwf Hne Hij Hi Hj (a & Hai & Hla & Hna) (c & Hcj & Hlc & Hnc).
  destruct (lt_eq_lt_dec a c) as [[Hac|Hac]|Hac].
  - destruct (Hwf a c t t' m Hac Hla Hlc) as (u & Hu & Hun).
    assert (Hiu : i <= u).
    { destruct (le_lt_dec i u); [assumption|]. exfalso. apply (Hna u); [lia|exact Hun]. }
    assert (Hcj' : hb tr c j) by (eapply hb_po; eauto).
    destruct (Nat.eq_dec i u) as [->|Hd].
    + eapply hb_trans; [|exact Hcj']. eapply hb_lock; [|exact Hun|exact Hlc]. lia.
    + eapply hb_trans; [eapply hb_po; [|exact Hi|exact Hun]; lia|].
      eapply hb_trans; [|exact Hcj']. eapply hb_lock; [|exact Hun|exact Hlc]. lia.
  - subst c. rewrite Hla in Hlc. inversion Hlc. contradiction.
  - destruct (Hwf c a t' t m Hac Hlc Hla) as (u & Hu & Hun).
    exfalso. apply (Hnc u); [lia|exact Hun].
Qed.

(* the lockset theorem: locations that are only accessed while holding m are never raced on *)
Theorem guarded_no_race : forall tr m (G : loc -> Prop),
  lock_wf tr ->
  (forall i t k l v, nth_error tr i = Some (t, Acc k l v) -> G l -> holds tr t m i) ->
  forall i j, race_at tr i j ->
  forall t k l v, nth_error tr i = Some (t, Acc k l v) -> ~ G l.
Proof.
  intros tr m G Hwf Hg i j (Hij & ti & tj & ei & ej & Hi & Hj & Hne & Hc & Hnhb) t k l v Hi' HG.
  rewrite Hi in Hi'. inversion Hi'; subst ti ei.
  destruct ej as [k2 l2 v2| |]; simpl in Hc; try contradiction.
  destruct Hc as (<- & _ & _).
  apply Hnhb. eapply cs_ordered; eauto.
Qed.

Corollary all_guarded_no_race : forall tr m,
  lock_wf tr ->
  (forall i t k l v, nth_error tr i = Some (t, Acc k l v) -> holds tr t m i) ->
  ~ race tr.
Proof.
  intros tr m Hwf Hg (i & j & Hr).
  pose proof Hr as (Hij & ti & tj & ei & ej & Hi & Hj & Hne & Hc & Hnhb).
  destruct ei as [k l v| |]; simpl in Hc; try contradiction.
  eapply (guarded_no_race tr m (fun _ => True)); eauto.
Qed.

