(* C16 — the scan-once protocol of importedString (mutex + atomic flag) is race-free for any number of
   goroutines, any sequence of method calls per goroutine, any interleaving. *)
From Coq Require Import List Arith NArith Bool Lia.
Import ListNotations.
From Verif.C16 Require Import Model Proofs Locks.

(* ------------------------------------------------------------------------------------------ *)
(* list / trace plumbing                                                                      *)

Lemma proj_split : forall t (l : list (nat * event)) P1 x P2,
  proj t l = P1 ++ x :: P2 ->
  exists l1 l2, l = l1 ++ (t, x) :: l2 /\ proj t l1 = P1 /\ proj t l2 = P2.
Proof.
  intros t l. induction l as [|[t' e] l IH]; intros P1 x P2 H.
  - destruct P1; discriminate.
  - unfold proj in H. simpl in H. destruct (Nat.eqb t' t) eqn:E.
    + apply Nat.eqb_eq in E. subst t'. simpl in H. destruct P1 as [|y P1].
      * simpl in H. inversion H. subst. exists [], l. repeat split. 
      * simpl in H. inversion H. subst y.
        destruct (IH P1 x P2 H2) as (l1 & l2 & -> & H3 & H4).
        exists ((t, e) :: l1), l2. repeat split; auto. rewrite proj_cons_same. congruence.
    + destruct (IH P1 x P2 H) as (l1 & l2 & -> & H3 & H4).
      exists ((t', e) :: l1), l2. repeat split; auto.
      unfold proj. simpl. rewrite E. exact H3.
Qed.

Lemma nth_mid : forall (l1 l2 : list (nat * event)) y, nth_error (l1 ++ y :: l2) (length l1) = Some y.
Proof. intros. rewrite nth_error_app2 by lia. rewrite Nat.sub_diag. reflexivity. Qed.

Lemma nth_after : forall (l1 l2 : list (nat * event)) y u z,
  length l1 < u -> nth_error (l1 ++ y :: l2) u = Some z -> In z l2.
Proof.
  intros l1 l2 y u z Hu H. rewrite nth_error_app2 in H by lia.
  destruct (u - length l1) as [|k] eqn:E; [lia|]. simpl in H. eapply nth_error_In; eauto.
Qed.

Lemma nth_firstn : forall (l : list (nat * event)) w u, u < w -> nth_error (firstn w l) u = nth_error l u.
Proof.
  induction l as [|x l IH]; intros w u H.
  - rewrite firstn_nil. reflexivity.
  - destruct w; [lia|]. destruct u; simpl; [reflexivity|]. apply IH. lia.
Qed.

Lemma firstn_split : forall (l : list (nat * event)) i x, nth_error l i = Some x ->
  l = firstn i l ++ x :: skipn (S i) l.
Proof.
  induction l as [|y l IH]; intros i x H.
  - destruct i; discriminate.
  - destruct i; simpl in *.
    + inversion H. reflexivity.
    + f_equal. apply IH. exact H.
Qed.

Lemma in_firstn_index : forall (l : list (nat * event)) w x, In x (firstn w l) ->
  exists u, u < w /\ nth_error l u = Some x.
Proof.
  intros l w x H. destruct (In_nth_error _ _ H) as [u Hu].
  assert (u < length (firstn w l)) by (apply nth_error_Some; congruence).
  pose proof (firstn_le_length w l).
  exists u. split; [lia|]. rewrite <- nth_firstn with (w := w) by lia. exact Hu.
Qed.

Lemma index_in_firstn : forall (l : list (nat * event)) w u x, u < w -> nth_error l u = Some x -> In x (firstn w l).
Proof.
  intros l w u x Hu H. rewrite <- nth_firstn with (w := w) in H by lia. eapply nth_error_In; eauto.
Qed.

Lemma loc_eqb_refl : forall l, loc_eqb l l = true.
Proof. intros. unfold loc_eqb. destruct (loc_eq_dec l l); congruence. Qed.

Lemma loc_eqb_true : forall a b, loc_eqb a b = true -> a = b.
Proof. intros a b. unfold loc_eqb. destruct (loc_eq_dec a b); congruence. Qed.

(* ------------------------------------------------------------------------------------------ *)
(* the per-goroutine protocol state for one string s                                          *)

Section OneString.
Variable s : N.
Let D := LOnceDone s.

Record st := mkst { held : bool; chk : bool; pub : bool }.
(* held: inside scanMu; chk: inside scanMu and saw scanDone = 0 there, no Store since;
   pub: has observed scanDone = 1 (or stored it) *)
Definition st0 := mkst false false false.

Definition step (x : st) (e : event) : st :=
  match e with
  | Lock m' => if N.eqb m' s then mkst true false (pub x) else x
  | Unlock m' => if N.eqb m' s then mkst false false (pub x) else x
  | Acc KARd (LOnceDone s') v =>
      if N.eqb s' s then (if v then mkst (held x) (chk x) true else mkst (held x) (held x) (pub x)) else x
  | Acc KAWr (LOnceDone s') _ => if N.eqb s' s then mkst (held x) false true else x
  | _ => x
  end.

(* what the protocol demands of an event in a given state *)
Definition req (x : st) (e : event) : bool :=
  match e with
  | Acc k (LImpU s') _ =>
      if N.eqb s' s then match k with KWr => chk x | KRd => pub x | _ => false end else true
  | Acc k (LImpScanned s') _ =>
      if N.eqb s' s then match k with KWr => held x | _ => false end else true
  | Acc k (LOnceDone s') _ =>
      if N.eqb s' s then match k with KARd => true | KAWr => held x | _ => false end else true
  | _ => true
  end.

Definition run (x : st) (l : list event) : st := fold_left step l x.

Fixpoint walk (x : st) (l : list event) : bool :=
  match l with [] => true | e :: r => req x e && walk (step x e) r end.

Lemma run_app : forall a b x, run x (a ++ b) = run (run x a) b.
Proof. intros. unfold run. apply fold_left_app. Qed.

Lemma walk_app : forall a b x, walk x (a ++ b) = walk x a && walk (run x a) b.
Proof.
  induction a as [|e a IH]; intros b x; simpl; [reflexivity|].
  rewrite IH. rewrite andb_assoc. reflexivity.
Qed.

Lemma walk_at : forall A e B x, walk x (A ++ e :: B) = true -> req (run x A) e = true.
Proof.
  intros A e B x H. rewrite walk_app in H. apply andb_true_iff in H. destruct H as [_ H].
  simpl in H. apply andb_true_iff in H. tauto.
Qed.

(* monotonicity: a stronger state satisfies more *)
Definition le_st (x y : st) : Prop :=
  (held x = true -> held y = true) /\ (chk x = true -> chk y = true) /\ (pub x = true -> pub y = true).

Lemma le_st0 : forall x, le_st st0 x.
Proof. intros x. repeat split; simpl; discriminate. Qed.

Lemma step_mono : forall x y e, le_st x y -> le_st (step x e) (step y e).
Proof.
  intros [h1 c1 p1] [h2 c2 p2] e (H1 & H2 & H3). simpl in *.
  destruct e as [k l v|m'|m']; simpl.
  - destruct k; try (repeat split; simpl; auto; fail);
      destruct l; try (repeat split; simpl; auto; fail);
      destruct (N.eqb s0 s); try (repeat split; simpl; auto; fail);
      try destruct v; repeat split; simpl; auto.
  - destruct (N.eqb m' s); repeat split; simpl; auto.
  - destruct (N.eqb m' s); repeat split; simpl; auto; discriminate.
Qed.

Lemma req_mono : forall x y e, le_st x y -> req x e = true -> req y e = true.
Proof.
  intros [h1 c1 p1] [h2 c2 p2] e (H1 & H2 & H3) H. simpl in *.
  destruct e as [k l v|m'|m']; simpl in *; auto.
  destruct l; auto; destruct (N.eqb s0 s); auto; destruct k; auto.
Qed.

Lemma walk_mono : forall l x y, le_st x y -> walk x l = true -> walk y l = true.
Proof.
  induction l as [|e l IH]; intros x y Hle H; simpl in *; [reflexivity|].
  apply andb_true_iff in H. destruct H as [Hr Hw]. apply andb_true_iff. split.
  - eapply req_mono; eauto.
  - eapply IH; [apply step_mono; exact Hle|exact Hw].
Qed.

(* ---- the meaning of the state after a thread prefix ---- *)

Lemma run_snoc : forall P e x, run x (P ++ [e]) = step (run x P) e.
Proof. intros. rewrite run_app. reflexivity. Qed.

Definition is_unlock_s (e : event) : Prop := e = Unlock s.
Definition is_store_D (e : event) : Prop := exists v, e = Acc KAWr D v.

(* classification of one step *)
Inductive step_kind (x : st) (e : event) : Prop :=
| SK_lock : e = Lock s -> step x e = mkst true false (pub x) -> step_kind x e
| SK_unlock : e = Unlock s -> step x e = mkst false false (pub x) -> step_kind x e
| SK_load_true : e = Acc KARd D true -> step x e = mkst (held x) (chk x) true -> step_kind x e
| SK_load_false : e = Acc KARd D false -> step x e = mkst (held x) (held x) (pub x) -> step_kind x e
| SK_store : (exists v, e = Acc KAWr D v) -> step x e = mkst (held x) false true -> step_kind x e
| SK_other : e <> Unlock s -> e <> Lock s -> (forall v, e <> Acc KAWr D v) -> (forall v, e <> Acc KARd D v) ->
             step x e = x -> step_kind x e.

Lemma step_classify : forall x e, step_kind x e.
Proof.
  intros x e. destruct e as [k l v|m'|m'].
  - destruct l; try (apply SK_other; [discriminate|discriminate|intros; unfold D; discriminate|intros; unfold D; discriminate|destruct k; reflexivity]).
    destruct (N.eqb_spec s0 s) as [->|Hne].
    + destruct k.
      * apply SK_other; try discriminate; try (intros; discriminate). reflexivity.
      * apply SK_other; try discriminate; try (intros; discriminate). reflexivity.
      * destruct v; [apply SK_load_true|apply SK_load_false]; try reflexivity; simpl; rewrite N.eqb_refl; reflexivity.
      * apply SK_store; [exists v; reflexivity|]. simpl. rewrite N.eqb_refl. reflexivity.
    + apply SK_other; try discriminate; try (intros v' H; unfold D in H; inversion H; congruence).
      destruct k; simpl; try reflexivity; destruct (N.eqb_spec s0 s); congruence.
  - destruct (N.eqb_spec m' s) as [->|Hne].
    + apply SK_lock; [reflexivity|]. simpl. rewrite N.eqb_refl. reflexivity.
    + apply SK_other; try discriminate; try (intros; discriminate); try congruence.
      simpl. destruct (N.eqb_spec m' s); congruence.
  - destruct (N.eqb_spec m' s) as [->|Hne].
    + apply SK_unlock; [reflexivity|]. simpl. rewrite N.eqb_refl. reflexivity.
    + apply SK_other; try discriminate; try (intros; discriminate); try congruence.
      simpl. destruct (N.eqb_spec m' s); congruence.
Qed.

Lemma held_meaning : forall P, held (run st0 P) = true ->
  exists P1 P2, P = P1 ++ Lock s :: P2 /\ ~ In (Unlock s) P2.
Proof.
  induction P as [|e P IH] using rev_ind; intros H.
  - discriminate.
  - rewrite run_snoc in H. destruct (step_classify (run st0 P) e) as [He Hs|He Hs|He Hs|He Hs|He Hs|N1 N2 N3 N4 Hs];
      rewrite Hs in H; simpl in H; try discriminate.
    + subst e. exists P, []. split; [reflexivity|]. intros [].
    + destruct (IH H) as (P1 & P2 & -> & Hn). exists P1, (P2 ++ [e]). split; [rewrite <- app_assoc; reflexivity|].
      intros Hin. apply in_app_or in Hin. destruct Hin as [Hin|[Hin|[]]]; [auto|]. subst e. discriminate.
    + destruct (IH H) as (P1 & P2 & -> & Hn). exists P1, (P2 ++ [e]). split; [rewrite <- app_assoc; reflexivity|].
      intros Hin. apply in_app_or in Hin. destruct Hin as [Hin|[Hin|[]]]; [auto|]. subst e. discriminate.
    + destruct (IH H) as (P1 & P2 & -> & Hn). exists P1, (P2 ++ [e]). split; [rewrite <- app_assoc; reflexivity|].
      intros Hin. apply in_app_or in Hin. destruct Hin as [Hin|[Hin|[]]]; [auto|]. subst e. destruct He as [v He]. discriminate.
    + destruct (IH H) as (P1 & P2 & -> & Hn). exists P1, (P2 ++ [e]). split; [rewrite <- app_assoc; reflexivity|].
      intros Hin. apply in_app_or in Hin. destruct Hin as [Hin|[Hin|[]]]; [auto|]. congruence.
Qed.

Lemma chk_meaning : forall P, chk (run st0 P) = true ->
  exists P1 P2 Q, P = P1 ++ Lock s :: P2 ++ Acc KARd D false :: Q /\
                  ~ In (Unlock s) (P2 ++ Acc KARd D false :: Q) /\ (forall v, ~ In (Acc KAWr D v) Q).
Proof.
  induction P as [|e P IH] using rev_ind; intros H.
  - discriminate.
  - rewrite run_snoc in H. destruct (step_classify (run st0 P) e) as [He Hs|He Hs|He Hs|He Hs|He Hs|N1 N2 N3 N4 Hs];
      rewrite Hs in H; simpl in H; try discriminate.
    + (* load true: chk unchanged *)
      destruct (IH H) as (P1 & P2 & Q & -> & Hn & Hq). exists P1, P2, (Q ++ [e]). split; [|split].
      * repeat (rewrite <- app_assoc; simpl). reflexivity.
      * intros Hin. apply Hn. apply in_app_or in Hin. apply in_or_app. destruct Hin as [Hin|Hin]; [left; exact Hin|right].
        destruct Hin as [Hin|Hin]; [left; exact Hin|right]. apply in_app_or in Hin. destruct Hin as [Hin|[Hin|[]]]; [exact Hin|].
        subst e. discriminate.
      * intros v Hin. apply in_app_or in Hin. destruct Hin as [Hin|[Hin|[]]]; [eapply Hq; eauto|]. subst e. discriminate.
    + (* load false: chk := held *)
      destruct (held_meaning P H) as (P1 & P2 & -> & Hn). subst e. exists P1, P2, []. split; [|split].
      * rewrite <- app_assoc. reflexivity.
      * intros Hin. apply in_app_or in Hin. destruct Hin as [Hin|[Hin|[]]]; [auto|discriminate].
      * intros v [].
    + (* other *)
      destruct (IH H) as (P1 & P2 & Q & -> & Hn & Hq). exists P1, P2, (Q ++ [e]). split; [|split].
      * repeat (rewrite <- app_assoc; simpl). reflexivity.
      * intros Hin. apply Hn. apply in_app_or in Hin. apply in_or_app. destruct Hin as [Hin|Hin]; [left; exact Hin|right].
        destruct Hin as [Hin|Hin]; [left; exact Hin|right]. apply in_app_or in Hin. destruct Hin as [Hin|[Hin|[]]]; [exact Hin|].
        congruence.
      * intros v Hin. apply in_app_or in Hin. destruct Hin as [Hin|[Hin|[]]]; [eapply Hq; eauto|]. eapply N3; eauto.
Qed.

Lemma pub_meaning : forall P, pub (run st0 P) = true ->
  exists P1 P2 x, P = P1 ++ x :: P2 /\ (x = Acc KARd D true \/ exists v, x = Acc KAWr D v).
Proof.
  induction P as [|e P IH] using rev_ind; intros H.
  - discriminate.
  - rewrite run_snoc in H.
    destruct (step_classify (run st0 P) e) as [He Hs|He Hs|He Hs|He Hs|He Hs|N1 N2 N3 N4 Hs];
      rewrite Hs in H; simpl in H;
      try (destruct (IH H) as (P1 & P2 & x & -> & Hx); exists P1, (P2 ++ [e]), x; split;
           [rewrite <- app_assoc; reflexivity|exact Hx]).
    + exists P, [], e. split; [reflexivity|left; exact He].
    + exists P, [], e. split; [reflexivity|right; exact He].
Qed.

End OneString.

(* ------------------------------------------------------------------------------------------ *)
(* from thread-local protocol states to facts about the trace                                 *)

Section Trace.
Variable s : N.
Let D := LOnceDone s.
Let U := LImpU s.

Definition tst (tr : list (nat * event)) (t i : nat) : st := run s st0 (proj t (firstn i tr)).

(* every event of the trace satisfies the protocol requirement in the state its thread is in *)
Definition Disc (tr : list (nat * event)) : Prop :=
  forall i t e, nth_error tr i = Some (t, e) -> req s (tst tr t i) e = true.

Lemma held_holds : forall tr t i, held (tst tr t i) = true -> holds tr t s i.
Proof.
  intros tr t i H. unfold tst in H.
  destruct (held_meaning s _ H) as (P1 & P2 & HP & Hn).
  destruct (proj_split _ _ _ _ _ HP) as (l1 & l2 & Hl & H1 & H2).
  pose proof (firstn_le_length i tr) as Hlen. rewrite Hl in Hlen. rewrite app_length in Hlen. simpl in Hlen.
  exists (length l1). split; [lia|]. split.
  - rewrite <- (nth_firstn tr i) by lia. rewrite Hl. apply nth_mid.
  - intros u Hu Hun. rewrite <- (nth_firstn tr i) in Hun by lia. rewrite Hl in Hun.
    apply nth_after in Hun; [|lia]. apply in_proj in Hun. rewrite H2 in Hun. contradiction.
Qed.

Lemma chk_facts : forall tr t w, chk (tst tr t w) = true ->
  exists a c, a < c /\ c < w /\
    nth_error tr a = Some (t, Lock s) /\ nth_error tr c = Some (t, Acc KARd D false) /\
    (forall u, a < u < w -> nth_error tr u <> Some (t, Unlock s)) /\
    (forall u v, c < u < w -> nth_error tr u <> Some (t, Acc KAWr D v)).
Proof.
  intros tr t w H. unfold tst in H.
  destruct (chk_meaning s _ H) as (P1 & P2 & Q & HP & Hn & Hq).
  destruct (proj_split _ _ _ _ _ HP) as (l1 & l2 & Hl & H1 & H2).
  destruct (proj_split _ _ _ _ _ H2) as (l2a & l2b & Hl2 & H3 & H4).
  pose proof (firstn_le_length w tr) as Hlen. rewrite Hl, Hl2 in Hlen.
  repeat (rewrite app_length in Hlen; simpl in Hlen).
  assert (Hl' : firstn w tr = (l1 ++ (t, Lock s) :: l2a) ++ (t, Acc KARd (LOnceDone s) false) :: l2b).
  { rewrite Hl, Hl2. rewrite <- app_assoc. reflexivity. }
  assert (Hc : length (l1 ++ (t, Lock s) :: l2a) = length l1 + S (length l2a)).
  { rewrite app_length. reflexivity. }
  exists (length l1), (length l1 + S (length l2a)). repeat split.
  - lia.
  - lia.
  - rewrite <- (nth_firstn tr w) by lia. rewrite Hl. apply nth_mid.
  - rewrite <- (nth_firstn tr w) by lia. rewrite Hl'. rewrite <- Hc. apply nth_mid.
  - intros u Hu Hun. rewrite <- (nth_firstn tr w) in Hun by lia. rewrite Hl in Hun.
    apply nth_after in Hun; [|lia]. apply in_proj in Hun. rewrite H2 in Hun. contradiction.
  - intros u v Hu Hun. rewrite <- (nth_firstn tr w) in Hun by lia. rewrite Hl' in Hun.
    apply nth_after in Hun; [|lia]. apply in_proj in Hun. rewrite H4 in Hun. eapply Hq; eauto.
Qed.

Lemma pub_facts : forall tr t r, pub (tst tr t r) = true ->
  exists a, a < r /\ (nth_error tr a = Some (t, Acc KARd D true) \/ exists v, nth_error tr a = Some (t, Acc KAWr D v)).
Proof.
  intros tr t r H. unfold tst in H.
  destruct (pub_meaning s _ H) as (P1 & P2 & x & HP & Hx).
  destruct (proj_split _ _ _ _ _ HP) as (l1 & l2 & Hl & H1 & H2).
  pose proof (firstn_le_length r tr) as Hlen. rewrite Hl in Hlen. rewrite app_length in Hlen. simpl in Hlen.
  assert (Hn : nth_error tr (length l1) = Some (t, x)).
  { rewrite <- (nth_firstn tr r) by lia. rewrite Hl. apply nth_mid. }
  exists (length l1). split; [lia|].
  destruct Hx as [->|[v ->]]; [left; exact Hn|right; exists v; exact Hn].
Qed.

(* mutual exclusion *)
Lemma excl : forall tr t t' a w x,
  lock_wf tr -> t <> t' ->
  nth_error tr a = Some (t, Lock s) -> (forall u, a < u < w -> nth_error tr u <> Some (t, Unlock s)) ->
  a < x -> x < w -> holds tr t' s x -> False.
Proof.
  intros tr t t' a w x Hwf Hne Ha Hnu Hax Hxw (c & Hcx & Hc & Hnc).
  destruct (lt_eq_lt_dec a c) as [[Hac|Hac]|Hac].
  - destruct (Hwf a c t t' s Hac Ha Hc) as (u & Hu & Hun). apply (Hnu u); [lia|exact Hun].
  - subst c. rewrite Ha in Hc. inversion Hc. contradiction.
  - destruct (Hwf c a t' t s Hac Hc Ha) as (u & Hu & Hun). apply (Hnc u); [lia|exact Hun].
Qed.

Section Disciplined.
Variable tr : list (nat * event).
Hypothesis Hwf : lock_wf tr.
Hypothesis Hcons : consistent tr.
Hypothesis Hdisc : Disc tr.

(* a Store of the flag is done holding the mutex *)
Lemma store_holds : forall x t v, nth_error tr x = Some (t, Acc KAWr D v) -> holds tr t s x.
Proof.
  intros x t v H. apply held_holds. pose proof (Hdisc _ _ _ H) as R. simpl in R.
  rewrite N.eqb_refl in R. exact R.
Qed.

(* a write of u is done holding the mutex, after a Load that saw 0 inside the same critical section *)
Lemma write_facts : forall w t v, nth_error tr w = Some (t, Acc KWr U v) ->
  exists a c, a < c /\ c < w /\
    nth_error tr a = Some (t, Lock s) /\ nth_error tr c = Some (t, Acc KARd D false) /\
    (forall u, a < u < w -> nth_error tr u <> Some (t, Unlock s)) /\
    (forall u v, c < u < w -> nth_error tr u <> Some (t, Acc KAWr D v)).
Proof.
  intros w t v H. apply chk_facts. pose proof (Hdisc _ _ _ H) as R. simpl in R.
  rewrite N.eqb_refl in R. exact R.
Qed.

Lemma write_holds : forall w t v, nth_error tr w = Some (t, Acc KWr U v) -> holds tr t s w.
Proof.
  intros w t v H. destruct (write_facts _ _ _ H) as (a & c & Hac & Hcw & Ha & _ & Hnu & _).
  exists a. split; [lia|]. split; [exact Ha|exact Hnu].
Qed.

(* every write to the flag is an atomic Store *)
Lemma flag_write_is_store : forall x t k v, nth_error tr x = Some (t, Acc k D v) -> is_write k = true -> k = KAWr.
Proof.
  intros x t k v H Hw. pose proof (Hdisc _ _ _ H) as R. simpl in R. rewrite N.eqb_refl in R.
  destruct k; try discriminate. reflexivity.
Qed.

(* no Store of the flag precedes a write of u *)
Lemma no_store_before_write : forall w t v x t' v',
  nth_error tr w = Some (t, Acc KWr U v) -> nth_error tr x = Some (t', Acc KAWr D v') -> x < w -> False.
Proof.
  intros w t v x t' v' Hw Hx Hxw.
  destruct (write_facts _ _ _ Hw) as (a & c & Hac & Hcw & Ha & Hc & Hnu & Hns).
  assert (Hcx : c < x).
  { destruct (lt_eq_lt_dec x c) as [[Hlt|Heq]|Hgt]; [|subst x; rewrite Hc in Hx; discriminate|exact Hgt].
    exfalso. pose proof (Hcons c t KARd D false Hc eq_refl eq_refl) as E.
    symmetry in E. assert (T : existsb (writes_loc D) (firstn c tr) = true).
    { apply existsb_exists. exists (t', Acc KAWr D v'). split; [eapply index_in_firstn; eauto|].
      unfold writes_loc. simpl. apply loc_eqb_refl. }
    exact (eq_true_false_abs _ T E). }
  destruct (Nat.eq_dec t t') as [<-|Hne].
  - apply (Hns x v'); [lia|exact Hx].
  - eapply (excl tr t t' a w x); eauto; [lia|]. eapply store_holds; eauto.
Qed.

(* a Load that saw 1 is preceded by a Store *)
Lemma load_true_store : forall a t, nth_error tr a = Some (t, Acc KARd D true) ->
  exists d t' v, d < a /\ nth_error tr d = Some (t', Acc KAWr D v).
Proof.
  intros a t H. pose proof (Hcons a t KARd D true H eq_refl eq_refl) as E. symmetry in E.
  apply existsb_exists in E. destruct E as ([t' e] & Hin & Hw).
  destruct (in_firstn_index _ _ _ Hin) as (d & Hd & Hnd).
  unfold writes_loc in Hw. simpl in Hw. destruct e as [k l v| |]; try discriminate.
  apply andb_true_iff in Hw. destruct Hw as [Hk Hl]. apply loc_eqb_true in Hl. subst l.
  pose proof (flag_write_is_store _ _ _ _ Hnd Hk) as ->.
  exists d, t', v. split; [exact Hd|exact Hnd].
Qed.

(* a read of u is ordered after every write of u by another goroutine *)
Lemma read_after_write : forall w r tw tr' vw vr,
  nth_error tr w = Some (tw, Acc KWr U vw) -> nth_error tr r = Some (tr', Acc KRd U vr) -> tw <> tr' ->
  w < r /\ hb tr w r.
Proof.
  intros w r tw tr' vw vr Hw Hr Hne.
  pose proof (Hdisc _ _ _ Hr) as R. simpl in R. rewrite N.eqb_refl in R.
  destruct (pub_facts _ _ _ R) as (a & Har & Hcase).
  assert (Hstore : exists d t' v, d <= a /\ nth_error tr d = Some (t', Acc KAWr D v) /\ (d = a \/ hb tr d a)).
  { destruct Hcase as [Hl|[v Hs]].
    - destruct (load_true_store _ _ Hl) as (d & t' & v & Hd & Hnd).
      exists d, t', v. split; [lia|]. split; [exact Hnd|right]. eapply hb_atomic; eauto.
    - exists a, tr', v. split; [lia|]. split; [exact Hs|left; reflexivity]. }
  destruct Hstore as (d & t' & v & Hda & Hnd & Hdhb).
  assert (Hwd : w < d).
  { destruct (lt_eq_lt_dec w d) as [[Hlt|Heq]|Hgt]; [exact Hlt|subst d; rewrite Hw in Hnd; discriminate|].
    exfalso. eapply no_store_before_write; eauto. }
  assert (Hwdhb : hb tr w d).
  { destruct (Nat.eq_dec tw t') as [<-|Hne'].
    - eapply hb_po; eauto.
    - eapply cs_ordered; eauto; [eapply write_holds; eauto|eapply store_holds; eauto]. }
  assert (Hwa : hb tr w a).
  { destruct Hdhb as [->|Hh]; [exact Hwdhb|eapply hb_trans; eauto]. }
  split; [lia|].
  eapply hb_trans; [exact Hwa|].
  destruct Hcase as [Hl|[v' Hs]]; eapply hb_po; eauto.
Qed.

(* no race on u, scanned or the flag of string s *)
Theorem once_no_race_on : forall i j, race_at tr i j ->
  forall t k l v, nth_error tr i = Some (t, Acc k l v) -> l <> U /\ l <> LImpScanned s /\ l <> D.
Proof.
  intros i j (Hij & ti & tj & ei & ej & Hi & Hj & Hne & Hc & Hnhb) t k l v Hi'.
  assert (E : Some (ti, ei) = Some (t, Acc k l v)) by (transitivity (nth_error tr i); [symmetry; exact Hi|exact Hi']).
  inversion E; subst ti ei. clear Hi' E.
  destruct ej as [k2 l2 v2| |]; simpl in Hc; try contradiction.
  destruct Hc as (<- & Hwr & Hat).
  pose proof (Hdisc _ _ _ Hi) as Ri. pose proof (Hdisc _ _ _ Hj) as Rj.
  repeat split; intros ->; simpl in Ri, Rj; rewrite N.eqb_refl in Ri, Rj.
  - (* u *)
    destruct k; try discriminate; destruct k2; try discriminate.
    + (* read, write *)
      destruct (read_after_write j i tj t v2 v Hj Hi (not_eq_sym Hne)) as [Hlt _]. lia.
    + (* write, read *)
      destruct (read_after_write i j t tj v v2 Hi Hj Hne) as [_ Hhb]. auto.
    + (* write, write *)
      apply Hnhb. eapply cs_ordered; eauto; eapply write_holds; eauto.
  - (* scanned: only written, holding the mutex *)
    destruct k; try discriminate; destruct k2; try discriminate.
    apply Hnhb. eapply cs_ordered; eauto; apply held_holds; assumption.
  - (* the flag: only atomic accesses *)
    destruct k; try discriminate; destruct k2; try discriminate.
Qed.

End Disciplined.
End Trace.

(* ------------------------------------------------------------------------------------------ *)
(* the transcribed operations follow the protocol                                             *)

Lemma call_walk : forall s s0 m, walk s st0 (ev_imethod s0 m) = true.
Proof.
  intros s s0 m.
  destruct m; repeat match goal with
                     | w : once_path |- _ => destruct w
                     | b : bool |- _ => destruct b
                     end; cbn; repeat (destruct (N.eqb _ s); cbn); reflexivity.
Qed.

(* events that do not concern imported strings at all *)
Definition neutral (e : event) : bool :=
  match e with
  | Acc _ l _ => match l with LImpS _ | LImpU _ | LImpScanned _ | LOnceDone _ => false | _ => true end
  | _ => false
  end.

Lemma neutral_walk : forall s l x, forallb neutral l = true -> walk s x l = true /\ run s x l = x.
Proof.
  intros s l. induction l as [|e l IH]; intros x H; simpl in *; [split; reflexivity|].
  apply andb_true_iff in H. destruct H as [He Hl].
  assert (req s x e = true /\ step s x e = x) as [Hr Hs].
  { destruct e as [k l0 v| |]; try discriminate. destruct l0; try discriminate; destruct k; split; reflexivity. }
  rewrite Hr, Hs. simpl. apply IH. exact Hl.
Qed.

Lemma vop_neutral : forall r p o, forallb neutral (ev_vop r p o) = true.
Proof.
  intros r p o. destruct o; try reflexivity.
  simpl. rewrite forallb_app. simpl. rewrite ?andb_true_r. rewrite forallb_flat_map. apply forallb_forall. intros i _. reflexivity.
Qed.

Lemma pop_neutral : forall r v o, forallb neutral (ev_pop r v o) = true.
Proof. intros r v o. destruct v, o; reflexivity. Qed.

Lemma action_walk : forall s r a x, walk s x (ev_action r a) = true.
Proof.
  intros s r a x. destruct a as [p o|v o|s0 m]; simpl.
  - apply neutral_walk. apply vop_neutral.
  - apply neutral_walk. apply pop_neutral.
  - eapply walk_mono; [apply le_st0|apply call_walk].
Qed.

Lemma actions_walk : forall s r acts x, walk s x (events_of_actions r acts) = true.
Proof.
  intros s r acts. induction acts as [|a acts IH]; intros x; [reflexivity|].
  unfold events_of_actions in *. simpl. rewrite walk_app. rewrite action_walk. simpl. apply IH.
Qed.

Lemma disc_of_threads : forall ths (tr : list (nat * event)),
  interleaving ths tr ->
  (forall t, t < length ths -> exists acts, nth t ths [] = events_of_actions t acts) ->
  forall s, Disc s tr.
Proof.
  intros ths tr Hil Hth s i t e Hn.
  destruct (event_of_thread _ _ _ _ _ Hil Hn) as [Ht _].
  destruct (Hth t Ht) as (acts & Hacts).
  destruct Hil as [_ Hp]. specialize (Hp t Ht).
  pose proof (f_equal (proj t) (firstn_split tr i (t, e) Hn)) as Hs.
  rewrite proj_app, proj_cons_same in Hs. rewrite Hp, Hacts in Hs.
  unfold tst. eapply walk_at. rewrite <- Hs. apply actions_walk.
Qed.

(* what the operations touch: imported-string locations only as the protocol allows, the string bytes only by
   reading; everything else under the ownership discipline *)
Definition event_class_ok (r : nat) (e : event) : bool :=
  match e with
  | Acc k l _ =>
      match l with
      | LImpS _ => match k with KRd => true | _ => false end
      | LImpU _ | LImpScanned _ | LOnceDone _ => true
      | _ => respectsb r e
      end
  | _ => true
  end.

Lemma action_class_ok : forall r a, forallb (event_class_ok r) (ev_action r a) = true.
Proof.
  intros r a. destruct a as [p o|v o|s0 m]; simpl.
  - destruct o; simpl; repeat rewrite Nat.eqb_refl; try reflexivity.
    rewrite forallb_app. simpl. rewrite Nat.eqb_refl. simpl. rewrite andb_true_r.
    rewrite forallb_flat_map. apply forallb_forall. intros i _. reflexivity.
  - destruct v, o; simpl; repeat rewrite Nat.eqb_refl; reflexivity.
  - destruct m; repeat match goal with
                       | w : once_path |- _ => destruct w
                       | b : bool |- _ => destruct b
                       end; reflexivity.
Qed.

Lemma actions_class_ok : forall r acts e, In e (events_of_actions r acts) -> event_class_ok r e = true.
Proof.
  intros r acts e H. unfold events_of_actions in H. apply in_flat_map in H. destruct H as (a & _ & He).
  pose proof (action_class_ok r a) as F. rewrite forallb_forall in F. apply F. exact He.
Qed.

(* ------------------------------------------------------------------------------------------ *)
(* THE theorem: any number of goroutines, each with its own Runtime, running shared Programs and using shared
   primitive values of every representation — imported strings included — under any interleaving that
   respects mutual exclusion and value consistency of the scanDone flags: no data race. *)
Theorem sharing_race_free : forall (ths : list (list event)) (tr : trace),
  (forall t, t < length ths -> exists acts, nth t ths [] = events_of_actions t acts) ->
  interleaving ths tr -> lock_wf tr -> consistent tr -> ~ race tr.
Proof.
  intros ths tr Hth Hil Hwf Hcons (i & j & Hr).
  pose proof Hr as (Hij & ti & tj & ei & ej & Hi & Hj & Hne & Hc & Hnhb).
  destruct (event_of_thread _ _ _ _ _ Hil Hi) as [Hti Hei].
  destruct (event_of_thread _ _ _ _ _ Hil Hj) as [Htj Hej].
  destruct (Hth ti Hti) as (ai & Hai). destruct (Hth tj Htj) as (aj & Haj).
  rewrite Hai in Hei. rewrite Haj in Hej.
  apply actions_class_ok in Hei. apply actions_class_ok in Hej.
  destruct ei as [k1 l1 v1| |]; destruct ej as [k2 l2 v2| |]; simpl in Hc; try contradiction.
  destruct Hc as (<- & Hw & Hat).
  assert (Honce : forall s, l1 <> LImpU s /\ l1 <> LImpScanned s /\ l1 <> LOnceDone s).
  { intros s. eapply (once_no_race_on s tr Hwf Hcons (disc_of_threads ths tr Hil Hth s) i j Hr); eauto. }
  destruct l1; simpl in Hei, Hej;
    try (destruct (Honce s) as (H1 & H2 & H3); congruence).
  - (* a Program location *) destruct (is_write k1), (is_write k2); simpl in *; discriminate.
  - (* string bytes: read-only *) destruct k1; try discriminate; destruct k2; discriminate.
  - destruct (is_write k1), (is_write k2); simpl in *; discriminate.
  - destruct (is_write k1), (is_write k2); simpl in *; discriminate.
  - destruct (is_write k1), (is_write k2); simpl in *; discriminate.
  - destruct (is_write k1), (is_write k2); simpl in *; discriminate.
  - destruct (is_write k1), (is_write k2); simpl in *; discriminate.
  - (* runtime-owned *) apply Nat.eqb_eq in Hei. apply Nat.eqb_eq in Hej. congruence.
Qed.

(* imported strings alone, as a corollary *)
Corollary imported_race_free : forall (ths : list (list event)) (tr : trace),
  (forall t, t < length ths -> exists calls, nth t ths [] = events_of_imported calls) ->
  interleaving ths tr -> lock_wf tr -> consistent tr -> ~ race tr.
Proof.
  intros ths tr Hth. apply sharing_race_free. intros t Ht. destruct (Hth t Ht) as (calls & Hc).
  exists (map (fun c => AImp (fst c) (snd c)) calls). rewrite Hc.
  unfold events_of_imported, events_of_actions. rewrite flat_map_concat_map, flat_map_concat_map, map_map. reflexivity.
Qed.

(* non-vacuity: a contended execution satisfying every hypothesis of [sharing_race_free]: goroutine 1 sees the
   flag unset, goroutine 0 then scans and publishes, goroutine 1 takes the mutex afterwards and sees the flag set *)
Definition contended_threads : list (list event) :=
  [events_of_actions 0 [AImp 0 (IEnsureThenU OnceSlowScan)]; events_of_actions 1 [AImp 0 (IEnsureThenU OnceSlowNoop)]].
Definition contended_trace : trace :=
  match nth 1 contended_threads [] with
  | e :: rest => (1, e) :: map (pair 0) (nth 0 contended_threads []) ++ map (pair 1) rest
  | [] => []
  end.

Example sharing_nonvacuous :
  (forall t, t < length contended_threads -> exists acts, nth t contended_threads [] = events_of_actions t acts) /\
  interleaving contended_threads contended_trace /\ lock_wf contended_trace /\ consistent contended_trace.
Proof.
  split; [|split; [split|split]].
  - intros t Ht. simpl in Ht. destruct t as [|[|t]]; [eexists; reflexivity|eexists; reflexivity|lia].
  - intros t e H. simpl in H. repeat (destruct H as [H|H]; [inversion H; simpl; lia|]). contradiction.
  - intros t Ht. simpl in Ht. destruct t as [|[|t]]; [reflexivity|reflexivity|lia].
  - intros a c t t' m Hac Ha Hc.
    assert (HL : forall x tt mm, nth_error contended_trace x = Some (tt, Lock mm) -> x = 2 \/ x = 11).
    { intros x tt mm Hx. do 16 (destruct x as [|x]; [simpl in Hx; try discriminate; auto|]). destruct x; discriminate. }
    destruct (HL _ _ _ Ha) as [->| ->]; destruct (HL _ _ _ Hc) as [->| ->]; try lia.
    simpl in Ha. inversion Ha; subst. exists 8. split; [lia|reflexivity].
  - intros i t k l v H Hw Hf.
    do 16 (destruct i as [|i]; [simpl in H; inversion H; subst; simpl in *; try discriminate; reflexivity|]).
    destruct i; discriminate.
Qed.
