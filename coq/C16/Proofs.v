(* C16 — proofs over the interleaving model (Model.v). *)
From Coq Require Import List Arith NArith Bool Lia.
Import ListNotations.
From Verif.C16 Require Import Model.

(* ------------------------------------------------------------------------------------------ *)
(* interleavings                                                                              *)

Lemma in_proj : forall t e tr, In (t, e) tr -> In e (proj t tr).
Proof.
  intros t e tr H. unfold proj.
  change e with (snd (t, e)). apply in_map. apply filter_In. split; [exact H|].
  simpl. apply Nat.eqb_refl.
Qed.

Lemma proj_in : forall t e tr, In e (proj t tr) -> In (t, e) tr.
Proof.
  intros t e tr H. unfold proj in H. apply in_map_iff in H. destruct H as ([t' e'] & He & Hf).
  apply filter_In in Hf. destruct Hf as [Hin Heq]. simpl in *. apply Nat.eqb_eq in Heq. subst. exact Hin.
Qed.

Lemma proj_app : forall t a b, proj t (a ++ b) = proj t a ++ proj t b.
Proof. intros. unfold proj. rewrite filter_app, map_app. reflexivity. Qed.

Lemma proj_cons_same : forall t e tr, proj t ((t, e) :: tr) = e :: proj t tr.
Proof. intros. unfold proj. simpl. rewrite Nat.eqb_refl. reflexivity. Qed.

Lemma event_of_thread : forall ths tr i t e,
  interleaving ths tr -> nth_error tr i = Some (t, e) -> t < length ths /\ In e (nth t ths []).
Proof.
  intros ths tr i t e [Hb Hp] H. apply nth_error_In in H.
  assert (Ht : t < length ths) by (eapply Hb; eauto).
  split; [exact Ht|]. rewrite <- (Hp t Ht). apply in_proj. exact H.
Qed.

(* ------------------------------------------------------------------------------------------ *)
(* 1. Threads that write only what they own and touch nothing owned by others never race       *)

Lemma respectsb_spec : forall t e, respectsb t e = true <-> respects t e.
Proof.
  intros t e. destruct e as [k l v| |]; simpl; try tauto.
  destruct (owner l); [apply Nat.eqb_eq|].
  destruct (is_write k); simpl; split; congruence.
Qed.

Theorem readonly_no_race : forall (ths : list (list event)) (tr : trace),
  interleaving ths tr ->
  (forall t e, t < length ths -> In e (nth t ths []) -> respects t e) ->
  ~ race tr.
Proof.
  intros ths tr Hi Hr (i & j & _ & ti & tj & ei & ej & Hni & Hnj & Hne & Hc & _).
  destruct (event_of_thread _ _ _ _ _ Hi Hni) as [Hti Hei].
  destruct (event_of_thread _ _ _ _ _ Hi Hnj) as [Htj Hej].
  pose proof (Hr _ _ Hti Hei) as Ri. pose proof (Hr _ _ Htj Hej) as Rj.
  destruct ei as [k1 l1 v1| |]; destruct ej as [k2 l2 v2| |]; simpl in Hc; try contradiction.
  destruct Hc as (-> & Hw & _). simpl in Ri, Rj.
  destruct (owner l2).
  - congruence.
  - rewrite Ri, Rj in Hw. discriminate.
Qed.

(* ------------------------------------------------------------------------------------------ *)
(* 2. A Program run is read-only on the Program                                               *)

Lemma forallb_flat_map : forall {A B} (f : B -> bool) (g : A -> list B) l,
  forallb f (flat_map g l) = forallb (fun x => forallb f (g x)) l.
Proof.
  intros A B f g l. induction l as [|x l IH]; simpl; [reflexivity|].
  rewrite forallb_app, IH. reflexivity.
Qed.

Lemma ev_vop_ok : forall r p o,
  forallb (fun e => respectsb r e && negb (writes_prog p e)) (ev_vop r p o) = true.
Proof.
  intros r p o. destruct o; simpl; repeat rewrite Nat.eqb_refl; try reflexivity.
  (* OTaggedTmpl: the copy loop reads every cell *)
  rewrite forallb_app. simpl. rewrite Nat.eqb_refl. simpl. rewrite andb_true_r.
  rewrite forallb_flat_map. apply forallb_forall. intros i _. reflexivity.
Qed.

Lemma run_ok : forall r p ops,
  forallb (fun e => respectsb r e && negb (writes_prog p e)) (events_of_run r p ops) = true.
Proof.
  intros r p ops. unfold events_of_run. rewrite forallb_flat_map.
  apply forallb_forall. intros o _. apply ev_vop_ok.
Qed.

Theorem program_run_readonly : forall r p ops e,
  In e (events_of_run r p ops) -> writes_prog p e = false /\ respects r e.
Proof.
  intros r p ops e He. pose proof (run_ok r p ops) as F.
  rewrite forallb_forall in F. specialize (F e He). apply andb_true_iff in F. destruct F as [F1 F2].
  split; [destruct (writes_prog p e); [discriminate|reflexivity]|apply respectsb_spec; exact F1].
Qed.

Lemma prims_ok : forall r uses e, In e (events_of_prims r uses) -> respects r e.
Proof.
  intros r uses e H. unfold events_of_prims in H. apply in_flat_map in H.
  destruct H as ([v o] & _ & He). simpl in He. apply respectsb_spec.
  destruct v, o; simpl in He;
    repeat (destruct He as [<-|He]; [simpl; rewrite ?Nat.eqb_refl; reflexivity|]); contradiction.
Qed.

(* 3. any number of runtimes running one Program (and sharing non-imported primitives), any schedule *)
Theorem race_free_shared_program : forall (p : N) (ths : list (list event)),
  (forall t, t < length ths ->
     exists ops uses, nth t ths [] = events_of_run t p ops ++ events_of_prims t uses) ->
  forall tr, interleaving ths tr -> ~ race tr.
Proof.
  intros p ths H tr Hi. apply (readonly_no_race ths tr Hi).
  intros t e Ht He. destruct (H t Ht) as (ops & uses & Heq). rewrite Heq in He.
  apply in_app_or in He. destruct He as [He|He].
  - apply (program_run_readonly t p ops e He).
  - apply (prims_ok t uses e He).
Qed.

Theorem primitive_share : forall (ths : list (list event)),
  (forall t, t < length ths -> exists uses, nth t ths [] = events_of_prims t uses) ->
  forall tr, interleaving ths tr -> ~ race tr.
Proof.
  intros ths H tr Hi. apply (readonly_no_race ths tr Hi).
  intros t e Ht He. destruct (H t Ht) as (uses & Heq). rewrite Heq in He. apply (prims_ok t uses e He).
Qed.

(* ------------------------------------------------------------------------------------------ *)
(* 4. without synchronisation events, happens-before is program order                         *)

Definition nosync (e : event) : bool :=
  match e with Acc k _ _ => negb (is_atomic k) | _ => false end.

Lemma hb_nosync_same_thread : forall tr, Forall (fun p => nosync (snd p) = true) tr ->
  forall i j, hb tr i j -> exists t a b, nth_error tr i = Some (t, a) /\ nth_error tr j = Some (t, b).
Proof.
  intros tr F i j H. rewrite Forall_forall in F.
  induction H as [i j t a b _ Hi Hj|i j t1 t2 m _ Hi _|i j t1 t2 l v1 v2 _ Hi _|i j k _ IH1 _ IH2].
  - eauto.
  - apply nth_error_In in Hi. apply F in Hi. discriminate.
  - apply nth_error_In in Hi. apply F in Hi. discriminate.
  - destruct IH1 as (t & a & b & Hi & Hj). destruct IH2 as (t' & a' & b' & Hj' & Hk).
    rewrite Hj in Hj'. inversion Hj'; subst. eauto.
Qed.

(* the model is not vacuous about races: the same two accesses WITHOUT the protocol do race
   (two goroutines, an unsynchronised write and read of one location) *)
Lemma unsynchronised_access_races : forall l, race [(0, Wr l); (1, Rd l)].
Proof.
  intros l. exists 0, 1. split; [lia|]. exists 0, 1, (Wr l), (Rd l).
  repeat split; try reflexivity; try lia.
  intros Hhb. apply hb_nosync_same_thread in Hhb.
  - destruct Hhb as (t & a & b & H1 & H2). simpl in H1, H2. congruence.
  - repeat constructor.
Qed.

(* ------------------------------------------------------------------------------------------ *)
(* 5. Cross-runtime objects                                                                   *)

Theorem cross_runtime_object_rejected : forall r rt, rt <> r -> to_value r (GObject rt) = TVTypeError.
Proof. intros r rt H. simpl. destruct (Nat.eqb rt r) eqn:E; [apply Nat.eqb_eq in E; contradiction|reflexivity]. Qed.

Theorem cross_runtime_object_rejected_call : forall r rt, rt <> r -> call_arg_impl r (GObject rt) = TVTypeError.
Proof. intros r rt H. simpl. destruct (Nat.eqb rt r) eqn:E; [apply Nat.eqb_eq in E; contradiction|reflexivity]. Qed.

(* the direct path agrees with toValue on every value that can be passed directly (a nil *Object cannot) *)
Theorem call_arg_agrees : forall r g, g <> GNilObject -> call_arg_impl r g = to_value r g.
Proof. intros r g H. destruct g; try reflexivity. contradiction. Qed.

Theorem same_runtime_or_primitive_accepted : forall r g,
  (forall rt, g = GObject rt -> rt = r) -> g <> GNilObject -> to_value r g = TVOk g.
Proof.
  intros r g H Hn. destruct g; simpl; try reflexivity; [|contradiction].
  rewrite (H rt eq_refl), Nat.eqb_refl. reflexivity.
Qed.
