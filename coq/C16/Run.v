(* C16 — executable instantiation used by the correspondence check (depends on Model.v only).

   A case is one Program (or one set of shared primitive values) used by several goroutines, each with
   its own Runtime.  The implementation's observation is the fingerprint of the canonicalised result of
   every goroutine plus the fingerprint of an isolated sequential run (separately compiled Program /
   separately built values).  The model of "sharing is invisible" is trivial: all fingerprints are equal.
   In addition the operations the case exercises are mapped to the model's event lists and checked
   structurally: no write to Program-owned memory, ownership respected — except where the model itself
   predicts a race (template cell redefinition C16-N1, unscanned imported strings F14); the harness' own
   prediction flag must agree with the model's. *)
From Coq Require Import List Arith NArith Bool.
Import ListNotations.
From Verif.C16 Require Export Model.

Inductive tcase :=
| CProg (ops : list vop) (predicted_racy : bool) (seq : N) (runs : list N)
| CVals (uses : list (pval * pop)) (imported : list (imethod * bool)) (predicted_racy : bool) (seq : N) (runs : list N)
| CXrt (r : nat) (g : gval) (obs : N)      (* obs: 0 accepted, 1 null, 2 TypeError, 3 anything else (panic, other error) *)
| CFail.

Definition run_readonly (ops : list vop) : bool :=
  forallb (fun e => respectsb 0 e && negb (writes_prog 0 e)) (events_of_run 0 0 ops).

Definition prims_readonly (uses : list (pval * pop)) : bool :=
  forallb (respectsb 0) (events_of_prims 0 uses).

(* an imported-string method is safe to share iff its event list (either branch) writes nothing shared *)
Definition imethod_readonly (ms : imethod * bool) : bool :=
  forallb (respectsb 0) (ev_imethod 0 (fst ms) (snd ms)).

Definition tv_code (t : tv_result) : N :=
  match t with TVOk _ => 0 | TVNull => 1 | TVTypeError => 2 end%N.

Definition check_case (c : tcase) : bool :=
  match c with
  | CProg ops pr seq runs =>
      forallb (N.eqb seq) runs && Bool.eqb (negb (run_readonly ops)) pr
  | CVals uses imp pr seq runs =>
      forallb (N.eqb seq) runs && prims_readonly uses && Bool.eqb (negb (forallb imethod_readonly imp)) pr
  | CXrt r g obs => N.eqb (tv_code (to_value r g)) obs
  | CFail => false
  end.

Fixpoint mismatch_from (i : N) (cs : list tcase) : list N :=
  match cs with
  | [] => []
  | c :: r => if check_case c then mismatch_from (N.succ i) r else i :: mismatch_from (N.succ i) r
  end.
Definition mismatch_ids := mismatch_from 0%N.

(* what the model says: (every goroutine must show this fingerprint, the model predicts a data race) *)
Definition expected (c : tcase) : N * bool :=
  match c with
  | CProg ops _ seq _ => (seq, negb (run_readonly ops))
  | CVals uses imp _ seq _ => (seq, negb (prims_readonly uses && forallb imethod_readonly imp))
  | CXrt r g _ => (tv_code (to_value r g), false)
  | CFail => (0%N, false)
  end.
