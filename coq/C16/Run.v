(* C16 — executable instantiation used by the correspondence check (depends on Model.v only).

   A case is one Program (or one set of shared primitive values) used by several goroutines, each with
   its own Runtime.  The implementation's observation is the fingerprint of the canonicalised result of
   every goroutine plus the fingerprint of an isolated sequential run (separately compiled Program /
   separately built values).  The model of "sharing is invisible" is trivial: all fingerprints are equal.
   In addition the operations the case exercises are mapped to the model's event lists and checked
   structurally: no write to Program-owned memory, ownership respected, imported-string fields touched
   only through the scan-once protocol's locations.
   xrt cases: an Object handed to another Runtime; the spec S is [to_value]; the direct path (this / arguments of
   a Callable, Runtime.New) is additionally compared with its own model [call_arg_impl]. *)
From Coq Require Import List Arith NArith Bool.
Import ListNotations.
From Verif.C16 Require Export Model.

Inductive tcase :=
| CProg (ops : list vop) (seq : N) (runs : list N) (alt : list (N * N))
     (* alt: (isolated result, shared-Program result) of the runtimes that have a host-provided global object *)
| CVals (acts : list action) (seq : N) (runs : list N)
| CXrt (direct : bool) (r : nat) (g : gval) (obs : N)
     (* obs: 0 accepted, 1 null, 2 TypeError, 3 anything else (panic, other error);
        direct = the value is passed as an argument of a Callable without any conversion *)
| CFail.

Definition run_readonly (ops : list vop) : bool :=
  forallb (fun e => respectsb 0 e && negb (writes_prog 0 e)) (events_of_run 0 0 ops).

Definition shared_event_ok (e : event) : bool :=
  match e with
  | Acc k l _ =>
      match l with
      | LImpS _ => negb (is_write k)
      | LImpU _ | LImpScanned _ => negb (is_atomic k)
      | LOnceDone _ => is_atomic k
      | _ => respectsb 0 e
      end
  | _ => true
  end.

Definition acts_ok (acts : list action) : bool := forallb shared_event_ok (events_of_actions 0 acts).

Definition tv_code (t : tv_result) : N :=
  match t with TVOk _ => 0 | TVNull => 1 | TVTypeError => 2 end%N.

Definition check_case (c : tcase) : bool :=
  match c with
  | CProg ops seq runs alt =>
      forallb (N.eqb seq) runs && forallb (fun p => N.eqb (fst p) (snd p)) alt && run_readonly ops
  | CVals acts seq runs => forallb (N.eqb seq) runs && acts_ok acts
  | CXrt direct r g obs =>
      N.eqb (tv_code (to_value r g)) obs && (negb direct || N.eqb (tv_code (call_arg_impl r g)) obs)
  | CFail => false
  end.

Fixpoint mismatch_from (i : N) (cs : list tcase) : list N :=
  match cs with
  | [] => []
  | c :: r => if check_case c then mismatch_from (N.succ i) r else i :: mismatch_from (N.succ i) r
  end.
Definition mismatch_ids := mismatch_from 0%N.

(* (what S says every goroutine / the API must show, what I says) *)
Definition expected (c : tcase) : N * N :=
  match c with
  | CProg _ seq _ _ => (seq, seq)
  | CVals _ seq _ => (seq, seq)
  | CXrt direct r g _ => (tv_code (to_value r g), if direct then tv_code (call_arg_impl r g) else tv_code (to_value r g))
  | CFail => (0%N, 0%N)
  end.
