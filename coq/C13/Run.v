(* C13 — executable instantiation used by the correspondence check (no proofs; depends on Model.v only). *)
From Coq Require Import List ZArith NArith Bool Arith.
Import ListNotations.
From Verif.C13 Require Export Model.

(* ------------------------------------------------------------------------------------------- *)
(* the small universe of the histories:
     type Base  struct { ID int `json:"id"` }
     type Inner struct { X int `json:"x"` }
     type Elem  struct { Base; A int `json:"a"`; B int `json:"bee,omitempty"`; hidden int; H int `json:"-"`;
                         In Inner `json:"in"`; P *Inner `json:"p"` }
   a *[]Elem wrapped by objectGoSliceReflect, element wrappers = objectGoReflect, P aliases shared cells *)

Record elem := mkE { eID : Z; eA : Z; eB : Z; eH : Z; eIn : Z; eP : option nat }.
Definition ezero := mkE 0 0 0 0 0 None.
Inductive fld := FID | FA | FB | FH | FIn | FP | FBase.
Definition fupd := (fld * Z)%type.
Definition app_upd (u : fupd) (e : elem) : elem :=
  match fst u with
  | FID => mkE (snd u) (eA e) (eB e) (eH e) (eIn e) (eP e)
  | FA => mkE (eID e) (snd u) (eB e) (eH e) (eIn e) (eP e)
  | FB => mkE (eID e) (eA e) (snd u) (eH e) (eIn e) (eP e)
  | FH => mkE (eID e) (eA e) (eB e) (snd u) (eIn e) (eP e)
  | _ => e
  end.
Definition fget (f : fld) (e : elem) : option Z :=
  match f with FID => Some (eID e) | FA => Some (eA e) | FB => Some (eB e) | FH => Some (eH e) | _ => None end.

(* property-name codes: 0 ID, 1 id, 2 A, 3 a, 4 B, 5 bee, 6 b, 7 H, 8 h, 9 P, 10 p, 11 Base, 12 base,
   13 hidden, 14 zzz, 15 iD, 16 In, 17 in *)
Definition elem_fds : list fd :=
  [FD 11 None true true (Some [FD 0 (Some 1%N) true false None]);
   FD 2 (Some 3%N) true false None; FD 4 (Some 5%N) true false None;
   FD 13 None false false None; FD 7 None true false None; FD 16 (Some 17%N) true false None;
   FD 9 (Some 10%N) true false None].
Definition uncap (n : N) : N :=
  match n with 0 => 15 | 2 => 3 | 4 => 6 | 7 => 8 | 9 => 10 | 11 => 12 | 16 => 17 | _ => n end%N.
(* 0 = nil mapper, 1 = TagFieldNameMapper("json", true), 2 = UncapFieldNameMapper() *)
Definition mapper_of (m : N) : N -> option N -> option N :=
  match m with
  | 0%N => fun n _ => Some n
  | 1%N => fun _ t => t
  | _ => fun n _ => Some (uncap n)
  end.
Definition fld_of_path (p : list nat) : option fld :=
  match p with
  | [0; 0] => Some FID | [1] => Some FA | [2] => Some FB | [4] => Some FH | [5] => Some FIn | [6] => Some FP
  | [0] => Some FBase | _ => None
  end.
Definition finfo_of (m : N) := fields_info (mapper_of m) elem_fds.
Definition resolve (m : N) (name : N) : option fld :=
  match fi_lookup name (finfo_of m) with Some p => fld_of_path p | None => None end.

(* toReflectValue(object literal -> struct): only fields with a js name are read from the literal,
   the others keep what the destination held *)
Definition merge (m : N) (old new : elem) : elem :=
  if N.eqb m 1 then mkE (eID new) (eA new) (eB new) (eH old) (eIn new) (eP new) else new.

Notation ist := (Model.ist elem).
Notation step := (Model.istep elem ezero fupd app_upd).
Definition st (s : ist) (o : pop elem fupd) : ist := fst (step s o).

Notation fwst := (Model.fwst Z).
Notation nst := (Model.nst elem Z).
Definition set_in (z : Z) (e : elem) : elem := mkE (eID e) (eA e) (eB e) (eH e) z (eP e).
Definition nstepE := Model.nstep elem ezero fupd app_upd Z eIn set_in Z (fun (u : Z) (_ : Z) => u).

Record world := mkW { w_s : ist; w_cells : list Z; w_H : list (option nat);
                      w_fws : list fwst; w_fc : list (option nat); w_fhs : list (option nat) }.
Definition mkW3 (w : world) (s : ist) (cells : list Z) (H : list (option nat)) : world :=
  mkW s cells H (w_fws w) (w_fc w) (w_fhs w).
Definition to_nst (w : world) : nst := mkNst elem Z (w_s w) (w_fws w) (w_fc w) (w_fhs w).
Definition of_nst (w : world) (n : nst) : world :=
  mkW (n_s _ _ n) (w_cells w) (w_H w) (n_fws _ _ n) (n_fc _ _ n) (n_fhs _ _ n).

Inductive hop :=
| HGet (i : nat)                          (* H.push(arr[i]) *)
| HPut (i : nat) (e : elem)               (* arr[i] = {..all visible fields..} / defineProperty value *)
| HPutH (i : nat) (k : nat)               (* arr[i] = H[k] *)
| HDel (i : nat)
| HSort                                   (* arr.sort((a,b) => a.A - b.A) *)
| HLen (n : nat)
| HPush (e : elem)
| HPop                                    (* H.push(arr.pop()) *)
| HSplice (s d : nat) (items : list elem)
| HReverse
| HGoPut (i : nat) (e : elem)             (* Go: arr[i] = Elem{..} *)
| HGoCell (c : nat) (z : Z)               (* Go: cells[c].X = z *)
| HRead (k : nat)                         (* [h.ID, h.A, h.B, h.P ? h.P.X : null] *)
| HGetF (k : nat) (name : N)              (* H[k][name] *)
| HSetF (k : nat) (name : N) (z : Z)      (* strict: H[k][name] = z *)
| HSetPX (k : nat) (z : Z)                (* strict: H[k].P.X = z *)
| HKeys (k : nat)                         (* Object.keys(H[k]) *)
| HDelF (k : nat) (name : N)              (* sloppy: delete H[k][name] *)
| HGetIn (k : nat)                        (* FH.push(H[k].In)            a FIELD wrapper is handed out *)
| HReadIn (c : nat)                       (* FH[c].X *)
| HSetInX (c : nat) (z : Z)               (* strict: FH[c].X = z *)
| HPutIn (k : nat) (z : Z)                (* strict: H[k].In = {X: z}    reassigns the field *)
| HPutInBad (k : nat) (strict : bool)     (* H[k].In = 5                 conversion fails *)
| HSameIn (k c : nat)                     (* H[k].In === FH[c] *)
| HPutBad (i : nat) (strict : bool)       (* arr[i] = 5                  conversion fails *)
| HDefNoVal (i : nat)                     (* Object.defineProperty(arr, i, {enumerable: true}) *)
| HDefFNoVal (k : nat) (name : N).        (* Object.defineProperty(H[k], name, {enumerable: true}) *)

Definition jelem := (Z * Z * Z * Z * option Z)%type.
Inductive hout := XUnit | XErr | XVal (v : option Z) | XBool (b : bool) | XElem (e : option jelem)
                | XKeys (l : list N).
Record obsrec := mkObs { o_out : hout; o_go : list elem; o_cells : list Z; o_js : list jelem }.

Definition render (cells : list Z) (e : elem) : jelem :=
  (eID e, eA e, eB e, eIn e, match eP e with Some c => nth_error cells c | None => None end).

Definition arr_len (w : world) := length (i_arr _ (w_s w)).
Definition nhs (s : ist) := length (i_hs _ s).

(* internal getIdx: creates/caches a wrapper, returns its handle index in i_hs *)
Definition iget (s : ist) (i : nat) : ist * nat := (st s (PGet i), nhs s).

Definition do_put (m : N) (s : ist) (i : nat) (e : elem) : ist :=
  st s (PPut i (merge m (nth i (i_arr _ s) ezero) e)).

(* bubble sort by A with adjacent swaps: a stable in-place sort through objectGoArrayReflect.swap *)
Fixpoint bubble_pass (s : ist) (i n : nat) : ist :=
  match n with
  | 0 => s
  | S n' =>
      let s' := match nth_error (i_arr _ s) i, nth_error (i_arr _ s) (S i) with
                | Some x, Some y => if (eA y <? eA x)%Z then st s (PSwap i (S i)) else s
                | _, _ => s
                end in
      bubble_pass s' (S i) n'
  end.
Fixpoint bubble (s : ist) (n : nat) : ist :=
  match n with 0 => s | S n' => bubble (bubble_pass s 0 (length (i_arr _ s) - 1)) n' end.

(* Array.prototype.splice, generic path (builtin_array.go) *)
Fixpoint shift_down (s : ist) (k cnt d items : nat) : ist :=   (* itemCount < deleteCount *)
  match cnt with
  | 0 => s
  | S c => let (s1, h) := iget s (k + d) in shift_down (st s1 (PPutH (k + items) h)) (S k) c d items
  end.
Fixpoint del_down (s : ist) (k cnt : nat) : ist :=             (* deleteIdx(k-1) for k downwards *)
  match cnt with 0 => s | S c => del_down (st s (PDel (k - 1))) (k - 1) c end.
Fixpoint shift_up (s : ist) (k cnt d items : nat) : ist :=     (* itemCount > deleteCount, k downwards *)
  match cnt with
  | 0 => s
  | S c => let (s1, h) := iget s (k + d - 1) in shift_up (st s1 (PPutH (k + items - 1) h)) (k - 1) c d items
  end.
Fixpoint get_range (s : ist) (k cnt : nat) : ist :=
  match cnt with 0 => s | S c => get_range (fst (iget s k)) (S k) c end.
Fixpoint put_items (m : N) (s : ist) (k : nat) (l : list elem) : ist :=
  match l with [] => s | e :: r => put_items m (do_put m s k e) (S k) r end.

Definition do_splice (m : N) (s : ist) (start d : nat) (items : list elem) : ist :=
  let n := length (i_arr _ s) in
  let start := Nat.min start n in
  let d := Nat.min d (n - start) in
  let ic := length items in
  let s1 := get_range s start d in
  let s2 := if Nat.ltb ic d then
              del_down (shift_down s1 start (n - d - start) d ic) n (d - ic)
            else if Nat.ltb d ic then shift_up s1 (n - d) (n - d - start) d ic
            else s1 in
  let s3 := put_items m s2 start items in
  st s3 (PLen (n - d + ic)).

Fixpoint rev_steps (s : ist) (lower cnt n : nat) : ist :=
  match cnt with
  | 0 => s
  | S c =>
      let upper := n - lower - 1 in
      let (s1, hl) := iget s lower in
      let (s2, hu) := iget s1 upper in
      rev_steps (st (st s2 (PPutH lower hu)) (PPutH upper hl)) (S lower) c n
  end.

Definition hval (w : world) (k : nat) : option elem :=
  match nth_error (w_H w) k with Some (Some h) => hdenote _ (w_s w) h | _ => None end.
Definition hidx (w : world) (k : nat) : option nat :=
  match nth_error (w_H w) k with Some (Some h) => Some h | _ => None end.

Definition hstep (m : N) (w : world) (o : hop) : world * hout :=
  let s := w_s w in
  let keep s' := mkW3 w s' (w_cells w) (w_H w) in
  match o with
  | HGet i =>
      if Nat.ltb i (arr_len w) then
        let (s1, h) := iget s i in (mkW3 w s1 (w_cells w) (w_H w ++ [Some h]), XUnit)
      else (mkW3 w s (w_cells w) (w_H w ++ [None]), XUnit)
  | HPut i e => (keep (do_put m s i e), XUnit)
  | HPutH i k =>
      match hidx w k with
      | Some h => (keep (st s (PPutH i h)), XUnit)
      | None => (keep (st s (PPut i ezero)), XUnit)       (* undefined -> zero value *)
      end
  | HDel i => (keep (st s (PDel i)), XUnit)
  | HSort => (keep (bubble s (arr_len w)), XUnit)
  | HLen n => (keep (st s (PLen n)), XUnit)
  | HPush e => (keep (do_put m s (arr_len w) e), XUnit)
  | HPop =>
      match arr_len w with
      | 0 => (mkW3 w s (w_cells w) (w_H w ++ [None]), XUnit)
      | S l =>
          let (s1, h) := iget s l in
          (mkW3 w (st (st s1 (PDel l)) (PLen l)) (w_cells w) (w_H w ++ [Some h]), XUnit)
      end
  | HSplice a d items => (keep (do_splice m s a d items), XUnit)
  | HReverse => (keep (rev_steps s 0 (arr_len w / 2) (arr_len w)), XUnit)
  | HGoPut i e => (keep (if Nat.ltb i (arr_len w) then st s (PGoPut i e) else s), XUnit)
  | HGoCell c z => (mkW3 w s (upd (w_cells w) c z) (w_H w), XUnit)
  | HRead k => (w, XElem (option_map (render (w_cells w)) (hval w k)))
  | HGetF k name =>
      match hval w k with
      | None => (w, XErr)
      | Some e => (w, XVal (match resolve m name with Some f => fget f e | None => None end))
      end
  | HSetF k name z =>
      match hidx w k, hval w k with
      | Some h, Some _ =>
          match resolve m name with
          | Some f => match fget f ezero with
                      | Some _ => (keep (st s (PWriteH h (f, z))), XUnit)
                      | None => (w, XErr)
                      end
          | None => (w, XErr)
          end
      | _, _ => (w, XErr)
      end
  | HSetPX k z =>
      match hval w k with
      | Some e => match eP e with
                  | Some c => (mkW3 w s (upd (w_cells w) c z) (w_H w), XUnit)
                  | None => (w, XErr)
                  end
      | None => (w, XErr)
      end
  | HKeys k =>
      match hval w k with
      | Some _ => (w, XKeys (map fst (finfo_of m)))
      | None => (w, XErr)
      end
  | HDelF k name =>
      match hval w k with
      | Some _ => (w, XBool (match fi_lookup name (finfo_of m) with Some _ => false | None => true end))
      | None => (w, XErr)
      end
  | HGetIn k =>
      let (n', _) := nstepE (to_nst w) (NGetF (match hidx w k with Some h => h | None => length (i_hs _ (w_s w)) end)) in
      (of_nst w n', XUnit)
  | HReadIn c => (w, XVal (fhdenote _ _ eIn (to_nst w) c))
  | HSetInX c z =>
      match fhdenote _ _ eIn (to_nst w) c with
      | Some _ => (of_nst w (fst (nstepE (to_nst w) (NWriteF c z))), XUnit)
      | None => (w, XErr)
      end
  | HPutIn k z =>
      match hidx w k, hval w k with
      | Some h, Some _ => (of_nst w (fst (nstepE (to_nst w) (NPutF h z))), XUnit)
      | _, _ => (w, XErr)
      end
  | HPutInBad k strict =>
      match hval w k with
      | Some _ => (w, if strict then XErr else XUnit)
      | None => (w, XErr)
      end
  | HSameIn k c =>
      match hidx w k, hval w k with
      | Some h, Some _ =>
          match snd (nstepE (to_nst w) (NSameF h c)) with
          | NB b => (w, XBool b)
          | _ => (w, XErr)
          end
      | _, _ => (w, XErr)
      end
  | HPutBad i strict =>
      (* objectGoSliceReflect._putIdx grows first, then the conversion fails and the cached wrapper is re-attached *)
      (keep (if Nat.ltb i (arr_len w) then s else st s (PLen (S i))), if strict then XErr else XUnit)
  | HDefNoVal i => (keep (st s (PPut i ezero)), XUnit)      (* value = undefined -> the zero Elem, no merge *)
  | HDefFNoVal k name =>
      match hval w k with
      | Some _ => (w, match fi_lookup name (finfo_of m) with Some _ => XUnit | None => XErr end)
      | None => (w, XErr)
      end
  end.

Definition observe (w : world) (x : hout) : obsrec :=
  mkObs x (i_arr _ (w_s w)) (w_cells w) (map (render (w_cells w)) (i_arr _ (w_s w))).

Fixpoint hrun (m : N) (w : world) (ops : list hop) : list obsrec :=
  match ops with
  | [] => []
  | o :: r => let (w1, x) := hstep m w o in observe w1 x :: hrun m w1 r
  end.

(* ------------------------------------------------------------------------------------------- *)
(* maps: map[string]int behind objectGoMapReflect / map[string]interface{} behind objectGoMapSimple *)

Inductive mop := MSet (k : N) (v : Z) | MDel (k : N) | MGet (k : N) | MHas (k : N) | MKeys
               | MDefine (k : N) (v : Z) | MGoSet (k : N) (v : Z) | MGoDel (k : N)
               | MDefNoVal (k : N).        (* Object.defineProperty(m, k, {enumerable: true}) *)
Inductive mout := MU | MV (v : option Z) | MB (b : bool) | ME.
Record mobs := mkMObs { m_out : mout; m_go : list (N * Z); m_js : list (N * Z) }.   (* sorted by key *)

Fixpoint minsert (k : N) (v : Z) (l : list (N * Z)) : list (N * Z) :=
  match l with
  | [] => [(k, v)]
  | (k', v') :: r => if N.ltb k k' then (k, v) :: l else if N.eqb k k' then (k, v) :: r
                     else (k', v') :: minsert k v r
  end.
Fixpoint mremove (k : N) (l : list (N * Z)) : list (N * Z) :=
  match l with [] => [] | (k', v') :: r => if N.eqb k k' then r else (k', v') :: mremove k r end.
Fixpoint mfind (k : N) (l : list (N * Z)) : option Z :=
  match l with [] => None | (k', v') :: r => if N.eqb k k' then Some v' else mfind k r end.

(* [nilmap]: the wrapper of a nil typed Go map (reads work, every write is a TypeError; sets are run in strict
   mode); [zero]: what a new key defined without a value holds (0 for map[string]int; -1 encodes nil for
   map[string]interface{}) *)
Definition mstep (nilmap : bool) (zero : Z) (l : list (N * Z)) (o : mop) : list (N * Z) * mout :=
  if nilmap && match o with MSet _ _ | MDefine _ _ | MDefNoVal _ => true | _ => false end then (l, ME) else
  match o with
  | MSet k v | MDefine k v | MGoSet k v => (minsert k v l, MU)
  | MDefNoVal k => (match mfind k l with Some _ => l | None => minsert k zero l end, MU)
  | MDel k => (mremove k l, MB true)
  | MGoDel k => (mremove k l, MU)
  | MGet k => (l, MV (mfind k l))
  | MHas k => (l, MB (match mfind k l with Some _ => true | None => false end))
  | MKeys => (l, MU)
  end.
Fixpoint mrun (nilmap : bool) (zero : Z) (l : list (N * Z)) (ops : list mop) : list mobs :=
  match ops with
  | [] => []
  | o :: r => let (l1, x) := mstep nilmap zero l o in mkMObs x l1 l1 :: mrun nilmap zero l1 r
  end.

(* ------------------------------------------------------------------------------------------- *)
(* plain slices and arrays: *[]interface{} (objectGoSlice), *[]int (objectGoSliceReflect), *[N]int
   (objectGoArrayReflect); Go truncates / appends through the shared pointer, script grows again: the
   specification is the list itself -- what Go cut off is gone, new slots hold the zero value *)

Inductive gkind := GKIface | GKInt | GKArr.
Inductive gop :=
| GSet (i : nat) (z : Z) (strict : bool) | GDel (i : nat) | GLen (n : nat) (strict : bool) | GPush (z : Z) | GPop
| GSort | GGoTrunc (n : nat) | GGoAppend (z : Z) | GGoSet (i : nat) (z : Z) | GDefNoVal (i : nat) | GGet (i : nat).
Inductive gout := GU | GE | GVal (v : option (option Z)).      (* None = undefined, Some None = null *)
Record gobs := mkGObs { g_out : gout; g_go : list (option Z); g_js : list (option Z) }.

Definition gzero (k : gkind) : option Z := match k with GKIface => None | _ => Some 0%Z end.
Definition ggrow (k : gkind) (l : list (option Z)) (n : nat) := l ++ repeat (gzero k) (n - length l).
Definition gkey (o : option Z) : Z := match o with Some z => z | None => 0%Z end.
Fixpoint ginsert (x : option Z) (l : list (option Z)) : list (option Z) :=
  match l with
  | [] => [x]
  | y :: r => if (gkey x <? gkey y)%Z then x :: l else y :: ginsert x r
  end.
Definition gsort (l : list (option Z)) : list (option Z) := fold_left (fun acc x => ginsert x acc) l [].
Definition is_arr (k : gkind) : bool := match k with GKArr => true | _ => false end.

Definition gstep (k : gkind) (l : list (option Z)) (o : gop) : list (option Z) * gout :=
  let len := length l in
  match o with
  | GSet i z strict =>
      if Nat.ltb i len then (upd l i (Some z), GU)
      else if is_arr k then (l, if strict then GE else GU)
      else (upd (ggrow k l (S i)) i (Some z), GU)
  | GDel i => (if Nat.ltb i len then upd l i (gzero k) else l, GU)
  | GLen n strict =>
      if is_arr k then (l, if strict then GE else GU)
      else (if Nat.ltb n len then firstn n l else ggrow k l n, GU)
  | GPush z => if is_arr k then (l, GE) else (l ++ [Some z], GU)
  | GPop =>
      match len with
      | 0 => (l, GVal None)
      | S n => if is_arr k then (upd l n (gzero k), GE)      (* element cleared, then "length" cannot be set *)
               else (firstn n l, GVal (Some (nth n l None)))
      end
  | GSort => (gsort l, GU)
  | GGoTrunc n => (if is_arr k then l else firstn n l, GU)
  | GGoAppend z => (if is_arr k then l else l ++ [Some z], GU)
  | GGoSet i z => (if Nat.ltb i len then upd l i (Some z) else l, GU)
  | GDefNoVal i =>
      if Nat.ltb i len then (upd l i (gzero k), GU)
      else if is_arr k then (l, GE)
      else (ggrow k l (S i), GU)
  | GGet i => (l, GVal (if Nat.ltb i len then Some (nth i l None) else None))
  end.
Fixpoint grun (k : gkind) (l : list (option Z)) (ops : list gop) : list gobs :=
  match ops with
  | [] => []
  | o :: r => let (l1, x) := gstep k l o in mkGObs x l1 l1 :: grun k l1 r
  end.

(* ------------------------------------------------------------------------------------------- *)
(* exported graphs: canonical shape by first occurrence of an address *)

Inductive gshape := ShP (z : Z) | ShNew (isarr : bool) (kids : list (N * gshape)) | ShBack (n : nat).

Fixpoint index_of (a : nat) (l : list nat) (i : nat) : option nat :=
  match l with [] => None | x :: r => if Nat.eqb a x then Some i else index_of a r (S i) end.

Fixpoint canon (fuel : nat) (hp : list gcell) (seen : list nat) (r : gres) : option (list nat * gshape) :=
  let visit (f : nat) (a : nat) (isarr : bool) :=
    match index_of a seen 0 with
    | Some n => Some (seen, ShBack n)
    | None =>
        let kvs := match nth_error hp a with
                   | Some (GCMap kvs) => kvs
                   | Some (GCSlice es) => map (fun e => (0%N, e)) es
                   | None => []
                   end in
        match (fix go (l : list (N * gres)) (sn : list nat) : option (list nat * list (N * gshape)) :=
                 match l with
                 | [] => Some (sn, [])
                 | (k, x) :: rest =>
                     match canon f hp sn x with
                     | None => None
                     | Some (sn1, sx) =>
                         match go rest sn1 with
                         | None => None
                         | Some (sn2, sr) => Some (sn2, (k, sx) :: sr)
                         end
                     end
                 end) kvs (seen ++ [a]) with
        | None => None
        | Some (sn, kids) => Some (sn, ShNew isarr kids)
        end
    end in
  match r with
  | RP z => Some (seen, ShP z)
  | RMap a => match fuel with 0 => None | S f => visit f a false end
  | RSlice a => match fuel with 0 => None | S f => visit f a true end
  end.

Definition model_shape (g : graph) (root : jv) : option gshape :=
  match export_graph g root with
  | Some (s, r) => option_map snd (canon (S (S (length g))) (e_heap s) [] r)
  | None => None
  end.

Fixpoint shape_eqb (a b : gshape) {struct a} : bool :=
  match a, b with
  | ShP x, ShP y => Z.eqb x y
  | ShBack x, ShBack y => Nat.eqb x y
  | ShNew ia ka, ShNew ib kb =>
      Bool.eqb ia ib &&
      (fix go (l1 l2 : list (N * gshape)) : bool :=
         match l1, l2 with
         | [], [] => true
         | (k1, s1) :: r1, (k2, s2) :: r2 => N.eqb k1 k2 && shape_eqb s1 s2 && go r1 r2
         | _, _ => false
         end) ka kb
  | _, _ => false
  end.

(* ------------------------------------------------------------------------------------------- *)
(* cases *)

Inductive tcase :=
| TBits (bits : list bool)      (* round-trip / no-panic checks whose oracle is Go itself: all must hold *)
| THist (m : N) (init : list elem) (cells : list Z) (ops : list hop) (obs : list obsrec)
| TMap (nilmap : bool) (zero : Z) (init : list (N * Z)) (ops : list mop) (obs : list mobs)
| TSlice (k : gkind) (init : list (option Z)) (ops : list gop) (obs : list gobs)
| TGraph (g : graph) (root : jv) (shape : gshape)
| TFail.

Definition oZ_eqb (a b : option Z) : bool :=
  match a, b with Some x, Some y => Z.eqb x y | None, None => true | _, _ => false end.
Definition onat_eqb (a b : option nat) : bool :=
  match a, b with Some x, Some y => Nat.eqb x y | None, None => true | _, _ => false end.
Definition elem_eqb (a b : elem) : bool :=
  Z.eqb (eID a) (eID b) && Z.eqb (eA a) (eA b) && Z.eqb (eB a) (eB b) && Z.eqb (eH a) (eH b)
  && Z.eqb (eIn a) (eIn b) && onat_eqb (eP a) (eP b).
Definition jelem_eqb (a b : jelem) : bool :=
  match a, b with (i1, a1, b1, n1, p1), (i2, a2, b2, n2, p2) =>
    Z.eqb i1 i2 && Z.eqb a1 a2 && Z.eqb b1 b2 && Z.eqb n1 n2 && oZ_eqb p1 p2 end.
Fixpoint list_eqb {A} (f : A -> A -> bool) (l1 l2 : list A) : bool :=
  match l1, l2 with
  | [], [] => true
  | x :: r1, y :: r2 => f x y && list_eqb f r1 r2
  | _, _ => false
  end.
Definition hout_eqb (a b : hout) : bool :=
  match a, b with
  | XUnit, XUnit => true | XErr, XErr => true
  | XVal x, XVal y => oZ_eqb x y
  | XBool x, XBool y => Bool.eqb x y
  | XElem None, XElem None => true
  | XElem (Some x), XElem (Some y) => jelem_eqb x y
  | XKeys x, XKeys y => list_eqb N.eqb x y
  | _, _ => false
  end.
Definition obs_eqb (a b : obsrec) : bool :=
  hout_eqb (o_out a) (o_out b) && list_eqb elem_eqb (o_go a) (o_go b)
  && list_eqb Z.eqb (o_cells a) (o_cells b) && list_eqb jelem_eqb (o_js a) (o_js b).
Definition kv_eqb (a b : N * Z) : bool := N.eqb (fst a) (fst b) && Z.eqb (snd a) (snd b).
Definition mout_eqb (a b : mout) : bool :=
  match a, b with
  | MU, MU => true | ME, ME => true | MV x, MV y => oZ_eqb x y | MB x, MB y => Bool.eqb x y | _, _ => false end.
Definition mobs_eqb (a b : mobs) : bool :=
  mout_eqb (m_out a) (m_out b) && list_eqb kv_eqb (m_go a) (m_go b) && list_eqb kv_eqb (m_js a) (m_js b).

Definition gout_eqb (a b : gout) : bool :=
  match a, b with
  | GU, GU => true | GE, GE => true
  | GVal None, GVal None => true
  | GVal (Some x), GVal (Some y) => oZ_eqb x y
  | _, _ => false
  end.
Definition gobs_eqb (a b : gobs) : bool :=
  gout_eqb (g_out a) (g_out b) && list_eqb oZ_eqb (g_go a) (g_go b) && list_eqb oZ_eqb (g_js a) (g_js b).

Definition world0 (init : list elem) (cells : list Z) : world := mkW (iinit _ init) cells [] [] [] [].

Inductive texp := EBits | EHist (l : list obsrec) | EMap (l : list mobs) | ESlice (l : list gobs)
                | EShape (s : option gshape) | ENever.

Definition expected (c : tcase) : texp :=
  match c with
  | TBits _ => EBits
  | THist m init cells ops _ => EHist (hrun m (world0 init cells) ops)
  | TMap nm z init ops _ => EMap (mrun nm z init ops)
  | TSlice k init ops _ => ESlice (grun k init ops)
  | TGraph g root _ => EShape (model_shape g root)
  | TFail => ENever
  end.

Definition check_case (c : tcase) : bool :=
  match c with
  | TBits bits => forallb (fun b => b) bits
  | THist m init cells ops obs => list_eqb obs_eqb obs (hrun m (world0 init cells) ops)
  | TMap nm z init ops obs => list_eqb mobs_eqb obs (mrun nm z init ops)
  | TSlice k init ops obs => list_eqb gobs_eqb obs (grun k init ops)
  | TGraph g root shape =>
      match model_shape g root with Some s => shape_eqb shape s | None => false end
  | TFail => false
  end.

Fixpoint mismatch_from (i : N) (cs : list tcase) : list N :=
  match cs with
  | [] => []
  | c :: r => if check_case c then mismatch_from (N.succ i) r else i :: mismatch_from (N.succ i) r
  end.
Definition mismatch_ids := mismatch_from 0%N.
