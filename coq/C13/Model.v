(* C13 — Go<->JS value bridge: executable model (definitions only).

   What is modelled (transcribed from /repo):
     A. the dispatch of Runtime.toValue (runtime.go) and of Export (value.go / object_go*.go) on a small
        universe of Go values living in a heap of cells;
     B. wrappers as LOCATIONS into the heap (reflect.Value = address + offset): read/write lenses, struct
        field resolution incl. promoted fields of embedded structs under a FieldNameMapper
        (Runtime.buildFieldInfo, object_goreflect.go);
     C. the export identity cache objectExportCtx (object.go) on script-built object graphs with
        sharing and cycles (baseObject.export / arrayObject.export);
     D. the element-wrapper cache of objectGoArrayReflect / objectGoSliceReflect (valueCache,
        copy-on-change: a handed-out wrapper is Live at an index or Detached with a private copy).
     E. the wrappers of a nested struct field of an element (objectGoReflect.valueCache), as repaired for
        C13-F20: a cached field wrapper follows its owner.
   What is NOT modelled: reflect's addressability/CanSet rules, panics of reflect, method sets, named
   scalar types; the recursion of setReflectValue over cached nested wrappers is abstracted (a field
   wrapper is a reference to its owner). *)
From Coq Require Import List ZArith NArith Bool Arith Lia.
Import ListNotations.

(* ------------------------------------------------------------------------------------------- *)
(* generic list helpers *)

Fixpoint upd {A} (l : list A) (i : nat) (x : A) : list A :=
  match l, i with
  | [], _ => []
  | _ :: t, 0 => x :: t
  | h :: t, S i' => h :: upd t i' x
  end.

Definition getd {A} (d : A) (l : list A) (i : nat) : A := nth i l d.

(* ------------------------------------------------------------------------------------------- *)
(* A. values, heap, toValue / export                                                             *)

Definition addr := nat.
Inductive nkind := KInt | KInt8 | KInt16 | KInt32 | KInt64 | KUint | KUint8 | KUint16 | KUint32 | KUint64.

(* a float64 as classified by floatToInt (vm.go): FSafeInt z when the float is integral, |z| <= 2^53
   and not -0 (then floatToValue yields the integer representation); FOfInt z = float64(z) for an
   integer outside the safe range (intToValue's fallback); FOther bits = any other bit pattern *)
Inductive gflt := FSafeInt (z : Z) | FOfInt (z : Z) | FOther (bits : Z).

Inductive gty := TNum (k : nkind) | TF32 | TF64 | TStr | TBool | TIface | TBigPtr
  | TPtr (t : gty) | TSlice (t : gty) | TArr (n : nat) (t : gty) | TMap (k v : gty)
  | TStruct (fs : list gty) | TFunc (sig : nat).

Inductive gval :=
| GNil                                              (* untyped nil / nil interface *)
| GInt (k : nkind) (z : Z)
| GFloat (is32 : bool) (f : gflt)
| GStr (s : list N)
| GBool (b : bool)
| GBig (z : option Z)                               (* *big.Int by value of the pointee; None = nil *)
| GStruct (fs : list gval)
| GPtr (t : gty) (a : option addr)                  (* pointer to a heap cell; None = typed nil *)
| GSlice (t : gty) (a : option addr) (off len cap : nat)
| GArr (t : gty) (es : list gval)
| GMap (kt vt : gty) (a : option addr)
| GFunc (sig : nat) (code : nat).
(* an interface-typed slot simply holds the dynamic value (GNil for the nil interface): passing a
   value as interface{} to ToValue erases the static interface layer in Go as well *)

Inductive cell := CVal (v : gval) | CArr (es : list gval) | CMap (kvs : list (gval * gval)).
Definition heap := list cell.
Definition hget (h : heap) (a : addr) : option cell := nth_error h a.
Definition hset (h : heap) (a : addr) (c : cell) : heap := upd h a c.
Definition halloc (h : heap) (c : cell) : heap * addr := (h ++ [c], length h).

Inductive wkind := WMapSimple | WGoSlice (isPtr : bool) | WMapReflect | WArrReflect | WSliceReflect
                 | WReflect | WFunc.

Inductive jsval := JNull | JInt (z : Z) | JFlt (f : gflt) | JStr (s : list N) | JBool (b : bool)
  | JBig (z : Z)
  | JWrap (k : wkind) (orig : gval) (own : option addr).
(* [own]: address of the wrapper's private addressable copy (objectGoReflect.init copies a
   non-addressable container; newObjectGoSlice(&i) takes the address of its own parameter) *)

Definition safe (z : Z) : bool := (Z.abs z <=? 9007199254740992)%Z.
Definition int_to_js (z : Z) : jsval := if safe z then JInt z else JFlt (FOfInt z).
Definition flt_to_js (f : gflt) : jsval := match f with FSafeInt z => JInt z | _ => JFlt f end.

Definition key_ok (t : gty) : bool :=
  match t with TStr | TNum _ | TF32 | TF64 => true | _ => false end.

(* follow a pointer chain ("for value.Kind() == reflect.Ptr { value = value.Elem() }"); None = a nil
   pointer was met (or the chain does not end within the fuel: Go would loop) *)
Fixpoint deref (fuel : nat) (h : heap) (g : gval) : option gval :=
  match g with
  | GPtr _ None => None
  | GPtr _ (Some a) =>
      match fuel with
      | 0 => None
      | S f => match hget h a with Some (CVal v) => deref f h v | _ => None end
      end
  | _ => Some g
  end.

Definition wrap_kind (v : gval) : wkind :=
  match v with
  | GMap kt _ _ => if key_ok kt then WMapReflect else WReflect
  | GArr _ _ => WArrReflect
  | GSlice _ _ _ _ _ => WSliceReflect
  | GFunc _ _ => WFunc
  | _ => WReflect
  end.

Definition needs_copy (g : gval) : bool :=
  match g with GStruct _ | GArr _ _ | GSlice _ _ _ _ _ => true | _ => false end.

Definition is_iface (t : gty) : bool := match t with TIface => true | _ => false end.
Definition is_str (t : gty) : bool := match t with TStr => true | _ => false end.
Definition is_slice_iface (t : gty) : bool := match t with TSlice TIface => true | _ => false end.

Definition toValue_reflect (h : heap) (g : gval) : heap * jsval :=
  match deref (S (length h)) h g with
  | None => (h, JNull)
  | Some v =>
      if needs_copy g then let (h', a) := halloc h (CVal g) in (h', JWrap (wrap_kind v) g (Some a))
      else (h, JWrap (wrap_kind v) g None)
  end.

(* the type switch of Runtime.toValue, in its order *)
Definition toValue (h : heap) (g : gval) : heap * jsval :=
  match g with
  | GNil => (h, JNull)
  | GStr s => (h, JStr s)
  | GBool b => (h, JBool b)
  | GInt _ z => (h, int_to_js z)
  | GFloat _ f => (h, flt_to_js f)
  | GBig None => (h, JBig 0)
  | GBig (Some z) => (h, JBig z)
  | GMap kt vt a =>
      if is_str kt && is_iface vt then
        match a with None => (h, JNull) | Some _ => (h, JWrap WMapSimple g None) end
      else toValue_reflect h g
  | GSlice t _ _ _ _ =>
      if is_iface t then let (h', a) := halloc h (CVal g) in (h', JWrap (WGoSlice false) g (Some a))
      else toValue_reflect h g
  | GPtr t a =>
      if is_slice_iface t then
        match a with None => (h, JNull) | Some _ => (h, JWrap (WGoSlice true) g None) end
      else toValue_reflect h g
  | _ => toValue_reflect h g
  end.

(* Value.Export: primitives come back as int64 / float64 / string / bool / *big.Int; a wrapper gives
   the ORIGINAL Go value (origValue.Interface(), o.data) *)
Definition export (h : heap) (v : jsval) : gval :=
  match v with
  | JNull => GNil
  | JInt z => GInt KInt64 z
  | JFlt f => GFloat false f
  | JStr s => GStr s
  | JBool b => GBool b
  | JBig z => GBig (Some z)
  | JWrap _ orig None => orig
  | JWrap _ orig (Some a) => match hget h a with Some (CVal v) => v | _ => GNil end
  end.

(* what the round trip is documented to give: numbers are normalised to int64/float64, a nil
   pointer / nil map[string]interface{} becomes nil, a nil *big.Int becomes 0 *)
Definition normalize (h : heap) (g : gval) : gval :=
  match g with
  | GInt _ z => if safe z then GInt KInt64 z else GFloat false (FOfInt z)
  | GFloat _ (FSafeInt z) => GInt KInt64 z
  | GFloat _ f => GFloat false f
  | GBig None => GBig (Some 0%Z)
  | GMap kt vt None => if is_str kt && is_iface vt then GNil else g
  | GPtr t a =>
      if is_slice_iface t then match a with None => GNil | Some _ => g end
      else match deref (S (length h)) h g with None => GNil | Some _ => g end
  | _ => g
  end.

(* values on which the round trip is the identity *)
Definition wf_gval (h : heap) (g : gval) : bool :=
  match g with
  | GInt k z => match k with KInt64 => safe z | _ => false end
  | GFloat is32 f => negb is32 && match f with FSafeInt _ => false | _ => true end
  | GBig None => false
  | GMap kt vt None => negb (is_str kt && is_iface vt)
  | GPtr t a =>
      if is_slice_iface t then match a with None => false | Some _ => true end
      else match deref (S (length h)) h g with None => false | Some _ => true end
  | _ => true
  end.

(* ExportTo into a variable of a numeric / string / bool type (toReflectValue's conversion switch);
   wrappers: assignable export type => the exported value itself *)
Definition in_range (k : nkind) (z : Z) : bool :=
  match k with
  | KInt8 => (-128 <=? z) && (z <=? 127)
  | KInt16 => (-32768 <=? z) && (z <=? 32767)
  | KInt32 => (-2147483648 <=? z) && (z <=? 2147483647)
  | KInt | KInt64 => (-9223372036854775808 <=? z) && (z <=? 9223372036854775807)
  | KUint8 => (0 <=? z) && (z <=? 255)
  | KUint16 => (0 <=? z) && (z <=? 65535)
  | KUint32 => (0 <=? z) && (z <=? 4294967295)
  | KUint | KUint64 => (0 <=? z) && (z <=? 18446744073709551615)
  end%Z.

Definition kbits (k : nkind) : Z :=
  match k with KInt8 | KUint8 => 8 | KInt16 | KUint16 => 16 | KInt32 | KUint32 => 32 | _ => 64 end.
Definition ksigned (k : nkind) : bool :=
  match k with KInt | KInt8 | KInt16 | KInt32 | KInt64 => true | _ => false end.
(* toInt8 ... toUint64: modular conversion *)
Definition wrap_int (k : nkind) (z : Z) : Z :=
  let m := (2 ^ kbits k)%Z in
  let r := (z mod m)%Z in
  if ksigned k && (2 ^ (kbits k - 1) <=? r)%Z then (r - m)%Z else r.

Definition exportTo (h : heap) (v : jsval) (t : gty) : option gval :=
  match v, t with
  | JInt z, TNum k => Some (GInt k (wrap_int k z))
  | JInt z, TF64 => Some (GFloat false (FSafeInt z))
  | JInt z, TF32 => Some (GFloat true (FSafeInt z))      (* exact only when |z| < 2^24 *)
  | JFlt f, TF64 => Some (GFloat false f)
  | JStr s, TStr => Some (GStr s)
  | JBool b, TBool => Some (GBool b)
  | JBig z, TBigPtr => Some (GBig (Some z))
  | JNull, _ => Some GNil                                  (* zero value of the target *)
  | JWrap _ _ _, _ => Some (export h v)                    (* own type: et.AssignableTo(typ) *)
  | _, TIface => Some (export h v)
  | _, _ => None
  end.

(* ------------------------------------------------------------------------------------------- *)
(* B. locations into the heap; struct fields under a FieldNameMapper                             *)

Inductive sub := SField (i : nat) | SIdx (i : nat).

Fixpoint vget (v : gval) (p : list sub) : option gval :=
  match p with
  | [] => Some v
  | SField i :: p' =>
      match v with
      | GStruct fs => match nth_error fs i with Some x => vget x p' | None => None end
      | _ => None
      end
  | SIdx i :: p' =>
      match v with
      | GArr _ es => match nth_error es i with Some x => vget x p' | None => None end
      | _ => None
      end
  end.

Fixpoint vset (v : gval) (p : list sub) (x : gval) : option gval :=
  match p with
  | [] => Some x
  | SField i :: p' =>
      match v with
      | GStruct fs =>
          match nth_error fs i with
          | Some y => match vset y p' x with Some y' => Some (GStruct (upd fs i y')) | None => None end
          | None => None
          end
      | _ => None
      end
  | SIdx i :: p' =>
      match v with
      | GArr t es =>
          match nth_error es i with
          | Some y => match vset y p' x with Some y' => Some (GArr t (upd es i y')) | None => None end
          | None => None
          end
      | _ => None
      end
  end.

(* a location = what a reflect.Value of an addressable value is: a cell (or an element of a slice's
   backing array) plus an offset path inside it *)
Inductive loc := LCell (a : addr) (p : list sub) | LElem (a : addr) (i : nat) (p : list sub).

Definition lread (h : heap) (l : loc) : option gval :=
  match l with
  | LCell a p => match hget h a with Some (CVal v) => vget v p | _ => None end
  | LElem a i p =>
      match hget h a with
      | Some (CArr es) => match nth_error es i with Some v => vget v p | None => None end
      | _ => None
      end
  end.

Definition lwrite (h : heap) (l : loc) (x : gval) : option heap :=
  match l with
  | LCell a p =>
      match hget h a with
      | Some (CVal v) => match vset v p x with Some v' => Some (hset h a (CVal v')) | None => None end
      | _ => None
      end
  | LElem a i p =>
      match hget h a with
      | Some (CArr es) =>
          match nth_error es i with
          | Some v => match vset v p x with
                      | Some v' => Some (hset h a (CArr (upd es i v'))) | None => None end
          | None => None
          end
      | _ => None
      end
  end.

Definition lext (l : loc) (q : list sub) : loc :=
  match l with LCell a p => LCell a (p ++ q) | LElem a i p => LElem a i (p ++ q) end.

(* struct type descriptors as buildFieldInfo sees them *)
Inductive fd := FD (name : N) (tag : option N) (exported anon : bool) (emb : option (list fd)).
(* [emb] = the fields of the struct type of an anonymous field (looked through pointers) *)

Definition finfo := list (N * list nat).     (* js name -> reflect index path; first-insertion order *)

Fixpoint fi_lookup (n : N) (fi : finfo) : option (list nat) :=
  match fi with
  | [] => None
  | (m, ix) :: r => if N.eqb n m then Some ix else fi_lookup n r
  end.

Fixpoint fi_replace (n : N) (ix : list nat) (fi : finfo) : finfo :=
  match fi with
  | [] => []
  | (m, jx) :: r => if N.eqb n m then (m, ix) :: r else (m, jx) :: fi_replace n ix r
  end.

Section Mapper.
(* FieldNameMapper.FieldName: Go name, tag -> js name (None = "" = hidden) *)
Variable mapper : N -> option N -> option N.

(* Runtime.buildFieldInfo, field by field, index prefix [pre]; fuel = nesting depth of types *)
Fixpoint build_fields (fuel : nat) {struct fuel} : list fd -> nat -> list nat -> finfo -> finfo :=
  fix go (fs : list fd) (i : nat) (pre : list nat) (info : finfo) {struct fs} : finfo :=
  match fs with
  | [] => info
  | FD name tag exported anon emb :: rest =>
      if negb exported && negb anon then go rest (S i) pre info
      else
        let jn := mapper name tag in
        let visible := match jn with Some _ => exported | None => false end in
        (* an existing entry that is not deeper than the current level wins: "continue" *)
        let skip := match jn with
                    | Some n => if exported then
                                  match fi_lookup n info with
                                  | Some ix => Nat.leb (length ix) (length pre)
                                  | None => false
                                  end
                                else false
                    | None => false
                    end in
        if skip then go rest (S i) pre info
        else if (match jn with Some _ => true | None => anon end) then
          let idx := pre ++ [i] in
          let info1 := if visible then
                         match jn with
                         | Some n => match fi_lookup n info with
                                     | Some _ => fi_replace n idx info
                                     | None => info ++ [(n, idx)]
                                     end
                         | None => info
                         end
                       else info in
          let info2 := if anon then
                         match emb, fuel with
                         | Some efs, S f => build_fields f efs 0 idx info1
                         | _, _ => info1
                         end
                       else info1 in
          go rest (S i) pre info2
        else go rest (S i) pre info
  end.

Definition fields_info (fs : list fd) : finfo := build_fields 8 fs 0 [] [].

Definition field_path (fs : list fd) (jsname : N) : option (list sub) :=
  option_map (map SField) (fi_lookup jsname (fields_info fs)).

(* objectGoReflect._getField / _put on a wrapper whose fieldsValue is the location [l] *)
Definition js_get_field (h : heap) (fs : list fd) (l : loc) (jsname : N) : option gval :=
  match field_path fs jsname with Some q => lread h (lext l q) | None => None end.
Definition js_set_field (h : heap) (fs : list fd) (l : loc) (jsname : N) (x : gval) : option heap :=
  match field_path fs jsname with Some q => lwrite h (lext l q) x | None => None end.
End Mapper.

(* ------------------------------------------------------------------------------------------- *)
(* C. exporting a script-built object graph with the identity cache                              *)

Inductive jv := JP (z : Z) | JR (id : nat).                  (* primitive | reference to object id *)
Inductive node := NObj (fields : list (N * jv)) | NArr (items : list jv).
Definition graph := list node.

(* Go-side result: primitives, or a reference kind identified by its ADDRESS *)
Inductive gres := RP (z : Z) | RMap (a : addr) | RSlice (a : addr).
Inductive gcell := GCMap (kvs : list (N * gres)) | GCSlice (es : list gres).

Record est := mkEst { e_cache : list (option gres);   (* objectExportCtx.cache, indexed by object id *)
                      e_heap : list gcell }.          (* allocated Go maps / slices, by address *)

Definition cache_get (st : est) (id : nat) : option gres :=
  match nth_error (e_cache st) id with Some r => r | None => None end.

(* export the members one after the other, threading the context *)
Definition exp_fields (ev : est -> jv -> option (est * gres)) :=
  fix go (l : list (N * jv)) (s : est) : option (est * list (N * gres)) :=
    match l with
    | [] => Some (s, [])
    | (k, x) :: r =>
        match ev s x with
        | None => None
        | Some (s1, rx) =>
            match go r s1 with
            | None => None
            | Some (s2, rr) => Some (s2, (k, rx) :: rr)
            end
        end
    end.

Definition node_res (nd : node) (a : addr) : gres := match nd with NObj _ => RMap a | NArr _ => RSlice a end.
Definition node_fields (nd : node) : list (N * jv) :=
  match nd with NObj fs => fs | NArr items => map (fun x => (0%N, x)) items end.
Definition node_cell (nd : node) (kvs : list (N * gres)) : gcell :=
  match nd with NObj _ => GCMap kvs | NArr _ => GCSlice (map snd kvs) end.

(* baseObject.export / arrayObject.export: look in the cache; otherwise allocate the result, PUT IT
   IN THE CACHE FIRST, then export the members *)
Fixpoint exp_val (fuel : nat) (g : graph) (st : est) (v : jv) : option (est * gres) :=
  match v with
  | JP z => Some (st, RP z)
  | JR id =>
      match cache_get st id with
      | Some r => Some (st, r)
      | None =>
          match fuel with
          | 0 => None
          | S f =>
              match nth_error g id with
              | None => None
              | Some nd =>
                  let a := length (e_heap st) in
                  let st1 := mkEst (upd (e_cache st) id (Some (node_res nd a))) (e_heap st ++ [node_cell nd []]) in
                  match exp_fields (exp_val f g) (node_fields nd) st1 with
                  | None => None
                  | Some (s2, kvs) =>
                      Some (mkEst (e_cache s2) (upd (e_heap s2) a (node_cell nd kvs)), node_res nd a)
                  end
              end
          end
      end
  end.

Definition est0 (g : graph) : est := mkEst (repeat None (length g)) [].
Definition export_graph (g : graph) (root : jv) : option (est * gres) :=
  exp_val (S (length g)) g (est0 g) root.

Definition count_none (c : list (option gres)) : nat :=
  length (filter (fun o => match o with None => true | Some _ => false end) c).

Definition jv_closed (n : nat) (v : jv) : bool :=
  match v with JP _ => true | JR id => Nat.ltb id n end.
Definition node_closed (n : nat) (nd : node) : bool :=
  match nd with
  | NObj fs => forallb (fun kv => jv_closed n (snd kv)) fs
  | NArr xs => forallb (jv_closed n) xs
  end.
Definition graph_closed (g : graph) : bool := forallb (node_closed (length g)) g.

(* ------------------------------------------------------------------------------------------- *)
(* D. the element-wrapper cache of a slice/array of structs                                      *)

Section Slice.
Variable V : Type.          (* element values *)
Variable zero : V.          (* reflect.Zero(elem type) *)
Variable U : Type.          (* descriptors of in-place updates (field writes) *)
Variable app : U -> V -> V.

(* reflectValueWrapper of an element: still pointing at the slot, or holding its own copy *)
Inductive wst := Live (i : nat) | Det (v : V).

Record ist := mkIst {
  i_arr : list V;                  (* the Go slice contents (fieldsValue) *)
  i_cache : list (option nat);     (* valueCache: slot -> wrapper id *)
  i_ws : list wst;                 (* every wrapper ever created *)
  i_hs : list (option nat) }.      (* handles kept by the script: k-th PGet -> wrapper (None = undefined) *)

Inductive pop :=
| PGet (i : nat)                   (* var h = arr[i]            (_getIdx: cache hit or new wrapper) *)
| PPut (i : nat) (v : V)           (* arr[i] = {..}             (_putIdx; i >= len grows first) *)
| PPutH (i : nat) (k : nat)        (* arr[i] = H[k]             (copy of what the handle denotes) *)
| PDel (i : nat)                   (* delete arr[i]             (_deleteIdx) *)
| PSwap (i j : nat)                (* one swap of an in-place sort (swap) *)
| PLen (n : nat)                   (* arr.length = n            (shrink / grow) *)
| PGoPut (i : nat) (v : V)         (* Go: s[i] = v           (in place, invisible to the cache) *)
| PWriteH (k : nat) (u : U)        (* H[k].field = x            (write through a handed-out wrapper) *)
| PReadH (k : nat)                 (* read through a handed-out wrapper *)
| PDump.                           (* the slice as Go sees it *)

Inductive pout := OV (v : option V) | OArr (l : list V) | OUnit.

Definition wdenote (s : ist) (w : nat) : option V :=
  match nth_error (i_ws s) w with
  | Some (Live i) => nth_error (i_arr s) i
  | Some (Det v) => Some v
  | None => None
  end.

Definition hdenote (s : ist) (k : nat) : option V :=
  match nth_error (i_hs s) k with Some (Some w) => wdenote s w | _ => None end.

(* copyReflectValueWrapper(cached); valueCache[idx] = nil *)
Definition detach (s : ist) (i : nat) : ist :=
  match nth_error (i_cache s) i, nth_error (i_arr s) i with
  | Some (Some w), Some v => mkIst (i_arr s) (upd (i_cache s) i None) (upd (i_ws s) w (Det v)) (i_hs s)
  | _, _ => s
  end.

Definition put_raw (s : ist) (i : nat) (v : V) : ist :=
  let s1 := detach s i in mkIst (upd (i_arr s1) i v) (i_cache s1) (i_ws s1) (i_hs s1).

Fixpoint detach_from (s : ist) (n cnt : nat) : ist :=     (* valueArrayCache.shrink *)
  match cnt with 0 => s | S c => detach_from (detach s n) (S n) c end.

Definition set_len (s : ist) (n : nat) : ist :=
  let len := length (i_arr s) in
  if Nat.ltb n len then
    let s1 := detach_from s n (len - n) in
    mkIst (firstn n (i_arr s1)) (firstn n (i_cache s1)) (i_ws s1) (i_hs s1)
  else
    mkIst (i_arr s ++ repeat zero (n - len)) (i_cache s ++ repeat None (n - len)) (i_ws s) (i_hs s).

Definition put (s : ist) (i : nat) (v : V) : ist :=
  let s1 := if Nat.ltb i (length (i_arr s)) then s else set_len s (S i) in put_raw s1 i v.

Definition istep (s : ist) (o : pop) : ist * pout :=
  match o with
  | PGet i =>
      if Nat.ltb i (length (i_arr s)) then
        match nth_error (i_cache s) i with
        | Some (Some w) => (mkIst (i_arr s) (i_cache s) (i_ws s) (i_hs s ++ [Some w]), OUnit)
        | _ => let w := length (i_ws s) in
               (mkIst (i_arr s) (upd (i_cache s) i (Some w)) (i_ws s ++ [Live i]) (i_hs s ++ [Some w]), OUnit)
        end
      else (mkIst (i_arr s) (i_cache s) (i_ws s) (i_hs s ++ [None]), OUnit)
  | PPut i v => (put s i v, OUnit)
  | PPutH i k => (put s i (match hdenote s k with Some v => v | None => zero end), OUnit)
  | PDel i => (if Nat.ltb i (length (i_arr s)) then put_raw s i zero else s, OUnit)
  | PSwap i j =>
      match nth_error (i_arr s) i, nth_error (i_arr s) j with
      | Some vi, Some vj =>
          let arr := upd (upd (i_arr s) i vj) j vi in
          let ci := getd None (i_cache s) i in
          let cj := getd None (i_cache s) j in
          (* cachedI.setReflectValue(vj); valueCache.put(j, cachedI)  /  else valueCache[j] = nil *)
          let ws1 := match ci with Some w => upd (i_ws s) w (Live j) | None => i_ws s end in
          let c1 := upd (i_cache s) j ci in
          let ws2 := match cj with Some w => upd ws1 w (Live i) | None => ws1 end in
          let c2 := upd c1 i cj in
          (mkIst arr c2 ws2 (i_hs s), OUnit)
      | _, _ => (s, OUnit)
      end
  | PLen n => (set_len s n, OUnit)
  | PGoPut i v => (mkIst (upd (i_arr s) i v) (i_cache s) (i_ws s) (i_hs s), OUnit)
  | PWriteH k u =>
      match nth_error (i_hs s) k with
      | Some (Some w) =>
          match nth_error (i_ws s) w with
          | Some (Live i) =>
              match nth_error (i_arr s) i with
              | Some v => (mkIst (upd (i_arr s) i (app u v)) (i_cache s) (i_ws s) (i_hs s), OUnit)
              | None => (s, OUnit)
              end
          | Some (Det v) => (mkIst (i_arr s) (i_cache s) (upd (i_ws s) w (Det (app u v))) (i_hs s), OUnit)
          | None => (s, OUnit)
          end
      | _ => (s, OUnit)
      end
  | PReadH k => (s, OV (hdenote s k))
  | PDump => (s, OArr (i_arr s))
  end.

Fixpoint irun (s : ist) (ops : list pop) : ist * list pout :=
  match ops with
  | [] => (s, [])
  | o :: r => let (s1, x) := istep s o in let (s2, xs) := irun s1 r in (s2, x :: xs)
  end.

Definition iinit (l : list V) : ist := mkIst l (repeat None (length l)) [] [].

(* the invariant of the cache: Live wrappers are exactly the cached ones *)
Definition inv (s : ist) : Prop :=
  length (i_cache s) = length (i_arr s) /\
  (forall i w, nth_error (i_cache s) i = Some (Some w) -> nth_error (i_ws s) w = Some (Live i)) /\
  (forall w i, nth_error (i_ws s) w = Some (Live i) -> nth_error (i_cache s) i = Some (Some w)).

(* an operation that, by itself, is entitled to change what wrapper [w] denotes: a write through a
   handle bound to [w], or an in-place Go assignment (checked dynamically: the slot w lives in) *)
Definition touches (s : ist) (w : nat) (o : pop) : bool :=
  match o with
  | PWriteH k _ => match nth_error (i_hs s) k with Some (Some w') => Nat.eqb w w' | _ => false end
  | PGoPut i _ => match nth_error (i_ws s) w with Some (Live j) => Nat.eqb i j | _ => false end
  | _ => false
  end.

Fixpoint untouched (s : ist) (w : nat) (ops : list pop) : bool :=
  match ops with
  | [] => true
  | o :: r => negb (touches s w o) && untouched (fst (istep s o)) w r
  end.
End Slice.

Arguments Live {V} i.
Arguments Det {V} v.
Arguments PGet {V U} i.   Arguments PPut {V U} i v.  Arguments PPutH {V U} i k.  Arguments PDel {V U} i.
Arguments PSwap {V U} i j. Arguments PLen {V U} n.   Arguments PGoPut {V U} i v. Arguments PWriteH {V U} k u.
Arguments PReadH {V U} k. Arguments PDump {V U}.
Arguments OV {V} v. Arguments OArr {V} l. Arguments OUnit {V}.

(* ------------------------------------------------------------------------------------------- *)
(* E. wrappers of a nested struct field of an element (objectGoReflect.valueCache), on top of D.

   After the repair of C13-F20, setReflectValue re-points the cached field wrappers recursively whenever
   their owner is moved (sort, reallocation) or detached (reassign, delete, shrink): a cached field wrapper
   always addresses "field In of whatever its owner addresses".  That is how it is represented here
   ([FSub owner]); the recursion itself is abstracted.  A successful assignment to the field detaches the
   cached wrapper ([FDet copy]) and evicts it; a FAILING assignment copies it and re-attaches it: no change. *)

Section Nested.
Variable V : Type.
Variable zero : V.
Variable U : Type.
Variable app : U -> V -> V.
Variable F : Type.                  (* value of the nested field *)
Variable getf : V -> F.
Variable setf : F -> V -> V.
Variable UF : Type.                 (* in-place updates of the nested value *)
Variable appf : UF -> F -> F.

Inductive fwst := FSub (w : nat) | FDet (f : F).

Record nst := mkNst {
  n_s : ist V;
  n_fws : list fwst;                (* every field wrapper ever created *)
  n_fc : list (option nat);         (* valueCache["In"] of element wrapper w (by wrapper id) *)
  n_fhs : list (option nat) }.      (* field handles kept by the script *)

Inductive nop :=
| NBase (o : pop V U)
| NGetF (k : nat)                   (* FH.push(H[k].In) *)
| NPutF (k : nat) (f : F)           (* H[k].In = {..}     succeeds *)
| NPutFBad (k : nat)                (* H[k].In = 5        conversion fails *)
| NWriteF (c : nat) (u : UF)        (* FH[c].X = z *)
| NReadF (c : nat)
| NSameF (k c : nat).               (* H[k].In === FH[c] *)

Inductive nout := NO (o : pout V) | NF (f : option F) | NB (b : bool) | NErr.

(* apply g to whatever wrapper w addresses *)
Definition wupdate (s : ist V) (w : nat) (g : V -> V) : ist V :=
  match nth_error (i_ws V s) w with
  | Some (Live i) =>
      match nth_error (i_arr V s) i with
      | Some v => mkIst V (upd (i_arr V s) i (g v)) (i_cache V s) (i_ws V s) (i_hs V s)
      | None => s
      end
  | Some (Det v) => mkIst V (i_arr V s) (i_cache V s) (upd (i_ws V s) w (Det (g v))) (i_hs V s)
  | None => s
  end.

Definition fdenote (n : nst) (c : nat) : option F :=
  match nth_error (n_fws n) c with
  | Some (FSub w) => option_map getf (wdenote V (n_s n) w)
  | Some (FDet f) => Some f
  | None => None
  end.

Definition fhdenote (n : nst) (c : nat) : option F :=
  match nth_error (n_fhs n) c with Some (Some x) => fdenote n x | _ => None end.

(* the element wrapper behind script handle k, if it denotes anything *)
Definition howner (n : nst) (k : nat) : option nat :=
  match nth_error (i_hs V (n_s n)) k with
  | Some (Some w) => match wdenote V (n_s n) w with Some _ => Some w | None => None end
  | _ => None
  end.

Fixpoint setd {A} (d : A) (l : list A) (i : nat) (x : A) : list A :=
  match i, l with
  | 0, [] => [x]
  | 0, _ :: t => x :: t
  | S i', [] => d :: setd d [] i' x
  | S i', h :: t => h :: setd d t i' x
  end.

Definition nstep (n : nst) (o : nop) : nst * nout :=
  match o with
  | NBase b => let (s', x) := istep V zero U app (n_s n) b in (mkNst s' (n_fws n) (n_fc n) (n_fhs n), NO x)
  | NGetF k =>
      match howner n k with
      | Some w =>
          match getd None (n_fc n) w with
          | Some c => (mkNst (n_s n) (n_fws n) (n_fc n) (n_fhs n ++ [Some c]), NO OUnit)
          | None => let c := length (n_fws n) in
                    (mkNst (n_s n) (n_fws n ++ [FSub w]) (setd None (n_fc n) w (Some c)) (n_fhs n ++ [Some c]),
                     NO OUnit)
          end
      | None => (mkNst (n_s n) (n_fws n) (n_fc n) (n_fhs n ++ [None]), NErr)
      end
  | NPutF k f =>
      match howner n k with
      | Some w =>
          let cur := option_map getf (wdenote V (n_s n) w) in
          let fws' := match getd None (n_fc n) w, cur with
                      | Some c, Some fv => upd (n_fws n) c (FDet fv)
                      | _, _ => n_fws n
                      end in
          (mkNst (wupdate (n_s n) w (setf f)) fws' (setd None (n_fc n) w None) (n_fhs n), NO OUnit)
      | None => (n, NErr)
      end
  | NPutFBad k =>
      match howner n k with Some _ => (n, NO OUnit) | None => (n, NErr) end
  | NWriteF c u =>
      match nth_error (n_fhs n) c with
      | Some (Some x) =>
          match nth_error (n_fws n) x with
          | Some (FSub w) =>
              (mkNst (wupdate (n_s n) w (fun v => setf (appf u (getf v)) v)) (n_fws n) (n_fc n) (n_fhs n),
               NO OUnit)
          | Some (FDet f) => (mkNst (n_s n) (upd (n_fws n) x (FDet (appf u f))) (n_fc n) (n_fhs n), NO OUnit)
          | None => (n, NErr)
          end
      | _ => (n, NErr)
      end
  | NReadF c => (n, NF (fhdenote n c))
  | NSameF k c =>
      match howner n k with
      | Some w =>
          (n, NB (match nth_error (n_fhs n) c with
                  | Some (Some x) => match nth_error (n_fws n) x with
                                     | Some (FSub w') => Nat.eqb w w'
                                     | _ => false
                                     end
                  | _ => false
                  end))
      | None => (n, NErr)
      end
  end.

Fixpoint nrun (n : nst) (ops : list nop) : nst * list nout :=
  match ops with
  | [] => (n, [])
  | o :: r => let (n1, x) := nstep n o in let (n2, xs) := nrun n1 r in (n2, x :: xs)
  end.

Definition ninit (l : list V) : nst := mkNst (iinit V l) [] [] [].

(* the field cache mirrors the slice cache: attached field wrappers are exactly the cached ones *)
Definition ninv (n : nst) : Prop :=
  (forall w c, getd None (n_fc n) w = Some c -> nth_error (n_fws n) c = Some (FSub w)) /\
  (forall c w, nth_error (n_fws n) c = Some (FSub w) -> getd None (n_fc n) w = Some c).
End Nested.

Arguments FSub {F} w.
Arguments FDet {F} f.
Arguments NBase {V U F UF} o. Arguments NGetF {V U F UF} k. Arguments NPutF {V U F UF} k f.
Arguments NPutFBad {V U F UF} k. Arguments NWriteF {V U F UF} c u. Arguments NReadF {V U F UF} c.
Arguments NSameF {V U F UF} k c.
Arguments NO {V F} o. Arguments NF {V F} f. Arguments NB {V F} b. Arguments NErr {V F}.
