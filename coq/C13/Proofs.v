(* C13 — lemmas over Model.v *)
From Coq Require Import List ZArith NArith Bool Arith Lia.
Import ListNotations.
From Verif.C13 Require Import Model.

(* ------------------------------------------------------------------------------------------- *)
(* list helpers *)

Lemma upd_length : forall A (l : list A) i x, length (upd l i x) = length l.
Proof. induction l; destruct i; simpl; intros; auto. Qed.

Lemma nth_upd_same : forall A (l : list A) i x, i < length l -> nth_error (upd l i x) i = Some x.
Proof. induction l; destruct i; simpl; intros; try lia; auto. apply IHl. lia. Qed.

Lemma nth_upd_other : forall A (l : list A) i j x, i <> j -> nth_error (upd l i x) j = nth_error l j.
Proof. induction l; destruct i, j; simpl; intros; auto; try congruence. Qed.

Lemma nth_upd : forall A (l : list A) i j x,
  nth_error (upd l i x) j = if Nat.eqb i j then (if Nat.ltb i (length l) then Some x else None) else nth_error l j.
Proof.
  intros. destruct (Nat.eqb_spec i j).
  - subst. destruct (Nat.ltb_spec j (length l)).
    + apply nth_upd_same; auto.
    + apply nth_error_None. rewrite upd_length. lia.
  - apply nth_upd_other; auto.
Qed.

Lemma nth_some_lt : forall A (l : list A) i x, nth_error l i = Some x -> i < length l.
Proof. intros. apply nth_error_Some. congruence. Qed.

Lemma nth_error_firstn : forall A (l : list A) n i,
  nth_error (firstn n l) i = if Nat.ltb i n then nth_error l i else None.
Proof.
  induction l; intros n i.
  - rewrite firstn_nil. destruct i; destruct (Nat.ltb _ n); reflexivity.
  - destruct n; simpl.
    + destruct i; reflexivity.
    + destruct i; simpl; auto. rewrite IHl. reflexivity.
Qed.

Lemma hget_alloc : forall h c, hget (h ++ [c]) (length h) = Some c.
Proof. intros. unfold hget. rewrite nth_error_app2 by lia. rewrite Nat.sub_diag. reflexivity. Qed.

(* ------------------------------------------------------------------------------------------- *)
(* A. round trip *)

Lemma export_toValue_reflect : forall h g,
  export (fst (toValue_reflect h g)) (snd (toValue_reflect h g)) =
  match deref (S (length h)) h g with None => GNil | Some _ => g end.
Proof.
  intros. unfold toValue_reflect. destruct (deref (S (length h)) h g) eqn:D; [|reflexivity].
  destruct (needs_copy g); simpl; auto. rewrite hget_alloc. reflexivity.
Qed.

Lemma deref_nonptr : forall n h g, (forall t a, g <> GPtr t a) -> deref n h g = Some g.
Proof. intros. destruct g; destruct n; simpl; auto; exfalso; eapply H; eauto. Qed.

Lemma export_toValue_norm : forall h g,
  export (fst (toValue h g)) (snd (toValue h g)) = normalize h g.
Proof.
  intros. destruct g; unfold toValue, normalize.
  - reflexivity.
  - unfold int_to_js. destruct (safe z); reflexivity.
  - destruct f; reflexivity.
  - reflexivity.
  - reflexivity.
  - destruct z; reflexivity.
  - rewrite export_toValue_reflect. rewrite deref_nonptr by congruence. reflexivity.
  - destruct (is_slice_iface t).
    + destruct a; reflexivity.
    + apply export_toValue_reflect.
  - destruct (is_iface t).
    + simpl. rewrite hget_alloc. reflexivity.
    + rewrite export_toValue_reflect. rewrite deref_nonptr by congruence. reflexivity.
  - rewrite export_toValue_reflect. rewrite deref_nonptr by congruence. reflexivity.
  - destruct (is_str kt && is_iface vt).
    + destruct a; reflexivity.
    + rewrite export_toValue_reflect. rewrite deref_nonptr by congruence. destruct a; reflexivity.
  - rewrite export_toValue_reflect. rewrite deref_nonptr by congruence. reflexivity.
Qed.

Lemma normalize_wf : forall h g, wf_gval h g = true -> normalize h g = g.
Proof.
  intros h g H. destruct g; unfold wf_gval in H; unfold normalize; auto.
  - destruct k; try discriminate. rewrite H. reflexivity.
  - destruct is32; simpl in H; try discriminate. destruct f; try discriminate; reflexivity.
  - destruct z; try discriminate; reflexivity.
  - destruct (is_slice_iface t).
    + destruct a; try discriminate; reflexivity.
    + destruct (deref (S (length h)) h (GPtr t a)); try discriminate; reflexivity.
  - destruct a; auto. destruct (is_str kt && is_iface vt); try discriminate; reflexivity.
Qed.

Lemma export_toValue_id : forall h g, wf_gval h g = true ->
  export (fst (toValue h g)) (snd (toValue h g)) = g.
Proof. intros. rewrite export_toValue_norm. apply normalize_wf; auto. Qed.

(* ------------------------------------------------------------------------------------------- *)
(* B. lens laws: live view *)

Lemma vget_vset_same : forall p v x v', vset v p x = Some v' -> vget v' p = Some x.
Proof.
  induction p as [|s p IH]; simpl; intros v x v' H.
  - congruence.
  - destruct s; destruct v; try discriminate.
    + destruct (nth_error fs i) eqn:E; try discriminate.
      destruct (vset g p x) eqn:E2; try discriminate. inversion H; subst.
      rewrite nth_upd_same by (eapply nth_some_lt; eauto). eauto.
    + destruct (nth_error es i) eqn:E; try discriminate.
      destruct (vset g p x) eqn:E2; try discriminate. inversion H; subst.
      rewrite nth_upd_same by (eapply nth_some_lt; eauto). eauto.
Qed.

(* two offset paths are disjoint when they fork at some step *)
Fixpoint forks (p q : list sub) : Prop :=
  match p, q with
  | SField i :: p', SField j :: q' => i <> j \/ forks p' q'
  | SIdx i :: p', SIdx j :: q' => i <> j \/ forks p' q'
  | _, _ => False
  end.

Lemma vget_vset_other : forall p q v x v', forks p q -> vset v p x = Some v' -> vget v' q = vget v q.
Proof.
  induction p as [|s p IH]; simpl; intros q v x v' F H.
  - contradiction.
  - destruct s; destruct q as [|[j|j] q]; try contradiction; destruct v; try discriminate.
    + destruct (nth_error fs i) eqn:E; try discriminate.
      destruct (vset g p x) eqn:E2; try discriminate. inversion H; subst. simpl.
      destruct (Nat.eq_dec i j).
      * subst. rewrite nth_upd_same by (eapply nth_some_lt; eauto). rewrite E.
        destruct F as [F|F]; [congruence|]. eapply IH; eauto.
      * rewrite nth_upd_other by auto. reflexivity.
    + destruct (nth_error es i) eqn:E; try discriminate.
      destruct (vset g p x) eqn:E2; try discriminate. inversion H; subst. simpl.
      destruct (Nat.eq_dec i j).
      * subst. rewrite nth_upd_same by (eapply nth_some_lt; eauto). rewrite E.
        destruct F as [F|F]; [congruence|]. eapply IH; eauto.
      * rewrite nth_upd_other by auto. reflexivity.
Qed.

Lemma lread_lwrite_same : forall h l x h', lwrite h l x = Some h' -> lread h' l = Some x.
Proof.
  intros h l x h' H. destruct l; simpl in *.
  - destruct (hget h a) as [[v| |]|] eqn:E; try discriminate.
    destruct (vset v p x) eqn:E2; try discriminate. inversion H; subst.
    unfold hget, hset in *. rewrite nth_upd_same by (eapply nth_some_lt; eauto).
    eapply vget_vset_same; eauto.
  - destruct (hget h a) as [[v|es|]|] eqn:E; try discriminate.
    destruct (nth_error es i) eqn:E1; try discriminate.
    destruct (vset g p x) eqn:E2; try discriminate. inversion H; subst.
    unfold hget, hset in *. rewrite nth_upd_same by (eapply nth_some_lt; eauto).
    rewrite nth_upd_same by (eapply nth_some_lt; eauto).
    eapply vget_vset_same; eauto.
Qed.

(* disjoint locations: another cell, another element of the same backing array, or forking offsets *)
Definition disjoint (l1 l2 : loc) : Prop :=
  match l1, l2 with
  | LCell a p, LCell b q => a <> b \/ forks p q
  | LElem a i p, LElem b j q => a <> b \/ i <> j \/ forks p q
  | LCell a _, LElem b _ _ => a <> b
  | LElem a _ _, LCell b _ => a <> b
  end.

Lemma lread_lwrite_other : forall h l1 l2 x h',
  disjoint l1 l2 -> lwrite h l1 x = Some h' -> lread h' l2 = lread h l2.
Proof.
  intros h l1 l2 x h' D H. destruct l1 as [a p|a i p]; simpl in H.
  - destruct (hget h a) as [[v| |]|] eqn:E; try discriminate.
    destruct (vset v p x) eqn:E2; try discriminate. inversion H; subst. clear H.
    destruct l2 as [b q|b j q]; simpl in *; unfold hget, hset in *.
    + destruct (Nat.eq_dec a b).
      * subst. rewrite nth_upd_same by (eapply nth_some_lt; eauto). rewrite E.
        destruct D as [D|D]; [congruence|]. eapply vget_vset_other; eauto.
      * rewrite nth_upd_other by auto. reflexivity.
    + rewrite nth_upd_other by auto. reflexivity.
  - destruct (hget h a) as [[v|es|]|] eqn:E; try discriminate.
    destruct (nth_error es i) eqn:E1; try discriminate.
    destruct (vset g p x) eqn:E2; try discriminate. inversion H; subst. clear H.
    destruct l2 as [b q|b j q]; simpl in *; unfold hget, hset in *.
    + rewrite nth_upd_other by auto. reflexivity.
    + destruct (Nat.eq_dec a b).
      * subst. rewrite nth_upd_same by (eapply nth_some_lt; eauto). rewrite E.
        destruct (Nat.eq_dec i j).
        -- subst. rewrite nth_upd_same by (eapply nth_some_lt; eauto). rewrite E1.
           destruct D as [D|[D|D]]; try congruence. eapply vget_vset_other; eauto.
        -- rewrite nth_upd_other by auto. reflexivity.
      * rewrite nth_upd_other by auto. reflexivity.
Qed.

(* struct fields (incl. promoted ones) under ANY FieldNameMapper: a script write through the js name
   is what Go reads at the resolved location, and a Go write there is what the script reads *)
Lemma live_view_fields : forall mapper h fs l n x h' q,
  field_path mapper fs n = Some q ->
  (js_set_field mapper h fs l n x = Some h' -> lread h' (lext l q) = Some x) /\
  (lwrite h (lext l q) x = Some h' -> js_get_field mapper h' fs l n = Some x).
Proof.
  intros. unfold js_set_field, js_get_field. rewrite H. split; intro W; eapply lread_lwrite_same; eauto.
Qed.

(* ------------------------------------------------------------------------------------------- *)
(* D. the element-wrapper cache *)

Section SliceProofs.
Variable V : Type.
Variable zero : V.
Variable U : Type.
Variable app : U -> V -> V.

Notation ist := (Model.ist V).
Notation inv := (Model.inv V).
Notation wdenote := (Model.wdenote V).
Notation detach := (Model.detach V).
Notation put_raw := (Model.put_raw V).
Notation set_len := (Model.set_len V zero).
Notation istep := (Model.istep V zero U app).

(* [pres s s']: the invariant is kept and every wrapper denotes what it denoted *)
Definition pres (s s' : ist) : Prop :=
  inv s' /\ (forall w, wdenote s w <> None -> wdenote s' w = wdenote s w).

Lemma pres_refl : forall s, inv s -> pres s s.
Proof. intros. split; auto. Qed.

Lemma pres_trans : forall s1 s2 s3, pres s1 s2 -> pres s2 s3 -> pres s1 s3.
Proof.
  intros s1 s2 s3 [I2 D2] [I3 D3]. split; auto. intros w H.
  rewrite D3; auto. rewrite D2; auto.
Qed.

Lemma detach_pres : forall s i, inv s -> pres s (detach s i) /\
  length (i_arr _ (detach s i)) = length (i_arr _ s) /\ i_arr _ (detach s i) = i_arr _ s /\
  (i < length (i_arr _ s) -> nth_error (i_cache _ (detach s i)) i = Some None) /\
  (forall j, nth_error (i_cache _ s) j = Some None -> nth_error (i_cache _ (detach s i)) j = Some None) /\
  i_hs _ (detach s i) = i_hs _ s.
Proof.
  intros s i [L [B C]]. unfold Model.detach.
  destruct (nth_error (i_cache V s) i) as [[w|]|] eqn:E.
  - destruct (nth_error (i_arr V s) i) as [v|] eqn:Ea.
    + pose proof (B _ _ E) as Bw.
      assert (Hi : i < length (i_cache V s)) by (eapply nth_some_lt; eauto).
      assert (Hw : w < length (i_ws V s)) by (eapply nth_some_lt; eauto).
      repeat split; simpl; auto.
      * rewrite upd_length; auto.
      * intros j w'. rewrite nth_upd. destruct (Nat.eqb_spec i j).
        { destruct (Nat.ltb i (length (i_cache V s))); discriminate. }
        intro H. pose proof (B _ _ H) as Bj. rewrite nth_upd. destruct (Nat.eqb_spec w w'); auto.
        subst. rewrite Bw in Bj. congruence.
      * intros w' j. rewrite nth_upd. destruct (Nat.eqb_spec w w').
        { destruct (Nat.ltb w (length (i_ws V s))); discriminate. }
        intro H. pose proof (C _ _ H) as Cj. rewrite nth_upd. destruct (Nat.eqb_spec i j); auto.
        subst. rewrite E in Cj. congruence.
      * intros w' _. unfold Model.wdenote. simpl. rewrite nth_upd. destruct (Nat.eqb_spec w w').
        { subst. rewrite Bw. apply Nat.ltb_lt in Hw. rewrite Hw. auto. }
        reflexivity.
      * intros _. apply nth_upd_same. auto.
      * intros j H. rewrite nth_upd. destruct (Nat.eqb_spec i j); auto.
        subst. apply Nat.ltb_lt in Hi. rewrite Hi. reflexivity.
    + exfalso. apply nth_error_None in Ea. apply nth_some_lt in E. lia.
  - repeat split; auto.
  - repeat split; auto. intros H. apply nth_error_None in E. lia.
Qed.

Lemma put_raw_pres : forall s i v, inv s -> i < length (i_arr _ s) ->
  inv (put_raw s i v) /\
  (forall w, wdenote s w <> None -> wdenote (put_raw s i v) w = wdenote s w) /\
  length (i_arr _ (put_raw s i v)) = length (i_arr _ s).
Proof.
  intros s i v I Hi. destruct (detach_pres s i I) as [[[L [B C]] D] [Hl [Ha [Hc [_ _]]]]].
  unfold Model.put_raw. set (s1 := detach s i) in *. repeat split; simpl.
  - rewrite upd_length. auto.
  - auto.
  - auto.
  - intros w H. rewrite <- D by auto. unfold Model.wdenote. simpl.
    destruct (nth_error (i_ws V s1) w) as [[j|x]|] eqn:E; auto.
    rewrite nth_upd. destruct (Nat.eqb_spec i j); auto. subst.
    apply C in E. rewrite Hc in E by auto. discriminate.
  - rewrite upd_length. rewrite Ha. reflexivity.
Qed.

Lemma repeat_nth_some : forall A (x : A) n j y, nth_error (repeat x n) j = Some y -> y = x.
Proof. induction n; destruct j; simpl; intros; try discriminate; try congruence. eauto. Qed.

Lemma grow_pres : forall s k, inv s ->
  pres s (mkIst V (i_arr _ s ++ repeat zero k) (i_cache _ s ++ repeat None k) (i_ws _ s) (i_hs _ s)).
Proof.
  intros s k [L [B C]]. split; [split; [|split]|]; simpl.
  - rewrite !app_length, !repeat_length. lia.
  - intros i w H. destruct (Nat.lt_ge_cases i (length (i_cache V s))).
    + rewrite nth_error_app1 in H by auto. auto.
    + rewrite nth_error_app2 in H by auto. apply repeat_nth_some in H. discriminate.
  - intros w i H. pose proof (C _ _ H) as Ci. rewrite nth_error_app1; auto. eapply nth_some_lt; eauto.
  - intros w H. unfold Model.wdenote in *. simpl.
    destruct (nth_error (i_ws V s) w) as [[j|x]|] eqn:E; auto.
    apply C in E. rewrite nth_error_app1; auto. rewrite <- L. eapply nth_some_lt; eauto.
Qed.

Lemma detach_from_pres : forall cnt s n, inv s ->
  pres s (Model.detach_from V s n cnt) /\
  i_arr _ (Model.detach_from V s n cnt) = i_arr _ s /\
  (forall j, n <= j < n + cnt -> j < length (i_arr _ s) ->
             nth_error (i_cache _ (Model.detach_from V s n cnt)) j = Some None) /\
  (forall j, nth_error (i_cache _ s) j = Some None ->
             nth_error (i_cache _ (Model.detach_from V s n cnt)) j = Some None).
Proof.
  induction cnt; intros s n I; simpl.
  - split; [apply pres_refl; auto|]. split; [reflexivity|]. split; intros; [lia|auto].
  - destruct (detach_pres s n I) as [P [Hl [Ha [Hc [Hn _]]]]].
    destruct (IHcnt (detach s n) (S n) (proj1 P)) as [P2 [Ha2 [Hc2 Hn2]]].
    split; [eapply pres_trans; eauto|]. split; [congruence|]. split.
    + intros j Hj Hlen. destruct (Nat.eq_dec j n).
      * subst. apply Hn2. apply Hc. auto.
      * apply Hc2; [lia|]. rewrite Ha. auto.
    + intros j H. apply Hn2. apply Hn. auto.
Qed.

Lemma set_len_pres : forall s n, inv s ->
  inv (set_len s n) /\
  (forall w, wdenote s w <> None -> wdenote (set_len s n) w = wdenote s w) /\
  length (i_arr _ (set_len s n)) = n.
Proof.
  intros s n I. unfold Model.set_len. destruct (Nat.ltb_spec n (length (i_arr V s))).
  - destruct (detach_from_pres (length (i_arr V s) - n) s n I) as [[[L [B C]] D] [Ha [Hc _]]].
    set (s1 := Model.detach_from V s n (length (i_arr V s) - n)) in *.
    assert (Cl : forall w j, nth_error (i_ws V s1) w = Some (Live j) -> j < n).
    { intros w j E. apply C in E. destruct (Nat.lt_ge_cases j n); auto.
      assert (j < length (i_arr V s)) by (rewrite <- Ha, <- L; eapply nth_some_lt; eauto).
      rewrite Hc in E by lia. discriminate. }
    repeat split; simpl.
    + rewrite !firstn_length. lia.
    + intros i w E. assert (i < n).
      { apply nth_some_lt in E. rewrite firstn_length in E. lia. }
      rewrite nth_error_firstn in E. apply Nat.ltb_lt in H0. rewrite H0 in E. auto.
    + intros w i E. pose proof (Cl _ _ E). rewrite nth_error_firstn. apply Nat.ltb_lt in H0. rewrite H0. auto.
    + intros w Hw. rewrite <- D by auto. unfold Model.wdenote. simpl.
      destruct (nth_error (i_ws V s1) w) as [[j|x]|] eqn:E; auto.
      pose proof (Cl _ _ E). rewrite nth_error_firstn. apply Nat.ltb_lt in H0. rewrite H0. auto.
    + rewrite firstn_length. rewrite Ha. lia.
  - destruct (grow_pres s (n - length (i_arr V s)) I) as [I2 D]. split; [exact I2|]. split; [exact D|].
    simpl. rewrite app_length, repeat_length. lia.
Qed.

Lemma put_pres : forall s i v, inv s ->
  inv (Model.put V zero s i v) /\
  (forall w, wdenote s w <> None -> wdenote (Model.put V zero s i v) w = wdenote s w).
Proof.
  intros s i v I. unfold Model.put. destruct (Nat.ltb_spec i (length (i_arr V s))).
  - destruct (put_raw_pres s i v I H) as [A [B _]]. auto.
  - destruct (set_len_pres s (S i) I) as [I1 [D1 L1]].
    destruct (put_raw_pres (set_len s (S i)) i v I1) as [A [B _]]; [lia|].
    split; auto. intros w Hw. rewrite B; auto. rewrite D1; auto.
Qed.

Lemma upd_same_id : forall A (l : list A) i x, nth_error l i = Some x -> upd l i x = l.
Proof. induction l; destruct i; simpl; intros; try discriminate; auto. congruence. f_equal. auto. Qed.

Lemma nth_getd : forall A (d : A) l i, i < length l -> nth_error l i = Some (getd d l i).
Proof. unfold getd. induction l; destruct i; simpl; intros; try lia; auto. apply IHl. lia. Qed.

Lemma onat_dec : forall a b : option nat, {a = b} + {a <> b}.
Proof. decide equality. apply Nat.eq_dec. Qed.

(* objectGoArrayReflect.swap: values exchanged, the cached wrappers follow their values *)
Lemma swap_pres : forall s i j, inv s ->
  inv (fst (istep s (PSwap i j))) /\ (forall w, wdenote (fst (istep s (PSwap i j))) w = wdenote s w).
Proof.
  intros s i j I. simpl.
  destruct (nth_error (i_arr V s) i) as [vi|] eqn:Ei; [|split; auto].
  destruct (nth_error (i_arr V s) j) as [vj|] eqn:Ej; [|split; auto].
  simpl. destruct I as [L [B C]].
  assert (Hi : i < length (i_arr V s)) by (eapply nth_some_lt; eauto).
  assert (Hj : j < length (i_arr V s)) by (eapply nth_some_lt; eauto).
  assert (Eci : nth_error (i_cache V s) i = Some (getd None (i_cache V s) i)) by (apply nth_getd; lia).
  assert (Ecj : nth_error (i_cache V s) j = Some (getd None (i_cache V s) j)) by (apply nth_getd; lia).
  set (ci := getd None (i_cache V s) i) in *. set (cj := getd None (i_cache V s) j) in *.
  assert (Fa : forall a, ci = Some a -> nth_error (i_ws V s) a = Some (Live i)) by (intros a E; apply B; rewrite Eci, E; auto).
  assert (Fb : forall b, cj = Some b -> nth_error (i_ws V s) b = Some (Live j)) by (intros b E; apply B; rewrite Ecj, E; auto).
  destruct (Nat.eq_dec i j) as [e|NE].
  - (* i = j: nothing changes *)
    subst j. assert (vj = vi) by congruence. subst vj.
    assert (cj = ci) by reflexivity.
    rewrite (upd_same_id _ (i_arr V s) i vi Ei). rewrite (upd_same_id _ (i_arr V s) i vi Ei).
    replace (upd (upd (i_cache V s) i ci) i cj) with (i_cache V s)
      by (rewrite (upd_same_id _ (i_cache V s) i ci Eci); symmetry; apply upd_same_id; auto).
    assert (W : match cj with
                | Some w => upd match ci with Some w0 => upd (i_ws V s) w0 (Live i) | None => i_ws V s end w (Live i)
                | None => match ci with Some w0 => upd (i_ws V s) w0 (Live i) | None => i_ws V s end
                end = i_ws V s).
    { rewrite H. destruct ci as [a|]; auto.
      rewrite (upd_same_id _ (i_ws V s) a (Live i) (Fa a eq_refl)). apply upd_same_id. auto. }
    rewrite W. split; [split; [|split]; auto|]. intros w. reflexivity.
  - (* i <> j *)
    set (ws1 := match ci with Some w => upd (i_ws V s) w (Live j) | None => i_ws V s end).
    set (ws2 := match cj with Some w => upd ws1 w (Live i) | None => ws1 end).
    set (c2 := upd (upd (i_cache V s) j ci) i cj).
    assert (Lw1 : length ws1 = length (i_ws V s)) by (unfold ws1; destruct ci; auto; apply upd_length).
    assert (Nab : forall a b, ci = Some a -> cj = Some b -> a <> b).
    { intros a b Ea Eb Eab. subst b. pose proof (Fa a Ea) as X1. pose proof (Fb a Eb) as X2. rewrite X1 in X2. inversion X2. congruence. }
    assert (W2b : forall b, cj = Some b -> nth_error ws2 b = Some (Live i)).
    { intros b Eb. unfold ws2. rewrite Eb. apply nth_upd_same. rewrite Lw1. eapply nth_some_lt. apply (Fb b Eb). }
    assert (W2a : forall a, ci = Some a -> nth_error ws2 a = Some (Live j)).
    { intros a Ea. unfold ws2. assert (X : nth_error ws1 a = Some (Live j)).
      { unfold ws1. rewrite Ea. apply nth_upd_same. eapply nth_some_lt. apply (Fa a Ea). }
      destruct cj as [b|] eqn:Eb; auto. rewrite nth_upd_other; auto. intro; subst. eapply Nab; eauto. }
    assert (W2o : forall w, ci <> Some w -> cj <> Some w -> nth_error ws2 w = nth_error (i_ws V s) w).
    { intros w Na Nb. unfold ws2, ws1. destruct cj as [b|]; destruct ci as [a|];
        repeat (rewrite nth_upd_other by congruence); auto. }
    assert (C2i : nth_error c2 i = Some cj).
    { unfold c2. apply nth_upd_same. rewrite upd_length. lia. }
    assert (C2j : nth_error c2 j = Some ci).
    { unfold c2. rewrite nth_upd_other by auto. apply nth_upd_same. lia. }
    assert (C2o : forall k, k <> i -> k <> j -> nth_error c2 k = nth_error (i_cache V s) k).
    { intros k Ki Kj. unfold c2. rewrite !nth_upd_other by auto. reflexivity. }
    assert (A2i : nth_error (upd (upd (i_arr V s) i vj) j vi) i = Some vj).
    { rewrite nth_upd_other by auto. apply nth_upd_same. auto. }
    assert (A2j : nth_error (upd (upd (i_arr V s) i vj) j vi) j = Some vi).
    { apply nth_upd_same. rewrite upd_length. auto. }
    assert (A2o : forall k, k <> i -> k <> j ->
                  nth_error (upd (upd (i_arr V s) i vj) j vi) k = nth_error (i_arr V s) k).
    { intros. rewrite !nth_upd_other by auto. reflexivity. }
    (* where a Live wrapper other than the two cached ones can sit *)
    assert (Oth : forall w k, ci <> Some w -> cj <> Some w -> nth_error (i_ws V s) w = Some (Live k) -> k <> i /\ k <> j).
    { intros w k Na Nb E. pose proof (C _ _ E) as X. split; intro; subst k.
      - rewrite Eci in X. congruence.
      - rewrite Ecj in X. congruence. }
    fold ws1. fold ws2. fold c2.
    split; [split; [|split]|]; simpl.
    + unfold c2. rewrite !upd_length. auto.
    + intros k w H.
      destruct (Nat.eq_dec k i); [subst k; rewrite C2i in H; apply W2b; congruence|].
      destruct (Nat.eq_dec k j); [subst k; rewrite C2j in H; apply W2a; congruence|].
      rewrite C2o in H by auto. pose proof (B _ _ H) as X.
      rewrite W2o; auto.
      * intro E. pose proof (Fa w E). rewrite X in H0. congruence.
      * intro E. pose proof (Fb w E). rewrite X in H0. congruence.
    + intros w k H.
      destruct (onat_dec cj (Some w)) as [Eb|Nb].
      { rewrite (W2b w Eb) in H. inversion H; subst k. rewrite C2i. congruence. }
      destruct (onat_dec ci (Some w)) as [Ea|Na].
      { rewrite (W2a w Ea) in H. inversion H; subst k. rewrite C2j. congruence. }
      rewrite W2o in H by auto. destruct (Oth w k Na Nb H) as [Ki Kj].
      rewrite C2o by auto. apply C. auto.
    + intros w. unfold Model.wdenote. simpl.
      destruct (onat_dec cj (Some w)) as [Eb|Nb].
      { rewrite (W2b w Eb), (Fb w Eb). rewrite A2i. auto. }
      destruct (onat_dec ci (Some w)) as [Ea|Na].
      { rewrite (W2a w Ea), (Fa w Ea). rewrite A2j. auto. }
      rewrite W2o by auto. destruct (nth_error (i_ws V s) w) as [[k|v]|] eqn:E; auto.
      destruct (Oth w k Na Nb E) as [Ki Kj]. apply A2o; auto.
Qed.

Definition is_swap (o : pop V U) : bool := match o with PSwap _ _ => true | _ => false end.

Lemma istep_pres : forall s o w, inv s ->
  inv (fst (istep s o)) /\ (Model.touches V U s w o = false -> wdenote s w <> None -> wdenote (fst (istep s o)) w = wdenote s w).
Proof.
  intros s o w I. destruct (is_swap o) eqn:NS.
  { destruct o; try discriminate. destruct (swap_pres s i j I) as [A B]. split; auto. }
  destruct o; simpl in NS; try discriminate; simpl.
  - (* PGet *)
    destruct (Nat.ltb_spec i (length (i_arr V s))); [|split; auto].
    destruct (nth_error (i_cache V s) i) as [[w0|]|] eqn:E; simpl; [split; auto| |].
    + destruct I as [L [B C]].
      assert (Hi : i < length (i_cache V s)) by lia.
      split; [split; [|split]|]; simpl.
      * rewrite upd_length. auto.
      * intros j w'. rewrite nth_upd. destruct (Nat.eqb_spec i j).
        { subst. apply Nat.ltb_lt in Hi. rewrite Hi. intro X. inversion X; subst.
          rewrite nth_error_app2 by lia. rewrite Nat.sub_diag. reflexivity. }
        intro X. pose proof (B _ _ X). rewrite nth_error_app1; auto. eapply nth_some_lt; eauto.
      * intros w' j X. destruct (Nat.lt_ge_cases w' (length (i_ws V s))).
        { rewrite nth_error_app1 in X by auto. pose proof (C _ _ X) as Y.
          rewrite nth_upd. destruct (Nat.eqb_spec i j); auto. subst. congruence. }
        rewrite nth_error_app2 in X by auto. destruct (w' - length (i_ws V s)) eqn:D; simpl in X.
        { inversion X; subst. assert (w' = length (i_ws V s)) by lia. subst. apply nth_upd_same. auto. }
        destruct n; discriminate.
      * intros _ Hw. unfold Model.wdenote in *. simpl.
        destruct (nth_error (i_ws V s) w) eqn:Ew; [|congruence].
        rewrite nth_error_app1 by (eapply nth_some_lt; eauto). rewrite Ew. reflexivity.
    + exfalso. destruct I as [L _]. apply nth_error_None in E. lia.
  - (* PPut *) destruct (put_pres s i v I) as [A B]. split; auto.
  - (* PPutH *) destruct (put_pres s i (match Model.hdenote V s k with Some v => v | None => zero end) I) as [A B].
    split; auto.
  - (* PDel *)
    destruct (Nat.ltb_spec i (length (i_arr V s))); [|split; auto].
    destruct (put_raw_pres s i zero I H) as [A [B _]]. split; auto.
  - (* PLen *) destruct (set_len_pres s n I) as [A [B _]]. split; auto.
  - (* PGoPut *)
    destruct I as [L [B C]]. split; [split; [|split]|]; simpl; auto.
    + rewrite upd_length. auto.
    + intros T Hw. unfold Model.wdenote in *. simpl.
      destruct (nth_error (i_ws V s) w) as [[j|x]|] eqn:Ew; auto.
      rewrite nth_upd_other; auto. intro; subst. rewrite Nat.eqb_refl in T. discriminate.
  - (* PWriteH *)
    destruct (nth_error (i_hs V s) k) as [[w0|]|] eqn:Eh; [|split; auto|split; auto].
    destruct (nth_error (i_ws V s) w0) as [[i|x]|] eqn:E0; [| |split; auto].
    + destruct (nth_error (i_arr V s) i) as [v|] eqn:Ea; [|split; auto].
      destruct I as [L [B C]]. split; [split; [|split]|]; simpl; auto.
      * rewrite upd_length. auto.
      * intros T Hw. unfold Model.wdenote in *. simpl.
        destruct (nth_error (i_ws V s) w) as [[j|y]|] eqn:Ew; auto.
        rewrite nth_upd_other; auto. intro; subst.
        pose proof (C _ _ Ew) as X1. pose proof (C _ _ E0) as X2. rewrite X1 in X2. inversion X2; subst.
        rewrite Nat.eqb_refl in T. discriminate.
    + destruct I as [L [B C]].
      assert (Hw0 : w0 < length (i_ws V s)) by (eapply nth_some_lt; eauto).
      split; [split; [|split]|]; simpl; auto.
      * intros j w' X. pose proof (B _ _ X) as Y. rewrite nth_upd. destruct (Nat.eqb_spec w0 w'); auto.
        subst. congruence.
      * intros w' j. rewrite nth_upd. destruct (Nat.eqb_spec w0 w').
        { destruct (Nat.ltb w0 (length (i_ws V s))); discriminate. }
        apply C.
      * intros T Hw. unfold Model.wdenote in *. simpl. rewrite nth_upd_other; auto.
        intro; subst. rewrite Nat.eqb_refl in T. discriminate.
  - (* PReadH *) split; auto.
  - (* PDump *) split; auto.
Qed.

Lemma wdenote_defined_stays : forall s o w, inv s ->
  Model.touches V U s w o = false -> wdenote s w <> None -> wdenote (fst (istep s o)) w <> None.
Proof. intros. destruct (istep_pres s o w H) as [_ D]. rewrite D; auto. Qed.

Fixpoint noswap (ops : list (pop V U)) : bool :=
  match ops with [] => true | o :: r => negb (is_swap o) && noswap r end.

Lemma irun_cons : forall s o r,
  fst (Model.irun V zero U app s (o :: r)) = fst (Model.irun V zero U app (fst (istep s o)) r).
Proof.
  intros. simpl. destruct (istep s o) as [s1 x]. simpl.
  destruct (Model.irun V zero U app s1 r). reflexivity.
Qed.

Lemma inv_init : forall l, inv (Model.iinit V l).
Proof.
  intros. unfold Model.iinit, Model.inv. simpl. split; [apply repeat_length|]. split.
  - intros i w H. apply repeat_nth_some in H. discriminate.
  - intros w i H. destruct w; discriminate.
Qed.

Lemma inv_run : forall ops s, inv s -> inv (fst (Model.irun V zero U app s ops)).
Proof.
  induction ops; intros s I.
  - simpl. auto.
  - rewrite irun_cons. apply IHops; auto. apply (istep_pres s a 0 I).
Qed.

Lemma stable_run : forall ops s w, inv s ->
  Model.untouched V zero U app s w ops = true -> wdenote s w <> None ->
  wdenote (fst (Model.irun V zero U app s ops)) w = wdenote s w.
Proof.
  induction ops; intros s w I T Hw.
  - reflexivity.
  - rewrite irun_cons. simpl in T.
    apply andb_prop in T. destruct T as [T1 T2].
    assert (TT : Model.touches V U s w a = false) by (destruct (Model.touches V U s w a); auto; discriminate).
    destruct (istep_pres s a w I) as [I1 D1].
    rewrite IHops; auto. rewrite D1; auto.
Qed.

(* write-through: a Live wrapper's write lands in the Go slice at its slot (live view of elements) *)
Lemma write_through_live : forall s k u w i v,
  nth_error (i_hs V s) k = Some (Some w) -> nth_error (i_ws V s) w = Some (Live i) ->
  nth_error (i_arr V s) i = Some v ->
  nth_error (i_arr V (fst (istep s (PWriteH k u)))) i = Some (app u v) /\ wdenote (fst (istep s (PWriteH k u))) w = Some (app u v).
Proof.
  intros s k u w i v Hk Hw Ha. simpl. rewrite Hk, Hw, Ha. simpl.
  assert (i < length (i_arr V s)) by (eapply nth_some_lt; eauto).
  split; [apply nth_upd_same; auto|]. unfold Model.wdenote. simpl. rewrite Hw. apply nth_upd_same; auto.
Qed.
End SliceProofs.

(* ------------------------------------------------------------------------------------------- *)
(* E. wrappers of a nested struct field *)

Lemma getd_setd_same : forall A (d : A) l i x, getd d (setd d l i x) i = x.
Proof. unfold getd. intros A d l i. revert l. induction i; destruct l; simpl; intros; auto. Qed.

Lemma getd_setd_other : forall A (d : A) l i j x, i <> j -> getd d (setd d l i x) j = getd d l j.
Proof.
  unfold getd. intros A d l i. revert l. induction i; destruct l; destruct j; simpl; intros; try congruence; auto.
  - destruct j; reflexivity.
  - rewrite IHi by congruence. destruct j; reflexivity.
Qed.

Section NestedProofs.
Variable V : Type.
Variable zero : V.
Variable U : Type.
Variable app : U -> V -> V.
Variable F : Type.
Variable getf : V -> F.
Variable setf : F -> V -> V.
Variable UF : Type.
Variable appf : UF -> F -> F.

Notation nst := (Model.nst V F).
Notation nstep := (Model.nstep V zero U app F getf setf UF appf).
Notation fdenote := (Model.fdenote V F getf).
Notation ninv := (Model.ninv V F).
Notation inv := (Model.inv V).
Notation wdenote := (Model.wdenote V).
Notation wupdate := (Model.wupdate V).

Definition ninv2 (n : nst) : Prop := inv (n_s V F n) /\ ninv n.

Lemma wupdate_pres : forall s w' g, inv s ->
  inv (wupdate s w' g) /\ (forall w, w <> w' -> wdenote (wupdate s w' g) w = wdenote s w) /\
  wdenote (wupdate s w' g) w' = option_map g (wdenote s w').
Proof.
  intros s w' g [L [B C]]. unfold Model.wupdate, Model.wdenote.
  destruct (nth_error (i_ws V s) w') as [[i|x]|] eqn:E0.
  - destruct (nth_error (i_arr V s) i) as [v|] eqn:Ea.
    + assert (Hi : i < length (i_arr V s)) by (eapply nth_some_lt; eauto).
      split; [split; [|split]; simpl; auto; rewrite upd_length; auto|]. split; simpl.
      * intros w N. destruct (nth_error (i_ws V s) w) as [[j|y]|] eqn:Ew; auto.
        rewrite nth_upd_other; auto. intro; subst j.
        pose proof (C _ _ Ew) as X1. pose proof (C _ _ E0) as X2. congruence.
      * rewrite E0. rewrite nth_upd_same by auto. reflexivity.
    + split; [split; [|split]; auto|]. split; auto. rewrite E0, Ea. reflexivity.
  - assert (Hw : w' < length (i_ws V s)) by (eapply nth_some_lt; eauto).
    split; [split; [|split]; simpl; auto|]; [| |split; simpl].
    + intros j w X. pose proof (B _ _ X) as Y. rewrite nth_upd_other; auto. intro; subst. congruence.
    + intros w j. rewrite nth_upd. destruct (Nat.eqb_spec w' w).
      { destruct (Nat.ltb w' (length (i_ws V s))); discriminate. }
      apply C.
    + intros w N. rewrite nth_upd_other; auto.
    + rewrite nth_upd_same by auto. reflexivity.
  - split; [split; [|split]; auto|]. split; auto. rewrite E0. reflexivity.
Qed.

(* an operation entitled to change what field wrapper c denotes *)
Definition ntouches (n : nst) (c : nat) (o : nop V U F UF) : bool :=
  match o with
  | NWriteF c' _ => match nth_error (n_fhs V F n) c' with Some (Some x) => Nat.eqb c x | _ => false end
  | NBase b => match nth_error (n_fws V F n) c with
               | Some (FSub w) => Model.touches V U (n_s V F n) w b
               | _ => false
               end
  | _ => false
  end.

Lemma howner_denotes : forall n k w, Model.howner V F n k = Some w -> wdenote (n_s V F n) w <> None.
Proof.
  unfold Model.howner. intros n k w H.
  destruct (nth_error (i_hs V (n_s V F n)) k) as [[w0|]|]; try discriminate.
  destruct (wdenote (n_s V F n) w0) eqn:E; try discriminate. inversion H; subst. congruence.
Qed.

Lemma nstep_pres : forall n o c, ninv2 n ->
  ninv2 (fst (nstep n o)) /\
  (ntouches n c o = false -> fdenote n c <> None -> fdenote (fst (nstep n o)) c = fdenote n c).
Proof.
  intros n o c [I [NB NC]]. destruct o; simpl.
  - (* NBase *)
    destruct (Model.istep V zero U app (n_s V F n) o) as [s' x] eqn:E. simpl.
    assert (s' = fst (Model.istep V zero U app (n_s V F n) o)) by (rewrite E; auto). subst s'.
    split; [split; [apply (istep_pres V zero U app _ o 0 I)|split; auto]|].
    unfold Model.fdenote. simpl. intros T Hd.
    destruct (nth_error (n_fws V F n) c) as [[w|f]|]; auto.
    destruct (istep_pres V zero U app (n_s V F n) o w I) as [_ D]. rewrite D; auto.
    intro X. rewrite X in Hd. simpl in Hd. congruence.
  - (* NGetF *)
    destruct (Model.howner V F n k) as [w|] eqn:Ho; simpl; [|split; [split; [|split]|]; auto].
    destruct (getd None (n_fc V F n) w) as [c0|] eqn:Ec; simpl; [split; [split; [|split]|]; auto|].
    split; [split; [auto|split]|]; simpl.
    + intros w1 c1. destruct (Nat.eq_dec w w1).
      * subst. rewrite getd_setd_same. intro X; inversion X; subst.
        rewrite nth_error_app2 by lia. rewrite Nat.sub_diag. reflexivity.
      * rewrite getd_setd_other by auto. intro X. pose proof (NB _ _ X).
        rewrite nth_error_app1; auto. eapply nth_some_lt; eauto.
    + intros c1 w1 X. destruct (Nat.lt_ge_cases c1 (length (n_fws V F n))).
      * rewrite nth_error_app1 in X by auto. pose proof (NC _ _ X) as Y.
        destruct (Nat.eq_dec w w1); [subst; congruence|]. rewrite getd_setd_other; auto.
      * rewrite nth_error_app2 in X by auto. destruct (c1 - length (n_fws V F n)) eqn:D; simpl in X.
        { inversion X; subst. rewrite getd_setd_same. f_equal. lia. }
        destruct n0; discriminate.
    + intros _ Hd. unfold Model.fdenote in *. simpl.
      destruct (nth_error (n_fws V F n) c) eqn:Ec1; [|congruence].
      rewrite nth_error_app1 by (eapply nth_some_lt; eauto). rewrite Ec1. reflexivity.
  - (* NPutF *)
    destruct (Model.howner V F n k) as [w|] eqn:Ho; simpl; [|split; [split; [|split]|]; auto].
    pose proof (howner_denotes n k w Ho) as Hw.
    destruct (wdenote (n_s V F n) w) as [v|] eqn:Ev; [|congruence]. simpl.
    destruct (wupdate_pres (n_s V F n) w (setf f) I) as [I' [Do Ds]].
    split; [split; [auto|split]|]; simpl.
    + intros w1 c1. destruct (Nat.eq_dec w w1); [subst; rewrite getd_setd_same; discriminate|].
      rewrite getd_setd_other by auto. intro X. pose proof (NB _ _ X) as Y.
      destruct (getd None (n_fc V F n) w) as [c0|] eqn:Ec; auto.
      rewrite nth_upd_other; auto. intro; subst c1. pose proof (NB _ _ Ec). congruence.
    + intros c1 w1 X.
      assert (X' : nth_error (n_fws V F n) c1 = Some (FSub w1) /\ getd None (n_fc V F n) w <> Some c1).
      { destruct (getd None (n_fc V F n) w) as [c0|] eqn:Ec; [|split; [auto|discriminate]].
        rewrite nth_upd in X. destruct (Nat.eqb_spec c0 c1).
        - destruct (Nat.ltb c0 (length (n_fws V F n))); discriminate.
        - split; auto. congruence. }
      destruct X' as [X1 X2]. pose proof (NC _ _ X1) as Y.
      destruct (Nat.eq_dec w w1); [subst; congruence|]. rewrite getd_setd_other; auto.
    + intros _ Hd. unfold Model.fdenote in *. simpl.
      destruct (getd None (n_fc V F n) w) as [c0|] eqn:Ec.
      * pose proof (NB _ _ Ec) as Y. rewrite nth_upd. destruct (Nat.eqb_spec c0 c).
        { subst c0. rewrite Y. rewrite Ev. simpl.
          assert (c < length (n_fws V F n)) by (eapply nth_some_lt; eauto).
          apply Nat.ltb_lt in H. rewrite H. reflexivity. }
        destruct (nth_error (n_fws V F n) c) as [[w1|f1]|] eqn:E1; auto.
        rewrite Do; auto. intro; subst w1. pose proof (NC _ _ E1). congruence.
      * destruct (nth_error (n_fws V F n) c) as [[w1|f1]|] eqn:E1; auto.
        rewrite Do; auto. intro; subst w1. pose proof (NC _ _ E1). congruence.
  - (* NPutFBad *)
    destruct (Model.howner V F n k); simpl; split; try (split; [|split]); auto.
  - (* NWriteF *)
    destruct (nth_error (n_fhs V F n) c0) as [[x|]|] eqn:Eh; simpl; [|split; [split; [|split]|]; auto|split; [split; [|split]|]; auto].
    destruct (nth_error (n_fws V F n) x) as [[w|f]|] eqn:Ex; simpl; [| |split; [split; [|split]|]; auto].
    + destruct (wupdate_pres (n_s V F n) w (fun v => setf (appf u (getf v)) v) I) as [I' [Do Ds]].
      split; [split; [auto|split; auto]|].
      intros T Hd. unfold Model.fdenote in *. simpl.
      destruct (nth_error (n_fws V F n) c) as [[w1|f1]|] eqn:E1; auto.
      rewrite Do; auto. intro; subst w1.
      pose proof (NC _ _ E1) as Y1. pose proof (NC _ _ Ex) as Y2. rewrite Y1 in Y2. inversion Y2; subst.
      rewrite Nat.eqb_refl in T. discriminate.
    + assert (Hx : x < length (n_fws V F n)) by (eapply nth_some_lt; eauto).
      split; [split; [auto|split]|]; simpl.
      * intros w1 c1 X. pose proof (NB _ _ X) as Y. rewrite nth_upd_other; auto. intro; subst. congruence.
      * intros c1 w1. rewrite nth_upd. destruct (Nat.eqb_spec x c1).
        { destruct (Nat.ltb x (length (n_fws V F n))); discriminate. }
        apply NC.
      * intros T Hd. unfold Model.fdenote in *. simpl. rewrite nth_upd_other; auto.
        intro; subst. rewrite Nat.eqb_refl in T. discriminate.
  - (* NReadF *) split; [split; [|split]|]; auto.
  - (* NSameF *) destruct (Model.howner V F n k); simpl; split; try (split; [|split]); auto.
Qed.

Lemma ninv2_init : forall l, ninv2 (Model.ninit V F l).
Proof.
  intros. split; [apply inv_init|]. unfold Model.ninit, Model.ninv. simpl. split.
  - intros w c H. unfold getd in H. destruct w; discriminate.
  - intros c w H. destruct c; discriminate.
Qed.

Lemma nrun_cons : forall n o r,
  fst (Model.nrun V zero U app F getf setf UF appf n (o :: r)) =
  fst (Model.nrun V zero U app F getf setf UF appf (fst (nstep n o)) r).
Proof.
  intros. simpl. destruct (nstep n o) as [n1 x]. simpl.
  destruct (Model.nrun V zero U app F getf setf UF appf n1 r). reflexivity.
Qed.

Lemma ninv2_run : forall ops n, ninv2 n -> ninv2 (fst (Model.nrun V zero U app F getf setf UF appf n ops)).
Proof.
  induction ops; intros n I; [auto|]. rewrite nrun_cons. apply IHops. apply (nstep_pres n a 0 I).
Qed.

Fixpoint nuntouched (n : nst) (c : nat) (ops : list (nop V U F UF)) : bool :=
  match ops with
  | [] => true
  | o :: r => negb (ntouches n c o) && nuntouched (fst (nstep n o)) c r
  end.

Lemma nstable_run : forall ops n c, ninv2 n -> nuntouched n c ops = true -> fdenote n c <> None ->
  fdenote (fst (Model.nrun V zero U app F getf setf UF appf n ops)) c = fdenote n c.
Proof.
  induction ops; intros n c I T Hd; [reflexivity|].
  rewrite nrun_cons. simpl in T. apply andb_prop in T. destruct T as [T1 T2].
  assert (TT : ntouches n c a = false) by (destruct (ntouches n c a); auto; discriminate).
  destruct (nstep_pres n a c I) as [I1 D1]. rewrite IHops; auto. rewrite D1; auto.
Qed.

(* the field wrapper handed out for H[k].In is the live view of that field: a write through it reaches
   whatever the owner addresses (the Go slice slot when the owner is Live) *)
Lemma field_write_through : forall n c x w u v, ninv2 n ->
  nth_error (n_fhs V F n) c = Some (Some x) -> nth_error (n_fws V F n) x = Some (FSub w) ->
  wdenote (n_s V F n) w = Some v ->
  wdenote (n_s V F (fst (nstep n (NWriteF c u)))) w = Some (setf (appf u (getf v)) v).
Proof.
  intros n c x w u v [I _] Hc Hx Hw. simpl. rewrite Hc, Hx. simpl.
  destruct (wupdate_pres (n_s V F n) w (fun v => setf (appf u (getf v)) v) I) as [_ [_ Ds]].
  rewrite Ds, Hw. reflexivity.
Qed.

(* a FAILING assignment to the field changes nothing: the wrapper handed out earlier stays attached *)
Lemma failing_assignment_noop : forall n k, fst (nstep n (NPutFBad k)) = n.
Proof. intros. simpl. destruct (Model.howner V F n k); reflexivity. Qed.
End NestedProofs.

(* ------------------------------------------------------------------------------------------- *)
(* C. the export identity cache on script-built graphs *)

Section ExportGraph.
Variable g : graph.

(* what one (sub-)export may do to the context: the cache keeps its size, only gains entries *)
Definition ext (s s' : est) : Prop :=
  length (e_cache s') = length (e_cache s) /\
  (forall id x, cache_get s id = Some x -> cache_get s' id = Some x) /\
  count_none (e_cache s') <= count_none (e_cache s).

Lemma ext_refl : forall s, ext s s.
Proof. intros. repeat split; auto. Qed.

Lemma ext_trans : forall a b c, ext a b -> ext b c -> ext a c.
Proof. intros a b c [L1 [M1 C1]] [L2 [M2 C2]]. repeat split; try congruence; auto. lia. Qed.

Lemma count_none_upd : forall c id x, nth_error c id = Some None ->
  S (count_none (upd c id (Some x))) = count_none c.
Proof.
  unfold count_none. induction c; destruct id; simpl; intros; try discriminate.
  - inversion H; subst. simpl. reflexivity.
  - destruct a; simpl; rewrite <- (IHc id x H); reflexivity.
Qed.

Lemma cache_get_none_slot : forall s id, id < length (e_cache s) -> cache_get s id = None ->
  nth_error (e_cache s) id = Some None.
Proof.
  unfold cache_get. intros s id L H. destruct (nth_error (e_cache s) id) as [[r|]|] eqn:E; try discriminate; auto.
  apply nth_error_None in E. lia.
Qed.

Lemma ext_put : forall s id x hp, id < length (e_cache s) -> cache_get s id = None ->
  ext s (mkEst (upd (e_cache s) id (Some x)) hp) /\
  cache_get (mkEst (upd (e_cache s) id (Some x)) hp) id = Some x /\
  S (count_none (upd (e_cache s) id (Some x))) = count_none (e_cache s).
Proof.
  intros s id x hp L H. pose proof (cache_get_none_slot s id L H) as E.
  pose proof (count_none_upd _ id x E) as Cn. split; [|split; auto].
  - repeat split; simpl.
    + apply upd_length.
    + intros id' y. unfold cache_get. simpl. rewrite nth_upd. destruct (Nat.eqb_spec id id'); auto.
      subst. rewrite E. discriminate.
    + lia.
  - unfold cache_get. simpl. rewrite nth_upd_same; auto.
Qed.

Lemma exp_fields_ext : forall ev,
  (forall s x s1 r, ev s x = Some (s1, r) -> ext s s1) ->
  forall l s s2 kvs, exp_fields ev l s = Some (s2, kvs) -> ext s s2.
Proof.
  intros ev Hev. induction l as [|[k x] l IH]; simpl; intros s s2 kvs H.
  - inversion H; subst. apply ext_refl.
  - destruct (ev s x) as [[s1 rx]|] eqn:E; try discriminate.
    destruct (exp_fields ev l s1) as [[s3 rr]|] eqn:E2; try discriminate. inversion H; subst.
    eapply ext_trans; eauto.
Qed.

Lemma exp_val_ext : forall fuel st v st' r,
  length (e_cache st) = length g -> exp_val fuel g st v = Some (st', r) ->
  ext st st' /\ (forall id, v = JR id -> cache_get st' id = Some r).
Proof.
  induction fuel; intros st v st' r L H.
  - destruct v; simpl in H.
    + inversion H; subst. split; [apply ext_refl|discriminate].
    + destruct (cache_get st id) eqn:E; try discriminate. inversion H; subst.
      split; [apply ext_refl|]. intros id' X; inversion X; subst; auto.
  - destruct v; simpl in H.
    + inversion H; subst. split; [apply ext_refl|discriminate].
    + destruct (cache_get st id) eqn:E.
      { inversion H; subst. split; [apply ext_refl|]. intros id' X; inversion X; subst; auto. }
      destruct (nth_error g id) as [nd|] eqn:En; try discriminate.
      assert (Hid : id < length (e_cache st)) by (rewrite L; eapply nth_some_lt; eauto).
      set (a := length (e_heap st)) in *.
      destruct (ext_put st id (node_res nd a) (e_heap st ++ [node_cell nd []]) Hid E) as [X1 [X2 _]].
      set (st1 := mkEst (upd (e_cache st) id (Some (node_res nd a))) (e_heap st ++ [node_cell nd []])) in *.
      destruct (exp_fields (exp_val fuel g) (node_fields nd) st1) as [[s2 kvs]|] eqn:Ef; try discriminate.
      inversion H; subst. clear H.
      (* every sub-export started from a context whose cache has the size of the graph *)
      assert (Hf : forall l s s3 kv, length (e_cache s) = length g ->
                   exp_fields (exp_val fuel g) l s = Some (s3, kv) -> ext s s3).
      { induction l as [|[k x] l IHl]; simpl; intros s s3 kv Ls Hl.
        - inversion Hl; subst. apply ext_refl.
        - destruct (exp_val fuel g s x) as [[s1 rx]|] eqn:E1; try discriminate.
          destruct (exp_fields (exp_val fuel g) l s1) as [[s4 rr]|] eqn:E2; try discriminate.
          inversion Hl; subst. destruct (IHfuel _ _ _ _ Ls E1) as [Y _].
          eapply ext_trans; eauto. eapply IHl; eauto. destruct Y as [Y1 _]. congruence. }
      assert (L1 : length (e_cache st1) = length g) by (unfold st1; simpl; rewrite upd_length; auto).
      pose proof (Hf _ _ _ _ L1 Ef) as X3.
      split.
      * destruct X1 as [A1 [A2 A3]]. destruct X3 as [B1 [B2 B3]]. repeat split; simpl; try congruence; try lia.
        intros id' x Hx. unfold cache_get in *. simpl. apply B2. apply A2. auto.
      * intros id' X; inversion X; subst. destruct X3 as [_ [B2 _]].
        unfold cache_get in *. simpl. apply B2. auto.
Qed.

(* equal object ids => identical Go results: once an object has a result, every later reference to it
   in ANY later context of the same export returns that very result (same address), and leaves the
   context unchanged *)
Lemma exp_val_cached : forall fuel st id r,
  cache_get st id = Some r -> exp_val fuel g st (JR id) = Some (st, r).
Proof. intros. destruct fuel; simpl; rewrite H; reflexivity. Qed.

Lemma export_sharing : forall fuel st id st1 r fuel' st2,
  length (e_cache st) = length g ->
  exp_val fuel g st (JR id) = Some (st1, r) -> ext st1 st2 ->
  exp_val fuel' g st2 (JR id) = Some (st2, r).
Proof.
  intros fuel st id st1 r fuel' st2 L H [_ [M _]].
  destruct (exp_val_ext _ _ _ _ _ L H) as [_ C]. apply exp_val_cached. apply M. apply C. reflexivity.
Qed.

(* termination on cyclic graphs: fuel > number of objects that have no result yet *)
Lemma exp_fields_total : forall ev (R : est -> Prop) l,
  (forall s x, R s -> In x (map snd l) -> exists s1 r, ev s x = Some (s1, r) /\ R s1) ->
  forall s, R s -> exists s2 kvs, exp_fields ev l s = Some (s2, kvs).
Proof.
  intros ev R. induction l as [|[k x] l IH]; simpl; intros Hev s Rs.
  - eauto.
  - destruct (Hev s x Rs (or_introl eq_refl)) as [s1 [r [E R1]]]. rewrite E.
    destruct (IH (fun s0 x0 R0 I0 => Hev s0 x0 R0 (or_intror I0)) s1 R1) as [s2 [kvs E2]].
    rewrite E2. eauto.
Qed.

Lemma node_fields_closed : forall nd n x, node_closed n nd = true -> In x (map snd (node_fields nd)) ->
  jv_closed n x = true.
Proof.
  intros nd n x H I. destruct nd; simpl in *.
  - rewrite forallb_forall in H. apply in_map_iff in I. destruct I as [kv [E I]]. subst. apply H. auto.
  - rewrite forallb_forall in H. rewrite map_map in I. simpl in I. rewrite map_id in I. apply H. auto.
Qed.

Lemma exp_val_total : forall fuel st v,
  graph_closed g = true -> length (e_cache st) = length g ->
  count_none (e_cache st) < fuel -> jv_closed (length g) v = true ->
  exists st' r, exp_val fuel g st v = Some (st', r).
Proof.
  induction fuel; intros st v GC L Cn Cv; [lia|].
  destruct v; simpl; [eauto|].
  destruct (cache_get st id) eqn:E; [eauto|].
  simpl in Cv. apply Nat.ltb_lt in Cv.
  destruct (nth_error g id) as [nd|] eqn:En; [|apply nth_error_None in En; lia].
  assert (Hid : id < length (e_cache st)) by lia.
  set (a := length (e_heap st)).
  destruct (ext_put st id (node_res nd a) (e_heap st ++ [node_cell nd []]) Hid E) as [X1 [X2 X3]].
  set (st1 := mkEst (upd (e_cache st) id (Some (node_res nd a))) (e_heap st ++ [node_cell nd []])) in *.
  assert (NC : node_closed (length g) nd = true).
  { unfold graph_closed in GC. rewrite forallb_forall in GC. apply GC. eapply nth_error_In; eauto. }
  destruct (exp_fields_total (exp_val fuel g)
              (fun s => length (e_cache s) = length g /\ count_none (e_cache s) < fuel) (node_fields nd)) with (s := st1)
    as [s2 [kvs Ef]].
  - intros s x [Ls Cs] I.
    destruct (IHfuel s x GC Ls Cs (node_fields_closed nd _ x NC I)) as [s1 [r E1]].
    exists s1, r. split; auto. destruct (exp_val_ext _ _ _ _ _ Ls E1) as [[Y1 [_ Y3]] _]. split; [congruence|lia].
  - unfold st1. simpl. rewrite upd_length. split; auto. lia.
  - rewrite Ef. eauto.
Qed.

Lemma count_none_repeat : forall n, count_none (repeat None n) = n.
Proof. unfold count_none. induction n; simpl; auto. Qed.

Lemma export_graph_total : forall root, graph_closed g = true -> jv_closed (length g) root = true ->
  exists st r, export_graph g root = Some (st, r).
Proof.
  intros. unfold export_graph. apply exp_val_total; auto.
  - unfold est0. simpl. apply repeat_length.
  - unfold est0. simpl. rewrite count_none_repeat. lia.
Qed.
End ExportGraph.
