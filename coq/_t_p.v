(* C04 — Essential object invariants hold for every object kind and every key kind.
   ONLY theorem statements; each is closed by [exact] of a lemma of C04/Proofs*.v.
   S = ECMA-262 10.1 ordinary object (Model.v, first half); I = goja's baseObject transcribed from the
   current tree (second half).  All six C04 findings (F1 F2 N1 N2 N3 N4) are repaired in /repo; the
   theorems below are full strength. *)
From Coq Require Import List Arith NArith Bool Permutation Lia.
Import ListNotations.
From Verif.C04 Require Import Model Proofs ProofsKeys ProofsSet ProofsSetEq.

Example set_eq_spec_nonvacuous :
  let hi := [mkIObj None true [(KIdx 1, IProp (mkVP None false false true true None (Some 4)))] (mkNames [KIdx 1] 0 0)
                    [(KSym 0, IProp (mkVP (Some (VNum 1)) false true true false None None))];
             mkIObj (Some 0) true [] names0 []; mkIObj (Some 1) false [] names0 []] in
  let hs := [mkObj None true [(KIdx 1, PAcc None (Some 4) true false); (KSym 0, PData (VNum 1) false true true)];
             mkObj (Some 0) true []; mkObj (Some 1) false []] in
  (forall i, i < 3 -> i_dump (ihget hi i) = s_dump (hget hs i)) /\
  snd (fst (istep hi (OSet 2 (KIdx 1) true (VNum 7) 1))) = RBool true /\
  snd (istep hi (OSet 2 (KIdx 1) true (VNum 7) 1)) = [Ev 4 1 (Some (VNum 7))] /\
  snd (fst (sstep hs (OSet 2 (KSym 0) false (VNum 7) 2))) = RBool false /\
  snd (fst (sstep hs (OSet 2 (KStr 0) false (VNum 7) 2))) = RBool false /\
  snd (fst (sstep hs (OSet 2 (KStr 0) false (VNum 7) 1))) = RBool true.
Proof. vm_compute. repeat split; intros; repeat (destruct i as [|i]; try reflexivity; try lia). Show. Abort.

