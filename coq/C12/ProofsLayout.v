(* C12 — bit patterns are canonical; the nearer neighbour is taken; layout functions vs the ECMA-262 steps. *)
From Coq Require Import ZArith Bool List SpecFloat Lia Psatz.
From Verif.Base Require Import F64.
From Verif.C12 Require Import Model Proofs ProofsRound ProofsShortest.
Import ListNotations.
Local Open Scope Z_scope.

(* every finite value produced from a bit pattern is canonical *)
Lemma of_bits_canon : forall b,
  match of_bits b with S754_finite _ m e => canon64 m e | _ => True end.
Proof.
  intros b. unfold of_bits, of_bits_gen. cbv zeta.
  change (53 - 1) with 52. change (52 + 11 + 1) with 64. change (52 + 11) with 63.
  change (3 - 2 ^ (11 - 1) - 53) with (-1074). change (2 ^ 11 - 1) with 2047.
  set (b' := b mod 2 ^ 64).
  pose proof (Z.mod_pos_bound (b' / 2 ^ 52) (2 ^ 11) ltac:(reflexivity)) as Hex.
  pose proof (Z.mod_pos_bound b' (2 ^ 52) ltac:(reflexivity)) as Hmant.
  set (ex := (b' / 2 ^ 52) mod 2 ^ 11) in *. set (mant := b' mod 2 ^ 52) in *.
  destruct (ex =? 2047) eqn:E1; [destruct (mant =? 0); exact I|]. apply Z.eqb_neq in E1.
  assert (C11 : 2 ^ 11 = 2048) by reflexivity. assert (C53 : 2 ^ 53 = 2 * 2 ^ 52) by reflexivity.
  destruct (ex =? 0) eqn:E0.
  - destruct mant as [|p|p] eqn:Em; try exact I. unfold canon64. lia.
  - apply Z.eqb_neq in E0. destruct (mant + 2 ^ 52) as [|p|p] eqn:Em; try exact I.
    unfold canon64. lia.
Qed.

(* ---- by construction: among the two neighbours the nearer one is taken (ties: even digit) ---- *)
Lemma pick_cand_closer : forall x N D pt n d e,
  pick_cand x N D pt n = Some (d, e) ->
  let '(lo, r, B, s) := cands N D pt n in
  (rounds_to x lo (- s) = true -> rounds_to x (lo + 1) (- s) = true ->
     (2 * r < B /\ (d, e) = norm_cand lo (- s) n) \/
     (B < 2 * r /\ (d, e) = norm_cand (lo + 1) (- s) n) \/
     (2 * r = B /\ (d, e) = norm_cand (if Z.even lo then lo else lo + 1) (- s) n)).
Proof.
  intros x N D pt n d e. unfold pick_cand.
  destruct (cands N D pt n) as [[[lo r] B] s].
  intros H R1 R2. rewrite R1, R2 in H. cbn [andb] in H.
  destruct (2 * r <? B) eqn:E1.
  - apply Z.ltb_lt in E1. left. split; [assumption|]. congruence.
  - apply Z.ltb_ge in E1. destruct (B <? 2 * r) eqn:E2.
    + apply Z.ltb_lt in E2. right; left. split; [assumption|]. congruence.
    + apply Z.ltb_ge in E2. right; right. split; [lia|]. destruct (Z.even lo); congruence.
Qed.

Ltac zb :=
  repeat match goal with
  | |- context [?a <=? ?b] => let E := fresh "E" in destruct (a <=? b) eqn:E; [apply Z.leb_le in E | apply Z.leb_gt in E]
  | |- context [?a <? ?b] => let E := fresh "E" in destruct (a <? b) eqn:E; [apply Z.ltb_lt in E | apply Z.ltb_ge in E]
  | |- context [?a =? ?b] => let E := fresh "E" in destruct (a =? b) eqn:E; [apply Z.eqb_eq in E | apply Z.eqb_neq in E]
  end; cbn [andb orb negb]; try reflexivity; try lia.

(* ---- Number::toString steps 5-10 (ECMA-262 6.1.6.1.20): ds = the k >= 1 digits, n = point position ---- *)
Lemma tostring_layout_steps : forall ds n, let k := zlen ds in 1 <= k ->
  (k <= n <= 21 -> tostring_layout ds n = ds ++ zeros (n - k)) /\
  (0 < n <= 21 -> n < k -> tostring_layout ds n = zfirstn n ds ++ 46 :: zskipn n ds) /\
  (-6 < n <= 0 -> tostring_layout ds n = 48 :: 46 :: zeros (- n) ++ ds) /\
  (n <= -6 \/ 21 < n -> forall d1, ds = [d1] -> tostring_layout ds n = d1 :: exp_suffix (n - 1)) /\
  (n <= -6 \/ 21 < n -> forall d1 d2 rest, ds = d1 :: d2 :: rest ->
     tostring_layout ds n = d1 :: 46 :: (d2 :: rest) ++ exp_suffix (n - 1)).
Proof.
  intros ds n k Hk. unfold tostring_layout. fold k.
  split; [|split; [|split; [|split]]].
  - intros H. zb.
  - intros H H2. zb.
  - intros H. zb.
  - intros H d1 ->. zb.
  - intros H d1 d2 rest ->. zb.
Qed.

(* Number.prototype.toFixed step 10: the digits of n, left-padded with zeros to f+1, point before the last f *)
Lemma fixed_body_steps : forall n f, 0 <= f ->
  let ds := if n =? 0 then [48] else digits_of n in
  (f = 0 -> fixed_body n f = ds) /\
  (0 < f -> f < zlen ds -> fixed_body n f = zfirstn (zlen ds - f) ds ++ 46 :: zskipn (zlen ds - f) ds) /\
  (0 < f -> zlen ds <= f ->
     let ds' := zeros (f + 1 - zlen ds) ++ ds in
     fixed_body n f = zfirstn (zlen ds' - f) ds' ++ 46 :: zskipn (zlen ds' - f) ds').
Proof.
  intros n f Hf ds. unfold fixed_body. fold ds.
  split; [|split].
  - intros ->. reflexivity.
  - intros H1 H2. zb.
  - intros H1 H2. zb.
Qed.

(* Number.prototype.toPrecision steps 10-13 on the p digits ds and the exponent e *)
Lemma prec_layout_steps : forall ds e p,
  (e < -6 \/ p <= e -> prec_layout ds e p = exp_layout ds e) /\
  (-6 <= e < p -> e = p - 1 -> prec_layout ds e p = ds) /\
  (0 <= e < p - 1 -> prec_layout ds e p = zfirstn (e + 1) ds ++ 46 :: zskipn (e + 1) ds) /\
  (-6 <= e < 0 -> e < p - 1 -> prec_layout ds e p = 48 :: 46 :: zeros (- (e + 1)) ++ ds).
Proof.
  intros ds e p. unfold prec_layout.
  split; [|split; [|split]].
  - intros H. zb.
  - intros H H2. zb.
  - intros H. zb.
  - intros H H2. zb.
Qed.
