(* C12 — instantiation used by the correspondence check (depends on Model.v only). *)
From Coq Require Import ZArith Bool List SpecFloat.
From Verif.Base Require Import F64.
From Verif.C12 Require Import Model.
Import ListNotations.
Local Open Scope Z_scope.

(* a case = the input AND what goja returned for it *)
Inductive tcase :=
| CToStr  (bits : Z) (out : list Z)            (* String(x) and equivalents *)
| CToExpS (bits : Z) (out : list Z)            (* x.toExponential() *)
| CFixed  (bits f : Z) (out : list Z)          (* x.toFixed(f) *)
| CExp    (bits f : Z) (out : list Z)          (* x.toExponential(f) *)
| CPrec   (bits p : Z) (out : list Z)          (* x.toPrecision(p) *)
| CRadix  (bits r : Z) (out : list Z)          (* x.toString(r): validated, not recomputed *)
| CRound  (bits outbits : Z)                   (* Number(String(x)) *)
| CNum    (s : list Z) (outbits : Z)           (* StringToNumber *)
| CPFloat (s : list Z) (outbits : Z)           (* parseFloat *)
| CPInt   (s : list Z) (radix outbits : Z)     (* parseInt *)
| CLit    (s : list Z) (res : Z)               (* numeric literal; -1 = error *)
| CSeq (steps : list tcase)                   (* conversions run in this order in ONE process/runtime *)
| CFail.

Definition canon_bits (x : f64) : Z := to_bits x.     (* S754_nan |-> 0x7FF8000000000000 *)

Inductive answer := AStr (l : list Z) | ABits (b : Z) | AValid (ok : bool) | ANone | ASeq (l : list answer).

(* what the model says *)
Definition expected1 (c : tcase) : answer :=
  match c with
  | CToStr b _ => AStr (to_string (of_bits b))
  | CToExpS b _ => AStr (to_exponential_shortest (of_bits b))
  | CFixed b f _ => AStr (to_fixed (of_bits b) f)
  | CExp b f _ => AStr (to_exponential (of_bits b) f)
  | CPrec b p _ => AStr (to_precision (of_bits b) p)
  | CRadix b r out => AValid (radix_ok (of_bits b) r out)
  | CRound b _ => ABits (canon_bits (match of_bits b with S754_zero _ => S754_zero false | v => v end))
  | CNum s _ => ABits (canon_bits (string_to_number s))
  | CPFloat s _ => ABits (canon_bits (parse_float s))
  | CPInt s r _ => ABits (canon_bits (parse_int s r))
  | CLit s _ => ABits (match numeric_literal s with Some v => canon_bits v | None => -1 end)
  | CFail => ANone
  | CSeq _ => ANone
  end.

Definition observed (c : tcase) : answer :=
  match c with
  | CToStr _ o | CToExpS _ o | CFixed _ _ o | CExp _ _ o | CPrec _ _ o => AStr o
  | CRadix _ _ _ => AValid true
  | CRound _ o | CNum _ o | CPFloat _ o | CPInt _ _ o | CLit _ o => ABits o
  | CFail => AValid false
  | CSeq _ => AValid false
  end.

Definition answer_eqb (a b : answer) : bool :=
  match a, b with
  | AStr x, AStr y => list_eqb x y
  | ABits x, ABits y => x =? y
  | AValid x, AValid y => Bool.eqb x y
  | _, _ => false
  end.

Definition check1 (c : tcase) : bool := answer_eqb (observed c) (expected1 c).

(* a sequence is right iff every step is: each conversion is a pure function of its own input, so the
   model's answer for a step does not depend on the steps before it *)
Definition check_case (c : tcase) : bool :=
  match c with CSeq l => forallb check1 l | _ => check1 c end.
Definition expected (c : tcase) : answer :=
  match c with CSeq l => ASeq (map expected1 l) | _ => expected1 c end.

Fixpoint mismatch_from (i : N) (cs : list tcase) : list N :=
  match cs with
  | [] => []
  | c :: r => if check_case c then mismatch_from (N.succ i) r else i :: mismatch_from (N.succ i) r
  end.
Definition mismatch_ids := mismatch_from 0%N.
