(* C12 — Number <-> string conversions: the SPECIFICATION made executable (no proofs here).
   Everything is exact integer arithmetic on Z.  A positive rational is a pair N/D (N >= 0, D > 0).
   Every finite binary64 value is an integer multiple of 2^-1074; a rounding result is kept as
   (q, k), meaning q * 2^k in units of 2^-1074 (so k = exponent + 1074 >= 0). *)
From Coq Require Import ZArith Bool List SpecFloat String Ascii.
From Verif.Base Require Import F64.
Import ListNotations.
Local Open Scope Z_scope.

(* ------------------------------------------------------------------------------------------ *)
(* 0. small helpers                                                                           *)

Fixpoint str (s : string) : list Z :=
  match s with EmptyString => [] | String a r => Z.of_N (N_of_ascii a) :: str r end.

Definition f64_eqb (a b : f64) : bool :=
  match a, b with
  | S754_zero s1, S754_zero s2 => Bool.eqb s1 s2
  | S754_infinity s1, S754_infinity s2 => Bool.eqb s1 s2
  | S754_nan, S754_nan => true
  | S754_finite s1 m1 e1, S754_finite s2 m2 e2 => Bool.eqb s1 s2 && Pos.eqb m1 m2 && Z.eqb e1 e2
  | _, _ => false
  end.

Fixpoint list_eqb (a b : list Z) : bool :=
  match a, b with
  | [], [] => true
  | x :: a', y :: b' => (x =? y) && list_eqb a' b'
  | _, _ => false
  end.

Definition zlen {A} (l : list A) : Z := Z.of_nat (List.length l).
Definition zeros (n : Z) : list Z := repeat 48 (Z.to_nat n).
Definition zfirstn {A} (n : Z) (l : list A) := firstn (Z.to_nat n) l.
Definition zskipn {A} (n : Z) (l : list A) := skipn (Z.to_nat n) l.

(* ------------------------------------------------------------------------------------------ *)
(* 1. rational -> binary64, round to nearest, ties to even                                    *)

(* quotient and remainder; a power-of-two divisor is handled by shifting (same result, see
   Proofs.divmod_spec) because Z.div_eucl is bit-serial and quadratic on 1000-bit operands *)
Definition divmod (A B : Z) : Z * Z :=
  let t := Z.log2 B in
  if B =? 2 ^ t then (Z.shiftr A t, Z.land A (Z.ones t)) else Z.div_eucl A B.

(* N/D >= 0  |->  (q, k): the nearest "double with unbounded exponent", in units of 2^-1074.
   One division at an exponent estimated from the bit lengths (quotient q0 has 53 or 54 bits), then
   j more bits are dropped (1 if q0 has 54 bits; more when the exponent is clamped at -1074). *)
Definition round_pos (N D : Z) : Z * Z :=
  let e0 := Z.log2 N - Z.log2 D - 53 in
  let N' := N * 2 ^ (Z.max 0 (- e0)) in
  let den0 := D * 2 ^ (Z.max 0 e0) in
  let (q0, r0) := divmod N' den0 in
  let j := Z.max (if 2 ^ 53 <=? q0 then 1 else 0) (- 1074 - e0) in
  let q := q0 / 2 ^ j in
  let rem := (q0 mod 2 ^ j) * den0 + r0 in
  let den := den0 * 2 ^ j in
  let up := (den <? 2 * rem) || ((den =? 2 * rem) && Z.odd q) in
  ((if up then q + 1 else q), e0 + j + 1074).

(* (q, k) -> binary64 datum: renormalise 2^53, overflow to infinity *)
Definition pack (s : bool) (qk : Z * Z) : f64 :=
  let (q, k) := qk in
  if q =? 0 then S754_zero s else
  let (m, k') := if q =? 2 ^ 53 then (2 ^ 52, k + 1) else (q, k) in
  if 2045 <? k' then S754_infinity s else S754_finite s (Z.to_pos m) (k' - 1074).

Definition round_ratio (s : bool) (N D : Z) : f64 := pack s (round_pos N D).

(* the double nearest to  digits * 10^e10  (digits >= 0; s = sign) *)
Definition parse_decimal_s (s : bool) (digits e10 : Z) : f64 :=
  if 0 <=? e10 then round_ratio s (digits * 10 ^ e10) 1
  else round_ratio s digits (10 ^ (- e10)).

Definition parse_decimal (digits e10 : Z) : f64 :=
  parse_decimal_s (digits <? 0) (Z.abs digits) e10.

(* 2. membership in the rounding interval of x, decided by rounding *)
Definition rounds_to (x : f64) (digits e10 : Z) : bool := f64_eqb (parse_decimal digits e10) x.

(* value of a finite double in units of 2^-1074 (sign dropped) and its sign *)
Definition sval (x : f64) : Z :=
  match x with S754_finite _ m e => Z.pos m * 2 ^ (e + 1074) | _ => 0 end.

(* |x| as a ratio N/D *)
Definition ratio_of (m : positive) (e : Z) : Z * Z :=
  if 0 <=? e then (Z.pos m * 2 ^ e, 1) else (Z.pos m, 2 ^ (- e)).

(* X * 10^s as a ratio *)
Definition scale10 (N D s : Z) : Z * Z :=
  if 0 <=? s then (N * 10 ^ s, D) else (N, D * 10 ^ (- s)).

(* 10^p <= N/D ? *)
Definition le_pow10 (N D p : Z) : bool :=
  if 0 <=? p then 10 ^ p * D <=? N else D <=? N * 10 ^ (- p).

Fixpoint climb (fuel : nat) (N D p : Z) : Z :=
  match fuel with
  | O => p
  | S f => if le_pow10 N D p then climb f N D (p + 1) else p
  end.

(* pt with 10^(pt-1) <= N/D < 10^pt; the final test makes the result self-certifying.  The position is
   estimated from the bit lengths and fixed up in at most 8 steps; should the estimate ever be off the
   plain search from 10^-400 is used (it never is on the sampled inputs; the fallback is what makes
   the function provably total on binary64 values, see Proofs.dec_pt_total). *)
Definition dec_pt_ok (N D pt : Z) : bool := le_pow10 N D (pt - 1) && negb (le_pow10 N D pt).

Definition dec_pt (N D : Z) : option Z :=
  let est := ((Z.log2 N - Z.log2 D) * 30103) / 100000 in
  let pt := climb 8 N D (est - 2) in
  if dec_pt_ok N D pt then Some pt
  else let pt2 := climb 800 N D (-400) in
       if dec_pt_ok N D pt2 then Some pt2 else None.

(* ------------------------------------------------------------------------------------------ *)
(* 3. shortest round-trip digits                                                              *)

Definition norm_cand (c e10 n : Z) : Z * Z :=
  if c =? 10 ^ n then (10 ^ (n - 1), e10 + 1) else (c, e10).

(* candidates with n digits: floor(X*10^s) and +1 at the scale s = n - pt *)
Definition cands (N D pt n : Z) : Z * Z * Z * Z :=     (* lo, remainder, divisor, s *)
  let s := n - pt in
  let (A, B) := scale10 N D s in
  let (lo, r) := divmod A B in
  (lo, r, B, s).

Definition pick_cand (x : f64) (N D pt n : Z) : option (Z * Z) :=
  let '(lo, r, B, s) := cands N D pt n in
  let hi := lo + 1 in
  let oklo := rounds_to x lo (- s) in
  let okhi := rounds_to x hi (- s) in
  if oklo && okhi then
    Some (norm_cand (if 2 * r <? B then lo else if B <? 2 * r then hi
                     else if Z.even lo then lo else hi) (- s) n)
  else if oklo then Some (norm_cand lo (- s) n)
  else if okhi then Some (norm_cand hi (- s) n)
  else None.

Fixpoint shortest_from (fuel : nat) (n : Z) (x : f64) (N D pt : Z) : option (Z * Z) :=
  match fuel with
  | O => None
  | S f => match pick_cand x N D pt n with
           | Some r => Some r
           | None => shortest_from f (n + 1) x N D pt
           end
  end.

(* x must be finite and non-zero; the result (d, e10) denotes |x| ~ d * 10^e10 *)
Definition shortest (x : f64) : option (Z * Z) :=
  match x with
  | S754_finite _ m e =>
      let (N, D) := ratio_of m e in
      match dec_pt N D with
      | Some pt => shortest_from 17 1 (S754_finite false m e) N D pt
      | None => None
      end
  | _ => None
  end.

(* ------------------------------------------------------------------------------------------ *)
(* 4. decimal digits and the ECMAScript layouts                                               *)

Fixpoint digs_acc (n : nat) (d : Z) (acc : list Z) : list Z :=
  match n with O => acc | S n' => digs_acc n' (d / 10) ((48 + d mod 10) :: acc) end.
(* exactly n decimal digits of d (least significant n digits), most significant first *)
Definition digs (n : Z) (d : Z) : list Z := digs_acc (Z.to_nat n) d [].

Fixpoint ndig_f (fuel : nat) (d : Z) : Z :=
  match fuel with O => 1 | S f => if d <? 10 then 1 else 1 + ndig_f f (d / 10) end.
Definition ndig (d : Z) : Z := ndig_f (Z.to_nat (Z.log2 d)) d.
Definition digits_of (d : Z) : list Z := digs (ndig d) d.

Definition exp_suffix (e : Z) : list Z :=      (* "e+5" / "e-7" *)
  101 :: (if 0 <=? e then 43 else 45) :: digits_of (Z.abs e).

(* Number::toString steps 5-10; ds = the k digits, n = position of the point (value = 0.ds * 10^n) *)
Definition tostring_layout (ds : list Z) (n : Z) : list Z :=
  let k := zlen ds in
  if (k <=? n) && (n <=? 21) then ds ++ zeros (n - k)
  else if (0 <? n) && (n <=? 21) then zfirstn n ds ++ 46 :: zskipn n ds
  else if (-6 <? n) && (n <=? 0) then 48 :: 46 :: zeros (- n) ++ ds
  else match ds with
       | [d1] => d1 :: exp_suffix (n - 1)
       | d1 :: rest => d1 :: 46 :: rest ++ exp_suffix (n - 1)
       | [] => []
       end.

Definition model_err : list Z := str "?model".
Definition sign_units (s : bool) : list Z := if s then [45] else [].

Definition to_string (x : f64) : list Z :=
  match x with
  | S754_nan => str "NaN"
  | S754_zero _ => [48]
  | S754_infinity s => sign_units s ++ str "Infinity"
  | S754_finite s _ _ =>
      match shortest x with
      | Some (d, e10) => let ds := digits_of d in sign_units s ++ tostring_layout ds (e10 + zlen ds)
      | None => model_err
      end
  end.

(* x.toExponential() without argument: shortest digits, always exponent form *)
Definition exp_layout (ds : list Z) (e : Z) : list Z :=
  match ds with
  | [d1] => d1 :: exp_suffix e
  | d1 :: rest => d1 :: 46 :: rest ++ exp_suffix e
  | [] => []
  end.

Definition to_exponential_shortest (x : f64) : list Z :=
  match x with
  | S754_zero _ => str "0e+0"
  | S754_finite s _ _ =>
      match shortest x with
      | Some (d, e10) => let ds := digits_of d in sign_units s ++ exp_layout ds (e10 + zlen ds - 1)
      | None => model_err
      end
  | _ => to_string x
  end.

(* ------------------------------------------------------------------------------------------ *)
(* 5. toFixed / toExponential(f) / toPrecision(p)                                             *)

(* the integer nearest to A/B, the LARGER one on a tie (A >= 0, B > 0) *)
Definition rhu (A B : Z) : Z := fst (divmod (2 * A + B) (2 * B)).

Definition fixed_n (N D f : Z) : Z := rhu (N * 10 ^ f) D.

Definition range_error : list Z := str "!RangeError".

Definition fixed_body (n f : Z) : list Z :=
  let ds := if n =? 0 then [48] else digits_of n in
  if f =? 0 then ds else
  let k := zlen ds in
  let ds' := if k <=? f then zeros (f + 1 - k) ++ ds else ds in
  let k' := zlen ds' in
  zfirstn (k' - f) ds' ++ 46 :: zskipn (k' - f) ds'.

Definition to_fixed (x : f64) (f : Z) : list Z :=
  if (f <? 0) || (100 <? f) then range_error else
  match x with
  | S754_zero _ => fixed_body 0 f
  | S754_finite s m e =>
      let (N, D) := ratio_of m e in
      if 10 ^ 21 * D <=? N then to_string x
      else sign_units s ++ fixed_body (fixed_n N D f) f
  | _ => to_string x
  end.

(* n with f+1 digits and e such that n * 10^(e-f) is nearest to N/D (larger n on ties) *)
Definition exp_parts (N D f : Z) : option (Z * Z) :=
  match dec_pt N D with
  | None => None
  | Some pt =>
      let e0 := pt - 1 in
      let (A, B) := scale10 N D (f - e0) in
      let n0 := rhu A B in
      if n0 =? 10 ^ (f + 1) then Some (10 ^ f, e0 + 1) else Some (n0, e0)
  end.

Definition to_exponential (x : f64) (f : Z) : list Z :=
  match x with
  | S754_zero _ =>
      if (f <? 0) || (100 <? f) then range_error else exp_layout (zeros (f + 1)) 0
  | S754_finite s m e =>
      if (f <? 0) || (100 <? f) then range_error else
      let (N, D) := ratio_of m e in
      match exp_parts N D f with
      | Some (n, ex) => sign_units s ++ exp_layout (digs (f + 1) n) ex
      | None => model_err
      end
  | _ => to_string x
  end.

Definition prec_layout (ds : list Z) (e p : Z) : list Z :=
  if (e <? -6) || (p <=? e) then exp_layout ds e
  else if e =? p - 1 then ds
  else if 0 <=? e then zfirstn (e + 1) ds ++ 46 :: zskipn (e + 1) ds
  else 48 :: 46 :: zeros (- (e + 1)) ++ ds.

Definition to_precision (x : f64) (p : Z) : list Z :=
  match x with
  | S754_zero _ =>
      if (p <? 1) || (100 <? p) then range_error else prec_layout (zeros p) 0 p
  | S754_finite s m e =>
      if (p <? 1) || (100 <? p) then range_error else
      let (N, D) := ratio_of m e in
      match exp_parts N D (p - 1) with
      | Some (n, ex) => sign_units s ++ prec_layout (digs p n) ex p
      | None => model_err
      end
  | _ => to_string x
  end.

(* ------------------------------------------------------------------------------------------ *)
(* 6. radix strings                                                                           *)

Definition digit_val (c : Z) : Z :=
  if (48 <=? c) && (c <=? 57) then c - 48
  else if (97 <=? c) && (c <=? 122) then c - 87
  else if (65 <=? c) && (c <=? 90) then c - 55
  else 99.

(* longest run of radix-r digits: (accumulated value, number of digits, rest) *)
Fixpoint span_digits (r : Z) (l : list Z) (acc cnt : Z) : Z * Z * list Z :=
  match l with
  | c :: t => let v := digit_val c in
              if v <? r then span_digits r t (acc * r + v) (cnt + 1) else (acc, cnt, l)
  | [] => (acc, cnt, l)
  end.

(* exact value of  [-]ddd[.ddd]  in radix r as (sign, numerator, denominator) *)
Definition radix_value (s : list Z) (r : Z) : option (bool * Z * Z) :=
  let (neg, t) := match s with 45 :: t => (true, t) | _ => (false, s) end in
  let '(ip, ic, r1) := span_digits r t 0 0 in
  if ic =? 0 then None else
  match r1 with
  | [] => Some (neg, ip, 1)
  | 46 :: t2 =>
      let '(v, fc, r2) := span_digits r t2 ip 0 in
      match r2 with
      | [] => if fc =? 0 then None else Some (neg, v, r ^ fc)
      | _ => None
      end
  | _ => None
  end.

(* verified validator for toString(radix): the string, read exactly, rounds to x *)
Definition radix_roundtrip_check (s : list Z) (r : Z) (x : f64) : bool :=
  match radix_value s r with
  | Some (neg, N, D) => f64_eqb (round_ratio neg N D) x
  | None => false
  end.

(* cosmetic requirements on toString(radix): lower case, no superfluous zeros *)
Definition radix_wellformed (s : list Z) : bool :=
  forallb (fun c => negb ((65 <=? c) && (c <=? 90))) s &&
  (let t := match s with 45 :: t => t | _ => s end in
   match t with
   | 48 :: c :: _ => c =? 46
   | _ => true
   end) &&
  (if existsb (Z.eqb 46) s then negb (last s 0 =? 48) else true).

Definition radix_ok (x : f64) (r : Z) (out : list Z) : bool :=
  if (r <? 2) || (36 <? r) then list_eqb out range_error
  else if r =? 10 then list_eqb out (to_string x)
  else match x with
       | S754_finite _ _ _ => radix_roundtrip_check out r x && radix_wellformed out
       | _ => list_eqb out (to_string x)
       end.

(* ------------------------------------------------------------------------------------------ *)
(* 7. front ends over UTF-16 code units                                                       *)

(* WhiteSpace + LineTerminator of ECMAScript (StrWhiteSpaceChar) *)
Definition is_ws (c : Z) : bool :=
  (c =? 9) || (c =? 10) || (c =? 11) || (c =? 12) || (c =? 13) || (c =? 32) || (c =? 160) ||
  (c =? 5760) || ((8192 <=? c) && (c <=? 8202)) || (c =? 8232) || (c =? 8233) || (c =? 8239) ||
  (c =? 8287) || (c =? 12288) || (c =? 65279).

Fixpoint trim_left (l : list Z) : list Z :=
  match l with c :: t => if is_ws c then trim_left t else l | [] => [] end.
Definition trim (l : list Z) : list Z := rev (trim_left (rev (trim_left l))).

Definition nan_bits : Z := 9221120237041090560.
Definition out_bits (x : f64) : Z := to_bits x.

Definition s_infinity : list Z := str "Infinity".

Fixpoint is_prefix (p l : list Z) : bool :=
  match p, l with
  | [], _ => true
  | a :: p', b :: l' => (a =? b) && is_prefix p' l'
  | _, [] => false
  end.

Definition split_sign (l : list Z) : bool * list Z :=
  match l with 45 :: t => (true, t) | 43 :: t => (false, t) | _ => (false, l) end.

(* longest prefix that is a StrUnsignedDecimalLiteral other than Infinity:
   (mantissa as an integer, decimal exponent, rest) *)
Definition scan_exponent (l : list Z) : Z * list Z :=      (* l starts after the mantissa *)
  match l with
  | c :: t =>
      if (c =? 101) || (c =? 69) then
        let (neg, t') := match t with 45 :: u => (true, u) | 43 :: u => (false, u) | _ => (false, t) end in
        let '(v, cnt, rest) := span_digits 10 t' 0 0 in
        if cnt =? 0 then (0, l) else ((if neg then - v else v), rest)
      else (0, l)
  | [] => (0, l)
  end.

Definition scan_decimal (l : list Z) : option (Z * Z * list Z) :=
  let '(ip, ic, r1) := span_digits 10 l 0 0 in
  let '(m, fc, r2) :=
    match r1 with
    | 46 :: t => let '(v, fc, r2) := span_digits 10 t ip 0 in
                 if (ic =? 0) && (fc =? 0) then (ip, 0, r1) else (v, fc, r2)
    | _ => (ip, 0, r1)
    end in
  if (ic =? 0) && (fc =? 0) then None else
  let (ex, r3) := scan_exponent r2 in
  Some (m, ex - fc, r3).

Definition nondecimal (l : list Z) : option f64 :=
  match l with
  | 48 :: p :: t =>
      let r := if (p =? 120) || (p =? 88) then 16 else if (p =? 111) || (p =? 79) then 8
               else if (p =? 98) || (p =? 66) then 2 else 0 in
      if r =? 0 then None else
      match span_digits r t 0 0 with
      | (v, cnt, []) => if cnt =? 0 then None else Some (round_ratio false v 1)
      | _ => None
      end
  | _ => None
  end.

(* StringToNumber (7.1.4.1.1); None = NaN *)
Definition string_to_number (s : list Z) : f64 :=
  let t := trim s in
  match t with
  | [] => S754_zero false
  | _ =>
    match nondecimal t with
    | Some v => v
    | None =>
      let (neg, u) := split_sign t in
      if list_eqb u s_infinity then S754_infinity neg else
      match scan_decimal u with
      | Some (m, e10, []) => parse_decimal_s neg m e10
      | _ => S754_nan
      end
    end
  end.

(* parseFloat (19.2.4) *)
Definition parse_float (s : list Z) : f64 :=
  let t := trim_left s in
  let (neg, u) := split_sign t in
  if is_prefix s_infinity u then S754_infinity neg else
  match scan_decimal u with
  | Some (m, e10, _) => parse_decimal_s neg m e10
  | None => S754_nan
  end.

Definition to_int32 (z : Z) : Z :=
  let m := z mod 2 ^ 32 in if 2 ^ 31 <=? m then m - 2 ^ 32 else m.

(* parseInt (19.2.5): exact integer of the digit string, then ONE rounding *)
Definition parse_int (s : list Z) (radix : Z) : f64 :=
  let t := trim_left s in
  let (neg, u) := split_sign t in
  let R := to_int32 radix in
  if negb (R =? 0) && ((R <? 2) || (36 <? R)) then S754_nan else
  let strip := (R =? 0) || (R =? 16) in
  let R1 := if R =? 0 then 10 else R in
  let (R2, v) :=
    match u with
    | 48 :: p :: w => if strip && ((p =? 120) || (p =? 88)) then (16, w) else (R1, u)
    | _ => (R1, u)
    end in
  let '(n, cnt, _) := span_digits R2 v 0 0 in
  if cnt =? 0 then S754_nan else round_ratio neg n 1.

(* ---- numeric literals (12.9.3), non-BigInt; None = SyntaxError ---- *)

(* digits of radix r with single separators between digits; consumes as much as possible.
   Returns None on a misplaced separator. (value, count, rest) *)
Fixpoint sep_digits (r : Z) (l : list Z) (acc cnt : Z) (after_sep : bool) : option (Z * Z * list Z) :=
  match l with
  | c :: t =>
      if c =? 95 then
        if (cnt =? 0) || after_sep then None else sep_digits r t acc cnt true
      else
        let v := digit_val c in
        if v <? r then sep_digits r t (acc * r + v) (cnt + 1) false
        else if after_sep then None else Some (acc, cnt, l)
  | [] => if after_sep then None else Some (acc, cnt, l)
  end.

Definition lit_exponent (l : list Z) : option (Z * list Z) :=
  match l with
  | c :: t =>
      if (c =? 101) || (c =? 69) then
        let (neg, t') := match t with 45 :: u => (true, u) | 43 :: u => (false, u) | _ => (false, t) end in
        match sep_digits 10 t' 0 0 false with
        | Some (v, cnt, rest) => if cnt =? 0 then None else Some ((if neg then - v else v), rest)
        | None => None
        end
      else Some (0, l)
  | [] => Some (0, l)
  end.

(* after the integer part ip: optional fraction, optional exponent, then end of input *)
Definition lit_tail (ip : Z) (l : list Z) (need_frac_digits : bool) : option f64 :=
  let frac :=
    match l with
    | 46 :: t =>
        match t with
        | 95 :: _ => None
        | _ => match sep_digits 10 t ip 0 false with
               | Some (v, fc, rest) => if need_frac_digits && (fc =? 0) then None else Some (v, fc, rest)
               | None => None
               end
        end
    | _ => if need_frac_digits then None else Some (ip, 0, l)
    end in
  match frac with
  | None => None
  | Some (m, fc, rest) =>
      match lit_exponent rest with
      | Some (ex, []) => Some (parse_decimal_s false m (ex - fc))
      | _ => None
      end
  end.

Definition all_digits (r : Z) (l : list Z) : bool := forallb (fun c => digit_val c <? r) l.

Definition numeric_literal (s : list Z) : option f64 :=
  match s with
  | [] => None
  | 46 :: _ => lit_tail 0 s true
  | 48 :: [] => Some (S754_zero false)
  | 48 :: p :: t =>
      let r := if (p =? 120) || (p =? 88) then 16 else if (p =? 111) || (p =? 79) then 8
               else if (p =? 98) || (p =? 66) then 2 else 0 in
      if negb (r =? 0) then
        match sep_digits r t 0 0 false with
        | Some (v, cnt, []) => if cnt =? 0 then None else Some (round_ratio false v 1)
        | _ => None
        end
      else if digit_val p <? 10 then
        (* legacy octal  0[0-7]+  or NonOctalDecimalIntegerLiteral  0[0-9]*[89][0-9]*  *)
        let '(_, _, rest) := span_digits 10 (p :: t) 0 0 in
        let n := (zlen (p :: t) - zlen rest) in
        let ds := zfirstn n (p :: t) in
        if all_digits 8 ds then
          match rest with
          | [] => let '(v, _, _) := span_digits 8 ds 0 0 in Some (round_ratio false v 1)
          | _ => None
          end
        else let '(v, _, _) := span_digits 10 ds 0 0 in lit_tail v rest false
      else lit_tail 0 (p :: t) false
  | c :: _ =>
      if digit_val c <? 10 then
        match sep_digits 10 s 0 0 false with
        | Some (v, _, rest) => lit_tail v rest false
        | None => None
        end
      else None
  end.
