(* C12 — rounding: determinacy, monotonicity, exactness on doubles, convexity, overflow threshold. *)
From Coq Require Import ZArith Bool List SpecFloat Lia Psatz.
From Verif.Base Require Import F64.
From Verif.C12 Require Import Model Proofs.
Local Open Scope Z_scope.

(* ==== M1.v ==== *)
(* ---------- pure arithmetic helpers (clean contexts) ---------- *)
Lemma pow2_pos : forall k, 0 <= k -> 0 < 2 ^ k.
Proof. intros. apply Z.pow_pos_nonneg; lia. Qed.

Lemma pow2_split : forall a b, 0 <= a <= b -> 2 ^ b = 2 ^ a * 2 ^ (b - a).
Proof. intros. rewrite <- Z.pow_add_r by lia. f_equal. lia. Qed.

Lemma pow2_ge2 : forall d, 1 <= d -> 2 <= 2 ^ d.
Proof. intros. change 2 with (2 ^ 1) at 1. apply Z.pow_le_mono_r; lia. Qed.

(* binade uniqueness *)
Lemma binade_k : forall Nn1 D1 Nn2 D2 q1 q2 P T c,
  0 < D1 -> 0 < D2 -> 0 < P -> 2 <= T -> 0 < c ->
  Nn1 * D2 = Nn2 * D1 ->
  Nn1 < (q1 + 1) * (D1 * P) -> q1 < 2 * c ->
  q2 * (D2 * (P * T)) <= Nn2 -> c <= q2 -> False.
Proof.
  intros Nn1 D1 Nn2 D2 q1 q2 P T c HD1 HD2 HP HT Hc E H1 Hq1 H2 Hq2.
  assert (A1 : Nn1 * D2 < (2 * c) * (D1 * P) * D2).
  { apply Z.lt_le_trans with ((q1 + 1) * (D1 * P) * D2); [nia|].
    apply Z.mul_le_mono_nonneg_r; [lia|]. apply Z.mul_le_mono_nonneg_r; nia. }
  assert (A2 : c * (D2 * (P * T)) * D1 <= Nn2 * D1).
  { apply Z.mul_le_mono_nonneg_r; [lia|]. apply Z.le_trans with (q2 * (D2 * (P * T))); [|assumption].
    apply Z.mul_le_mono_nonneg_r; nia. }
  assert (A3 : (2 * c) * (D1 * P) * D2 <= c * (D2 * (P * T)) * D1).
  { replace (2 * c * (D1 * P) * D2) with ((c * D1 * D2 * P) * 2) by ring.
    replace (c * (D2 * (P * T)) * D1) with ((c * D1 * D2 * P) * T) by ring.
    apply Z.mul_le_mono_nonneg_l; [|lia]. repeat apply Z.mul_nonneg_nonneg; lia. }
  lia.
Qed.

Lemma floor_unique : forall Nn1 D1 Nn2 D2 q1 q2 P,
  0 < D1 -> 0 < D2 -> 0 < P -> Nn1 * D2 = Nn2 * D1 ->
  q1 * (D1 * P) <= Nn1 < (q1 + 1) * (D1 * P) ->
  q2 * (D2 * P) <= Nn2 < (q2 + 1) * (D2 * P) -> q1 = q2.
Proof.
  intros Nn1 D1 Nn2 D2 q1 q2 P HD1 HD2 HP E [L1 U1] [L2 U2].
  assert (HX : 0 < D1 * D2 * P) by (repeat apply Z.mul_pos_pos; lia).
  assert (B1 : q1 * (D1 * D2 * P) <= Nn1 * D2) by (replace (q1 * (D1 * D2 * P)) with (q1 * (D1 * P) * D2) by ring; nia).
  assert (B2 : Nn1 * D2 < (q1 + 1) * (D1 * D2 * P)) by (replace ((q1 + 1) * (D1 * D2 * P)) with ((q1 + 1) * (D1 * P) * D2) by ring; nia).
  assert (B3 : q2 * (D1 * D2 * P) <= Nn2 * D1) by (replace (q2 * (D1 * D2 * P)) with (q2 * (D2 * P) * D1) by ring; nia).
  assert (B4 : Nn2 * D1 < (q2 + 1) * (D1 * D2 * P)) by (replace ((q2 + 1) * (D1 * D2 * P)) with ((q2 + 1) * (D2 * P) * D1) by ring; nia).
  rewrite E in *. generalize dependent (D1 * D2 * P). intros X HX B1 B2 B3 B4. nia.
Qed.

(* the comparison of the remainder with half a unit depends on the value only *)
Lemma half_cmp : forall Nn1 D1 Nn2 D2 q P,
  0 < D1 -> 0 < D2 -> Nn1 * D2 = Nn2 * D1 ->
  (2 * (Nn1 - q * (D1 * P)) < D1 * P <-> 2 * (Nn2 - q * (D2 * P)) < D2 * P) /\
  (D1 * P < 2 * (Nn1 - q * (D1 * P)) <-> D2 * P < 2 * (Nn2 - q * (D2 * P))).
Proof.
  intros Nn1 D1 Nn2 D2 q P HD1 HD2 E.
  assert (K : (2 * (Nn1 - q * (D1 * P)) - D1 * P) * D2 = (2 * (Nn2 - q * (D2 * P)) - D2 * P) * D1).
  { transitivity (2 * (Nn1 * D2) - (2 * q + 1) * P * D1 * D2); [ring|]. rewrite E. ring. }
  generalize dependent (2 * (Nn1 - q * (D1 * P)) - D1 * P). intros a.
  intros K. 
  assert (Ha : 2 * (Nn1 - q * (D1 * P)) < D1 * P <-> 2 * (Nn1 - q * (D1 * P)) - D1 * P < 0) by lia.
  split; split; intro H; nia.
Qed.

(* ==== M2.v ==== *)
Lemma rp_k_le : forall N1 D1 N2 D2 q1' k1 q1 q2' k2 q2,
  0 < D1 -> 0 < D2 -> N1 * D2 = N2 * D1 ->
  rp_facts N1 D1 q1' k1 q1 -> rp_facts N2 D2 q2' k2 q2 -> k2 <= k1.
Proof.
  intros N1 D1 N2 D2 q1' k1 q1 q2' k2 q2 HD1 HD2 E F1 F2.
  unfold rp_facts in *. cbn zeta in *.
  destruct F1 as (Hk1 & HU1 & Hfl1 & Hq1 & Hq521 & _).
  destruct F2 as (Hk2 & HU2 & Hfl2 & Hq2 & Hq522 & _).
  destruct (Z_le_gt_dec k2 k1) as [L|L]; [assumption|exfalso].
  specialize (Hq522 ltac:(lia)).
  rewrite (pow2_split k1 k2) in Hfl2 by lia.
  pose proof (pow2_pos k1 Hk1) as HP. pose proof (pow2_ge2 (k2 - k1) ltac:(lia)) as HT.
  assert (EN : N1 * 2 ^ 1074 * D2 = N2 * 2 ^ 1074 * D1).
  { transitivity (N1 * D2 * 2 ^ 1074); [ring|]. rewrite E. ring. }
  generalize dependent (2 ^ 1074). intros C. intros.
  eapply (binade_k (N1 * C) D1 (N2 * C) D2 q1 q2 (2 ^ k1) (2 ^ (k2 - k1)) (2 ^ 52)); try eassumption; try lia.
Qed.

Lemma round_pos_det : forall N1 D1 N2 D2, 0 < N1 -> 0 < D1 -> 0 < N2 -> 0 < D2 ->
  N1 * D2 = N2 * D1 -> round_pos N1 D1 = round_pos N2 D2.
Proof.
  intros N1 D1 N2 D2 HN1 HD1 HN2 HD2 E.
  destruct (round_pos_facts N1 D1 HN1 HD1) as [q1 F1].
  destruct (round_pos_facts N2 D2 HN2 HD2) as [q2 F2].
  destruct (round_pos N1 D1) as [q1' k1]. destruct (round_pos N2 D2) as [q2' k2]. cbn [fst snd] in *.
  assert (Ek : k1 = k2).
  { pose proof (rp_k_le _ _ _ _ _ _ _ _ _ _ HD1 HD2 E F1 F2).
    pose proof (rp_k_le _ _ _ _ _ _ _ _ _ _ HD2 HD1 (eq_sym E) F2 F1). lia. }
  subst k2. f_equal.
  unfold rp_facts in *. cbn zeta in *.
  destruct F1 as (Hk1 & HU1 & Hfl1 & Hq1 & _ & Hq1' & Hlo1 & Hhi1 & Htie1).
  destruct F2 as (_ & HU2 & Hfl2 & Hq2 & _ & Hq2' & Hlo2 & Hhi2 & Htie2).
  pose proof (pow2_pos k1 Hk1) as HP.
  assert (EN : N1 * 2 ^ 1074 * D2 = N2 * 2 ^ 1074 * D1).
  { transitivity (N1 * D2 * 2 ^ 1074); [ring|]. rewrite E. ring. }
  generalize dependent (2 ^ 1074). intros C. intros.
  generalize dependent (2 ^ k1). intros P. intros.
  assert (Eq : q1 = q2) by (eapply (floor_unique (N1 * C) D1 (N2 * C) D2 q1 q2 P); eassumption).
  subst q2.
  destruct (half_cmp (N1 * C) D1 (N2 * C) D2 q1 P HD1 HD2 EN) as [Clt Cgt].
  destruct (Z.lt_trichotomy (2 * (N1 * C - q1 * (D1 * P))) (D1 * P)) as [L | [L | L]].
  - rewrite (Hlo1 L). rewrite (Hlo2 (proj1 Clt L)). reflexivity.
  - assert (L2 : 2 * (N2 * C - q1 * (D2 * P)) = D2 * P).
    { destruct (Z.lt_trichotomy (2 * (N2 * C - q1 * (D2 * P))) (D2 * P)) as [M | [M | M]]; [|assumption|].
      - apply Clt in M. lia. - apply Cgt in M. lia. }
    specialize (Htie1 L). specialize (Htie2 L2).
    destruct Hq1' as [-> | ->]; destruct Hq2' as [-> | ->]; try reflexivity; exfalso.
    + rewrite Z.add_1_r, Z.even_succ, <- Z.negb_even, Htie1 in Htie2. discriminate.
    + rewrite Z.add_1_r, Z.even_succ, <- Z.negb_even, Htie2 in Htie1. discriminate.
  - rewrite (Hhi1 L). rewrite (Hhi2 (proj1 Cgt L)). reflexivity.
Qed.

(* ==== M3.v ==== *)
Definition rval (qk : Z * Z) : Z := fst qk * 2 ^ snd qk.
Definition wfR (qk : Z * Z) : Prop :=
  0 <= snd qk /\ 0 <= fst qk <= 2 ^ 53 /\ (0 < snd qk -> 2 ^ 52 <= fst qk).

Lemma round_pos_wf : forall N D, 0 < N -> 0 < D -> wfR (round_pos N D).
Proof. intros. apply round_pos_wellformed; assumption. Qed.

(* every result is a double of the unbounded-exponent grid *)
Lemma wf_in_grid : forall qk, wfR qk -> exists m' k', 0 <= m' < 2 ^ 53 /\ 0 <= k' /\ m' * 2 ^ k' = rval qk.
Proof.
  intros [q k] (Hk & Hq & _). unfold rval. cbn [fst snd] in *.
  destruct (Z.eq_dec q (2 ^ 53)) as [-> | Hne].
  - exists (2 ^ 52), (k + 1). split; [split; [|reflexivity]; apply Z.lt_le_incl; reflexivity|]. split; [lia|].
    rewrite Z.pow_add_r by lia. change (2 ^ 53) with (2 ^ 52 * 2 ^ 1). ring.
  - exists q, k. repeat split; lia.
Qed.

Lemma mono_arith : forall Nn1 D1 Nn2 D2 R1 R2, 0 < D1 -> 0 < D2 ->
  Z.abs (Nn1 - R1 * D1) <= Z.abs (Nn1 - R2 * D1) ->
  Z.abs (Nn2 - R2 * D2) <= Z.abs (Nn2 - R1 * D2) ->
  Nn1 * D2 < Nn2 * D1 -> R1 <= R2.
Proof.
  intros Nn1 D1 Nn2 D2 R1 R2 HD1 HD2 H1 H2 Hlt.
  destruct (Z_le_gt_dec R1 R2) as [L|L]; [assumption|exfalso].
  assert (A1 : R2 * D1 < R1 * D1) by nia. assert (A2 : R2 * D2 < R1 * D2) by nia.
  assert (B1 : (R1 + R2) * D1 <= 2 * Nn1) by lia.
  assert (B2 : 2 * Nn2 <= (R1 + R2) * D2) by lia.
  assert (C1 : (R1 + R2) * D1 * D2 <= 2 * Nn1 * D2) by (apply Z.mul_le_mono_nonneg_r; lia).
  assert (C2 : 2 * Nn2 * D1 <= (R1 + R2) * D2 * D1) by (apply Z.mul_le_mono_nonneg_r; lia).
  replace ((R1 + R2) * D2 * D1) with ((R1 + R2) * D1 * D2) in C2 by ring. lia.
Qed.

Lemma nearest_rval : forall N D m' k', 0 < N -> 0 < D -> 0 <= m' < 2 ^ 53 -> 0 <= k' ->
  Z.abs (N * 2 ^ 1074 - rval (round_pos N D) * D) <= Z.abs (N * 2 ^ 1074 - (m' * 2 ^ k') * D).
Proof.
  intros N D m' k' HN HD Hm Hk.
  destruct (round_pos_nearest N D m' k' HN HD Hm Hk) as [H _]. cbn zeta in H.
  unfold rval. replace (fst (round_pos N D) * 2 ^ snd (round_pos N D) * D)
    with (fst (round_pos N D) * (D * 2 ^ snd (round_pos N D))) by ring. exact H.
Qed.

Theorem round_pos_monotone : forall N1 D1 N2 D2, 0 < N1 -> 0 < D1 -> 0 < N2 -> 0 < D2 ->
  N1 * D2 <= N2 * D1 -> rval (round_pos N1 D1) <= rval (round_pos N2 D2).
Proof.
  intros N1 D1 N2 D2 HN1 HD1 HN2 HD2 Hle.
  destruct (Z.eq_dec (N1 * D2) (N2 * D1)) as [E | Hne].
  - rewrite (round_pos_det N1 D1 N2 D2) by assumption. lia.
  - destruct (wf_in_grid _ (round_pos_wf N1 D1 HN1 HD1)) as (m1 & k1 & Hm1 & Hk1 & E1).
    destruct (wf_in_grid _ (round_pos_wf N2 D2 HN2 HD2)) as (m2 & k2 & Hm2 & Hk2 & E2).
    pose proof (nearest_rval N1 D1 m2 k2 HN1 HD1 Hm2 Hk2) as A. rewrite E2 in A.
    pose proof (nearest_rval N2 D2 m1 k1 HN2 HD2 Hm1 Hk1) as B. rewrite E1 in B.
    apply (mono_arith (N1 * 2 ^ 1074) D1 (N2 * 2 ^ 1074) D2); try assumption.
    assert (0 < 2 ^ 1074) by (apply pow2_pos; lia).
    generalize dependent (2 ^ 1074). intros C. intros. nia.
Qed.

(* rounding a value of the grid returns it *)
Lemma round_pos_exact : forall N D m k, 0 < N -> 0 < D -> 0 <= m < 2 ^ 53 -> 0 <= k ->
  N * 2 ^ 1074 = (m * 2 ^ k) * D -> rval (round_pos N D) = m * 2 ^ k.
Proof.
  intros N D m k HN HD Hm Hk E.
  pose proof (nearest_rval N D m k HN HD Hm Hk) as A. rewrite E in A.
  replace (m * 2 ^ k * D - m * 2 ^ k * D) with 0 in A by ring. 
  assert (m * 2 ^ k * D = rval (round_pos N D) * D) by lia.
  apply Z.mul_cancel_r in H; lia.
Qed.

(* pack depends on the value only *)
Lemma pack_det : forall s a b, wfR a -> wfR b -> rval a = rval b -> pack s a = pack s b.
Proof.
  assert (K : forall s q1 k1 q2 k2, wfR (q1, k1) -> wfR (q2, k2) -> rval (q1, k1) = rval (q2, k2) ->
              k1 <= k2 -> pack s (q1, k1) = pack s (q2, k2)).
  { intros s q1 k1 q2 k2 (Hk1 & Hq1 & Hn1) (Hk2 & Hq2 & Hn2) E L. unfold rval in E. cbn [fst snd] in *.
    destruct (Z.eq_dec k1 k2) as [-> | Hne].
    - pose proof (pow2_pos k2 Hk2). apply Z.mul_cancel_r in E; [subst; reflexivity | lia].
    - specialize (Hn2 ltac:(lia)).
      rewrite (pow2_split k1 k2) in E by lia.
      pose proof (pow2_pos k1 Hk1) as HP.
      assert (E' : q1 = q2 * 2 ^ (k2 - k1)).
      { apply (Z.mul_cancel_r _ _ (2 ^ k1)); [lia|]. rewrite E. ring. }
      assert (HT : 2 <= 2 ^ (k2 - k1)) by (apply pow2_ge2; lia).
      assert (C : 2 ^ 53 = 2 * 2 ^ 52) by reflexivity.
      assert (T2 : 2 ^ (k2 - k1) = 2) by nia.
      assert (Q2 : q2 = 2 ^ 52) by nia.
      assert (Q1 : q1 = 2 ^ 53) by nia.
      assert (K2 : k2 = k1 + 1).
      { destruct (Z.eq_dec (k2 - k1) 1); [lia|].
        pose proof (pow2_split 1 (k2 - k1) ltac:(lia)) as S. change (2 ^ 1) with 2 in S.
        pose proof (pow2_ge2 (k2 - k1 - 1) ltac:(lia)). nia. }
      clear E E' Hn1 Hq1 Hq2 Hn2 T2 HT. subst q1 q2 k2. unfold pack.
      change (2 ^ 53 =? 0) with false. change (2 ^ 52 =? 0) with false.
      change (2 ^ 53 =? 2 ^ 53) with true. change (2 ^ 52 =? 2 ^ 53) with false. reflexivity. }
  intros s [q1 k1] [q2 k2] Wa Wb E.
  destruct (Z_le_gt_dec k1 k2); [apply K; assumption|].
  symmetry. apply K; try assumption; [symmetry; assumption | lia].
Qed.

(* ==== M4.v ==== *)
(* a canonical binary64 significand/exponent pair (what of_bits and pack produce) *)
Definition canon64 (m : positive) (e : Z) : Prop :=
  Z.pos m < 2 ^ 53 /\ -1074 <= e <= 971 /\ (2 ^ 52 <= Z.pos m \/ e = -1074).

Lemma ratio_of_pos : forall m e, 0 < fst (ratio_of m e) /\ 0 < snd (ratio_of m e).
Proof.
  intros m e. unfold ratio_of. destruct (0 <=? e) eqn:E; cbn [fst snd].
  - apply Z.leb_le in E. split; [|lia]. apply Z.mul_pos_pos; [lia | apply pow2_pos; lia].
  - apply Z.leb_gt in E. split; [lia | apply pow2_pos; lia].
Qed.

Lemma ratio_of_value : forall m e, -1074 <= e ->
  fst (ratio_of m e) * 2 ^ 1074 = (Z.pos m * 2 ^ (e + 1074)) * snd (ratio_of m e).
Proof.
  intros m e He. unfold ratio_of. destruct (0 <=? e) eqn:E; cbn [fst snd].
  - apply Z.leb_le in E. rewrite Z.pow_add_r by lia. ring.
  - apply Z.leb_gt in E. replace 1074 with ((e + 1074) + (- e)) at 1 by lia.
    rewrite Z.pow_add_r by lia. ring.
Qed.

Lemma pack_canon : forall s m e, canon64 m e -> pack s (Z.pos m, e + 1074) = S754_finite s m e.
Proof.
  intros s m e (Hm & He & _). unfold pack.
  change (Z.pos m =? 0) with false.
  destruct (Z.pos m =? 2 ^ 53) eqn:E; [apply Z.eqb_eq in E; lia|].
  destruct (2045 <? e + 1074) eqn:E2; [apply Z.ltb_lt in E2; lia|].
  cbn [Z.to_pos]. f_equal. lia.
Qed.

Theorem round_ratio_exact : forall s m e, canon64 m e ->
  round_ratio s (fst (ratio_of m e)) (snd (ratio_of m e)) = S754_finite s m e.
Proof.
  intros s m e Hc. pose proof Hc as (Hm & He & Hn).
  destruct (ratio_of_pos m e) as [HN HD].
  unfold round_ratio. rewrite <- (pack_canon s m e Hc).
  apply pack_det.
  - apply round_pos_wf; assumption.
  - unfold wfR. cbn [fst snd]. split; [lia|]. split; [lia|]. intros. destruct Hn; lia.
  - unfold rval at 2. cbn [fst snd].
    apply round_pos_exact; try assumption; try lia. apply ratio_of_value. lia.
Qed.

(* the value carried by a finite result *)
Lemma round_ratio_finite_value : forall s N D sx mx ex, 0 < N -> 0 < D ->
  round_ratio s N D = S754_finite sx mx ex -> rval (round_pos N D) = Z.pos mx * 2 ^ (ex + 1074).
Proof.
  intros s N D sx mx ex HN HD H. unfold round_ratio in H.
  pose proof (round_pos_wf N D HN HD) as (Hk & Hq & _).
  destruct (round_pos N D) as [q k]. cbn [fst snd] in *.
  pose proof (pack_spec s q k Hk Hq) as P. rewrite H in P.
  destruct P as (_ & _ & _ & E & _). unfold rval. cbn [fst snd]. lia.
Qed.

(* rounding is monotone, hence the set of rationals rounding to a finite x is convex *)
Theorem round_ratio_squeeze : forall s N1 D1 N2 D2 N3 D3 sx mx ex,
  0 < N1 -> 0 < D1 -> 0 < N2 -> 0 < D2 -> 0 < N3 -> 0 < D3 ->
  N1 * D2 <= N2 * D1 -> N2 * D3 <= N3 * D2 ->
  round_ratio s N1 D1 = S754_finite sx mx ex -> round_ratio s N3 D3 = S754_finite sx mx ex ->
  round_ratio s N2 D2 = S754_finite sx mx ex.
Proof.
  intros s N1 D1 N2 D2 N3 D3 sx mx ex HN1 HD1 HN2 HD2 HN3 HD3 L12 L23 R1 R3.
  pose proof (round_ratio_finite_value _ _ _ _ _ _ HN1 HD1 R1) as V1.
  pose proof (round_ratio_finite_value _ _ _ _ _ _ HN3 HD3 R3) as V3.
  pose proof (round_pos_monotone _ _ _ _ HN1 HD1 HN2 HD2 L12) as M12.
  pose proof (round_pos_monotone _ _ _ _ HN2 HD2 HN3 HD3 L23) as M23.
  rewrite <- R1. unfold round_ratio. apply pack_det; try (apply round_pos_wf; assumption). lia.
Qed.

(* ==== M8.v ==== *)
(* ---- overflow: the result is infinite exactly from the midpoint 2^1024 - 2^970 upwards ---- *)
Lemma pack_inf_iff : forall s qk, wfR qk ->
  (pack s qk = S754_infinity s <-> 2 ^ 53 * 2 ^ 2045 <= rval qk).
Proof.
  intros s [q k] (Hk & Hq & Hn). unfold rval. cbn [fst snd] in *.
  pose proof (pack_spec s q k Hk Hq) as P.
  pose proof (pow2_pos k Hk) as HPk.
  split.
  - intros E. rewrite E in P. destruct P as (_ & _ & [L | [-> L]]).
    + specialize (Hn ltac:(lia)).
      rewrite (pow2_split 2046 k) by lia.
      assert (E46 : 2 ^ 2046 = 2 * 2 ^ 2045) by (change 2046 with (Z.succ 2045); apply Z.pow_succ_r; lia).
      pose proof (pow2_pos (k - 2046) ltac:(lia)) as HT.
      pose proof (pow2_pos 2045 ltac:(lia)) as HK. rewrite E46.
      assert (C : 2 ^ 53 = 2 * 2 ^ 52) by reflexivity. rewrite C in *.
      generalize dependent (2 ^ (k - 2046)). intros T. generalize dependent (2 ^ 2045). intros K.
      generalize dependent (2 ^ 52). intros c. intros.
      assert (c * (2 * K) <= q * (2 * K)) by (apply Z.mul_le_mono_nonneg_r; lia).
      assert (q * (2 * K) * 1 <= q * (2 * K) * T) by (apply Z.mul_le_mono_nonneg_l; nia).
      nia.
    + apply Z.mul_le_mono_nonneg_l; [apply Z.lt_le_incl; reflexivity|].
      apply Z.pow_le_mono_r; lia.
  - intros L. destruct (pack s (q, k)) as [s' | s' | | s' m e] eqn:E.
    + destruct P as [_ ->]. exfalso. assert (0 < 2 ^ 53 * 2 ^ 2045) by (apply Z.mul_pos_pos; apply pow2_pos; lia). lia.
    + destruct P as [-> _]. reflexivity.
    + contradiction.
    + exfalso. destruct P as (_ & _ & He & EV & _ & Hm).
      rewrite <- EV in L.
      assert (2 ^ (e + 1074) <= 2 ^ 2045) by (apply Z.pow_le_mono_r; lia).
      pose proof (pow2_pos (e + 1074) ltac:(lia)).
      generalize dependent (2 ^ (e + 1074)). intros A. generalize dependent (2 ^ 2045). intros K.
      generalize dependent (2 ^ 53). intros c. intros. nia.
Qed.

Lemma overflow_arith : forall NC D R K c, 0 < D -> 0 < K -> 0 < c ->
  (* nearest w.r.t. the largest finite double (2c-1)*K *)
  Z.abs (NC - R * D) <= Z.abs (NC - ((2 * c - 1) * K) * D) ->
  2 * c * K <= R -> (4 * c - 1) * K * D <= 2 * NC.
Proof.
  intros NC D R K c HD HK Hc Hn HR.
  assert (A : 2 * c * K * D <= R * D) by (apply Z.mul_le_mono_nonneg_r; lia).
  replace ((2 * c - 1) * K * D) with (2 * c * K * D - K * D) in Hn by ring.
  replace ((4 * c - 1) * K * D) with (2 * (2 * c * K * D) - K * D) by ring.
  assert (0 < K * D) by (apply Z.mul_pos_pos; lia).
  generalize dependent (2 * c * K * D). intros TD. generalize dependent (R * D). intros RD.
  generalize dependent (K * D). intros KD. intros. lia.
Qed.

Lemma round_pos_threshold : rval (round_pos (2 ^ 1024 - 2 ^ 970) 1) = 2 ^ 53 * 2 ^ 2045.
Proof. vm_compute. reflexivity. Qed.

Theorem round_ratio_overflow_iff : forall s N D, 0 < N -> 0 < D ->
  (round_ratio s N D = S754_infinity s <-> (2 ^ 1024 - 2 ^ 970) * D <= N).
Proof.
  intros s N D HN HD. unfold round_ratio.
  pose proof (round_pos_wf N D HN HD) as W.
  rewrite (pack_inf_iff s _ W).
  assert (Ethr : 2 * ((2 ^ 1024 - 2 ^ 970) * 2 ^ 1074) = (4 * 2 ^ 52 - 1) * 2 ^ 2045) by (vm_compute; reflexivity).
  assert (C53 : 2 ^ 53 = 2 * 2 ^ 52) by reflexivity.
  split.
  - intros L.
    pose proof (nearest_rval N D (2 ^ 53 - 1) 2045 HN HD ltac:(split; [apply Z.lt_le_incl; reflexivity | reflexivity]) ltac:(lia)) as Hn.
    rewrite C53 in *.
    pose proof (overflow_arith (N * 2 ^ 1074) D (rval (round_pos N D)) (2 ^ 2045) (2 ^ 52) HD
                  ltac:(apply pow2_pos; lia) ltac:(reflexivity) Hn L) as A.
    rewrite <- Ethr in A.
    assert (HC : 0 < 2 ^ 1074) by (apply pow2_pos; lia).
    generalize dependent (2 ^ 1074). intros C. intros.
    generalize dependent (2 ^ 1024 - 2 ^ 970). intros thr. intros.
    apply (Z.mul_le_mono_pos_r _ _ C HC).
    replace (thr * D * C) with (thr * C * D) by ring. lia.
  - intros L. rewrite <- round_pos_threshold.
    apply round_pos_monotone; try assumption; try lia.
Qed.

