(* C12 — lemmas about the executable specification of coq/C12/Model.v (integers only, no axioms). *)
From Coq Require Import ZArith Bool List SpecFloat Lia Psatz.
From Verif.Base Require Import F64.
From Verif.C12 Require Import Model.
Local Open Scope Z_scope.

Lemma divmod_spec : forall A B, 0 < B -> divmod A B = (A / B, A mod B).
Proof.
  intros A B HB. unfold divmod.
  destruct (B =? 2 ^ Z.log2 B) eqn:E.
  - apply Z.eqb_eq in E. pose proof (Z.log2_nonneg B) as Ht.
    rewrite Z.shiftr_div_pow2, Z.land_ones by exact Ht.
    rewrite <- E. reflexivity.
  - unfold Z.div, Z.modulo. destruct (Z.div_eucl A B). reflexivity.
Qed.

(* ---- nearest integer, larger on ties ---- *)
Lemma rhu_spec : forall A B, 0 < B ->
  let n := rhu A B in - B < 2 * (n * B - A) <= B.
Proof.
  intros A B HB n. subst n. unfold rhu. rewrite divmod_spec by lia. cbn [fst].
  pose proof (Z.div_mod (2 * A + B) (2 * B) ltac:(lia)) as E.
  pose proof (Z.mod_pos_bound (2 * A + B) (2 * B) ltac:(lia)) as Hr.
  nia.
Qed.

Lemma rhu_nearest : forall A B n', 0 < B ->
  let n := rhu A B in
  Z.abs (n * B - A) <= Z.abs (n' * B - A) /\
  (Z.abs (n * B - A) = Z.abs (n' * B - A) -> n' <= n).
Proof.
  intros A B n' HB n. pose proof (rhu_spec A B HB) as H. fold n in H. cbn zeta in H.
  destruct (Z.lt_trichotomy n' n) as [L | [L | L]].
  - assert (n' * B <= n * B - B) by nia. split; [lia | lia].
  - subst. split; lia.
  - assert (n' * B >= n * B + B) by nia. split; [lia | intros; lia].
Qed.

Lemma nearest_abstract : forall Nn U D q q' G,
  0 < U -> 0 < D ->
  q * U <= Nn < (q + 1) * U ->
  (q' = q \/ q' = q + 1) ->
  (2 * (Nn - q * U) < U -> q' = q) ->
  (U < 2 * (Nn - q * U) -> q' = q + 1) ->
  (2 * (Nn - q * U) = U -> Z.even q' = true) ->
  ((exists t, G * D = t * U) \/ G * D <= q * U) ->
  Z.abs (Nn - q' * U) <= Z.abs (Nn - G * D) /\
  (Z.abs (Nn - q' * U) = Z.abs (Nn - G * D) -> G * D <> q' * U -> Z.even q' = true).
Proof.
  intros Nn U D q q' G HU HD Hq Hq' Hlo Hhi Htie HG.
  assert (E1 : (q + 1) * U = q * U + U) by ring.
  destruct HG as [[t Ht] | HG].
  - rewrite Ht.
    destruct (Z_le_gt_dec t q) as [L | L].
    + assert (t * U <= q * U) by nia.
      assert (t <> q -> t * U <= q * U - U) by nia.
      destruct Hq' as [-> | ->]; rewrite ?E1 in *;
      (split; [lia | intros Heq Hne; destruct (Z.eq_dec t q); [subst t|]; apply Htie; lia]).
    + assert (t * U >= q * U + U) by nia.
      assert (t <> q + 1 -> t * U >= q * U + U + U) by nia.
      destruct Hq' as [-> | ->]; rewrite ?E1 in *;
      (split; [lia | intros Heq Hne; destruct (Z.eq_dec t (q + 1)); [subst t; rewrite ?E1 in *|]; apply Htie; lia]).
  - destruct Hq' as [-> | ->]; rewrite ?E1 in *; (split; [lia | intros; apply Htie; lia]).
Qed.

(* ---- the exponent estimate of round_pos yields a quotient of 53 or 54 bits ---- *)
Lemma q0_bounds : forall N D, 0 < N -> 0 < D ->
  let e0 := Z.log2 N - Z.log2 D - 53 in
  let N' := N * 2 ^ (Z.max 0 (- e0)) in
  let den0 := D * 2 ^ (Z.max 0 e0) in
  0 < den0 /\ 2 ^ 52 <= N' / den0 < 2 ^ 54.
Proof.
  intros N D HN HD e0 N' den0.
  pose proof (Z.log2_spec N HN) as [HN1 HN2]. pose proof (Z.log2_spec D HD) as [HD1 HD2].
  pose proof (Z.log2_nonneg N) as Ha. pose proof (Z.log2_nonneg D) as Hb.
  rewrite Z.pow_succ_r in HN2, HD2 by assumption.
  set (a := Z.log2 N) in *. set (b := Z.log2 D) in *.
  set (P := 2 ^ b) in *. assert (HP : 0 < P) by (apply Z.pow_pos_nonneg; lia).
  assert (C52 : 2 ^ 53 = 2 * 2 ^ 52) by reflexivity.
  assert (C54 : 2 ^ 54 = 4 * 2 ^ 52) by reflexivity.
  assert (H52 : 0 < 2 ^ 52) by reflexivity.
  destruct (Z_le_gt_dec 0 e0) as [He | He].
  - assert (Ea : a = b + e0 + 53) by (unfold e0; lia).
    subst N' den0. rewrite (Z.max_l 0 (- e0)), (Z.max_r 0 e0) by lia.
    rewrite Z.pow_0_r, Z.mul_1_r.
    set (Q := 2 ^ e0). assert (HQ : 0 < Q) by (apply Z.pow_pos_nonneg; lia).
    assert (EA : 2 ^ a = P * Q * 2 ^ 53).
    { rewrite Ea. rewrite !Z.pow_add_r by lia. reflexivity. }
    rewrite EA in *.
    assert (0 < D * Q) by nia.
    split; [assumption|]. split.
    + apply Z.div_le_lower_bound; [assumption|]. nia.
    + apply Z.div_lt_upper_bound; [assumption|]. nia.
  - assert (Ea : a + (- e0) = b + 53) by (unfold e0; lia).
    subst N' den0. rewrite (Z.max_r 0 (- e0)), (Z.max_l 0 e0) by lia.
    rewrite Z.pow_0_r, Z.mul_1_r.
    set (T := 2 ^ (- e0)). assert (HT : 0 < T) by (apply Z.pow_pos_nonneg; lia).
    assert (EA : 2 ^ a * T = P * 2 ^ 53).
    { unfold T, P. rewrite <- !Z.pow_add_r by lia. f_equal. lia. }
    split; [assumption|]. split.
    + apply Z.div_le_lower_bound; [assumption|]. nia.
    + apply Z.div_lt_upper_bound; [assumption|]. nia.
Qed.


(* ---- decimal digit lists ---- *)
Lemma digs_acc_length : forall n d acc, length (digs_acc n d acc) = (n + length acc)%nat.
Proof.
  induction n as [|n IH]; intros d acc; cbn [digs_acc]; [reflexivity|].
  rewrite IH. cbn [length]. lia.
Qed.

Lemma digs_length : forall n d, 0 <= n -> zlen (digs n d) = n.
Proof.
  intros n d Hn. unfold zlen, digs. rewrite digs_acc_length. cbn [length]. lia.
Qed.

(* ---- f64_eqb decides equality ---- *)
Lemma f64_eqb_eq : forall a b, f64_eqb a b = true -> a = b.
Proof.
  intros a b; destruct a, b; cbn; intros H; try discriminate; try reflexivity.
  - apply eqb_prop in H. congruence.
  - apply eqb_prop in H. congruence.
  - apply andb_prop in H as [H H3]. apply andb_prop in H as [H1 H2].
    apply eqb_prop in H1. apply Pos.eqb_eq in H2. apply Z.eqb_eq in H3. congruence.
Qed.

(* ---- shortest: what the search guarantees by construction ---- *)
Lemma norm_cand_value : forall c e10 n, 1 <= n ->
  let '(d, e) := norm_cand c e10 n in
  (e = e10 /\ d = c) \/ (e = e10 + 1 /\ c = 10 ^ n /\ d * 10 = c).
Proof.
  intros c e10 n Hn. unfold norm_cand. destruct (c =? 10 ^ n) eqn:E.
  - right. apply Z.eqb_eq in E. repeat split; try assumption.
    rewrite E. replace n with (Z.succ (n - 1)) at 2 by lia. rewrite Z.pow_succ_r by lia. ring.
  - left. split; reflexivity.
Qed.

Lemma pick_cand_sound : forall x N D pt n d e, 1 <= n ->
  pick_cand x N D pt n = Some (d, e) ->
  exists c, (c = fst (fst (fst (cands N D pt n))) \/ c = fst (fst (fst (cands N D pt n))) + 1) /\
            rounds_to x c (- (n - pt)) = true /\
            ((e = - (n - pt) /\ d = c) \/ (e = - (n - pt) + 1 /\ c = 10 ^ n /\ d * 10 = c)).
Proof.
  intros x N D pt n d e Hn. unfold pick_cand.
  assert (Hs : snd (cands N D pt n) = n - pt).
  { unfold cands. destruct (scale10 N D (n - pt)). destruct (divmod z z0). reflexivity. }
  destruct (cands N D pt n) as [[[lo r] B] s] eqn:Ec. cbn [fst snd] in *. subst s.
  pose proof (norm_cand_value lo (- (n - pt)) n Hn) as Hlo.
  pose proof (norm_cand_value (lo + 1) (- (n - pt)) n Hn) as Hhi.
  destruct (rounds_to x lo (- (n - pt))) eqn:Rlo; destruct (rounds_to x (lo + 1) (- (n - pt))) eqn:Rhi;
    cbn [andb]; intros H.
  - destruct (2 * r <? B); [|destruct (B <? 2 * r); [|destruct (Z.even lo)]]; injection H as H; subst.
    + exists lo. rewrite H in Hlo. auto.
    + exists (lo + 1). rewrite H in Hhi. auto.
    + exists lo. rewrite H in Hlo. auto.
    + exists (lo + 1). rewrite H in Hhi. auto.
  - injection H as H. exists lo. rewrite H in Hlo. auto.
  - injection H as H. exists (lo + 1). rewrite H in Hhi. auto.
  - discriminate.
Qed.

(* the candidate pair of length n is rejected: neither floor nor ceiling of x*10^(n-pt) rounds to x *)
Lemma pick_cand_none : forall x N D pt n,
  pick_cand x N D pt n = None ->
  let lo := fst (fst (fst (cands N D pt n))) in
  rounds_to x lo (- (n - pt)) = false /\ rounds_to x (lo + 1) (- (n - pt)) = false.
Proof.
  intros x N D pt n. unfold pick_cand.
  assert (Hs : snd (cands N D pt n) = n - pt).
  { unfold cands. destruct (scale10 N D (n - pt)). destruct (divmod z z0). reflexivity. }
  destruct (cands N D pt n) as [[[lo r] B] s] eqn:Ec. cbn [fst snd] in *. subst s.
  destruct (rounds_to x lo (- (n - pt))); destruct (rounds_to x (lo + 1) (- (n - pt))); cbn [andb];
    intros H; try discriminate; auto.
Qed.

Lemma shortest_from_spec : forall fuel n x N D pt d e, 1 <= n ->
  shortest_from fuel n x N D pt = Some (d, e) ->
  exists n', n <= n' < n + Z.of_nat fuel /\ pick_cand x N D pt n' = Some (d, e) /\
             forall m, n <= m < n' -> pick_cand x N D pt m = None.
Proof.
  induction fuel as [|f IH]; intros n x N D pt d e Hn; cbn [shortest_from]; [discriminate|].
  destruct (pick_cand x N D pt n) as [[d0 e0]|] eqn:Ep.
  - intros H. injection H as -> ->. exists n. split; [lia|]. split; [assumption|]. intros; lia.
  - intros H. apply IH in H; [|lia]. destruct H as [n' [Hr [Hp Hm]]].
    exists n'. split; [lia|]. split; [assumption|].
    intros m Hm'. destruct (Z.eq_dec m n); [subst; assumption | apply Hm; lia].
Qed.

(* dec_pt is self-certifying *)
Lemma dec_pt_sound : forall N D pt, dec_pt N D = Some pt ->
  le_pow10 N D (pt - 1) = true /\ le_pow10 N D pt = false.
Proof.
  assert (K : forall N D p, dec_pt_ok N D p = true -> le_pow10 N D (p - 1) = true /\ le_pow10 N D p = false).
  { intros N D p. unfold dec_pt_ok.
    destruct (le_pow10 N D (p - 1)); destruct (le_pow10 N D p); cbn; intros H; try discriminate; auto. }
  intros N D pt. unfold dec_pt.
  set (p := climb 8 N D _). set (p2 := climb 800 N D _).
  destruct (dec_pt_ok N D p) eqn:E1.
  - intros H. injection H as <-. apply K. exact E1.
  - destruct (dec_pt_ok N D p2) eqn:E2; [|discriminate].
    intros H. injection H as <-. apply K. exact E2.
Qed.

(* ---- the radix validator ---- *)
Lemma radix_check_sound : forall s r x,
  radix_roundtrip_check s r x = true ->
  exists neg N D, radix_value s r = Some (neg, N, D) /\ round_ratio neg N D = x.
Proof.
  intros s r x. unfold radix_roundtrip_check.
  destruct (radix_value s r) as [[[neg N] D]|]; [|discriminate].
  intros H. apply f64_eqb_eq in H. eauto.
Qed.

(* ---- round_pos: the floor/remainder facts, then nearest-even among all doubles ---- *)
Lemma L_rem : forall den0 J m r0, 0 < den0 -> 0 < J -> 0 <= m < J -> 0 <= r0 < den0 ->
  0 <= m * den0 + r0 < den0 * J.
Proof. intros. split; nia. Qed.

Lemma L_scale : forall den REM rem U, 0 < den -> 0 < U -> den * REM = rem * U -> 0 <= rem < den ->
  0 <= REM < U /\ (den < 2 * rem <-> U < 2 * REM) /\ (den = 2 * rem <-> U = 2 * REM).
Proof. intros. repeat split; intros; nia. Qed.

Lemma L_q53 : forall q0 J c, 0 < J -> 0 < c -> 0 <= q0 < 2 * c -> (c <= q0 -> 2 <= J) -> q0 < J * c.
Proof. intros q0 J c HJ Hc Hq H. destruct (Z_le_gt_dec c q0) as [L|L]; [specialize (H L)|]; nia. Qed.
Definition rp_facts (N D q' k q : Z) : Prop :=
  let Nn := N * 2 ^ 1074 in let U := D * 2 ^ k in
  0 <= k /\ 0 < U /\ q * U <= Nn < (q + 1) * U /\ 0 <= q < 2 ^ 53 /\ (0 < k -> 2 ^ 52 <= q) /\
  (q' = q \/ q' = q + 1) /\
  (2 * (Nn - q * U) < U -> q' = q) /\ (U < 2 * (Nn - q * U) -> q' = q + 1) /\
  (2 * (Nn - q * U) = U -> Z.even q' = true).

Lemma round_pos_facts : forall N D, 0 < N -> 0 < D ->
  exists q, rp_facts N D (fst (round_pos N D)) (snd (round_pos N D)) q.
Proof.
  intros N D HN HD. unfold round_pos.
  pose proof (q0_bounds N D HN HD) as HB. cbn zeta in HB.
  set (e0 := Z.log2 N - Z.log2 D - 53) in *.
  set (a' := Z.max 0 (- e0)) in *. set (b' := Z.max 0 e0) in *.
  set (N' := N * 2 ^ a') in *. set (den0 := D * 2 ^ b') in *.
  destruct HB as [Hden0 [Hq0l Hq0u]].
  rewrite divmod_spec by assumption.
  set (q0 := N' / den0) in *. set (r0 := N' mod den0).
  set (jn := if 2 ^ 53 <=? q0 then 1 else 0).
  set (j := Z.max jn (- 1074 - e0)).
  assert (Hjn : 0 <= jn <= 1) by (unfold jn; destruct (2 ^ 53 <=? q0); lia).
  assert (Hj : 0 <= j) by lia.
  set (J := 2 ^ j). assert (HJ : 0 < J) by (apply Z.pow_pos_nonneg; lia).
  set (q := q0 / J). set (m := q0 mod J).
  set (rem := m * den0 + r0). set (den := den0 * J).
  cbn [fst snd].
  set (k := e0 + j + 1074). assert (Hk : 0 <= k) by lia.
  exists q. unfold rp_facts. cbn zeta.
  set (Nn := N * 2 ^ 1074). set (U := D * 2 ^ k).
  assert (HU : 0 < U) by (apply Z.mul_pos_pos; [lia | apply Z.pow_pos_nonneg; lia]).
  assert (Eq0 : q0 = J * q + m) by (apply Z.div_mod; lia).
  assert (Hm : 0 <= m < J) by (apply Z.mod_pos_bound; lia).
  assert (EN' : N' = den0 * q0 + r0) by (apply Z.div_mod; lia).
  assert (Hr0 : 0 <= r0 < den0) by (apply Z.mod_pos_bound; lia).
  assert (Hden : 0 < den) by (apply Z.mul_pos_pos; lia).
  assert (ENd : N' = den * q + rem) by (unfold den, rem; rewrite EN', Eq0; ring).
  assert (Hrem : 0 <= rem < den) by (apply L_rem; assumption).
  assert (Escale : Nn * den = N' * U).
  { unfold Nn, den, N', U, den0, J.
    assert (E : 2 ^ 1074 * (2 ^ b' * 2 ^ j) = 2 ^ a' * 2 ^ k).
    { rewrite <- !Z.pow_add_r by lia. f_equal. unfold k, a', b'. lia. }
    transitivity (N * D * (2 ^ 1074 * (2 ^ b' * 2 ^ j))); [ring|]. rewrite E. ring. }
  assert (EREM : den * (Nn - q * U) = rem * U).
  { rewrite Z.mul_sub_distr_l. rewrite (Z.mul_comm den Nn), Escale, ENd. ring. }
  set (REM := Nn - q * U) in *.
  destruct (L_scale den REM rem U Hden HU EREM Hrem) as [HREM [Cmp1 Cmp2]].
  assert (Hqpos : 0 <= q) by (apply Z.div_pos; lia).
  assert (Hq53 : q < 2 ^ 53).
  { apply Z.div_lt_upper_bound; [lia|]. apply L_q53; [lia | reflexivity | |].
    - split; [lia|]. change (2 * 2 ^ 53) with (2 ^ 54). lia.
    - intros L. unfold J. change 2 with (2 ^ 1) at 1. apply Z.pow_le_mono_r; [lia|].
      unfold j, jn. apply Z.leb_le in L. rewrite L. lia. }
  assert (Hq52 : 0 < k -> 2 ^ 52 <= q).
  { intros Hk0. assert (Ej : j = jn) by lia.
    apply Z.div_le_lower_bound; [lia|]. unfold J. rewrite Ej. unfold jn.
    destruct (2 ^ 53 <=? q0) eqn:E53.
    - apply Z.leb_le in E53. change (2 ^ 1) with 2. assert (C : 2 ^ 53 = 2 * 2 ^ 52) by reflexivity. lia.
    - change (2 ^ 0) with 1. lia. }
  repeat split; try assumption; try lia.
  - destruct ((den <? 2 * rem) || ((den =? 2 * rem) && Z.odd q)); auto.
  - intros L. destruct (den <? 2 * rem) eqn:E1; [apply Z.ltb_lt in E1; lia|].
    destruct (den =? 2 * rem) eqn:E2; [apply Z.eqb_eq in E2; lia|]. reflexivity.
  - intros L. destruct (den <? 2 * rem) eqn:E1; [reflexivity|]. apply Z.ltb_ge in E1. lia.
  - intros L. destruct (den <? 2 * rem) eqn:E1; [apply Z.ltb_lt in E1; lia|].
    destruct (den =? 2 * rem) eqn:E2; [|apply Z.eqb_neq in E2; lia].
    cbn [orb andb]. destruct (Z.odd q) eqn:Eo.
    + rewrite Z.add_1_r, Z.even_succ. exact Eo.
    + rewrite <- Z.negb_odd, Eo. reflexivity.
Qed.

(* ---- the nearest-even theorem for round_pos ---- *)
Theorem round_pos_nearest : forall N D m' k', 0 < N -> 0 < D -> 0 <= m' < 2 ^ 53 -> 0 <= k' ->
  let q' := fst (round_pos N D) in let k := snd (round_pos N D) in
  let Nn := N * 2 ^ 1074 in let G := m' * 2 ^ k' in
  Z.abs (Nn - q' * (D * 2 ^ k)) <= Z.abs (Nn - G * D) /\
  (Z.abs (Nn - q' * (D * 2 ^ k)) = Z.abs (Nn - G * D) -> G * D <> q' * (D * 2 ^ k) -> Z.even q' = true).
Proof.
  intros N D m' k' HN HD Hm' Hk' q' k Nn G.
  destruct (round_pos_facts N D HN HD) as [q F]. unfold rp_facts in F. cbn zeta in F.
  fold q' k Nn in F. destruct F as (Hk & HU & Hfl & Hq & Hq52 & Hq' & Hlo & Hhi & Htie).
  apply (nearest_abstract Nn (D * 2 ^ k) D q q' G HU HD Hfl Hq' Hlo Hhi Htie).
  destruct (Z_le_gt_dec k k') as [L | L].
  - left. exists (m' * 2 ^ (k' - k)). unfold G.
    replace k' with ((k' - k) + k) at 1 by lia. rewrite Z.pow_add_r by lia. ring.
  - right. specialize (Hq52 ltac:(lia)).
    assert (E : 2 ^ k = 2 ^ k' * 2 ^ (k - k')).
    { rewrite <- Z.pow_add_r by lia. f_equal. lia. }
    assert (H2 : 2 <= 2 ^ (k - k')).
    { change 2 with (2 ^ 1) at 1. apply Z.pow_le_mono_r; lia. }
    assert (HP : 0 < 2 ^ k') by (apply Z.pow_pos_nonneg; lia).
    unfold G. rewrite E.
    set (T := 2 ^ (k - k')) in *. set (P := 2 ^ k') in *.
    assert (C : 2 ^ 53 = 2 * 2 ^ 52) by reflexivity.
    assert (Hq0 : 0 <= q) by lia.
    assert (HQP : 0 <= q * P) by (apply Z.mul_nonneg_nonneg; lia).
    assert (H1 : m' * P <= 2 * (q * P)) by (clear - Hm' Hq52 HP C; nia).
    assert (H3 : 2 * (q * P) <= (q * P) * T) by (clear - HQP H2; nia).
    assert (H : m' * P <= q * (P * T)) by (rewrite Z.mul_assoc; lia).
    clear - H HD. nia.
Qed.

Theorem round_pos_wellformed : forall N D, 0 < N -> 0 < D ->
  let q' := fst (round_pos N D) in let k := snd (round_pos N D) in
  0 <= k /\ 0 <= q' <= 2 ^ 53 /\ (0 < k -> 2 ^ 52 <= q').
Proof.
  intros N D HN HD q' k.
  destruct (round_pos_facts N D HN HD) as [q F]. unfold rp_facts in F. cbn zeta in F.
  fold q' k in F. destruct F as (Hk & HU & Hfl & Hq & Hq52 & Hq' & _).
  split; [assumption|]. split; [lia|]. intros H. specialize (Hq52 H). lia.
Qed.

(* pack keeps the value and the parity; an infinite result needs exponent >= 2^1024's *)
Lemma pack_spec : forall s q k, 0 <= k -> 0 <= q <= 2 ^ 53 ->
  match pack s (q, k) with
  | S754_nan => False
  | S754_zero s' => s' = s /\ q = 0
  | S754_infinity s' => s' = s /\ 0 < q /\ (2045 < k \/ (q = 2 ^ 53 /\ 2045 <= k))
  | S754_finite s' m e =>
      s' = s /\ 0 < q /\ -1074 <= e <= 971 /\ Z.pos m * 2 ^ (e + 1074) = q * 2 ^ k /\
      Z.even (Z.pos m) = Z.even q /\ Z.pos m < 2 ^ 53
  end.
Proof.
  intros s q k Hk Hq. unfold pack.
  destruct (q =? 0) eqn:E0; [apply Z.eqb_eq in E0; auto|]. apply Z.eqb_neq in E0.
  destruct (q =? 2 ^ 53) eqn:E53.
  - apply Z.eqb_eq in E53.
    destruct (2045 <? k + 1) eqn:Ek.
    + apply Z.ltb_lt in Ek. split; [reflexivity|]. split; [lia|]. right. split; [assumption | lia].
    + apply Z.ltb_ge in Ek. split; [reflexivity|]. split; [lia|]. split; [lia|].
      rewrite Z2Pos.id by reflexivity. split.
      * replace (k + 1 - 1074 + 1074) with (k + 1) by lia. rewrite Z.pow_add_r by lia. rewrite E53.
        change (2 ^ 53) with (2 ^ 52 * 2 ^ 1). ring.
      * rewrite E53. split; reflexivity.
  - apply Z.eqb_neq in E53.
    destruct (2045 <? k) eqn:Ek.
    + apply Z.ltb_lt in Ek. split; [reflexivity|]. split; [lia|]. left. assumption.
    + apply Z.ltb_ge in Ek. split; [reflexivity|]. split; [lia|]. split; [lia|].
      rewrite Z2Pos.id by lia. split; [|split; [reflexivity | lia]].
      replace (k - 1074 + 1074) with k by lia. reflexivity.
Qed.
