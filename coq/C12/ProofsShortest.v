(* C12 — shortest round-trip digits: minimality (no shorter decimal rounds to x) and totality (17 digits suffice). *)
From Coq Require Import ZArith Bool List SpecFloat Lia Psatz.
From Verif.Base Require Import F64.
From Verif.C12 Require Import Model Proofs ProofsRound.
Local Open Scope Z_scope.

(* ==== M5.v ==== *)
Lemma pow10_pos : forall k, 0 <= k -> 0 < 10 ^ k.
Proof. intros. apply Z.pow_pos_nonneg; lia. Qed.
Lemma pow10_split : forall a b, 0 <= a <= b -> 10 ^ b = 10 ^ a * 10 ^ (b - a).
Proof. intros. rewrite <- Z.pow_add_r by lia. f_equal. lia. Qed.
Lemma pow10_ge10 : forall d, 1 <= d -> 10 <= 10 ^ d.
Proof. intros. change 10 with (10 ^ 1) at 1. apply Z.pow_le_mono_r; lia. Qed.

(* n-digit integers scaled by powers of ten: nothing lies strictly between lo*10^b and (lo+1)*10^b *)
Lemma dec_cmp : forall n d lo a b, 1 <= n -> 0 <= a -> 0 <= b ->
  10 ^ (n - 1) <= d < 10 ^ n -> 10 ^ (n - 1) <= lo < 10 ^ n ->
  (d * 10 ^ a < (lo + 1) * 10 ^ b -> d * 10 ^ a <= lo * 10 ^ b) /\
  (lo * 10 ^ b < d * 10 ^ a -> (lo + 1) * 10 ^ b <= d * 10 ^ a).
Proof.
  intros n d lo a b Hn Ha Hb Hd Hlo.
  assert (E10 : 10 ^ n = 10 * 10 ^ (n - 1)).
  { replace n with (Z.succ (n - 1)) at 1 by lia. apply Z.pow_succ_r. lia. }
  pose proof (pow10_pos (n - 1) ltac:(lia)) as HW.
  rewrite E10 in *. generalize dependent (10 ^ (n - 1)). intros W. intros.
  destruct (Z.lt_trichotomy a b) as [L | [L | L]].
  - rewrite (pow10_split a b) by lia.
    pose proof (pow10_pos a Ha) as HP. pose proof (pow10_ge10 (b - a) ltac:(lia)) as HT.
    generalize dependent (10 ^ (b - a)). intros T. generalize dependent (10 ^ a). intros P. intros.
    assert (W * 10 <= lo * T) by (apply Z.mul_le_mono_nonneg; lia).
    assert (d < lo * T) by lia.
    split; intros.
    + assert (d * P <= lo * T * P) by nia. lia.
    + exfalso. assert (lo * (P * T) = lo * T * P) by ring. assert (d * P < lo * T * P) by nia. lia.
  - subst b. pose proof (pow10_pos a Ha) as HP. generalize dependent (10 ^ a). intros P. intros.
    split; intros H.
    + apply Z.mul_lt_mono_pos_r in H; [|assumption]. apply Z.mul_le_mono_nonneg_r; lia.
    + apply Z.mul_lt_mono_pos_r in H; [|assumption]. apply Z.mul_le_mono_nonneg_r; lia.
  - rewrite (pow10_split b a) by lia.
    pose proof (pow10_pos b Hb) as HP. pose proof (pow10_ge10 (a - b) ltac:(lia)) as HT.
    generalize dependent (10 ^ (a - b)). intros T. generalize dependent (10 ^ b). intros P. intros.
    assert (W * 10 <= d * T) by (apply Z.mul_le_mono_nonneg; lia).
    assert (lo + 1 <= d * T) by lia.
    split; intros.
    + exfalso. assert (d * (P * T) = d * T * P) by ring. assert ((lo + 1) * P <= d * T * P) by nia. lia.
    + assert (d * (P * T) = d * T * P) by ring. assert ((lo + 1) * P <= d * T * P) by nia. lia.
Qed.

Definition dec_ratio (c e : Z) : Z * Z :=
  if 0 <=? e then (c * 10 ^ e, 1) else (c, 10 ^ (- e)).

Lemma parse_decimal_s_ratio : forall s c e,
  parse_decimal_s s c e = round_ratio s (fst (dec_ratio c e)) (snd (dec_ratio c e)).
Proof. intros. unfold parse_decimal_s, dec_ratio. destruct (0 <=? e); reflexivity. Qed.

Lemma dec_ratio_scaled : forall c e Z0, 0 <= Z0 -> 0 <= e + Z0 ->
  0 < snd (dec_ratio c e) /\
  fst (dec_ratio c e) * 10 ^ Z0 = c * 10 ^ (e + Z0) * snd (dec_ratio c e).
Proof.
  intros c e Z0 HZ HeZ. unfold dec_ratio. destruct (0 <=? e) eqn:E; cbn [fst snd].
  - apply Z.leb_le in E. split; [lia|]. rewrite Z.pow_add_r by lia. ring.
  - apply Z.leb_gt in E. split; [apply pow10_pos; lia|].
    assert (EZ : 10 ^ Z0 = 10 ^ (e + Z0) * 10 ^ (- e)) by (rewrite <- Z.pow_add_r by lia; f_equal; lia).
    rewrite EZ. ring.
Qed.

Lemma dec_ratio_pos : forall c e, 0 < c -> 0 < fst (dec_ratio c e) /\ 0 < snd (dec_ratio c e).
Proof.
  intros c e Hc. unfold dec_ratio. destruct (0 <=? e) eqn:E; cbn [fst snd].
  - apply Z.leb_le in E. split; [|lia]. apply Z.mul_pos_pos; [lia | apply pow10_pos; lia].
  - apply Z.leb_gt in E. split; [lia | apply pow10_pos; lia].
Qed.

Lemma le_pow10_scaled : forall N D p Z0, 0 <= Z0 -> 0 <= p + Z0 -> 0 < D ->
  (le_pow10 N D p = true <-> 10 ^ (p + Z0) * D <= N * 10 ^ Z0).
Proof.
  intros N D p Z0 HZ HpZ HD. unfold le_pow10. destruct (0 <=? p) eqn:E.
  - apply Z.leb_le in E. rewrite Z.leb_le. rewrite Z.pow_add_r by lia.
    pose proof (pow10_pos Z0 HZ) as HT.
    replace (10 ^ p * 10 ^ Z0 * D) with (10 ^ p * D * 10 ^ Z0) by ring.
    apply Z.mul_le_mono_pos_r. exact HT.
  - apply Z.leb_gt in E. rewrite Z.leb_le.
    assert (EZ : 10 ^ Z0 = 10 ^ (p + Z0) * 10 ^ (- p)) by (rewrite <- Z.pow_add_r by lia; f_equal; lia).
    rewrite EZ.
    pose proof (pow10_pos (p + Z0) HpZ) as HT.
    replace (10 ^ (p + Z0) * D) with (D * 10 ^ (p + Z0)) by ring.
    replace (N * (10 ^ (p + Z0) * 10 ^ (- p))) with (N * 10 ^ (- p) * 10 ^ (p + Z0)) by ring.
    apply Z.mul_le_mono_pos_r. exact HT.
Qed.

Lemma scale10_scaled : forall N D s Z0, 0 <= Z0 -> 0 <= Z0 - s -> 0 < D ->
  0 < snd (scale10 N D s) /\
  fst (scale10 N D s) * 10 ^ (Z0 - s) * D = N * 10 ^ Z0 * snd (scale10 N D s).
Proof.
  intros N D s Z0 HZ Hb HD. unfold scale10. destruct (0 <=? s) eqn:E; cbn [fst snd].
  - apply Z.leb_le in E. split; [lia|].
    assert (EZ : 10 ^ Z0 = 10 ^ s * 10 ^ (Z0 - s)) by (rewrite <- Z.pow_add_r by lia; f_equal; lia).
    rewrite EZ. ring.
  - apply Z.leb_gt in E. split; [apply Z.mul_pos_pos; [lia | apply pow10_pos; lia]|].
    replace (Z0 - s) with (Z0 + (- s)) by lia. rewrite Z.pow_add_r by lia. ring.
Qed.

(* ==== M6.v ==== *)
Lemma f64_eqb_refl : forall a, f64_eqb a a = true.
Proof.
  destruct a; cbn; try reflexivity; try apply eqb_reflx.
  rewrite eqb_reflx, Pos.eqb_refl, Z.eqb_refl. reflexivity.
Qed.

Lemma rounds_to_pos : forall x c e, 0 < c ->
  (rounds_to x c e = true <-> round_ratio false (fst (dec_ratio c e)) (snd (dec_ratio c e)) = x).
Proof.
  intros x c e Hc. unfold rounds_to, parse_decimal.
  replace (c <? 0) with false by (symmetry; apply Z.ltb_ge; lia).
  rewrite Z.abs_eq by lia. rewrite parse_decimal_s_ratio.
  split; [apply f64_eqb_eq | intros ->; apply f64_eqb_refl].
Qed.

(* cross-multiplication helpers *)
Lemma le_scaled_dd : forall N1 D1 N2 D2 T v1 v2, 0 < T -> 0 < D1 -> 0 < D2 ->
  N1 * T = v1 * D1 -> N2 * T = v2 * D2 -> v1 <= v2 -> N1 * D2 <= N2 * D1.
Proof.
  intros N1 D1 N2 D2 T v1 v2 HT HD1 HD2 E1 E2 L.
  apply (Z.mul_le_mono_pos_r _ _ T HT).
  replace (N1 * D2 * T) with (v1 * (D1 * D2)) by (transitivity (N1 * T * D2); [rewrite E1|]; ring).
  replace (N2 * D1 * T) with (v2 * (D1 * D2)) by (transitivity (N2 * T * D1); [rewrite E2|]; ring).
  apply Z.mul_le_mono_nonneg_r; nia.
Qed.

Lemma le_scaled_dx : forall N1 D1 N D T v1, 0 < T -> 0 < D1 -> 0 < D ->
  N1 * T = v1 * D1 -> v1 * D <= N * T -> N1 * D <= N * D1.
Proof.
  intros N1 D1 N D T v1 HT HD1 HD E1 L.
  apply (Z.mul_le_mono_pos_r _ _ T HT).
  replace (N1 * D * T) with (v1 * D * D1) by (transitivity (N1 * T * D); [rewrite E1|]; ring).
  replace (N * D1 * T) with (N * T * D1) by ring.
  apply Z.mul_le_mono_nonneg_r; lia.
Qed.

Lemma le_scaled_xd : forall N1 D1 N D T v1, 0 < T -> 0 < D1 -> 0 < D ->
  N1 * T = v1 * D1 -> N * T <= v1 * D -> N * D1 <= N1 * D.
Proof.
  intros N1 D1 N D T v1 HT HD1 HD E1 L.
  apply (Z.mul_le_mono_pos_r _ _ T HT).
  replace (N1 * D * T) with (v1 * D * D1) by (transitivity (N1 * T * D); [rewrite E1|]; ring).
  replace (N * D1 * T) with (N * T * D1) by ring.
  apply Z.mul_le_mono_nonneg_r; lia.
Qed.

(* the two candidates of length n bracket x, are n-digit numbers *)
Lemma cands_facts : forall N D pt n Z0, 0 < N -> 0 < D -> dec_pt N D = Some pt -> 1 <= n ->
  0 <= Z0 -> 0 <= Z0 - (n - pt) -> 0 <= pt - 1 + Z0 ->
  let lo := fst (fst (fst (cands N D pt n))) in
  let b := Z0 - (n - pt) in
  (lo * 10 ^ b * D <= N * 10 ^ Z0 < (lo + 1) * 10 ^ b * D) /\ 10 ^ (n - 1) <= lo < 10 ^ n.
Proof.
  intros N D pt n Z0 HN HD Hpt Hn HZ Hb Hp lo b.
  destruct (scale10_scaled N D (n - pt) Z0 HZ Hb HD) as [HB ES].
  assert (Elo : lo = fst (scale10 N D (n - pt)) / snd (scale10 N D (n - pt))).
  { unfold lo, cands. destruct (scale10 N D (n - pt)) as [A B]. cbn [fst snd] in *.
    rewrite divmod_spec by assumption. reflexivity. }
  destruct (scale10 N D (n - pt)) as [A B]. cbn [fst snd] in *. fold b in ES.
  pose proof (Z.div_mod A B ltac:(lia)) as EA. pose proof (Z.mod_pos_bound A B HB) as HR.
  rewrite <- Elo in EA.
  pose proof (pow10_pos b Hb) as HPb.
  assert (HU : 0 < 10 ^ b * D) by (apply Z.mul_pos_pos; assumption).
  set (XN := N * 10 ^ Z0) in *.
  assert (F1 : lo * 10 ^ b * D <= XN).
  { apply (Z.mul_le_mono_pos_r _ _ B HB). rewrite <- ES.
    replace (lo * 10 ^ b * D * B) with (B * lo * (10 ^ b * D)) by ring.
    replace (A * 10 ^ b * D) with (A * (10 ^ b * D)) by ring.
    apply Z.mul_le_mono_nonneg_r; lia. }
  assert (F2 : XN < (lo + 1) * 10 ^ b * D).
  { apply (Z.mul_lt_mono_pos_r B _ _ HB). rewrite <- ES.
    replace ((lo + 1) * 10 ^ b * D * B) with ((B * lo + B) * (10 ^ b * D)) by ring.
    replace (A * 10 ^ b * D) with (A * (10 ^ b * D)) by ring.
    apply Z.mul_lt_mono_pos_r; lia. }
  split; [split; assumption|].
  destruct (dec_pt_sound N D pt Hpt) as [P1 P2].
  apply (le_pow10_scaled N D (pt - 1) Z0 HZ Hp HD) in P1.
  assert (P3 : ~ 10 ^ (pt + Z0) * D <= XN).
  { intro C. apply (le_pow10_scaled N D pt Z0 HZ ltac:(lia) HD) in C. congruence. }
  assert (E1 : 10 ^ (pt - 1 + Z0) = 10 ^ (n - 1) * 10 ^ b).
  { rewrite <- Z.pow_add_r by lia. f_equal. unfold b. lia. }
  assert (E2 : 10 ^ (pt + Z0) = 10 ^ n * 10 ^ b).
  { rewrite <- Z.pow_add_r by lia. f_equal. unfold b. lia. }
  rewrite E1 in P1. rewrite E2 in P3. fold XN in P1.
  generalize dependent (10 ^ (n - 1)). intros W1. generalize dependent (10 ^ n). intros W. intros.
  split.
  - assert (W1 * (10 ^ b * D) < (lo + 1) * (10 ^ b * D)) by (replace (W1 * (10 ^ b * D)) with (W1 * 10 ^ b * D) by ring; replace ((lo + 1) * (10 ^ b * D)) with ((lo + 1) * 10 ^ b * D) by ring; lia).
    apply Z.mul_lt_mono_pos_r in H; lia.
  - assert (lo * (10 ^ b * D) < W * (10 ^ b * D)) by (replace (W * (10 ^ b * D)) with (W * 10 ^ b * D) by ring; replace (lo * (10 ^ b * D)) with (lo * 10 ^ b * D) by ring; lia).
    apply Z.mul_lt_mono_pos_r in H; lia.
Qed.

Lemma claimA_arith : forall n d lo a b D XN, 1 <= n -> 0 <= a -> 0 <= b -> 0 < D ->
  10 ^ (n - 1) <= d < 10 ^ n -> 10 ^ (n - 1) <= lo < 10 ^ n ->
  lo * 10 ^ b * D <= XN < (lo + 1) * 10 ^ b * D ->
  (d * 10 ^ a * D <= XN -> d * 10 ^ a <= lo * 10 ^ b) /\
  (XN < d * 10 ^ a * D -> (lo + 1) * 10 ^ b <= d * 10 ^ a).
Proof.
  intros n d lo a b D XN Hn Ha Hb HD Hd Hlo [F1 F2].
  destruct (dec_cmp n d lo a b Hn Ha Hb Hd Hlo) as [C1 C2].
  split; intros H.
  - apply C1. apply (Z.mul_lt_mono_pos_r D _ _ HD). lia.
  - apply C2. apply (Z.mul_lt_mono_pos_r D _ _ HD). lia.
Qed.

(* Claim A: if ANY n-digit decimal d*10^t rounds to x, then one of the two n-digit neighbours of x does *)
Theorem neighbours_suffice : forall N D pt n sx mx ex d t,
  0 < N -> 0 < D -> dec_pt N D = Some pt -> 1 <= n ->
  round_ratio false N D = S754_finite sx mx ex ->
  10 ^ (n - 1) <= d < 10 ^ n ->
  rounds_to (S754_finite sx mx ex) d t = true ->
  let lo := fst (fst (fst (cands N D pt n))) in
  rounds_to (S754_finite sx mx ex) lo (- (n - pt)) = true \/
  rounds_to (S754_finite sx mx ex) (lo + 1) (- (n - pt)) = true.
Proof.
  intros N D pt n sx mx ex d t HN HD Hpt Hn HX Hd Hr lo.
  set (Z0 := Z.abs t + Z.abs (n - pt) + Z.abs pt + 1).
  assert (HZ : 0 <= Z0) by lia.
  assert (Ha : 0 <= t + Z0) by lia. assert (Hb : 0 <= Z0 - (n - pt)) by lia.
  destruct (cands_facts N D pt n Z0 HN HD Hpt Hn HZ Hb ltac:(lia)) as [HF Hlo]. fold lo in HF, Hlo.
  set (b := Z0 - (n - pt)) in *. set (a := t + Z0) in *.
  pose proof (pow10_pos (n - 1) ltac:(lia)) as HW.
  assert (Hdpos : 0 < d) by lia. assert (Hlopos : 0 < lo) by lia.
  apply (rounds_to_pos _ d t Hdpos) in Hr.
  destruct (dec_ratio_pos d t Hdpos) as [HNd HDd].
  destruct (dec_ratio_scaled d t Z0 HZ Ha) as [_ Ed]. fold a in Ed.
  destruct (dec_ratio_pos lo (- (n - pt)) Hlopos) as [HNl HDl].
  destruct (dec_ratio_scaled lo (- (n - pt)) Z0 HZ ltac:(lia)) as [_ El].
  replace (- (n - pt) + Z0) with b in El by (unfold b; lia).
  destruct (dec_ratio_pos (lo + 1) (- (n - pt)) ltac:(lia)) as [HNh HDh].
  destruct (dec_ratio_scaled (lo + 1) (- (n - pt)) Z0 HZ ltac:(lia)) as [_ Eh].
  replace (- (n - pt) + Z0) with b in Eh by (unfold b; lia).
  pose proof (pow10_pos Z0 HZ) as HT.
  destruct (claimA_arith n d lo a b D (N * 10 ^ Z0) Hn Ha Hb HD Hd Hlo HF) as [CA CB].
  destruct (Z_le_gt_dec (d * 10 ^ a * D) (N * 10 ^ Z0)) as [L | L].
  - left. apply (rounds_to_pos _ lo _ Hlopos). specialize (CA L).
    apply (round_ratio_squeeze false _ _ _ _ N D sx mx ex HNd HDd HNl HDl HN HD); try assumption.
    + eapply (le_scaled_dd _ _ _ _ (10 ^ Z0)); eauto.
    + eapply (le_scaled_dx _ _ _ _ (10 ^ Z0)); eauto. lia.
  - right. apply (rounds_to_pos _ (lo + 1) _ ltac:(lia)). specialize (CB ltac:(lia)).
    apply (round_ratio_squeeze false N D _ _ _ _ sx mx ex HN HD HNh HDh HNd HDd); try assumption.
    + eapply (le_scaled_xd _ _ _ _ (10 ^ Z0)); eauto. lia.
    + eapply (le_scaled_dd _ _ _ _ (10 ^ Z0)); eauto.
Qed.

(* ==== M7.v ==== *)
Lemma pick_cand_sound' : forall x N D pt n d e,
  pick_cand x N D pt n = Some (d, e) ->
  exists c, (c = fst (fst (fst (cands N D pt n))) \/ c = fst (fst (fst (cands N D pt n))) + 1) /\
            rounds_to x c (- (n - pt)) = true /\ norm_cand c (- (n - pt)) n = (d, e).
Proof.
  intros x N D pt n d e. unfold pick_cand.
  assert (Hs : snd (cands N D pt n) = n - pt).
  { unfold cands. destruct (scale10 N D (n - pt)). destruct (divmod z z0). reflexivity. }
  destruct (cands N D pt n) as [[[lo r] B] s] eqn:Ec. cbn [fst snd] in *. subst s.
  destruct (rounds_to x lo (- (n - pt))) eqn:Rlo; destruct (rounds_to x (lo + 1) (- (n - pt))) eqn:Rhi;
    cbn [andb]; intros H; try discriminate.
  - destruct (2 * r <? B); [|destruct (B <? 2 * r); [|destruct (Z.even lo)]]; injection H as H.
    + exists lo; auto. + exists (lo + 1); auto. + exists lo; auto. + exists (lo + 1); auto.
  - injection H as H. exists lo; auto.
  - injection H as H. exists (lo + 1); auto.
Qed.

Lemma round_ratio_det : forall s N1 D1 N2 D2, 0 < N1 -> 0 < D1 -> 0 < N2 -> 0 < D2 ->
  N1 * D2 = N2 * D1 -> round_ratio s N1 D1 = round_ratio s N2 D2.
Proof. intros. unfold round_ratio. rewrite (round_pos_det N1 D1 N2 D2); auto. Qed.

Lemma rounds_to_shift : forall x d e, 0 < d -> rounds_to x (d * 10) e = true -> rounds_to x d (e + 1) = true.
Proof.
  intros x d e Hd H. apply (rounds_to_pos x (d * 10) e ltac:(lia)) in H.
  apply (rounds_to_pos x d (e + 1) Hd). rewrite <- H.
  set (Z0 := Z.abs e + 1).
  destruct (dec_ratio_pos (d * 10) e ltac:(lia)) as [HN1 HD1].
  destruct (dec_ratio_pos d (e + 1) Hd) as [HN2 HD2].
  destruct (dec_ratio_scaled (d * 10) e Z0 ltac:(lia) ltac:(lia)) as [_ E1].
  destruct (dec_ratio_scaled d (e + 1) Z0 ltac:(lia) ltac:(lia)) as [_ E2].
  apply round_ratio_det; try assumption.
  pose proof (pow10_pos Z0 ltac:(lia)) as HT.
  apply (Z.mul_cancel_r _ _ (10 ^ Z0)); [lia|].
  assert (EV : d * 10 * 10 ^ (e + Z0) = d * 10 ^ (e + 1 + Z0)).
  { replace (e + 1 + Z0) with (Z.succ (e + Z0)) by lia. rewrite Z.pow_succ_r by lia. ring. }
  rewrite EV in E1.
  set (N1 := fst (dec_ratio (d * 10) e)) in *. set (D1 := snd (dec_ratio (d * 10) e)) in *.
  set (N2 := fst (dec_ratio d (e + 1))) in *. set (D2 := snd (dec_ratio d (e + 1))) in *.
  set (v := d * 10 ^ (e + 1 + Z0)) in *. set (T := 10 ^ Z0) in *.
  transitivity (N2 * T * D1); [ring|]. rewrite E2.
  transitivity (N1 * T * D2); [rewrite E1; ring | ring].
Qed.

(* ---- shortest: FULL correctness (given that the search returned) ---- *)
Theorem shortest_correct : forall s m e d0 e0, canon64 m e ->
  shortest (S754_finite s m e) = Some (d0, e0) ->
  let x := S754_finite false m e in
  exists n, 1 <= n <= 17 /\ 10 ^ (n - 1) <= d0 < 10 ^ n /\
    rounds_to x d0 e0 = true /\
    (forall n' d t, 1 <= n' < n -> 10 ^ (n' - 1) <= d < 10 ^ n' -> rounds_to x d t = false).
Proof.
  intros s m e d0 e0 Hc Hs x. unfold shortest in Hs.
  pose proof (round_ratio_exact false m e Hc) as HX.
  destruct (ratio_of_pos m e) as [HN HD].
  destruct (ratio_of m e) as [N D]. cbn [fst snd] in *.
  destruct (dec_pt N D) as [pt|] eqn:Hpt; [|discriminate].
  apply shortest_from_spec in Hs; [|lia]. destruct Hs as (n & Hn & Hp & Hmin).
  exists n. split; [cbn in Hn; lia|].
  destruct (pick_cand_sound' _ _ _ _ _ _ _ Hp) as (c & Hcc & Hr & Hnorm).
  set (Z0 := Z.abs (n - pt) + Z.abs pt + n + 1).
  destruct (cands_facts N D pt n Z0 HN HD Hpt ltac:(lia) ltac:(lia) ltac:(lia) ltac:(lia)) as [_ Hlo].
  set (lo := fst (fst (fst (cands N D pt n)))) in *.
  assert (E10 : 10 ^ n = 10 ^ (n - 1) * 10).
  { replace n with (Z.succ (n - 1)) at 1 by lia. rewrite Z.pow_succ_r by lia. ring. }
  pose proof (pow10_pos (n - 1) ltac:(lia)) as HW.
  unfold norm_cand in Hnorm.
  split; [|split].
  - destruct (c =? 10 ^ n) eqn:Ec; injection Hnorm as <- <-.
    + lia.
    + apply Z.eqb_neq in Ec. destruct Hcc; subst c; lia.
  - destruct (c =? 10 ^ n) eqn:Ec; injection Hnorm as <- <-.
    + apply Z.eqb_eq in Ec. apply rounds_to_shift; [assumption|]. rewrite <- E10, <- Ec. exact Hr.
    + exact Hr.
  - intros n' d t Hn' Hd.
    destruct (rounds_to x d t) eqn:Rd; [exfalso|reflexivity].
    destruct (pick_cand_none _ _ _ _ _ (Hmin n' ltac:(lia))) as [F1 F2].
    pose proof (neighbours_suffice N D pt n' false m e d t HN HD Hpt ltac:(lia) HX Hd Rd) as T.
    subst x. cbv zeta in *. destruct T as [T|T]; [rewrite F1 in T | rewrite F2 in T]; discriminate.
Qed.

(* ==== M9.v ==== *)
(* consecutive doubles: no value of the grid lies strictly between m*2^k and (m+1)*2^k *)
Lemma no_grid_between : forall m k m' k', 0 <= k -> 0 <= k' -> 0 <= m' < 2 ^ 53 -> 0 <= m ->
  (2 ^ 52 <= m \/ k = 0) -> ~ (m * 2 ^ k < m' * 2 ^ k' < (m + 1) * 2 ^ k).
Proof.
  intros m k m' k' Hk Hk' Hm' Hm Hc [L U].
  destruct (Z_le_gt_dec k k') as [G | G].
  - rewrite (pow2_split k k') in L, U by lia.
    pose proof (pow2_pos k Hk) as HP. pose proof (pow2_pos (k' - k) ltac:(lia)) as HT.
    generalize dependent (2 ^ (k' - k)). intros T. generalize dependent (2 ^ k). intros P. intros.
    replace (m' * (P * T)) with (m' * T * P) in L, U by ring.
    apply Z.mul_lt_mono_pos_r in L; [|assumption]. apply Z.mul_lt_mono_pos_r in U; [|assumption]. lia.
  - destruct Hc as [Hc | Hc]; [|lia].
    rewrite (pow2_split k' k) in L by lia.
    pose proof (pow2_pos k' Hk') as HP. pose proof (pow2_ge2 (k - k') ltac:(lia)) as HT.
    assert (C : 2 ^ 53 = 2 * 2 ^ 52) by reflexivity. rewrite C in *.
    generalize dependent (2 ^ (k - k')). intros T. generalize dependent (2 ^ k'). intros P.
    generalize dependent (2 ^ 52). intros c. intros.
    assert (m' * P < 2 * c * P) by (apply Z.mul_lt_mono_pos_r; lia).
    assert (c * 2 <= m * T) by (apply Z.mul_le_mono_nonneg; lia).
    assert (c * 2 * P <= m * T * P) by (apply Z.mul_le_mono_nonneg_r; lia).
    replace (m * (P * T)) with (m * T * P) in L by ring. lia.
Qed.

Lemma round_pos_self : forall m k, 0 < m < 2 ^ 53 -> 0 <= k ->
  rval (round_pos (m * 2 ^ k) (2 ^ 1074)) = m * 2 ^ k.
Proof.
  intros m k Hm Hk. apply round_pos_exact; try lia;
    try (apply pow2_pos; lia); try (apply Z.mul_pos_pos; [lia | apply pow2_pos; lia]).
Qed.

(* a rational within half a gap ABOVE the double M = m*2^k rounds to M *)
Lemma round_up_side : forall m k Nw Dw, 0 < m < 2 ^ 53 -> 0 <= k -> (2 ^ 52 <= m \/ k = 0) ->
  0 < Nw -> 0 < Dw ->
  (m * 2 ^ k) * Dw <= Nw * 2 ^ 1074 ->
  2 * (Nw * 2 ^ 1074 - (m * 2 ^ k) * Dw) < 2 ^ k * Dw ->
  rval (round_pos Nw Dw) = m * 2 ^ k.
Proof.
  intros m k Nw Dw Hm Hk Hc HNw HDw Hge Hlt.
  pose proof (pow2_pos k Hk) as HP. pose proof (pow2_pos 1074 ltac:(lia)) as HC.
  assert (HM : 0 < m * 2 ^ k) by (apply Z.mul_pos_pos; lia).
  assert (R1 : m * 2 ^ k <= rval (round_pos Nw Dw)).
  { rewrite <- (round_pos_self m k Hm Hk) at 1. apply round_pos_monotone; try assumption. }
  pose proof (nearest_rval Nw Dw m k HNw HDw ltac:(lia) Hk) as Hn.
  destruct (wf_in_grid _ (round_pos_wf Nw Dw HNw HDw)) as (m' & k' & Hm' & Hk' & EG).
  pose proof (no_grid_between m k m' k' Hk Hk' Hm' ltac:(lia) Hc) as NG. rewrite EG in NG.
  set (R := rval (round_pos Nw Dw)) in *.
  generalize dependent (2 ^ 1074). intros C. intros.
  set (M := m * 2 ^ k) in *.
  assert (RD : (R - M) * Dw < 2 ^ k * Dw).
  { assert (M * Dw <= R * Dw) by (apply Z.mul_le_mono_nonneg_r; lia).
    replace ((R - M) * Dw) with (R * Dw - M * Dw) by ring. lia. }
  apply Z.mul_lt_mono_pos_r in RD; [|assumption].
  assert (EM : (m + 1) * 2 ^ k = M + 2 ^ k) by (unfold M; ring).
  rewrite EM in NG. lia.
Qed.

(* a rational within half a gap BELOW M (gap 2^kp to the predecessor mp*2^kp) rounds to M *)
Lemma round_down_side : forall m k mp kp Nw Dw, 0 < m < 2 ^ 53 -> 0 <= k ->
  0 <= mp -> 0 <= kp -> (2 ^ 52 <= mp \/ kp = 0) -> (mp + 1) * 2 ^ kp = m * 2 ^ k ->
  0 < Nw -> 0 < Dw ->
  Nw * 2 ^ 1074 <= (m * 2 ^ k) * Dw ->
  2 * ((m * 2 ^ k) * Dw - Nw * 2 ^ 1074) < 2 ^ kp * Dw ->
  rval (round_pos Nw Dw) = m * 2 ^ k.
Proof.
  intros m k mp kp Nw Dw Hm Hk Hmp Hkp Hc Esucc HNw HDw Hle Hlt.
  pose proof (pow2_pos k Hk) as HP. pose proof (pow2_pos kp Hkp) as HPp.
  pose proof (pow2_pos 1074 ltac:(lia)) as HC.
  assert (HM : 0 < m * 2 ^ k) by (apply Z.mul_pos_pos; lia).
  assert (R1 : rval (round_pos Nw Dw) <= m * 2 ^ k).
  { rewrite <- (round_pos_self m k Hm Hk). apply round_pos_monotone; try assumption. }
  pose proof (nearest_rval Nw Dw m k HNw HDw ltac:(lia) Hk) as Hn.
  destruct (wf_in_grid _ (round_pos_wf Nw Dw HNw HDw)) as (m' & k' & Hm' & Hk' & EG).
  pose proof (no_grid_between mp kp m' k' Hkp Hk' Hm' Hmp Hc) as NG. rewrite EG, Esucc in NG.
  set (R := rval (round_pos Nw Dw)) in *.
  generalize dependent (2 ^ 1074). intros C. intros.
  set (M := m * 2 ^ k) in *.
  assert (RD : (M - R) * Dw < 2 ^ kp * Dw).
  { assert (R * Dw <= M * Dw) by (apply Z.mul_le_mono_nonneg_r; lia).
    replace ((M - R) * Dw) with (M * Dw - R * Dw) by ring. lia. }
  apply Z.mul_lt_mono_pos_r in RD; [|assumption].
  assert (EM : mp * 2 ^ kp = M - 2 ^ kp) by (rewrite <- Esucc; ring).
  rewrite EM in NG. lia.
Qed.

Lemma total_arith : forall XN u lo C D TZ M K g m,
  0 < u -> 0 < C -> 0 < D -> 0 < TZ -> 0 < K -> 0 < g ->
  lo * u <= XN < (lo + 1) * u -> 10 ^ 16 * u <= XN ->
  XN * C = M * (D * TZ) -> M = m * K -> 0 < m < 2 ^ 53 ->
  (g = K \/ (2 * g = K /\ m = 2 ^ 52)) ->
  2 * ((lo + 1) * u - XN) * C < K * (D * TZ) \/ 2 * (XN - lo * u) * C < g * (D * TZ).
Proof.
  intros XN u lo C D TZ M K g m Hu HC HD HTZ HK Hg [L1 L2] H16 EX EM Hm Hgap.
  assert (HY : 0 < D * TZ) by (apply Z.mul_pos_pos; lia).
  generalize dependent (D * TZ). intros Y. intros.
  destruct (Z_lt_ge_dec (2 * ((lo + 1) * u - XN) * C) (K * Y)) as [A | A]; [left; assumption|].
  destruct (Z_lt_ge_dec (2 * (XN - lo * u) * C) (g * Y)) as [B | B]; [right; assumption|exfalso].
  assert (S : (K + g) * Y <= 2 * (u * C)).
  { replace (2 * (u * C)) with (2 * ((lo + 1) * u - XN) * C + 2 * (XN - lo * u) * C) by ring. lia. }
  assert (H16C : 10 ^ 16 * (u * C) <= m * K * Y).
  { rewrite <- EM, <- EX. replace (10 ^ 16 * (u * C)) with (10 ^ 16 * u * C) by ring.
    apply Z.mul_le_mono_nonneg_r; lia. }
  assert (F : 10 ^ 16 * ((K + g) * Y) <= 2 * (m * K * Y)) by lia.
  assert (C16 : 2 ^ 53 < 10 ^ 16) by reflexivity.
  destruct Hgap as [-> | [E2 ->]].
  - assert (G : 10 ^ 16 * (K * Y) <= m * (K * Y)) by nia.
    assert (0 < K * Y) by (apply Z.mul_pos_pos; lia).
    generalize dependent (K * Y). intros KY. intros.
    apply Z.mul_le_mono_pos_r in G; lia.
  - subst K. assert (0 < g * Y) by (apply Z.mul_pos_pos; lia).
    assert (G : 10 ^ 16 * 3 * (g * Y) <= 2 ^ 52 * 4 * (g * Y)).
    { replace (10 ^ 16 * 3 * (g * Y)) with (10 ^ 16 * ((2 * g + g) * Y)) by ring.
      replace (2 ^ 52 * 4 * (g * Y)) with (2 * (2 ^ 52 * (2 * g) * Y)) by ring. exact F. }
    generalize dependent (g * Y). intros GY. intros.
    apply Z.mul_le_mono_pos_r in G; [|assumption]. vm_compute in G. apply G. reflexivity.
Qed.

(* ==== M10.v ==== *)
(* ---- dec_pt is total on binary64 values ---- *)
Lemma climb_spec : forall fuel N D p0,
  le_pow10 N D (p0 - 1) = true -> le_pow10 N D (p0 + Z.of_nat fuel) = false ->
  dec_pt_ok N D (climb fuel N D p0) = true.
Proof.
  induction fuel as [|f IH]; intros N D p0 H1 H2; cbn [climb].
  - unfold dec_pt_ok. rewrite H1. rewrite Z.add_0_r in H2. rewrite H2. reflexivity.
  - destruct (le_pow10 N D p0) eqn:E.
    + apply IH.
      * replace (p0 + 1 - 1) with p0 by lia. exact E.
      * replace (p0 + 1 + Z.of_nat f) with (p0 + Z.of_nat (S f)) by lia. exact H2.
    + unfold dec_pt_ok. rewrite H1, E. reflexivity.
Qed.

Lemma dec_pt_total : forall m e, canon64 m e ->
  exists pt, dec_pt (fst (ratio_of m e)) (snd (ratio_of m e)) = Some pt.
Proof.
  intros m e (Hm & He & _). unfold dec_pt.
  set (N := fst (ratio_of m e)). set (D := snd (ratio_of m e)).
  destruct (dec_pt_ok N D (climb 8 N D _)); [eexists; reflexivity|].
  assert (OK : dec_pt_ok N D (climb 800 N D (-400)) = true).
  { apply climb_spec.
    - change (-400 - 1) with (-401). unfold le_pow10. change (0 <=? -401) with false. change (- -401) with 401.
      apply Z.leb_le. unfold N, D, ratio_of. destruct (0 <=? e) eqn:E; cbn [fst snd].
      + apply Z.leb_le in E. pose proof (pow2_pos e E). pose proof (pow10_pos 401 ltac:(lia)). nia.
      + apply Z.leb_gt in E.
        assert (2 ^ (- e) <= 2 ^ 1074) by (apply Z.pow_le_mono_r; lia).
        assert (2 ^ 1074 <= 10 ^ 401) by (vm_compute; discriminate).
        pose proof (pow10_pos 401 ltac:(lia)).
        generalize dependent (10 ^ 401). intros T. generalize dependent (2 ^ 1074). intros C.
        generalize dependent (2 ^ (- e)). intros P. intros. nia.
    - change (-400 + Z.of_nat 800) with 400. unfold le_pow10. change (0 <=? 400) with true.
      apply Z.leb_gt. unfold N, D, ratio_of. destruct (0 <=? e) eqn:E; cbn [fst snd].
      + apply Z.leb_le in E.
        assert (2 ^ e <= 2 ^ 971) by (apply Z.pow_le_mono_r; lia).
        assert (2 ^ 53 * 2 ^ 971 < 10 ^ 400) by (vm_compute; reflexivity).
        pose proof (pow2_pos e E).
        generalize dependent (10 ^ 400). intros T. generalize dependent (2 ^ 971). intros C.
        generalize dependent (2 ^ e). intros P. generalize dependent (2 ^ 53). intros c. intros.
        assert (Z.pos m * P < c * C) by nia. lia.
      + apply Z.leb_gt in E. pose proof (pow2_pos (- e) ltac:(lia)).
        assert (2 ^ 53 < 10 ^ 400) by (vm_compute; reflexivity).
        generalize dependent (10 ^ 400). intros T. generalize dependent (2 ^ (- e)). intros P. intros. nia. }
  rewrite OK. eexists; reflexivity.
Qed.

(* ---- a candidate within half a gap of x rounds to x ---- *)
Lemma side_transfer : forall Nw Dw TZ cu D C M N,
  Nw * TZ = cu * Dw -> N * C = M * D ->
  (Nw * C - M * Dw) * (D * TZ) = (cu * D - N * TZ) * C * Dw.
Proof.
  intros Nw Dw TZ cu D C M N E1 E2.
  transitivity (Nw * TZ * (C * D) - M * D * (TZ * Dw)); [ring|]. rewrite E1, <- E2. ring.
Qed.

Lemma rounds_of_rval : forall m e c s0, canon64 m e -> 0 < c ->
  rval (round_pos (fst (dec_ratio c s0)) (snd (dec_ratio c s0))) = Z.pos m * 2 ^ (e + 1074) ->
  rounds_to (S754_finite false m e) c s0 = true.
Proof.
  intros m e c s0 Hc Hcp E. apply rounds_to_pos; [assumption|].
  destruct (dec_ratio_pos c s0 Hcp) as [HNw HDw].
  unfold round_ratio. rewrite <- (pack_canon false m e Hc). apply pack_det.
  - apply round_pos_wf; assumption.
  - destruct Hc as (Hm & He & Hn). unfold wfR. cbn [fst snd]. split; [lia|]. split; [lia|]. intros. destruct Hn; lia.
  - rewrite E. reflexivity.
Qed.

Lemma cand_up : forall m e c s0 Z0, canon64 m e -> 0 < c -> 0 <= Z0 -> 0 <= s0 + Z0 ->
  let N := fst (ratio_of m e) in let D := snd (ratio_of m e) in
  let cu := c * 10 ^ (s0 + Z0) in
  N * 10 ^ Z0 <= cu * D ->
  2 * (cu * D - N * 10 ^ Z0) * 2 ^ 1074 < 2 ^ (e + 1074) * (D * 10 ^ Z0) ->
  rounds_to (S754_finite false m e) c s0 = true.
Proof.
  intros m e c s0 Z0 Hc Hcp HZ Hb N D cu Hge Hlt.
  apply rounds_of_rval; try assumption.
  destruct (dec_ratio_pos c s0 Hcp) as [HNw HDw].
  destruct (dec_ratio_scaled c s0 Z0 HZ Hb) as [_ Ew]. fold cu in Ew.
  destruct (ratio_of_pos m e) as [HN HD]. fold N in HN. fold D in HD.
  pose proof Hc as (Hm & He & Hn).
  pose proof (ratio_of_value m e ltac:(lia)) as EV. fold N D in EV.
  pose proof (pow10_pos Z0 HZ) as HT. pose proof (pow2_pos 1074 ltac:(lia)) as HC.
  assert (HY : 0 < D * 10 ^ Z0) by (apply Z.mul_pos_pos; assumption).
  pose proof (side_transfer _ _ _ _ _ _ _ _ Ew EV) as ST.
  set (Nw := fst (dec_ratio c s0)) in *. set (Dw := snd (dec_ratio c s0)) in *.
  apply round_up_side; try assumption; try lia.
  - apply (Z.mul_le_mono_pos_r _ _ (D * 10 ^ Z0) HY).
    assert (0 <= (Nw * 2 ^ 1074 - Z.pos m * 2 ^ (e + 1074) * Dw) * (D * 10 ^ Z0)).
    { rewrite ST. apply Z.mul_nonneg_nonneg; [apply Z.mul_nonneg_nonneg|]; lia. }
    lia.
  - apply (Z.mul_lt_mono_pos_r (D * 10 ^ Z0) _ _ HY).
    replace (2 * (Nw * 2 ^ 1074 - Z.pos m * 2 ^ (e + 1074) * Dw) * (D * 10 ^ Z0))
      with (2 * ((Nw * 2 ^ 1074 - Z.pos m * 2 ^ (e + 1074) * Dw) * (D * 10 ^ Z0))) by ring.
    rewrite ST.
    replace (2 * ((cu * D - N * 10 ^ Z0) * 2 ^ 1074 * Dw)) with (2 * (cu * D - N * 10 ^ Z0) * 2 ^ 1074 * Dw) by ring.
    replace (2 ^ (e + 1074) * Dw * (D * 10 ^ Z0)) with (2 ^ (e + 1074) * (D * 10 ^ Z0) * Dw) by ring.
    apply Z.mul_lt_mono_pos_r; assumption.
Qed.

Lemma cand_down : forall m e mp kp c s0 Z0, canon64 m e -> 0 < c -> 0 <= Z0 -> 0 <= s0 + Z0 ->
  0 <= mp -> 0 <= kp -> (2 ^ 52 <= mp \/ kp = 0) -> (mp + 1) * 2 ^ kp = Z.pos m * 2 ^ (e + 1074) ->
  let N := fst (ratio_of m e) in let D := snd (ratio_of m e) in
  let cu := c * 10 ^ (s0 + Z0) in
  cu * D <= N * 10 ^ Z0 ->
  2 * (N * 10 ^ Z0 - cu * D) * 2 ^ 1074 < 2 ^ kp * (D * 10 ^ Z0) ->
  rounds_to (S754_finite false m e) c s0 = true.
Proof.
  intros m e mp kp c s0 Z0 Hc Hcp HZ Hb Hmp Hkp Hcp2 Esucc N D cu Hle Hlt.
  apply rounds_of_rval; try assumption.
  destruct (dec_ratio_pos c s0 Hcp) as [HNw HDw].
  destruct (dec_ratio_scaled c s0 Z0 HZ Hb) as [_ Ew]. fold cu in Ew.
  destruct (ratio_of_pos m e) as [HN HD]. fold N in HN. fold D in HD.
  pose proof Hc as (Hm & He & Hn).
  pose proof (ratio_of_value m e ltac:(lia)) as EV. fold N D in EV.
  pose proof (pow10_pos Z0 HZ) as HT. pose proof (pow2_pos 1074 ltac:(lia)) as HC.
  assert (HY : 0 < D * 10 ^ Z0) by (apply Z.mul_pos_pos; assumption).
  pose proof (side_transfer _ _ _ _ _ _ _ _ Ew EV) as ST.
  set (Nw := fst (dec_ratio c s0)) in *. set (Dw := snd (dec_ratio c s0)) in *.
  apply (round_down_side (Z.pos m) (e + 1074) mp kp); try assumption; try lia.
  - apply (Z.mul_le_mono_pos_r _ _ (D * 10 ^ Z0) HY).
    assert ((Nw * 2 ^ 1074 - Z.pos m * 2 ^ (e + 1074) * Dw) * (D * 10 ^ Z0) <= 0).
    { rewrite ST. apply Z.mul_nonpos_nonneg; [apply Z.mul_nonpos_nonneg|]; lia. }
    lia.
  - apply (Z.mul_lt_mono_pos_r (D * 10 ^ Z0) _ _ HY).
    replace (2 * (Z.pos m * 2 ^ (e + 1074) * Dw - Nw * 2 ^ 1074) * (D * 10 ^ Z0))
      with (- (2 * ((Nw * 2 ^ 1074 - Z.pos m * 2 ^ (e + 1074) * Dw) * (D * 10 ^ Z0)))) by ring.
    rewrite ST.
    replace (- (2 * ((cu * D - N * 10 ^ Z0) * 2 ^ 1074 * Dw))) with (2 * (N * 10 ^ Z0 - cu * D) * 2 ^ 1074 * Dw) by ring.
    replace (2 ^ kp * Dw * (D * 10 ^ Z0)) with (2 ^ kp * (D * 10 ^ Z0) * Dw) by ring.
    apply Z.mul_lt_mono_pos_r; assumption.
Qed.

(* ==== M11.v ==== *)
Lemma pick_cand_some : forall x N D pt n,
  (rounds_to x (fst (fst (fst (cands N D pt n)))) (- (n - pt)) = true \/
   rounds_to x (fst (fst (fst (cands N D pt n))) + 1) (- (n - pt)) = true) ->
  exists r, pick_cand x N D pt n = Some r.
Proof.
  intros x N D pt n H. unfold pick_cand.
  assert (Hs : snd (cands N D pt n) = n - pt).
  { unfold cands. destruct (scale10 N D (n - pt)). destruct (divmod z z0). reflexivity. }
  destruct (cands N D pt n) as [[[lo r] B] s]. cbn [fst snd] in *. subst s.
  destruct (rounds_to x lo (- (n - pt))); destruct (rounds_to x (lo + 1) (- (n - pt))); cbn [andb];
    try (eexists; reflexivity).
  destruct H; discriminate.
Qed.

Lemma shortest_from_total : forall f n x N D pt,
  (exists r, pick_cand x N D pt (n + Z.of_nat f) = Some r) ->
  exists r, shortest_from (S f) n x N D pt = Some r.
Proof.
  induction f as [|f IH]; intros n x N D pt [r H]; cbn [shortest_from].
  - rewrite Z.add_0_r in H. rewrite H. eexists; reflexivity.
  - destruct (pick_cand x N D pt n) as [r0|]; [eexists; reflexivity|].
    apply (IH (n + 1)). exists r. rewrite <- H. f_equal. lia.
Qed.

(* the predecessor of a canonical double *)
Lemma pred_pair : forall m e, canon64 m e ->
  exists mp kp g, 0 <= mp /\ 0 <= kp /\ (2 ^ 52 <= mp \/ kp = 0) /\
    (mp + 1) * 2 ^ kp = Z.pos m * 2 ^ (e + 1074) /\ g = 2 ^ kp /\
    (g = 2 ^ (e + 1074) \/ (2 * g = 2 ^ (e + 1074) /\ Z.pos m = 2 ^ 52)).
Proof.
  intros m e (Hm & He & Hn).
  destruct (Z.eq_dec (Z.pos m) (2 ^ 52)) as [E52 | N52].
  - destruct (Z.eq_dec e (-1074)) as [-> | Ne].
    + exists (Z.pos m - 1), 0, (2 ^ 0).
      split; [lia|]. split; [lia|]. split; [right; reflexivity|].
      split; [change (-1074 + 1074) with 0; ring|]. split; [reflexivity|]. left. reflexivity.
    + exists (2 ^ 53 - 1), (e + 1074 - 1), (2 ^ (e + 1074 - 1)).
      assert (E2 : 2 ^ (e + 1074) = 2 * 2 ^ (e + 1074 - 1)).
      { replace (e + 1074) with (Z.succ (e + 1074 - 1)) at 1 by lia. apply Z.pow_succ_r. lia. }
      split; [apply Z.lt_le_incl; reflexivity|]. split; [lia|]. split; [left; apply Z.lt_le_incl; reflexivity|].
      split; [rewrite E52, E2; change (2 ^ 53 - 1 + 1) with (2 * 2 ^ 52); ring|].
      split; [reflexivity|]. right. split; [lia | assumption].
  - exists (Z.pos m - 1), (e + 1074), (2 ^ (e + 1074)).
    split; [lia|]. split; [lia|]. split; [destruct Hn; [left; lia | right; lia]|].
    split; [replace (Z.pos m - 1 + 1) with (Z.pos m) by lia; reflexivity|].
    split; [reflexivity|]. left; reflexivity.
Qed.

Theorem shortest_total : forall s m e, canon64 m e -> exists r, shortest (S754_finite s m e) = Some r.
Proof.
  intros s m e Hc. unfold shortest.
  destruct (dec_pt_total m e Hc) as [pt Hpt].
  destruct (ratio_of_pos m e) as [HN HD].
  pose proof Hc as (Hm & He & Hn).
  pose proof (ratio_of_value m e ltac:(lia)) as EV.
  set (Z0 := Z.abs (17 - pt) + Z.abs pt + 18).
  pose proof (cand_up m e) as CU. pose proof (cand_down m e) as CD.
  destruct (ratio_of m e) as [N D]. cbn [fst snd] in *. rewrite Hpt.
  apply (shortest_from_total 16 1). change (1 + Z.of_nat 16) with 17.
  apply pick_cand_some.
  destruct (cands_facts N D pt 17 Z0 HN HD Hpt ltac:(lia) ltac:(lia) ltac:(lia) ltac:(lia)) as [[F1 F2] Hlo].
  set (lo := fst (fst (fst (cands N D pt 17)))) in *.
  set (b := Z0 - (17 - pt)) in *.
  destruct (dec_pt_sound N D pt Hpt) as [P1 _].
  apply (le_pow10_scaled N D (pt - 1) Z0 ltac:(lia) ltac:(lia) HD) in P1.
  assert (E16 : 10 ^ (pt - 1 + Z0) = 10 ^ 16 * 10 ^ b).
  { rewrite <- Z.pow_add_r by (unfold b; lia). f_equal. unfold b. lia. }
  rewrite E16 in P1.
  destruct (pred_pair m e Hc) as (mp & kp & g & Hmp & Hkp & Hcp & Esucc & Eg & Hgap).
  pose proof (pow10_pos b ltac:(unfold b; lia)) as HPb. pose proof (pow10_pos Z0 ltac:(lia)) as HT.
  pose proof (pow2_pos 1074 ltac:(lia)) as HC. pose proof (pow2_pos (e + 1074) ltac:(lia)) as HK.
  pose proof (pow2_pos kp Hkp) as HG.
  assert (Hlopos : 0 < lo) by (pose proof (pow10_pos 16 ltac:(lia)); change (17 - 1) with 16 in Hlo; lia).
  assert (Hu : 0 < 10 ^ b * D) by (apply Z.mul_pos_pos; assumption).
  assert (Hg : 0 < g) by (subst g; assumption).
  assert (HL : lo * (10 ^ b * D) <= N * 10 ^ Z0 < (lo + 1) * (10 ^ b * D)).
  { split.
    - replace (lo * (10 ^ b * D)) with (lo * 10 ^ b * D) by ring. exact F1.
    - replace ((lo + 1) * (10 ^ b * D)) with ((lo + 1) * 10 ^ b * D) by ring. exact F2. }
  assert (H16 : 10 ^ 16 * (10 ^ b * D) <= N * 10 ^ Z0).
  { replace (10 ^ 16 * (10 ^ b * D)) with (10 ^ 16 * 10 ^ b * D) by ring. exact P1. }
  assert (EX : N * 10 ^ Z0 * 2 ^ 1074 = Z.pos m * 2 ^ (e + 1074) * (D * 10 ^ Z0)).
  { transitivity (N * 2 ^ 1074 * 10 ^ Z0); [ring|]. rewrite EV. ring. }
  assert (Hm' : 0 < Z.pos m < 2 ^ 53) by lia.
  destruct (total_arith (N * 10 ^ Z0) (10 ^ b * D) lo (2 ^ 1074) D (10 ^ Z0)
              (Z.pos m * 2 ^ (e + 1074)) (2 ^ (e + 1074)) g (Z.pos m)
              Hu HC HD HT HK Hg HL H16 EX eq_refl Hm' Hgap) as [A | A].
  - right. apply (CU (lo + 1) (- (17 - pt)) Z0 Hc ltac:(lia) ltac:(lia) ltac:(lia)); cbn zeta;
      replace (- (17 - pt) + Z0) with b by (unfold b; lia).
    + lia.
    + replace ((lo + 1) * 10 ^ b * D) with ((lo + 1) * (10 ^ b * D)) by ring. exact A.
  - left. subst g.
    apply (CD mp kp lo (- (17 - pt)) Z0 Hc Hlopos ltac:(lia) ltac:(lia) Hmp Hkp Hcp Esucc); cbn zeta;
      replace (- (17 - pt) + Z0) with b by (unfold b; lia).
    + lia.
    + replace (lo * 10 ^ b * D) with (lo * (10 ^ b * D)) by ring. exact A.
Qed.

