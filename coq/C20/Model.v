(* C20 — RegExp glue of goja: position maps, lastIndex protocol, drivers (fast and generic path),
   result validator, flag validity.  Executable definitions only.

   Sources transcribed: /repo/regexp.go (buildUTF8PosMap, positionMap.get, buildPosMap,
   regexpObject.execRegexp/getLastIndex, regexpWrapper.findAllSubmatchIndex,
   regexp2Wrapper.findAllSubmatchIndexUTF16/Unicode, regexpPattern.findAllSubmatchIndex),
   /repo/builtin_regexp.go (compileRegexp flag loop, advanceStringIndex, getGlobalRegexpMatches,
   stdMatcher(+Generic), stdSearch(+Generic), stdReplacer(+Generic), stdSplitter(+Generic)),
   /repo/builtin_string.go (stringReplace), Go regexp.Regexp.allMatches, regexp2 Runner.scan. *)
From Coq Require Import List ZArith NArith Bool Lia.
Import ListNotations.
Open Scope Z_scope.

(* ------------------------------------------------------------------------------------------- *)
(** * 1. Strings as UTF-16 code units *)

Definition str := list N.
Definition slen (s : str) : Z := Z.of_nat (length s).
Definition slice (s : str) (a b : Z) : str := firstn (Z.to_nat (b - a)) (skipn (Z.to_nat a) s).
Definition unit_at (s : str) (i : Z) : option N := if i <? 0 then None else nth_error s (Z.to_nat i).

Definition is_hi (c : N) : bool := (55296 <=? c)%N && (c <=? 56319)%N.   (* D800..DBFF *)
Definition is_lo (c : N) : bool := (56320 <=? c)%N && (c <=? 57343)%N.   (* DC00..DFFF *)
Definition is_surr (c : N) : bool := (55296 <=? c)%N && (c <=? 57343)%N.
Definition pair_rune (h l : N) : N := (65536 + (h - 55296) * 1024 + (l - 56320))%N.

(* code points with their UTF-16 width — the specification's StringToCodePoints, which is also
   goja's lenientUtf16Decoder: a lone surrogate is a code point of its own *)
Fixpoint decode_lenient (s : str) : list (N * Z) :=
  match s with
  | [] => []
  | c :: t =>
      match t with
      | d :: t' => if is_hi c && is_lo d then (pair_rune c d, 2) :: decode_lenient t'
                   else (c, 1) :: decode_lenient t
      | [] => [(c, 1)]
      end
  end.

(* unicodeString.Reader(): the strict reader; an error (None) on any lone surrogate *)
Fixpoint decode_strict (s : str) : option (list (N * Z)) :=
  match s with
  | [] => Some []
  | c :: t =>
      if is_hi c then
        match t with
        | d :: t' => if is_lo d then option_map (cons (pair_rune c d, 2)) (decode_strict t') else None
        | [] => None
        end
      else if is_lo c then None
      else option_map (cons (c, 1)) (decode_strict t)
  end.

Definition has_lone_surrogate (s : str) : bool :=
  existsb (fun x => is_surr (fst x)) (decode_lenient s).

(* i is a code-point boundary of s: not between the two halves of a surrogate pair *)
Definition is_boundary (s : str) (i : Z) : bool :=
  (0 <=? i) && (i <=? slen s) &&
  negb (match unit_at s (i - 1), unit_at s i with
        | Some a, Some b => is_hi a && is_lo b
        | _, _ => false
        end).

(* UTF-8 as Go's strings.Builder.WriteRune produces it *)
Definition utf8_len (r : N) : Z :=
  if (r <? 128)%N then 1 else if (r <? 2048)%N then 2 else if (r <? 65536)%N then 3 else 4.
Definition utf8_enc (r : N) : list N :=
  if (r <? 128)%N then [r]
  else if (r <? 2048)%N then [192 + r / 64; 128 + r mod 64]%N
  else if (r <? 65536)%N then [224 + r / 4096; 128 + (r / 64) mod 64; 128 + r mod 64]%N
  else [240 + r / 262144; 128 + (r / 4096) mod 64; 128 + (r / 64) mod 64; 128 + r mod 64]%N.

(* offsets of the k-th code-point boundary (the specification side of posmap_correct) *)
Fixpoint utf16_off (cps : list (N * Z)) (k : nat) : Z :=
  match k, cps with
  | S k', (_, sz) :: t => sz + utf16_off t k'
  | _, _ => 0
  end.
Fixpoint utf8_off (cps : list (N * Z)) (k : nat) : Z :=
  match k, cps with
  | S k', (r, _) :: t => utf8_len r + utf8_off t k'
  | _, _ => 0
  end.

(** ** buildUTF8PosMap / positionMap.get (RE2 route for /u on non-ASCII subjects) *)
Fixpoint posmap_go (cps : list (N * Z)) (sPos u8Pos : Z) : list (Z * Z) :=
  match cps with
  | [] => []
  | (r, sz) :: t =>
      let sPos' := sPos + sz in
      let u8' := u8Pos + utf8_len r in
      (u8', sPos') :: posmap_go t sPos' u8'
  end.

Definition build_utf8_posmap (s : str) : option (list (Z * Z) * list N) :=
  match decode_strict s with
  | None => None                                   (* "invalid UTF-16, bailing out" *)
  | Some cps => Some (posmap_go cps 0 0, flat_map (fun x => utf8_enc (fst x)) cps)
  end.

(* sort.Search finds the first item with src >= wanted; None models the panic("index not found") *)
Definition pm_get (m : list (Z * Z)) (src : Z) : option Z :=
  if src <=? 0 then Some src
  else match find (fun it => src <=? fst it) m with
       | Some (a, b) => if a =? src then Some b else None
       | None => None
       end.

(** ** buildPosMap (regexp2 route under /u, and RE2 single match under /u): rune index -> UTF-16 offset *)
Fixpoint posmap16_go (cps : list (N * Z)) (cur : Z) : list Z :=
  match cps with
  | [] => [cur]
  | (_, sz) :: t => cur :: posmap16_go t (cur + sz)
  end.
Definition build_posmap16 (s : str) : list Z := posmap16_go (decode_lenient s) 0.

(* mappedStart, splitPair *)
Fixpoint mapped_start_go (cps : list (N * Z)) (cur n start : Z) : Z * bool :=
  if cur =? start then (n, false)
  else if start <? cur then (n - 1, true)
  else match cps with
       | [] => (0, false)
       | (_, sz) :: t => mapped_start_go t (cur + sz) (n + 1) start
       end.
Definition mapped_start (s : str) (start : Z) : Z * bool := mapped_start_go (decode_lenient s) 0 0 start.

(* ------------------------------------------------------------------------------------------- *)
(** * 2. AdvanceStringIndex *)

(* goja: advanceStringIndex / advanceStringIndex64 *)
Definition advance (s : str) (pos : Z) (u : bool) : Z :=
  let next := pos + 1 in
  if negb u then next
  else if slen s <=? next then next
  else match unit_at s pos with
       | Some a =>
           if negb (is_hi a) then next
           else match unit_at s next with
                | Some b => if negb (is_lo b) then next else next + 1
                | None => next
                end
       | None => next
       end.

(* ECMA-262 AdvanceStringIndex via CodePointAt *)
Definition code_unit_count_at (s : str) (pos : Z) : Z :=
  match unit_at s pos, unit_at s (pos + 1) with
  | Some a, Some b => if is_hi a && is_lo b then 2 else 1
  | _, _ => 1
  end.
Definition advance_spec (s : str) (pos : Z) (u : bool) : Z :=
  if negb u then pos + 1
  else if slen s <=? pos + 1 then pos + 1
  else pos + code_unit_count_at s pos.

(* ------------------------------------------------------------------------------------------- *)
(** * 3. Flags *)

Record flags := mkFlags { fg : bool; fi : bool; fm : bool; fs : bool; fu : bool; fy : bool }.

Definition ch_g : N := 103. Definition ch_i : N := 105. Definition ch_m : N := 109.
Definition ch_s : N := 115. Definition ch_u : N := 117. Definition ch_y : N := 121.
(* the flags goja supports on this tree: no d (hasIndices), no v (unicodeSets) *)
Definition supported_flags : list N := [ch_g; ch_i; ch_m; ch_s; ch_u; ch_y].

Fixpoint nodupb (l : list N) : bool :=
  match l with
  | [] => true
  | x :: t => negb (existsb (N.eqb x) t) && nodupb t
  end.

(* S: a flag string is valid iff it is a duplicate-free selection of supported flags *)
Definition valid_flags (l : list N) : bool :=
  forallb (fun c => existsb (N.eqb c) supported_flags) l && nodupb l.

(* I: the loop of compileRegexp on this tree.  [None] = SyntaxError.  (Since commit a2c2456 the
   'u' arm returns like the others; before, a repeated u was accepted: F15, fixed.) *)
Fixpoint goja_flags_loop (l : list N) (f : flags) : option flags :=
  match l with
  | [] => Some f
  | c :: t =>
      if N.eqb c ch_g then if fg f then None else goja_flags_loop t (mkFlags true (fi f) (fm f) (fs f) (fu f) (fy f))
      else if N.eqb c ch_m then if fm f then None else goja_flags_loop t (mkFlags (fg f) (fi f) true (fs f) (fu f) (fy f))
      else if N.eqb c ch_s then if fs f then None else goja_flags_loop t (mkFlags (fg f) (fi f) (fm f) true (fu f) (fy f))
      else if N.eqb c ch_i then if fi f then None else goja_flags_loop t (mkFlags (fg f) true (fm f) (fs f) (fu f) (fy f))
      else if N.eqb c ch_y then if fy f then None else goja_flags_loop t (mkFlags (fg f) (fi f) (fm f) (fs f) (fu f) true)
      else if N.eqb c ch_u then if fu f then None else goja_flags_loop t (mkFlags (fg f) (fi f) (fm f) (fs f) true (fy f))
      else None
  end.
Definition no_flags := mkFlags false false false false false false.
Definition goja_accepts_flags (l : list N) : bool :=
  match goja_flags_loop l no_flags with Some _ => true | None => false end.

(* ------------------------------------------------------------------------------------------- *)
(** * 4. Match records and the validator *)

(* one engine result: [ms,me) = overall match in UTF-16 units; captures as exposed to scripts
   (index 0 = the match); the named groups object (None = undefined); optionally the raw capture
   ranges ([] when not available) *)
Record mres := mkM {
  ms : Z; me : Z;
  mcaps : list (option str);
  mgroups : option (list (str * option str));
  mrng : list (option (Z * Z)) }.

Definition cap0 (m : mres) : str := match mcaps m with Some x :: _ => x | _ => [] end.

Fixpoint str_eqb (a b : str) : bool :=
  match a, b with
  | [], [] => true
  | x :: a', y :: b' => N.eqb x y && str_eqb a' b'
  | _, _ => false
  end.
Definition ostr_eqb (a b : option str) : bool :=
  match a, b with Some x, Some y => str_eqb x y | None, None => true | _, _ => false end.

(* is c a contiguous piece of s inside [lo,hi], starting at some position >= from that is a
   code-point boundary when u?  (search over start positions, fuelled by the window width) *)
Fixpoint occurs_from (u : bool) (s c : str) (hi : Z) (n : nat) (a : Z) : bool :=
  let ok := (a + slen c <=? hi) && str_eqb (slice s a (a + slen c)) c &&
            (negb u || (is_boundary s a && is_boundary s (a + slen c))) in
  match n with
  | O => ok
  | S n' => ok || occurs_from u s c hi n' (a + 1)
  end.
Definition occurs_in (u : bool) (s c : str) (lo hi : Z) : bool :=
  occurs_from u s c hi (Z.to_nat (hi - lo)) lo.

Definition rng_ok (u : bool) (s : str) (lo hi : Z) (c : option str) (r : option (Z * Z)) : bool :=
  match c with
  | None => true
  | Some x => match r with
              | Some (a, b) => (lo <=? a) && (a <=? b) && (b <=? hi) && str_eqb (slice s a b) x &&
                               (negb u || (is_boundary s a && is_boundary s b))
              | None => false
              end
  end.
Fixpoint rngs_ok (u : bool) (s : str) (lo hi : Z) (cs : list (option str)) (rs : list (option (Z * Z))) : bool :=
  match cs, rs with
  | [], [] => true
  | c :: cs', r :: rs' => rng_ok u s lo hi c r && rngs_ok u s lo hi cs' rs'
  | _, _ => false
  end.

Definition nth_cap (cs : list (option str)) (k : N) : option str := nth (N.to_nat k) cs None.

(* names : capture number -> group name, in pattern order *)
Definition groups_ok (names : list (N * str)) (cs : list (option str)) (g : option (list (str * option str))) : bool :=
  match names, g with
  | [], None => true
  | _ :: _, Some l =>
      (length l =? length names)%nat &&
      forallb (fun p => match p with
                        | ((k, nm), (nm', v)) => str_eqb nm nm' && ostr_eqb v (nth_cap cs k)
                        end) (combine names l)
  | _, _ => false
  end.

(* THE VALIDATOR.  start = the position the search was started from (lastIndex), ncap = number
   of capture groups of the pattern, names = its named groups. *)
Definition match_wf (u : bool) (ncap : N) (names : list (N * str)) (s : str) (start : Z) (m : mres) : bool :=
  (0 <=? start) && (0 <=? ms m) &&
  ((start <=? ms m) || (u && negb (is_boundary s start) && (ms m =? start - 1))) &&   (* under u a start inside a pair backs up to the pair *)
  (ms m <=? me m) && (me m <=? slen s) &&
  (negb u || (is_boundary s (ms m) && is_boundary s (me m))) &&
  (length (mcaps m) =? S (N.to_nat ncap))%nat &&
  ostr_eqb (nth_cap (mcaps m) 0) (Some (slice s (ms m) (me m))) &&
  forallb (fun c => match c with None => true | Some x => occurs_in u s x (ms m) (me m) end) (mcaps m) &&
  groups_ok names (mcaps m) (mgroups m) &&
  match mrng m with
  | [] => true
  | rs => rngs_ok u s (ms m) (me m) (mcaps m) rs &&
          match rs with Some (a, b) :: _ => (a =? ms m) && (b =? me m) | _ => false end
  end.

(* ------------------------------------------------------------------------------------------- *)
(** * 5. The lastIndex protocol and the drivers, over an ABSTRACT engine *)

Definition to_length (z : Z) : Z := Z.max 0 z.     (* ToLength on the integers used here *)

Inductive engine := RE2 | RX2.

(* results of the drivers, as scripts see them *)
Inductive res :=
| RNull
| RM (m : mres)                     (* exec-style array *)
| RB (b : bool)
| RL (l : list (option str))        (* match with g / split *)
| RAll (l : list mres)              (* matchAll *)
| RS (x : str)                      (* replace *)
| RZ (z : Z).                       (* search *)

Section Protocol.
  (* the engine: leftmost match of the pattern in s found when scanning from position p
     (0 <= p <= |s|); engines are external code *)
  Variable find : str -> Z -> option mres.
  Variable fl : flags.
  Variable rep : mres -> str.        (* what a match is replaced with *)
  Variable s : str.

  Let gy := fg fl || fy fl.
  Definition loop_fuel : nat := S (S (length s)).

  (** regexpObject.execRegexp (= RegExpBuiltinExec): result and new lastIndex *)
  Definition exec_core (li : Z) : option mres * Z :=
    let index := if gy then to_length li else 0 in
    let r := if index <=? slen s then find s index else None in
    let r' := match r with
              | Some m => if fy fl && negb (ms m =? index) then None else Some m
              | None => None
              end in
    (r', if gy then match r' with Some m => me m | None => 0 end else li).

  Definition js_exec (li : Z) : res * Z :=
    let '(r, li') := exec_core li in (match r with Some m => RM m | None => RNull end, li').
  Definition js_test (li : Z) : res * Z :=
    let '(r, li') := exec_core li in (RB (match r with Some _ => true | None => false end), li').

  (** getGlobalRegexpMatches (after lastIndex := 0): the exec loop with the empty-match advance.
      Returns the matches, the final lastIndex, and whether the loop ended by itself. *)
  Fixpoint g_loop (fuel : nat) (li : Z) : list mres * Z * bool :=
    match fuel with
    | O => ([], li, false)
    | S f =>
        match exec_core li with
        | (None, li') => ([], li', true)
        | (Some m, li') =>
            let li'' := if (length (cap0 m) =? 0)%nat then advance s (to_length li') (fu fl) else li' in
            let '(l, lf, ok) := g_loop f li'' in (m :: l, lf, ok)
        end
    end.
  Definition g_matches : list mres * Z :=
    let '(l, lf, _) := g_loop loop_fuel 0 in (l, lf).

  (** engine "find all" primitives as goja drives them *)
  (* regexp2Wrapper.findAllSubmatchIndexUTF16 / ...Unicode + regexp2 FindNextMatch: after an empty
     match the scan position moves one rune on (nil at the end of input).  Both variants count
     [limit] down (99d84e8) and the sticky filter expects the next match where the scan resumes,
     i.e. one rune after an empty match (4fe706d). *)
  Fixpoint rx2_all (fuel : nat) (pos stpos limit : Z) (sticky : bool) : list mres :=
    match fuel with
    | O => []
    | S f =>
        if (pos <? 0) || (slen s <? pos) then []
        else match find s pos with
             | None => []
             | Some m =>
                 if sticky && negb (ms m =? stpos) then []
                 else
                   let next := if me m =? ms m then advance s (me m) (fu fl) else me m in
                   let stpos' := if sticky then next else stpos in
                   let limit' := limit - 1 in
                   if limit' <=? 0 then [m]
                   else if (me m =? ms m) && (me m =? slen s) then [m]
                   else m :: rx2_all f next stpos' limit' sticky
             end
    end.

  (* Go regexp.Regexp.allMatches as used by FindAllStringSubmatchIndex(s, n): an empty match
     directly after the previous match is not delivered *)
  Fixpoint re2_all (fuel : nat) (pos prev n : Z) : list mres :=
    match fuel with
    | O => []
    | S f =>
        if (n <=? 0) || (slen s <? pos) then []
        else match find s pos with
             | None => []
             | Some m =>
                 let accept := negb ((me m =? pos) && (ms m =? prev)) in
                 let pos' := if me m =? pos then advance s pos true else me m in
                 if accept then m :: re2_all f pos' (me m) (n - 1) else re2_all f pos' (me m) n
             end
    end.
  (* regexpWrapper.findAllSubmatchIndex: the sticky filter over the finished list; after an empty
     match the next one is expected one character further on (4fe706d) *)
  Fixpoint sticky_prefix (l : list mres) (pos : Z) : list mres :=
    match l with
    | [] => []
    | m :: t => if ms m =? pos
                then m :: sticky_prefix t (if me m =? ms m then advance s (me m) true else me m)
                else []
    end.

  Definition is_ascii (x : str) : bool := forallb (fun c => (c <? 128)%N) x.
  Definition all_fuel : nat := S (S (S (length s))).

  (** regexpPattern.findAllSubmatchIndex(s, start, limit, sticky); [e] = the engine the pattern was
      compiled for (RE2 when the translation succeeded) *)
  Definition find_all (e : engine) (start limit : Z) (sticky : bool) : list mres :=
    let rx2 :=
      let limit' := if limit <? 0 then slen s + 1 else limit in
      rx2_all all_fuel start start limit' sticky in
    match e with
    | RX2 => rx2
    | RE2 =>
        if start =? 0 then
          let n := if limit <? 0 then slen s + 1 else limit in
          if is_ascii s then
            let l := re2_all all_fuel 0 (-1) n in if sticky then sticky_prefix l 0 else l
          else if limit =? 1 then
            match find s 0 with                                     (* sticky: must start at 0 (99d84e8) *)
            | Some m => if sticky && negb (ms m =? 0) then [] else [m]
            | None => []
            end
          else if fu fl && negb (has_lone_surrogate s) then
            let l := re2_all all_fuel 0 (-1) n in if sticky then sticky_prefix l 0 else l
          else rx2
        else rx2
    end.

  (** String.prototype.match -> RegExp.prototype[Symbol.match] *)
  Definition match_generic (li : Z) : res * Z :=
    if fg fl then
      let '(l, lf) := g_matches in
      (match l with [] => RNull | _ => RL (map (fun m => Some (cap0 m)) l) end, lf)
    else js_exec li.

  Definition match_fast (e : engine) (li : Z) : res * Z :=
    if fg fl then
      let l := find_all e 0 (-1) (fy fl) in
      (match l with [] => RNull | _ => RL (map (fun m => Some (slice s (ms m) (me m))) l) end, 0)
    else js_exec li.

  (** search: lastIndex saved, zeroed, restored *)
  Definition search_generic (li : Z) : res * Z :=
    let previous := li in
    let li1 := if previous =? 0 then li else 0 in
    let '(r, li2) := exec_core li1 in
    let li3 := if li2 =? previous then li2 else previous in
    (RZ (match r with Some m => ms m | None => -1 end), li3).

  Definition search_fast (li : Z) : res * Z :=
    let previous := li in
    let '(r, _) := exec_core 0 in
    (RZ (match r with Some m => ms m | None => -1 end), previous).

  (** replace *)
  (* the assembly loop of stdReplacerGeneric *)
  Fixpoint assemble_generic (l : list mres) (nextpos : Z) (buf : str) : str :=
    match l with
    | [] => if nextpos <? slen s then buf ++ slice s nextpos (slen s) else buf
    | m :: t =>
        let position := Z.max (Z.min (ms m) (slen s)) 0 in
        if nextpos <=? position then
          assemble_generic t (position + Z.of_nat (length (cap0 m))) (buf ++ slice s nextpos position ++ rep m)
        else assemble_generic t nextpos buf
    end.
  Definition replace_generic (li : Z) : res * Z :=
    let '(l, lf) :=
      if fg fl then g_matches
      else match exec_core li with (Some m, li') => ([m], li') | (None, li') => ([], li') end in
    (RS (assemble_generic l 0 []), lf).

  (* stringReplace *)
  Fixpoint assemble_fast (l : list mres) (last : Z) (buf : str) : str :=
    match l with
    | [] => if last =? slen s then buf else buf ++ slice s last (slen s)
    | m :: t =>
        let buf1 := if ms m =? last then buf else buf ++ slice s last (ms m) in
        assemble_fast t (me m) (buf1 ++ rep m)
    end.
  Definition replace_fast (e : engine) (li : Z) : res * Z :=
    let index := if fg fl then 0 else (if gy then to_length li else 0) in
    let lim := if fg fl then -1 else 1 in
    (* lastIndex > length is a failure, as in RegExpBuiltinExec (a3eeab9) *)
    let found := if index <=? slen s then find_all e index lim (fy fl) else [] in
    let li' := if gy then (if negb (fg fl) then match last (map Some found) None with Some m => me m | None => 0 end else 0)
               else li in
    (RS (match found with [] => s | _ => assemble_fast found 0 [] end), li').

  (** split.  The splitter is a fresh RegExp (flags + y for the generic path); the receiver's
      lastIndex is untouched.  lim = None: no limit. *)
  Definition sticky_at (q : Z) : option mres :=
    match (if q <=? slen s then find s q else None) with
    | Some m => if ms m =? q then Some m else None
    | None => None
    end.

  Definition take_lim {A} (lim : option Z) (l : list A) : list A :=
    match lim with None => l | Some k => firstn (Z.to_nat k) l end.

  (* the loop of stdSplitterGeneric; a = accumulated output (reversed pieces are avoided: we
     accumulate in order and cut at the limit at the end, which is equivalent because the
     implementation returns as soon as len(a) = lim) *)
  Definition split_fuel : nat := S (S (S (length s + length s))).
  Fixpoint split_loop (fuel : nat) (p q : Z) : list (option str) :=
    match fuel with
    | O => [Some (slice s p (slen s))]
    | S f =>
        if slen s <=? q then [Some (slice s p (slen s))]
        else match sticky_at q with
             | None => split_loop f p (advance s q (fu fl))
             | Some m =>
                 let e := Z.min (me m) (slen s) in
                 if e =? p then split_loop f p (advance s q (fu fl))
                 else Some (slice s p q) :: tl (mcaps m) ++ split_loop f e e
             end
    end.
  Definition split_generic (lim : option Z) : res :=
    match lim with
    | Some 0 => RL []
    | _ =>
        if slen s =? 0 then
          RL (match sticky_at 0 with None => [Some s] | Some _ => [] end)
        else RL (take_lim lim (split_loop split_fuel 0 0))
    end.

  (* the loop of stdSplitter over the result list of findAll(s, 0, -1, false) *)
  Fixpoint split_fast_loop (l : list mres) (last : Z) : list (option str) :=
    match l with
    | [] => [Some (if last =? slen s then [] else slice s last (slen s))]
    | m :: t =>
        (* an empty match at the start, at the end or right after the previous match does not split (811a68b) *)
        if (ms m =? me m) && ((ms m =? last) || (ms m =? slen s)) then split_fast_loop t last
        else Some (if last =? ms m then [] else slice s last (ms m)) :: tl (mcaps m) ++ split_fast_loop t (me m)
    end.
  Definition split_fast (e : engine) (lim : option Z) : res :=
    match lim with
    | Some 0 => RL []
    | _ =>
        let l := find_all e 0 (-1) false in
        if slen s =? 0 then RL (match l with [] => [Some s] | _ => [] end)
        else RL (take_lim lim (split_fast_loop l 0))
    end.

  (** matchAll: a clone with lastIndex copied; the receiver is untouched *)
  Fixpoint matchall_loop (fuel : nat) (li : Z) : list mres :=
    match fuel with
    | O => []
    | S f =>
        match exec_core li with
        | (None, _) => []
        | (Some m, li') =>
            if negb (fg fl) then [m]
            else
              let li'' := if (length (cap0 m) =? 0)%nat then advance s (to_length li') (fu fl) else li' in
              m :: matchall_loop f li''
        end
    end.
  Definition matchall (li : Z) : res := RAll (matchall_loop loop_fuel (to_length li)).

End Protocol.
