(* C20 — lemmas about the RegExp glue model. *)
From Coq Require Import List ZArith NArith Bool Lia.
Import ListNotations.
From Verif.C20 Require Import Model.
Open Scope Z_scope.

(** * AdvanceStringIndex *)
Lemma advance_spec_eq : forall s pos u, advance s pos u = advance_spec s pos u.
Proof.
  intros s pos u. unfold advance, advance_spec, code_unit_count_at.
  destruct u; simpl; [|reflexivity].
  destruct (slen s <=? pos + 1) eqn:E; [reflexivity|].
  destruct (unit_at s pos) as [a|]; [|lia].
  destruct (is_hi a); simpl.
  - destruct (unit_at s (pos + 1)) as [b|]; [|lia]. destruct (is_lo b); simpl; lia.
  - destruct (unit_at s (pos + 1)); lia.
Qed.

Lemma advance_bounds : forall s pos u, pos < advance s pos u <= pos + 2.
Proof.
  intros s pos u. unfold advance. destruct u; simpl; [|lia].
  destruct (slen s <=? pos + 1); [lia|].
  destruct (unit_at s pos) as [a|]; [|lia].
  destruct (is_hi a); simpl; [|lia].
  destruct (unit_at s (pos + 1)) as [b|]; [|lia]. destruct (is_lo b); simpl; lia.
Qed.

Lemma advance_nonu : forall s pos, advance s pos false = pos + 1.
Proof. reflexivity. Qed.

(* under u a surrogate pair is skipped as a whole *)
Lemma advance_skips_pair : forall s pos a b,
  unit_at s pos = Some a -> unit_at s (pos + 1) = Some b -> is_hi a = true -> is_lo b = true ->
  pos + 1 < slen s -> advance s pos true = pos + 2.
Proof.
  intros s pos a b Ha Hb Hh Hl Hlen. unfold advance. simpl.
  destruct (slen s <=? pos + 1) eqn:E; [lia|].
  rewrite Ha, Hh. simpl. rewrite Hb, Hl. simpl. lia.
Qed.

(** * Flags *)
Lemma existsb_eqb_In : forall c l, existsb (N.eqb c) l = true <-> In c l.
Proof.
  intros c l. rewrite existsb_exists. split.
  - intros [x [Hin He]]. apply N.eqb_eq in He. subst. exact Hin.
  - intro H. exists c. split; [exact H|apply N.eqb_refl].
Qed.

Lemma nodupb_NoDup : forall l, nodupb l = true <-> NoDup l.
Proof.
  induction l as [|x t IH]; simpl.
  - split; [constructor|reflexivity].
  - rewrite andb_true_iff, negb_true_iff, IH. split.
    + intros [H1 H2]. constructor; [|exact H2]. intro Hin. apply existsb_eqb_In in Hin. congruence.
    + intro H. inversion H; subst. split; [|assumption].
      destruct (existsb (N.eqb x) t) eqn:E; [|reflexivity]. apply existsb_eqb_In in E. contradiction.
Qed.

Lemma valid_flags_spec : forall l,
  valid_flags l = true <-> (NoDup l /\ forall c, In c l -> In c supported_flags).
Proof.
  intro l. unfold valid_flags. rewrite andb_true_iff, forallb_forall, nodupb_NoDup. split.
  - intros [H1 H2]. split; [exact H2|]. intros c Hc. apply existsb_eqb_In. apply H1. exact Hc.
  - intros [H1 H2]. split; [|exact H1]. intros c Hc. apply existsb_eqb_In. apply H2. exact Hc.
Qed.

(* the (repaired) flag loop of compileRegexp IS the specification predicate *)
Definition seen (f : flags) (c : N) : bool :=
  if N.eqb c ch_g then fg f else if N.eqb c ch_m then fm f else if N.eqb c ch_s then fs f
  else if N.eqb c ch_i then fi f else if N.eqb c ch_y then fy f else if N.eqb c ch_u then fu f else false.
Definition okc (f : flags) (c : N) : bool := existsb (N.eqb c) supported_flags && negb (seen f c).
Definition ok_from (f : flags) (l : list N) : bool := forallb (okc f) l && nodupb l.
Definition accepts (o : option flags) : bool := match o with Some _ => true | None => false end.

Ltac kill_eqb :=
  repeat match goal with
  | H : N.eqb _ _ = true |- _ => apply N.eqb_eq in H; subst
  end; try discriminate.

Ltac split_eqb c :=
  destruct (N.eqb c ch_g) eqn:?; destruct (N.eqb c ch_m) eqn:?; destruct (N.eqb c ch_s) eqn:?;
  destruct (N.eqb c ch_i) eqn:?; destruct (N.eqb c ch_y) eqn:?; destruct (N.eqb c ch_u) eqn:?;
  kill_eqb.

(* setting the flag of character d (d one of the six) removes exactly d from the admissible characters *)
Lemma okc_after : forall f f' d,
  (forall c, seen f' c = seen f c || N.eqb d c) ->
  forall t, forallb (okc f') t = forallb (okc f) t && negb (existsb (N.eqb d) t).
Proof.
  intros f f' d H t. induction t as [|c t IH]; simpl; [reflexivity|].
  rewrite IH.
  assert (E : okc f' c = okc f c && negb (N.eqb d c)).
  { unfold okc. rewrite H.
    destruct (existsb (N.eqb c) supported_flags); destruct (seen f c); destruct (N.eqb d c); reflexivity. }
  rewrite E.
  destruct (okc f c); destruct (N.eqb d c); destruct (forallb (okc f) t); destruct (existsb (N.eqb d) t); reflexivity.
Qed.

Lemma goja_loop_ok : forall l f, accepts (goja_flags_loop l f) = ok_from f l.
Proof.
  induction l as [|c t IH]; intro f; [reflexivity|].
  unfold ok_from. simpl forallb. simpl nodupb. simpl goja_flags_loop.
  unfold okc at 1. unfold seen at 1. unfold supported_flags. simpl existsb.
  split_eqb c; simpl.
  - (* g *) destruct (fg f) eqn:Ef; simpl; [reflexivity|]. rewrite IH. unfold ok_from.
    rewrite (okc_after f _ ch_g).
    + destruct (forallb (okc f) t); destruct (existsb (N.eqb ch_g) t); destruct (nodupb t); reflexivity.
    + intro c. rewrite (N.eqb_sym ch_g c). unfold seen. simpl. split_eqb c; simpl; rewrite ?Ef, ?orb_false_r; reflexivity.
  - (* m *) destruct (fm f) eqn:Ef; simpl; [reflexivity|]. rewrite IH. unfold ok_from.
    rewrite (okc_after f _ ch_m).
    + destruct (forallb (okc f) t); destruct (existsb (N.eqb ch_m) t); destruct (nodupb t); reflexivity.
    + intro c. rewrite (N.eqb_sym ch_m c). unfold seen. simpl. split_eqb c; simpl; rewrite ?Ef, ?orb_false_r; reflexivity.
  - (* s *) destruct (fs f) eqn:Ef; simpl; [reflexivity|]. rewrite IH. unfold ok_from.
    rewrite (okc_after f _ ch_s).
    + destruct (forallb (okc f) t); destruct (existsb (N.eqb ch_s) t); destruct (nodupb t); reflexivity.
    + intro c. rewrite (N.eqb_sym ch_s c). unfold seen. simpl. split_eqb c; simpl; rewrite ?Ef, ?orb_false_r; reflexivity.
  - (* i *) destruct (fi f) eqn:Ef; simpl; [reflexivity|]. rewrite IH. unfold ok_from.
    rewrite (okc_after f _ ch_i).
    + destruct (forallb (okc f) t); destruct (existsb (N.eqb ch_i) t); destruct (nodupb t); reflexivity.
    + intro c. rewrite (N.eqb_sym ch_i c). unfold seen. simpl. split_eqb c; simpl; rewrite ?Ef, ?orb_false_r; reflexivity.
  - (* y *) destruct (fy f) eqn:Ef; simpl; [reflexivity|]. rewrite IH. unfold ok_from.
    rewrite (okc_after f _ ch_y).
    + destruct (forallb (okc f) t); destruct (existsb (N.eqb ch_y) t); destruct (nodupb t); reflexivity.
    + intro c. rewrite (N.eqb_sym ch_y c). unfold seen. simpl. split_eqb c; simpl; rewrite ?Ef, ?orb_false_r; reflexivity.
  - (* u *) destruct (fu f) eqn:Ef; simpl; [reflexivity|]. rewrite IH. unfold ok_from.
    rewrite (okc_after f _ ch_u).
    + destruct (forallb (okc f) t); destruct (existsb (N.eqb ch_u) t); destruct (nodupb t); reflexivity.
    + intro c. rewrite (N.eqb_sym ch_u c). unfold seen. simpl. split_eqb c; simpl; rewrite ?Ef, ?orb_false_r; reflexivity.
  - (* unsupported character *) reflexivity.
Qed.

Lemma goja_flags_eq_valid_flags : forall l, goja_accepts_flags l = valid_flags l.
Proof.
  intro l. unfold goja_accepts_flags. change (accepts (goja_flags_loop l no_flags) = valid_flags l).
  rewrite goja_loop_ok. unfold ok_from, valid_flags. f_equal.
  induction l as [|c t IH]; [reflexivity|]. simpl. rewrite IH. f_equal.
  unfold okc, seen, no_flags. simpl.
  split_eqb c; simpl; rewrite ?andb_true_r; reflexivity.
Qed.

(** * lastIndex protocol *)
Section Protocol.
  Variable find : str -> Z -> option mres.
  Variable fl : flags.
  Variable s : str.
  Hypothesis Hwf : forall p m, 0 <= p <= slen s -> find s p = Some m ->
                               0 <= ms m /\ ms m <= me m /\ me m <= slen s.

  Lemma slen_nonneg : 0 <= slen s.
  Proof. unfold slen. lia. Qed.

  Lemma exec_lastIndex_in_bounds : forall li r li',
    exec_core find fl s li = (r, li') -> fg fl || fy fl = true -> 0 <= li' <= slen s.
  Proof.
    intros li r li' H Hgy. unfold exec_core in H. rewrite Hgy in H.
    pose proof slen_nonneg as Hs.
    destruct (to_length li <=? slen s) eqn:E.
    - destruct (find s (to_length li)) as [m|] eqn:F.
      + assert (Hb : 0 <= to_length li <= slen s) by (unfold to_length in *; lia).
        destruct (Hwf _ _ Hb F) as [H1 [H2 H3]].
        destruct (fy fl && negb (ms m =? to_length li)); inversion H; subst; lia.
      + inversion H; subst; lia.
    - inversion H; subst; lia.
  Qed.

  Lemma exec_fail_resets : forall li li',
    fg fl || fy fl = true -> exec_core find fl s li = (None, li') -> li' = 0.
  Proof.
    intros li li' Hgy H. unfold exec_core in H. rewrite Hgy in H.
    destruct (if to_length li <=? slen s then find s (to_length li) else None) as [m|].
    - destruct (fy fl && negb (ms m =? to_length li)); inversion H; reflexivity.
    - inversion H; reflexivity.
  Qed.

  Lemma exec_beyond_length : forall li,
    fg fl || fy fl = true -> slen s < li -> exec_core find fl s li = (None, 0).
  Proof.
    intros li Hgy Hl. unfold exec_core. rewrite Hgy.
    replace (to_length li <=? slen s) with false; [reflexivity|].
    symmetry. apply Z.leb_gt. unfold to_length. lia.
  Qed.

  Lemma exec_sticky_at : forall li m li',
    fy fl = true -> exec_core find fl s li = (Some m, li') -> ms m = to_length li /\ li' = me m.
  Proof.
    intros li m li' Hy H. unfold exec_core in H. rewrite Hy, orb_true_r in H. simpl in H.
    destruct (if to_length li <=? slen s then find s (to_length li) else None) as [m0|]; [|discriminate].
    destruct (ms m0 =? to_length li) eqn:E; simpl in H; [|discriminate].
    inversion H; subst. split; [apply Z.eqb_eq; exact E|reflexivity].
  Qed.

  Lemma exec_nonglobal_keeps_lastIndex : forall li,
    fg fl || fy fl = false -> snd (exec_core find fl s li) = li.
  Proof. intros li H. unfold exec_core. rewrite H. reflexivity. Qed.

  (* search: both paths return the same index and leave lastIndex as it was *)
  Lemma search_restores_lastIndex : forall li,
    snd (search_generic find fl s li) = li /\ snd (search_fast find fl s li) = li.
  Proof.
    intro li. unfold search_generic, search_fast. split.
    - destruct (exec_core find fl s (if li =? 0 then li else 0)) as [r li2]. simpl.
      destruct (li2 =? li) eqn:E; [apply Z.eqb_eq in E; exact E|reflexivity].
    - destruct (exec_core find fl s 0). reflexivity.
  Qed.

  Lemma search_paths_agree : forall li,
    search_fast find fl s li = search_generic find fl s li.
  Proof.
    intro li. unfold search_generic, search_fast.
    assert (E : (if li =? 0 then li else 0) = 0).
    { destruct (li =? 0) eqn:E; [apply Z.eqb_eq in E; exact E|reflexivity]. }
    rewrite E. destruct (exec_core find fl s 0) as [r li2].
    destruct (li2 =? li) eqn:E2; [apply Z.eqb_eq in E2; subst; reflexivity|reflexivity].
  Qed.
End Protocol.

(* ------------------------------------------------------------------------------------------- *)


(** * Validator soundness *)
Lemma str_eqb_eq : forall a b, str_eqb a b = true <-> a = b.
Proof.
  induction a as [|x a IH]; destruct b as [|y b]; simpl; split; intro H; try reflexivity; try discriminate.
  - apply andb_true_iff in H. destruct H as [H1 H2]. apply N.eqb_eq in H1. apply IH in H2. subst. reflexivity.
  - inversion H; subst. rewrite N.eqb_refl. simpl. apply IH. reflexivity.
Qed.

Lemma ostr_eqb_eq : forall a b, ostr_eqb a b = true <-> a = b.
Proof.
  intros [a|] [b|]; simpl; split; intro H; try reflexivity; try discriminate.
  - apply str_eqb_eq in H. subst. reflexivity.
  - inversion H. apply str_eqb_eq. reflexivity.
Qed.

Definition located (u : bool) (s x : str) (lo hi : Z) : Prop :=
  exists a, lo <= a /\ a + slen x <= hi /\ slice s a (a + slen x) = x /\
            (u = true -> is_boundary s a = true /\ is_boundary s (a + slen x) = true).

Lemma occurs_here_sound : forall u s c hi a,
  (a + slen c <=? hi) && str_eqb (slice s a (a + slen c)) c &&
  (negb u || (is_boundary s a && is_boundary s (a + slen c))) = true -> located u s c a hi.
Proof.
  intros u s c hi a H.
  apply andb_true_iff in H. destruct H as [H Hb]. apply andb_true_iff in H. destruct H as [H1 H2].
  apply Z.leb_le in H1. apply str_eqb_eq in H2.
  exists a. split; [lia|]. split; [exact H1|]. split; [exact H2|].
  intro Hu. subst u. simpl in Hb. apply andb_true_iff in Hb. exact Hb.
Qed.

Lemma occurs_from_sound : forall u s c hi n a,
  occurs_from u s c hi n a = true -> located u s c a hi.
Proof.
  intros u s c hi n. induction n as [|n IH]; intros a H; simpl in H.
  - apply occurs_here_sound. exact H.
  - apply orb_true_iff in H. destruct H as [H|H].
    + apply occurs_here_sound. exact H.
    + apply IH in H. destruct H as [a' [H1 H2]]. exists a'. split; [lia|exact H2].
Qed.

(* the named groups object mirrors the numbered captures *)
Definition groups_mirror (names : list (N * str)) (cs : list (option str)) (g : option (list (str * option str))) : Prop :=
  match g with
  | None => names = []
  | Some l => names <> [] /\ length l = length names /\
              forall i k nm, nth_error names i = Some (k, nm) ->
                exists v, nth_error l i = Some (nm, v) /\ v = nth_cap cs k
  end.

Lemma forallb_combine_nth : forall (A B : Type) (f : A * B -> bool) (l1 : list A) (l2 : list B) i a,
  length l2 = length l1 -> forallb f (combine l1 l2) = true -> nth_error l1 i = Some a ->
  exists b, nth_error l2 i = Some b /\ f (a, b) = true.
Proof.
  intros A B f l1. induction l1 as [|x l1 IH]; intros l2 i a Hl Hf Hn.
  - destruct i; discriminate.
  - destruct l2 as [|y l2]; [discriminate|]. simpl in Hf. apply andb_true_iff in Hf. destruct Hf as [H1 H2].
    destruct i as [|i]; simpl in *.
    + inversion Hn; subst. exists y. split; [reflexivity|exact H1].
    + apply (IH l2 i a); [lia|exact H2|exact Hn].
Qed.

Lemma groups_ok_sound : forall names cs g, groups_ok names cs g = true -> groups_mirror names cs g.
Proof.
  intros names cs g H. unfold groups_ok in H. unfold groups_mirror.
  destruct names as [|n0 names]; destruct g as [l|]; try discriminate; try reflexivity.
  apply andb_true_iff in H. destruct H as [Hl Hf]. apply Nat.eqb_eq in Hl.
  split; [discriminate|]. split; [exact Hl|].
  intros i k nm Hn.
  destruct (forallb_combine_nth _ _ _ _ _ i (k, nm) Hl Hf Hn) as [[nm' v] [Hb Hp]].
  apply andb_true_iff in Hp. destruct Hp as [Hp1 Hp2]. apply str_eqb_eq in Hp1. apply ostr_eqb_eq in Hp2. subst.
  exists (nth_cap cs k). split; [exact Hb|reflexivity].
Qed.

(* raw capture ranges agree with the capture strings *)
Definition rng_fact (u : bool) (s : str) (lo hi : Z) (c : option str) (r : option (Z * Z)) : Prop :=
  match c with
  | None => True
  | Some x => exists a b, r = Some (a, b) /\ lo <= a /\ a <= b /\ b <= hi /\ slice s a b = x /\
                          (u = true -> is_boundary s a = true /\ is_boundary s b = true)
  end.

Lemma rng_ok_sound : forall u s lo hi c r, rng_ok u s lo hi c r = true -> rng_fact u s lo hi c r.
Proof.
  intros u s lo hi [x|] r H; simpl; [|exact I]. simpl in H.
  destruct r as [[a b]|]; [|discriminate].
  apply andb_true_iff in H. destruct H as [H Hb]. apply andb_true_iff in H. destruct H as [H He].
  apply andb_true_iff in H. destruct H as [H H3]. apply andb_true_iff in H. destruct H as [H1 H2].
  apply Z.leb_le in H1. apply Z.leb_le in H2. apply Z.leb_le in H3. apply str_eqb_eq in He.
  exists a, b. split; [reflexivity|]. split; [exact H1|]. split; [exact H2|]. split; [exact H3|]. split; [exact He|].
  intro Hu. subst u. simpl in Hb. apply andb_true_iff in Hb. exact Hb.
Qed.

Lemma rngs_ok_sound : forall u s lo hi cs rs, rngs_ok u s lo hi cs rs = true -> Forall2 (rng_fact u s lo hi) cs rs.
Proof.
  intros u s lo hi cs. induction cs as [|c cs IH]; intros [|r rs] H; simpl in H; try discriminate; [constructor|].
  apply andb_true_iff in H. destruct H as [H1 H2]. constructor; [apply rng_ok_sound; exact H1|apply IH; exact H2].
Qed.

Lemma match_wf_sound : forall u ncap names s start m,
  match_wf u ncap names s start m = true ->
     0 <= start /\ 0 <= ms m /\ ms m <= me m /\ me m <= slen s
  /\ (start <= ms m \/ (u = true /\ is_boundary s start = false /\ ms m = start - 1))
  /\ (u = true -> is_boundary s (ms m) = true /\ is_boundary s (me m) = true)
  /\ length (mcaps m) = S (N.to_nat ncap)
  /\ nth_cap (mcaps m) 0 = Some (slice s (ms m) (me m))
  /\ (forall x, In (Some x) (mcaps m) -> located u s x (ms m) (me m))
  /\ groups_mirror names (mcaps m) (mgroups m)
  /\ (mrng m <> [] -> Forall2 (rng_fact u s (ms m) (me m)) (mcaps m) (mrng m) /\
                      nth_error (mrng m) 0 = Some (Some (ms m, me m))).
Proof.
  intros u ncap names s start m H. unfold match_wf in H.
  apply andb_true_iff in H. destruct H as [H Hrng].
  apply andb_true_iff in H. destruct H as [H Hgrp].
  apply andb_true_iff in H. destruct H as [H Hocc].
  apply andb_true_iff in H. destruct H as [H Hc0].
  apply andb_true_iff in H. destruct H as [H Hlen].
  apply andb_true_iff in H. destruct H as [H Hbd].
  apply andb_true_iff in H. destruct H as [H Hme].
  apply andb_true_iff in H. destruct H as [H Hmsme].
  apply andb_true_iff in H. destruct H as [H Hst].
  apply andb_true_iff in H. destruct H as [H0 Hms0].
  apply Z.leb_le in H0. apply Z.leb_le in Hms0. apply Z.leb_le in Hmsme. apply Z.leb_le in Hme.
  apply Nat.eqb_eq in Hlen. apply ostr_eqb_eq in Hc0.
  split; [exact H0|]. split; [exact Hms0|]. split; [exact Hmsme|]. split; [exact Hme|].
  split.
  { apply orb_true_iff in Hst. destruct Hst as [Hst|Hst].
    - left. apply Z.leb_le. exact Hst.
    - right. apply andb_true_iff in Hst. destruct Hst as [Hst Heq]. apply andb_true_iff in Hst. destruct Hst as [Hu Hnb].
      split; [exact Hu|]. split; [apply negb_true_iff; exact Hnb|apply Z.eqb_eq; exact Heq]. }
  split.
  { intro Hu. subst u. simpl in Hbd. apply andb_true_iff in Hbd. exact Hbd. }
  split; [exact Hlen|]. split; [exact Hc0|].
  split.
  { intros x Hin. rewrite forallb_forall in Hocc. specialize (Hocc _ Hin). simpl in Hocc.
    unfold occurs_in in Hocc. eapply occurs_from_sound. exact Hocc. }
  split; [apply groups_ok_sound; exact Hgrp|].
  intro Hne. destruct (mrng m) as [|r0 rs] eqn:Er; [congruence|].
  apply andb_true_iff in Hrng. destruct Hrng as [Hr1 Hr2]. split.
  - apply rngs_ok_sound. exact Hr1.
  - destruct r0 as [[a b]|]; [|discriminate]. apply andb_true_iff in Hr2. destruct Hr2 as [Ha Hb].
    apply Z.eqb_eq in Ha. apply Z.eqb_eq in Hb. subst. reflexivity.
Qed.

(* ------------------------------------------------------------------------------------------- *)


(** * Position maps *)
Lemma str_ind2 : forall (P : str -> Prop),
  P [] -> (forall c, P [c]) -> (forall c d t, P t -> P (d :: t) -> P (c :: d :: t)) -> forall s, P s.
Proof.
  intros P H0 H1 H2 s.
  assert (H : P s /\ forall c, P (c :: s)).
  { induction s as [|d t IH].
    - split; [exact H0|exact H1].
    - destruct IH as [IHa IHb]. split; [apply IHb|]. intro c. apply H2; [exact IHa|apply IHb]. }
  exact (proj1 H).
Qed.

Lemma is_surr_hi_lo : forall c, is_surr c = is_hi c || is_lo c.
Proof.
  intro c. unfold is_surr, is_hi, is_lo.
  destruct (55296 <=? c)%N eqn:A; destruct (c <=? 56319)%N eqn:B; destruct (56320 <=? c)%N eqn:C;
    destruct (c <=? 57343)%N eqn:D; simpl; try reflexivity;
    repeat match goal with
           | H : (_ <=? _)%N = true |- _ => apply N.leb_le in H
           | H : (_ <=? _)%N = false |- _ => apply N.leb_gt in H
           end; lia.
Qed.

Lemma pair_rune_not_surr : forall h l, is_surr (pair_rune h l) = false.
Proof.
  intros h l. unfold is_surr, pair_rune.
  apply andb_false_iff. right. apply N.leb_gt. lia.
Qed.

Lemma decode_lenient_cons2 : forall c d t,
  decode_lenient (c :: d :: t) =
  if is_hi c && is_lo d then (pair_rune c d, 2) :: decode_lenient t else (c, 1) :: decode_lenient (d :: t).
Proof. reflexivity. Qed.

Lemma has_lone_cons2 : forall c d t,
  has_lone_surrogate (c :: d :: t) =
  if is_hi c && is_lo d then has_lone_surrogate t else is_surr c || has_lone_surrogate (d :: t).
Proof.
  intros c d t. unfold has_lone_surrogate. rewrite decode_lenient_cons2.
  destruct (is_hi c && is_lo d); simpl existsb.
  - rewrite pair_rune_not_surr. reflexivity.
  - reflexivity.
Qed.

Lemma decode_strict_cons2 : forall c d t,
  decode_strict (c :: d :: t) =
  if is_hi c then (if is_lo d then option_map (cons (pair_rune c d, 2)) (decode_strict t) else None)
  else if is_lo c then None else option_map (cons (c, 1)) (decode_strict (d :: t)).
Proof. reflexivity. Qed.

Lemma decode_strict_lenient : forall s,
  has_lone_surrogate s = false -> decode_strict s = Some (decode_lenient s).
Proof.
  apply (str_ind2 (fun s => has_lone_surrogate s = false -> decode_strict s = Some (decode_lenient s))).
  - reflexivity.
  - intros c H. unfold has_lone_surrogate in H. simpl in H. rewrite orb_false_r in H.
    rewrite is_surr_hi_lo in H. apply orb_false_iff in H. destruct H as [Hh Hl].
    simpl. rewrite Hh, Hl. reflexivity.
  - intros c d t IHt IHdt H. rewrite has_lone_cons2 in H. rewrite decode_strict_cons2, decode_lenient_cons2.
    destruct (is_hi c) eqn:Hh; destruct (is_lo d) eqn:Hl; simpl in *.
    + rewrite (IHt H). reflexivity.
    + apply orb_false_iff in H. destruct H as [Hs _]. rewrite is_surr_hi_lo, Hh in Hs. discriminate.
    + apply orb_false_iff in H. destruct H as [Hs Hr]. rewrite is_surr_hi_lo, Hh in Hs. simpl in Hs.
      rewrite Hs. rewrite (IHdt Hr). reflexivity.
    + apply orb_false_iff in H. destruct H as [Hs Hr]. rewrite is_surr_hi_lo, Hh in Hs. simpl in Hs.
      rewrite Hs. rewrite (IHdt Hr). reflexivity.
Qed.

Lemma decode_strict_none : forall s, has_lone_surrogate s = true -> decode_strict s = None.
Proof.
  apply (str_ind2 (fun s => has_lone_surrogate s = true -> decode_strict s = None)).
  - discriminate.
  - intros c H. unfold has_lone_surrogate in H. simpl in H. rewrite orb_false_r in H.
    rewrite is_surr_hi_lo in H. simpl. destruct (is_hi c); [reflexivity|]. simpl in H. rewrite H. reflexivity.
  - intros c d t IHt IHdt H. rewrite has_lone_cons2 in H. rewrite decode_strict_cons2.
    destruct (is_hi c) eqn:Hh; destruct (is_lo d) eqn:Hl; simpl in *.
    + rewrite (IHt H). reflexivity.
    + reflexivity.
    + rewrite is_surr_hi_lo, Hh in H. simpl in H. destruct (is_lo c); [reflexivity|]. simpl in H.
      rewrite (IHdt H). reflexivity.
    + rewrite is_surr_hi_lo, Hh in H. simpl in H. destruct (is_lo c); [reflexivity|]. simpl in H.
      rewrite (IHdt H). reflexivity.
Qed.

(* the bail-out happens exactly when the subject has a lone surrogate *)
Lemma bailout_iff : forall s, build_utf8_posmap s = None <-> has_lone_surrogate s = true.
Proof.
  intro s. unfold build_utf8_posmap. split.
  - intro H. destruct (has_lone_surrogate s) eqn:E; [reflexivity|].
    rewrite (decode_strict_lenient s E) in H. discriminate.
  - intro H. rewrite (decode_strict_none s H). reflexivity.
Qed.

Lemma utf8_len_pos : forall r, 1 <= utf8_len r.
Proof. intro r. unfold utf8_len. destruct (r <? 128)%N; [lia|]. destruct (r <? 2048)%N; [lia|]. destruct (r <? 65536)%N; lia. Qed.

Lemma utf8_off_nonneg : forall cps k, 0 <= utf8_off cps k.
Proof.
  induction cps as [|[r sz] t IH]; intro k; destruct k; simpl; try lia.
  pose proof (utf8_len_pos r). pose proof (IH k). lia.
Qed.

Lemma utf8_off_pos : forall cps k, (1 <= k <= length cps)%nat -> 1 <= utf8_off cps k.
Proof.
  intros [|[r sz] t] k H; simpl in H; [lia|]. destruct k; [lia|]. simpl.
  pose proof (utf8_len_pos r). pose proof (utf8_off_nonneg t k). lia.
Qed.

Lemma utf8_off_0 : forall cps, utf8_off cps 0 = 0.
Proof. intros [|[? ?] ?]; reflexivity. Qed.
Lemma utf16_off_0 : forall cps, utf16_off cps 0 = 0.
Proof. intros [|[? ?] ?]; reflexivity. Qed.

Lemma posmap_go_find : forall cps sP uP k, (1 <= k <= length cps)%nat ->
  find (fun it => (uP + utf8_off cps k) <=? fst it) (posmap_go cps sP uP) =
  Some (uP + utf8_off cps k, sP + utf16_off cps k).
Proof.
  induction cps as [|[r sz] t IH]; intros sP uP k H; simpl in H; [lia|].
  destruct k as [|k]; [lia|]. simpl.
  destruct k as [|k].
  - rewrite utf8_off_0, utf16_off_0.
    replace (uP + (utf8_len r + 0) <=? uP + utf8_len r) with true by (symmetry; apply Z.leb_le; lia).
    f_equal. f_equal; lia.
  - assert (Hk : (1 <= S k <= length t)%nat) by lia.
    pose proof (utf8_off_pos t (S k) Hk) as Hp.
    replace (uP + (utf8_len r + utf8_off t (S k)) <=? uP + utf8_len r) with false by (symmetry; apply Z.leb_gt; lia).
    specialize (IH (sP + sz) (uP + utf8_len r) (S k) Hk).
    replace (uP + (utf8_len r + utf8_off t (S k))) with (uP + utf8_len r + utf8_off t (S k)) by lia.
    rewrite IH. f_equal. f_equal; lia.
Qed.

(* mapping the UTF-8 offset of the k-th code-point boundary gives its UTF-16 offset; total on boundaries *)
Lemma posmap_correct : forall s pm bytes k,
  build_utf8_posmap s = Some (pm, bytes) -> (k <= length (decode_lenient s))%nat ->
  pm_get pm (utf8_off (decode_lenient s) k) = Some (utf16_off (decode_lenient s) k).
Proof.
  intros s pm bytes k H Hk. unfold build_utf8_posmap in H.
  destruct (has_lone_surrogate s) eqn:E.
  - rewrite (decode_strict_none s E) in H. discriminate.
  - rewrite (decode_strict_lenient s E) in H. inversion H; subst. clear H.
    set (cps := decode_lenient s) in *.
    destruct k as [|k].
    + rewrite utf8_off_0, utf16_off_0. reflexivity.
    + assert (Hk' : (1 <= S k <= length cps)%nat) by lia.
      pose proof (utf8_off_pos cps (S k) Hk') as Hp.
      unfold pm_get. replace (utf8_off cps (S k) <=? 0) with false by (symmetry; apply Z.leb_gt; lia).
      pose proof (posmap_go_find cps 0 0 (S k) Hk') as Hf. simpl Z.add in Hf.
      rewrite Hf. rewrite Z.eqb_refl. reflexivity.
Qed.

(* offsets that are not a code-point boundary are rejected (the panic of positionMap.get) *)
Lemma find_none_posmap : forall cps sP uP b,
  (forall k, (1 <= k <= length cps)%nat -> uP + utf8_off cps k <> b) -> uP < b ->
  match find (fun it => b <=? fst it) (posmap_go cps sP uP) with
  | Some (a, _) => a <> b
  | None => True
  end.
Proof.
  induction cps as [|[r sz] t IH]; intros sP uP b H Hlt; simpl; [exact I|].
  destruct (b <=? uP + utf8_len r) eqn:E.
  - specialize (H 1%nat). simpl in H. rewrite utf8_off_0 in H. intro Heq. apply H; [lia|]. lia.
  - apply Z.leb_gt in E. apply IH; [|lia].
    intros k Hk. specialize (H (S k)). simpl in H. intro Heq. apply H; [lia|]. lia.
Qed.

Lemma posmap_only_boundaries : forall s pm bytes b,
  build_utf8_posmap s = Some (pm, bytes) -> 0 < b ->
  (forall k, (k <= length (decode_lenient s))%nat -> utf8_off (decode_lenient s) k <> b) ->
  pm_get pm b = None.
Proof.
  intros s pm bytes b H Hb Hn. unfold build_utf8_posmap in H.
  destruct (has_lone_surrogate s) eqn:E.
  - rewrite (decode_strict_none s E) in H. discriminate.
  - rewrite (decode_strict_lenient s E) in H. inversion H; subst. clear H.
    unfold pm_get. replace (b <=? 0) with false by (symmetry; apply Z.leb_gt; lia).
    pose proof (find_none_posmap (decode_lenient s) 0 0 b) as Hf.
    destruct (find (fun it => b <=? fst it) (posmap_go (decode_lenient s) 0 0)) as [[a c]|]; [|reflexivity].
    assert (a <> b).
    { apply Hf; [|lia]. intros k Hk. simpl. apply Hn. lia. }
    replace (a =? b) with false by (symmetry; apply Z.eqb_neq; assumption). reflexivity.
Qed.

(* monotone: later boundaries have strictly larger offsets in both encodings *)
Lemma decode_lenient_sizes : forall s x, In x (decode_lenient s) -> 1 <= snd x.
Proof.
  apply (str_ind2 (fun s => forall x, In x (decode_lenient s) -> 1 <= snd x)).
  - intros x [].
  - intros c x [H|[]]. subst. simpl. lia.
  - intros c d t IHt IHdt x H. rewrite decode_lenient_cons2 in H.
    destruct (is_hi c && is_lo d); destruct H as [H|H]; try (subst; simpl; lia).
    + apply IHt. exact H.
    + apply IHdt. exact H.
Qed.

Lemma off_monotone : forall cps j k, (forall x, In x cps -> 1 <= snd x) -> (j < k <= length cps)%nat ->
  utf16_off cps j < utf16_off cps k /\ utf8_off cps j < utf8_off cps k.
Proof.
  induction cps as [|[r sz] t IH]; intros j k Hs H; simpl in H; [lia|].
  destruct k as [|k]; [lia|].
  assert (Hsz : 1 <= sz) by (apply (Hs (r, sz)); left; reflexivity).
  assert (Hs' : forall x, In x t -> 1 <= snd x) by (intros x Hx; apply Hs; right; exact Hx).
  pose proof (utf8_len_pos r).
  destruct j as [|j]; simpl.
  - assert (0 <= utf16_off t k).
    { clear -Hs'. revert k. induction t as [|[r' sz'] t IH]; intro k; destruct k; simpl; try lia.
      assert (1 <= sz') by (apply (Hs' (r', sz')); left; reflexivity).
      assert (0 <= utf16_off t k) by (apply IH; intros x Hx; apply Hs'; right; exact Hx). lia. }
    pose proof (utf8_off_nonneg t k). lia.
  - assert (Hjk : (j < k <= length t)%nat) by lia.
    destruct (IH j k Hs' Hjk). lia.
Qed.

Lemma posmap_monotone : forall s j k, (j < k <= length (decode_lenient s))%nat ->
  utf16_off (decode_lenient s) j < utf16_off (decode_lenient s) k /\
  utf8_off (decode_lenient s) j < utf8_off (decode_lenient s) k.
Proof. intros s j k H. apply off_monotone; [apply decode_lenient_sizes|exact H]. Qed.

Lemma utf16_off_total : forall s, utf16_off (decode_lenient s) (length (decode_lenient s)) = slen s.
Proof.
  apply (str_ind2 (fun s => utf16_off (decode_lenient s) (length (decode_lenient s)) = slen s)).
  - reflexivity.
  - intro c. reflexivity.
  - intros c d t IHt IHdt. rewrite decode_lenient_cons2. unfold slen in *.
    destruct (is_hi c && is_lo d); cbn [length utf16_off].
    + rewrite IHt. rewrite !Nat2Z.inj_succ. lia.
    + rewrite IHdt. cbn [length]. rewrite !Nat2Z.inj_succ. lia.
Qed.

(* buildPosMap: entry k is the UTF-16 offset of the k-th code point *)
Lemma posmap16_go_nth : forall cps cur k, (k <= length cps)%nat ->
  nth_error (posmap16_go cps cur) k = Some (cur + utf16_off cps k).
Proof.
  induction cps as [|[r sz] t IH]; intros cur k H; simpl in H.
  - assert (k = 0)%nat by lia. subst. simpl. f_equal. lia.
  - destruct k as [|k]; simpl.
    + f_equal. lia.
    + rewrite IH by lia. f_equal. lia.
Qed.

Lemma posmap16_correct : forall s k, (k <= length (decode_lenient s))%nat ->
  nth_error (build_posmap16 s) k = Some (utf16_off (decode_lenient s) k).
Proof. intros s k H. unfold build_posmap16. rewrite posmap16_go_nth by exact H. f_equal. Qed.

(* ------------------------------------------------------------------------------------------- *)


Lemma slice_length : forall s a b, 0 <= a -> a <= b -> b <= slen s -> length (slice s a b) = Z.to_nat (b - a).
Proof.
  intros s a b H0 H1 H2. unfold slice, slen in *. rewrite firstn_length, skipn_length. lia.
Qed.

Lemma slice_all : forall s, slice s 0 (slen s) = s.
Proof.
  intro s. unfold slice, slen. simpl skipn. rewrite Z.sub_0_r, Nat2Z.id. apply firstn_all.
Qed.

Lemma slice_empty : forall s a, slice s a a = [].
Proof. intros s a. unfold slice. rewrite Z.sub_diag. reflexivity. Qed.

Lemma advance_gt : forall s pos u, pos < advance s pos u.
Proof.
  intros s pos u. unfold advance. destruct u; simpl; [|lia].
  destruct (slen s <=? pos + 1); [lia|].
  destruct (unit_at s pos) as [a|]; [|lia].
  destruct (is_hi a); simpl; [|lia].
  destruct (unit_at s (pos + 1)) as [b|]; [|lia]. destruct (is_lo b); simpl; lia.
Qed.

Lemma advance_le : forall s pos u, advance s pos u <= Z.max (pos + 1) (slen s).
Proof.
  intros s pos u. unfold advance. destruct u; simpl; [|lia].
  destruct (slen s <=? pos + 1) eqn:E; [lia|]. apply Z.leb_gt in E.
  destruct (unit_at s pos) as [a|]; [|lia].
  destruct (is_hi a); simpl; [|lia].
  destruct (unit_at s (pos + 1)) as [b|]; [|lia]. destruct (is_lo b); simpl; lia.
Qed.

Lemma advance_at_end : forall s u, advance s (slen s) u = slen s + 1.
Proof.
  intros s u. unfold advance. destruct u; simpl; [|reflexivity].
  replace (slen s <=? slen s + 1) with true by (symmetry; apply Z.leb_le; lia). reflexivity.
Qed.

Lemma lo_not_hi : forall b, is_lo b = true -> is_hi b = false.
Proof.
  intros b H. unfold is_lo, is_hi in *. apply andb_true_iff in H. destruct H as [H1 H2].
  apply N.leb_le in H1. apply andb_false_iff. right. apply N.leb_gt. lia.
Qed.

Lemma unit_at_end : forall s, unit_at s (slen s) = None.
Proof.
  intro s. unfold unit_at, slen. replace (Z.of_nat (length s) <? 0) with false by (symmetry; apply Z.ltb_ge; lia).
  rewrite Nat2Z.id. apply nth_error_None. lia.
Qed.

Lemma boundary_0 : forall s, is_boundary s 0 = true.
Proof.
  intro s. unfold is_boundary. simpl. replace (0 <=? slen s) with true by (symmetry; apply Z.leb_le; unfold slen; lia).
  reflexivity.
Qed.

(* under u, advancing from a code-point boundary lands on a code-point boundary *)
Lemma advance_boundary : forall s pos, 0 <= pos < slen s -> is_boundary s pos = true ->
  is_boundary s (advance s pos true) = true.
Proof.
  intros s pos Hp _. unfold advance. simpl negb. cbv iota.
  destruct (slen s <=? pos + 1) eqn:E.
  - apply Z.leb_le in E. assert (pos + 1 = slen s) by lia. rewrite H.
    unfold is_boundary. rewrite unit_at_end.
    replace (0 <=? slen s) with true by (symmetry; apply Z.leb_le; lia). rewrite Z.leb_refl. simpl.
    destruct (unit_at s (slen s - 1)); reflexivity.
  - apply Z.leb_gt in E.
    assert (Hb1 : forall x, (0 <=? pos + 1) && (pos + 1 <=? slen s) && x = x).
    { intro x. replace (0 <=? pos + 1) with true by (symmetry; apply Z.leb_le; lia).
      replace (pos + 1 <=? slen s) with true by (symmetry; apply Z.leb_le; lia). reflexivity. }
    destruct (unit_at s pos) as [a|] eqn:Ea.
    + destruct (is_hi a) eqn:Hh; simpl negb; cbv iota.
      * destruct (unit_at s (pos + 1)) as [b|] eqn:Eb.
        { destruct (is_lo b) eqn:Hl; simpl negb; cbv iota.
          - unfold is_boundary. replace (pos + 1 + 1 - 1) with (pos + 1) by lia. rewrite Eb.
            replace (0 <=? pos + 1 + 1) with true by (symmetry; apply Z.leb_le; lia).
            replace (pos + 1 + 1 <=? slen s) with true by (symmetry; apply Z.leb_le; lia). simpl.
            rewrite (lo_not_hi b Hl). destruct (unit_at s (pos + 1 + 1)); reflexivity.
          - unfold is_boundary. rewrite Hb1. replace (pos + 1 - 1) with pos by lia. rewrite Ea, Eb, Hh, Hl. reflexivity. }
        { unfold is_boundary. rewrite Hb1. replace (pos + 1 - 1) with pos by lia. rewrite Ea, Eb. reflexivity. }
      * unfold is_boundary. rewrite Hb1. replace (pos + 1 - 1) with pos by lia. rewrite Ea, Hh.
        destruct (unit_at s (pos + 1)); reflexivity.
    + unfold is_boundary. rewrite Hb1. replace (pos + 1 - 1) with pos by lia. rewrite Ea. reflexivity.
Qed.

Section GlobalLoop.
  Variable find : str -> Z -> option mres.
  Variable fl : flags.
  Variable rep : mres -> str.
  Variable s : str.
  Hypothesis Hg : fg fl = true.
  (* g alone or g together with y *)
  (* what match_wf guarantees of an engine result (match_wf_sound), for a scan started at p *)
  (* only asked of scans started at a code-point boundary when the u flag is set *)
  Hypothesis Hfind : forall p m, 0 <= p <= slen s -> (fu fl = true -> is_boundary s p = true) -> find s p = Some m ->
      p <= ms m /\ ms m <= me m /\ me m <= slen s /\ cap0 m = slice s (ms m) (me m) /\
      (fu fl = true -> is_boundary s (me m) = true).

  Lemma slen_nonneg' : 0 <= slen s.
  Proof. unfold slen. lia. Qed.

  Lemma exec_core_g : forall pos, 0 <= pos ->
    exec_core find fl s pos =
    (let r' := match (if pos <=? slen s then find s pos else None) with
               | Some m => if fy fl && negb (ms m =? pos) then None else Some m
               | None => None
               end in
     (r', match r' with Some m => me m | None => 0 end)).
  Proof.
    intros pos Hp. unfold exec_core. rewrite Hg. simpl.
    unfold to_length. rewrite Z.max_r by lia. reflexivity.
  Qed.

  Lemma rx2_all_beyond : forall fr pos st limit sticky,
    slen s < pos -> rx2_all find fl s fr pos st limit sticky = [].
  Proof.
    intros [|fr] pos st limit sticky H; [reflexivity|]. simpl.
    replace (slen s <? pos) with true by (symmetry; apply Z.ltb_lt; lia).
    rewrite orb_true_r. reflexivity.
  Qed.

  Definition bnd (pos : Z) : Prop := fu fl = true -> pos <= slen s -> is_boundary s pos = true.

  Lemma bnd_next : forall m, ms m <= me m -> me m <= slen s -> (fu fl = true -> is_boundary s (me m) = true) -> 0 <= me m ->
    bnd (if me m =? ms m then advance s (me m) (fu fl) else me m).
  Proof.
    intros m H2 H3 Hb H0 Hu Hle. destruct (me m =? ms m) eqn:E.
    - rewrite Hu in *. destruct (Z.eq_dec (me m) (slen s)) as [Heq|Hne].
      + rewrite Heq, advance_at_end in Hle. lia.
      + apply advance_boundary; [lia|apply Hb; reflexivity].
    - apply Hb. exact Hu.
  Qed.

  Lemma cap0_empty_iff : forall p m, 0 <= p <= slen s -> (fu fl = true -> is_boundary s p = true) -> find s p = Some m ->
    (length (cap0 m) =? 0)%nat = (me m =? ms m).
  Proof.
    intros p m Hp Hbp Hf. destruct (Hfind p m Hp Hbp Hf) as [H1 [H2 [H3 [H4 _]]]].
    rewrite H4. rewrite slice_length by lia.
    destruct (me m =? ms m) eqn:E.
    - apply Z.eqb_eq in E. rewrite E, Z.sub_diag. reflexivity.
    - apply Z.eqb_neq in E. apply Nat.eqb_neq. lia.
  Qed.

  (* the exec loop of the generic path and regexp2's FindNextMatch iteration list the same matches;
     the loop ends by itself (flag true) with lastIndex 0 *)
  Lemma g_loop_rx2 : forall fgl fr pos st limit,
    0 <= pos <= slen s + 1 -> bnd pos -> (fy fl = true -> st = pos) ->
    slen s + 2 - pos <= Z.of_nat fgl -> slen s + 2 - pos <= Z.of_nat fr -> slen s + 1 - pos <= limit ->
    g_loop find fl s fgl pos = (rx2_all find fl s fr pos st limit (fy fl), 0, true).
  Proof.
    induction fgl as [|f IH]; intros fr pos st limit Hp Hbd Hst Hf1 Hf2 Hl; [lia|].
    destruct fr as [|fr]; [simpl in Hf2; lia|].
    pose proof slen_nonneg' as Hs.
    cbn [g_loop]. rewrite exec_core_g by lia. cbn [rx2_all]. cbv zeta.
    destruct (pos <=? slen s) eqn:Ep.
    - apply Z.leb_le in Ep.
      replace ((pos <? 0) || (slen s <? pos)) with false
        by (symmetry; apply orb_false_iff; split; [apply Z.ltb_ge; lia|apply Z.ltb_ge; lia]).
      destruct (find s pos) as [m|] eqn:Ef; [|reflexivity].
      assert (Hpp : 0 <= pos <= slen s) by lia.
      assert (Hbp : fu fl = true -> is_boundary s pos = true) by (intro Hu; apply Hbd; [exact Hu|lia]).
      destruct (Hfind pos m Hpp Hbp Ef) as [H1 [H2 [H3 [H4 H5]]]].
      assert (Hb : fy fl && negb (ms m =? st) = fy fl && negb (ms m =? pos)).
      { destruct (fy fl) eqn:Ey; [|reflexivity]. rewrite (Hst eq_refl). reflexivity. }
      rewrite Hb. destruct (fy fl && negb (ms m =? pos)) eqn:Eb; [reflexivity|].
      rewrite (cap0_empty_iff pos m Hpp Hbp Ef).
      unfold to_length. rewrite (Z.max_r 0 (me m)) by lia.
      set (next := if me m =? ms m then advance s (me m) (fu fl) else me m).
      assert (Hn : pos < next <= slen s + 1).
      { unfold next. destruct (me m =? ms m) eqn:E.
        - apply Z.eqb_eq in E. pose proof (advance_gt s (me m) (fu fl)). pose proof (advance_le s (me m) (fu fl)). lia.
        - apply Z.eqb_neq in E. lia. }
      assert (Hbn : bnd next) by (apply bnd_next; try assumption; lia).
      assert (Hst' : fy fl = true -> (if fy fl then next else st) = next) by (intro Ey; rewrite Ey; reflexivity).
      rewrite (IH fr next (if fy fl then next else st) (limit - 1))
        by (try exact Hbn; try exact Hst'; rewrite ?Nat2Z.inj_succ in *; lia).
      destruct (limit - 1 <=? 0) eqn:El.
      + apply Z.leb_le in El.
        assert (me m = slen s /\ ms m = slen s) by lia.
        assert (next = slen s + 1).
        { unfold next. replace (me m =? ms m) with true by (symmetry; apply Z.eqb_eq; lia).
          replace (me m) with (slen s) by lia. apply advance_at_end. }
        rewrite rx2_all_beyond by lia. reflexivity.
      + destruct ((me m =? ms m) && (me m =? slen s)) eqn:Ee.
        * apply andb_true_iff in Ee. destruct Ee as [E1 E2]. apply Z.eqb_eq in E1. apply Z.eqb_eq in E2.
          assert (next = slen s + 1).
          { unfold next. replace (me m =? ms m) with true by (symmetry; apply Z.eqb_eq; lia).
            rewrite E2. apply advance_at_end. }
          rewrite rx2_all_beyond by lia. reflexivity.
        * reflexivity.
    - apply Z.leb_gt in Ep.
      replace ((pos <? 0) || (slen s <? pos)) with true
        by (symmetry; apply orb_true_iff; right; apply Z.ltb_lt; lia).
      reflexivity.
  Qed.

  Definition rx2_list : list mres :=
    find_all find fl s RX2 0 (-1) (fy fl).

  Lemma find_all_rx2_unfold :
    rx2_list = rx2_all find fl s (all_fuel s) 0 0 (slen s + 1) (fy fl).
  Proof. reflexivity. Qed.

  Lemma g_matches_rx2 : g_matches find fl s = (rx2_list, 0).
  Proof.
    unfold g_matches. rewrite find_all_rx2_unfold.
    pose proof slen_nonneg' as Hs.
    rewrite (g_loop_rx2 (loop_fuel s) (all_fuel s) 0 0 (slen s + 1)); [reflexivity| | | | | |].
    - lia.
    - intros _ _. apply boundary_0.
    - reflexivity.
    - unfold loop_fuel, slen. lia.
    - unfold all_fuel, slen. lia.
    - lia.
  Qed.

  (* termination: any fuel beyond the default gives the same result, and the loop ended by itself *)
  Lemma global_loop_terminates : forall n, (loop_fuel s <= n)%nat ->
    g_loop find fl s n 0 = g_loop find fl s (loop_fuel s) 0 /\ snd (g_loop find fl s n 0) = true.
  Proof.
    intros n Hn. pose proof slen_nonneg' as Hs.
    assert (Hb : slen s + 2 - 0 <= Z.of_nat (loop_fuel s)) by (unfold loop_fuel, slen; lia).
    assert (Hb0 : bnd 0) by (intros _ _; apply boundary_0).
    rewrite (g_loop_rx2 n (all_fuel s) 0 0 (slen s + 1)) by (try exact Hb0; try reflexivity; unfold all_fuel, slen in *; lia).
    rewrite (g_loop_rx2 (loop_fuel s) (all_fuel s) 0 0 (slen s + 1)) by (try exact Hb0; try reflexivity; unfold all_fuel, slen in *; lia).
    split; reflexivity.
  Qed.

  (* ordered, in-bounds match lists *)
  Fixpoint chain (n : Z) (l : list mres) : Prop :=
    match l with
    | [] => True
    | m :: t => n <= ms m /\ ms m <= me m /\ me m <= slen s /\ cap0 m = slice s (ms m) (me m) /\ chain (me m) t
    end.

  Lemma chain_weaken : forall l n n', n' <= n -> chain n l -> chain n' l.
  Proof. intros [|m t] n n' H Hc; simpl in *; [exact I|]. destruct Hc as [H1 H2]. split; [lia|exact H2]. Qed.

  Lemma rx2_chain : forall fr pos st limit sticky, 0 <= pos -> bnd pos -> chain pos (rx2_all find fl s fr pos st limit sticky).
  Proof.
    induction fr as [|fr IH]; intros pos st limit sticky Hp Hbd; [exact I|]. cbn [rx2_all]. cbv zeta.
    destruct ((pos <? 0) || (slen s <? pos)) eqn:Ec; [exact I|].
    apply orb_false_iff in Ec. destruct Ec as [_ Ec]. apply Z.ltb_ge in Ec.
    destruct (find s pos) as [m|] eqn:Ef; [|exact I].
    assert (Hpp : 0 <= pos <= slen s) by lia.
    assert (Hbp : fu fl = true -> is_boundary s pos = true) by (intro Hu; apply Hbd; [exact Hu|lia]).
    destruct (Hfind pos m Hpp Hbp Ef) as [H1 [H2 [H3 [H4 H5]]]].
    destruct (sticky && negb (ms m =? st)); [exact I|].
    destruct (limit - 1 <=? 0); [simpl; repeat split; assumption|].
    destruct ((me m =? ms m) && (me m =? slen s)); [simpl; repeat split; assumption|].
    simpl. repeat split; try assumption.
    set (next := if me m =? ms m then advance s (me m) (fu fl) else me m).
    assert (Hn : me m <= next).
    { unfold next. destruct (me m =? ms m); [pose proof (advance_gt s (me m) (fu fl)); lia|lia]. }
    apply (chain_weaken _ next); [exact Hn|]. apply IH; [lia|]. apply bnd_next; try assumption; lia.
  Qed.

  Lemma chain_map_cap0 : forall l n, chain n l ->
    map (fun m => Some (cap0 m)) l = map (fun m => Some (slice s (ms m) (me m))) l.
  Proof.
    induction l as [|m t IH]; intros n H; [reflexivity|]. simpl in H. destruct H as [_ [_ [_ [H4 H5]]]].
    simpl. rewrite H4. f_equal. apply (IH (me m)). exact H5.
  Qed.

  (** match with g: optimised path = generic path, results and lastIndex, for every engine *)
  Lemma match_g_paths_agree : forall li, match_fast find fl s RX2 li = match_generic find fl s li.
  Proof.
    intro li. unfold match_fast, match_generic. rewrite Hg. rewrite g_matches_rx2.
    fold rx2_list.
    assert (Hc : chain 0 rx2_list) by (rewrite find_all_rx2_unfold; apply rx2_chain; [lia|intros _ _; apply boundary_0]).
    rewrite (chain_map_cap0 _ 0 Hc). destruct rx2_list; reflexivity.
  Qed.

  (** replace with g *)
  Lemma assemble_agree : forall l n buf, chain n l -> 0 <= n <= slen s ->
    assemble_generic rep s l n buf = assemble_fast rep s l n buf.
  Proof.
    induction l as [|m t IH]; intros n buf Hc Hn; simpl.
    - destruct (n <? slen s) eqn:E1; destruct (n =? slen s) eqn:E2; try reflexivity.
      + apply Z.ltb_lt in E1. apply Z.eqb_eq in E2. lia.
      + apply Z.ltb_ge in E1. apply Z.eqb_neq in E2. lia.
    - simpl in Hc. destruct Hc as [H1 [H2 [H3 [H4 H5]]]].
      rewrite (Z.min_l (ms m) (slen s)) by lia. rewrite (Z.max_l (ms m) 0) by lia.
      replace (n <=? ms m) with true by (symmetry; apply Z.leb_le; lia).
      rewrite H4 at 1. rewrite slice_length by lia.
      replace (ms m + Z.of_nat (Z.to_nat (me m - ms m))) with (me m) by lia.
      destruct (ms m =? n) eqn:E.
      + apply Z.eqb_eq in E. rewrite <- E. rewrite slice_empty. simpl. apply IH; [exact H5|lia].
      + rewrite app_assoc. apply IH; [exact H5|lia].
  Qed.

  Lemma replace_g_paths_agree : forall li, replace_fast find fl rep s RX2 li = replace_generic find fl rep s li.
  Proof.
    intro li. unfold replace_fast, replace_generic. rewrite Hg. simpl negb. simpl orb.
    pose proof slen_nonneg' as Hs0.
    replace (0 <=? slen s) with true by (symmetry; apply Z.leb_le; lia).
    rewrite g_matches_rx2. fold rx2_list.
    assert (Hc : chain 0 rx2_list) by (rewrite find_all_rx2_unfold; apply rx2_chain; [lia|intros _ _; apply boundary_0]).
    pose proof slen_nonneg' as Hs.
    destruct rx2_list as [|m t] eqn:El.
    - simpl. destruct (0 <? slen s) eqn:E.
      + rewrite slice_all. reflexivity.
      + apply Z.ltb_ge in E. assert (length s = 0)%nat by (unfold slen in *; lia).
        destruct s; [reflexivity|discriminate].
    - rewrite (assemble_agree (m :: t) 0 [] Hc) by lia. reflexivity.
  Qed.
End GlobalLoop.

(* ------------------------------------------------------------------------------------------- *)
(** * What match_wf gives the protocol theorems *)
Lemma wf_engine_ok : forall (find : str -> Z -> option mres) (fl : flags) ncap names s,
  (forall p m, 0 <= p <= slen s -> find s p = Some m -> match_wf (fu fl) ncap names s p m = true) ->
  forall p m, 0 <= p <= slen s -> (fu fl = true -> is_boundary s p = true) -> find s p = Some m ->
    p <= ms m /\ ms m <= me m /\ me m <= slen s /\ cap0 m = slice s (ms m) (me m) /\
    (fu fl = true -> is_boundary s (me m) = true).
Proof.
  intros find fl ncap names s H p m Hp Hb Hf.
  destruct (match_wf_sound _ _ _ _ _ _ (H p m Hp Hf)) as [_ [_ [H3 [H4 [H5 [H6 [_ [H8 _]]]]]]]].
  assert (Hpm : p <= ms m).
  { destruct H5 as [H5|[Hu [Hnb _]]]; [exact H5|]. rewrite (Hb Hu) in Hnb. discriminate. }
  split; [exact Hpm|]. split; [exact H3|]. split; [exact H4|]. split.
  - unfold nth_cap in H8. unfold cap0. destruct (mcaps m) as [|c cs]; [discriminate|]. simpl in H8. rewrite H8. reflexivity.
  - intro Hu. apply H6. exact Hu.
Qed.

(* ------------------------------------------------------------------------------------------- *)
(** * Where the optimised path is NOT the generic path on this tree (open findings), by computation
      on a concrete engine: the pattern a* on the subject "baac" *)
Definition s_baac : str := [98; 97; 97; 99]%N.
Definition mk_m (a b : Z) : mres := mkM a b [Some (slice s_baac a b)] None [].
Definition find_astar (_ : str) (p : Z) : option mres :=
  if p =? 0 then Some (mk_m 0 0) else if p =? 1 then Some (mk_m 1 3) else if p =? 2 then Some (mk_m 2 3)
  else if p =? 3 then Some (mk_m 3 3) else if p =? 4 then Some (mk_m 4 4) else None.
Definition fl_g := mkFlags true false false false false false.
Definition fl_gy := mkFlags true false false false false true.
Definition fl_none := mkFlags false false false false false false.

Lemma find_astar_wf : forall p m, 0 <= p <= slen s_baac -> find_astar s_baac p = Some m ->
  match_wf false 0 [] s_baac p m = true.
Proof.
  intros p m Hp H. unfold slen in Hp. simpl in Hp.
  assert (Hc : p = 0 \/ p = 1 \/ p = 2 \/ p = 3 \/ p = 4) by lia.
  destruct Hc as [E|[E|[E|[E|E]]]]; subst p; inversion H; subst; reflexivity.
Qed.

(* F201: Go's FindAll drops the empty match adjacent to the previous match *)
Lemma match_g_re2_refuted :
  match_fast find_astar fl_g s_baac RE2 0 <> match_generic find_astar fl_g s_baac 0.
Proof. vm_compute. discriminate. Qed.
(* ... while everything else agrees on this input, in particular what F202 and F203 were about before
   4fe706d / 811a68b: g together with y, and the splitter over regexp2's match list *)
Lemma baac_agreements :
  split_fast find_astar fl_none s_baac RE2 None = split_generic find_astar fl_none s_baac None /\
  split_fast find_astar fl_none s_baac RX2 None = split_generic find_astar fl_none s_baac None /\
  match_fast find_astar fl_gy s_baac RX2 0 = match_generic find_astar fl_gy s_baac 0 /\
  match_fast find_astar fl_g s_baac RX2 0 = match_generic find_astar fl_g s_baac 0 /\
  match_generic find_astar fl_g s_baac 0 = (RL [Some []; Some [97; 97]%N; Some []; Some []], 0).
Proof. vm_compute. repeat split. Qed.

(* ------------------------------------------------------------------------------------------- *)
(** * split: optimised path over Go's FindAll list = generic path *)

Lemma is_ascii_advance : forall s, is_ascii s = true -> forall pos, advance s pos true = pos + 1.
Proof.
  intros s Ha pos. unfold advance. simpl negb. cbv iota.
  destruct (slen s <=? pos + 1); [reflexivity|].
  destruct (unit_at s pos) as [a|] eqn:E; [|reflexivity].
  assert (Hin : In a s).
  { unfold unit_at in E. destruct (pos <? 0); [discriminate|]. apply nth_error_In in E. exact E. }
  unfold is_ascii in Ha. rewrite forallb_forall in Ha. specialize (Ha a Hin). apply N.ltb_lt in Ha.
  assert (Hh : is_hi a = false).
  { unfold is_hi. apply andb_false_iff. left. apply N.leb_gt. lia. }
  rewrite Hh. reflexivity.
Qed.

Section Split.
  Variable find : str -> Z -> option mres.
  Variable fl : flags.
  Variable s : str.
  Hypothesis Hu : fu fl = false.
  (* the subject has no surrogate pairs (it is ASCII on the route where Go's FindAll is used without u) *)
  Hypothesis Hadv : forall pos, advance s pos true = pos + 1.
  Hypothesis Hfind : forall p m, 0 <= p <= slen s -> find s p = Some m -> p <= ms m /\ ms m <= me m /\ me m <= slen s.
  (* the engine is a leftmost scan: starting later, but not after the match, finds the same match;
     a failed scan stays failed *)
  Hypothesis Hsame : forall p m q, 0 <= p <= slen s -> find s p = Some m -> p <= q <= ms m -> find s q = Some m.
  Hypothesis Hnone : forall p q, 0 <= p <= slen s -> find s p = None -> p <= q <= slen s -> find s q = None.

  Let sl := split_loop find fl s.
  Let fastl := split_fast_loop s.
  Let re2 := re2_all find s.

  Lemma sl_step : forall f p q, q < slen s ->
    sl (S f) p q =
    match sticky_at find s q with
    | None => sl f p (q + 1)
    | Some m => let e := Z.min (me m) (slen s) in
                if e =? p then sl f p (q + 1) else Some (slice s p q) :: tl (mcaps m) ++ sl f e e
    end.
  Proof.
    intros f p q Hq. unfold sl. cbn [split_loop].
    replace (slen s <=? q) with false by (symmetry; apply Z.leb_gt; lia).
    rewrite Hu. rewrite !advance_nonu. reflexivity.
  Qed.

  Lemma sl_end : forall f p q, slen s <= q -> sl f p q = [Some (slice s p (slen s))].
  Proof.
    intros [|f] p q Hq; unfold sl; cbn [split_loop]; [reflexivity|].
    replace (slen s <=? q) with true by (symmetry; apply Z.leb_le; lia). reflexivity.
  Qed.

  Lemma sticky_none_of_find_none : forall q, find s q = None -> sticky_at find s q = None.
  Proof. intros q H. unfold sticky_at. destruct (q <=? slen s); rewrite ?H; reflexivity. Qed.

  Lemma sticky_of_find : forall q m, 0 <= q <= slen s -> find s q = Some m ->
    sticky_at find s q = if ms m =? q then Some m else None.
  Proof.
    intros q m Hq H. unfold sticky_at.
    replace (q <=? slen s) with true by (symmetry; apply Z.leb_le; lia). rewrite H. reflexivity.
  Qed.

  (* S2: no match from q on: the rest of the subject is the last piece *)
  Lemma sl_none : forall f p q, 0 <= q <= slen s -> find s q = None -> slen s - q + 1 <= Z.of_nat f ->
    sl f p q = [Some (slice s p (slen s))].
  Proof.
    induction f as [|f IH]; intros p q Hq Hn Hf; [lia|].
    destruct (Z.eq_dec q (slen s)) as [E|E]; [apply sl_end; lia|].
    rewrite sl_step by lia. rewrite (sticky_none_of_find_none q Hn).
    apply IH; [lia| |lia]. apply (Hnone q (q + 1)); [lia|exact Hn|lia].
  Qed.

  (* S1: scanning up to the start of the leftmost match *)
  Lemma sl_scan : forall d f p q m, 0 <= q -> find s q = Some m -> ms m = q + Z.of_nat d -> ms m <= slen s ->
    (d = 0%nat \/ True) -> sl (d + f) p q = sl f p (ms m).
  Proof.
    induction d as [|d IH]; intros f p q m Hq Hf Hm Hle _.
    - simpl. replace (ms m) with q by lia. reflexivity.
    - assert (Hq' : 0 <= q <= slen s) by lia.
      change (S d + f)%nat with (S (d + f)). rewrite sl_step by lia.
      rewrite (sticky_of_find q m Hq' Hf). replace (ms m =? q) with false by (symmetry; apply Z.eqb_neq; lia).
      apply IH; [lia| |lia|lia|right; exact I].
      apply (Hsame q m (q + 1)); [lia|exact Hf|lia].
  Qed.

  Lemma re2_beyond : forall f pos prev n, slen s < pos -> re2 f pos prev n = [].
  Proof.
    intros [|f] pos prev n H; unfold re2; cbn [re2_all]; [reflexivity|].
    replace (slen s <? pos) with true by (symmetry; apply Z.ltb_lt; lia). rewrite orb_true_r. reflexivity.
  Qed.

  Lemma re2_step : forall f pos prev n, 0 <= pos <= slen s -> 1 <= n ->
    re2 (S f) pos prev n =
    match find s pos with
    | None => []
    | Some m => if negb ((me m =? pos) && (ms m =? prev))
                then m :: re2 f (if me m =? pos then pos + 1 else me m) (me m) (n - 1)
                else re2 f (if me m =? pos then pos + 1 else me m) (me m) n
    end.
  Proof.
    intros f pos prev n Hp Hn. unfold re2. cbn [re2_all].
    replace ((n <=? 0) || (slen s <? pos)) with false
      by (symmetry; apply orb_false_iff; split; [apply Z.leb_gt; lia|apply Z.ltb_ge; lia]).
    rewrite Hadv. reflexivity.
  Qed.

  Lemma fastl_nil : forall p, 0 <= p <= slen s -> fastl [] p = [Some (slice s p (slen s))].
  Proof.
    intros p Hp. unfold fastl. simpl. destruct (p =? slen s) eqn:E; [|reflexivity].
    apply Z.eqb_eq in E. rewrite E. rewrite slice_empty. reflexivity.
  Qed.

  Definition prev_ok (p q prev : Z) : Prop :=
    (q = p /\ (prev = p \/ (p = 0 /\ prev = -1))) \/ (p < q /\ prev < q).

  Lemma split_core : forall k p q prev F F' N,
    Z.to_nat (slen s + 1 - q) = k -> 0 <= p <= q -> q <= slen s + 1 -> p <= slen s -> prev_ok p q prev ->
    slen s + 2 - q <= Z.of_nat F -> 2 * (slen s - q) + 3 <= Z.of_nat F' -> slen s + 1 - q <= N ->
    fastl (re2 F q prev N) p = sl F' p q.
  Proof.
    induction k as [k IHk] using lt_wf_ind.
    intros p q prev F F' N Hk Hpq Hq Hp Hprev HF HF' HN.
    assert (Hs : 0 <= slen s) by (unfold slen; lia).
    destruct (Z.eq_dec q (slen s + 1)) as [Eq|Eq].
    { rewrite re2_beyond by lia. rewrite sl_end by lia. apply fastl_nil. lia. }
    assert (Hq' : 0 <= q <= slen s) by lia.
    destruct F as [|F]; [simpl in HF; lia|].
    rewrite re2_step by lia.
    destruct (Z.eq_dec q (slen s)) as [Eqs|Eqs].
    { (* at the end of the subject only an empty match is possible, and nobody uses it *)
      rewrite sl_end by lia.
      destruct (find s q) as [m|] eqn:Ef; [|apply fastl_nil; lia].
      destruct (Hfind q m Hq' Ef) as [H1 [H2 H3]].
      replace (me m =? q) with true by (symmetry; apply Z.eqb_eq; lia).
      rewrite !re2_beyond by lia.
      destruct (negb (true && (ms m =? prev))); [|apply fastl_nil; lia].
      unfold fastl. cbn [split_fast_loop]. fold fastl.
      replace (ms m =? me m) with true by (symmetry; apply Z.eqb_eq; lia).
      replace (ms m =? slen s) with true by (symmetry; apply Z.eqb_eq; lia). rewrite orb_true_r. simpl andb. cbv iota.
      apply fastl_nil. lia. }
    destruct (find s q) as [m|] eqn:Ef.
    2:{ rewrite fastl_nil by lia. symmetry. apply sl_none; [lia|exact Ef|lia]. }
    destruct (Hfind q m Hq' Ef) as [H1 [H2 H3]].
    (* generic side: scan to ms m *)
    set (d := Z.to_nat (ms m - q)).
    assert (HF'd : (d <= F')%nat) by lia.
    replace F' with (d + (F' - d))%nat by lia.
    rewrite (sl_scan d (F' - d) p q m) by (try exact Ef; try lia; right; exact I).
    assert (Hfm : find s (ms m) = Some m) by (apply (Hsame q m (ms m)); [lia|exact Ef|lia]).
    remember (F' - d)%nat as G eqn:HeqG. assert (HG : 2 * (slen s - q) + 3 - (ms m - q) <= Z.of_nat G) by lia.
    destruct (Z.eq_dec (me m) p) as [Emp|Emp].
    - (* empty match at p = q: skipped on both sides *)
      assert (q = p /\ ms m = p) by lia. destruct H as [Hqp Hmsp].
      destruct G as [|G]; [simpl in HG; lia|].
      rewrite Hmsp. rewrite sl_step by lia.
      rewrite (sticky_of_find p m) by (try lia; rewrite <- Hmsp; exact Hfm).
      replace (ms m =? p) with true by (symmetry; apply Z.eqb_eq; lia). cbv zeta.
      replace (Z.min (me m) (slen s) =? p) with true by (symmetry; apply Z.eqb_eq; lia).
      replace (me m =? q) with true by (symmetry; apply Z.eqb_eq; lia).
      destruct Hprev as [[_ [Hpv|[Hp0 Hpv]]]|[Hlt _]]; [| |lia].
      + (* rejected by FindAll *)
        replace (ms m =? prev) with true by (symmetry; apply Z.eqb_eq; lia).
        replace (p =? prev) with true by (symmetry; apply Z.eqb_eq; lia). simpl andb. simpl negb. cbv iota.
        rewrite ?Hqp, ?Emp.
        apply (IHk (Z.to_nat (slen s + 1 - (p + 1)))); try lia.
        right. lia.
      + (* the initial empty match at 0: delivered by FindAll, skipped by the splitter *)
        replace (ms m =? prev) with false by (symmetry; apply Z.eqb_neq; lia).
        replace (p =? prev) with false by (symmetry; apply Z.eqb_neq; lia). rewrite ?andb_false_r. simpl negb. cbv iota.
        unfold fastl. cbn [split_fast_loop]. fold fastl.
        replace (ms m =? me m) with true by (symmetry; apply Z.eqb_eq; lia).
        replace (ms m =? p) with true by (symmetry; apply Z.eqb_eq; lia). simpl andb. cbv iota.
        rewrite ?Hqp, ?Emp.
        apply (IHk (Z.to_nat (slen s + 1 - (p + 1)))); try lia.
        right. lia.
    - (* a match that is used (or an empty match at the very end) *)
      assert (Hacc : negb ((me m =? q) && (ms m =? prev)) = true).
      { apply negb_true_iff. apply andb_false_iff.
        destruct (Z.eq_dec (me m) q) as [E|E]; [|left; apply Z.eqb_neq; exact E].
        right. apply Z.eqb_neq. destruct Hprev as [[Hqp _]|[Hlt Hpv]]; lia. }
      rewrite Hacc.
      unfold fastl. cbn [split_fast_loop]. fold fastl.
      destruct (Z.eq_dec (ms m) (slen s)) as [Eend|Eend].
      + (* empty match at the end of the subject *)
        assert (me m = slen s) by lia.
        replace (ms m =? me m) with true by (symmetry; apply Z.eqb_eq; lia).
        replace (ms m =? slen s) with true by (symmetry; apply Z.eqb_eq; lia). rewrite orb_true_r. simpl andb. cbv iota.
        replace (me m =? q) with false by (symmetry; apply Z.eqb_neq; lia).
        destruct F as [|F]; [simpl in HF; lia|].
        rewrite re2_step by lia.
        replace (me m) with (slen s) by lia.
        assert (Hfe : find s (slen s) = Some m) by (rewrite <- Eend; exact Hfm).
        rewrite Hfe.
        replace (me m =? slen s) with true by (symmetry; apply Z.eqb_eq; lia).
        replace (ms m =? slen s) with true by (symmetry; apply Z.eqb_eq; lia). simpl andb. simpl negb. cbv iota.
        rewrite re2_beyond by lia.
        rewrite fastl_nil by lia. rewrite Eend. rewrite sl_end by lia. reflexivity.
      + assert (Hhack : (ms m =? me m) && ((ms m =? p) || (ms m =? slen s)) = false).
        { apply andb_false_iff. destruct (Z.eq_dec (ms m) (me m)) as [E|E]; [|left; apply Z.eqb_neq; exact E].
          right. apply orb_false_iff. split; apply Z.eqb_neq; lia. }
        rewrite Hhack.
        destruct G as [|G]; [simpl in HG; lia|].
        rewrite sl_step by lia.
        rewrite (sticky_of_find (ms m) m) by (try lia; exact Hfm). rewrite Z.eqb_refl. cbv zeta.
        rewrite (Z.min_l (me m) (slen s)) by lia.
        replace (me m =? p) with false by (symmetry; apply Z.eqb_neq; exact Emp).
        assert (Hpiece : (if p =? ms m then [] else slice s p (ms m)) = slice s p (ms m)).
        { destruct (p =? ms m) eqn:E; [|reflexivity]. apply Z.eqb_eq in E. rewrite <- E. rewrite slice_empty. reflexivity. }
        rewrite Hpiece. f_equal. f_equal.
        destruct (Z.eq_dec (me m) q) as [Emq|Emq].
        * (* an empty match at q > p: after it both sides skip it *)
          replace (me m =? q) with true by (symmetry; apply Z.eqb_eq; exact Emq).
          assert (ms m = q) by lia.
          destruct G as [|G]; [simpl in HG; lia|].
          rewrite Emq. rewrite sl_step by lia.
          rewrite (sticky_of_find q m) by (try lia; exact Ef).
          replace (ms m =? q) with true by (symmetry; apply Z.eqb_eq; lia). cbv zeta.
          replace (Z.min (me m) (slen s) =? q) with true by (symmetry; apply Z.eqb_eq; lia).
          apply (IHk (Z.to_nat (slen s + 1 - (q + 1)))); try lia.
          right. lia.
        * replace (me m =? q) with false by (symmetry; apply Z.eqb_neq; exact Emq).
          apply (IHk (Z.to_nat (slen s + 1 - me m))); try lia.
          left. split; [reflexivity|left; reflexivity].
  Qed.

  (* ---- the same for regexp2's match list (which DOES contain empty matches adjacent to the previous match;
     since 811a68b the splitter skips them) ---- *)
  Let rx2 := rx2_all find fl s.

  Lemma rx2_beyond' : forall f pos st limit, slen s < pos -> rx2 f pos st limit false = [].
  Proof.
    intros [|f] pos st limit H; unfold rx2; cbn [rx2_all]; [reflexivity|].
    replace (slen s <? pos) with true by (symmetry; apply Z.ltb_lt; lia). rewrite orb_true_r. reflexivity.
  Qed.

  Lemma rx2_step : forall f pos st limit, 0 <= pos <= slen s ->
    rx2 (S f) pos st limit false =
    match find s pos with
    | None => []
    | Some m => if limit - 1 <=? 0 then [m]
                else if (me m =? ms m) && (me m =? slen s) then [m]
                else m :: rx2 f (if me m =? ms m then me m + 1 else me m) st (limit - 1) false
    end.
  Proof.
    intros f pos st limit Hp. unfold rx2. cbn [rx2_all]. cbv zeta.
    replace ((pos <? 0) || (slen s <? pos)) with false
      by (symmetry; apply orb_false_iff; split; [apply Z.ltb_ge; lia|apply Z.ltb_ge; lia]).
    rewrite Hu. destruct (find s pos) as [m|]; [|reflexivity]. rewrite advance_nonu. reflexivity.
  Qed.

  Lemma split_core_rx2 : forall k p q st F F' L,
    Z.to_nat (slen s + 1 - q) = k -> 0 <= p <= q -> q <= slen s + 1 -> p <= slen s ->
    slen s + 2 - q <= Z.of_nat F -> 2 * (slen s - q) + 3 <= Z.of_nat F' -> slen s + 1 - q <= L ->
    fastl (rx2 F q st L false) p = sl F' p q.
  Proof.
    induction k as [k IHk] using lt_wf_ind.
    intros p q st F F' L Hk Hpq Hq Hp HF HF' HL.
    assert (Hs : 0 <= slen s) by (unfold slen; lia).
    destruct (Z.eq_dec q (slen s + 1)) as [Eq|Eq].
    { rewrite rx2_beyond' by lia. rewrite sl_end by lia. apply fastl_nil. lia. }
    assert (Hq' : 0 <= q <= slen s) by lia.
    destruct F as [|F]; [simpl in HF; lia|].
    rewrite rx2_step by lia.
    assert (Hskip_end : forall m l, ms m = slen s -> me m = slen s -> fastl (m :: l) p = fastl l p).
    { intros m l E1 E2. unfold fastl. cbn [split_fast_loop].
      replace (ms m =? me m) with true by (symmetry; apply Z.eqb_eq; lia).
      replace (ms m =? slen s) with true by (symmetry; apply Z.eqb_eq; lia). rewrite orb_true_r. reflexivity. }
    destruct (Z.eq_dec q (slen s)) as [Eqs|Eqs].
    { rewrite sl_end by lia.
      destruct (find s q) as [m|] eqn:Ef; [|apply fastl_nil; lia].
      destruct (Hfind q m Hq' Ef) as [H1 [H2 H3]].
      destruct (L - 1 <=? 0); [rewrite Hskip_end by lia; apply fastl_nil; lia|].
      destruct ((me m =? ms m) && (me m =? slen s)); [rewrite Hskip_end by lia; apply fastl_nil; lia|].
      rewrite Hskip_end by lia. replace (me m =? ms m) with true by (symmetry; apply Z.eqb_eq; lia).
      rewrite rx2_beyond' by lia. apply fastl_nil. lia. }
    destruct (find s q) as [m|] eqn:Ef.
    2:{ rewrite fastl_nil by lia. symmetry. apply sl_none; [lia|exact Ef|lia]. }
    destruct (Hfind q m Hq' Ef) as [H1 [H2 H3]].
    replace (L - 1 <=? 0) with false by (symmetry; apply Z.leb_gt; lia).
    set (d := Z.to_nat (ms m - q)).
    assert (HF'd : (d <= F')%nat) by lia.
    replace F' with (d + (F' - d))%nat by lia.
    rewrite (sl_scan d (F' - d) p q m) by (try exact Ef; try lia; right; exact I).
    assert (Hfm : find s (ms m) = Some m) by (apply (Hsame q m (ms m)); [lia|exact Ef|lia]).
    remember (F' - d)%nat as G eqn:HeqG. assert (HG : 2 * (slen s - q) + 3 - (ms m - q) <= Z.of_nat G) by lia.
    destruct (Z.eq_dec (me m) p) as [Emp|Emp].
    - (* empty match at p = q: delivered by regexp2, skipped by the splitter; skipped by the generic loop *)
      assert (q = p /\ ms m = p) by lia. destruct H as [Hqp Hmsp].
      destruct G as [|G]; [simpl in HG; lia|].
      replace ((me m =? ms m) && (me m =? slen s)) with false
        by (symmetry; apply andb_false_iff; right; apply Z.eqb_neq; lia).
      replace (me m =? ms m) with true by (symmetry; apply Z.eqb_eq; lia).
      unfold fastl. cbn [split_fast_loop]. fold fastl.
      replace (ms m =? me m) with true by (symmetry; apply Z.eqb_eq; lia).
      replace (ms m =? p) with true by (symmetry; apply Z.eqb_eq; lia). simpl andb. cbv iota.
      rewrite Hmsp. rewrite sl_step by lia.
      rewrite (sticky_of_find p m) by (try lia; rewrite <- Hmsp; exact Hfm).
      replace (ms m =? p) with true by (symmetry; apply Z.eqb_eq; lia). cbv zeta.
      replace (Z.min (me m) (slen s) =? p) with true by (symmetry; apply Z.eqb_eq; lia).
      rewrite Emp.
      apply (IHk (Z.to_nat (slen s + 1 - (p + 1)))); try lia.
    - destruct (Z.eq_dec (ms m) (slen s)) as [Eend|Eend].
      + (* empty match at the end of the subject *)
        assert (me m = slen s) by lia.
        replace ((me m =? ms m) && (me m =? slen s)) with true
          by (symmetry; apply andb_true_iff; split; apply Z.eqb_eq; lia).
        rewrite Hskip_end by lia. rewrite fastl_nil by lia. rewrite Eend. rewrite sl_end by lia. reflexivity.
      + replace ((me m =? ms m) && (me m =? slen s)) with false
          by (symmetry; apply andb_false_iff; destruct (Z.eq_dec (me m) (ms m)); [right|left]; apply Z.eqb_neq; lia).
        unfold fastl. cbn [split_fast_loop]. fold fastl.
        assert (Hhack : (ms m =? me m) && ((ms m =? p) || (ms m =? slen s)) = false).
        { apply andb_false_iff. destruct (Z.eq_dec (ms m) (me m)) as [E|E]; [|left; apply Z.eqb_neq; exact E].
          right. apply orb_false_iff. split; apply Z.eqb_neq; lia. }
        rewrite Hhack.
        destruct G as [|G]; [simpl in HG; lia|].
        rewrite sl_step by lia.
        rewrite (sticky_of_find (ms m) m) by (try lia; exact Hfm). rewrite Z.eqb_refl. cbv zeta.
        rewrite (Z.min_l (me m) (slen s)) by lia.
        replace (me m =? p) with false by (symmetry; apply Z.eqb_neq; exact Emp).
        assert (Hpiece : (if p =? ms m then [] else slice s p (ms m)) = slice s p (ms m)).
        { destruct (p =? ms m) eqn:E; [|reflexivity]. apply Z.eqb_eq in E. rewrite <- E. rewrite slice_empty. reflexivity. }
        rewrite Hpiece. f_equal. f_equal.
        destruct (Z.eq_dec (me m) (ms m)) as [Eme|Eme].
        * (* an empty match at ms m > p: afterwards the generic loop skips it once *)
          replace (me m =? ms m) with true by (symmetry; apply Z.eqb_eq; exact Eme).
          destruct G as [|G]; [simpl in HG; lia|].
          rewrite sl_step by lia.
          rewrite (sticky_of_find (me m) m) by (try lia; rewrite Eme; exact Hfm).
          replace (ms m =? me m) with true by (symmetry; apply Z.eqb_eq; lia). cbv zeta.
          replace (Z.min (me m) (slen s) =? me m) with true by (symmetry; apply Z.eqb_eq; lia).
          apply (IHk (Z.to_nat (slen s + 1 - (me m + 1)))); try lia.
        * replace (me m =? ms m) with false by (symmetry; apply Z.eqb_neq; exact Eme).
          apply (IHk (Z.to_nat (slen s + 1 - me m))); try lia.
  Qed.

  Lemma split_paths_agree_rx2 : forall lim,
    split_fast find fl s RX2 lim = split_generic find fl s lim.
  Proof.
    intro lim. unfold split_fast, split_generic.
    assert (Hl : find_all find fl s RX2 0 (-1) false = rx2 (all_fuel s) 0 0 (slen s + 1) false) by reflexivity.
    rewrite Hl. clear Hl.
    assert (Hs : 0 <= slen s) by (unfold slen; lia).
    assert (Hmain : (if slen s =? 0
                     then RL (match rx2 (all_fuel s) 0 0 (slen s + 1) false with [] => [Some s] | _ => [] end)
                     else RL (take_lim lim (fastl (rx2 (all_fuel s) 0 0 (slen s + 1) false) 0))) =
                    (if slen s =? 0
                     then RL (match sticky_at find s 0 with None => [Some s] | Some _ => [] end)
                     else RL (take_lim lim (sl (split_fuel s) 0 0)))).
    { destruct (slen s =? 0) eqn:E0.
      - apply Z.eqb_eq in E0. unfold all_fuel. rewrite rx2_step by lia.
        destruct (find s 0) as [m|] eqn:Ef.
        + destruct (Hfind 0 m ltac:(lia) Ef) as [H1 [H2 H3]].
          rewrite (sticky_of_find 0 m) by (try lia; exact Ef).
          replace (ms m =? 0) with true by (symmetry; apply Z.eqb_eq; lia).
          destruct (slen s + 1 - 1 <=? 0); [reflexivity|].
          destruct ((me m =? ms m) && (me m =? slen s)); reflexivity.
        + rewrite (sticky_none_of_find_none 0 Ef). reflexivity.
      - apply Z.eqb_neq in E0. f_equal. f_equal.
        apply (split_core_rx2 (Z.to_nat (slen s + 1 - 0)) 0 0 0); try lia.
        + unfold all_fuel, slen. lia.
        + unfold split_fuel, slen. lia. }
    destruct lim as [z|]; [destruct z|]; try exact Hmain. reflexivity.
  Qed.

  (** split: the optimised splitter over Go's FindAll list = the generic protocol splitter *)
  Lemma split_paths_agree : is_ascii s = true -> forall lim,
    split_fast find fl s RE2 lim = split_generic find fl s lim.
  Proof.
    intros Hasc lim. unfold split_fast, split_generic.
    assert (Hl : find_all find fl s RE2 0 (-1) false = re2 (all_fuel s) 0 (-1) (slen s + 1)).
    { unfold find_all. simpl. rewrite Hasc. reflexivity. }
    rewrite Hl. clear Hl.
    assert (Hs : 0 <= slen s) by (unfold slen; lia).
    assert (Hmain : (if slen s =? 0
                     then RL (match re2 (all_fuel s) 0 (-1) (slen s + 1) with [] => [Some s] | _ => [] end)
                     else RL (take_lim lim (fastl (re2 (all_fuel s) 0 (-1) (slen s + 1)) 0))) =
                    (if slen s =? 0
                     then RL (match sticky_at find s 0 with None => [Some s] | Some _ => [] end)
                     else RL (take_lim lim (sl (split_fuel s) 0 0)))).
    { destruct (slen s =? 0) eqn:E0.
      - apply Z.eqb_eq in E0. unfold all_fuel. rewrite re2_step by lia.
        destruct (find s 0) as [m|] eqn:Ef.
        + destruct (Hfind 0 m ltac:(lia) Ef) as [H1 [H2 H3]].
          rewrite (sticky_of_find 0 m) by (try lia; exact Ef).
          replace (ms m =? 0) with true by (symmetry; apply Z.eqb_eq; lia).
          replace (ms m =? -1) with false by (symmetry; apply Z.eqb_neq; lia). rewrite andb_false_r. reflexivity.
        + rewrite (sticky_none_of_find_none 0 Ef). reflexivity.
      - apply Z.eqb_neq in E0. f_equal. f_equal.
        apply (split_core (Z.to_nat (slen s + 1 - 0)) 0 0 (-1)); try lia.
        + left. split; [reflexivity|right; split; reflexivity].
        + unfold all_fuel, slen. lia.
        + unfold split_fuel, slen. lia. }
    destruct lim as [z|]; [destruct z|]; try exact Hmain. reflexivity.
  Qed.
End Split.

Lemma split_paths_agree_wf : forall (find : str -> Z -> option mres) (fl : flags) (s : str) ncap names,
  fu fl = false -> is_ascii s = true ->
  (forall p m, 0 <= p <= slen s -> find s p = Some m -> match_wf (fu fl) ncap names s p m = true) ->
  (forall p m q, 0 <= p <= slen s -> find s p = Some m -> p <= q <= ms m -> find s q = Some m) ->
  (forall p q, 0 <= p <= slen s -> find s p = None -> p <= q <= slen s -> find s q = None) ->
  forall lim, split_fast find fl s RE2 lim = split_generic find fl s lim.
Proof.
  intros find fl s ncap names Hu Hasc Hwf Hsame Hnone.
  apply (split_paths_agree find fl s Hu (is_ascii_advance s Hasc)); try assumption.
  intros p m Hp Hf.
  assert (Hb : fu fl = true -> is_boundary s p = true) by (intro H; rewrite Hu in H; discriminate).
  destruct (wf_engine_ok find fl ncap names s Hwf p m Hp Hb Hf) as [H1 [H2 [H3 _]]].
  repeat split; assumption.
Qed.

Lemma find_astar_scan :
  (forall p m q, 0 <= p <= slen s_baac -> find_astar s_baac p = Some m -> p <= q <= ms m -> find_astar s_baac q = Some m) /\
  (forall p q, 0 <= p <= slen s_baac -> find_astar s_baac p = None -> p <= q <= slen s_baac -> find_astar s_baac q = None).
Proof.
  split.
  - intros p m q Hp H Hq. unfold slen in Hp. simpl in Hp.
    assert (Hc : p = 0 \/ p = 1 \/ p = 2 \/ p = 3 \/ p = 4) by lia.
    destruct Hc as [E|[E|[E|[E|E]]]]; subst p; inversion H; subst; simpl in Hq;
      (assert (Hq' : q = 0 \/ q = 1 \/ q = 2 \/ q = 3 \/ q = 4) by lia);
      destruct Hq' as [E|[E|[E|[E|E]]]]; subst q; try lia; reflexivity.
  - intros p q Hp H Hq. unfold slen in Hp. simpl in Hp.
    assert (Hc : p = 0 \/ p = 1 \/ p = 2 \/ p = 3 \/ p = 4) by lia.
    destruct Hc as [E|[E|[E|[E|E]]]]; subst p; discriminate.
Qed.

(* ------------------------------------------------------------------------------------------- *)
(** * replace without g (at most one match, sticky or not): optimised path = generic path for BOTH engines and every
      lastIndex, including lastIndex beyond the subject (a3eeab9) and sticky on non-ASCII subjects (99d84e8) *)
Section ReplaceOne.
  Variable find : str -> Z -> option mres.
  Variable fl : flags.
  Variable rep : mres -> str.
  Variable s : str.
  Hypothesis Hng : fg fl = false.
  Hypothesis Hfind : forall p m, 0 <= p <= slen s -> find s p = Some m ->
      0 <= ms m /\ ms m <= me m /\ me m <= slen s /\ cap0 m = slice s (ms m) (me m).

  Definition one (index : Z) (sticky : bool) : list mres :=
    match find s index with
    | Some m => if sticky && negb (ms m =? index) then [] else [m]
    | None => []
    end.

  Lemma rx2_one : forall index sticky, 0 <= index <= slen s ->
    rx2_all find fl s (all_fuel s) index index 1 sticky = one index sticky.
  Proof.
    intros index sticky Hi. unfold all_fuel, one. cbn [rx2_all]. cbv zeta.
    replace ((index <? 0) || (slen s <? index)) with false
      by (symmetry; apply orb_false_iff; split; apply Z.ltb_ge; lia).
    destruct (find s index) as [m|]; [|reflexivity].
    destruct (sticky && negb (ms m =? index)); reflexivity.
  Qed.

  Lemma re2_one : re2_all find s (all_fuel s) 0 (-1) 1 = match find s 0 with Some m => [m] | None => [] end.
  Proof.
    assert (Hs : 0 <= slen s) by (unfold slen; lia).
    unfold all_fuel. cbn [re2_all].
    replace (slen s <? 0) with false by (symmetry; apply Z.ltb_ge; lia). simpl orb.
    destruct (find s 0) as [m|] eqn:Ef; [|reflexivity].
    destruct (Hfind 0 m ltac:(lia) Ef) as [H1 _].
    replace (ms m =? -1) with false by (symmetry; apply Z.eqb_neq; lia). rewrite andb_false_r. reflexivity.
  Qed.

  Lemma find_all_one : forall e index sticky, 0 <= index <= slen s ->
    find_all find fl s e index 1 sticky = one index sticky.
  Proof.
    intros e index sticky Hi. unfold find_all.
    change (if 1 <? 0 then slen s + 1 else 1) with 1.
    destruct e; [|apply rx2_one; exact Hi].
    destruct (index =? 0) eqn:E0; [|apply rx2_one; exact Hi].
    apply Z.eqb_eq in E0. subst index.
    assert (Hsp : (if sticky then sticky_prefix s (match find s 0 with Some m => [m] | None => [] end) 0
                   else match find s 0 with Some m => [m] | None => [] end) = one 0 sticky).
    { unfold one. destruct (find s 0) as [m|]; [|destruct sticky; reflexivity].
      destruct sticky; [|reflexivity]. simpl. destruct (ms m =? 0); reflexivity. }
    destruct (is_ascii s).
    - rewrite re2_one. exact Hsp.
    - simpl (1 =? 1). cbv iota. unfold one. destruct (find s 0) as [m|]; reflexivity.
  Qed.

  Lemma replace_one_paths_agree : forall e li,
    replace_fast find fl rep s e li = replace_generic find fl rep s li.
  Proof.
    intros e li. assert (Hs : 0 <= slen s) by (unfold slen; lia).
    assert (Hnil : assemble_generic rep s [] 0 [] = s).
    { simpl. destruct (0 <? slen s) eqn:E; [apply slice_all|].
      apply Z.ltb_ge in E. assert (length s = 0)%nat by (unfold slen in *; lia). destruct s; [reflexivity|discriminate]. }
    unfold replace_fast, replace_generic, exec_core. rewrite Hng. simpl orb. simpl negb. cbv iota.
    set (index := if fy fl then to_length li else 0).
    assert (Hi0 : 0 <= index) by (unfold index, to_length; destruct (fy fl); lia).
    destruct (index <=? slen s) eqn:Ei.
    - apply Z.leb_le in Ei. rewrite find_all_one by lia. unfold one.
      destruct (find s index) as [m|] eqn:Ef.
      + destruct (fy fl && negb (ms m =? index)).
        * rewrite Hnil. destruct (fy fl); reflexivity.
        * destruct (Hfind index m ltac:(lia) Ef) as [H1 [H2 [H3 H4]]].
          assert (Hres : assemble_fast rep s [m] 0 [] = assemble_generic rep s [m] 0 []).
          { simpl. rewrite (Z.min_l (ms m) (slen s)) by lia. rewrite (Z.max_l (ms m) 0) by lia.
            replace (0 <=? ms m) with true by (symmetry; apply Z.leb_le; lia).
            assert (Hlen : Z.of_nat (length (cap0 m)) = me m - ms m) by (rewrite H4, slice_length by lia; lia).
            rewrite Hlen. replace (ms m + (me m - ms m)) with (me m) by lia.
            assert (Hfin : forall buf : str,
                      (if me m =? slen s then buf else buf ++ slice s (me m) (slen s)) =
                      (if me m <? slen s then buf ++ slice s (me m) (slen s) else buf)).
            { intro buf. destruct (me m <? slen s) eqn:E1; destruct (me m =? slen s) eqn:E2; try reflexivity.
              - apply Z.ltb_lt in E1. apply Z.eqb_eq in E2. lia.
              - apply Z.ltb_ge in E1. apply Z.eqb_neq in E2. lia. }
            rewrite Hfin.
            destruct (ms m =? 0) eqn:E.
            - apply Z.eqb_eq in E. rewrite E. rewrite slice_empty. reflexivity.
            - rewrite <- app_assoc. reflexivity. }
          rewrite Hres. destruct (fy fl); reflexivity.
      + rewrite Hnil. destruct (fy fl); reflexivity.
    - rewrite Hnil. destruct (fy fl); reflexivity.
  Qed.
End ReplaceOne.

Lemma wf_engine_basic : forall (find : str -> Z -> option mres) u ncap names s,
  (forall p m, 0 <= p <= slen s -> find s p = Some m -> match_wf u ncap names s p m = true) ->
  forall p m, 0 <= p <= slen s -> find s p = Some m ->
    0 <= ms m /\ ms m <= me m /\ me m <= slen s /\ cap0 m = slice s (ms m) (me m).
Proof.
  intros find u ncap names s H p m Hp Hf.
  destruct (match_wf_sound _ _ _ _ _ _ (H p m Hp Hf)) as [_ [H2 [H3 [H4 [_ [_ [_ [H8 _]]]]]]]].
  split; [exact H2|]. split; [exact H3|]. split; [exact H4|].
  unfold nth_cap in H8. unfold cap0. destruct (mcaps m) as [|c cs]; [discriminate|]. simpl in H8. rewrite H8. reflexivity.
Qed.

Lemma replace_one_paths_agree_wf : forall (find : str -> Z -> option mres) fl rep s ncap names,
  fg fl = false ->
  (forall p m, 0 <= p <= slen s -> find s p = Some m -> match_wf (fu fl) ncap names s p m = true) ->
  forall e li, replace_fast find fl rep s e li = replace_generic find fl rep s li.
Proof.
  intros find fl rep s ncap names Hng Hwf.
  apply (replace_one_paths_agree find fl rep s Hng).
  exact (wf_engine_basic find (fu fl) ncap names s Hwf).
Qed.

Lemma split_paths_agree_rx2_wf : forall (find : str -> Z -> option mres) (fl : flags) (s : str) ncap names,
  fu fl = false ->
  (forall p m, 0 <= p <= slen s -> find s p = Some m -> match_wf (fu fl) ncap names s p m = true) ->
  (forall p m q, 0 <= p <= slen s -> find s p = Some m -> p <= q <= ms m -> find s q = Some m) ->
  (forall p q, 0 <= p <= slen s -> find s p = None -> p <= q <= slen s -> find s q = None) ->
  forall lim, split_fast find fl s RX2 lim = split_generic find fl s lim.
Proof.
  intros find fl s ncap names Hu Hwf Hsame Hnone.
  apply (split_paths_agree_rx2 find fl s Hu); try assumption.
  intros p m Hp Hf.
  assert (Hb : fu fl = true -> is_boundary s p = true) by (intro H; rewrite Hu in H; discriminate).
  destruct (wf_engine_ok find fl ncap names s Hwf p m Hp Hb Hf) as [H1 [H2 [H3 _]]].
  repeat split; assumption.
Qed.
