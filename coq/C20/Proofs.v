(* C20 — lemmas about the RegExp glue model. *)
From Coq Require Import List ZArith NArith Bool Lia.
Import ListNotations.
From Verif.C20 Require Import Model.
Open Scope Z_scope.

(** * AdvanceStringIndex *)
Lemma advance_spec_eq : forall s pos u, advance s pos u = advance_spec s pos u.
Proof.
  intros s pos u. unfold advance, advance_spec, code_unit_count_at.
  destruct u; simpl; [|reflexivity].
  destruct (slen s <=? pos + 1) eqn:E; [reflexivity|].
  destruct (unit_at s pos) as [a|]; [|lia].
  destruct (is_hi a); simpl.
  - destruct (unit_at s (pos + 1)) as [b|]; [|lia]. destruct (is_lo b); simpl; lia.
  - destruct (unit_at s (pos + 1)); lia.
Qed.

Lemma advance_bounds : forall s pos u, pos < advance s pos u <= pos + 2.
Proof.
  intros s pos u. unfold advance. destruct u; simpl; [|lia].
  destruct (slen s <=? pos + 1); [lia|].
  destruct (unit_at s pos) as [a|]; [|lia].
  destruct (is_hi a); simpl; [|lia].
  destruct (unit_at s (pos + 1)) as [b|]; [|lia]. destruct (is_lo b); simpl; lia.
Qed.

Lemma advance_nonu : forall s pos, advance s pos false = pos + 1.
Proof. reflexivity. Qed.

(* under u a surrogate pair is skipped as a whole *)
Lemma advance_skips_pair : forall s pos a b,
  unit_at s pos = Some a -> unit_at s (pos + 1) = Some b -> is_hi a = true -> is_lo b = true ->
  pos + 1 < slen s -> advance s pos true = pos + 2.
Proof.
  intros s pos a b Ha Hb Hh Hl Hlen. unfold advance. simpl.
  destruct (slen s <=? pos + 1) eqn:E; [lia|].
  rewrite Ha, Hh. simpl. rewrite Hb, Hl. simpl. lia.
Qed.

(** * Flags *)
Lemma existsb_eqb_In : forall c l, existsb (N.eqb c) l = true <-> In c l.
Proof.
  intros c l. rewrite existsb_exists. split.
  - intros [x [Hin He]]. apply N.eqb_eq in He. subst. exact Hin.
  - intro H. exists c. split; [exact H|apply N.eqb_refl].
Qed.

Lemma nodupb_NoDup : forall l, nodupb l = true <-> NoDup l.
Proof.
  induction l as [|x t IH]; simpl.
  - split; [constructor|reflexivity].
  - rewrite andb_true_iff, negb_true_iff, IH. split.
    + intros [H1 H2]. constructor; [|exact H2]. intro Hin. apply existsb_eqb_In in Hin. congruence.
    + intro H. inversion H; subst. split; [|assumption].
      destruct (existsb (N.eqb x) t) eqn:E; [|reflexivity]. apply existsb_eqb_In in E. contradiction.
Qed.

Lemma valid_flags_spec : forall l,
  valid_flags l = true <-> (NoDup l /\ forall c, In c l -> In c supported_flags).
Proof.
  intro l. unfold valid_flags. rewrite andb_true_iff, forallb_forall, nodupb_NoDup. split.
  - intros [H1 H2]. split; [exact H2|]. intros c Hc. apply existsb_eqb_In. apply H1. exact Hc.
  - intros [H1 H2]. split; [|exact H1]. intros c Hc. apply existsb_eqb_In. apply H2. exact Hc.
Qed.

Lemma goja_flags_refuted : exists l, valid_flags l = false /\ goja_accepts_flags l = true.
Proof. exists [ch_u; ch_u]. split; reflexivity. Qed.

(** * lastIndex protocol *)
Section Protocol.
  Variable find : str -> Z -> option mres.
  Variable fl : flags.
  Variable s : str.
  Hypothesis Hwf : forall p m, 0 <= p <= slen s -> find s p = Some m ->
                               0 <= ms m /\ ms m <= me m /\ me m <= slen s.

  Lemma slen_nonneg : 0 <= slen s.
  Proof. unfold slen. lia. Qed.

  Lemma exec_lastIndex_in_bounds : forall li r li',
    exec_core find fl s li = (r, li') -> fg fl || fy fl = true -> 0 <= li' <= slen s.
  Proof.
    intros li r li' H Hgy. unfold exec_core in H. rewrite Hgy in H.
    pose proof slen_nonneg as Hs.
    destruct (to_length li <=? slen s) eqn:E.
    - destruct (find s (to_length li)) as [m|] eqn:F.
      + assert (Hb : 0 <= to_length li <= slen s) by (unfold to_length in *; lia).
        destruct (Hwf _ _ Hb F) as [H1 [H2 H3]].
        destruct (fy fl && negb (ms m =? to_length li)); inversion H; subst; lia.
      + inversion H; subst; lia.
    - inversion H; subst; lia.
  Qed.

  Lemma exec_fail_resets : forall li li',
    fg fl || fy fl = true -> exec_core find fl s li = (None, li') -> li' = 0.
  Proof.
    intros li li' Hgy H. unfold exec_core in H. rewrite Hgy in H.
    destruct (if to_length li <=? slen s then find s (to_length li) else None) as [m|].
    - destruct (fy fl && negb (ms m =? to_length li)); inversion H; reflexivity.
    - inversion H; reflexivity.
  Qed.

  Lemma exec_beyond_length : forall li,
    fg fl || fy fl = true -> slen s < li -> exec_core find fl s li = (None, 0).
  Proof.
    intros li Hgy Hl. unfold exec_core. rewrite Hgy.
    replace (to_length li <=? slen s) with false; [reflexivity|].
    symmetry. apply Z.leb_gt. unfold to_length. lia.
  Qed.

  Lemma exec_sticky_at : forall li m li',
    fy fl = true -> exec_core find fl s li = (Some m, li') -> ms m = to_length li /\ li' = me m.
  Proof.
    intros li m li' Hy H. unfold exec_core in H. rewrite Hy, orb_true_r in H. simpl in H.
    destruct (if to_length li <=? slen s then find s (to_length li) else None) as [m0|]; [|discriminate].
    destruct (ms m0 =? to_length li) eqn:E; simpl in H; [|discriminate].
    inversion H; subst. split; [apply Z.eqb_eq; exact E|reflexivity].
  Qed.

  Lemma exec_nonglobal_keeps_lastIndex : forall li,
    fg fl || fy fl = false -> snd (exec_core find fl s li) = li.
  Proof. intros li H. unfold exec_core. rewrite H. reflexivity. Qed.

  (* search: both paths return the same index and leave lastIndex as it was *)
  Lemma search_restores_lastIndex : forall li,
    snd (search_generic find fl s li) = li /\ snd (search_fast find fl s li) = li.
  Proof.
    intro li. unfold search_generic, search_fast. split.
    - destruct (exec_core find fl s (if li =? 0 then li else 0)) as [r li2]. simpl.
      destruct (li2 =? li) eqn:E; [apply Z.eqb_eq in E; exact E|reflexivity].
    - destruct (exec_core find fl s 0). reflexivity.
  Qed.

  Lemma search_paths_agree : forall li,
    search_fast find fl s li = search_generic find fl s li.
  Proof.
    intro li. unfold search_generic, search_fast.
    assert (E : (if li =? 0 then li else 0) = 0).
    { destruct (li =? 0) eqn:E; [apply Z.eqb_eq in E; exact E|reflexivity]. }
    rewrite E. destruct (exec_core find fl s 0) as [r li2].
    destruct (li2 =? li) eqn:E2; [apply Z.eqb_eq in E2; subst; reflexivity|reflexivity].
  Qed.
End Protocol.
