(* C20 — executable instantiation used by the correspondence check (no proofs).
   A case carries, for one (pattern, flags, subject, start, op sequence):
   - the engine's single-match table of the pattern compiled as written (A: RE2 where goja can
     translate it) and of its neutral variant forcing regexp2 (B), entry p = leftmost match found
     when scanning from p;
   - the observed results + lastIndex after every op in four configurations
     A-fast, A-generic, B-fast, B-generic.
   Checked: (i) A = B (tables and observations); (ii) fast = generic; (iii) match_wf on every
   match; and every configuration against S = the generic (specification) drivers of Model.v run
   on the table of its engine.  I = the transcribed fast path is evaluated for classification. *)
From Coq Require Import List ZArith NArith Bool.
Import ListNotations.
From Coq Require Export Uint63.
From Verif.C20 Require Export Model.
Open Scope Z_scope.

Inductive op := OExec | OTest | OMatch | OMatchAll | OReplace | OSearch | OSplit (lim : option Z)
              | OSetLI (z : Z)       (* script assigns re.lastIndex := z between calls *)
              (* argument coercion with side effects on the SAME RegExp object *)
              | OSplitSE (lim : Z) (kind : N) (k : Z)  (* split(re, {valueOf(){ <effect>; return lim }}): effect 0 = re.compile(other),
                                                          1 = re.lastIndex := k, 2 = re.exec overridden.  The splitter (pattern
                                                          snapshot) is taken BEFORE the limit is coerced *)
              | OReplaceLI (k : Z)                     (* the replacement function assigns re.lastIndex := k *)
              | OExecLIObj (tst : bool) (v j : Z)      (* lastIndex is an object: valueOf sets re.lastIndex := j, returns v *)
              | OExecArgLI (tst : bool) (k : Z).       (* the argument's toString assigns re.lastIndex := k *)
Inductive ores := OK (r : res) | Err (e : N).

Inductive tcase :=
| CRun (fl : flags) (ncap : N) (names : list (N * str)) (subj : str) (start : Z) (ops : list op)
       (engA engB : engine)
       (ents : list (option mres)) (iA iB : list nat)     (* distinct table entries; tables as index lists *)
       (obsd : list (list (ores * Z))) (oi : list nat)    (* distinct observation lists; the 4 configurations *)
| CFlags (fs : list N) (accepted : bool) (clean : bool)
| CSyntax (bad : bool) (errA errB : N)      (* 0 = constructed, 3 = SyntaxError *)
| CFail.

(* ---- structural equality of observations (raw ranges are not part of what scripts see) ---- *)
Fixpoint list_eqb {A} (e : A -> A -> bool) (a b : list A) : bool :=
  match a, b with
  | [], [] => true
  | x :: a', y :: b' => e x y && list_eqb e a' b'
  | _, _ => false
  end.
Definition opt_eqb {A} (e : A -> A -> bool) (a b : option A) : bool :=
  match a, b with Some x, Some y => e x y | None, None => true | _, _ => false end.
Definition grp_eqb (a b : str * option str) : bool := str_eqb (fst a) (fst b) && ostr_eqb (snd a) (snd b).
Definition mres_eqb (a b : mres) : bool :=
  (ms a =? ms b) && (me a =? me b) && list_eqb ostr_eqb (mcaps a) (mcaps b) &&
  opt_eqb (list_eqb grp_eqb) (mgroups a) (mgroups b).
Definition res_eqb (a b : res) : bool :=
  match a, b with
  | RNull, RNull => true
  | RM x, RM y => mres_eqb x y
  | RB x, RB y => Bool.eqb x y
  | RL x, RL y => list_eqb ostr_eqb x y
  | RAll x, RAll y => list_eqb mres_eqb x y
  | RS x, RS y => str_eqb x y
  | RZ x, RZ y => x =? y
  | _, _ => false
  end.
Definition ores_eqb (a b : ores) : bool :=
  match a, b with
  | OK x, OK y => res_eqb x y
  | Err x, Err y => N.eqb x y
  | _, _ => false
  end.
Definition step_eqb (a b : ores * Z) : bool := ores_eqb (fst a) (fst b) && (snd a =? snd b).
Definition obs_eqb := list_eqb step_eqb.

(* ---- the model on a table ---- *)
Definition tab_find (tab : list (option mres)) (_ : str) (p : Z) : option mres :=
  if p <? 0 then None else nth (Z.to_nat p) tab None.
Definition rep_br (m : mres) : str := [91%N] ++ cap0 m ++ [93%N].

(* S: generic drivers *)
Definition step_S (tab : list (option mres)) (fl : flags) (s : str) (li : Z) (o : op) : res * Z :=
  let f := tab_find tab in
  match o with
  | OExec => js_exec f fl s li
  | OTest => js_test f fl s li
  | OMatch => match_generic f fl s li
  | OMatchAll => (matchall f fl s li, li)
  | OReplace => replace_generic f fl rep_br s li
  | OSearch => search_generic f fl s li
  | OSplit lim => (split_generic f fl s lim, li)
  | OSetLI z => (RZ z, z)
  | OSplitSE lim kind k =>
      (split_generic f fl s (Some lim), if N.eqb kind 0 then 0 else if N.eqb kind 1 then k else li)
  | OReplaceLI k =>
      let '(r, li') := replace_generic f fl rep_br s li in
      (r, match r with RS x => if str_eqb x s then li' else k | _ => li' end)
  | OExecLIObj tst v j =>
      let '(r, li') := (if tst then js_test f fl s v else js_exec f fl s v) in
      (r, if fg fl || fy fl then li' else j)
  | OExecArgLI tst k => if tst then js_test f fl s k else js_exec f fl s k
  end.
(* I: the optimised drivers *)
Definition step_I (e : engine) (tab : list (option mres)) (fl : flags) (s : str) (li : Z) (o : op) : res * Z :=
  let f := tab_find tab in
  match o with
  | OExec => js_exec f fl s li
  | OTest => js_test f fl s li
  | OMatch => match_fast f fl s e li
  | OMatchAll => (matchall f fl s li, li)
  | OReplace => replace_fast f fl rep_br s e li
  | OSearch => search_fast f fl s li
  | OSplit lim => (split_fast f fl s e lim, li)
  | OSetLI z => (RZ z, z)
  | OSplitSE lim kind k =>
      (split_fast f fl s e (Some lim), if N.eqb kind 0 then 0 else if N.eqb kind 1 then k else li)
  | OReplaceLI k =>
      let '(r, li') := replace_fast f fl rep_br s e li in
      (r, match r with RS x => if str_eqb x s then li' else k | _ => li' end)
  | OExecLIObj tst v j =>
      let '(r, li') := (if tst then js_test f fl s v else js_exec f fl s v) in
      (r, if fg fl || fy fl then li' else j)
  | OExecArgLI tst k => if tst then js_test f fl s k else js_exec f fl s k
  end.

Fixpoint run_ops (step : Z -> op -> res * Z) (li : Z) (ops : list op) : list (ores * Z) :=
  match ops with
  | [] => []
  | o :: t => let '(r, li') := step li o in (OK r, li') :: run_ops step li' t
  end.

Definition run_S tab fl s start ops := run_ops (step_S tab fl s) start ops.
Definition run_I e tab fl s start ops := run_ops (step_I e tab fl s) start ops.

(* ---- validation of every match that was seen ---- *)
Fixpoint tab_wf (u : bool) (ncap : N) (names : list (N * str)) (s : str) (p : Z) (tab : list (option mres)) : bool :=
  match tab with
  | [] => true
  | e :: t => match e with None => true | Some m => match_wf u ncap names s p m end
              && tab_wf u ncap names s (p + 1) t
  end.
Definition res_wf (u : bool) (ncap : N) (names : list (N * str)) (s : str) (r : ores) : bool :=
  match r with
  | OK (RM m) => match_wf u ncap names s 0 m
  | OK (RAll l) => forallb (match_wf u ncap names s 0) l
  | _ => true
  end.

Definition tabs_eqb (a b : list (option mres)) : bool := list_eqb (opt_eqb mres_eqb) a b.

Definition nth_obs (obs : list (list (ores * Z))) (k : nat) : list (ores * Z) := nth k obs [].

Definition expand {A} (d : A) (ents : list A) (idx : list nat) : list A := map (fun i => nth i ents d) idx.

Definition bit (b : bool) (k : N) : N := if b then N.shiftl 1 k else 0%N.

(* classification bits of a run case:
   0 engine tables differ            1 some match is not well-formed      2 A-fast    <> S(A)
   3 A-generic <> S(A)               4 B-fast <> S(B)                     5 B-generic <> S(B)
   6 the four observations are not all equal                              7 table length wrong
   8 A-fast = I(A)  (the transcribed fast path reproduces it)             9 B-fast = I(B)     *)
Definition classify (c : tcase) : N :=
  match c with
  | CRun fl ncap names s start ops eA eB ents iA iB obsd oi =>
      let tA := expand None ents iA in let tB := expand None ents iB in
      let obs := expand [] obsd oi in
      let u := fu fl in
      let o0 := nth_obs obs 0 in let o1 := nth_obs obs 1 in
      let o2 := nth_obs obs 2 in let o3 := nth_obs obs 3 in
      let sA := run_S tA fl s start ops in
      let sB := run_S tB fl s start ops in
      let wf := tab_wf u ncap names s 0 tA && tab_wf u ncap names s 0 tB &&
                forallb (fun o => forallb (fun st => res_wf u ncap names s (fst st)) o) obs in
      (bit (negb (tabs_eqb tA tB)) 0 + bit (negb wf) 1 +
       bit (negb (obs_eqb o0 sA)) 2 + bit (negb (obs_eqb o1 sA)) 3 +
       bit (negb (obs_eqb o2 sB)) 4 + bit (negb (obs_eqb o3 sB)) 5 +
       bit (negb (obs_eqb o0 o1 && obs_eqb o0 o2 && obs_eqb o0 o3)) 6 +
       bit (negb ((length tA =? S (length s))%nat && (length tB =? S (length s))%nat && (length obs =? 4)%nat)) 7 +
       bit (obs_eqb o0 (run_I eA tA fl s start ops)) 8 +
       bit (obs_eqb o2 (run_I eB tB fl s start ops)) 9)%N
  | CFlags fs accepted clean =>
      (* bit 0: disagrees with S = valid_flags; bit 8: the transcribed flag loop reproduces it *)
      (bit (negb (Bool.eqb (valid_flags fs) accepted) || negb clean) 0 +
       bit (Bool.eqb (goja_accepts_flags fs) accepted) 8)%N
  | CSyntax bad eA eB =>
      let want := if bad then 3%N else 0%N in
      (bit (negb (N.eqb eA want)) 0 + bit (negb (N.eqb eB want)) 1)%N
  | CFail => 1%N
  end.

Definition bad_mask : N := 255%N.     (* bits 0..7 are verdict bits; 8, 9 are classification aids *)
Definition check_case (c : tcase) : bool := N.eqb (N.land (classify c) bad_mask) 0.

Fixpoint mismatch_from (i : N) (cs : list tcase) : list N :=
  match cs with
  | [] => []
  | c :: r => if check_case c then mismatch_from (N.succ i) r else i :: mismatch_from (N.succ i) r
  end.
Definition mismatch_ids := mismatch_from 0%N.

(* what the model says: (classification code, S on A's table, S on B's table, I for A, I for B) *)
Definition expected (c : tcase) :=
  match c with
  | CRun fl ncap names s start ops eA eB ents iA iB obsd oi =>
      let tA := expand None ents iA in let tB := expand None ents iB in
      (classify c, [run_S tA fl s start ops; run_S tB fl s start ops;
                    run_I eA tA fl s start ops; run_I eB tB fl s start ops])
  | CFlags fs _ _ => (classify c, [[(OK (RB (valid_flags fs)), 0)]; [(OK (RB (goja_accepts_flags fs)), 0)]])
  | _ => (classify c, [])
  end.

Definition classify_all (cs : list tcase) : list N := map classify cs.

(* ------------------------------------------------------------------------------------------------
   Wire format.  The harness writes a case as ONE list of primitive 63-bit integers, [T [..]%uint63]
   (elaborating the constructor/list/numeral tree of a case cost ~30 ms; a flat list of primitive
   integers costs a fraction of that).  Used by the correspondence only, never by a theorem; a
   stream that does not decode is [CFail], which is always reported. *)
Definition un (i : int) : N := Z.to_N (Uint63.to_Z i).

Definition P (A : Type) := list N -> option (A * list N).
Definition ret {A} (a : A) : P A := fun l => Some (a, l).
Definition bind {A B} (p : P A) (f : A -> P B) : P B :=
  fun l => match p l with Some (a, l') => f a l' | None => None end.
Notation "x <- p ;; q" := (bind p (fun x => q)) (at level 61, p at next level, right associativity).
Definition tok : P N := fun l => match l with x :: t => Some (x, t) | [] => None end.
Fixpoint rep {A} (n : nat) (p : P A) : P (list A) :=
  match n with O => ret [] | S k => x <- p ;; r <- rep k p ;; ret (x :: r) end.
Definition many {A} (p : P A) : P (list A) := n <- tok ;; rep (N.to_nat n) p.
Definition pnat : P nat := n <- tok ;; ret (N.to_nat n).
Definition pZ : P Z := z <- tok ;; ret (Z.of_N z - 1000).
Definition pbool : P bool := b <- tok ;; ret (negb (N.eqb b 0)).
Definition popt {A} (p : P A) : P (option A) :=
  t <- tok ;; if N.eqb t 0 then ret None else x <- p ;; ret (Some x).
Definition unpack3 (w : N) : list N := [w mod 65536; (w / 65536) mod 65536; w / 4294967296]%N.
Definition pstr : P str :=
  n <- tok ;; ws <- rep (N.to_nat ((n + 2) / 3)) tok ;; ret (firstn (N.to_nat n) (flat_map unpack3 ws)).
Definition pmres : P mres :=
  a <- pZ ;; b <- pZ ;; caps <- many (popt pstr) ;;
  g <- popt (many (k <- pstr ;; v <- popt pstr ;; ret (k, v))) ;;
  r <- many (popt (x <- pZ ;; y <- pZ ;; ret (x, y))) ;;
  ret (mkM a b caps g r).
Definition pres : P ores :=
  t <- tok ;;
  match t with
  | 0%N => ret (OK RNull)
  | 1%N => m <- pmres ;; ret (OK (RM m))
  | 2%N => b <- pbool ;; ret (OK (RB b))
  | 3%N => l <- many (popt pstr) ;; ret (OK (RL l))
  | 4%N => l <- many pmres ;; ret (OK (RAll l))
  | 5%N => x <- pstr ;; ret (OK (RS x))
  | 6%N => z <- pZ ;; ret (OK (RZ z))
  | _ => e <- tok ;; ret (Err e)
  end.
Definition pstep : P (ores * Z) := r <- pres ;; li <- pZ ;; ret (r, li).
Definition pop : P op :=
  t <- tok ;;
  match t with
  | 0%N => ret OExec | 1%N => ret OTest | 2%N => ret OMatch | 3%N => ret OMatchAll
  | 4%N => ret OReplace | 5%N => ret OSearch | 6%N => ret (OSplit None)
  | 7%N => z <- pZ ;; ret (OSplit (Some z))
  | 8%N => z <- pZ ;; ret (OSetLI z)
  | 9%N => l <- pZ ;; kd <- tok ;; k <- pZ ;; ret (OSplitSE l kd k)
  | 10%N => k <- pZ ;; ret (OReplaceLI k)
  | 11%N => b <- pbool ;; v <- pZ ;; j <- pZ ;; ret (OExecLIObj b v j)
  | _ => b <- pbool ;; k <- pZ ;; ret (OExecArgLI b k)
  end.
Definition pengine : P engine := t <- tok ;; ret (if N.eqb t 0 then RE2 else RX2).
Definition pflags : P flags :=
  g <- pbool ;; i <- pbool ;; m <- pbool ;; s <- pbool ;; u <- pbool ;; y <- pbool ;; ret (mkFlags g i m s u y).
Definition pcase : P tcase :=
  t <- tok ;;
  match t with
  | 0%N =>
      fl <- pflags ;; ncap <- tok ;; names <- many (k <- tok ;; nm <- pstr ;; ret (k, nm)) ;;
      subj <- pstr ;; start <- pZ ;; ops <- many pop ;; eA <- pengine ;; eB <- pengine ;;
      ents <- many (popt pmres) ;; iA <- many pnat ;; iB <- many pnat ;;
      obsd <- many (many pstep) ;; oi <- many pnat ;;
      ret (CRun fl ncap names subj start ops eA eB ents iA iB obsd oi)
  | 1%N => fs <- pstr ;; a <- pbool ;; c <- pbool ;; ret (CFlags fs a c)
  | 2%N => b <- pbool ;; eA <- tok ;; eB <- tok ;; ret (CSyntax b eA eB)
  | _ => ret CFail
  end.
Definition T (l : list int) : tcase :=
  match pcase (map un l) with Some (c, []) => c | _ => CFail end.
