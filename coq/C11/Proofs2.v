(* C11 — proofs, part 2: the combined equality, refutations (F6), honest handlers, lies,
   n-layer forwarding, revocation. *)
From Coq Require Import List NArith Bool Lia.
Import ListNotations.
From Verif.C11 Require Import Model Proofs.

(* ---------------------------------------------------------------------------------------- *)
(* checks_eq_spec                                                                            *)

Theorem checks_eq_spec : forall c t, wf t = true -> goja_check c t = spec_check c t.
Proof.
  intros c t Hwf. destruct c; simpl in *.
  - apply getproto_eq.
  - apply setproto_eq.
  - apply isext_eq.
  - apply prevext_eq.
  - apply gopd_eq.
  - destruct (desc_invalid d) eqn:Hinv; [reflexivity|]. apply define_eq; assumption.
  - apply has_eq.
  - apply get_eq.
  - apply set_eq.
  - apply delete_eq.
  - apply ownkeys_eq; assumption.
  - reflexivity.
  - reflexivity.
Qed.

Definition acc_target : target := mkT true None [(1%N, PAcc (Some 1%N) None false false)].
Definition data_target : target := mkT true None [(1%N, PData 1%N false false false)].
Definition undef_acc_target : target := mkT true None [(1%N, PAcc None None true true)].

(* the corpus cases of the repaired finding F6 now agree (regression witnesses) *)
Theorem f6_repaired :
  goja_check (CGopd 1%N (GDesc (of_prop (PAcc (Some 1%N) None false false)))) acc_target
    = RDesc (Some (PAcc (Some 1%N) None false false)) /\
  goja_check (CGopd 1%N (GDesc (of_prop (PAcc (Some 2%N) None false false)))) acc_target = RTypeError /\
  goja_check (CDefine 1%N (mkD None None None None (Some (Some 1%N)) None) true) data_target = RTypeError.
Proof. vm_compute. repeat split; reflexivity. Qed.

(* the former witness of F6c now agrees with the spec (regression) *)
Theorem f6c_repaired :
  goja_check (CGopd 1%N (GDesc (of_prop (PAcc None None true true)))) undef_acc_target
    = RDesc (Some (PAcc None None true true)).
Proof. reflexivity. Qed.

(* ---------------------------------------------------------------------------------------- *)
(* property tables                                                                           *)

Lemma find_set_same : forall k p ps, find_prop k (set_prop k p ps) = Some p.
Proof.
  induction ps as [|[k' p'] r IH]; simpl.
  - rewrite N.eqb_refl. reflexivity.
  - destruct (N.eqb k k') eqn:E; simpl; [rewrite N.eqb_refl; reflexivity|rewrite E; assumption].
Qed.

Lemma mem_keys_set : forall x k p ps, mem x (map fst (set_prop k p ps)) = mem x (map fst ps) || N.eqb x k.
Proof.
  induction ps as [|[k' p'] r IH]; simpl.
  - rewrite orb_false_r. reflexivity.
  - destruct (N.eqb k k') eqn:E; simpl.
    + apply N.eqb_eq in E. subst k'. destruct (N.eqb x k); simpl; [reflexivity|rewrite orb_false_r; reflexivity].
    + rewrite IH. rewrite orb_assoc. reflexivity.
Qed.

Lemma wf_set : forall k p ps, nodupb (map fst ps) = true -> nodupb (map fst (set_prop k p ps)) = true.
Proof.
  induction ps as [|[k' p'] r IH]; simpl; intros H; [reflexivity|].
  apply andb_true_iff in H. destruct H as [Hk Hr].
  destruct (N.eqb k k') eqn:E; simpl.
  - apply N.eqb_eq in E. subst k'. rewrite Hk, Hr. reflexivity.
  - rewrite IH by assumption. rewrite mem_keys_set. apply negb_true_iff in Hk. rewrite Hk. simpl.
    rewrite N.eqb_sym, E. reflexivity.
Qed.

Lemma mem_keys_del : forall x k ps, mem x (map fst (del_prop k ps)) = true -> mem x (map fst ps) = true.
Proof.
  induction ps as [|[k' p'] r IH]; simpl; intros H; [assumption|].
  destruct (N.eqb k k'); simpl in *.
  - rewrite H. apply orb_true_r.
  - destruct (N.eqb x k'); simpl in *; auto.
Qed.

Lemma wf_del : forall k ps, nodupb (map fst ps) = true -> nodupb (map fst (del_prop k ps)) = true.
Proof.
  induction ps as [|[k' p'] r IH]; simpl; intros H; [reflexivity|].
  apply andb_true_iff in H. destruct H as [Hk Hr].
  destruct (N.eqb k k'); simpl; [assumption|].
  rewrite IH by assumption. rewrite andb_true_r. apply negb_true_iff. apply negb_true_iff in Hk.
  destruct (mem k' (map fst (del_prop k r))) eqn:M; [|reflexivity].
  apply mem_keys_del in M. congruence.
Qed.

Lemma find_del_same : forall k ps, nodupb (map fst ps) = true -> find_prop k (del_prop k ps) = None.
Proof.
  induction ps as [|[k' p'] r IH]; simpl; intros H; [reflexivity|].
  apply andb_true_iff in H. destruct H as [Hk Hr]. apply negb_true_iff in Hk.
  destruct (N.eqb k k') eqn:E; simpl.
  - apply N.eqb_eq in E. subst k'. clear -Hk. induction r as [|[k2 p2] r IH]; simpl in *; [reflexivity|].
    apply orb_false_iff in Hk. destruct Hk as [-> Hk]. auto.
  - rewrite E. auto.
Qed.

Theorem ord_step_wf : forall w o t, wf t = true -> wf (snd (ord_step w o t)) = true.
Proof.
  intros w o [ext proto ps] H. unfold wf, keys_of in *. simpl in *.
  destruct o; simpl; try assumption.
  - destruct (opt_oid_eqb v proto); [assumption|]. destruct ext; assumption.
  - destruct (desc_invalid d); [assumption|].
    destruct (validate_apply ext d (find_prop k ps)); simpl; [apply wf_set|]; assumption.
  - destruct (find_prop k ps); assumption.
  - destruct (find_prop k ps) as [[v w0 e c|[g|] s e c]|]; assumption.
  - destruct (find_prop k ps) as [[v' [|] e c|g [s|] e c]|]; simpl; try assumption; try (apply wf_set; assumption).
    destruct (w_inh_set w k v); [assumption|]. destruct ext; simpl; [apply wf_set|]; assumption.
  - destruct (find_prop k ps) as [c|]; [|assumption]. destruct (p_conf c); simpl; [apply wf_del|]; assumption.
Qed.

(* ---------------------------------------------------------------------------------------- *)
(* honest handlers are accepted                                                              *)

Lemma honest_gopd : forall p ext, spec_gopd (GDesc (of_prop p)) (Some p) ext = RDesc (Some p).
Proof.
  intros [v w e c|g s e c] ext; unfold spec_gopd, spec_compat, of_prop, complete, desc_invalid, desc_empty,
    is_accessor, is_data, is_generic, flag_true, flag_false, to_prop, ob; simpl.
  - destruct c, e, w; simpl; rewrite ?N.eqb_refl; simpl; reflexivity.
  - destruct c, e; simpl; destruct g, s; simpl; rewrite ?N.eqb_refl; simpl; reflexivity.
Qed.

Lemma eqb_refl_opt : forall g, opt_fn_eqb g g = true.
Proof. destruct g; simpl; [apply N.eqb_refl|reflexivity]. Qed.

(* defining twice is idempotent: the descriptor just applied is compatible with the result *)
Lemma honest_define : forall ext d cur p,
  desc_invalid d = false -> validate_apply ext d cur = Some p ->
  spec_define d true (Some p) ext = RBool true.
Proof.
  intros ext [dv dw de dc dg ds] cur p Hinv Hva.
  unfold validate_apply in Hva. destruct cur as [c|].
  - destruct (spec_compat ext (mkD dv dw de dc dg ds) (Some c)) eqn:Hc; simpl in Hva; [|discriminate].
    inversion Hva; subst p; clear Hva.
    unfold spec_define, spec_compat, desc_invalid, desc_empty, is_accessor, is_data, is_generic, flag_true,
      flag_false, od in *; simpl in *.
    destruct c as [v w e c|g s e c]; simpl in *;
    destruct dg as [dg|], ds as [ds|]; simpl in *;
    destruct dv as [dv|], dw as [[|]|]; simpl in *; try discriminate;
    destruct dc as [[|]|], c; simpl in *; try discriminate;
    destruct de as [[|]|], e; simpl in *; try discriminate;
    rewrite ?N.eqb_refl, ?eqb_refl_opt; simpl; try reflexivity;
    try (destruct w; simpl in *; try discriminate; rewrite ?N.eqb_refl; reflexivity).
  - destruct ext; simpl in Hva; [|discriminate]. inversion Hva; subst p; clear Hva.
    unfold spec_define, spec_compat, desc_invalid, desc_empty, is_accessor, is_data, is_generic, flag_true,
      flag_false, od, ob in *; simpl in *.
    destruct dg as [dg|], ds as [ds|]; simpl in *;
    destruct dv as [dv|], dw as [[|]|]; simpl in *; try discriminate;
    destruct dc as [[|]|]; simpl in *;
    destruct de as [[|]|]; simpl in *;
    rewrite ?N.eqb_refl, ?eqb_refl_opt; simpl; reflexivity.
Qed.

Lemma entries_map_EKey : forall l, entries_keys (map EKey l) = Some l.
Proof. induction l; simpl; [reflexivity|rewrite IHl; reflexivity]. Qed.

Lemma mem_refl_forallb : forall l, forallb (fun x => mem x l) l = true.
Proof.
  intros l. apply forallb_forall. intros x Hx. apply mem_In. assumption.
Qed.

Lemma honest_ownkeys : forall t, wf t = true ->
  spec_ownkeys (KList (map EKey (keys_of t))) t = RKeys (keys_of t).
Proof.
  intros t H. rewrite spec_ownkeys_char by assumption. rewrite entries_map_EKey.
  unfold wf in H. rewrite H. simpl. unfold ownkeys_ok, keys_of.
  assert (A : forallb (fun kp : key * prop => mem (fst kp) (map fst (t_props t))) (t_props t) = true).
  { apply forallb_forall. intros [k p] Hin. simpl. apply mem_In. change k with (fst (k, p)). apply in_map. assumption. }
  assert (B : forallb (fun kp : key * prop => p_conf (snd kp) || mem (fst kp) (map fst (t_props t))) (t_props t) = true).
  { apply forallb_forall. intros [k p] Hin. simpl. apply orb_true_iff. right.
    apply mem_In. change k with (fst (k, p)). apply in_map. assumption. }
  rewrite A, B, mem_refl_forallb. rewrite orb_true_r. reflexivity.
Qed.

(* the central lemma: whatever Reflect.<op> answers on the target, reported faithfully by the trap,
   passes the spec's post-trap check on the target's resulting state and becomes the result *)
Theorem honest_accepted : forall w o t, wf t = true ->
  let '(r, t') := ord_step w o t in
  r <> RTypeError ->
  exists c, honest_call o r = Some c /\ spec_check c t' = r.
Proof.
  intros w o [ext proto ps] Hwf. unfold wf, keys_of in Hwf. simpl in Hwf.
  destruct o; simpl.
  - (* getPrototypeOf *) intros _. destruct proto as [p|]; eexists; split; try reflexivity; simpl;
      unfold spec_getproto; simpl; destruct ext; simpl; rewrite ?N.eqb_refl; reflexivity.
  - (* setPrototypeOf *)
    destruct (opt_oid_eqb v proto) eqn:E; [|destruct ext]; intros _; eexists; split; try reflexivity; simpl;
      unfold spec_setproto; simpl; try reflexivity.
    + rewrite E. destruct ext; reflexivity.
  - intros _. eexists; split; [reflexivity|]. simpl. unfold spec_isext. simpl. rewrite eqb_reflx. reflexivity.
  - intros _. eexists; split; [reflexivity|]. reflexivity.
  - (* getOwnPropertyDescriptor *) intros _. destruct (find_prop k ps) as [p|] eqn:F; eexists; (split; [reflexivity|]); simpl; rewrite ?F.
    + apply honest_gopd.
    + reflexivity.
  - (* defineProperty *)
    destruct (desc_invalid d) eqn:Hinv; [intros H; exfalso; apply H; reflexivity|].
    destruct (validate_apply ext d (find_prop k ps)) as [p|] eqn:V; intros _; eexists; (split; [reflexivity|]); simpl; rewrite Hinv.
    + rewrite find_set_same. eapply honest_define; eassumption.
    + reflexivity.
  - (* has *) destruct (find_prop k ps) as [p|] eqn:F; intros _; eexists; (split; [reflexivity|]); simpl; rewrite ?F.
    + reflexivity.
    + destruct (w_inh_has w k); reflexivity.
  - (* get *) destruct (find_prop k ps) as [[v wr e c|[g|] s e c]|] eqn:F; intros _; eexists; (split; [reflexivity|]); simpl; rewrite ?F;
      unfold spec_get; simpl.
    + destruct wr, c; simpl; rewrite ?N.eqb_refl; reflexivity.
    + reflexivity.
    + destruct c; reflexivity.
    + reflexivity.
  - (* set *) destruct (find_prop k ps) as [[v' [|] e c|g [s|] e c]|] eqn:F; simpl.
    + intros _; eexists; (split; [reflexivity|]); simpl. rewrite find_set_same. reflexivity.
    + intros _; eexists; (split; [reflexivity|]); simpl. rewrite ?F. reflexivity.
    + intros _; eexists; (split; [reflexivity|]); simpl. rewrite ?F. destruct c; reflexivity.
    + intros _; eexists; (split; [reflexivity|]); simpl. rewrite ?F. reflexivity.
    + destruct (w_inh_set w k v) as [b|]; [|destruct ext]; simpl; intros _; eexists; (split; [reflexivity|]); simpl.
      * rewrite ?F. destruct b; reflexivity.
      * rewrite find_set_same. reflexivity.
      * rewrite ?F. reflexivity.
  - (* delete *) destruct (find_prop k ps) as [c|] eqn:F; [destruct (p_conf c) eqn:Pc|]; simpl; intros _;
      eexists; (split; [reflexivity|]); simpl.
    + rewrite find_del_same by assumption. reflexivity.
    + rewrite ?F. reflexivity.
    + rewrite ?F. reflexivity.
  - (* ownKeys *) intros _. eexists; split; [reflexivity|]. simpl.
    apply (honest_ownkeys (mkT ext proto ps)). assumption.
Qed.

(* ---------------------------------------------------------------------------------------- *)
(* n layers of forwarding proxies                                                            *)

Lemma layered_wf : forall chk w n o t, wf t = true -> wf (snd (layered chk w n o t)) = true.
Proof.
  induction n; simpl; intros o t H.
  - apply ord_step_wf; assumption.
  - specialize (IHn o t H). destruct (layered chk w n o t) as [r t']. simpl in *.
    destruct r; simpl; try assumption; destruct (honest_call o _); assumption.
Qed.

Theorem forwarding_transparent : forall w n o t, wf t = true ->
  layered spec_check w n o t = ord_step w o t.
Proof.
  induction n; intros o t H; simpl; [reflexivity|].
  rewrite IHn by assumption.
  pose proof (honest_accepted w o t H) as HA.
  destruct (ord_step w o t) as [r t'].
  destruct r; try reflexivity;
    (destruct HA as [c [Hc Hs]]; [discriminate|]; rewrite Hc, Hs; reflexivity).
Qed.

(* the same through goja's own checks: no guard left *)
Theorem goja_forwarding_transparent : forall w n o t, wf t = true ->
  layered goja_check w n o t = ord_step w o t.
Proof.
  induction n; intros o t H; simpl; [reflexivity|].
  rewrite IHn by assumption.
  pose proof (honest_accepted w o t H) as HA.
  pose proof (ord_step_wf w o t H) as HW.
  destruct (ord_step w o t) as [r t']. simpl in HW.
  destruct r; try reflexivity;
    (destruct HA as [c [Hc Hs]]; [discriminate|]; rewrite Hc;
     rewrite (checks_eq_spec c t' HW), Hs; reflexivity).
Qed.

Definition w0 : world := mkW (fun _ => false) (fun _ => vundef) (fun _ _ => None) (fun f => f).

(* ---------------------------------------------------------------------------------------- *)
(* lies are rejected: the exact sets                                                         *)

Theorem lying_has : forall k r t, spec_check (CHas k r) t = RTypeError <->
  r = false /\ exists c, find_prop k (t_props t) = Some c /\ (p_conf c = false \/ t_ext t = false).
Proof.
  intros k r t. simpl. unfold spec_has. destruct r; [split; [discriminate|intros [? _]; discriminate]|].
  destruct (find_prop k (t_props t)) as [c|].
  - destruct (p_conf c) eqn:Pc, (t_ext t) eqn:Ex; simpl; split; intros H; try discriminate; try reflexivity;
      try (split; [reflexivity|]; exists c; auto).
    destruct H as [_ [c' [E [H|H]]]]; inversion E; subst; congruence.
  - split; [discriminate|]. intros [_ [c [E _]]]. discriminate.
Qed.

Theorem lying_delete : forall k r t, spec_check (CDelete k r) t = RTypeError <->
  r = true /\ exists c, find_prop k (t_props t) = Some c /\ (p_conf c = false \/ t_ext t = false).
Proof.
  intros k r t. simpl. unfold spec_delete. destruct r; simpl; [|split; [discriminate|intros [? _]; discriminate]].
  destruct (find_prop k (t_props t)) as [c|].
  - destruct (p_conf c) eqn:Pc, (t_ext t) eqn:Ex; simpl; split; intros H; try discriminate; try reflexivity;
      try (split; [reflexivity|]; exists c; auto).
    destruct H as [_ [c' [E [H|H]]]]; inversion E; subst; congruence.
  - split; [discriminate|]. intros [_ [c [E _]]]. discriminate.
Qed.

Theorem lying_get : forall k r t, spec_check (CGet k r) t = RTypeError <->
  (exists v e, find_prop k (t_props t) = Some (PData v false e false) /\ r <> v) \/
  (exists s e, find_prop k (t_props t) = Some (PAcc None s e false) /\ r <> vundef).
Proof.
  intros k r t. simpl. unfold spec_get.
  destruct (find_prop k (t_props t)) as [[v [|] e [|]|[g|] s e [|]]|]; simpl;
    try (split; [discriminate|intros [[? [? [E _]]]|[? [? [E _]]]]; discriminate]).
  - destruct (N.eqb r v) eqn:E; split; intros H; try discriminate; try reflexivity.
    + apply N.eqb_eq in E. destruct H as [[v' [e' [E' N']]]|[? [? [E' _]]]]; inversion E'; subst; congruence.
    + left. exists v, e. split; [reflexivity|]. apply N.eqb_neq. assumption.
  - destruct (N.eqb r vundef) eqn:E; split; intros H; try discriminate; try reflexivity.
    + apply N.eqb_eq in E. destruct H as [[v' [e' [E' _]]]|[? [? [E' N']]]]; inversion E'; subst; congruence.
    + right. exists s, e. split; [reflexivity|]. apply N.eqb_neq. assumption.
Qed.

Theorem lying_set : forall k v r t, spec_check (CSet k v r) t = RTypeError <->
  r = true /\
  ((exists v' e, find_prop k (t_props t) = Some (PData v' false e false) /\ v <> v') \/
   (exists g e, find_prop k (t_props t) = Some (PAcc g None e false))).
Proof.
  intros k v r t. simpl. unfold spec_set. destruct r; simpl; [|split; [discriminate|intros [? _]; discriminate]].
  destruct (find_prop k (t_props t)) as [[v' [|] e [|]|g [s|] e [|]]|]; simpl;
    try (split; [discriminate|intros [_ [[? [? [E _]]]|[? [? E]]]]; discriminate]).
  - destruct (N.eqb v v') eqn:E; split; intros H; try discriminate; try reflexivity.
    + apply N.eqb_eq in E. destruct H as [_ [[v2 [e' [E' N']]]|[? [? E']]]]; inversion E'; subst; congruence.
    + split; [reflexivity|]. left. exists v', e. split; [reflexivity|]. apply N.eqb_neq. assumption.
  - split; [intros _|reflexivity]. split; [reflexivity|]. right. exists g, e. reflexivity.
Qed.

Theorem lying_extensibility : forall t,
  (forall r, spec_check (CIsExt r) t = RTypeError <-> r <> t_ext t) /\
  (forall r, spec_check (CPrevExt r) t = RTypeError <-> r = true /\ t_ext t = true).
Proof.
  intros [ext proto ps]; split; intros r; simpl; unfold spec_isext, spec_prevext; simpl;
    destruct r, ext; simpl; split; intros H; try discriminate; try reflexivity; try congruence;
    try (destruct H; discriminate); auto.
Qed.

Theorem lying_prototype : forall t,
  (forall r, spec_check (CGetProto r) t = RTypeError <->
     r = PRNonObj \/ (t_ext t = false /\
       match r with PRObj o => t_proto t <> Some o | PRNull => t_proto t <> None | PRNonObj => True end)) /\
  (forall v r, spec_check (CSetProto v r) t = RTypeError <-> r = true /\ t_ext t = false /\ v <> t_proto t).
Proof.
  intros [ext proto ps]; split.
  - intros [o| |]; simpl; unfold spec_getproto; simpl; destruct ext; simpl.
    + split; [discriminate|]. intros [H|[H _]]; discriminate.
    + destruct proto as [p|]; simpl.
      * destruct (N.eqb o p) eqn:E.
        -- apply N.eqb_eq in E. subst. split; [discriminate|]. intros [H|[_ H]]; [discriminate|congruence].
        -- apply N.eqb_neq in E. split; [|reflexivity]. intros _. right. split; [reflexivity|]. congruence.
      * split; [|reflexivity]. intros _. right. split; [reflexivity|discriminate].
    + split; [discriminate|]. intros [H|[H _]]; discriminate.
    + destruct proto as [p|]; simpl.
      * split; [|reflexivity]. intros _. right. split; [reflexivity|discriminate].
      * split; [discriminate|]. intros [H|[_ H]]; [discriminate|congruence].
    + split; [|reflexivity]. auto.
    + split; [|reflexivity]. auto.
  - intros v r. simpl. unfold spec_setproto. simpl. destruct r; simpl; [|split; [discriminate|intros [? _]; discriminate]].
    destruct ext; simpl; [split; [discriminate|intros [_ [? _]]; discriminate]|].
    destruct (opt_oid_eqb v proto) eqn:E.
    + split; [discriminate|]. intros [_ [_ H]]. exfalso. apply H.
      destruct v, proto; simpl in E; try discriminate; try reflexivity. apply N.eqb_eq in E. congruence.
    + split; [|reflexivity]. intros _. split; [reflexivity|]. split; [reflexivity|]. intros ->.
      destruct proto; simpl in E; [rewrite N.eqb_refl in E|]; discriminate.
Qed.

(* ownKeys: exactly the results with a non-key entry, a duplicate, a missing non-configurable key,
   or - on a non-extensible target - any missing or extra key are rejected *)
Theorem lying_ownkeys : forall l t, wf t = true ->
  (spec_check (COwnKeys (KList l)) t <> RTypeError <->
   exists u, entries_keys l = Some u /\ NoDup u /\
     (forall k p, In (k, p) (t_props t) -> p_conf p = false -> In k u) /\
     (t_ext t = false -> (forall k, In k (keys_of t) -> In k u) /\ (forall k, In k u -> In k (keys_of t)))).
Proof.
  intros l t Hwf. change (spec_check (COwnKeys (KList l)) t) with (spec_ownkeys (KList l) t).
  rewrite spec_ownkeys_char by assumption.
  destruct (entries_keys l) as [u|]; [|split; [intros H; exfalso; apply H; reflexivity|intros [u [E _]]; discriminate]].
  destruct (nodupb u && ownkeys_ok (t_ext t) (t_props t) u) eqn:B.
  - split; [intros _|discriminate]. exists u. split; [reflexivity|].
    apply andb_true_iff in B. destruct B as [Nd Ok]. split; [apply nodupb_NoDup; assumption|].
    unfold ownkeys_ok in Ok. apply andb_true_iff in Ok. destruct Ok as [O1 O2]. split.
    + intros k p Hin Pc. rewrite forallb_forall in O1. specialize (O1 (k, p) Hin). simpl in O1.
      rewrite Pc in O1. simpl in O1. apply mem_In. assumption.
    + intros Ex. rewrite Ex in O2. simpl in O2. apply andb_true_iff in O2. destruct O2 as [O2 O3]. split.
      * intros k Hin. unfold keys_of in Hin. apply in_map_iff in Hin. destruct Hin as [[k' p] [E Hin]]. simpl in E. subst k'.
        rewrite forallb_forall in O2. specialize (O2 (k, p) Hin). apply mem_In. assumption.
      * intros k Hin. rewrite forallb_forall in O3. apply mem_In. apply O3. assumption.
  - split; [intros H; exfalso; apply H; reflexivity|]. intros [u' [E [Nd [H1 H2]]]]. inversion E; subst u'. exfalso.
    apply andb_false_iff in B. destruct B as [B|B].
    + apply nodupb_NoDup in Nd. congruence.
    + unfold ownkeys_ok in B. apply andb_false_iff in B. destruct B as [B|B].
      * assert (forallb (fun kp : key * prop => p_conf (snd kp) || mem (fst kp) u) (t_props t) = true); [|congruence].
        apply forallb_forall. intros [k p] Hin. simpl. destruct (p_conf p) eqn:Pc; [reflexivity|]. simpl.
        apply mem_In. eapply H1; eassumption.
      * destruct (t_ext t); simpl in B; [discriminate|]. destruct (H2 eq_refl) as [H3 H4].
        apply andb_false_iff in B. destruct B as [B|B].
        -- assert (forallb (fun kp : key * prop => mem (fst kp) u) (t_props t) = true); [|congruence].
           apply forallb_forall. intros [k p] Hin. simpl. apply mem_In. apply H3. unfold keys_of.
           change k with (fst (k, p)). apply in_map. assumption.
        -- assert (forallb (fun x : key => mem x (map fst (t_props t))) u = true); [|congruence].
           apply forallb_forall. intros k Hin. apply mem_In. apply H4. assumption.
Qed.

(* getOwnPropertyDescriptor / defineProperty: each guarantee of the target, violated, is rejected *)
Theorem lying_gopd : forall k t,
  (* "does not exist" for a non-configurable property or on a non-extensible target *)
  (forall c, find_prop k (t_props t) = Some c -> p_conf c = false \/ t_ext t = false ->
     spec_check (CGopd k GUndef) t = RTypeError) /\
  (* a non-object *)
  spec_check (CGopd k GNonObj) t = RTypeError /\
  (* a property that does not exist, on a non-extensible target *)
  (forall d, find_prop k (t_props t) = None -> t_ext t = false -> spec_check (CGopd k (GDesc d)) t = RTypeError) /\
  (* reporting non-configurable what is absent or configurable *)
  (forall d, flag_false (d_conf (complete d)) = true ->
     match find_prop k (t_props t) with None => True | Some c => p_conf c = true end ->
     spec_check (CGopd k (GDesc d)) t = RTypeError) /\
  (* reporting configurable what is non-configurable *)
  (forall d c, find_prop k (t_props t) = Some c -> p_conf c = false -> d_conf d = Some true ->
     spec_check (CGopd k (GDesc d)) t = RTypeError) /\
  (* a different value for a non-configurable non-writable data property *)
  (forall d v v' e, find_prop k (t_props t) = Some (PData v false e false) -> d_value d = Some v' -> v' <> v ->
     spec_check (CGopd k (GDesc d)) t = RTypeError) /\
  (* a different getter or setter for a non-configurable accessor *)
  (forall d g s e g', find_prop k (t_props t) = Some (PAcc g s e false) -> d_get d = Some g' -> g' <> g ->
     spec_check (CGopd k (GDesc d)) t = RTypeError) /\
  (forall d g s e s', find_prop k (t_props t) = Some (PAcc g s e false) -> d_set d = Some s' -> s' <> s ->
     spec_check (CGopd k (GDesc d)) t = RTypeError).
Proof.
  intros k t. simpl. repeat split.
  - intros c F H. rewrite F. unfold spec_gopd. destruct H as [H|H]; rewrite H; simpl; [reflexivity|].
    destruct (p_conf c); reflexivity.
  - intros d F Ex. rewrite F, Ex. unfold spec_gopd. destruct (desc_invalid d); reflexivity.
  - intros d Hc Hcur. unfold spec_gopd. destruct (desc_invalid d); [reflexivity|].
    destruct (spec_compat _ _ _); simpl; [|reflexivity]. rewrite Hc.
    destruct (find_prop k (t_props t)) as [c|]; [rewrite Hcur|]; reflexivity.
  - intros [dv dw de dc dg ds] c F Pc Dc. simpl in Dc. subst dc. rewrite F. unfold spec_gopd.
    destruct (desc_invalid _); [reflexivity|].
    assert (spec_compat (t_ext t) (complete (mkD dv dw de (Some true) dg ds)) (Some c) = false) as ->; [|reflexivity].
    unfold spec_compat, complete, desc_empty; simpl. rewrite Pc.
    destruct dg, ds, dv, dw; simpl; reflexivity.
  - intros [dv dw de dc dg ds] v v' e F Dv Nv. simpl in Dv. subst dv. rewrite F. unfold spec_gopd.
    destruct (desc_invalid _) eqn:Hinv; [reflexivity|].
    assert (spec_compat (t_ext t) (complete (mkD (Some v') dw de dc dg ds)) (Some (PData v false e false)) = false) as ->; [|reflexivity].
    unfold desc_invalid, is_accessor, is_data in Hinv. simpl in Hinv.
    destruct dg, ds; simpl in Hinv; try discriminate.
    unfold spec_compat, complete, desc_empty, is_generic, is_accessor, is_data, flag_true; simpl.
    apply N.eqb_neq in Nv. rewrite Nv.
    destruct dc as [[|]|]; simpl; try reflexivity; destruct de as [[|]|], e; simpl; try reflexivity;
      destruct dw as [[|]|]; reflexivity.
  - intros [dv dw de dc dg ds] g s e g' F Dg Ng. simpl in Dg. subst dg. rewrite F. unfold spec_gopd.
    destruct (desc_invalid _) eqn:Hinv; [reflexivity|].
    assert (spec_compat (t_ext t) (complete (mkD dv dw de dc (Some g') ds)) (Some (PAcc g s e false)) = false) as ->; [|reflexivity].
    unfold desc_invalid, is_accessor, is_data in Hinv. simpl in Hinv. rewrite orb_true_r in Hinv. simpl in Hinv.
    destruct dv, dw; simpl in Hinv; try discriminate.
    unfold spec_compat, complete, desc_empty, is_generic, is_accessor, is_data, flag_true; simpl.
    assert (opt_fn_eqb g' g = false) as ->.
    { destruct g', g; simpl; try reflexivity; [apply N.eqb_neq; congruence|congruence]. }
    destruct dc as [[|]|]; simpl; try reflexivity; destruct de as [[|]|], e; simpl; try reflexivity;
      destruct ds; reflexivity.
  - intros [dv dw de dc dg ds] g s e s' F Ds Ns. simpl in Ds. subst ds. rewrite F. unfold spec_gopd.
    destruct (desc_invalid _) eqn:Hinv; [reflexivity|].
    assert (spec_compat (t_ext t) (complete (mkD dv dw de dc dg (Some s'))) (Some (PAcc g s e false)) = false) as ->; [|reflexivity].
    unfold desc_invalid, is_accessor, is_data in Hinv. simpl in Hinv.
    destruct dv, dw; simpl in Hinv; try discriminate.
    assert (Hs : opt_fn_eqb s' s = false).
    { destruct s', s; simpl; try reflexivity; [apply N.eqb_neq; congruence|congruence]. }
    destruct dg as [dg|]; unfold spec_compat, complete, desc_empty, is_generic, is_accessor, is_data, flag_true; simpl;
      rewrite Hs; simpl;
      destruct dc as [[|]|]; simpl; try reflexivity; destruct de as [[|]|], e; simpl; try reflexivity;
      try (destruct (opt_fn_eqb dg g); reflexivity); destruct g; reflexivity.
Qed.

Theorem lying_define : forall k d t, desc_invalid d = false ->
  (* claiming success for a new property on a non-extensible target *)
  (find_prop k (t_props t) = None -> t_ext t = false -> spec_check (CDefine k d true) t = RTypeError) /\
  (* claiming to have made non-configurable what is absent or still configurable *)
  (d_conf d = Some false ->
     match find_prop k (t_props t) with None => True | Some c => p_conf c = true end ->
     spec_check (CDefine k d true) t = RTypeError) /\
  (* claiming success for a descriptor the target's property is incompatible with *)
  (forall c, find_prop k (t_props t) = Some c -> spec_compat (t_ext t) d (Some c) = false ->
     spec_check (CDefine k d true) t = RTypeError) /\
  (* claiming to have made non-writable a non-configurable property that is still writable *)
  (forall v e, find_prop k (t_props t) = Some (PData v true e false) -> d_writable d = Some false ->
     spec_check (CDefine k d true) t = RTypeError).
Proof.
  intros k d t Hinv. unfold spec_check. rewrite Hinv. unfold spec_define. repeat split.
  - intros F Ex. rewrite F, Ex. reflexivity.
  - intros Dc Hcur. rewrite Dc. destruct (find_prop k (t_props t)) as [c|].
    + rewrite Hcur. destruct (spec_compat (t_ext t) d (Some c)); reflexivity.
    + destruct (t_ext t); reflexivity.
  - intros c F Hc. rewrite F, Hc. reflexivity.
  - intros v e F Dw. rewrite F, Dw. destruct (spec_compat (t_ext t) d (Some (PData v true e false))); [|reflexivity].
    simpl. rewrite andb_false_r. reflexivity.
Qed.

Theorem lying_construct : forall r t, spec_check (CConstruct r) t = RTypeError <-> r = None.
Proof. intros [o|] t; simpl; split; intros; try discriminate; reflexivity. Qed.

(* the same lies are rejected by goja's own checks: every trap *)
Theorem goja_rejects_lies : forall c t, wf t = true ->
  (goja_check c t = RTypeError <-> spec_check c t = RTypeError).
Proof. intros c t Hwf. rewrite (checks_eq_spec c t Hwf). tauto. Qed.

(* ---------------------------------------------------------------------------------------- *)
(* revocation                                                                                *)

Theorem revoked_throws : forall c t, goja_proxy_op true c t = RTypeError /\ spec_proxy_op true c t = RTypeError.
Proof. intros; split; reflexivity. Qed.

Theorem live_proxy_checks : forall c t, goja_proxy_op false c t = goja_check c t.
Proof. reflexivity. Qed.

(* ---------------------------------------------------------------------------------------- *)
(* non-vacuity: the hypotheses of the theorems above are satisfiable and the conclusions bite  *)

Definition ex_target : target :=
  mkT false (Some 1%N) [(1%N, PData 1%N false true false); (2%N, PAcc None (Some 2%N) false false); (4%N, PData 2%N true true true)].

Example ex_checks_guard : wf ex_target = true /\
  goja_check (CHas 1%N false) ex_target = RTypeError /\ spec_check (CHas 1%N true) ex_target = RBool true.
Proof. vm_compute. repeat split; reflexivity. Qed.

Example ex_ownkeys : goja_check (COwnKeys (KList [EKey 1%N; EKey 2%N; EKey 4%N])) ex_target = RKeys [1%N; 2%N; 4%N] /\
  goja_check (COwnKeys (KList [EKey 1%N; EKey 2%N])) ex_target = RTypeError /\
  goja_check (COwnKeys (KList [EKey 1%N; EKey 2%N; EKey 4%N; EKey 4%N])) ex_target = RTypeError /\
  goja_check (COwnKeys (KList [EKey 1%N; EKey 2%N; EKey 4%N; EKey 5%N])) ex_target = RTypeError.
Proof. vm_compute. repeat split; reflexivity. Qed.

Example ex_honest : ord_step w0 (ODefine 4%N (mkD (Some 5%N) None None (Some false) None None)) ex_target
  = (RBool true, mkT false (Some 1%N) [(1%N, PData 1%N false true false); (2%N, PAcc None (Some 2%N) false false); (4%N, PData 5%N true true false)])
  /\ layered goja_check w0 3 (ODefine 4%N (mkD (Some 5%N) None None (Some false) None None)) ex_target
     = ord_step w0 (ODefine 4%N (mkD (Some 5%N) None None (Some false) None None)) ex_target
  /\ layered goja_check w0 2 (OGopd 2%N) ex_target = ord_step w0 (OGopd 2%N) ex_target.
Proof. vm_compute. repeat split; reflexivity. Qed.

Example ex_lying_get : spec_check (CGet 1%N 2%N) ex_target = RTypeError /\ spec_check (CGet 2%N 1%N) ex_target = RTypeError /\
  spec_check (CGet 1%N 1%N) ex_target = RVal 1%N /\ spec_check (CSet 2%N 1%N true) ex_target = RBool true /\
  spec_check (CSet 1%N 2%N true) ex_target = RTypeError.
Proof. vm_compute. repeat split; reflexivity. Qed.
