(* C11 — executable instantiation used by the correspondence check (no proofs). *)
From Coq Require Import List NArith Bool.
Import ListNotations.
From Verif.C11 Require Export Model Consts.

Definition prop_eqb (a b : prop) : bool :=
  match a, b with
  | PData v w e c, PData v' w' e' c' => N.eqb v v' && Bool.eqb w w' && Bool.eqb e e' && Bool.eqb c c'
  | PAcc g s e c, PAcc g' s' e' c' => opt_fn_eqb g g' && opt_fn_eqb s s' && Bool.eqb e e' && Bool.eqb c c'
  | _, _ => false
  end.

Fixpoint keys_eqb (a b : list N) : bool :=
  match a, b with
  | [], [] => true
  | x :: a', y :: b' => N.eqb x y && keys_eqb a' b'
  | _, _ => false
  end.

Definition res_eqb (a b : res) : bool :=
  match a, b with
  | RTypeError, RTypeError => true
  | RBool x, RBool y => Bool.eqb x y
  | RVal x, RVal y => N.eqb x y
  | RProto x, RProto y => opt_oid_eqb x y
  | RDesc None, RDesc None => true
  | RDesc (Some p), RDesc (Some q) => prop_eqb p q
  | RKeys x, RKeys y => keys_eqb x y
  | RObj x, RObj y => N.eqb x y
  | _, _ => false
  end.

Fixpoint props_eqb (a b : list (key * prop)) : bool :=
  match a, b with
  | [], [] => true
  | (k, p) :: a', (k', p') :: b' => N.eqb k k' && prop_eqb p p' && props_eqb a' b'
  | _, _ => false
  end.

Definition target_eqb (a b : target) : bool :=
  Bool.eqb (t_ext a) (t_ext b) && opt_oid_eqb (t_proto a) (t_proto b) && props_eqb (t_props a) (t_props b).

(* a small concrete world for model-checked histories: nothing is inherited, getter f returns f+10 *)
Definition tworld : world :=
  mkW (fun _ => false) (fun _ => vundef) (fun _ _ => None) (fun f => (f + 10)%N).

Fixpoint run_ops (ops : list op) (t : target) : list res * target :=
  match ops with
  | [] => ([], t)
  | o :: r => let '(x, t') := ord_step tworld o t in
              let '(xs, t'') := run_ops r t' in (x :: xs, t'')
  end.

(* own keys are listed strings first, then symbols (10.1.11); the model keeps one insertion-ordered list, so
   model-side key lists are normalised: the symbol key (code 4) moves behind the string keys *)
Definition is_sym (k : key) : bool := N.eqb k 4.
Definition norm_keys (l : list key) : list key := filter (fun k => negb (is_sym k)) l ++ filter is_sym l.
Definition norm_props (ps : list (key * prop)) : list (key * prop) :=
  filter (fun kp => negb (is_sym (fst kp))) ps ++ filter (fun kp => is_sym (fst kp)) ps.
Definition norm_res (r : res) : res := match r with RKeys l => RKeys (norm_keys l) | _ => r end.
Definition norm_target (t : target) : target := mkT (t_ext t) (t_proto t) (norm_props (t_props t)).

Fixpoint all_res_eqb (a b : list res) : bool :=
  match a, b with
  | [], [] => true
  | x :: a', y :: b' => res_eqb x y && all_res_eqb a' b'
  | _, _ => false
  end.

Inductive tcase :=
(* lattice cell: post-trap target, the operation with its trap result, the observed outcome of the
   operation on the proxy, and whether the target's dump was unchanged by the operation's checks *)
| TLat (t : target) (c : call) (o : res) (unchanged : bool)
(* forwarding transparency, implementation against implementation: canonical observations of the
   same history applied directly and through the forwarding proxy *)
(* (one step is exempted by the harness because the SPEC itself makes the proxy differ: defineProperty on an
   Array's "length" with a value v, not SameValue to ToUint32(v), that ends up non-writable - 10.4.2.4 stores
   ToUint32(v), 10.5.6 step 16 compares the original v; the ordinary-object theorems are unaffected) *)
| THist (direct proxied : list N)
(* the same, checked against the target model: history on a modelled plain object; observations on
   the proxied object and its final state *)
| TModel (t0 : target) (ops : list op) (obs : list res) (final : target)
(* revoked proxy: for every operation, whether it threw TypeError *)
| TRev (threw : list bool)
| TFail.

Definition check_case (c : tcase) : bool :=
  match c with
  | TLat t cl o unchanged => res_eqb o (spec_check cl t) && unchanged
  | THist d p => keys_eqb d p
  | TModel t0 ops obs final =>
    let '(rs, t') := run_ops ops t0 in all_res_eqb obs (map norm_res rs) && target_eqb final (norm_target t')
  | TRev l => forallb (fun b => b) l && negb (Nat.eqb (length l) 0)
  | TFail => false
  end.

Fixpoint mismatch_from (i : N) (cs : list tcase) : list N :=
  match cs with
  | [] => []
  | c :: r => if check_case c then mismatch_from (N.succ i) r else i :: mismatch_from (N.succ i) r
  end.
Definition mismatch_ids := mismatch_from 0%N.

Inductive texpected :=
| ELat (spec goja : res) (impl_is_goja : bool)
| EHist (first_diff : option nat)
| EModel (rs : list res) (final : target)
| ERev
| EFail.

Fixpoint first_diff (i : nat) (a b : list N) : option nat :=
  match a, b with
  | [], [] => None
  | x :: a', y :: b' => if N.eqb x y then first_diff (S i) a' b' else Some i
  | _, _ => Some i
  end.

Definition expected (c : tcase) : texpected :=
  match c with
  | TLat t cl o u => ELat (spec_check cl t) (goja_check cl t) (res_eqb o (goja_check cl t) && u)
  | THist d p => EHist (first_diff 0 d p)
  | TModel t0 ops _ _ => let '(rs, t') := run_ops ops t0 in EModel (map norm_res rs) (norm_target t')
  | TRev _ => ERev
  | TFail => EFail
  end.

(* does the observation agree with the implementation-shaped model I?  (used to classify a
   disagreement with S as a recorded finding: impl <> S, impl = I, inside the finding's region) *)
Definition impl_is_I (c : tcase) : bool :=
  match c with
  | TLat t cl o u => res_eqb o (goja_check cl t) && u
  | _ => false
  end.
