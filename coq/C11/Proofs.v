(* C11 — proofs: goja's post-trap checks = ECMA-262 10.5 post-conditions; honest handlers are
   accepted; lies are rejected; n-layer forwarding is transparent. *)
From Coq Require Import List NArith Bool Lia.
Import ListNotations.
From Verif.C11 Require Import Model.

Ltac dm :=
  match goal with
  | |- context [match ?x with _ => _ end] => destruct x eqn:?
  | |- context [if ?x then _ else _] => destruct x eqn:?
  end.
Ltac bash := simpl in *; repeat (dm; simpl in *; try congruence; try reflexivity).

(* ---------------------------------------------------------------------------------------- *)
(* the simple traps: unconditional equality                                                  *)

Lemma getproto_eq : forall r t, goja_getproto r t = spec_getproto r t.
Proof. intros [o| |] [ext proto ps]; unfold goja_getproto, spec_getproto; simpl; destruct ext; simpl;
  try reflexivity; destruct proto; simpl; try reflexivity; destruct (N.eqb _ _); reflexivity. Qed.

Lemma setproto_eq : forall v r t, goja_setproto v r t = spec_setproto v r t.
Proof. intros v [|] [ext proto ps]; unfold goja_setproto, spec_setproto; simpl; try reflexivity.
  destruct ext; simpl; try reflexivity. destruct (opt_oid_eqb v proto); reflexivity. Qed.

Lemma isext_eq : forall r t, goja_isext r t = spec_isext r t.
Proof. intros r [ext proto ps]; unfold goja_isext, spec_isext; simpl. destruct (Bool.eqb r ext); reflexivity. Qed.

Lemma prevext_eq : forall r t, goja_prevext r t = spec_prevext r t.
Proof. intros [|] [[|] proto ps]; reflexivity. Qed.

Lemma has_eq : forall r cur ext, goja_has r cur ext = spec_has r cur ext.
Proof. intros [|] [c|] ext; unfold goja_has, spec_has; simpl; try reflexivity. Qed.

Lemma get_eq : forall r cur, goja_get r cur = spec_get r cur.
Proof.
  intros r [[v w e c|g s e c]|]; unfold goja_get, spec_get; simpl; try reflexivity.
  - destruct w, c; simpl; try reflexivity. destruct (N.eqb r v); reflexivity.
  - destruct c, g; simpl; try reflexivity. unfold vundef. destruct (N.eqb r 0); reflexivity.
Qed.

Lemma set_eq : forall v r cur, goja_set v r cur = spec_set v r cur.
Proof.
  intros v [|] [[v' w e c|g s e c]|]; unfold goja_set, spec_set; simpl; try reflexivity.
  - destruct w, c; simpl; try reflexivity. rewrite N.eqb_sym. destruct (N.eqb v v'); reflexivity.
  - destruct c, s; reflexivity.
Qed.

Lemma delete_eq : forall r cur ext, goja_delete r cur ext = spec_delete r cur ext.
Proof. intros [|] [c|] ext; reflexivity. Qed.

(* ---------------------------------------------------------------------------------------- *)
(* descriptor compatibility                                                                  *)

Lemma same_fn_goja_eq : forall d c, same_fn_goja d c = opt_fn_eqb d c.
Proof. intros [f|] [g|]; reflexivity. Qed.

(* after fix beda41a the two decision functions coincide on every (well-formed) descriptor *)
Lemma compat_eq : forall ext d cur,
  desc_invalid d = false -> goja_compat ext d cur = spec_compat ext d cur.
Proof.
  intros ext [dv dw de dc dg ds] [[v w e c|g s e c]|] Hinv; [| |reflexivity];
  unfold goja_compat, spec_compat, desc_invalid, desc_empty, is_generic, is_accessor, is_data,
    flag_true, flag_false in *; simpl in *; rewrite ?same_fn_goja_eq;
  destruct c; simpl in *; try reflexivity;
  destruct dc as [[|]|]; simpl in *; try reflexivity;
  destruct de as [[|]|], e; simpl in *; try reflexivity;
  destruct dv, dw as [[|]|], dg, ds; simpl in *; try reflexivity; try discriminate;
  try (destruct w; simpl; try reflexivity; try (destruct (N.eqb _ _); reflexivity));
  unfold same_fn_goja, opt_fn_eqb;
  repeat match goal with |- context [match ?x with _ => _ end] => destruct x; simpl end; reflexivity.
Qed.

Lemma complete_valid : forall d, desc_invalid d = false -> desc_invalid (complete d) = false.
Proof.
  intros [dv dw de dc dg ds]; unfold desc_invalid, complete, is_accessor, is_data; simpl.
  destruct dv, dw, dg, ds; simpl; intros; try reflexivity; try discriminate.
Qed.

Lemma goja_to_prop_eq : forall d, goja_to_prop d = to_prop d.
Proof.
  intros [dv dw de dc dg ds]; unfold goja_to_prop, to_prop, is_accessor, od, ob; simpl.
  destruct dg, ds; reflexivity.
Qed.

Lemma gopd_eq : forall r cur ext, goja_gopd r cur ext = spec_gopd r cur ext.
Proof.
  intros [|d|] cur ext; try reflexivity.
  unfold goja_gopd, spec_gopd. destruct (desc_invalid d) eqn:Hinv; [reflexivity|].
  rewrite (compat_eq ext (complete d) cur (complete_valid d Hinv)).
  rewrite goja_to_prop_eq. reflexivity.
Qed.

Lemma define_eq : forall d (r : bool) cur ext,
  desc_invalid d = false -> goja_define d r cur ext = spec_define d r cur ext.
Proof.
  intros d [|] cur ext Hinv; [|reflexivity].
  unfold goja_define, spec_define; simpl. destruct cur as [c|]; [|reflexivity].
  rewrite (compat_eq ext d (Some c) Hinv).
  destruct (spec_compat ext d (Some c)); simpl; [|reflexivity].
  destruct (flag_false (d_conf d) && p_conf c); [reflexivity|].
  destruct (p_is_acc c), (p_conf c), (p_writable c), (flag_false (d_writable d)); reflexivity.
Qed.

(* ---------------------------------------------------------------------------------------- *)
(* lists of keys                                                                             *)

Lemma mem_In : forall k l, mem k l = true <-> In k l.
Proof.
  induction l; simpl; [split; [discriminate|tauto]|].
  rewrite orb_true_iff, IHl, N.eqb_eq. split; intros [H|H]; auto.
Qed.

Lemma mem_false_In : forall k l, mem k l = false <-> ~ In k l.
Proof. intros. rewrite <- mem_In. destruct (mem k l); split; congruence. Qed.

Lemma nodupb_NoDup : forall l, nodupb l = true <-> NoDup l.
Proof.
  induction l; simpl. { split; [constructor|reflexivity]. }
  rewrite andb_true_iff, negb_true_iff, mem_false_In, IHl. split.
  - intros [H1 H2]; constructor; assumption.
  - intros H; inversion H; auto.
Qed.

Definition diff (u ks : list key) : list key := filter (fun x => negb (mem x ks)) u.

Lemma remove1_filter : forall k l, nodupb l = true -> remove1 k l = filter (fun x => negb (N.eqb x k)) l.
Proof.
  induction l; simpl; intros H; [reflexivity|].
  apply andb_true_iff in H. destruct H as [Ha Hl]. apply negb_true_iff in Ha.
  rewrite (N.eqb_sym a k). destruct (N.eqb k a) eqn:E; simpl.
  - apply N.eqb_eq in E. subst a. clear IHl.
    induction l; simpl in *; [reflexivity|].
    apply orb_false_iff in Ha. destruct Ha as [Ha1 Ha2]. rewrite N.eqb_sym, Ha1. simpl.
    apply andb_true_iff in Hl. destruct Hl as [_ Hl]. f_equal. apply IHl; assumption.
  - f_equal. apply IHl; assumption.
Qed.

Lemma mem_filter : forall k f l, mem k (filter f l) = mem k l && f k.
Proof.
  induction l; simpl; [reflexivity|].
  destruct (f a) eqn:Fa; simpl; rewrite IHl.
  - destruct (N.eqb k a) eqn:E; simpl; [|reflexivity]. apply N.eqb_eq in E; subst; rewrite Fa; reflexivity.
  - destruct (N.eqb k a) eqn:E; simpl; [|reflexivity]. apply N.eqb_eq in E; subst. rewrite Fa.
    rewrite andb_false_r. reflexivity.
Qed.

Lemma nodupb_filter : forall f l, nodupb l = true -> nodupb (filter f l) = true.
Proof.
  induction l; simpl; intros H; [reflexivity|]. apply andb_true_iff in H. destruct H as [Ha Hl].
  destruct (f a); simpl; [|auto]. rewrite mem_filter. apply negb_true_iff in Ha. rewrite Ha. simpl. auto.
Qed.

Lemma filter_filter : forall (f g : key -> bool) l, filter f (filter g l) = filter (fun x => g x && f x) l.
Proof. induction l; simpl; [reflexivity|]. destruct (g a); simpl; [destruct (f a); simpl; congruence|assumption]. Qed.

Lemma filter_ext_in : forall (f g : key -> bool) l, (forall x, In x l -> f x = g x) -> filter f l = filter g l.
Proof. induction l; simpl; intros H; [reflexivity|]. rewrite (H a) by auto. rewrite IHl by auto. reflexivity. Qed.

Lemma forallb_ext_in : forall A (f g : A -> bool) l, (forall x, In x l -> f x = g x) -> forallb f l = forallb g l.
Proof. induction l; simpl; intros H; [reflexivity|]. rewrite (H a) by auto. rewrite IHl by auto. reflexivity. Qed.

(* "for each key: must be in unchecked; remove it" = all present, and what is left is the difference *)
Lemma check_remove_char : forall ks u, nodupb ks = true -> nodupb u = true ->
  check_remove ks u = if forallb (fun k => mem k u) ks then Some (diff u ks) else None.
Proof.
  induction ks as [|k r IH]; simpl; intros u Hks Hu.
  - unfold diff. simpl. f_equal. induction u; simpl; [reflexivity|]. f_equal.
    apply IHu. simpl in Hu. apply andb_true_iff in Hu. tauto.
  - apply andb_true_iff in Hks. destruct Hks as [Hk Hr]. apply negb_true_iff in Hk.
    destruct (mem k u) eqn:Mk; simpl; [|reflexivity].
    rewrite remove1_filter by assumption.
    rewrite IH; [|assumption|apply nodupb_filter; assumption].
    assert (E : forallb (fun k0 => mem k0 (filter (fun x => negb (N.eqb x k)) u)) r = forallb (fun k0 => mem k0 u) r).
    { apply forallb_ext_in. intros x Hx. rewrite mem_filter.
      destruct (N.eqb x k) eqn:E; simpl; [|apply andb_true_r].
      apply N.eqb_eq in E. subst x. apply mem_In in Hx. congruence. }
    rewrite E. destruct (forallb (fun k0 => mem k0 u) r); [|reflexivity].
    f_equal. unfold diff. rewrite filter_filter. apply filter_ext_in. intros x _.
    simpl. rewrite negb_orb. reflexivity.
Qed.

Lemma keys_scan_char : forall ext ps u, nodupb (map fst ps) = true -> nodupb u = true ->
  goja_keys_scan ext ps u =
  if forallb (fun kp => mem (fst kp) u || (ext && p_conf (snd kp))) ps then Some (diff u (map fst ps)) else None.
Proof.
  induction ps as [|[k p] r IH]; simpl; intros u Hps Hu.
  - unfold diff. simpl. f_equal. induction u; simpl; [reflexivity|]. f_equal.
    apply IHu. simpl in Hu. apply andb_true_iff in Hu. tauto.
  - apply andb_true_iff in Hps. destruct Hps as [Hk Hr]. apply negb_true_iff in Hk.
    destruct (mem k u) eqn:Mk; simpl.
    + rewrite remove1_filter by assumption.
      rewrite IH; [|assumption|apply nodupb_filter; assumption].
      assert (E : forallb (fun kp => mem (fst kp) (filter (fun x => negb (N.eqb x k)) u) || (ext && p_conf (snd kp))) r
                  = forallb (fun kp => mem (fst kp) u || (ext && p_conf (snd kp))) r).
      { apply forallb_ext_in. intros [x q] Hx. simpl. rewrite mem_filter.
        destruct (N.eqb x k) eqn:E; simpl; [|rewrite andb_true_r; reflexivity].
        apply N.eqb_eq in E. subst x. exfalso. apply mem_false_In in Hk. apply Hk.
        change k with (fst (k, q)). apply in_map. assumption. }
      rewrite E. clear E. destruct (forallb (fun kp => mem (fst kp) u || (ext && p_conf (snd kp))) r); [|reflexivity].
      f_equal. unfold diff. rewrite filter_filter. apply filter_ext_in. intros x _.
      simpl. rewrite negb_orb. reflexivity.
    + destruct ext; simpl; [|reflexivity]. destruct (p_conf p); simpl; [|reflexivity].
      rewrite IH by assumption. destruct (forallb _ r); [|reflexivity].
      f_equal. unfold diff. apply filter_ext_in. intros x Hx. simpl.
      destruct (N.eqb x k) eqn:E; simpl; [|reflexivity].
      apply N.eqb_eq in E. subst x. apply mem_In in Hx. congruence.
Qed.

Lemma collect_char : forall l seen,
  goja_keys_collect l seen =
  match entries_keys l with
  | Some ks => if nodupb ks && forallb (fun k => negb (mem k seen)) ks then Some ks else None
  | None => None
  end.
Proof.
  induction l as [|[k|] r IH]; simpl; intros seen; [reflexivity| |reflexivity].
  rewrite IH. destruct (entries_keys r) as [ks|]; simpl.
  - destruct (mem k seen) eqn:Ms; simpl.
    + rewrite andb_false_r. reflexivity.
    + destruct (nodupb ks) eqn:Nd; simpl; [|rewrite andb_false_r; reflexivity].
      destruct (mem k ks) eqn:Mk; simpl.
      * assert (forallb (fun k0 : key => negb (N.eqb k0 k || mem k0 seen)) ks = false) as ->; [|reflexivity].
        clear -Mk. induction ks; simpl in *; [discriminate|].
        rewrite (N.eqb_sym a k). destruct (N.eqb k a); simpl; [reflexivity|]. simpl in Mk.
        rewrite IHks by assumption. apply andb_false_r.
      * assert (forallb (fun k0 : key => negb (N.eqb k0 k || mem k0 seen)) ks = forallb (fun k0 : key => negb (mem k0 seen)) ks) as ->.
        { apply forallb_ext_in. intros x Hx. destruct (N.eqb x k) eqn:E; [|reflexivity].
          apply N.eqb_eq in E. subst x. apply mem_In in Hx. congruence. }
        destruct (forallb _ ks); reflexivity.
  - destruct (mem k seen); reflexivity.
Qed.

Lemma diff_nil_forallb : forall u ks, (match diff u ks with [] => true | _ => false end) = forallb (fun x => mem x ks) u.
Proof.
  unfold diff. induction u; simpl; intros; [reflexivity|].
  destruct (mem a ks); simpl; [apply IHu|reflexivity].
Qed.

Lemma length_zero : forall A (l : list A), Nat.eqb (length l) 0 = match l with [] => true | _ => false end.
Proof. destruct l; reflexivity. Qed.

Lemma keys_split_mem : forall ps x,
  mem x (map fst ps) = mem x (nonconf_keys ps) || mem x (conf_keys ps).
Proof.
  unfold nonconf_keys, conf_keys. induction ps as [|[k p] r IH]; simpl; intros x; [reflexivity|].
  rewrite IH. destruct (p_conf p); simpl; destruct (N.eqb x k); simpl; try reflexivity.
  rewrite orb_true_r. reflexivity.
Qed.

Lemma nodup_nonconf : forall ps, nodupb (map fst ps) = true -> nodupb (nonconf_keys ps) = true.
Proof.
  unfold nonconf_keys. induction ps as [|[k p] r IH]; simpl; intros H; [reflexivity|].
  apply andb_true_iff in H. destruct H as [Hk Hr]. destruct (p_conf p); simpl; [auto|].
  rewrite IH by assumption. rewrite andb_true_r. apply negb_true_iff. apply negb_true_iff in Hk.
  apply mem_false_In. apply mem_false_In in Hk. intros Hin. apply Hk.
  apply in_map_iff in Hin. destruct Hin as [[k' p'] [E Hin]]. apply filter_In in Hin. destruct Hin as [Hin _].
  simpl in E. subst k'. change k with (fst (k, p')). apply in_map. assumption.
Qed.

Lemma nodup_conf : forall ps, nodupb (map fst ps) = true -> nodupb (conf_keys ps) = true.
Proof.
  unfold conf_keys. induction ps as [|[k p] r IH]; simpl; intros H; [reflexivity|].
  apply andb_true_iff in H. destruct H as [Hk Hr]. destruct (p_conf p); simpl; [|auto].
  rewrite IH by assumption. rewrite andb_true_r. apply negb_true_iff. apply negb_true_iff in Hk.
  apply mem_false_In. apply mem_false_In in Hk. intros Hin. apply Hk.
  apply in_map_iff in Hin. destruct Hin as [[k' p'] [E Hin]]. apply filter_In in Hin. destruct Hin as [Hin _].
  simpl in E. subst k'. change k with (fst (k, p')). apply in_map. assumption.
Qed.

Lemma conf_not_nonconf : forall ps x, nodupb (map fst ps) = true ->
  mem x (conf_keys ps) = true -> mem x (nonconf_keys ps) = false.
Proof.
  unfold nonconf_keys, conf_keys. induction ps as [|[k p] r IH]; simpl; intros x H Hc; [reflexivity|].
  apply andb_true_iff in H. destruct H as [Hk Hr]. apply negb_true_iff in Hk.
  destruct (p_conf p) eqn:Pc; simpl in *.
  - destruct (N.eqb x k) eqn:E; simpl in *.
    + apply N.eqb_eq in E. subst x. apply mem_false_In. apply mem_false_In in Hk. intros Hin. apply Hk.
      apply in_map_iff in Hin. destruct Hin as [[k' p'] [E Hin]]. apply filter_In in Hin. destruct Hin as [Hin _].
      simpl in E. subst k'. change k with (fst (k, p')). apply in_map. assumption.
    + apply IH; assumption.
  - destruct (N.eqb x k) eqn:E; simpl.
    + apply N.eqb_eq in E. subst x. exfalso. apply mem_false_In in Hk. apply Hk.
      apply mem_In in Hc. apply in_map_iff in Hc. destruct Hc as [[k' p'] [E Hin]]. apply filter_In in Hin.
      destruct Hin as [Hin _]. simpl in E. subst k'. change k with (fst (k, p')). apply in_map. assumption.
    + apply IH; assumption.
Qed.

(* the declarative acceptance condition of [[OwnPropertyKeys]] for a duplicate-free key list *)
Definition ownkeys_ok (ext : bool) (ps : list (key * prop)) (u : list key) : bool :=
  forallb (fun kp => p_conf (snd kp) || mem (fst kp) u) ps &&
  (ext || (forallb (fun kp => mem (fst kp) u) ps && forallb (fun x => mem x (map fst ps)) u)).

Lemma forallb_nonconf : forall ps u,
  forallb (fun k => mem k u) (nonconf_keys ps) = forallb (fun kp => p_conf (snd kp) || mem (fst kp) u) ps.
Proof.
  unfold nonconf_keys. induction ps as [|[k p] r IH]; simpl; intros; [reflexivity|].
  destruct (p_conf p); simpl; rewrite IH; reflexivity.
Qed.

Lemma forallb_conf : forall ps (f : key -> bool),
  forallb f (conf_keys ps) = forallb (fun kp => negb (p_conf (snd kp)) || f (fst kp)) ps.
Proof.
  unfold conf_keys. induction ps as [|[k p] r IH]; simpl; intros; [reflexivity|].
  destruct (p_conf p); simpl; rewrite IH; reflexivity.
Qed.

Lemma spec_ownkeys_char : forall l t, wf t = true ->
  spec_ownkeys (KList l) t =
  match entries_keys l with
  | Some u => if nodupb u && ownkeys_ok (t_ext t) (t_props t) u then RKeys u else RTypeError
  | None => RTypeError
  end.
Proof.
  intros l [ext proto ps] Hwf. unfold wf, keys_of in Hwf. simpl in *.
  unfold spec_ownkeys. simpl. destruct (entries_keys l) as [u|]; [|reflexivity].
  destruct (nodupb u) eqn:Nu; simpl; [|reflexivity].
  unfold ownkeys_ok.
  rewrite <- forallb_nonconf.
  destruct (ext && match nonconf_keys ps with [] => true | _ :: _ => false end) eqn:E1.
  - apply andb_true_iff in E1. destruct E1 as [-> E1]. destruct (nonconf_keys ps); [reflexivity|discriminate].
  - rewrite check_remove_char by (auto using nodup_nonconf).
    destruct (forallb (fun k => mem k u) (nonconf_keys ps)) eqn:F1; simpl; [|reflexivity].
    destruct ext; simpl; [reflexivity|].
    rewrite check_remove_char; [|auto using nodup_conf|apply nodupb_filter; assumption].
    assert (E2 : forallb (fun k => mem k (diff u (nonconf_keys ps))) (conf_keys ps) = forallb (fun k => mem k u) (conf_keys ps)).
    { apply forallb_ext_in. intros x Hx. unfold diff. rewrite mem_filter.
      rewrite (conf_not_nonconf ps x Hwf) by (apply mem_In; assumption). apply andb_true_r. }
    rewrite E2.
    assert (E3 : forallb (fun kp => mem (fst kp) u) ps = forallb (fun k => mem k u) (conf_keys ps)).
    { rewrite forallb_conf. rewrite forallb_nonconf in F1. clear -F1.
      induction ps as [|[k p] r IH]; simpl in *; [reflexivity|].
      apply andb_true_iff in F1. destruct F1 as [Fa Fr]. rewrite IH by assumption.
      destruct (p_conf p); simpl in *; [reflexivity|]. rewrite Fa. reflexivity. }
    rewrite E3. destruct (forallb (fun k => mem k u) (conf_keys ps)); simpl; [|reflexivity].
    assert (E4 : (match diff (diff u (nonconf_keys ps)) (conf_keys ps) with [] => true | _ => false end)
                 = forallb (fun x => mem x (map fst ps)) u).
    { unfold diff at 1 2. rewrite filter_filter. rewrite <- diff_nil_forallb. unfold diff.
      rewrite (filter_ext_in (fun x : key => negb (mem x (nonconf_keys ps)) && negb (mem x (conf_keys ps)))
                             (fun x : key => negb (mem x (map fst ps))) u); [reflexivity|].
      intros x _. rewrite keys_split_mem, negb_orb. reflexivity. }
    destruct (diff (diff u (nonconf_keys ps)) (conf_keys ps)); rewrite <- E4; reflexivity.
Qed.

Lemma goja_ownkeys_char : forall l t, wf t = true ->
  goja_ownkeys (KList l) t =
  match entries_keys l with
  | Some u => if nodupb u && ownkeys_ok (t_ext t) (t_props t) u then RKeys u else RTypeError
  | None => RTypeError
  end.
Proof.
  intros l [ext proto ps] Hwf. unfold wf, keys_of in Hwf. simpl in *.
  unfold goja_ownkeys. simpl. rewrite collect_char.
  destruct (entries_keys l) as [u|]; [|reflexivity].
  assert (forallb (fun k => negb (mem k [])) u = true) as -> by (clear; induction u; simpl; auto).
  rewrite andb_true_r. destruct (nodupb u) eqn:Nu; simpl; [|reflexivity].
  rewrite keys_scan_char by assumption.
  unfold ownkeys_ok. destruct ext; simpl.
  - rewrite orb_true_r || idtac.
    assert (E : forallb (fun kp => mem (fst kp) u || p_conf (snd kp)) ps = forallb (fun kp => p_conf (snd kp) || mem (fst kp) u) ps).
    { apply forallb_ext_in. intros; apply orb_comm. }
    rewrite E. clear E. rewrite andb_true_r.
    destruct (forallb (fun kp : key * prop => p_conf (snd kp) || mem (fst kp) u) ps); reflexivity.
  - assert (E : forallb (fun kp => mem (fst kp) u || false) ps = forallb (fun kp => mem (fst kp) u) ps).
    { apply forallb_ext_in. intros; apply orb_false_r. }
    rewrite E. clear E.
    destruct (forallb (fun kp : key * prop => mem (fst kp) u) ps) eqn:F.
    + assert (forallb (fun kp => p_conf (snd kp) || mem (fst kp) u) ps = true) as ->.
      { clear -F. induction ps; simpl in *; [reflexivity|]. apply andb_true_iff in F. destruct F as [-> F].
        rewrite orb_true_r. auto. }
      simpl. rewrite !length_zero. rewrite diff_nil_forallb.
      destruct u as [|x u']; [reflexivity|].
      simpl. destruct (mem x (map fst ps) && forallb (fun x0 : key => mem x0 (map fst ps)) u'); reflexivity.
    + rewrite andb_false_r. reflexivity.
Qed.

Lemma ownkeys_eq : forall r t, wf t = true -> goja_ownkeys r t = spec_ownkeys r t.
Proof.
  intros [|l] t H; [reflexivity|]. rewrite goja_ownkeys_char, spec_ownkeys_char by assumption. reflexivity.
Qed.
