(* C11 — Proxy invariant checks.  Executable definitions only.
   I  = the post-trap checks of /repo/proxy.go transcribed literally (names goja_...),
   S  = ECMA-262 (2023) 10.5.1 - 10.5.13 post-conditions written plainly (names spec_...),
   plus a small ordinary-object semantics for the target (ord_step) used to say what an
   "honest" (forwarding) handler returns. *)
From Coq Require Import List NArith Bool.
Import ListNotations.

(* keys, values, function identities and object identities are SameValue classes *)
Definition key := N.
Definition val := N.            (* 0 = undefined *)
Definition fn := N.
Definition oid := N.
Definition vundef : val := 0%N.

(* -------- the target: an ordinary object -------- *)
Inductive prop :=
| PData (v : val) (w e c : bool)
| PAcc (g s : option fn) (e c : bool).

Record target := mkT { t_ext : bool; t_proto : option oid; t_props : list (key * prop) }.

Definition p_conf (p : prop) := match p with PData _ _ _ c => c | PAcc _ _ _ c => c end.
Definition p_enum (p : prop) := match p with PData _ _ e _ => e | PAcc _ _ e _ => e end.
Definition p_writable (p : prop) := match p with PData _ w _ _ => w | PAcc _ _ _ _ => false end.
Definition p_is_acc (p : prop) := match p with PData _ _ _ _ => false | PAcc _ _ _ _ => true end.
Definition p_value (p : prop) := match p with PData v _ _ _ => v | PAcc _ _ _ _ => vundef end.
Definition p_getter (p : prop) := match p with PData _ _ _ _ => None | PAcc g _ _ _ => g end.
Definition p_setter (p : prop) := match p with PData _ _ _ _ => None | PAcc _ s _ _ => s end.

Fixpoint find_prop (k : key) (ps : list (key * prop)) : option prop :=
  match ps with
  | [] => None
  | (k', p) :: r => if N.eqb k k' then Some p else find_prop k r
  end.

Fixpoint mem (k : key) (l : list key) : bool :=
  match l with [] => false | x :: r => N.eqb k x || mem k r end.

Fixpoint remove1 (k : key) (l : list key) : list key :=
  match l with [] => [] | x :: r => if N.eqb k x then r else x :: remove1 k r end.

Fixpoint nodupb (l : list key) : bool :=
  match l with [] => true | x :: r => negb (mem x r) && nodupb r end.

Definition keys_of (t : target) : list key := map fst (t_props t).
Definition wf (t : target) : bool := nodupb (keys_of t).

(* -------- (partial) property descriptors: goja's PropertyDescriptor / the spec's record -------- *)
(* Value nil / non-nil; tri-state flags; Getter, Setter: nil / _undefined / a function *)
Record desc := mkD {
  d_value : option val; d_writable : option bool; d_enum : option bool; d_conf : option bool;
  d_get : option (option fn); d_set : option (option fn) }.

Definition isSome {A} (o : option A) := match o with Some _ => true | None => false end.
Definition is_accessor (d : desc) := isSome (d_set d) || isSome (d_get d).
Definition is_data (d : desc) := isSome (d_value d) || isSome (d_writable d).
Definition is_generic (d : desc) := negb (is_accessor d) && negb (is_data d).
Definition flag_true (f : option bool) := match f with Some true => true | _ => false end.
Definition flag_false (f : option bool) := match f with Some false => true | _ => false end.
Definition desc_empty (d : desc) :=
  negb (isSome (d_value d)) && negb (isSome (d_writable d)) && negb (isSome (d_enum d)) &&
  negb (isSome (d_conf d)) && negb (isSome (d_get d)) && negb (isSome (d_set d)).
(* ToPropertyDescriptor throws when both kinds of field are present *)
Definition desc_invalid (d : desc) := is_accessor d && is_data d.

Definition opt_fn_eqb (a b : option fn) : bool :=
  match a, b with
  | None, None => true
  | Some f, Some g => N.eqb f g
  | _, _ => false
  end.

(* CompletePropertyDescriptor / PropertyDescriptor.complete() (object.go:118) *)
Definition complete (d : desc) : desc :=
  if negb (isSome (d_get d)) && negb (isSome (d_set d)) then
    mkD (Some (match d_value d with Some v => v | None => vundef end))
        (Some (match d_writable d with Some w => w | None => false end))
        (Some (match d_enum d with Some e => e | None => false end))
        (Some (match d_conf d with Some c => c | None => false end))
        None None
  else
    mkD (d_value d) (d_writable d)
        (Some (match d_enum d with Some e => e | None => false end))
        (Some (match d_conf d with Some c => c | None => false end))
        (Some (match d_get d with Some g => g | None => None end))
        (Some (match d_set d with Some s => s | None => None end)).

Definition od {A} (o : option A) (dflt : A) := match o with Some a => a | None => dflt end.
Definition ob (o : option bool) := match o with Some b => b | None => false end.

(* the property a completed descriptor describes *)
Definition to_prop (d : desc) : prop :=
  if is_accessor d then
    PAcc (match d_get d with Some g => g | None => None end)
         (match d_set d with Some s => s | None => None end) (ob (d_enum d)) (ob (d_conf d))
  else PData (match d_value d with Some v => v | None => vundef end) (ob (d_writable d))
             (ob (d_enum d)) (ob (d_conf d)).

(* FromPropertyDescriptor of an existing property: the full descriptor *)
Definition of_prop (p : prop) : desc :=
  match p with
  | PData v w e c => mkD (Some v) (Some w) (Some e) (Some c) None None
  | PAcc g s e c => mkD None None (Some e) (Some c) (Some g) (Some s)
  end.

(* -------- trap results -------- *)
Inductive protoRes := PRObj (o : oid) | PRNull | PRNonObj.
Inductive gopdRes := GUndef | GDesc (d : desc) | GNonObj.
Inductive entry := EKey (k : key) | EBad.
Inductive keysRes := KNonObj | KList (l : list entry).

(* one proxied operation together with what its trap returned *)
Inductive call :=
| CGetProto (r : protoRes)
| CSetProto (v : option oid) (r : bool)
| CIsExt (r : bool)
| CPrevExt (r : bool)
| CGopd (k : key) (r : gopdRes)
| CDefine (k : key) (d : desc) (r : bool)
| CHas (k : key) (r : bool)
| CGet (k : key) (r : val)
| CSet (k : key) (v : val) (r : bool)
| CDelete (k : key) (r : bool)
| COwnKeys (r : keysRes)
| CApply (r : val)
| CConstruct (r : option oid).     (* None: the trap returned a non-object *)

(* outcome of the proxied operation *)
Inductive res :=
| RTypeError
| RBool (b : bool)
| RVal (v : val)
| RProto (p : option oid)
| RDesc (p : option prop)
| RKeys (l : list key)
| RObj (o : oid).

Definition opt_oid_eqb (a b : option oid) : bool :=
  match a, b with
  | None, None => true
  | Some x, Some y => N.eqb x y
  | _, _ => false
  end.

(* ======================================================================================== *)
(* I : goja (proxy.go)                                                                      *)
(* ======================================================================================== *)

(* proxy.go sameAccessorFunc(v Value, f *Object) (fix beda41a): an Object must be the very function f
   (f may be nil: then false); anything else (_undefined) matches exactly a missing function *)
Definition same_fn_goja (d : option fn) (c : option fn) : bool :=
  match d with
  | Some f => match c with Some g => N.eqb f g | None => false end
  | None => match c with None => true | Some _ => false end
  end.

(* proxy.go:912 __isCompatibleDescriptor *)
Definition goja_compat (ext : bool) (d : desc) (cur : option prop) : bool :=
  match cur with
  | None => ext
  | Some c =>
    if negb (p_conf c) then
      if flag_true (d_conf d) then false else
      if (match d_enum d with Some e => negb (Bool.eqb e (p_enum c)) | None => false end) then false else
      if is_generic d then true else
      if negb (Bool.eqb (is_data d) (negb (p_is_acc c))) then false else
      if is_data d && negb (p_is_acc c) then
        if flag_true (d_writable d) && negb (p_writable c) then false else
        if negb (p_writable c) then
          match d_value d with
          | Some v => if negb (N.eqb v (p_value c)) then false else true
          | None => true
          end
        else true
      else if is_accessor d && p_is_acc c then
        if (match d_set d with Some s => negb (same_fn_goja s (p_setter c)) | None => false end) then false else
        if (match d_get d with Some g => negb (same_fn_goja g (p_getter c)) | None => false end) then false else
        true
      else true
    else true
  end.

(* builtin_object.go:114 toValueProp applied to the trap's result object (fix 178fa38): an accessor
   exactly when a get or set field is present, even if both are undefined *)
Definition goja_to_prop (d : desc) : prop :=
  if isSome (d_get d) || isSome (d_set d)
  then PAcc (od (d_get d) None) (od (d_set d) None) (ob (d_enum d)) (ob (d_conf d))
  else PData (od (d_value d) vundef) (ob (d_writable d)) (ob (d_enum d)) (ob (d_conf d)).

(* proxy.go:509 proxyGetOwnPropertyDescriptor *)
Definition goja_gopd (r : gopdRes) (cur : option prop) (ext : bool) : res :=
  match r with
  | GNonObj => RTypeError
  | GUndef =>
    match cur with
    | None => RDesc None
    | Some c => if negb (p_conf c) then RTypeError else if negb ext then RTypeError else RDesc None
    end
  | GDesc d0 =>
    if desc_invalid d0 then RTypeError else
    let d := complete d0 in
    if negb (goja_compat ext d cur) then RTypeError else
    if flag_false (d_conf d) then
      match cur with
      | None => RTypeError
      | Some c =>
        if p_conf c then RTypeError else
        if flag_false (d_writable d) && p_writable c then RTypeError else
        RDesc (Some (goja_to_prop d))
      end
    else RDesc (Some (goja_to_prop d))
  end.

(* proxy.go:385 proxyDefineOwnPropertyPreCheck / PostCheck *)
Definition goja_define (d : desc) (r : bool) (cur : option prop) (ext : bool) : res :=
  if negb r then RBool false else
  let settingConfigFalse := flag_false (d_conf d) in
  match cur with
  | None =>
    if negb ext then RTypeError else
    if settingConfigFalse then RTypeError else RBool true
  | Some c =>
    if negb (goja_compat ext d cur) then RTypeError else
    if settingConfigFalse && p_conf c then RTypeError else
    if negb (p_is_acc c) && negb (p_conf c) && p_writable c && flag_false (d_writable d) then RTypeError else
    RBool true
  end.

(* proxy.go:449 proxyHasChecks *)
Definition goja_has (r : bool) (cur : option prop) (ext : bool) : res :=
  if negb r then
    match cur with
    | Some c => if negb (p_conf c) then RTypeError else if negb ext then RTypeError else RBool r
    | None => RBool r
    end
  else RBool r.

(* proxy.go:587 proxyGetChecks *)
Definition goja_get (r : val) (cur : option prop) : res :=
  match cur with
  | Some c =>
    if negb (p_is_acc c) then
      if negb (p_writable c) && negb (p_conf c) && negb (N.eqb r (p_value c)) then RTypeError else RVal r
    else
      if negb (p_conf c) && negb (isSome (p_getter c)) && negb (N.eqb r vundef) then RTypeError else RVal r
  | None => RVal r
  end.

(* proxy.go:638 proxySetPreCheck / proxySetPostCheck *)
Definition goja_set (v : val) (r : bool) (cur : option prop) : res :=
  if negb r then RBool false else
  match cur with
  | Some c =>
    if p_is_acc c then
      if negb (p_conf c) && negb (isSome (p_setter c)) then RTypeError else RBool true
    else if negb (p_conf c) && negb (p_writable c) && negb (N.eqb (p_value c) v) then RTypeError
    else RBool true
  | None => RBool true
  end.

(* proxy.go:717 proxyDeleteCheck *)
Definition goja_delete (r : bool) (cur : option prop) (ext : bool) : res :=
  if r then
    match cur with
    | None => RBool true
    | Some c =>
      if negb (p_conf c) then RTypeError else
      if negb ext then RTypeError else RBool true
    end
  else RBool false.

(* proxy.go:789 proxyOwnKeys: first loop (type check and duplicate check interleaved) *)
Fixpoint goja_keys_collect (l : list entry) (seen : list key) : option (list key) :=
  match l with
  | [] => Some []
  | EBad :: _ => None
  | EKey k :: r =>
    if mem k seen then None else
    match goja_keys_collect r (k :: seen) with
    | Some ks => Some (k :: ks)
    | None => None
    end
  end.

(* second loop: over the target's own keys, deleting from keySet *)
Fixpoint goja_keys_scan (ext : bool) (ps : list (key * prop)) (set : list key) : option (list key) :=
  match ps with
  | [] => Some set
  | (k, p) :: r =>
    if mem k set then goja_keys_scan ext r (remove1 k set)
    else if negb ext then None
    else if negb (p_conf p) then None
    else goja_keys_scan ext r set
  end.

Definition goja_ownkeys (r : keysRes) (t : target) : res :=
  match r with
  | KNonObj => RTypeError
  | KList l =>
    match goja_keys_collect l [] with
    | None => RTypeError
    | Some keyList =>
      match goja_keys_scan (t_ext t) (t_props t) keyList with
      | None => RTypeError
      | Some rest =>
        if negb (t_ext t) && negb (Nat.eqb (length keyList) 0) && negb (Nat.eqb (length rest) 0)
        then RTypeError else RKeys keyList
      end
    end
  end.

(* proxy.go:302 proto *)
Definition goja_getproto (r : protoRes) (t : target) : res :=
  match r with
  | PRNonObj => RTypeError
  | PRNull => if negb (t_ext t) && negb (opt_oid_eqb None (t_proto t)) then RTypeError else RProto None
  | PRObj o => if negb (t_ext t) && negb (opt_oid_eqb (Some o) (t_proto t)) then RTypeError else RProto (Some o)
  end.

(* proxy.go:318 setProto *)
Definition goja_setproto (v : option oid) (r : bool) (t : target) : res :=
  if r then
    if negb (t_ext t) && negb (opt_oid_eqb v (t_proto t)) then RTypeError else RBool true
  else RBool false.

(* proxy.go:335 isExtensible *)
Definition goja_isext (r : bool) (t : target) : res :=
  if negb (Bool.eqb r (t_ext t)) then RTypeError else RBool r.

(* proxy.go:347 preventExtensions *)
Definition goja_prevext (r : bool) (t : target) : res :=
  if negb r then RBool false else
  if t_ext t then RTypeError else RBool true.

Definition goja_check (c : call) (t : target) : res :=
  match c with
  | CGetProto r => goja_getproto r t
  | CSetProto v r => goja_setproto v r t
  | CIsExt r => goja_isext r t
  | CPrevExt r => goja_prevext r t
  | CGopd k r => goja_gopd r (find_prop k (t_props t)) (t_ext t)
  | CDefine k d r => if desc_invalid d then RTypeError   (* builtin_reflect.go: toPropertyDescriptor *)
                     else goja_define d r (find_prop k (t_props t)) (t_ext t)
  | CHas k r => goja_has r (find_prop k (t_props t)) (t_ext t)
  | CGet k r => goja_get r (find_prop k (t_props t))
  | CSet k v r => goja_set v r (find_prop k (t_props t))
  | CDelete k r => goja_delete r (find_prop k (t_props t)) (t_ext t)
  | COwnKeys r => goja_ownkeys r t
  | CApply r => RVal r
  | CConstruct None => RTypeError
  | CConstruct (Some o) => RObj o
  end.

(* proxy.go:294 checkHandler: a revoked proxy has no handler *)
Definition goja_proxy_op (revoked : bool) (c : call) (t : target) : res :=
  if revoked then RTypeError else goja_check c t.

(* ======================================================================================== *)
(* S : ECMA-262 10.5                                                                        *)
(* ======================================================================================== *)

(* 10.1.6.3 ValidateAndApplyPropertyDescriptor with O = undefined
   (= 10.1.6.2 IsCompatiblePropertyDescriptor) *)
Definition spec_compat (ext : bool) (d : desc) (cur : option prop) : bool :=
  match cur with
  | None => ext                                                              (* step 2 *)
  | Some c =>
    if desc_empty d then true else                                           (* step 4 *)
    if negb (p_conf c) then                                                  (* step 5 *)
      if flag_true (d_conf d) then false else
      if (match d_enum d with Some e => negb (Bool.eqb e (p_enum c)) | None => false end) then false else
      if negb (is_generic d) && negb (Bool.eqb (is_accessor d) (p_is_acc c)) then false else
      if p_is_acc c then
        if (match d_get d with Some g => negb (opt_fn_eqb g (p_getter c)) | None => false end) then false else
        if (match d_set d with Some s => negb (opt_fn_eqb s (p_setter c)) | None => false end) then false else
        true
      else if negb (p_writable c) then
        if flag_true (d_writable d) then false else
        match d_value d with
        | Some v => N.eqb v (p_value c)
        | None => true
        end
      else true
    else true
  end.

(* 10.5.5 [[GetOwnProperty]] steps 8-17 *)
Definition spec_gopd (r : gopdRes) (cur : option prop) (ext : bool) : res :=
  match r with
  | GNonObj => RTypeError                                                    (* step 8 *)
  | GUndef =>                                                                (* step 10 *)
    match cur with
    | None => RDesc None
    | Some c => if negb (p_conf c) then RTypeError else if negb ext then RTypeError else RDesc None
    end
  | GDesc d0 =>
    if desc_invalid d0 then RTypeError else                                  (* step 12 ToPropertyDescriptor *)
    let d := complete d0 in                                                  (* step 13 *)
    if negb (spec_compat ext d cur) then RTypeError else                     (* steps 14-15 *)
    if flag_false (d_conf d) then                                            (* step 16 *)
      match cur with
      | None => RTypeError
      | Some c =>
        if p_conf c then RTypeError else
        if flag_false (d_writable d) && p_writable c then RTypeError else
        RDesc (Some (to_prop d))
      end
    else RDesc (Some (to_prop d))
  end.

(* 10.5.6 [[DefineOwnProperty]] steps 9-17 *)
Definition spec_define (d : desc) (r : bool) (cur : option prop) (ext : bool) : res :=
  if negb r then RBool false else
  let settingConfigFalse := flag_false (d_conf d) in
  match cur with
  | None =>
    if negb ext then RTypeError else
    if settingConfigFalse then RTypeError else RBool true
  | Some c =>
    if negb (spec_compat ext d cur) then RTypeError else
    if settingConfigFalse && p_conf c then RTypeError else
    if negb (p_is_acc c) && negb (p_conf c) && p_writable c then
      if flag_false (d_writable d) then RTypeError else RBool true
    else RBool true
  end.

(* 10.5.7 [[HasProperty]] *)
Definition spec_has (r : bool) (cur : option prop) (ext : bool) : res :=
  if r then RBool true else
  match cur with
  | None => RBool false
  | Some c => if negb (p_conf c) then RTypeError else if negb ext then RTypeError else RBool false
  end.

(* 10.5.8 [[Get]] *)
Definition spec_get (r : val) (cur : option prop) : res :=
  match cur with
  | Some (PData v false _ false) => if N.eqb r v then RVal r else RTypeError
  | Some (PAcc None _ _ false) => if N.eqb r vundef then RVal r else RTypeError
  | _ => RVal r
  end.

(* 10.5.9 [[Set]] *)
Definition spec_set (v : val) (r : bool) (cur : option prop) : res :=
  if negb r then RBool false else
  match cur with
  | Some (PData v' false _ false) => if N.eqb v v' then RBool true else RTypeError
  | Some (PAcc _ None _ false) => RTypeError
  | _ => RBool true
  end.

(* 10.5.10 [[Delete]] *)
Definition spec_delete (r : bool) (cur : option prop) (ext : bool) : res :=
  if negb r then RBool false else
  match cur with
  | None => RBool true
  | Some c => if negb (p_conf c) then RTypeError else if negb ext then RTypeError else RBool true
  end.

(* 10.5.11 [[OwnPropertyKeys]] *)
Fixpoint entries_keys (l : list entry) : option (list key) :=      (* CreateListFromArrayLike *)
  match l with
  | [] => Some []
  | EBad :: _ => None
  | EKey k :: r => match entries_keys r with Some ks => Some (k :: ks) | None => None end
  end.

(* "for each key of ks: if key is not in unchecked throw; remove key from unchecked" *)
Fixpoint check_remove (ks : list key) (unchecked : list key) : option (list key) :=
  match ks with
  | [] => Some unchecked
  | k :: r => if mem k unchecked then check_remove r (remove1 k unchecked) else None
  end.

Definition nonconf_keys (ps : list (key * prop)) : list key :=
  map fst (filter (fun kp => negb (p_conf (snd kp))) ps).
Definition conf_keys (ps : list (key * prop)) : list key :=
  map fst (filter (fun kp => p_conf (snd kp)) ps).

Definition spec_ownkeys (r : keysRes) (t : target) : res :=
  match r with
  | KNonObj => RTypeError
  | KList l =>
    match entries_keys l with
    | None => RTypeError                                                     (* step 7 *)
    | Some trapResult =>
      if negb (nodupb trapResult) then RTypeError else                       (* step 8 *)
      let ncs := nonconf_keys (t_props t) in
      let cs := conf_keys (t_props t) in
      if t_ext t && (match ncs with [] => true | _ => false end) then RKeys trapResult else   (* 16 *)
      match check_remove ncs trapResult with                                 (* step 18 *)
      | None => RTypeError
      | Some unchecked =>
        if t_ext t then RKeys trapResult else                                (* step 19 *)
        match check_remove cs unchecked with                                 (* step 20 *)
        | None => RTypeError
        | Some unchecked' =>
          match unchecked' with [] => RKeys trapResult | _ => RTypeError end (* step 21 *)
        end
      end
    end
  end.

(* 10.5.1 [[GetPrototypeOf]] *)
Definition spec_getproto (r : protoRes) (t : target) : res :=
  match r with
  | PRNonObj => RTypeError
  | PRNull => if t_ext t then RProto None else if opt_oid_eqb None (t_proto t) then RProto None else RTypeError
  | PRObj o => if t_ext t then RProto (Some o) else
               if opt_oid_eqb (Some o) (t_proto t) then RProto (Some o) else RTypeError
  end.

(* 10.5.2 [[SetPrototypeOf]] *)
Definition spec_setproto (v : option oid) (r : bool) (t : target) : res :=
  if negb r then RBool false else
  if t_ext t then RBool true else
  if opt_oid_eqb v (t_proto t) then RBool true else RTypeError.

(* 10.5.3 [[IsExtensible]] *)
Definition spec_isext (r : bool) (t : target) : res :=
  if Bool.eqb r (t_ext t) then RBool r else RTypeError.

(* 10.5.4 [[PreventExtensions]] *)
Definition spec_prevext (r : bool) (t : target) : res :=
  if r && t_ext t then RTypeError else RBool r.

Definition spec_check (c : call) (t : target) : res :=
  match c with
  | CGetProto r => spec_getproto r t
  | CSetProto v r => spec_setproto v r t
  | CIsExt r => spec_isext r t
  | CPrevExt r => spec_prevext r t
  | CGopd k r => spec_gopd r (find_prop k (t_props t)) (t_ext t)
  | CDefine k d r => if desc_invalid d then RTypeError   (* 28.1.3 step 3 ToPropertyDescriptor *)
                     else spec_define d r (find_prop k (t_props t)) (t_ext t)
  | CHas k r => spec_has r (find_prop k (t_props t)) (t_ext t)
  | CGet k r => spec_get r (find_prop k (t_props t))
  | CSet k v r => spec_set v r (find_prop k (t_props t))
  | CDelete k r => spec_delete r (find_prop k (t_props t)) (t_ext t)
  | COwnKeys r => spec_ownkeys r t
  | CApply r => RVal r                                                       (* 10.5.12: no invariant *)
  | CConstruct None => RTypeError                                            (* 10.5.13 step 10 *)
  | CConstruct (Some o) => RObj o
  end.

Definition spec_proxy_op (revoked : bool) (c : call) (t : target) : res :=
  if revoked then RTypeError else spec_check c t.

(* ======================================================================================== *)
(* the target's own semantics (ordinary object, 10.1), used to define honest handlers        *)
(* ======================================================================================== *)

Inductive op :=
| OGetProto | OSetProto (v : option oid) | OIsExt | OPrevExt
| OGopd (k : key) | ODefine (k : key) (d : desc) | OHas (k : key) | OGet (k : key)
| OSet (k : key) (v : val) | ODelete (k : key) | OOwnKeys.

(* what the rest of the world answers: inherited lookups through the prototype chain, getter
   results, whether a setter call / inherited [[Set]] succeeds.  Arbitrary but fixed. *)
Record world := mkW {
  w_inh_has : key -> bool;
  w_inh_get : key -> val;
  w_inh_set : key -> val -> option bool;   (* Some b: the chain decides with result b and the
                                              target is unchanged; None: create on the receiver *)
  w_call_get : fn -> val }.

Fixpoint set_prop (k : key) (p : prop) (ps : list (key * prop)) : list (key * prop) :=
  match ps with
  | [] => [(k, p)]
  | (k', p') :: r => if N.eqb k k' then (k, p) :: r else (k', p') :: set_prop k p r
  end.

Fixpoint del_prop (k : key) (ps : list (key * prop)) : list (key * prop) :=
  match ps with
  | [] => []
  | (k', p') :: r => if N.eqb k k' then r else (k', p') :: del_prop k r
  end.


(* 10.1.6.3 ValidateAndApplyPropertyDescriptor with O defined: the new property, or None = reject *)
Definition validate_apply (ext : bool) (d : desc) (cur : option prop) : option prop :=
  match cur with
  | None =>
    if negb ext then None else
    Some (if is_accessor d
          then PAcc (od (d_get d) None) (od (d_set d) None) (ob (d_enum d)) (ob (d_conf d))
          else PData (od (d_value d) vundef) (ob (d_writable d)) (ob (d_enum d)) (ob (d_conf d)))
  | Some c =>
    if negb (spec_compat ext d cur) then None else
    let e := od (d_enum d) (p_enum c) in
    let cf := od (d_conf d) (p_conf c) in
    Some (if is_accessor d then
            match c with
            | PAcc g s _ _ => PAcc (od (d_get d) g) (od (d_set d) s) e cf
            | PData _ _ _ _ => PAcc (od (d_get d) None) (od (d_set d) None) e cf
            end
          else if is_data d then
            match c with
            | PData v w _ _ => PData (od (d_value d) v) (od (d_writable d) w) e cf
            | PAcc _ _ _ _ => PData (od (d_value d) vundef) (od (d_writable d) false) e cf
            end
          else
            match c with
            | PData v w _ _ => PData v w e cf
            | PAcc g s _ _ => PAcc g s e cf
            end)
  end.

Definition with_props (t : target) (ps : list (key * prop)) := mkT (t_ext t) (t_proto t) ps.

(* one Reflect.* operation applied directly to the target (receiver = the target's own view) *)
Definition ord_step (w : world) (o : op) (t : target) : res * target :=
  match o with
  | OGetProto => (RProto (t_proto t), t)
  | OSetProto v =>
    if opt_oid_eqb v (t_proto t) then (RBool true, t)
    else if t_ext t then (RBool true, mkT (t_ext t) v (t_props t))
    else (RBool false, t)
  | OIsExt => (RBool (t_ext t), t)
  | OPrevExt => (RBool true, mkT false (t_proto t) (t_props t))
  | OGopd k => (RDesc (find_prop k (t_props t)), t)
  | ODefine k d =>
    if desc_invalid d then (RTypeError, t) else
    match validate_apply (t_ext t) d (find_prop k (t_props t)) with
    | None => (RBool false, t)
    | Some p => (RBool true, with_props t (set_prop k p (t_props t)))
    end
  | OHas k =>
    match find_prop k (t_props t) with
    | Some _ => (RBool true, t)
    | None => (RBool (w_inh_has w k), t)
    end
  | OGet k =>
    match find_prop k (t_props t) with
    | Some (PData v _ _ _) => (RVal v, t)
    | Some (PAcc (Some g) _ _ _) => (RVal (w_call_get w g), t)
    | Some (PAcc None _ _ _) => (RVal vundef, t)
    | None => (RVal (w_inh_get w k), t)
    end
  | OSet k v =>
    match find_prop k (t_props t) with
    | Some (PData _ true e c) => (RBool true, with_props t (set_prop k (PData v true e c) (t_props t)))
    | Some (PData _ false _ _) => (RBool false, t)
    | Some (PAcc _ (Some _) _ _) => (RBool true, t)
    | Some (PAcc _ None _ _) => (RBool false, t)
    | None =>
      match w_inh_set w k v with
      | Some b => (RBool b, t)
      | None => if t_ext t then (RBool true, with_props t (set_prop k (PData v true true true) (t_props t)))
                else (RBool false, t)
      end
    end
  | ODelete k =>
    match find_prop k (t_props t) with
    | None => (RBool true, t)
    | Some c => if p_conf c then (RBool true, with_props t (del_prop k (t_props t))) else (RBool false, t)
    end
  | OOwnKeys => (RKeys (keys_of t), t)
  end.

(* the trap result of a forwarding handler: what the inner operation returned, as a [call] *)
Definition honest_call (o : op) (r : res) : option call :=
  match o, r with
  | OGetProto, RProto None => Some (CGetProto PRNull)
  | OGetProto, RProto (Some p) => Some (CGetProto (PRObj p))
  | OSetProto v, RBool b => Some (CSetProto v b)
  | OIsExt, RBool b => Some (CIsExt b)
  | OPrevExt, RBool b => Some (CPrevExt b)
  | OGopd k, RDesc None => Some (CGopd k GUndef)
  | OGopd k, RDesc (Some p) => Some (CGopd k (GDesc (of_prop p)))
  | ODefine k d, RBool b => Some (CDefine k d b)
  | OHas k, RBool b => Some (CHas k b)
  | OGet k, RVal v => Some (CGet k v)
  | OSet k v, RBool b => Some (CSet k v b)
  | ODelete k, RBool b => Some (CDelete k b)
  | OOwnKeys, RKeys l => Some (COwnKeys (KList (map EKey l)))
  | _, _ => None
  end.

(* an operation through n layers of forwarding proxies; [chk] is the post-trap check in use *)
Fixpoint layered (chk : call -> target -> res) (w : world) (n : nat) (o : op) (t : target) : res * target :=
  match n with
  | O => ord_step w o t
  | S m =>
    let '(r, t') := layered chk w m o t in
    match r with
    | RTypeError => (RTypeError, t')         (* an exception thrown by the trap propagates *)
    | _ =>
      match honest_call o r with
      | Some c => (chk c t', t')
      | None => (RTypeError, t')
      end
    end
  end.
