(* C02 — instantiation used by the correspondence check (depends on Model.v only). *)
From Coq Require Import List ZArith NArith Bool.
Import ListNotations.
From Verif.C02 Require Export Model Args.

(* what the harness saw goja do *)
Inductive ires := IVal (v : oval) | IThrow (v : oval) | IOther (k : N).
Definition iobs := (list oval * ires)%type.

Inductive tcase :=
| TFrag (place : N) (p : stmt) (o : iobs)         (* place: 0 global code, 1 function body, 2 eval code *)
| TMeta (a b : list (list Z))                     (* metamorphic pair: observations of original and rewritten program *)
| TArgs (init : list Z) (ops : list aop) (o : list Z)   (* mapped arguments object: operations and the events goja logged *)
| TFail.

Definition fuel : nat := 600.

Definition oval_eqb (a b : oval) : bool :=
  match a, b with
  | OUndef, OUndef => true
  | OBool x, OBool y => Bool.eqb x y
  | ONum x c, ONum y d => Z.eqb x y && Bool.eqb c d
  | ONaN, ONaN => true
  | OStr x, OStr y => N.eqb x y
  | OErr ERef, OErr ERef => true
  | OErr EType, OErr EType => true
  | OFun, OFun => true
  | _, _ => false
  end.

Fixpoint list_eqb {T} (eqb : T -> T -> bool) (a b : list T) : bool :=
  match a, b with
  | [], [] => true
  | x :: a', y :: b' => eqb x y && list_eqb eqb a' b'
  | _, _ => false
  end.

(* None = the model does not cover this run (outside the fragment / out of fuel): nothing is compared *)
Definition match_obs (with_value : bool) (place : N) (m : obs) (i : iobs) : option bool :=
  match snd m with
  | OFuelOut | OOutside => None
  | OBadSlot => Some false
  | out =>
    Some (list_eqb oval_eqb (fst m) (fst i) &&
      match out, snd i with
      | ONormal ov, IVal v =>
          if negb with_value then true
          else if N.eqb place 1 then oval_eqb v OUndef
          else oval_eqb v (match ov with
                           | Some w => w
                           | None => if N.eqb place 0 then OStr 999 (* the "use strict" directive is an expression statement *)
                                     else OUndef
                           end)
      | OReturn w, IVal v => N.eqb place 1 && oval_eqb v w
      | OThrow w, IThrow v => oval_eqb w v
      | _, _ => false
      end)
  end.

Definition obs_eqb (a b : obs) : bool :=
  list_eqb oval_eqb (fst a) (fst b) &&
  match snd a, snd b with
  | ONormal x, ONormal y => match x, y with Some u, Some v => oval_eqb u v | None, None => true | _, _ => false end
  | OReturn x, OReturn y => oval_eqb x y
  | OThrow x, OThrow y => oval_eqb x y
  | OFuelOut, OFuelOut | OOutside, OOutside | OBadSlot, OBadSlot => true
  | _, _ => false
  end.

(* the proved theorems, evaluated on the case as a sanity check of the model itself *)
Definition model_selfcheck (p : stmt) : bool :=
  let s := run_env fuel p in
  obs_eqb (run_slots (alloc_minimal p) fuel p) s &&
  obs_eqb (run_slots alloc_all_stash fuel p) s &&
  valid_alloc (alloc_minimal p) p && valid_alloc alloc_all_stash p &&
  match snd s with OFuelOut => true | _ => obs_eqb (run_env fuel (cf_stmt p)) s end.

Definition check_case (c : tcase) : bool :=
  match c with
  | TFrag place p o =>
      match match_obs true place (run_env fuel p) o with
      | None => true
      | Some b => b && (if N.eqb place 0 then model_selfcheck p else true)
      end
  | TMeta a b => list_eqb (list_eqb Z.eqb) a b
  | TArgs init ops o => list_eqb Z.eqb (args_model init ops) o
  | TFail => false
  end.

Fixpoint mismatch_from (i : N) (cs : list tcase) : list N :=
  match cs with
  | [] => []
  | c :: r => if check_case c then mismatch_from (N.succ i) r else i :: mismatch_from (N.succ i) r
  end.
Definition mismatch_ids := mismatch_from 0%N.

(* cases on which the model said "not covered" (development/evidence aid) *)
Fixpoint skipped_from (i : N) (cs : list tcase) : list N :=
  match cs with
  | [] => []
  | TFrag place p o :: r =>
      match match_obs true place (run_env fuel p) o with
      | None => i :: skipped_from (N.succ i) r
      | Some _ => skipped_from (N.succ i) r
      end
  | _ :: r => skipped_from (N.succ i) r
  end.
Definition skipped_ids := skipped_from 0%N.

(* printed in replays: S, the statement-position variant of S (proved equal up to the completion value),
   the model self-check; for metamorphic pairs: the index of the first differing event *)
Inductive expectation :=
| XFrag (s : obs) (s_unused_variant : obs) (selfcheck : bool)
| XMeta (first_diff : nat)
| XArgs (model_events : list Z)
| XNone.

Fixpoint first_diff (a b : list (list Z)) (i : nat) : nat :=
  match a, b with
  | x :: a', y :: b' => if list_eqb Z.eqb x y then first_diff a' b' (S i) else i
  | _, _ => i
  end.

Definition expected (c : tcase) : expectation :=
  match c with
  | TFrag place p o => XFrag (run_env fuel p) (run_env_pm PUnused fuel p) (model_selfcheck p)
  | TMeta a b => XMeta (first_diff a b 0)
  | TArgs init ops o => XArgs (args_model init ops)
  | TFail => XNone
  end.
