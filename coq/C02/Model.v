(* C02 — compiled code matches definitional semantics; compiler choices are invisible.
   Executable definitions only.

   One core language (bindings are the focus), ONE big-step fuelled evaluator written against an
   abstract "memory model" (where does a binding live, what does a closure capture), and two
   instances of the memory model:

     S  = [Smem]      the ECMA-262-style environment semantics: every binding is a mutable record
                      cell in one store, an environment maps names to cells (innermost first),
                      closures capture their environment, TDZ = uninitialised cell.
     I  = [Imem al]   the slot semantics of goja's compiler: a binding lives EITHER in a slot of the
                      frame of the function activation that declared it OR in a heap "stash" cell,
                      as the allocation function [al] (binder id -> bool) decides; frame slots are
                      addressed relative to the CURRENT frame (vm.sb), a closure captures only the
                      stash part of its environment (frame entries become [Foreign] = not addressable;
                      touching one is the outcome [XBad]: "the compiler resolved a captured variable
                      to a stack slot").

   [valid_alloc] is goja's rule (compiler.go lookupName/moveToStash): a binding referenced from
   inside an inner function must be in the stash.  *)
From Coq Require Import List ZArith NArith Bool Lia.
Import ListNotations.

Definition name := N.
Definition bid := N.        (* binder id: the argument of the allocation function *)

Inductive const := CUndef | CBool (b : bool) | CInt (z : Z) | CStr (t : N).
Inductive binop := OAdd | OSub | OMul | OLt | OSeq.

Inductive expr :=
| EConst (c : const)
| EVar (x : name)
| EAssign (x : name) (e : expr)
| EBin (o : binop) (a b : expr)
| ETypeof (x : name)
| EFun (pb : bid) (x : name) (body : stmt)       (* function (x) { body }  /  (x) => { body } *)
| ECall (f a : expr)
| ESeq (a b : expr)
| ECond (c a b : expr)
| EAnd (a b : expr)
| EOr (a b : expr)
| EIncDec (pre inc : bool) (x : name)            (* ++x x++ --x x-- *)
with stmt :=
| SSkip
| SSeq (s1 s2 : stmt)
| SExpr (e : expr)
| SLog (e : expr)
| SVar (b : bid) (x : name) (e : expr)
| SLet (b : bid) (x : name) (e : expr)
| SConst (b : bid) (x : name) (e : expr)
| SFunDecl (b : bid) (f : name) (pb : bid) (x : name) (body : stmt)
| SBlock (s : stmt)
| SIf (e : expr) (s1 s2 : stmt)
| SWhile (e : expr) (s : stmt)
| SFor (b : bid) (x : name) (init cond upd : expr) (body : stmt)   (* for (let x = init; cond; upd) body *)
| SReturn (e : expr)
| SThrow (e : expr)
| STry (s1 : stmt) (b : bid) (x : name) (s2 : stmt).

Inductive errk := ERef | EType.

(* values; [A] is the type of locations captured by closures *)
Inductive val (A : Type) :=
| VUndef | VBool (b : bool) | VInt (z : Z)
| VNaN | VStr (t : N) | VErr (k : errk)
| VClo (rho : list (name * A)) (pb : bid) (x : name) (body : stmt).
Arguments VUndef {A}. Arguments VBool {A}. Arguments VInt {A}. Arguments VNaN {A}.
Arguments VStr {A}. Arguments VErr {A}. Arguments VClo {A}.

(* script-observable projection of a value *)
Inductive oval := OUndef | OBool (b : bool) | ONum (z : Z) (canon : bool) | ONaN | OStr (t : N) | OErr (k : errk) | OFun.

Definition proj {A} (v : val A) : oval :=
  match v with
  | VUndef => OUndef | VBool b => OBool b | VInt z => ONum z true
  | VNaN => ONaN | VStr t => OStr t | VErr k => OErr k | VClo _ _ _ _ => OFun
  end.

Inductive exn (A : Type) :=
| XThrow (v : val A)
| XFuel                 (* out of fuel *)
| XOOF                  (* outside the modelled fragment (string concatenation, object identity, |n| > 2^53) *)
| XBad.                 (* a frame slot of another activation was addressed *)
Arguments XThrow {A}. Arguments XFuel {A}. Arguments XOOF {A}. Arguments XBad {A}.

Inductive compl (A : Type) := CNorm (ov : option (val A)) | CRet (v : val A).
Arguments CNorm {A}. Arguments CRet {A}.

(* a binding cell: (is-const, content); content None = uninitialised (TDZ) *)
Definition cell (A : Type) := (bool * option (val A))%type.

(* ---------------------------------------------------------------------------------------- *)
(* string tags: 0 "undefined" 1 "number" 2 "boolean" 3 "string" 4 "function" 5 "object"
                6 "a" 7 "2" 8 "" 9 "b" (anything else behaves like "a") *)
Definition str_num (t : N) : option Z :=      (* ToNumber of a tag; None = NaN *)
  if N.eqb t 7 then Some 2%Z else if N.eqb t 8 then Some 0%Z else None.
Definition str_truthy (t : N) : bool := negb (N.eqb t 8).

Definition of_const {A} (c : const) : val A :=
  match c with CUndef => VUndef | CBool b => VBool b | CInt z => VInt z | CStr t => VStr t end.

(* ToNumber: None = outside fragment, Some None = NaN *)
Definition to_num {A} (v : val A) : option (option Z) :=
  match v with
  | VUndef => Some None | VBool b => Some (Some (if b then 1 else 0)%Z)
  | VInt z => Some (Some z) | VNaN => Some None
  | VStr t => Some (str_num t)
  | VErr _ => Some None | VClo _ _ _ _ => Some None     (* ToPrimitive gives a non-numeric string *)
  end.

Definition truthy {A} (v : val A) : bool :=
  match v with
  | VUndef => false | VBool b => b | VInt z => negb (Z.eqb z 0)
  | VNaN => false | VStr t => str_truthy t | VErr _ => true | VClo _ _ _ _ => true
  end.

Definition lim : Z := 9007199254740992%Z.
Definition mknum {A} (z : Z) : option (val A) :=
  if (Z.leb (- lim) z && Z.leb z lim)%bool then Some (VInt z) else None.
Definition ofnum {A} (o : option Z) : option (val A) :=
  match o with None => Some VNaN | Some z => mknum z end.

(* values whose ToPrimitive is a string *)
Definition is_str {A} (v : val A) := match v with VStr _ | VErr _ | VClo _ _ _ _ => true | _ => false end.

Definition arith {A} (f : Z -> Z -> Z) (a b : val A) : option (val A) :=
  match to_num a, to_num b with
  | Some (Some x), Some (Some y) => mknum (f x y)
  | Some _, Some _ => Some VNaN
  | _, _ => None
  end.

Definition binop_eval {A} (o : binop) (a b : val A) : option (val A) :=
  match o with
  | OAdd => if (is_str a || is_str b)%bool then None else arith Z.add a b
  | OSub => arith Z.sub a b
  | OMul => arith Z.mul a b
  | OLt => if (is_str a && is_str b)%bool then None else
           match to_num a, to_num b with
           | Some (Some x), Some (Some y) => Some (VBool (Z.ltb x y))
           | Some _, Some _ => Some (VBool false)
           | _, _ => None
           end
  | OSeq => match a, b with
            | VUndef, VUndef => Some (VBool true)
            | VBool x, VBool y => Some (VBool (Bool.eqb x y))
            | VInt x, VInt y => Some (VBool (Z.eqb x y))
            | VStr x, VStr y => Some (VBool (N.eqb x y))
            | (VErr _ | VClo _ _ _ _), (VErr _ | VClo _ _ _ _) => None     (* object identity: not modelled *)
            | _, _ => Some (VBool false)
            end
  end.

Definition typeof_tag {A} (v : val A) : N :=
  match v with
  | VUndef => 0 | VInt _ | VNaN => 1 | VBool _ => 2 | VStr _ => 3 | VClo _ _ _ _ => 4 | VErr _ => 5
  end%N.

(* ---------------------------------------------------------------------------------------- *)
(* static structure of scopes *)

Fixpoint lookup {A} (rho : list (name * A)) (x : name) : option A :=
  match rho with
  | [] => None
  | (y, l) :: r => if N.eqb y x then Some l else lookup r x
  end.

Inductive dkind := DLet | DConst | DFun (pb : bid) (x : name) (body : stmt).
Definition decl := (bid * name * dkind)%type.

(* lexical declarations made directly by a statement list (block level) *)
Fixpoint block_decls (s : stmt) : list decl :=
  match s with
  | SSeq a b => block_decls a ++ block_decls b
  | SLet b x _ => [(b, x, DLet)]
  | SConst b x _ => [(b, x, DConst)]
  | SFunDecl b f pb x body => [(b, f, DFun pb x body)]
  | _ => []
  end.

(* var declarations of a function body (not entering nested functions) *)
Fixpoint var_decls_raw (s : stmt) : list (bid * name) :=
  match s with
  | SSeq a b => var_decls_raw a ++ var_decls_raw b
  | SVar b x _ => [(b, x)]
  | SBlock a => var_decls_raw a
  | SIf _ a b => var_decls_raw a ++ var_decls_raw b
  | SWhile _ a => var_decls_raw a
  | SFor _ _ _ _ _ a => var_decls_raw a
  | STry a _ _ b => var_decls_raw a ++ var_decls_raw b
  | _ => []
  end.

Fixpoint dedup (seen : list name) (l : list (bid * name)) : list (bid * name) :=
  match l with
  | [] => []
  | (b, x) :: r => if existsb (N.eqb x) seen then dedup seen r else (b, x) :: dedup (x :: seen) r
  end.

Definition var_decls (param : option name) (s : stmt) : list (bid * name) :=
  dedup (match param with Some x => [x] | None => [] end) (var_decls_raw s).

(* ---------------------------------------------------------------------------------------- *)
(* memory models *)

Record memmodel := {
  mL : Type;                 (* locations stored in environments *)
  mSt : Type;                (* memory state (without the log) *)
  mCtx : Type;               (* per-activation context *)
  m_alloc : mCtx -> bid -> cell mL -> mSt -> mSt * mL;
  m_read : mCtx -> mL -> mSt -> option (cell mL);
  m_write : mCtx -> mL -> cell mL -> mSt -> mSt;
  m_capture : list (name * mL) -> list (name * mL);
  m_enter : mSt -> mSt * mCtx;
  m_init : mSt
}.

(* --- S: one store of cells --- *)
Fixpoint upd {A} (l : list A) (i : nat) (x : A) : list A :=
  match l, i with
  | [], _ => []
  | _ :: r, O => x :: r
  | y :: r, S j => y :: upd r j x
  end.

Definition Smem : memmodel := {|
  mL := nat; mSt := list (cell nat); mCtx := unit;
  m_alloc := fun _ _ c st => (st ++ [c], length st);
  m_read := fun _ a st => nth_error st a;
  m_write := fun _ a c st => upd st a c;
  m_capture := fun rho => rho;
  m_enter := fun st => (st, tt);
  m_init := []
|}.

(* --- I: frames + stash --- *)
Inductive loc := InFrame (i : nat) | InStash (a : nat) | Foreign.

Record istate := { hp : list (cell loc); frs : list (list (cell loc)) }.

Definition foreignize (rho : list (name * loc)) : list (name * loc) :=
  map (fun p => (fst p, match snd p with InStash a => InStash a | _ => Foreign end)) rho.

Definition Imem (al : bid -> bool) : memmodel := {|
  mL := loc; mSt := istate; mCtx := nat;
  m_alloc := fun cur b c st =>
     if al b then ({| hp := hp st ++ [c]; frs := frs st |}, InStash (length (hp st)))
     else let fr := nth cur (frs st) [] in
          ({| hp := hp st; frs := upd (frs st) cur (fr ++ [c]) |}, InFrame (length fr));
  m_read := fun cur l st =>
     match l with
     | InStash a => nth_error (hp st) a
     | InFrame i => nth_error (nth cur (frs st) []) i
     | Foreign => None
     end;
  m_write := fun cur l c st =>
     match l with
     | InStash a => {| hp := upd (hp st) a c; frs := frs st |}
     | InFrame i => {| hp := hp st; frs := upd (frs st) cur (upd (nth cur (frs st) []) i c) |}
     | Foreign => st
     end;
  m_capture := foreignize;
  m_enter := fun st => ({| hp := hp st; frs := frs st ++ [[]] |}, length (frs st));
  m_init := {| hp := []; frs := [] |}
|}.

(* ---------------------------------------------------------------------------------------- *)
(* the evaluator *)

(* how an expression in a position whose value is discarded is evaluated:
   PSpec   : evaluate normally, drop the value (the definition);
   PUnused : the compile-time "putOnStack = false" variant, computing only what is needed: goja's
             compiledUnaryExpr / emitUnary with putOnStack=false; after fix 1c33988 (_inc/_dec through
             floatToValue) it produces the same canonical number as the ToNumber-then-add path *)
Inductive posmode := PSpec | PUnused.

Section Interp.
Variable MM : memmodel.
Variable pm : posmode.
Notation A := (mL MM).
Notation St := (mSt MM * list oval)%type.
Notation env := (list (name * A)).
Definition Res (T : Type) := ((T + exn A) * St)%type.
Definition M (T : Type) := St -> Res T.

Definition ret {T} (x : T) : M T := fun s => (inl x, s).
Definition fail {T} (e : exn A) : M T := fun s => (inr e, s).
Definition bind {T U} (m : M T) (k : T -> M U) : M U :=
  fun s => match m s with (inl x, s') => k x s' | (inr e, s') => (inr e, s') end.
Notation "'do' x <- m ; k" := (bind m (fun x => k)) (at level 200, x name, m at level 100, k at level 200).

Definition throwE {T} (k : errk) : M T := fail (XThrow (VErr k)).
Definition oof {T} : M T := fail XOOF.
Definition lift {T} (o : option T) : M T := match o with Some x => ret x | None => oof end.

Definition alloc (c : mCtx MM) (b : bid) (cl : cell A) : M A :=
  fun s => let (st', l) := m_alloc MM c b cl (fst s) in (inl l, (st', snd s)).
Definition readc (c : mCtx MM) (l : A) : M (cell A) :=
  fun s => match m_read MM c l (fst s) with Some cl => (inl cl, s) | None => (inr XBad, s) end.
Definition writec (c : mCtx MM) (l : A) (cl : cell A) : M unit :=
  fun s => (inl tt, (m_write MM c l cl (fst s), snd s)).
Definition logv (v : val A) : M unit := fun s => (inl tt, (fst s, snd s ++ [proj v])).

Definition getvar (c : mCtx MM) (rho : env) (x : name) : M (val A) :=
  match lookup rho x with
  | None => throwE ERef
  | Some l => do cl <- readc c l;
              match snd cl with None => throwE ERef | Some v => ret v end
  end.

Definition setvar (c : mCtx MM) (rho : env) (x : name) (v : val A) : M unit :=
  match lookup rho x with
  | None => throwE ERef                      (* strict mode: assignment to an unresolvable reference *)
  | Some l => do cl <- readc c l;
              match cl with
              | (_, None) => throwE ERef     (* TDZ comes first (goja: fix f6f18b6) *)
              | (true, Some _) => throwE EType
              | (false, Some _) => writec c l (false, Some v)
              end
  end.

Definition initvar (c : mCtx MM) (rho : env) (x : name) (isc : bool) (v : val A) : M unit :=
  match lookup rho x with
  | None => oof
  | Some l => writec c l (isc, Some v)
  end.

Fixpoint alloc_vars (c : mCtx MM) (vs : list (bid * name)) (rho : env) : M env :=
  match vs with
  | [] => ret rho
  | (b, x) :: r => do l <- alloc c b (false, Some VUndef); alloc_vars c r ((x, l) :: rho)
  end.

Definition decl_cell (k : dkind) : cell A :=
  match k with DConst => (true, None) | _ => (false, None) end.

Fixpoint alloc_decls (c : mCtx MM) (ds : list decl) (rho : env) : M env :=
  match ds with
  | [] => ret rho
  | (b, x, k) :: r => do l <- alloc c b (decl_cell k); alloc_decls c r ((x, l) :: rho)
  end.

Fixpoint init_funs (c : mCtx MM) (rho : env) (ds : list decl) : M unit :=
  match ds with
  | [] => ret tt
  | (_, f, DFun pb x body) :: r =>
      do _ <- initvar c rho f false (VClo (m_capture MM rho) pb x body); init_funs c rho r
  | _ :: r => init_funs c rho r
  end.

Definition enter_block (c : mCtx MM) (ds : list decl) (rho : env) : M env :=
  do rho' <- alloc_decls c ds rho;
  do _ <- init_funs c rho' ds;
  ret rho'.

Definition enter (s : St) : Res (mCtx MM) :=
  let (st', c) := m_enter MM (fst s) in (inl c, (st', snd s)).

(* per-iteration copy of a loop variable: a fresh binding with the same content *)
Definition copy_cell (c : mCtx MM) (b : bid) (l : A) : M A :=
  do cl <- readc c l; alloc c b cl.

Definition uflag (u : bool) : bool := match pm with PSpec => false | _ => u end.

Definition incdec_used (inc : bool) (old : val A) : M (val A * val A) :=   (* (ToNumber old, new) *)
  match to_num old with
  | None => oof
  | Some None => ret (VNaN, VNaN)
  | Some (Some z) =>
      do o <- lift (mknum z);
      do nw <- lift (mknum (if inc then z + 1 else z - 1)%Z);
      ret (o, nw)
  end.

(* the right operand of && / || inherits the discarded-result position only when the left operand is
   a literal (goja folds the test away and emits the right operand with the caller's putOnStack) *)
Definition uconst (a : expr) (u : bool) : bool := match a with EConst _ => u | _ => false end.

Definition or_else {T} (a b : option T) : option T := match a with Some _ => a | None => b end.

Definition catch {T U} (m : M T) (h : val A -> M U) (k : T -> M U) : M U :=
  fun s => match m s with
           | (inl x, s1) => k x s1
           | (inr (XThrow v), s1) => h v s1
           | (inr e, s1) => (inr e, s1)
           end.

(* completion of if / try: UpdateEmpty(C, undefined) *)
Definition finish (r : compl A) : M (compl A) :=
  match r with
  | CRet w => ret (CRet w)
  | CNorm o => ret (CNorm (Some (match o with Some w => w | None => VUndef end)))
  end.

(* FunctionDeclarationInstantiation + body, given the statement executor *)
Definition call_body (ex : mCtx MM -> env -> stmt -> M (compl A)) (c : mCtx MM)
           (rc : env) (pb : bid) (x : name) (body : stmt) (va : val A) : M (val A) :=
  do l <- alloc c pb (false, Some va);
  do rho2 <- alloc_vars c (var_decls (Some x) body) ((x, l) :: rc);
  do rho3 <- enter_block c (block_decls body) rho2;
  do r <- ex c rho3 body;
  match r with CNorm _ => ret VUndef | CRet v => ret v end.

Definition prog_body (ex : mCtx MM -> env -> stmt -> M (compl A)) (c : mCtx MM) (p : stmt) : M (compl A) :=
  do rho2 <- alloc_vars c (var_decls None p) [];
  do rho3 <- enter_block c (block_decls p) rho2;
  ex c rho3 p.

Fixpoint eval (n : nat) (c : mCtx MM) (rho : env) (u : bool) (e : expr) {struct n} : M (val A) :=
  match n with
  | O => fail XFuel
  | S n =>
    match e with
    | EConst k => ret (of_const k)
    | EVar x => getvar c rho x
    | EAssign x a => do v <- eval n c rho false a; do _ <- setvar c rho x v; ret v
    | EBin o a b => do va <- eval n c rho false a; do vb <- eval n c rho false b; lift (binop_eval o va vb)
    | ETypeof x =>
        match lookup rho x with
        | None => ret (VStr 0%N)
        | Some _ => do v <- getvar c rho x; ret (VStr (typeof_tag v))
        end
    | EFun pb x body => ret (VClo (m_capture MM rho) pb x body)
    | ECall f a =>
        do vf <- eval n c rho false f;
        do va <- eval n c rho false a;
        match vf with
        | VClo rc pb x body => call n rc pb x body va
        | _ => throwE EType
        end
    | ESeq a b => do _ <- eval n c rho true a; eval n c rho u b
    | ECond q a b => do vq <- eval n c rho false q; if truthy vq then eval n c rho u a else eval n c rho u b
    | EAnd a b => do va <- eval n c rho false a; if truthy va then eval n c rho (uconst a u) b else ret va
    | EOr a b => do va <- eval n c rho false a; if truthy va then ret va else eval n c rho (uconst a u) b
    | EIncDec pre inc x =>
        do old <- getvar c rho x;
        if uflag u then
          do on <- incdec_used inc old; do _ <- setvar c rho x (snd on); ret VUndef
        else
          do on <- incdec_used inc old; do _ <- setvar c rho x (snd on);
          ret (if pre then snd on else fst on)
    end
  end

with call (n : nat) (rc : env) (pb : bid) (x : name) (body : stmt) (va : val A) {struct n} : M (val A) :=
  match n with
  | O => fail XFuel
  | S n =>
    fun s =>
    match enter s with
    | (inr e, s1) => (inr e, s1)
    | (inl c, s1) => call_body (exec n) c rc pb x body va s1
    end
  end

with exec (n : nat) (c : mCtx MM) (rho : env) (s : stmt) {struct n} : M (compl A) :=
  match n with
  | O => fail XFuel
  | S n =>
    match s with
    | SSkip => ret (CNorm None)
    | SSeq a b =>
        do ra <- exec n c rho a;
        match ra with
        | CRet v => ret (CRet v)
        | CNorm oa => do rb <- exec n c rho b;
                      match rb with CRet v => ret (CRet v) | CNorm ob => ret (CNorm (or_else ob oa)) end
        end
    | SExpr e => do v <- eval n c rho true e;
                 (* the completion value of an expression statement is its value: evaluated in
                    "used" mode whenever the value can matter is decided by the compiler; the model
                    keeps the value only in PSpec mode *)
                 ret (CNorm (Some v))
    | SLog e => do v <- eval n c rho false e; do _ <- logv v; ret (CNorm (Some VUndef))
    | SVar _ x e => do v <- eval n c rho false e; do _ <- setvar c rho x v; ret (CNorm None)
    | SLet _ x e => do v <- eval n c rho false e; do _ <- initvar c rho x false v; ret (CNorm None)
    | SConst _ x e => do v <- eval n c rho false e; do _ <- initvar c rho x true v; ret (CNorm None)
    | SFunDecl _ _ _ _ _ => ret (CNorm None)
    | SBlock a => do rho' <- enter_block c (block_decls a) rho; exec n c rho' a
    | SIf e a b =>
        do v <- eval n c rho false e;
        do r <- (if truthy v then exec n c rho a else exec n c rho b);
        finish r
    | SWhile e a => loop n c rho None e (EConst CUndef) a VUndef
    | SFor b x init cond upd a =>
        do l <- alloc c b (false, None);
        do v <- eval n c ((x, l) :: rho) false init;
        do _ <- writec c l (false, Some v);
        do l' <- copy_cell c b l;
        loop n c rho (Some (b, x, l')) cond upd a VUndef
    | SReturn e => do v <- eval n c rho false e; ret (CRet v)
    | SThrow e => do v <- eval n c rho false e; fail (XThrow v)
    | STry a b x h =>
        catch (exec n c rho a)
              (fun v => do l <- alloc c b (false, Some v);
                        do r <- exec n c ((x, l) :: rho) h;
                        finish r)
              finish
    end
  end

with loop (n : nat) (c : mCtx MM) (rho : env) (lv : option (bid * name * A)) (cond upd : expr) (body : stmt)
          (V : val A) {struct n} : M (compl A) :=
  match n with
  | O => fail XFuel
  | S n =>
    let rhoi := match lv with Some (_, x, l) => (x, l) :: rho | None => rho end in
    do vc <- eval n c rhoi false cond;
    if truthy vc then
      do r <- exec n c rhoi body;
      match r with
      | CRet w => ret (CRet w)
      | CNorm o =>
          let V' := match o with Some w => w | None => V end in
          match lv with
          | None => loop n c rho None cond upd body V'
          | Some (b, x, l) =>
              do l' <- copy_cell c b l;
              do _ <- eval n c ((x, l') :: rho) true upd;
              loop n c rho (Some (b, x, l')) cond upd body V'
          end
      end
    else ret (CNorm (Some V))
  end.

(* a program is a function body without parameter, run in a fresh activation *)
Definition run_prog (n : nat) (p : stmt) : Res (compl A) :=
  match enter (m_init MM, []) with
  | (inr e, s1) => (inr e, s1)
  | (inl c, s1) => prog_body (exec n) c p s1
  end.

End Interp.

(* ---------------------------------------------------------------------------------------- *)
(* observations *)

Inductive outcome :=
| ONormal (v : option oval)       (* completion value of the statement list *)
| OReturn (v : oval)              (* a top-level return (function placement) *)
| OThrow (v : oval)
| OFuelOut | OOutside | OBadSlot.

Definition obs := (list oval * outcome)%type.

Definition obs_of {MM} (r : Res MM (compl (mL MM))) : obs :=
  (snd (snd r),
   match fst r with
   | inl (CNorm o) => ONormal (option_map proj o)
   | inl (CRet v) => OReturn (proj v)
   | inr (XThrow v) => OThrow (proj v)
   | inr XFuel => OFuelOut
   | inr XOOF => OOutside
   | inr XBad => OBadSlot
   end).

Definition run_env_pm (pm : posmode) (n : nat) (p : stmt) : obs := obs_of (run_prog Smem pm n p).
Definition run_env (n : nat) (p : stmt) : obs := run_env_pm PSpec n p.
Definition run_slots (al : bid -> bool) (n : nat) (p : stmt) : obs := obs_of (run_prog (Imem al) PSpec n p).

(* ---------------------------------------------------------------------------------------- *)
(* validity of an allocation: the static scope walk of goja's compiler.  A static environment has,
   per visible name, the kind of its location as seen from the current function. *)
Inductive skind := KStash | KFrame | KForeign.

Definition senv := list (name * skind).
Definition kind_of (al : bid -> bool) (b : bid) : skind := if al b then KStash else KFrame.
Definition sforeign (G : senv) : senv :=
  map (fun p => (fst p, match snd p with KStash => KStash | _ => KForeign end)) G.

Definition ref_ok (G : senv) (x : name) : bool :=
  match lookup G x with Some KForeign => false | _ => true end.

Fixpoint push_vars (al : bid -> bool) (vs : list (bid * name)) (G : senv) : senv :=
  match vs with [] => G | (b, x) :: r => push_vars al r ((x, kind_of al b) :: G) end.
Fixpoint push_decls (al : bid -> bool) (ds : list decl) (G : senv) : senv :=
  match ds with [] => G | (b, x, _) :: r => push_decls al r ((x, kind_of al b) :: G) end.

Section Valid.
Variable al : bid -> bool.

Fixpoint vexpr (G : senv) (e : expr) {struct e} : bool :=
  match e with
  | EConst _ => true
  | EVar x => ref_ok G x
  | EAssign x a => ref_ok G x && vexpr G a
  | EBin _ a b => vexpr G a && vexpr G b
  | ETypeof x => ref_ok G x
  | EFun pb x body =>
      vstmt (push_decls al (block_decls body)
               (push_vars al (var_decls (Some x) body) ((x, kind_of al pb) :: sforeign G))) body
  | ECall f a => vexpr G f && vexpr G a
  | ESeq a b => vexpr G a && vexpr G b
  | ECond q a b => vexpr G q && vexpr G a && vexpr G b
  | EAnd a b => vexpr G a && vexpr G b
  | EOr a b => vexpr G a && vexpr G b
  | EIncDec _ _ x => ref_ok G x
  end
with vstmt (G : senv) (s : stmt) {struct s} : bool :=
  match s with
  | SSkip => true
  | SSeq a b => vstmt G a && vstmt G b
  | SExpr e => vexpr G e
  | SLog e => vexpr G e
  | SVar _ x e => ref_ok G x && vexpr G e
  | SLet _ x e => ref_ok G x && vexpr G e
  | SConst _ x e => ref_ok G x && vexpr G e
  | SFunDecl _ f pb x body =>
      ref_ok G f &&
      vstmt (push_decls al (block_decls body)
               (push_vars al (var_decls (Some x) body) ((x, kind_of al pb) :: sforeign G))) body
  | SBlock a => vstmt (push_decls al (block_decls a) G) a
  | SIf e a b => vexpr G e && vstmt G a && vstmt G b
  | SWhile e a => vexpr G e && vstmt G a
  | SFor b x init cond upd a =>
      let G' := (x, kind_of al b) :: G in
      vexpr G' init && vexpr G' cond && vexpr G' upd && vstmt G' a
  | SReturn e => vexpr G e
  | SThrow e => vexpr G e
  | STry a b x h => vstmt G a && vstmt ((x, kind_of al b) :: G) h
  end.

Definition valid_alloc (p : stmt) : bool :=
  vstmt (push_decls al (block_decls p) (push_vars al (var_decls None p) [])) p.
End Valid.

(* the two extreme allocations *)
Definition alloc_all_stash : bid -> bool := fun _ => true.

(* minimal: a binder is in the stash iff some reference crosses a function boundary to reach it.
   Computed by the same walk, collecting the binder ids of the bindings found "foreign" when every
   binding is first assumed to be in a frame; binder ids are carried in the static environment. *)
Definition benv := list (name * (bid * bool)).    (* name -> (binder, crossed a function boundary) *)
Definition bcross (G : benv) : benv := map (fun p => (fst p, (fst (snd p), true))) G.
Definition bref (G : benv) (x : name) : list bid :=
  match lookup G x with Some (b, true) => [b] | _ => [] end.
Fixpoint bpush_vars (vs : list (bid * name)) (G : benv) : benv :=
  match vs with [] => G | (b, x) :: r => bpush_vars r ((x, (b, false)) :: G) end.
Fixpoint bpush_decls (ds : list decl) (G : benv) : benv :=
  match ds with [] => G | (b, x, _) :: r => bpush_decls r ((x, (b, false)) :: G) end.

Fixpoint cexpr (G : benv) (e : expr) {struct e} : list bid :=
  match e with
  | EConst _ => []
  | EVar x => bref G x
  | EAssign x a => bref G x ++ cexpr G a
  | EBin _ a b => cexpr G a ++ cexpr G b
  | ETypeof x => bref G x
  | EFun pb x body =>
      cstmt (bpush_decls (block_decls body) (bpush_vars (var_decls (Some x) body) ((x, (pb, false)) :: bcross G))) body
  | ECall f a => cexpr G f ++ cexpr G a
  | ESeq a b => cexpr G a ++ cexpr G b
  | ECond q a b => cexpr G q ++ cexpr G a ++ cexpr G b
  | EAnd a b => cexpr G a ++ cexpr G b
  | EOr a b => cexpr G a ++ cexpr G b
  | EIncDec _ _ x => bref G x
  end
with cstmt (G : benv) (s : stmt) {struct s} : list bid :=
  match s with
  | SSkip => []
  | SSeq a b => cstmt G a ++ cstmt G b
  | SExpr e => cexpr G e
  | SLog e => cexpr G e
  | SVar _ x e => bref G x ++ cexpr G e
  | SLet _ x e => bref G x ++ cexpr G e
  | SConst _ x e => bref G x ++ cexpr G e
  | SFunDecl _ f pb x body =>
      bref G f ++
      cstmt (bpush_decls (block_decls body) (bpush_vars (var_decls (Some x) body) ((x, (pb, false)) :: bcross G))) body
  | SBlock a => cstmt (bpush_decls (block_decls a) G) a
  | SIf e a b => cexpr G e ++ cstmt G a ++ cstmt G b
  | SWhile e a => cexpr G e ++ cstmt G a
  | SFor b x init cond upd a =>
      let G' := (x, (b, false)) :: G in
      cexpr G' init ++ cexpr G' cond ++ cexpr G' upd ++ cstmt G' a
  | SReturn e => cexpr G e
  | SThrow e => cexpr G e
  | STry a b x h => cstmt G a ++ cstmt ((x, (b, false)) :: G) h
  end.

Definition captured (p : stmt) : list bid :=
  cstmt (bpush_decls (block_decls p) (bpush_vars (var_decls None p) [])) p.
Definition alloc_minimal (p : stmt) : bid -> bool :=
  let c := captured p in fun b => existsb (N.eqb b) c.

(* ---------------------------------------------------------------------------------------- *)
(* constant folding (the sound pass) *)

Definition const_truthy (c : const) : bool :=
  match c with CUndef => false | CBool b => b | CInt z => negb (Z.eqb z 0) | CStr t => str_truthy t end.

Definition to_const (v : val unit) : option const :=
  match v with VUndef => Some CUndef | VBool b => Some (CBool b) | VInt z => Some (CInt z) | VStr t => Some (CStr t) | _ => None end.

Definition fold_bin (o : binop) (a b : const) : option const :=
  match binop_eval o (@of_const unit a) (of_const b) with Some v => to_const v | None => None end.

Fixpoint cf_expr (e : expr) : expr :=
  match e with
  | EConst c => EConst c
  | EVar x => EVar x
  | EAssign x a => EAssign x (cf_expr a)
  | EBin o a b =>
      let a' := cf_expr a in let b' := cf_expr b in
      match a', b' with
      | EConst ca, EConst cb => match fold_bin o ca cb with Some c => EConst c | None => EBin o a' b' end
      | _, _ => EBin o a' b'
      end
  | ETypeof x => ETypeof x
  | EFun pb x body => EFun pb x (cf_stmt body)
  | ECall f a => ECall (cf_expr f) (cf_expr a)
  | ESeq a b => ESeq (cf_expr a) (cf_expr b)
  | ECond q a b =>
      let q' := cf_expr q in
      match q' with
      | EConst c => if const_truthy c then cf_expr a else cf_expr b
      | _ => ECond q' (cf_expr a) (cf_expr b)
      end
  | EAnd a b =>
      let a' := cf_expr a in
      match a' with
      | EConst c => if const_truthy c then cf_expr b else EConst c
      | _ => EAnd a' (cf_expr b)
      end
  | EOr a b =>
      let a' := cf_expr a in
      match a' with
      | EConst c => if const_truthy c then EConst c else cf_expr b
      | _ => EOr a' (cf_expr b)
      end
  | EIncDec p i x => EIncDec p i x
  end
with cf_stmt (s : stmt) : stmt :=
  match s with
  | SSkip => SSkip
  | SSeq a b => SSeq (cf_stmt a) (cf_stmt b)
  | SExpr e => SExpr (cf_expr e)
  | SLog e => SLog (cf_expr e)
  | SVar b x e => SVar b x (cf_expr e)
  | SLet b x e => SLet b x (cf_expr e)
  | SConst b x e => SConst b x (cf_expr e)
  | SFunDecl b f pb x body => SFunDecl b f pb x (cf_stmt body)
  | SBlock a => SBlock (cf_stmt a)
  | SIf e a b => SIf (cf_expr e) (cf_stmt a) (cf_stmt b)
  | SWhile e a => SWhile (cf_expr e) (cf_stmt a)
  | SFor b x i q u a => SFor b x (cf_expr i) (cf_expr q) (cf_expr u) (cf_stmt a)
  | SReturn e => SReturn (cf_expr e)
  | SThrow e => SThrow (cf_expr e)
  | STry a b x h => STry (cf_stmt a) b x (cf_stmt h)
  end.

(* ---------------------------------------------------------------------------------------- *)
(* goja's emission of a logical AND/OR with a constant left operand (compiler_expr.go
   compiledLogicalAnd.emitGetter / compiledLogicalOr.emitGetter), as operand-stack effect.
   [emit_*  putOnStack left_const_truthy] returns the net number of values the emitted code leaves
   on the operand stack, given the net effect [r] of emitExpr(right, putOnStack). *)
Definition want (putOnStack : bool) : Z := if putOnStack then 1%Z else 0%Z.

(* compiledLogicalAnd (after fix 06cb082): if !v.ToBoolean() { if putOnStack { emitLiteralValue(v) } }
                                           else { emitExpr(right, putOnStack) } *)
Definition goja_and_const_left (putOnStack left_truthy : bool) : Z :=
  if left_truthy then want putOnStack else (if putOnStack then 1%Z else 0%Z).

(* compiledLogicalOr: if v.ToBoolean() { if putOnStack { emitLiteralValue(v) } }
                      else { emitExpr(right, putOnStack) } *)
Definition goja_or_const_left (putOnStack left_truthy : bool) : Z :=
  if left_truthy then (if putOnStack then 1%Z else 0%Z) else want putOnStack.
