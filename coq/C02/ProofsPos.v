(* C02 — expression vs statement position: the "result unused" evaluation (PUnused) of a whole program
   has the same log, the same exceptions and the same returned values as the definitional one (PSpec);
   only normal completion values (which are what "unused" discards) may differ.  Any memory model. *)
From Coq Require Import List ZArith NArith Bool Lia.
Import ListNotations.
From Verif.C02 Require Import Model.

Section Pos.
Variable MM : memmodel.
Notation A := (mL MM).

Definition weq {T} (r1 r2 : Res MM T) : Prop :=
  snd r1 = snd r2 /\
  match fst r1, fst r2 with inl _, inl _ => True | inr e1, inr e2 => e1 = e2 | _, _ => False end.

Definition ceq (r1 r2 : Res MM (compl A)) : Prop :=
  snd r1 = snd r2 /\
  match fst r1, fst r2 with
  | inl (CNorm _), inl (CNorm _) => True
  | inl (CRet v), inl (CRet w) => v = w
  | inr e1, inr e2 => e1 = e2
  | _, _ => False
  end.

Definition exn_refl {U} (R : Res MM U -> Res MM U -> Prop) : Prop := forall e s, R (inr e, s) (inr e, s).

Lemma weq_exn : forall U, exn_refl (@weq U).
Proof. red; intros; split; simpl; auto. Qed.
Lemma ceq_exn : exn_refl ceq.
Proof. red; intros; split; simpl; auto. Qed.
Lemma eq_exn : forall U, exn_refl (@eq (Res MM U)).
Proof. red; intros; auto. Qed.
Hint Resolve weq_exn ceq_exn eq_exn : pos.

Lemma weq_of_eq : forall T (r1 r2 : Res MM T), r1 = r2 -> weq r1 r2.
Proof. intros; subst. split; auto. destruct (fst r2); auto. Qed.

Lemma bind_R : forall T U (R : Res MM U -> Res MM U -> Prop) (m1 m2 : M MM T) (k1 k2 : T -> M MM U) s,
  exn_refl R -> m1 s = m2 s -> (forall x s', R (k1 x s') (k2 x s')) ->
  R (bind MM m1 k1 s) (bind MM m2 k2 s).
Proof. unfold bind; intros. rewrite H0. destruct (m2 s) as [[x|e] s']; auto. Qed.

Lemma bind_W : forall T U (R : Res MM U -> Res MM U -> Prop) (m1 m2 : M MM T) (k1 k2 : T -> M MM U) s,
  exn_refl R -> weq (m1 s) (m2 s) -> (forall x y s', R (k1 x s') (k2 y s')) ->
  R (bind MM m1 k1 s) (bind MM m2 k2 s).
Proof.
  unfold bind, weq; intros. destruct (m1 s) as [[x|e] s1], (m2 s) as [[y|e'] s2]; simpl in *;
    destruct H0; subst; try tauto; auto.
Qed.

Lemma bind_C : forall U (R : Res MM U -> Res MM U -> Prop) (m1 m2 : M MM (compl A)) (k1 k2 : compl A -> M MM U) s,
  exn_refl R -> ceq (m1 s) (m2 s) ->
  (forall v s', R (k1 (CRet v) s') (k2 (CRet v) s')) ->
  (forall o o' s', R (k1 (CNorm o) s') (k2 (CNorm o') s')) ->
  R (bind MM m1 k1 s) (bind MM m2 k2 s).
Proof.
  unfold bind, ceq; intros. destruct (m1 s) as [[[o|v]|e] s1], (m2 s) as [[[o'|v']|e'] s2]; simpl in *;
    destruct H0; subst; try tauto; auto.
Qed.

Lemma catch_C : forall (m1 m2 : M MM (compl A)) (h1 h2 : val A -> M MM (compl A)) (k1 k2 : compl A -> M MM (compl A)) s,
  ceq (m1 s) (m2 s) ->
  (forall v s', ceq (h1 v s') (h2 v s')) ->
  (forall v s', ceq (k1 (CRet v) s') (k2 (CRet v) s')) ->
  (forall o o' s', ceq (k1 (CNorm o) s') (k2 (CNorm o') s')) ->
  ceq (catch MM m1 h1 k1 s) (catch MM m2 h2 k2 s).
Proof.
  unfold catch, ceq at 1; intros. destruct (m1 s) as [[[o|v]|e] s1], (m2 s) as [[[o'|v']|e'] s2]; simpl in *;
    destruct H; subst; try tauto; auto.
  destruct e'; auto; apply ceq_exn.
Qed.

Lemma ceq_refl : forall r, ceq r r.
Proof. intros [[[o|v]|e] s]; split; simpl; auto. Qed.

Lemma ceq_finish : forall r r' s,
  match r, r' with CNorm _, CNorm _ => True | CRet v, CRet w => v = w | _, _ => False end ->
  ceq (finish MM r s) (finish MM r' s).
Proof. intros. destruct r, r'; try tauto; subst; split; simpl; auto. Qed.

Ltac bR := apply bind_R; [auto with pos| |intros].
Ltac bW := apply bind_W; [auto with pos| |intros].
Ltac bC := apply bind_C; [auto with pos| | intros | intros].

Lemma pos_all : forall n,
  (forall c rho e s, eval MM PUnused n c rho false e s = eval MM PSpec n c rho false e s) /\
  (forall c rho e s, weq (eval MM PUnused n c rho true e s) (eval MM PSpec n c rho true e s)) /\
  (forall rc pb x body va s, call MM PUnused n rc pb x body va s = call MM PSpec n rc pb x body va s) /\
  (forall c rho st s, ceq (exec MM PUnused n c rho st s) (exec MM PSpec n c rho st s)) /\
  (forall c rho lv cond upd body V W s,
     ceq (loop MM PUnused n c rho lv cond upd body V s) (loop MM PSpec n c rho lv cond upd body W s)).
Proof.
  induction n as [|n (IHa & IHb & IHc & IHd & IHe)].
  { repeat split; intros; simpl; auto. }
  assert (EQ : forall c rho e u s, u = false -> eval MM PUnused n c rho u e s = eval MM PSpec n c rho u e s).
  { intros; subst; apply IHa. }
  split; [|split; [|split; [|split]]].
  - (* value position: equal *)
    intros c rho e s. destruct e; cbn [eval]; auto.
    + bR. apply IHa. reflexivity.
    + bR. apply IHa. bR. apply IHa. reflexivity.
    + bR. apply IHa. bR. apply IHa. destruct x; auto.
    + apply bind_W; [auto with pos|apply IHb|intros; apply IHa].
    + bR. apply IHa. destruct (truthy x); apply IHa.
    + bR. apply IHa. destruct (truthy x); auto. destruct e1; apply IHa.
    + bR. apply IHa. destruct (truthy x); auto. destruct e1; apply IHa.
  - (* discarded position: same effects, same exceptions *)
    intros c rho e s. destruct e; cbn [eval]; try (apply weq_of_eq; reflexivity).
    + apply weq_of_eq. bR. apply IHa. reflexivity.
    + apply weq_of_eq. bR. apply IHa. bR. apply IHa. reflexivity.
    + apply weq_of_eq. bR. apply IHa. bR. apply IHa. destruct x; auto.
    + apply bind_W; [auto with pos|apply IHb|intros; apply IHb].
    + bR. apply IHa. destruct (truthy x); apply IHb.
    + bR. apply IHa. destruct (truthy x). destruct e1; simpl; try apply IHb; apply weq_of_eq; apply IHa.
      apply weq_of_eq; reflexivity.
    + bR. apply IHa. destruct (truthy x). apply weq_of_eq; reflexivity.
      destruct e1; simpl; try apply IHb; apply weq_of_eq; apply IHa.
    + bR. reflexivity. cbn [uflag]. bR. reflexivity. bR. reflexivity. split; simpl; auto.
  - (* call *)
    intros. cbn [call]. destruct (enter MM s) as [[c|e] s1]; auto.
    unfold call_body. bR. reflexivity. bR. reflexivity. bR. reflexivity.
    apply bind_C; [auto with pos|apply IHd| |]; intros; reflexivity.
  - (* exec *)
    intros c rho st s. destruct st; cbn [exec]; try (split; simpl; auto; fail).
    + bC. apply IHd. split; simpl; auto. bC. apply IHd. split; simpl; auto. split; simpl; auto.
    + bW. apply IHb. split; simpl; auto.
    + bR. apply IHa. apply ceq_refl.
    + bR. apply IHa. apply ceq_refl.
    + bR. apply IHa. apply ceq_refl.
    + bR. apply IHa. apply ceq_refl.
    + bR. reflexivity. apply IHd.
    + bR. apply IHa. bC. destruct (truthy x); apply IHd. apply ceq_finish; auto. apply ceq_finish; auto.
    + apply IHe.
    + bR. reflexivity. bR. apply IHa. bR. reflexivity. bR. reflexivity. apply IHe.
    + bR. apply IHa. apply ceq_refl.
    + bR. apply IHa. apply ceq_refl.
    + apply catch_C. apply IHd.
      * intros. bR. reflexivity. bC. apply IHd. apply ceq_finish; auto. apply ceq_finish; auto.
      * intros. apply ceq_finish; auto.
      * intros. apply ceq_finish; auto.
  - (* loop *)
    intros. cbn [loop]. bR. apply IHa. destruct (truthy x).
    + bC. apply IHd. split; simpl; auto.
      destruct lv as [[[b y] l]|].
      * bR. reflexivity. bW. apply IHb. apply IHe.
      * apply IHe.
    + split; simpl; auto.
Qed.

End Pos.

Definition erase_nv (o : obs) : obs :=
  (fst o, match snd o with ONormal _ => ONormal None | x => x end).

Theorem position_invisible : forall n p, erase_nv (run_env_pm PUnused n p) = erase_nv (run_env n p).
Proof.
  intros. unfold run_env, run_env_pm, run_prog, erase_nv, obs_of.
  destruct (enter Smem (m_init Smem, [])) as [[c|e] s1]; simpl; auto.
  assert (C : ceq Smem (prog_body Smem (exec Smem PUnused n) c p s1) (prog_body Smem (exec Smem PSpec n) c p s1)).
  { unfold prog_body. apply bind_R; [apply ceq_exn|reflexivity|intros].
    apply bind_R; [apply ceq_exn|reflexivity|intros]. apply (proj1 (proj2 (proj2 (proj2 (pos_all Smem n))))). }
  destruct C as [C1 C2].
  destruct (prog_body Smem (exec Smem PUnused n) c p s1) as [r1 [g1 l1]].
  destruct (prog_body Smem (exec Smem PSpec n) c p s1) as [r2 [g2 l2]]. simpl in *.
  inversion C1; subst. f_equal.
  destruct r1 as [[o|v]|e], r2 as [[o'|v']|e']; try tauto; subst; auto.
Qed.

(* non-vacuity: a program whose statement-position ++ operates on a string *)
Definition p_incdec : stmt :=           (* var q = "2"; q++; log(q); *)
  SSeq (SVar 1%N 0%N (EConst (CStr 7%N))) (SSeq (SExpr (EIncDec false true 0%N)) (SLog (EVar 0%N))).

Lemma position_example :
  run_env_pm PUnused 10 p_incdec = ([ONum 3%Z true], ONormal (Some OUndef)) /\
  run_env 10 p_incdec = ([ONum 3%Z true], ONormal (Some OUndef)).
Proof. split; vm_compute; reflexivity. Qed.
