(* C02 — the mapped arguments object of a sloppy function with simple parameters (ECMA-262 10.4.4),
   as a small definitional state machine.  Executable definitions only; used by the correspondence check
   (object_args.go is one of the C02 anchors: the aliasing between formal parameters and arguments[i] is
   implemented by compiler-selected instructions (createArgsMapped over stack or stash slots)). *)
From Coq Require Import List ZArith Bool.
Import ListNotations.

Record aslot := { a_p : Z;          (* value of the formal parameter *)
                  a_mapped : bool;  (* arguments[i] still aliases the parameter *)
                  a_v : Z;          (* own [[Value]] of arguments[i] once unmapped *)
                  a_w : bool }.     (* [[Writable]] *)

Inductive aop :=
| ASetParam (i : nat) (x : Z)                               (* a_i = x *)
| ASetArg (i : nat) (x : Z)                                 (* arguments[i] = x   (sloppy: a failing store is silent) *)
| ADefine (i : nat) (ov : option Z) (ow : option bool)      (* Object.defineProperty(arguments, i, {value?, writable?}) *)
| AFreeze                                                   (* Object.freeze(arguments) *)
| AGetArg (i : nat) | AGetParam (i : nat)
| AGetDesc (i : nat).                                       (* value and writable of the own property descriptor *)

Definition cur (s : aslot) : Z := if a_mapped s then a_p s else a_v s.

Fixpoint upd_slot (l : list aslot) (i : nat) (f : aslot -> aslot) : list aslot :=
  match l, i with
  | [], _ => []
  | s :: r, O => f s :: r
  | s :: r, S j => s :: upd_slot r j f
  end.

Definition TE : Z := (-999)%Z.

(* state: slots, frozen flag; result: new state and the events logged *)
Definition astep (st : list aslot * bool) (o : aop) : (list aslot * bool) * list Z :=
  let (sl, frozen) := st in
  match o with
  | ASetParam i x => ((upd_slot sl i (fun s => {| a_p := x; a_mapped := a_mapped s; a_v := a_v s; a_w := a_w s |}), frozen), [])
  | ASetArg i x =>
      ((upd_slot sl i (fun s =>
          if a_mapped s then {| a_p := x; a_mapped := true; a_v := x; a_w := a_w s |}
          else if a_w s then {| a_p := a_p s; a_mapped := false; a_v := x; a_w := true |} else s), frozen), [])
  | ADefine i ov ow =>
      match nth_error sl i with
      | None => (st, [])
      | Some s =>
        if frozen then
          let ok := match ov with None => true | Some x => Z.eqb x (cur s) end &&
                    match ow with Some true => false | _ => true end in
          (st, if ok then [] else [TE])
        else
          let nv := match ov with Some x => x | None => cur s end in
          let nw := match ow with Some b => b | None => a_w s end in
          let s' := if a_mapped s
                    then {| a_p := match ov with Some x => x | None => a_p s end;
                            a_mapped := match ow with Some false => false | _ => true end;
                            a_v := nv; a_w := nw |}
                    else {| a_p := a_p s; a_mapped := false; a_v := nv; a_w := nw |} in
          ((upd_slot sl i (fun _ => s'), frozen), [])
      end
  | AFreeze => ((map (fun s => {| a_p := a_p s; a_mapped := false; a_v := cur s; a_w := false |}) sl, true), [])
  | AGetArg i => (st, match nth_error sl i with Some s => [cur s] | None => [] end)
  | AGetParam i => (st, match nth_error sl i with Some s => [a_p s] | None => [] end)
  | AGetDesc i => (st, match nth_error sl i with Some s => [cur s; if a_w s then 1 else 0]%Z | None => [] end)
  end.

Fixpoint arun (st : list aslot * bool) (ops : list aop) : list Z :=
  match ops with
  | [] => []
  | o :: r => let (st', ev) := astep st o in ev ++ arun st' r
  end.

Definition args_model (init : list Z) (ops : list aop) : list Z :=
  arun (map (fun x => {| a_p := x; a_mapped := true; a_v := x; a_w := true |}) init, false) ops.

(* the demo of seeded change C02-3 *)
Example args_unmap_on_nonwritable :
  args_model [1%Z] [ADefine 0 None (Some false); ASetParam 0 2%Z; AGetArg 0; AGetParam 0; AGetDesc 0] = [1; 2; 1; 0]%Z.
Proof. reflexivity. Qed.
