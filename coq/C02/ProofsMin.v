(* C02 — the minimal allocation (stash exactly the binders some reference reaches across a function
   boundary) is valid for every program. *)
From Coq Require Import List ZArith NArith Bool Lia.
Import ListNotations.
From Verif.C02 Require Import Model Proofs.

Section Min.
Variable al : bid -> bool.

Definition toK (e : bid * bool) : skind :=
  if snd e then (if al (fst e) then KStash else KForeign) else kind_of al (fst e).
Definition toS (G : benv) : senv := map (fun p => (fst p, toK (snd p))) G.

Lemma toS_cross : forall G, toS (bcross G) = sforeign (toS G).
Proof.
  induction G as [|[x [b cr]] G]; simpl; auto. f_equal; auto. f_equal.
  unfold toK, kind_of; simpl. destruct cr, (al b); auto.
Qed.
Lemma toS_vars : forall vs G, toS (bpush_vars vs G) = push_vars al vs (toS G).
Proof. induction vs as [|[b x] vs]; simpl; auto. intros. rewrite IHvs. reflexivity. Qed.
Lemma toS_decls : forall ds G, toS (bpush_decls ds G) = push_decls al ds (toS G).
Proof. induction ds as [|[[b x] k] ds]; simpl; auto. intros. rewrite IHds. reflexivity. Qed.

Lemma lookup_toS : forall G x, lookup (toS G) x = option_map toK (lookup G x).
Proof. induction G as [|[y e] G]; simpl; auto. intros. destruct (N.eqb y x); auto. Qed.

Lemma ref_ok_toS : forall G x, (forall b, In b (bref G x) -> al b = true) -> ref_ok (toS G) x = true.
Proof.
  intros. unfold ref_ok. rewrite lookup_toS. unfold bref in H.
  destruct (lookup G x) as [[b cr]|]; simpl; auto.
  unfold toK, kind_of; simpl. destruct cr.
  - rewrite H; simpl; auto.
  - destruct (al b); auto.
Qed.

Ltac inapp := intros; match goal with H : forall b, In b _ -> _ |- _ => apply H; repeat rewrite in_app_iff; tauto end.

Lemma minimal_valid_mut :
  (forall e G, (forall b, In b (cexpr G e) -> al b = true) -> vexpr al (toS G) e = true) /\
  (forall s G, (forall b, In b (cstmt G s) -> al b = true) -> vstmt al (toS G) s = true).
Proof.
  apply expr_stmt_mind; intros; cbn [cexpr cstmt] in *.
  - reflexivity.
  - cbn [vexpr]. apply ref_ok_toS; inapp.
  - cbn [vexpr]. apply andb_true_iff; split. apply ref_ok_toS; inapp. apply H; inapp.
  - cbn [vexpr]. apply andb_true_iff; split. apply H; inapp. apply H0; inapp.
  - cbn [vexpr]. apply ref_ok_toS; inapp.
  - enough (E : vstmt al (push_decls al (block_decls body) (push_vars al (var_decls (Some x) body)
                 ((x, kind_of al pb) :: sforeign (toS G)))) body = true) by exact E.
    rewrite <- toS_cross.
    change ((x, kind_of al pb) :: toS (bcross G)) with (toS ((x, (pb, false)) :: bcross G)).
    rewrite <- toS_vars, <- toS_decls. apply H. auto.
  - cbn [vexpr]. apply andb_true_iff; split. apply H; inapp. apply H0; inapp.
  - cbn [vexpr]. apply andb_true_iff; split. apply H; inapp. apply H0; inapp.
  - cbn [vexpr]. apply andb_true_iff; split. apply andb_true_iff; split. apply H; inapp. apply H0; inapp. apply H1; inapp.
  - cbn [vexpr]. apply andb_true_iff; split. apply H; inapp. apply H0; inapp.
  - cbn [vexpr]. apply andb_true_iff; split. apply H; inapp. apply H0; inapp.
  - cbn [vexpr]. apply ref_ok_toS; inapp.
  - reflexivity.
  - cbn [vstmt]. apply andb_true_iff; split. apply H; inapp. apply H0; inapp.
  - cbn [vstmt]. apply H; inapp.
  - cbn [vstmt]. apply H; inapp.
  - cbn [vstmt]. apply andb_true_iff; split. apply ref_ok_toS; inapp. apply H; inapp.
  - cbn [vstmt]. apply andb_true_iff; split. apply ref_ok_toS; inapp. apply H; inapp.
  - cbn [vstmt]. apply andb_true_iff; split. apply ref_ok_toS; inapp. apply H; inapp.
  - enough (E : ref_ok (toS G) f && vstmt al (push_decls al (block_decls body) (push_vars al (var_decls (Some x) body)
                 ((x, kind_of al pb) :: sforeign (toS G)))) body = true) by exact E.
    apply andb_true_iff; split. apply ref_ok_toS; inapp.
    rewrite <- toS_cross.
    change ((x, kind_of al pb) :: toS (bcross G)) with (toS ((x, (pb, false)) :: bcross G)).
    rewrite <- toS_vars, <- toS_decls. apply H. inapp.
  - enough (E : vstmt al (push_decls al (block_decls s) (toS G)) s = true) by exact E.
    rewrite <- toS_decls. apply H. auto.
  - cbn [vstmt]. apply andb_true_iff; split. apply andb_true_iff; split. apply H; inapp. apply H0; inapp. apply H1; inapp.
  - cbn [vstmt]. apply andb_true_iff; split. apply H; inapp. apply H0; inapp.
  - enough (E : vexpr al (toS ((x, (b, false)) :: G)) init && vexpr al (toS ((x, (b, false)) :: G)) cond &&
                vexpr al (toS ((x, (b, false)) :: G)) upd && vstmt al (toS ((x, (b, false)) :: G)) body = true) by exact E.
    apply andb_true_iff; split. apply andb_true_iff; split. apply andb_true_iff; split.
    apply H; inapp. apply H0; inapp. apply H1; inapp. apply H2; inapp.
  - cbn [vstmt]. apply H; inapp.
  - cbn [vstmt]. apply H; inapp.
  - enough (E : vstmt al (toS G) s1 && vstmt al (toS ((x, (b, false)) :: G)) s2 = true) by exact E.
    apply andb_true_iff; split. apply H; inapp. apply H0; inapp.
Qed.
End Min.

Theorem alloc_minimal_valid : forall p, valid_alloc (alloc_minimal p) p = true.
Proof.
  intros. unfold valid_alloc.
  change (@nil (name * skind)) with (toS (alloc_minimal p) []).
  rewrite <- toS_vars, <- toS_decls.
  apply (proj2 (minimal_valid_mut (alloc_minimal p))).
  intros b I. unfold alloc_minimal. apply existsb_exists. exists b. split; auto. apply N.eqb_refl.
Qed.
