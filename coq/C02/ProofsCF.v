(* C02 — fuel monotonicity of the evaluator and soundness of constant folding (cf_expr / cf_stmt). *)
From Coq Require Import List ZArith NArith Bool Lia.
Import ListNotations.
From Verif.C02 Require Import Model.

(* ---------------------------------------------------------------------------------------- *)
(* more fuel does not change a run that did not run out of fuel (any memory model, any mode) *)

Section Mono.
Variable MM : memmodel.
Variable pm : posmode.
Notation A := (mL MM).

Definition nofuel {T} (r : Res MM T) : Prop := match fst r with inr XFuel => False | _ => True end.
Definition mono1 {T} (m m' : M MM T) : Prop := forall s, nofuel (m s) -> m' s = m s.

Lemma mono1_refl : forall T (m : M MM T), mono1 m m.
Proof. red; auto. Qed.

Lemma mono1_bind : forall T U (m m' : M MM T) (k k' : T -> M MM U),
  mono1 m m' -> (forall x, mono1 (k x) (k' x)) -> mono1 (bind MM m k) (bind MM m' k').
Proof.
  unfold mono1, bind, nofuel; intros T U m m' k k' H K s NF.
  destruct (m s) as [[x|e] s1] eqn:E; simpl in *.
  - rewrite (H s) by (rewrite E; simpl; auto). rewrite E. apply K; auto.
  - rewrite (H s) by (rewrite E; simpl; auto). rewrite E; auto.
Qed.

Lemma mono1_catch : forall T U (m m' : M MM T) (h h' : val A -> M MM U) (k k' : T -> M MM U),
  mono1 m m' -> (forall v, mono1 (h v) (h' v)) -> (forall x, mono1 (k x) (k' x)) ->
  mono1 (catch MM m h k) (catch MM m' h' k').
Proof.
  unfold mono1, catch, nofuel; intros T U m m' h h' k k' H HH K s NF.
  destruct (m s) as [[x|e] s1] eqn:E; simpl in *.
  - rewrite (H s) by (rewrite E; simpl; auto). rewrite E. apply K; auto.
  - assert (e <> XFuel) by (intro; subst; simpl in NF; auto).
    rewrite (H s) by (rewrite E; simpl; destruct e; auto). rewrite E. destruct e; auto; apply HH; auto.
Qed.

Definition monoP (n k : nat) : Prop :=
  (forall c rho u e, mono1 (eval MM pm n c rho u e) (eval MM pm k c rho u e)) /\
  (forall rc pb x body va, mono1 (call MM pm n rc pb x body va) (call MM pm k rc pb x body va)) /\
  (forall c rho s, mono1 (exec MM pm n c rho s) (exec MM pm k c rho s)) /\
  (forall c rho lv cond upd body V, mono1 (loop MM pm n c rho lv cond upd body V) (loop MM pm k c rho lv cond upd body V)).

Ltac mb := apply mono1_bind; [|intros].

Lemma mono_step : forall n k, monoP n k -> monoP (S n) (S k).
Proof.
  intros n k (He & Hc & Hx & Hl). split; [|split; [|split]].
  - intros c rho u e. destruct e; cbn [eval]; try apply mono1_refl.
    + mb. apply He. apply mono1_refl.
    + mb. apply He. mb. apply He. apply mono1_refl.
    + mb. apply He. mb. apply He. destruct x; try apply mono1_refl. apply Hc.
    + mb. apply He. apply He.
    + mb. apply He. destruct (truthy x); apply He.
    + mb. apply He. destruct (truthy x). apply He. apply mono1_refl.
    + mb. apply He. destruct (truthy x). apply mono1_refl. apply He.
  - intros. cbn [call]. red. intros s NF. destruct (enter MM s) as [[c|e] s1]; auto.
    revert NF. revert s1. change (mono1 (call_body MM (exec MM pm n) c rc pb x body va) (call_body MM (exec MM pm k) c rc pb x body va)).
    unfold call_body. mb. apply mono1_refl. mb. apply mono1_refl. mb. apply mono1_refl. mb. apply Hx. apply mono1_refl.
  - intros c rho s. destruct s; cbn [exec]; try apply mono1_refl.
    + mb. apply Hx. destruct x; try apply mono1_refl. mb. apply Hx. apply mono1_refl.
    + mb. apply He. apply mono1_refl.
    + mb. apply He. apply mono1_refl.
    + mb. apply He. apply mono1_refl.
    + mb. apply He. apply mono1_refl.
    + mb. apply He. apply mono1_refl.
    + mb. apply mono1_refl. apply Hx.
    + mb. apply He. mb. destruct (truthy x); apply Hx. apply mono1_refl.
    + apply Hl.
    + mb. apply mono1_refl. mb. apply He. mb. apply mono1_refl. mb. apply mono1_refl. apply Hl.
    + mb. apply He. apply mono1_refl.
    + mb. apply He. apply mono1_refl.
    + apply mono1_catch. apply Hx.
      * intros. mb. apply mono1_refl. mb. apply Hx. apply mono1_refl.
      * intros. apply mono1_refl.
  - intros. cbn [loop]. mb. apply He. destruct (truthy x); try apply mono1_refl.
    mb. apply Hx. destruct x0; try apply mono1_refl.
    destruct lv as [[[b y] l]|].
    + mb. apply mono1_refl. mb. apply He. apply Hl.
    + apply Hl.
Qed.

Lemma mono_all : forall n, monoP n (S n).
Proof.
  induction n. 
  - split; [|split; [|split]]; intros; intros s0 NF; simpl in NF; red in NF; simpl in NF; tauto.
  - apply mono_step; auto.
Qed.

End Mono.

(* ---------------------------------------------------------------------------------------- *)
(* constant folding: static facts *)

Definition cfd (d : decl) : decl :=
  match d with
  | (b, x, DFun pb y body) => (b, x, DFun pb y (cf_stmt body))
  | d => d
  end.

Lemma cf_var_decls_raw : forall s, var_decls_raw (cf_stmt s) = var_decls_raw s.
Proof. induction s; simpl; auto; congruence. Qed.
Lemma cf_var_decls : forall p s, var_decls p (cf_stmt s) = var_decls p s.
Proof. intros; unfold var_decls; rewrite cf_var_decls_raw; auto. Qed.
Lemma cf_block_decls : forall s, block_decls (cf_stmt s) = map cfd (block_decls s).
Proof. induction s; simpl; auto. rewrite map_app. congruence. Qed.

Lemma of_const_truthy : forall A c, truthy (@of_const A c) = const_truthy c.
Proof. destruct c; auto. Qed.

Lemma to_const_of : forall (v : val unit) c, to_const v = Some c -> v = of_const c.
Proof. destruct v; simpl; intros; inversion H; auto. Qed.

(* values without closures can be moved between location types *)
Definition retype {A B} (v : val A) : val B :=
  match v with
  | VUndef => VUndef | VBool b => VBool b | VInt z => VInt z | VNaN => VNaN | VStr t => VStr t | VErr k => VErr k
  | VClo _ pb x body => VClo [] pb x body
  end.
Definition noclo {A} (v : val A) : bool := match v with VClo _ _ _ _ => false | _ => true end.

Lemma binop_retype : forall A B o (a b : val A), noclo a = true -> noclo b = true ->
  @binop_eval B o (retype a) (retype b) = option_map retype (binop_eval o a b).
Proof.
  intros. destruct o; simpl.
  - destruct a, b; simpl in *; try discriminate; auto;
      unfold arith; simpl; try (destruct (str_num _)); unfold mknum; try destruct (_ && _); auto.
  - destruct a, b; simpl in *; try discriminate; auto;
      unfold arith; simpl; repeat (match goal with |- context [str_num ?t] => destruct (str_num t) end); unfold mknum; try destruct (_ && _); auto.
  - destruct a, b; simpl in *; try discriminate; auto;
      unfold arith; simpl; repeat (match goal with |- context [str_num ?t] => destruct (str_num t) end); unfold mknum; try destruct (_ && _); auto.
  - destruct a, b; simpl in *; try discriminate; auto;
      repeat (match goal with |- context [str_num ?t] => destruct (str_num t) end); auto.
  - destruct a, b; simpl in *; try discriminate; auto.
Qed.

Lemma retype_of_const : forall A B c, @retype A B (of_const c) = of_const c.
Proof. destruct c; auto. Qed.
Lemma noclo_of_const : forall A c, noclo (@of_const A c) = true.
Proof. destruct c; auto. Qed.

Lemma fold_bin_ok : forall A o a b c, fold_bin o a b = Some c ->
  @binop_eval A o (of_const a) (of_const b) = Some (of_const c).
Proof.
  unfold fold_bin; intros.
  rewrite <- (retype_of_const unit A a), <- (retype_of_const unit A b).
  rewrite binop_retype by apply noclo_of_const.
  destruct (binop_eval o (of_const a) (of_const b)); try discriminate.
  apply to_const_of in H. subst. simpl. rewrite retype_of_const. auto.
Qed.

(* ---------------------------------------------------------------------------------------- *)
(* constant folding: simulation on the environment semantics *)

Section CF.
Notation MS := (M Smem).
Notation nf := (nofuel Smem).

Inductive vrel : val nat -> val nat -> Prop :=
| vr_undef : vrel VUndef VUndef
| vr_bool : forall b, vrel (VBool b) (VBool b)
| vr_int : forall z, vrel (VInt z) (VInt z)
| vr_nan : vrel VNaN VNaN
| vr_str : forall t, vrel (VStr t) (VStr t)
| vr_err : forall k, vrel (VErr k) (VErr k)
| vr_clo : forall rho pb x body, vrel (VClo rho pb x body) (VClo rho pb x (cf_stmt body)).
Hint Constructors vrel : cf.

Definition orel (a b : option (val nat)) : Prop :=
  match a, b with None, None => True | Some v, Some w => vrel v w | _, _ => False end.
Definition cellrel (a b : cell nat) : Prop := fst a = fst b /\ orel (snd a) (snd b).
Definition strel : list (cell nat) -> list (cell nat) -> Prop := Forall2 cellrel.

Definition rres {T} (R : T -> T -> Prop) (a b : T + exn nat) : Prop :=
  match a, b with
  | inl x, inl y => R x y
  | inr (XThrow v), inr (XThrow w) => vrel v w
  | inr XOOF, inr XOOF => True
  | inr XBad, inr XBad => True
  | _, _ => False
  end.

Definition csim {T} (R : T -> T -> Prop) (m1 m2 : MS T) : Prop :=
  forall g1 g2 lg, strel g1 g2 -> nf (m1 (g1, lg)) ->
    strel (fst (snd (m1 (g1, lg)))) (fst (snd (m2 (g2, lg)))) /\
    snd (snd (m1 (g1, lg))) = snd (snd (m2 (g2, lg))) /\
    rres R (fst (m1 (g1, lg))) (fst (m2 (g2, lg))).

Lemma csim_bind : forall T U (R : T -> T -> Prop) (R2 : U -> U -> Prop) (m1 m2 : MS T) (k1 k2 : T -> MS U),
  csim R m1 m2 -> (forall x y, R x y -> csim R2 (k1 x) (k2 y)) ->
  csim R2 (bind Smem m1 k1) (bind Smem m2 k2).
Proof.
  unfold csim, bind, nofuel; intros T U R R2 m1 m2 k1 k2 H K g1 g2 lg S NF.
  specialize (H g1 g2 lg S).
  destruct (m1 (g1, lg)) as [[x|e] [g1' l1]]; destruct (m2 (g2, lg)) as [[y|e'] [g2' l2]]; simpl in *.
  - destruct H as (A & B & C); auto. subst. apply K; auto.
  - destruct H as (A & B & C); auto. tauto.
  - destruct H as (A & B & C). destruct e; auto. destruct e; tauto.
  - destruct H as (A & B & C). destruct e; auto. auto.
Qed.

Lemma csim_catch : forall T U (R : T -> T -> Prop) (R2 : U -> U -> Prop) (m1 m2 : MS T) h1 h2 (k1 k2 : T -> MS U),
  csim R m1 m2 -> (forall v w, vrel v w -> csim R2 (h1 v) (h2 w)) -> (forall x y, R x y -> csim R2 (k1 x) (k2 y)) ->
  csim R2 (catch Smem m1 h1 k1) (catch Smem m2 h2 k2).
Proof.
  unfold csim, catch, nofuel; intros T U R R2 m1 m2 h1 h2 k1 k2 H HH K g1 g2 lg S NF.
  specialize (H g1 g2 lg S).
  destruct (m1 (g1, lg)) as [[x|e] [g1' l1]]; destruct (m2 (g2, lg)) as [[y|e'] [g2' l2]]; simpl in *.
  - destruct H as (A & B & C); auto. subst. apply K; auto.
  - destruct H as (A & B & C); auto. tauto.
  - destruct H as (A & B & C). destruct e; auto. destruct e; tauto.
  - assert (NF' : match e with XFuel => False | _ => True end) by (destruct e; simpl in *; auto).
    destruct H as (A & B & C); auto. subst.
    destruct e, e'; simpl in *; try tauto; auto; apply HH; auto.
Qed.

Lemma csim_ret : forall T (R : T -> T -> Prop) x y, R x y -> csim R (ret Smem x) (ret Smem y).
Proof. unfold csim, ret; simpl; auto. Qed.
Lemma csim_throw : forall T (R : T -> T -> Prop) v w, vrel v w -> csim R (fail Smem (XThrow v)) (fail Smem (XThrow w)).
Proof. unfold csim, fail; simpl; auto. Qed.
Lemma csim_throwE : forall T (R : T -> T -> Prop) k, csim R (throwE Smem k) (throwE Smem k).
Proof. intros; apply csim_throw; constructor. Qed.
Lemma csim_oof : forall T (R : T -> T -> Prop), csim R (oof Smem) (oof Smem).
Proof. unfold csim, oof, fail; simpl; auto. Qed.
Lemma csim_vacuous : forall T (R : T -> T -> Prop) (m1 m2 : MS T), (forall s, ~ nf (m1 s)) -> csim R m1 m2.
Proof. unfold csim; intros. exfalso. eapply H; eauto. Qed.

Lemma csim_eq_r : forall T (R : T -> T -> Prop) (m1 m2 m2' : MS T),
  (forall s, m2' s = m2 s) -> csim R m1 m2 -> csim R m1 m2'.
Proof. unfold csim; intros. rewrite H. auto. Qed.

Lemma csim_mono_r : forall T (R : T -> T -> Prop) (m1 m2 m2' : MS T),
  mono1 Smem m2 m2' -> csim R m1 m2 -> csim R m1 m2'.
Proof.
  unfold csim, mono1; intros. destruct (H0 g1 g2 lg H1 H2) as (A & B & C).
  rewrite H; auto. red. red in H2.
  destruct (fst (m1 (g1, lg))) as [x|e], (fst (m2 (g2, lg))) as [y|e']; simpl in *; auto; try tauto;
    destruct e'; auto; destruct e; tauto.
Qed.

(* memory primitives *)
Lemma Forall2_nth : forall (g1 g2 : list (cell nat)) a, strel g1 g2 ->
  match nth_error g1 a, nth_error g2 a with
  | Some c1, Some c2 => cellrel c1 c2 | None, None => True | _, _ => False end.
Proof. induction g1; intros g2 i H; inversion H; subst; destruct i; simpl; auto. apply IHg1; auto. Qed.

Lemma Forall2_upd : forall (g1 g2 : list (cell nat)) a c1 c2, strel g1 g2 -> cellrel c1 c2 ->
  strel (upd g1 a c1) (upd g2 a c2).
Proof.
  induction g1; intros g2 i c1 c2 H C; inversion H; subst.
  - destruct i; simpl; constructor.
  - destruct i; simpl; constructor; auto. apply IHg1; auto.
Qed.

Lemma strel_length : forall g1 g2, strel g1 g2 -> length g1 = length g2.
Proof. induction 1; simpl; auto. Qed.

Lemma csim_alloc : forall b c1 c2, cellrel c1 c2 -> csim eq (alloc Smem tt b c1) (alloc Smem tt b c2).
Proof.
  unfold csim, alloc; simpl; intros. split; [|split]; auto.
  - apply Forall2_app; auto.
  - apply strel_length; auto.
Qed.

Lemma csim_readc : forall a, csim cellrel (readc Smem tt a) (readc Smem tt a).
Proof.
  unfold csim, readc; simpl; intros. pose proof (Forall2_nth g1 g2 a H).
  destruct (nth_error g1 a), (nth_error g2 a); simpl; try tauto; auto.
Qed.

Definition urel (a b : unit) : Prop := True.

Lemma csim_writec : forall a c1 c2, cellrel c1 c2 -> csim urel (writec Smem tt a c1) (writec Smem tt a c2).
Proof. unfold csim, writec; simpl; intros. split; [|split]; auto; try exact I. apply Forall2_upd; auto. Qed.

Lemma vrel_proj : forall v w, vrel v w -> proj v = proj w.
Proof. destruct 1; auto. Qed.
Lemma vrel_truthy : forall v w, vrel v w -> truthy v = truthy w.
Proof. destruct 1; auto. Qed.
Lemma vrel_typeof : forall v w, vrel v w -> typeof_tag v = typeof_tag w.
Proof. destruct 1; auto. Qed.
Lemma vrel_to_num : forall v w, vrel v w -> to_num v = to_num w.
Proof. destruct 1; auto. Qed.
Lemma vrel_is_str : forall v w, vrel v w -> is_str v = is_str w.
Proof. destruct 1; auto. Qed.

Lemma csim_logv : forall v w, vrel v w -> csim urel (logv Smem v) (logv Smem w).
Proof. unfold csim, logv; simpl; intros. rewrite (vrel_proj _ _ H). split; [|split]; auto; exact I. Qed.

Lemma csim_getvar : forall rho x, csim vrel (getvar Smem tt rho x) (getvar Smem tt rho x).
Proof.
  intros. unfold getvar. destruct (lookup rho x); [|apply csim_throwE].
  eapply csim_bind. apply csim_readc. intros [k1 o1] [k2 o2] [C1 C2]; simpl in *.
  destruct o1, o2; simpl in C2; try tauto. apply csim_ret; auto. apply csim_throwE.
Qed.

Lemma csim_setvar : forall rho x v w, vrel v w -> csim urel (setvar Smem tt rho x v) (setvar Smem tt rho x w).
Proof.
  intros. unfold setvar. destruct (lookup rho x); [|apply csim_throwE].
  eapply csim_bind. apply csim_readc. intros [k1 o1] [k2 o2] [C1 C2]; simpl in *. subst k2.
  destruct o1, o2; simpl in C2; try tauto.
  - destruct k1. apply csim_throwE. apply csim_writec. split; simpl; auto.
  - destruct k1; apply csim_throwE.
Qed.

Lemma csim_initvar : forall rho x k v w, vrel v w -> csim urel (initvar Smem tt rho x k v) (initvar Smem tt rho x k w).
Proof.
  intros. unfold initvar. destruct (lookup rho x); [|apply csim_oof]. apply csim_writec. split; simpl; auto.
Qed.

Lemma csim_alloc_vars : forall vs rho, csim eq (alloc_vars Smem tt vs rho) (alloc_vars Smem tt vs rho).
Proof.
  induction vs as [|[b x] vs]; simpl; intros. apply csim_ret; auto.
  eapply csim_bind. apply csim_alloc. split; simpl; auto. constructor.
  intros ? ? <-. apply IHvs.
Qed.

Lemma csim_alloc_decls : forall ds rho, csim eq (alloc_decls Smem tt ds rho) (alloc_decls Smem tt (map cfd ds) rho).
Proof.
  induction ds as [|[[b x] k] ds]; simpl; intros. apply csim_ret; auto.
  destruct k; simpl; (eapply csim_bind; [apply csim_alloc; split; simpl; auto | intros ? ? <-; apply IHds]).
Qed.

Lemma csim_init_funs : forall ds rho, csim urel (init_funs Smem tt rho ds) (init_funs Smem tt rho (map cfd ds)).
Proof.
  induction ds as [|[[b x] k] ds]; simpl; intros. apply csim_ret; exact I.
  destruct k; simpl; auto.
  eapply csim_bind. apply csim_initvar. constructor. intros; apply IHds.
Qed.

Lemma csim_enter_block : forall ds rho, csim eq (enter_block Smem tt ds rho) (enter_block Smem tt (map cfd ds) rho).
Proof.
  intros. unfold enter_block. eapply csim_bind. apply csim_alloc_decls. intros ? ? <-.
  eapply csim_bind. apply csim_init_funs. intros. apply csim_ret; auto.
Qed.

Lemma csim_copy_cell : forall b l, csim eq (copy_cell Smem tt b l) (copy_cell Smem tt b l).
Proof. intros. unfold copy_cell. eapply csim_bind. apply csim_readc. intros. apply csim_alloc; auto. Qed.

Ltac normS := change (mL Smem) with nat in *.

Definition prel (a b : val nat * val nat) : Prop := vrel (fst a) (fst b) /\ vrel (snd a) (snd b).

Lemma csim_mknum : forall z, csim vrel (lift Smem (mknum z)) (lift Smem (mknum z)).
Proof. intros. unfold mknum. destruct (_ && _); simpl. apply csim_ret; constructor. apply csim_oof. Qed.

Lemma csim_incdec_used : forall inc v w, vrel v w -> csim prel (incdec_used Smem inc v) (incdec_used Smem inc w).
Proof.
  intros. unfold incdec_used. normS. rewrite (vrel_to_num _ _ H). destruct (to_num w) as [[z|]|].
  - eapply csim_bind. apply csim_mknum. intros. eapply csim_bind. apply csim_mknum. intros.
    apply csim_ret. split; auto.
  - apply csim_ret. split; constructor.
  - apply csim_oof.
Qed.

Lemma csim_binop : forall o v1 w1 v2 w2, vrel v1 w1 -> vrel v2 w2 ->
  csim vrel (lift Smem (binop_eval o v1 v2)) (lift Smem (binop_eval o w1 w2)).
Proof.
  intros.
  assert (Q : forall z z' : option (val nat),
     (z = None /\ z' = None) \/ (exists b, z = Some (VBool b) /\ z' = Some (VBool b)) \/
     (exists n, z = Some (VInt n) /\ z' = Some (VInt n)) \/ (z = Some VNaN /\ z' = Some VNaN) ->
     csim vrel (lift Smem z) (lift Smem z')).
  { intros z z' [[-> ->]|[[b [-> ->]]|[[n [-> ->]]|[-> ->]]]]; simpl; try apply csim_oof; apply csim_ret; constructor. }
  apply Q. clear Q.
  assert (AR : forall f, (arith f v1 v2 = None /\ arith f w1 w2 = None) \/
     (exists b, arith f v1 v2 = Some (VBool b) /\ arith f w1 w2 = Some (VBool b)) \/
     (exists n, arith f v1 v2 = Some (VInt n) /\ arith f w1 w2 = Some (VInt n)) \/ (arith f v1 v2 = Some VNaN /\ arith f w1 w2 = Some VNaN)).
  { intro f. unfold arith. rewrite (vrel_to_num _ _ H), (vrel_to_num _ _ H0).
    destruct (to_num w1) as [[a|]|], (to_num w2) as [[b|]|]; auto.
    unfold mknum. destruct (_ && _); eauto 6. }
  destruct o; simpl; rewrite ?(vrel_is_str _ _ H), ?(vrel_is_str _ _ H0).
  - destruct (_ || _); auto.
  - auto.
  - auto.
  - destruct (_ && _); auto. rewrite (vrel_to_num _ _ H), (vrel_to_num _ _ H0).
    destruct (to_num w1) as [[a|]|], (to_num w2) as [[b|]|]; eauto 6.
  - destruct H; destruct H0; simpl; eauto 6.
Qed.

Definition crel (a b : compl nat) : Prop :=
  match a, b with CNorm o, CNorm o' => orel o o' | CRet v, CRet w => vrel v w | _, _ => False end.

Lemma csim_finish : forall r r', crel r r' -> csim crel (finish Smem r) (finish Smem r').
Proof.
  intros. destruct r, r'; simpl in H; try tauto; simpl; apply csim_ret; simpl; auto.
  destruct ov, ov0; simpl in *; try tauto; auto. constructor.
Qed.

Lemma orel_or_else : forall a b a' b', orel a a' -> orel b b' -> orel (or_else a b) (or_else a' b').
Proof. intros. destruct a, a'; simpl in *; tauto. Qed.

Notation ev := (eval Smem PSpec).
Notation ex := (exec Smem PSpec).

Definition cfP (n : nat) : Prop :=
  (forall rho u u' e, csim vrel (ev n tt rho u e) (ev n tt rho u' (cf_expr e))) /\
  (forall rho pb x body v w, vrel v w ->
     csim vrel (call Smem PSpec n rho pb x body v) (call Smem PSpec n rho pb x (cf_stmt body) w)) /\
  (forall rho s, csim crel (ex n tt rho s) (ex n tt rho (cf_stmt s))) /\
  (forall rho lv cond upd body V W, vrel V W ->
     csim crel (loop Smem PSpec n tt rho lv cond upd body V)
               (loop Smem PSpec n tt rho lv (cf_expr cond) (cf_expr upd) (cf_stmt body) W)).

Lemma ev0_fuel : forall T U (k : T -> MS U) s, ~ nf (bind Smem (fail Smem XFuel) k s).
Proof. intros. unfold bind, nofuel. simpl. auto. Qed.

Ltac cb := eapply csim_bind; [|intros].

Lemma cf_all : forall n, cfP n.
Proof.
  induction n as [|n (IHe & IHc & IHx & IHl)].
  { split; [|split; [|split]]; intros; apply csim_vacuous; intros s0 NF; red in NF; simpl in NF; auto. }
  pose proof (mono_all Smem PSpec n) as (Me & _ & _ & _).
  split; [|split; [|split]].
  - intros rho u u' e. destruct e; cbn [cf_expr].
    + cbn [eval]. apply csim_ret. destruct c; constructor.
    + cbn [eval]. apply csim_getvar.
    + cbn [eval]. cb. apply IHe. cb. apply csim_setvar; eauto. apply csim_ret; auto.
    + (* EBin *)
      assert (B : csim vrel (ev (S n) tt rho u (EBin o e1 e2)) (ev (S n) tt rho u' (EBin o (cf_expr e1) (cf_expr e2)))).
      { cbn [eval]. cb. apply IHe. cb. apply IHe. apply csim_binop; auto. }
      destruct (cf_expr e1) eqn:E1; auto. destruct (cf_expr e2) eqn:E2; auto.
      destruct (fold_bin o c c0) eqn:F; auto.
      destruct n. { apply csim_vacuous. intros s. cbn [eval]. apply ev0_fuel. }
      eapply csim_eq_r; [|exact B]. intros s. cbn [eval]. unfold bind, ret. simpl.
      rewrite (fold_bin_ok nat _ _ _ _ F). reflexivity.
    + cbn [eval]. destruct (lookup rho x). cb. apply csim_getvar. normS; rewrite (vrel_typeof _ _ H). apply csim_ret; constructor.
      apply csim_ret; constructor.
    + cbn [eval]. apply csim_ret. simpl. constructor.
    + cbn [eval]. cb. apply IHe. cb. apply IHe. destruct H; try apply csim_throwE. apply IHc; auto.
    + cbn [eval]. cb. apply IHe. apply IHe.
    + (* ECond *)
      assert (B : csim vrel (ev (S n) tt rho u (ECond e1 e2 e3)) (ev (S n) tt rho u' (ECond (cf_expr e1) (cf_expr e2) (cf_expr e3)))).
      { cbn [eval]. cb. apply IHe. normS; rewrite (vrel_truthy _ _ H). destruct (truthy y); apply IHe. }
      destruct (cf_expr e1) eqn:E1; auto.
      destruct n. { apply csim_vacuous. intros s. cbn [eval]. apply ev0_fuel. }
      destruct (const_truthy c) eqn:CT.
      * eapply csim_mono_r. apply (Me tt rho u' (cf_expr e2)).
        eapply csim_eq_r; [|exact B]. intros s. cbn [eval]. unfold bind, ret. simpl. rewrite of_const_truthy, CT. reflexivity.
      * eapply csim_mono_r. apply (Me tt rho u' (cf_expr e3)).
        eapply csim_eq_r; [|exact B]. intros s. cbn [eval]. unfold bind, ret. simpl. rewrite of_const_truthy, CT. reflexivity.
    + (* EAnd *)
      assert (B : csim vrel (ev (S n) tt rho u (EAnd e1 e2)) (ev (S n) tt rho u' (EAnd (cf_expr e1) (cf_expr e2)))).
      { cbn [eval]. cb. apply IHe. normS; rewrite (vrel_truthy _ _ H). destruct (truthy y). apply IHe. apply csim_ret; auto. }
      destruct (cf_expr e1) eqn:E1; auto.
      destruct n. { apply csim_vacuous. intros s. cbn [eval]. apply ev0_fuel. }
      destruct (const_truthy c) eqn:CT.
      * eapply csim_mono_r. apply (Me tt rho (uconst (EConst c) u') (cf_expr e2)).
        eapply csim_eq_r; [|exact B]. intros s. cbn [eval]. unfold bind, ret. simpl. rewrite of_const_truthy, CT. reflexivity.
      * eapply csim_eq_r; [|exact B]. intros s. cbn [eval]. unfold bind, ret. simpl. rewrite of_const_truthy, CT. reflexivity.
    + (* EOr *)
      assert (B : csim vrel (ev (S n) tt rho u (EOr e1 e2)) (ev (S n) tt rho u' (EOr (cf_expr e1) (cf_expr e2)))).
      { cbn [eval]. cb. apply IHe. normS; rewrite (vrel_truthy _ _ H). destruct (truthy y). apply csim_ret; auto. apply IHe. }
      destruct (cf_expr e1) eqn:E1; auto.
      destruct n. { apply csim_vacuous. intros s. cbn [eval]. apply ev0_fuel. }
      destruct (const_truthy c) eqn:CT.
      * eapply csim_eq_r; [|exact B]. intros s. cbn [eval]. unfold bind, ret. simpl. rewrite of_const_truthy, CT. reflexivity.
      * eapply csim_mono_r. apply (Me tt rho (uconst (EConst c) u') (cf_expr e2)).
        eapply csim_eq_r; [|exact B]. intros s. cbn [eval]. unfold bind, ret. simpl. rewrite of_const_truthy, CT. reflexivity.
    + cbn [eval uflag]. cb. apply csim_getvar. cb. apply csim_incdec_used; eauto. destruct H0.
      cb. apply csim_setvar; eauto. apply csim_ret. destruct pre; auto.
  - (* call *)
    intros rho pb x body v w R.
    assert (CB : csim vrel (call_body Smem (ex n) tt rho pb x body v) (call_body Smem (ex n) tt rho pb x (cf_stmt body) w)).
    { unfold call_body. rewrite cf_var_decls, cf_block_decls.
      cb. apply csim_alloc. split; simpl; auto. subst y.
      cb. apply csim_alloc_vars. subst y.
      cb. apply csim_enter_block. subst y.
      eapply csim_bind; [apply IHx | intros r r' Hr]. destruct r, r'; simpl in Hr; try tauto; apply csim_ret; auto. constructor. }
    intros g1 g2 lg ST NF.
    change (call Smem PSpec (Datatypes.S n) rho pb x body v (g1, lg)) with (call_body Smem (ex n) tt rho pb x body v (g1, lg)) in *.
    change (call Smem PSpec (Datatypes.S n) rho pb x (cf_stmt body) w (g2, lg)) with (call_body Smem (ex n) tt rho pb x (cf_stmt body) w (g2, lg)).
    apply CB; auto.
  - (* exec *)
    intros rho s. destruct s; cbn [cf_stmt]; cbn [exec].
    + apply csim_ret; simpl; auto.
    + eapply csim_bind; [apply IHx | intros r r' Hr]. destruct r, r'; simpl in Hr; try tauto.
      * eapply csim_bind; [apply IHx | intros q q' Hq]. destruct q, q'; simpl in Hq; try tauto; apply csim_ret; simpl; auto.
        apply orel_or_else; auto.
      * apply csim_ret; auto.
    + eapply csim_bind; [apply IHe | intros v w Hv]. apply csim_ret; simpl; auto.
    + eapply csim_bind; [apply IHe | intros v w Hv]. eapply csim_bind; [apply csim_logv; eauto | intros].
      apply csim_ret; simpl; constructor.
    + eapply csim_bind; [apply IHe | intros v w Hv]. eapply csim_bind; [apply csim_setvar; eauto | intros].
      apply csim_ret; simpl; auto.
    + eapply csim_bind; [apply IHe | intros v w Hv]. eapply csim_bind; [apply csim_initvar; eauto | intros].
      apply csim_ret; simpl; auto.
    + eapply csim_bind; [apply IHe | intros v w Hv]. eapply csim_bind; [apply csim_initvar; eauto | intros].
      apply csim_ret; simpl; auto.
    + apply csim_ret; simpl; auto.
    + rewrite cf_block_decls. eapply csim_bind; [apply csim_enter_block | intros r r' <-]. apply IHx.
    + eapply csim_bind; [apply IHe | intros v w Hv]. normS. rewrite (vrel_truthy _ _ Hv).
      eapply csim_bind; [destruct (truthy w); apply IHx | intros r r' Hr]. apply csim_finish; auto.
    + apply (IHl rho None e (EConst CUndef) s VUndef VUndef). constructor.
    + eapply csim_bind; [apply csim_alloc; split; simpl; auto | intros l l' <-].
      eapply csim_bind; [apply IHe | intros v w Hv].
      eapply csim_bind; [apply csim_writec; split; simpl; eauto | intros].
      eapply csim_bind; [apply csim_copy_cell | intros l2 l2' <-]. apply IHl. constructor.
    + eapply csim_bind; [apply IHe | intros v w Hv]. apply csim_ret; simpl; auto.
    + eapply csim_bind; [apply IHe | intros v w Hv]. apply csim_throw; auto.
    + eapply csim_catch. apply IHx.
      * intros v w Hv. eapply csim_bind; [apply csim_alloc; split; simpl; auto | intros l l' <-].
        eapply csim_bind; [apply IHx | intros r r' Hr]. apply csim_finish; auto.
      * intros. apply csim_finish; auto.
  - (* loop *)
    intros rho lv cond upd body V W R. cbn [loop].
    eapply csim_bind; [apply IHe | intros vc wc Hc]. normS. rewrite (vrel_truthy _ _ Hc). destruct (truthy wc).
    + eapply csim_bind; [apply IHx | intros r r' Hr]. destruct r, r'; simpl in Hr; try tauto.
      * assert (R' : vrel (match ov with Some w0 => w0 | None => V end) (match ov0 with Some w0 => w0 | None => W end)).
        { destruct ov, ov0; simpl in Hr; try tauto; auto. }
        destruct lv as [[[b z] l]|].
        -- eapply csim_bind; [apply csim_copy_cell | intros l2 l2' <-].
           eapply csim_bind; [apply IHe | intros]. apply IHl; auto.
        -- apply IHl; auto.
      * apply csim_ret; auto.
    + apply csim_ret; simpl; auto.
Qed.

Theorem constfold_sound : forall n p, snd (run_env n p) <> OFuelOut ->
  run_env n (cf_stmt p) = run_env n p.
Proof.
  intros n p NF.
  change (snd (obs_of (prog_body Smem (ex n) tt p ([], []))) <> OFuelOut) in NF.
  change (obs_of (prog_body Smem (ex n) tt (cf_stmt p) ([], [])) = obs_of (prog_body Smem (ex n) tt p ([], []))).
  assert (PB : csim crel (prog_body Smem (ex n) tt p) (prog_body Smem (ex n) tt (cf_stmt p))).
  { unfold prog_body. rewrite cf_var_decls, cf_block_decls.
    cb. apply csim_alloc_vars. subst y. cb. apply csim_enter_block. subst y.
    apply (proj1 (proj2 (proj2 (cf_all n)))). }
  specialize (PB [] [] [] (Forall2_nil _)).
  unfold obs_of in *.
  destruct (prog_body Smem (ex n) tt p ([], [])) as [r1 [g1 l1]].
  destruct (prog_body Smem (ex n) tt (cf_stmt p) ([], [])) as [r2 [g2 l2]]. simpl in *.
  destruct PB as (A & B & C).
  { red. simpl. destruct r1 as [?|[]]; auto. }
  subst l2. f_equal.
  destruct r1 as [[o|v]|[v| | |]], r2 as [[o'|v']|[v'| | |]]; simpl in C; try tauto; auto.
  - destruct o, o'; simpl in C; try tauto; auto. simpl. rewrite (vrel_proj _ _ C); auto.
  - rewrite (vrel_proj _ _ C); auto.
  - rewrite (vrel_proj _ _ C); auto.
Qed.

End CF.

(* non-vacuity: folding really rewrites this program, and (as the theorem says) does not change its behaviour *)
Definition p_cf : stmt :=
  (* var v0 = 1 + 2; log((0 && v0++) || (v0 < 5 ? "a" : "b")); if (true ? v0 : 0) { log(v0) } *)
  SSeq (SVar 1%N 0%N (EBin OAdd (EConst (CInt 1%Z)) (EConst (CInt 2%Z))))
  (SSeq (SLog (EOr (EAnd (EConst (CInt 0%Z)) (EIncDec false true 0%N))
                   (ECond (EBin OLt (EVar 0%N) (EConst (CInt 5%Z))) (EConst (CStr 6%N)) (EConst (CStr 9%N)))))
        (SIf (ECond (EConst (CBool true)) (EVar 0%N) (EConst (CInt 0%Z))) (SBlock (SLog (EVar 0%N))) (SBlock SSkip))).

Lemma constfold_example :
  cf_stmt p_cf <> p_cf /\
  run_env 20 (cf_stmt p_cf) = run_env 20 p_cf /\
  fst (run_env 20 p_cf) = [OStr 6%N; ONum 3%Z true].
Proof. split; [|split]; vm_compute; try reflexivity. intro H; discriminate H. Qed.
