(* C02 — simulation between the environment semantics (Smem) and the slot semantics (Imem al). *)
From Coq Require Import List ZArith NArith Bool Lia.
Import ListNotations.
From Verif.C02 Require Import Model.

(* ---------------------------------------------------------------------------------------- *)
(* lists *)

Lemma length_upd : forall {A} (l : list A) i x, length (upd l i x) = length l.
Proof. induction l; destruct i; simpl; intros; auto. Qed.

Lemma nth_error_upd_eq : forall {A} (l : list A) i x, i < length l -> nth_error (upd l i x) i = Some x.
Proof. induction l; destruct i; simpl; intros; try lia; auto. apply IHl. lia. Qed.

Lemma nth_error_upd_neq : forall {A} (l : list A) i j x, i <> j -> nth_error (upd l i x) j = nth_error l j.
Proof. induction l; destruct i; destruct j; simpl; intros; try congruence; auto. Qed.

Lemma nth_upd_eq : forall {A} (l : list A) i x d, i < length l -> nth i (upd l i x) d = x.
Proof. induction l; destruct i; simpl; intros; try lia; auto. apply IHl. lia. Qed.

Lemma nth_upd_neq : forall {A} (l : list A) i j x d, i <> j -> nth j (upd l i x) d = nth j l d.
Proof. induction l; destruct i; destruct j; simpl; intros; try congruence; auto. Qed.

Lemma nth_error_Some_lt : forall {A} (l : list A) i x, nth_error l i = Some x -> i < length l.
Proof. intros. apply nth_error_Some. congruence. Qed.

Lemma nth_error_app_l : forall {A} (l k : list A) i x, nth_error l i = Some x -> nth_error (l ++ k) i = Some x.
Proof. intros. rewrite nth_error_app1; auto. eapply nth_error_Some_lt; eauto. Qed.

Lemma nth_app_last : forall {A} (l : list (list A)) d, nth (length l) (l ++ [[]]) d = [].
Proof. intros. rewrite app_nth2 by lia. replace (length l - length l) with 0 by lia. reflexivity. Qed.

Lemma NoDup_app_last : forall {A} (l : list A) x, NoDup l -> ~ In x l -> NoDup (l ++ [x]).
Proof.
  induction l; simpl; intros.
  - constructor; auto; constructor.
  - inversion H; subst. constructor.
    + rewrite in_app_iff; simpl; intuition (subst; tauto).
    + apply IHl; auto.
Qed.

(* ---------------------------------------------------------------------------------------- *)
(* worlds: where the cell of each S-address lives in the slot machine *)

Inductive mloc := MH (h : nat) | MF (f i : nat).
Definition world := list mloc.
Definition ext (m m' : world) := exists k, m' = m ++ k.

Lemma ext_refl : forall m, ext m m.
Proof. intros; exists []; rewrite app_nil_r; auto. Qed.
Lemma ext_trans : forall a b c, ext a b -> ext b c -> ext a c.
Proof. intros a b c [k ->] [k' ->]. exists (k ++ k'). rewrite app_assoc. auto. Qed.
Lemma ext_nth : forall m m' a l, ext m m' -> nth_error m a = Some l -> nth_error m' a = Some l.
Proof. intros m m' a l [k ->] H. apply nth_error_app_l; auto. Qed.
Lemma ext_app : forall m k, ext m (m ++ k).
Proof. intros; exists k; auto. Qed.
#[export] Hint Resolve ext_refl ext_trans ext_nth ext_app : c02.

Section Sim.
Variable al : bid -> bool.
Variable pm : posmode.

Definition kind_loc (l : loc) : skind :=
  match l with InFrame _ => KFrame | InStash _ => KStash | Foreign => KForeign end.
Definition shape (rho : list (name * loc)) : senv := map (fun p => (fst p, kind_loc (snd p))) rho.

Definition loc_match (cur : option nat) (m : world) (a : nat) (l : loc) : Prop :=
  match l with
  | InStash h => nth_error m a = Some (MH h)
  | InFrame i => match cur with Some f => nth_error m a = Some (MF f i) | None => False end
  | Foreign => True
  end.

Inductive rel_env (cur : option nat) (m : world) : list (name * nat) -> list (name * loc) -> Prop :=
| re_nil : rel_env cur m [] []
| re_cons : forall x a l r r', loc_match cur m a l -> rel_env cur m r r' ->
            rel_env cur m ((x, a) :: r) ((x, l) :: r').

Definition body_ok (rI : list (name * loc)) (pb : bid) (x : name) (body : stmt) : Prop :=
  vstmt al (push_decls al (block_decls body)
              (push_vars al (var_decls (Some x) body) ((x, kind_of al pb) :: shape rI))) body = true.

Inductive rel_val (m : world) : val nat -> val loc -> Prop :=
| rv_undef : rel_val m VUndef VUndef
| rv_bool : forall b, rel_val m (VBool b) (VBool b)
| rv_int : forall z, rel_val m (VInt z) (VInt z)
| rv_nan : rel_val m VNaN VNaN
| rv_str : forall t, rel_val m (VStr t) (VStr t)
| rv_err : forall k, rel_val m (VErr k) (VErr k)
| rv_clo : forall rS rI pb x body, rel_env None m rS rI -> body_ok rI pb x body ->
           rel_val m (VClo rS pb x body) (VClo rI pb x body).
Hint Constructors rel_val rel_env : c02.

Definition rel_oval (m : world) (a : option (val nat)) (b : option (val loc)) : Prop :=
  match a, b with None, None => True | Some v, Some w => rel_val m v w | _, _ => False end.
Definition rel_cell (m : world) (a : cell nat) (b : cell loc) : Prop :=
  fst a = fst b /\ rel_oval m (snd a) (snd b).

Lemma loc_match_ext : forall cur m m' a l, ext m m' -> loc_match cur m a l -> loc_match cur m' a l.
Proof. unfold loc_match; intros. destruct l; auto. destruct cur; eauto with c02. eauto with c02. Qed.
Lemma rel_env_ext : forall cur m m' r r', ext m m' -> rel_env cur m r r' -> rel_env cur m' r r'.
Proof. induction 2; constructor; eauto using loc_match_ext. Qed.
Lemma rel_val_ext : forall m m' v w, ext m m' -> rel_val m v w -> rel_val m' v w.
Proof. destruct 2; constructor; eauto using rel_env_ext. Qed.
Lemma rel_oval_ext : forall m m' v w, ext m m' -> rel_oval m v w -> rel_oval m' v w.
Proof. unfold rel_oval; intros; destruct v, w; eauto using rel_val_ext. Qed.
Lemma rel_cell_ext : forall m m' v w, ext m m' -> rel_cell m v w -> rel_cell m' v w.
Proof. unfold rel_cell; intros; intuition eauto using rel_oval_ext. Qed.
Hint Resolve loc_match_ext rel_env_ext rel_val_ext rel_oval_ext rel_cell_ext : c02.

Lemma rel_env_none_some : forall m c r r', rel_env None m r r' -> rel_env (Some c) m r r'.
Proof. induction 1; constructor; auto. destruct l; simpl in *; tauto. Qed.

Lemma loc_match_foreignize : forall cur m a l,
  loc_match cur m a l -> loc_match None m a (match l with InStash h => InStash h | _ => Foreign end).
Proof. destruct l; simpl; auto. Qed.
Lemma rel_env_capture : forall cur m r r', rel_env cur m r r' -> rel_env None m r (foreignize r').
Proof. induction 1; simpl; constructor; auto. destruct l; simpl in *; auto. Qed.

Lemma shape_foreignize : forall r, shape (foreignize r) = sforeign (shape r).
Proof. induction r as [|[x l] r]; simpl; auto. f_equal; auto. destruct l; auto. Qed.

Lemma rel_val_proj : forall m v w, rel_val m v w -> proj v = proj w.
Proof. destruct 1; auto. Qed.
Lemma rel_val_truthy : forall m v w, rel_val m v w -> truthy v = truthy w.
Proof. destruct 1; auto. Qed.
Lemma rel_val_typeof : forall m v w, rel_val m v w -> typeof_tag v = typeof_tag w.
Proof. destruct 1; auto. Qed.
Lemma rel_val_to_num : forall m v w, rel_val m v w -> to_num v = to_num w.
Proof. destruct 1; auto. Qed.

(* ---------------------------------------------------------------------------------------- *)
(* memory states *)

Definition readI (st : istate) (ml : mloc) : option (cell loc) :=
  match ml with MH h => nth_error (hp st) h | MF f i => nth_error (nth f (frs st) []) i end.

Definition rel_st (m : world) (sg : list (cell nat)) (st : istate) : Prop :=
  length m = length sg /\ NoDup m /\
  forall a ml, nth_error m a = Some ml ->
    exists cS cI, nth_error sg a = Some cS /\ readI st ml = Some cI /\ rel_cell m cS cI.

Lemma NoDup_nth_inj : forall (m : world) a b l, NoDup m -> nth_error m a = Some l -> nth_error m b = Some l -> a = b.
Proof.
  intros. apply (proj1 (NoDup_nth_error m) H); try congruence. eapply nth_error_Some_lt; eauto.
Qed.

Lemma rel_st_fresh : forall m sg st ml, rel_st m sg st -> readI st ml = None -> ~ In ml m.
Proof.
  intros m sg st ml (L & N & H) R I. apply In_nth_error in I. destruct I as [a I].
  destruct (H _ _ I) as (? & ? & ? & ? & ?). congruence.
Qed.

(* allocation *)
Lemma rel_st_alloc : forall m sg st cur b cS cI,
  rel_st m sg st -> rel_cell m cS cI -> cur < length (frs st) ->
  let '(st', l) := m_alloc (Imem al) cur b cI st in
  exists ml, rel_st (m ++ [ml]) (sg ++ [cS]) st' /\ loc_match (Some cur) (m ++ [ml]) (length sg) l /\
             l <> Foreign /\ kind_loc l = kind_of al b /\ length (frs st') = length (frs st).
Proof.
  intros m sg st cur b cS cI R C LT. simpl. unfold kind_of.
  assert (L := proj1 R).
  destruct (al b).
  - (* stash *)
    exists (MH (length (hp st))). split; [|split; [|split; [|split]]]; simpl; auto; try congruence.
    + destruct R as (_ & N & H). split; [|split].
      * rewrite !app_length; simpl; lia.
      * apply NoDup_app_last. auto. eapply rel_st_fresh with (st := st); [split; eauto|]. simpl. apply nth_error_None. lia.
      * intros a ml E. destruct (Nat.eq_dec a (length m)).
        -- subst a. rewrite nth_error_app2 in E by lia. replace (length m - length m) with 0 in E by lia. simpl in E. inversion E; subst.
           exists cS, cI. rewrite L. rewrite nth_error_app2 by lia. replace (length sg - length sg) with 0 by lia.
           simpl. rewrite nth_error_app2 by lia. replace (length (hp st) - length (hp st)) with 0 by lia. simpl.
           repeat split; auto; eapply rel_cell_ext; eauto with c02; apply C.
        -- assert (a < length m). { apply nth_error_Some_lt in E. rewrite app_length in E; simpl in E. lia. }
           rewrite nth_error_app1 in E by auto. destruct (H _ _ E) as (c1 & c2 & E1 & E2 & E3).
           exists c1, c2. repeat split; try (apply E3). apply nth_error_app_l; auto.
           destruct ml; simpl in *; auto. apply nth_error_app_l; auto.
           eapply rel_cell_ext; eauto with c02.
    + rewrite nth_error_app2 by lia. rewrite L. replace (length sg - length sg) with 0 by lia. reflexivity.
  - (* frame *)
    set (fr := nth cur (frs st) []).
    exists (MF cur (length fr)). split; [|split; [|split; [|split]]]; simpl; auto; try congruence.
    + destruct R as (_ & N & H). split; [|split].
      * rewrite !app_length; simpl; lia.
      * apply NoDup_app_last. auto. eapply rel_st_fresh with (st := st); [split; eauto|]. simpl. apply nth_error_None. fold fr. lia.
      * intros a ml E. destruct (Nat.eq_dec a (length m)).
        -- subst a. rewrite nth_error_app2 in E by lia. replace (length m - length m) with 0 in E by lia. simpl in E. inversion E; subst.
           exists cS, cI. rewrite L. rewrite nth_error_app2 by lia. replace (length sg - length sg) with 0 by lia.
           simpl. rewrite nth_upd_eq by auto. rewrite nth_error_app2 by lia. replace (length fr - length fr) with 0 by lia. simpl.
           repeat split; auto; eapply rel_cell_ext; eauto with c02; apply C.
        -- assert (a < length m). { apply nth_error_Some_lt in E. rewrite app_length in E; simpl in E. lia. }
           rewrite nth_error_app1 in E by auto. destruct (H _ _ E) as (c1 & c2 & E1 & E2 & E3).
           exists c1, c2. repeat split; try (apply E3). apply nth_error_app_l; auto.
           destruct ml; simpl in *; auto.
           destruct (Nat.eq_dec f cur).
           ++ subst f. rewrite nth_upd_eq by auto. apply nth_error_app_l; auto.
           ++ rewrite nth_upd_neq by auto. auto.
           ++ eapply rel_cell_ext; eauto with c02.
    + rewrite nth_error_app2 by lia. rewrite L. replace (length sg - length sg) with 0 by lia. reflexivity.
    + apply length_upd.
Qed.

(* read *)
Lemma rel_st_read : forall m sg st cur a l,
  rel_st m sg st -> loc_match (Some cur) m a l -> l <> Foreign ->
  exists cS cI, nth_error sg a = Some cS /\ m_read (Imem al) cur l st = Some cI /\ rel_cell m cS cI.
Proof.
  intros m sg st cur a l (L & N & H) LM NF. destruct l; simpl in *; try congruence.
  - destruct (H _ _ LM) as (c1 & c2 & ? & ? & ?); eauto.
  - destruct (H _ _ LM) as (c1 & c2 & ? & ? & ?); eauto.
Qed.

(* write *)
Lemma rel_st_write : forall m sg st cur a l cS cI,
  rel_st m sg st -> loc_match (Some cur) m a l -> l <> Foreign -> rel_cell m cS cI -> cur < length (frs st) ->
  rel_st m (upd sg a cS) (m_write (Imem al) cur l cI st) /\
  length (frs (m_write (Imem al) cur l cI st)) = length (frs st).
Proof.
  intros m sg st cur a l cS cI (L & N & H) LM NF C LT.
  assert (exists ml, nth_error m a = Some ml /\ match l with InStash h => ml = MH h | InFrame i => ml = MF cur i | Foreign => False end) as (ml & E & K).
  { destruct l; simpl in LM; eauto; congruence. }
  destruct (H _ _ E) as (c1 & c2 & E1 & E2 & E3).
  split.
  - split; [|split]; auto. rewrite length_upd; auto.
    intros a2 ml2 E'. destruct (Nat.eq_dec a2 a).
    + subst a2. assert (ml2 = ml) by congruence. subst ml2.
      exists cS, cI. split; [|split]; auto.
      * apply nth_error_upd_eq. eapply nth_error_Some_lt; eauto.
      * destruct l; try tauto; subst ml; simpl in *.
        -- rewrite nth_upd_eq by auto. apply nth_error_upd_eq. eapply nth_error_Some_lt; eauto.
        -- apply nth_error_upd_eq. eapply nth_error_Some_lt; eauto.
    + destruct (H _ _ E') as (d1 & d2 & D1 & D2 & D3). exists d1, d2. split; [|split]; auto.
      * rewrite nth_error_upd_neq; auto.
      * assert (ml2 <> ml). { intro; subst. apply n. eapply NoDup_nth_inj; eauto. }
        destruct l; try tauto; subst ml; simpl.
        -- destruct ml2; simpl in *; auto.
           destruct (Nat.eq_dec f cur).
           ++ subst f. rewrite nth_upd_eq by auto. rewrite nth_error_upd_neq; auto; congruence.
           ++ rewrite nth_upd_neq; auto.
        -- destruct ml2; simpl in *; auto. rewrite nth_error_upd_neq; auto; congruence.
  - destruct l; simpl; auto. apply length_upd.
Qed.

(* entering a function activation *)
Lemma rel_st_enter : forall m sg st,
  rel_st m sg st ->
  rel_st m sg {| hp := hp st; frs := frs st ++ [[]] |}.
Proof.
  intros m sg st (L & N & H). split; [|split]; auto.
  intros a ml E. destruct (H _ _ E) as (c1 & c2 & ? & R & ?). exists c1, c2. split; [|split]; auto.
  destruct ml; simpl in *; auto.
  destruct (Nat.lt_ge_cases f (length (frs st))).
  - rewrite app_nth1; auto.
  - rewrite nth_overflow in R by auto. destruct i; simpl in R; congruence.
Qed.

(* ---------------------------------------------------------------------------------------- *)
(* related computations *)
Ltac ssplit := split; [|split; [|split; [|split]]].
Ltac norm := try change (mL Smem) with nat in *; try change (mL (Imem al)) with loc in *.

Notation MS := (M Smem).
Notation MI := (M (Imem al)).

Definition rel_res {T T'} (R : world -> T -> T' -> Prop) (m : world) (a : T + exn nat) (b : T' + exn loc) : Prop :=
  match a, b with
  | inl x, inl y => R m x y
  | inr (XThrow v), inr (XThrow w) => rel_val m v w
  | inr XFuel, inr XFuel => True
  | inr XOOF, inr XOOF => True
  | _, _ => False
  end.

Definition sim {T T'} (R : world -> T -> T' -> Prop) (cur : nat) (m : world) (cS : MS T) (cI : MI T') : Prop :=
  forall m1 sg st lg, ext m m1 -> rel_st m1 sg st -> cur < length (frs st) ->
    exists m2, ext m1 m2 /\
      rel_st m2 (fst (snd (cS (sg, lg)))) (fst (snd (cI (st, lg)))) /\
      snd (snd (cS (sg, lg))) = snd (snd (cI (st, lg))) /\
      length (frs st) <= length (frs (fst (snd (cI (st, lg))))) /\
      rel_res R m2 (fst (cS (sg, lg))) (fst (cI (st, lg))).

Lemma sim_ext : forall T T' (R : world -> T -> T' -> Prop) cur m m' cS cI,
  ext m m' -> sim R cur m cS cI -> sim R cur m' cS cI.
Proof. unfold sim; intros. eapply H0; eauto with c02. Qed.

Lemma sim_bind : forall T T' U U' (R : world -> T -> T' -> Prop) (R2 : world -> U -> U' -> Prop) cur m
    (cS : MS T) (cI : MI T') (kS : T -> MS U) (kI : T' -> MI U'),
  sim R cur m cS cI ->
  (forall m' x y, ext m m' -> R m' x y -> sim R2 cur m' (kS x) (kI y)) ->
  sim R2 cur m (bind Smem cS kS) (bind (Imem al) cI kI).
Proof.
  unfold sim, bind. intros T T' U U' R R2 cur m cS cI kS kI H K m1 sg st lg E RS LT.
  destruct (H m1 sg st lg E RS LT) as (m2 & E2 & RS2 & LG & FR & RR).
  destruct (cS (sg, lg)) as [rS [sg' l1]]. destruct (cI (st, lg)) as [rI [st' l2]]. simpl in *. subst l2.
  destruct rS as [x|eS]; destruct rI as [y|eI]; simpl in RR; try tauto.
  - assert (E3 : ext m m2) by eauto with c02.
    assert (LT2 : cur < length (frs st')) by lia.
    destruct (K m2 x y E3 RR m2 sg' st' l1 (ext_refl _) RS2 LT2) as (m3 & E4 & RS3 & LG3 & FR3 & RR3).
    exists m3. ssplit; eauto with c02. lia.
  - destruct eS; tauto.
  - exists m2. simpl. ssplit; auto.
Qed.

Lemma sim_ret : forall T T' (R : world -> T -> T' -> Prop) cur m x y,
  (forall m1, ext m m1 -> R m1 x y) -> sim R cur m (ret Smem x) (ret (Imem al) y).
Proof. unfold sim, ret; intros. exists m1; simpl; ssplit; auto with c02. Qed.

Lemma sim_fail_throw : forall T T' (R : world -> T -> T' -> Prop) cur m v w,
  rel_val m v w -> sim R cur m (fail Smem (XThrow v)) (fail (Imem al) (XThrow w)).
Proof. unfold sim, fail; intros. exists m1; simpl; ssplit; eauto with c02. Qed.

Lemma sim_throwE : forall T T' (R : world -> T -> T' -> Prop) cur m k,
  sim R cur m (throwE Smem k) (throwE (Imem al) k).
Proof. intros. apply sim_fail_throw. constructor. Qed.

Lemma sim_fuel : forall T T' (R : world -> T -> T' -> Prop) cur m,
  sim R cur m (fail Smem XFuel) (fail (Imem al) XFuel).
Proof. unfold sim, fail; intros. exists m1; simpl; ssplit; eauto with c02. Qed.

Lemma sim_oof : forall T T' (R : world -> T -> T' -> Prop) cur m,
  sim R cur m (oof Smem) (oof (Imem al)).
Proof. unfold sim, oof, fail; intros. exists m1; simpl; ssplit; eauto with c02. Qed.

Definition rel_unit (m : world) (a b : unit) : Prop := True.
Definition rel_loc (cur : nat) (m : world) (a : nat) (l : loc) : Prop :=
  loc_match (Some cur) m a l /\ l <> Foreign.

Lemma sim_readc : forall cur m a l, loc_match (Some cur) m a l -> l <> Foreign ->
  sim rel_cell cur m (readc Smem tt a) (readc (Imem al) cur l).
Proof.
  unfold sim, readc; intros cur m a l LM NF m1 sg st lg E RS LT. simpl fst.
  destruct (rel_st_read m1 sg st cur a l RS (loc_match_ext _ _ _ _ _ E LM) NF) as (c1 & c2 & E1 & E2 & E3).
  exists m1. simpl in *. rewrite E1, E2. simpl. ssplit; auto with c02.
Qed.

Lemma sim_writec : forall cur m a l cS cI, loc_match (Some cur) m a l -> l <> Foreign -> rel_cell m cS cI ->
  sim rel_unit cur m (writec Smem tt a cS) (writec (Imem al) cur l cI).
Proof.
  unfold sim, writec; intros cur m a l cS cI LM NF C m1 sg st lg E RS LT. cbn [fst snd].
  destruct (rel_st_write m1 sg st cur a l cS cI RS (loc_match_ext _ _ _ _ _ E LM) NF (rel_cell_ext _ _ _ _ E C) LT) as (W1 & W2).
  exists m1. ssplit; auto with c02.
  - rewrite W2; lia.
  - exact I.
Qed.

Lemma sim_alloc : forall cur m b cS cI, rel_cell m cS cI ->
  sim (fun m' a l => loc_match (Some cur) m' a l /\ l <> Foreign /\ kind_loc l = kind_of al b) cur m
      (alloc Smem tt b cS) (alloc (Imem al) cur b cI).
Proof.
  unfold sim, alloc; intros cur m b cS cI C m1 sg st lg E RS LT. cbn [fst snd].
  pose proof (rel_st_alloc m1 sg st cur b cS cI RS (rel_cell_ext _ _ _ _ E C) LT) as A.
  change (m_alloc Smem tt b cS sg) with (sg ++ [cS], length sg).
  destruct (m_alloc (Imem al) cur b cI st) as [st' l]. destruct A as (ml & A1 & A2 & A3 & A4 & A5).
  exists (m1 ++ [ml]). cbn [fst snd]. ssplit; auto with c02.
  - rewrite A5; lia.
  - cbn. auto.
Qed.

Lemma sim_logv : forall cur m v w, rel_val m v w -> sim rel_unit cur m (logv Smem v) (logv (Imem al) w).
Proof.
  unfold sim, logv; intros. exists m1. cbn [fst snd]. erewrite rel_val_proj by eauto.
  ssplit; auto with c02. exact I.
Qed.

Lemma sim_lift : forall T T' (R : world -> T -> T' -> Prop) cur m (a : option T) (b : option T'),
  match a, b with Some x, Some y => forall m1, ext m m1 -> R m1 x y | None, None => True | _, _ => False end ->
  sim R cur m (lift Smem a) (lift (Imem al) b).
Proof. intros. destruct a, b; simpl; try tauto. apply sim_ret; auto. apply sim_oof. Qed.

Lemma sim_conseq : forall T T' (R R' : world -> T -> T' -> Prop) cur m cS cI,
  (forall m' x y, ext m m' -> R m' x y -> R' m' x y) -> sim R cur m cS cI -> sim R' cur m cS cI.
Proof.
  unfold sim; intros. destruct (H0 m1 sg st lg H1 H2 H3) as (m2 & A & B & C & D & F).
  exists m2. ssplit; auto.
  destruct (fst (cS (sg, lg))), (fst (cI (st, lg))); simpl in *; eauto with c02.
Qed.

(* ---------------------------------------------------------------------------------------- *)
(* variables *)

Lemma lookup_rel : forall cur m rS rI x, rel_env cur m rS rI ->
  match lookup rS x, lookup rI x with
  | None, None => lookup (shape rI) x = None
  | Some a, Some l => loc_match cur m a l /\ lookup (shape rI) x = Some (kind_loc l)
  | _, _ => False
  end.
Proof.
  induction 1; simpl; auto. destruct (N.eqb x0 x); auto.
Qed.

Lemma ref_ok_nf : forall G x l, ref_ok G x = true -> lookup G x = Some (kind_loc l) -> l <> Foreign.
Proof. unfold ref_ok; intros. rewrite H0 in H. destruct l; simpl in *; congruence. Qed.

Lemma sim_getvar : forall cur m rS rI x, rel_env (Some cur) m rS rI -> ref_ok (shape rI) x = true ->
  sim rel_val cur m (getvar Smem tt rS x) (getvar (Imem al) cur rI x).
Proof.
  intros. unfold getvar. norm. pose proof (lookup_rel _ _ _ _ x H) as L.
  destruct (lookup rS x), (lookup rI x); try tauto.
  - destruct L as [L1 L2]. pose proof (ref_ok_nf _ _ _ H0 L2).
    eapply sim_bind. apply sim_readc; auto.
    intros m' [k1 o1] [k2 o2] E [C1 C2]; simpl in *. unfold rel_oval in C2. destruct o1, o2; try tauto.
    + apply sim_ret; eauto with c02.
    + apply sim_throwE.
  - apply sim_throwE.
Qed.

Lemma sim_setvar : forall cur m rS rI x v w, rel_env (Some cur) m rS rI -> ref_ok (shape rI) x = true ->
  rel_val m v w ->
  sim rel_unit cur m (setvar Smem tt rS x v) (setvar (Imem al) cur rI x w).
Proof.
  intros. unfold setvar. norm. pose proof (lookup_rel _ _ _ _ x H) as L.
  destruct (lookup rS x), (lookup rI x); try tauto.
  - destruct L as [L1 L2]. pose proof (ref_ok_nf _ _ _ H0 L2).
    eapply sim_bind. apply sim_readc; auto.
    intros m' [k1 o1] [k2 o2] E [C1 C2]; simpl in *. subst k2. unfold rel_oval in C2. destruct o1, o2; try tauto.
    + destruct k1. apply sim_throwE. apply sim_writec; eauto with c02. split; simpl; eauto with c02.
    + destruct k1; apply sim_throwE.
  - apply sim_throwE.
Qed.

Lemma sim_initvar : forall cur m rS rI x k v w, rel_env (Some cur) m rS rI -> ref_ok (shape rI) x = true ->
  rel_val m v w ->
  sim rel_unit cur m (initvar Smem tt rS x k v) (initvar (Imem al) cur rI x k w).
Proof.
  intros. unfold initvar. norm. pose proof (lookup_rel _ _ _ _ x H) as L.
  destruct (lookup rS x), (lookup rI x); try tauto.
  - destruct L as [L1 L2]. pose proof (ref_ok_nf _ _ _ H0 L2).
    apply sim_writec; auto. split; simpl; auto.
  - apply sim_oof.
Qed.

Definition rel_envs (cur : nat) (G : senv) (m : world) (r : list (name * nat)) (r' : list (name * loc)) : Prop :=
  rel_env (Some cur) m r r' /\ shape r' = G.

Lemma sim_alloc_vars : forall cur vs m rS rI, rel_env (Some cur) m rS rI ->
  sim (rel_envs cur (push_vars al vs (shape rI))) cur m
      (alloc_vars Smem tt vs rS) (alloc_vars (Imem al) cur vs rI).
Proof.
  induction vs as [|[b x] vs]; simpl; intros.
  - apply sim_ret. split; eauto with c02.
  - eapply sim_bind. apply sim_alloc with (cS := (false, Some VUndef)) (cI := (false, Some VUndef)).
    split; simpl; auto with c02.
    intros m' a l E (A1 & A2 & A3).
    replace ((x, kind_of al b) :: shape rI) with (shape ((x, l) :: rI)) by (simpl; congruence).
    apply IHvs. constructor; eauto with c02.
Qed.

Lemma sim_alloc_decls : forall cur ds m rS rI, rel_env (Some cur) m rS rI ->
  sim (rel_envs cur (push_decls al ds (shape rI))) cur m
      (alloc_decls Smem tt ds rS) (alloc_decls (Imem al) cur ds rI).
Proof.
  induction ds as [|[[b x] k] ds]; simpl; intros.
  - apply sim_ret. split; eauto with c02.
  - eapply sim_bind. apply sim_alloc with (cS := decl_cell Smem k) (cI := decl_cell (Imem al) k).
    destruct k; split; simpl; auto.
    intros m' a l E (A1 & A2 & A3).
    replace ((x, kind_of al b) :: shape rI) with (shape ((x, l) :: rI)) by (simpl; congruence).
    apply IHds. constructor; eauto with c02.
Qed.

Definition funs_ok (G : senv) (ds : list decl) : Prop :=
  forall b f pb x body, In (b, f, DFun pb x body) ds ->
    ref_ok G f = true /\
    vstmt al (push_decls al (block_decls body)
               (push_vars al (var_decls (Some x) body) ((x, kind_of al pb) :: sforeign G))) body = true.

Lemma sim_init_funs : forall cur ds m rS rI, rel_env (Some cur) m rS rI -> funs_ok (shape rI) ds ->
  sim rel_unit cur m (init_funs Smem tt rS ds) (init_funs (Imem al) cur rI ds).
Proof.
  induction ds as [|[[b f] k] ds]; simpl; intros.
  - apply sim_ret. intros; exact I.
  - assert (funs_ok (shape rI) ds) by (red; intros; eapply H0; right; eauto).
    destruct k; auto.
    destruct (H0 b f pb x body (or_introl eq_refl)) as [F1 F2].
    eapply sim_bind. apply sim_initvar; auto.
    + constructor. eapply rel_env_capture; eauto. red. simpl m_capture. rewrite shape_foreignize. auto.
    + intros. apply IHds; eauto with c02.
Qed.

Lemma block_funs_ok : forall s G, vstmt al G s = true -> funs_ok G (block_decls s).
Proof.
  induction s; simpl; intros G V; red; intros b0 f0 pb0 x0 body0 I; try (simpl in I; tauto).
  - apply andb_true_iff in V. destruct V. apply in_app_iff in I. destruct I.
    eapply IHs1; eauto. eapply IHs2; eauto.
  - destruct I as [I|[]]. inversion I.
  - destruct I as [I|[]]. inversion I.
  - destruct I as [I|[]]. inversion I; subst. apply andb_true_iff in V. tauto.
Qed.

Lemma sim_enter_block : forall cur s m rS rI, rel_env (Some cur) m rS rI ->
  vstmt al (push_decls al (block_decls s) (shape rI)) s = true ->
  sim (rel_envs cur (push_decls al (block_decls s) (shape rI))) cur m
      (enter_block Smem tt (block_decls s) rS) (enter_block (Imem al) cur (block_decls s) rI).
Proof.
  intros. unfold enter_block.
  eapply sim_bind. apply sim_alloc_decls; eauto.
  intros m' r r' E [R1 R2].
  eapply sim_bind. apply sim_init_funs; eauto. rewrite R2. apply block_funs_ok; auto.
  intros. apply sim_ret. intros. split; eauto with c02.
Qed.

Lemma sim_copy_cell : forall cur m b a l, loc_match (Some cur) m a l -> l <> Foreign ->
  sim (fun m' a l => loc_match (Some cur) m' a l /\ l <> Foreign /\ kind_loc l = kind_of al b) cur m
      (copy_cell Smem tt b a) (copy_cell (Imem al) cur b l).
Proof.
  intros. unfold copy_cell. eapply sim_bind. apply sim_readc; auto.
  intros. apply sim_alloc; auto.
Qed.

Definition rel_pair (m : world) (a : val nat * val nat) (b : val loc * val loc) : Prop :=
  rel_val m (fst a) (fst b) /\ rel_val m (snd a) (snd b).

Lemma sim_mknum : forall cur m z, sim rel_val cur m (lift Smem (mknum z)) (lift (Imem al) (mknum z)).
Proof. intros. apply sim_lift. unfold mknum. destruct (_ && _); auto. intros; constructor. Qed.

Lemma sim_incdec_used : forall cur m inc v w, rel_val m v w ->
  sim rel_pair cur m (incdec_used Smem inc v) (incdec_used (Imem al) inc w).
Proof.
  intros. unfold incdec_used. norm. rewrite (rel_val_to_num _ _ _ H).
  destruct (to_num w) as [[z|]|].
  - eapply sim_bind. apply sim_mknum. intros. eapply sim_bind. apply sim_mknum.
    intros. apply sim_ret. intros. split; simpl; eauto with c02.
  - apply sim_ret. intros; split; constructor.
  - apply sim_oof.
Qed.

Lemma rel_binop : forall m o v1 w1 v2 w2, rel_val m v1 w1 -> rel_val m v2 w2 ->
  match binop_eval o v1 v2, binop_eval o w1 w2 with
  | Some x, Some y => forall m1, ext m m1 -> rel_val m1 x y
  | None, None => True
  | _, _ => False
  end.
Proof.
  intros. assert (Q : forall (z : option (val nat)) (z' : option (val loc)),
     (z = None /\ z' = None) \/ (exists b, z = Some (VBool b) /\ z' = Some (VBool b)) \/
     (exists n, z = Some (VInt n) /\ z' = Some (VInt n)) \/ (z = Some VNaN /\ z' = Some VNaN) ->
     match z, z' with Some x, Some y => forall m1, ext m m1 -> rel_val m1 x y | None, None => True | _, _ => False end).
  { intros z z' [[-> ->]|[[b [-> ->]]|[[n [-> ->]]|[-> ->]]]]; auto; intros; constructor. }
  apply Q. clear Q.
  assert (AR : forall f, (arith f v1 v2 = None /\ arith f w1 w2 = None) \/
     (exists b, arith f v1 v2 = Some (VBool b) /\ arith f w1 w2 = Some (VBool b)) \/
     (exists n, arith f v1 v2 = Some (VInt n) /\ arith f w1 w2 = Some (VInt n)) \/ (arith f v1 v2 = Some VNaN /\ arith f w1 w2 = Some VNaN)).
  { intro f. unfold arith. rewrite (rel_val_to_num _ _ _ H), (rel_val_to_num _ _ _ H0).
    destruct (to_num w1) as [[a|]|], (to_num w2) as [[b|]|]; auto.
    unfold mknum. destruct (_ && _); eauto 6. }
  destruct o; simpl.
  - replace (is_str v1) with (is_str w1) by (destruct H; auto). replace (is_str v2) with (is_str w2) by (destruct H0; auto).
    destruct (_ || _); auto.
  - auto.
  - auto.
  - replace (is_str v1) with (is_str w1) by (destruct H; auto). replace (is_str v2) with (is_str w2) by (destruct H0; auto).
    destruct (_ && _); auto. rewrite (rel_val_to_num _ _ _ H), (rel_val_to_num _ _ _ H0).
    destruct (to_num w1) as [[a|]|], (to_num w2) as [[b|]|]; eauto 6.
  - destruct H; destruct H0; simpl; eauto 6.
Qed.

(* ---------------------------------------------------------------------------------------- *)
(* the simulation *)

Definition rel_compl (m : world) (a : compl nat) (b : compl loc) : Prop :=
  match a, b with
  | CNorm o, CNorm o' => rel_oval m o o'
  | CRet v, CRet w => rel_val m v w
  | _, _ => False
  end.

Lemma rel_compl_ext : forall m m' a b, ext m m' -> rel_compl m a b -> rel_compl m' a b.
Proof. unfold rel_compl; intros; destruct a, b; eauto with c02. Qed.
Hint Resolve rel_compl_ext : c02.

Definition lv_ok (cur : nat) (m : world) (lvS : option (bid * name * nat)) (lvI : option (bid * name * loc)) : Prop :=
  match lvS, lvI with
  | None, None => True
  | Some (b, x, a), Some (b', x', l) =>
      b = b' /\ x = x' /\ loc_match (Some cur) m a l /\ l <> Foreign /\ kind_loc l = kind_of al b
  | _, _ => False
  end.

Lemma sim_catch : forall T T' U U' (R : world -> T -> T' -> Prop) (R2 : world -> U -> U' -> Prop) cur m
    (cS : MS T) (cI : MI T') hS hI (kS : T -> MS U) (kI : T' -> MI U'),
  sim R cur m cS cI ->
  (forall m' v w, ext m m' -> rel_val m' v w -> sim R2 cur m' (hS v) (hI w)) ->
  (forall m' x y, ext m m' -> R m' x y -> sim R2 cur m' (kS x) (kI y)) ->
  sim R2 cur m (catch Smem cS hS kS) (catch (Imem al) cI hI kI).
Proof.
  unfold sim, catch. intros T T' U U' R R2 cur m cS cI hS hI kS kI H HH K m1 sg st lg E RS LT.
  destruct (H m1 sg st lg E RS LT) as (m2 & E2 & RS2 & LG & FR & RR).
  destruct (cS (sg, lg)) as [rS [sg' l1]]. destruct (cI (st, lg)) as [rI [st' l2]]. simpl in *. subst l2.
  assert (E3 : ext m m2) by eauto with c02.
  assert (LT2 : cur < length (frs st')) by lia.
  destruct rS as [x|eS]; destruct rI as [y|eI]; simpl in RR; try tauto.
  - destruct (K m2 x y E3 RR m2 sg' st' l1 (ext_refl _) RS2 LT2) as (m3 & E4 & RS3 & LG3 & FR3 & RR3).
    exists m3. ssplit; eauto with c02. lia.
  - destruct eS; tauto.
  - destruct eS, eI; try tauto.
    + destruct (HH m2 v v0 E3 RR m2 sg' st' l1 (ext_refl _) RS2 LT2) as (m3 & E4 & RS3 & LG3 & FR3 & RR3).
      exists m3. ssplit; eauto with c02. lia.
    + exists m2. simpl. ssplit; auto.
    + exists m2. simpl. ssplit; auto.
Qed.

Lemma sim_finish : forall cur m r r', rel_compl m r r' ->
  sim rel_compl cur m (finish Smem r) (finish (Imem al) r').
Proof.
  intros. destruct r, r'; simpl in H; try tauto; simpl; apply sim_ret; intros; simpl; eauto with c02.
  destruct ov, ov0; simpl in *; try tauto; eauto with c02; constructor.
Qed.

Definition exec_ok (n : nat) : Prop :=
  forall cur m rS rI s, rel_env (Some cur) m rS rI -> vstmt al (shape rI) s = true ->
    sim rel_compl cur m (exec Smem pm n tt rS s) (exec (Imem al) pm n cur rI s).

Lemma sim_call_body : forall n c' m rS rI pb x body v w,
  exec_ok n -> rel_env None m rS rI -> body_ok rI pb x body -> rel_val m v w ->
  sim rel_val c' m (call_body Smem (exec Smem pm n) tt rS pb x body v)
                   (call_body (Imem al) (exec (Imem al) pm n) c' rI pb x body w).
Proof.
  intros n c' m rS rI pb x body v w IHx RE BO RV. unfold call_body.
  eapply sim_bind. apply sim_alloc with (cS := (false, Some v)) (cI := (false, Some w)). split; simpl; auto.
  intros m1 a l E1 (A1 & A2 & A3).
  eapply sim_bind. apply sim_alloc_vars with (rS := (x, a) :: rS) (rI := (x, l) :: rI).
  constructor; auto. apply rel_env_none_some. eauto with c02.
  intros m2 r2 r2' E2 [R1 R2].
  assert (V3 : vstmt al (push_decls al (block_decls body) (shape r2')) body = true).
  { rewrite R2. simpl. rewrite A3. exact BO. }
  eapply sim_bind. apply sim_enter_block; eauto.
  intros m3 r3 r3' E3 [R3 R4].
  eapply sim_bind. apply IHx; eauto. rewrite R4; auto.
  intros m4 r r' E4 RC. destruct r, r'; simpl in RC; try tauto; apply sim_ret; intros; eauto with c02; constructor.
Qed.

Lemma sim_prog_body : forall n c' p,
  exec_ok n -> valid_alloc al p = true ->
  sim rel_compl c' [] (prog_body Smem (exec Smem pm n) tt p) (prog_body (Imem al) (exec (Imem al) pm n) c' p).
Proof.
  intros n c' p IHx V. unfold prog_body, valid_alloc in *.
  eapply sim_bind. apply sim_alloc_vars with (rS := []) (rI := []). constructor.
  intros m2 r2 r2' E2 [R1 R2]. simpl in R2.
  eapply sim_bind. apply sim_enter_block; eauto. rewrite R2; auto.
  intros m3 r3 r3' E3 [R3 R4].
  apply IHx; auto. rewrite R4, R2. auto.
Qed.

Ltac vsplit := repeat match goal with H : (_ && _)%bool = true |- _ => apply andb_true_iff in H; destruct H end.
Ltac sbind := eapply sim_bind.

Lemma rel_or_else : forall m a b a' b', rel_oval m a a' -> rel_oval m b b' -> rel_oval m (or_else a b) (or_else a' b').
Proof. intros. destruct a, a'; simpl in *; tauto. Qed.

Lemma sim_all : forall n,
  (forall cur m rS rI u e, rel_env (Some cur) m rS rI -> vexpr al (shape rI) e = true ->
     sim rel_val cur m (eval Smem pm n tt rS u e) (eval (Imem al) pm n cur rI u e)) /\
  (forall cur m rS rI pb x body v w, rel_env None m rS rI -> body_ok rI pb x body -> rel_val m v w ->
     sim rel_val cur m (call Smem pm n rS pb x body v) (call (Imem al) pm n rI pb x body w)) /\
  exec_ok n /\
  (forall cur m rS rI lvS lvI cond upd body V W, rel_env (Some cur) m rS rI -> lv_ok cur m lvS lvI ->
     let G := match lvI with Some (b, x, _) => (x, kind_of al b) :: shape rI | None => shape rI end in
     vexpr al G cond = true -> vexpr al G upd = true -> vstmt al G body = true ->
     rel_val m V W ->
     sim rel_compl cur m (loop Smem pm n tt rS lvS cond upd body V) (loop (Imem al) pm n cur rI lvI cond upd body W)).
Proof.
  induction n as [|n (IHe & IHc & IHx & IHl)].
  { split; [|split; [|split]]; unfold exec_ok; intros; cbn [eval call exec loop]; apply sim_fuel. }
  split; [|split; [|split]].
  - (* eval *)
    intros cur m rS rI u e RE V. destruct e; cbn [vexpr vstmt] in V; cbn [eval]; vsplit.
    + apply sim_ret. intros. destruct c; constructor.
    + apply sim_getvar; auto.
    + sbind. apply IHe; eauto. intros m1 v w E1 R1.
      sbind. apply sim_setvar; eauto with c02. intros. apply sim_ret. eauto with c02.
    + sbind. apply IHe; eauto. intros m1 v w E1 R1.
      sbind. apply IHe; eauto with c02. intros m2 v2 w2 E2 R2.
      apply sim_lift. norm. apply rel_binop; eauto with c02.
    + norm. pose proof (lookup_rel _ _ _ _ x RE) as L.
      destruct (lookup rS x), (lookup rI x); try tauto.
      * sbind. apply sim_getvar; auto. intros m1 v w E1 R1. norm. rewrite (rel_val_typeof _ _ _ R1).
        apply sim_ret; intros; constructor.
      * apply sim_ret; intros; constructor.
    + apply sim_ret. intros. constructor. eapply rel_env_capture; eauto with c02.
      red. simpl m_capture. rewrite shape_foreignize. auto.
    + sbind. apply IHe; eauto. intros m1 vf wf E1 R1.
      sbind. apply IHe; eauto with c02. intros m2 va wa E2 R2.
      assert (R1' : rel_val m2 vf wf) by eauto with c02.
      destruct R1'; try apply sim_throwE. apply IHc; auto.
    + sbind. apply IHe; eauto. intros. apply IHe; eauto with c02.
    + sbind. apply IHe; eauto. intros m1 v w E1 R1. norm. rewrite (rel_val_truthy _ _ _ R1).
      destruct (truthy w); apply IHe; eauto with c02.
    + sbind. apply IHe; eauto. intros m1 v w E1 R1. norm. rewrite (rel_val_truthy _ _ _ R1).
      destruct (truthy w). apply IHe; eauto with c02. apply sim_ret; eauto with c02.
    + sbind. apply IHe; eauto. intros m1 v w E1 R1. norm. rewrite (rel_val_truthy _ _ _ R1).
      destruct (truthy w). apply sim_ret; eauto with c02. apply IHe; eauto with c02.
    + sbind. apply sim_getvar; auto. intros m1 old old' E1 R1.
      destruct (uflag pm u).
      * sbind. apply sim_incdec_used; eauto. intros m2 p p' E2 [P1 P2].
        sbind. apply sim_setvar; eauto with c02. intros. apply sim_ret; intros; constructor.
      * sbind. apply sim_incdec_used; eauto. intros m2 p p' E2 [P1 P2].
        sbind. apply sim_setvar; eauto with c02. intros. apply sim_ret; intros. destruct pre; eauto with c02.
  - (* call *)
    intros cur m rS rI pb x body v w RE BO RV. cbn [call].
    unfold sim. intros m1 sg st lg E RS LT. unfold enter. cbn [fst snd m_enter Smem Imem].
    pose proof (sim_call_body n (length (frs st)) m rS rI pb x body v w IHx RE BO RV) as CB.
    destruct (CB m1 sg {| hp := hp st; frs := frs st ++ [[]] |} lg E (rel_st_enter _ _ _ RS)) as (m2 & A & B & C & D & F).
    { simpl. rewrite app_length. simpl. lia. }
    exists m2. ssplit; auto. apply Nat.le_trans with (length (frs st ++ [[]])). rewrite app_length; simpl; lia. exact D.
  - (* exec *)
    red. intros cur m rS rI s RE V. destruct s; cbn [vexpr vstmt] in V; cbn [exec]; vsplit.
    + apply sim_ret. intros; exact I.
    + sbind. apply IHx; eauto. intros m1 r r' E1 R1. destruct r, r'; simpl in R1; try tauto.
      * sbind. apply IHx; eauto with c02. intros m2 r2 r2' E2 R2. destruct r2, r2'; simpl in R2; try tauto.
        -- apply sim_ret. intros. simpl. apply rel_or_else; eauto with c02.
        -- apply sim_ret. intros; simpl; eauto with c02.
      * apply sim_ret. intros; simpl; eauto with c02.
    + sbind. apply IHe; eauto. intros. apply sim_ret. intros; simpl; eauto with c02.
    + sbind. apply IHe; eauto. intros m1 v w E1 R1. sbind. apply sim_logv; eauto.
      intros. apply sim_ret. intros; simpl; constructor.
    + sbind. apply IHe; eauto. intros m1 v w E1 R1. sbind. apply sim_setvar; eauto with c02.
      intros. apply sim_ret. intros; exact I.
    + sbind. apply IHe; eauto. intros m1 v w E1 R1. sbind. apply sim_initvar; eauto with c02.
      intros. apply sim_ret. intros; exact I.
    + sbind. apply IHe; eauto. intros m1 v w E1 R1. sbind. apply sim_initvar; eauto with c02.
      intros. apply sim_ret. intros; exact I.
    + apply sim_ret. intros; exact I.
    + sbind. apply sim_enter_block; eauto. intros m1 r r' E1 [R1 R2]. apply IHx; auto. rewrite R2; auto.
    + sbind. apply IHe; eauto. intros m1 v w E1 R1. norm. rewrite (rel_val_truthy _ _ _ R1).
      sbind. destruct (truthy w); apply IHx; eauto with c02.
      intros. apply sim_finish; auto.
    + apply IHl; auto. exact I. constructor.
    + sbind. apply sim_alloc with (cS := (false, None)) (cI := (false, None)). split; simpl; auto.
      intros m1 a l E1 (A1 & A2 & A3).
      assert (RE1 : rel_env (Some cur) m1 ((x, a) :: rS) ((x, l) :: rI)) by (constructor; eauto with c02).
      sbind. apply IHe; eauto. simpl. rewrite A3; auto. intros m2 v w E2 R2.
      sbind. apply sim_writec with (cS := (false, Some v)) (cI := (false, Some w)); eauto with c02. split; simpl; auto.
      intros m3 ? ? E3 _.
      sbind. apply sim_copy_cell; eauto with c02. intros m4 a' l' E4 (B1 & B2 & B3).
      apply IHl; eauto 6 with c02; simpl; auto; try constructor.
    + sbind. apply IHe; eauto. intros. apply sim_ret. intros; simpl; eauto with c02.
    + sbind. apply IHe; eauto. intros. apply sim_fail_throw; auto.
    + apply sim_catch with (R := rel_compl).
      * apply IHx; auto.
      * intros m1 v w E1 R1.
        sbind. apply sim_alloc with (cS := (false, Some v)) (cI := (false, Some w)). split; simpl; auto.
        intros m2 a l E2 (A1 & A2 & A3).
        sbind. apply IHx. constructor; eauto with c02. simpl. rewrite A3; auto.
        intros. apply sim_finish; auto.
      * intros. apply sim_finish; auto.
  - (* loop *)
    intros cur m rS rI lvS lvI cond upd body V W RE LV G VC VU VB RV. cbn [loop].
    destruct lvS as [[[b x] a]|], lvI as [[[b' x'] l]|]; simpl in LV; try tauto.
    + destruct LV as (<- & <- & L1 & L2 & L3). subst G.
      assert (RE1 : rel_env (Some cur) m ((x, a) :: rS) ((x, l) :: rI)) by (constructor; auto).
      assert (SH : shape ((x, l) :: rI) = (x, kind_of al b) :: shape rI) by (simpl; congruence).
      sbind. apply IHe; eauto. simpl; rewrite L3; auto. intros m1 vc wc E1 R1. norm. rewrite (rel_val_truthy _ _ _ R1).
      destruct (truthy wc).
      * sbind. apply IHx; eauto with c02. simpl; rewrite L3; auto. intros m2 r r' E2 R2.
        destruct r, r'; simpl in R2; try tauto.
        -- sbind. apply sim_copy_cell; eauto with c02. intros m3 a' l' E3 (B1 & B2 & B3).
           sbind. apply IHe. constructor; eauto with c02. simpl. rewrite B3. auto.
           intros m4 ? ? E4 _.
           apply IHl; eauto 7 with c02. simpl. eauto 6 with c02.
           destruct ov, ov0; simpl in R2; try tauto; eauto 6 with c02.
        -- apply sim_ret. intros; simpl; eauto with c02.
      * apply sim_ret. intros; simpl; eauto with c02.
    + subst G.
      sbind. apply IHe; eauto. intros m1 vc wc E1 R1. norm. rewrite (rel_val_truthy _ _ _ R1).
      destruct (truthy wc).
      * sbind. apply IHx; eauto with c02. intros m2 r r' E2 R2.
        destruct r, r'; simpl in R2; try tauto.
        -- apply IHl; eauto with c02; try exact I.
           destruct ov, ov0; simpl in R2; try tauto; eauto with c02.
        -- apply sim_ret. intros; simpl; eauto with c02.
      * apply sim_ret. intros; simpl; eauto with c02.
Qed.

End Sim.

(* ---------------------------------------------------------------------------------------- *)
(* top level *)

Theorem allocation_invisible_pm : forall al pm n p, valid_alloc al p = true ->
  obs_of (run_prog (Imem al) pm n p) = obs_of (run_prog Smem pm n p).
Proof.
  intros al pm n p V.
  change (obs_of (prog_body (Imem al) (exec (Imem al) pm n) 0 p ({| hp := []; frs := [[]] |}, [])) =
          obs_of (prog_body Smem (exec Smem pm n) tt p ([], []))).
  pose proof (sim_prog_body al pm n 0 p (proj1 (proj2 (proj2 (sim_all al pm n)))) V) as S.
  destruct (S [] [] {| hp := []; frs := [[]] |} [] (ext_refl _)) as (m2 & A & B & C & D & F).
  - split; [|split]; simpl; auto. constructor. intros a ml E; destruct a; discriminate.
  - simpl; lia.
  - unfold obs_of.
    destruct (prog_body Smem (exec Smem pm n) tt p ([], [])) as [rS [sg' l1]].
    destruct (prog_body (Imem al) (exec (Imem al) pm n) 0 p ({| hp := []; frs := [[]] |}, [])) as [rI [st' l2]].
    simpl in *. subst l2. change (mL Smem) with nat. change (mL (Imem al)) with loc. f_equal.
    destruct rS as [[o|v]|[v| | |]], rI as [[o'|v']|[v'| | |]]; simpl in F; try tauto.
    + destruct o, o'; simpl in F; try tauto; simpl; auto.
      rewrite (rel_val_proj _ _ _ _ F); auto.
    + rewrite (rel_val_proj _ _ _ _ F); auto.
    + rewrite (rel_val_proj _ _ _ _ F); auto.
Qed.

(* every binding in the stash is always a valid allocation *)
Definition all_stash (G : senv) : Prop := Forall (fun p => snd p = KStash) G.

Lemma all_stash_ref : forall G x, all_stash G -> ref_ok G x = true.
Proof.
  unfold ref_ok. induction 1; simpl; auto. destruct x0 as [y k]; simpl in *. subst. destruct (N.eqb y x); auto.
Qed.
Lemma all_stash_foreign : forall G, all_stash G -> all_stash (sforeign G).
Proof. unfold all_stash, sforeign. intros. rewrite Forall_map. eapply Forall_impl; [|eauto]. simpl; intros [y k] E; simpl in *; subst; auto. Qed.
Lemma all_stash_vars : forall vs G, all_stash G -> all_stash (push_vars alloc_all_stash vs G).
Proof. induction vs as [|[b x] vs]; simpl; auto. intros. apply IHvs. constructor; auto. Qed.
Lemma all_stash_decls : forall ds G, all_stash G -> all_stash (push_decls alloc_all_stash ds G).
Proof. induction ds as [|[[b x] k] ds]; simpl; auto. intros. apply IHds. constructor; auto. Qed.

Scheme expr_mind := Induction for expr Sort Prop
  with stmt_mind := Induction for stmt Sort Prop.
Combined Scheme expr_stmt_mind from expr_mind, stmt_mind.

Lemma all_stash_valid_mut :
  (forall e G, all_stash G -> vexpr alloc_all_stash G e = true) /\
  (forall s G, all_stash G -> vstmt alloc_all_stash G s = true).
Proof.
  apply expr_stmt_mind; intros; cbn [vexpr vstmt];
    repeat (apply andb_true_iff; split); auto using all_stash_ref;
    try (match goal with H : forall G, all_stash G -> _ |- _ => apply H end;
         repeat (first [apply all_stash_decls | apply all_stash_vars | constructor; [reflexivity|] | apply all_stash_foreign]); auto).
Qed.

Theorem alloc_all_stash_valid : forall p, valid_alloc alloc_all_stash p = true.
Proof.
  intros. unfold valid_alloc. apply (proj2 all_stash_valid_mut).
  apply all_stash_decls. apply all_stash_vars. constructor.
Qed.

(* ---------------------------------------------------------------------------------------- *)
(* goja's emission of && / || with a constant left operand is stack-balanced (after fix 06cb082) *)

Lemma goja_and_const_left_balanced : forall putOnStack left_truthy,
  goja_and_const_left putOnStack left_truthy = want putOnStack.
Proof. destruct putOnStack, left_truthy; reflexivity. Qed.

Lemma goja_or_const_left_balanced : forall putOnStack left_truthy,
  goja_or_const_left putOnStack left_truthy = want putOnStack.
Proof. destruct putOnStack, left_truthy; reflexivity. Qed.

(* the statement-position variant of ++/-- (ToNumber kept) has the same effect and the same
   exceptions as the value-position one; only the (discarded) value differs *)
Lemma position_invisible_incdec : forall MM n c rho pre inc x s,
  let r1 := eval MM PUnused (S n) c rho true (EIncDec pre inc x) s in
  let r2 := eval MM PUnused (S n) c rho false (EIncDec pre inc x) s in
  snd r1 = snd r2 /\
  match fst r1, fst r2 with
  | inl _, inl _ => True
  | inr e1, inr e2 => e1 = e2
  | _, _ => False
  end.
Proof.
  intros. subst r1 r2. cbn [eval uflag]. unfold bind.
  destruct (getvar MM c rho x s) as [[old|e] s1]; simpl; auto.
  destruct (incdec_used MM inc old s1) as [[on|e] s2]; simpl; auto.
  destruct (setvar MM c rho x (snd on) s2) as [[?|e] s3]; simpl; auto.
Qed.

(* non-vacuity: a program with a captured and an uncaptured binding; the minimal allocation is
   valid, puts one in the stash and one in a frame, and the per-iteration copies are observable *)
Definition p_example : stmt :=
  (* var v0 = 0; for (let i0 = 0; i0 < 3; i0++) { if (i0 === 1) { v0 = function (p0) { return i0; }; } } log(v0(0)); *)
  SSeq (SVar 1%N 0%N (EConst (CInt 0%Z)))
  (SSeq (SFor 2%N 15%N (EConst (CInt 0%Z)) (EBin OLt (EVar 15%N) (EConst (CInt 3%Z))) (EIncDec false true 15%N)
           (SBlock (SIf (EBin OSeq (EVar 15%N) (EConst (CInt 1%Z)))
                        (SBlock (SExpr (EAssign 0%N (EFun 3%N 12%N (SReturn (EVar 15%N)))))) (SBlock SSkip))))
        (SLog (ECall (EVar 0%N) (EConst (CInt 0%Z))))).

Lemma example_minimal_valid :
  valid_alloc (alloc_minimal p_example) p_example = true /\
  alloc_minimal p_example 2%N = true /\ alloc_minimal p_example 1%N = false /\
  run_env 50 p_example = ([ONum 1%Z true], ONormal (Some OUndef)) /\
  valid_alloc (fun _ => false) p_example = false /\
  snd (run_slots (fun _ => false) 50 p_example) = OBadSlot.
Proof. vm_compute. repeat split; reflexivity. Qed.
