(* C07 — Go Export(): with exact counters the fast path of arrayObject.export (array.go:501) returns what the
   element-by-element path returns, and both equal S. No axioms. *)
From Coq Require Import List NArith ZArith Bool Lia.
Import ListNotations.
From Verif.C07 Require Import Model Proofs ProofsDense ProofsLib ProofsLen ProofsOps ProofsCount.
Local Open Scope N_scope.

Lemma seqN_in : forall n from i, In i (seqN from n) -> from <= i /\ i < from + N.of_nat n.
Proof.
  induction n as [|n IH]; intros from i H; simpl in H; [destruct H|].
  destruct H as [<-|H]; [lia|]. apply IH in H. lia.
Qed.

Lemma map_slots (f : option ival -> option val) vs : forall from,
  map f vs = map (fun i => f (dnth vs (i - from))) (seqN from (length vs)).
Proof.
  induction vs as [|x r IH]; intros from; simpl; auto. f_equal.
  - rewrite N.sub_diag. unfold dnth. rewrite nlen_cons. destruct (N.ltb_spec 0 (nlen r + 1)); [|lia]. reflexivity.
  - rewrite (IH (from + 1)). apply map_ext_in. intros i Hi. apply seqN_in in Hi. f_equal.
    unfold dnth. rewrite nlen_cons.
    replace (i - from) with (N.succ (i - (from + 1))) by lia. rewrite N2Nat.inj_succ. simpl.
    destruct (N.ltb_spec (i - (from + 1)) (nlen r)), (N.ltb_spec (N.succ (i - (from + 1))) (nlen r + 1)); auto; lia.
Qed.

Lemma all_present vs : count_present vs = Z.of_N (nlen vs) -> forall k, k < nlen vs -> dnth vs k <> None.
Proof.
  induction vs as [|x r IH]; intros H k Hk; [unfold nlen in Hk; simpl in Hk; lia|].
  rewrite count_present_cons, nlen_cons in H.
  assert (Hb : (count_present r <= Z.of_N (nlen r))%Z).
  { clear. induction r as [|y r IH]; [unfold count_present, nlen; simpl; lia|].
    rewrite count_present_cons, nlen_cons. destruct y; unfold opz; lia. }
  destruct x as [x|]; unfold opz in H; [|lia].
  destruct (N.eqb_spec k 0) as [->|Hne].
  - unfold dnth. rewrite nlen_cons. destruct (N.ltb_spec 0 (nlen r + 1)); [|lia]. simpl. discriminate.
  - rewrite nlen_cons in Hk. specialize (IH ltac:(lia) (k - 1) ltac:(lia)).
    unfold dnth in *. rewrite nlen_cons. replace k with (N.succ (k - 1)) by lia. rewrite N2Nat.inj_succ. simpl.
    destruct (N.ltb_spec (k - 1) (nlen r)), (N.ltb_spec (N.succ (k - 1)) (nlen r + 1)); auto; lia.
Qed.

Theorem export_refines d : InvDn d -> ExactD d -> da_length d <= MAXIDX ->
  d_export d = s_export (absD d).
Proof.
  intros [Hlen (Hasc & Hkeys & Hclean & Hcnt)] [Ho Hp] Hmax.
  assert (Hslow : map (fun i => match dnth (da_values d) i with
                                | Some x => Some (iv_getv x)
                                | None => ex_proto (b_proto (da_base d)) i end) (seqN 0 (N.to_nat (da_length d)))
                  = s_export (absD d)).
  { unfold s_export. simpl s_len. simpl s_proto. apply map_ext_in. intros i Hi. apply seqN_in in Hi.
    rewrite <- dense_getown. unfold i_getown, i_getown_iv.
    destruct (N.ltb_spec i MAXIDX); [|lia].
    destruct (dnth (da_values d) i) as [x|] eqn:E; simpl; auto.
    f_equal. symmetry. apply getv_abs. eapply Hclean. eapply alookup_in; [exact Hasc|].
    rewrite enum_lookup_dnth. exact E. }
  unfold d_export.
  destruct ((da_pvc d =? 0)%Z && (da_length d =? nlen (da_values d)) && (da_objCount d =? Z.of_N (da_length d))%Z) eqn:G;
    [|exact Hslow].
  apply andb_true_iff in G. destruct G as [G G3]. apply andb_true_iff in G. destruct G as [G1 G2].
  apply Z.eqb_eq in G1, G3. apply N.eqb_eq in G2.
  rewrite <- Hslow. rewrite (map_slots _ (da_values d) 0).
  replace (N.to_nat (da_length d)) with (length (da_values d)) by (rewrite G2; unfold nlen; lia).
  apply map_ext_in. intros i Hi. apply seqN_in in Hi. rewrite N.sub_0_r.
  assert (Hi' : i < nlen (da_values d)) by (unfold nlen; lia).
  pose proof (all_present (da_values d) ltac:(rewrite <- Ho, G3, G2; reflexivity) i Hi') as Hne.
  destruct (dnth (da_values d) i); [reflexivity|contradiction].
Qed.
