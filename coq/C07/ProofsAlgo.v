(* C07 — Array.prototype.push / pop / shift / unshift: the generic algorithms of builtin_array.go, run on goja's
   storages (either one, switching at will), return what they return on the abstract array S and denote the same
   array afterwards.  By simulation: the six primitive operations of I refine those of S (ProofsLen/Ops/Set), and
   the algorithms are built from them.  No axioms. *)
From Coq Require Import List NArith ZArith Bool Lia.
Import ListNotations.
From Verif.C07 Require Import Model Proofs ProofsDense ProofsLib ProofsLen ProofsOps ProofsSet ProofsHist.
Local Open Scope N_scope.

(* ---- the primitives ------------------------------------------------------------------------- *)
Lemma len_sim a : i_len a = s_len (absA a).
Proof. rewrite absA_form. reflexivity. Qed.

Lemma has_sim a k : i_has a k = s_has (absA a) k.
Proof. destruct a; [apply dense_has|apply sparse_has]. Qed.

Lemma get_sim a k : InvA a -> k < MAXIDX -> i_get a k = s_get (absA a) k.
Proof.
  intros Hinv Hk. destruct a as [d|s]; simpl absA.
  - apply dense_get; auto. destruct Hinv as [_ (Hasc & _ & Hclean & _)]. intros j x Hj.
    eapply Hclean. eapply alookup_in; [exact Hasc|]. rewrite enum_lookup_dnth. exact Hj.
  - apply sparse_get; auto. destruct Hinv as (Hasc & _ & Hclean & _). intros j x Hj.
    eapply Hclean. eapply alookup_in; eauto.
Qed.

Definition Sim {X} (rI : iarr * X) (rS : sarr * X) : Prop :=
  rS = (absA (fst rI), snd rI) /\ InvA (fst rI).

Lemma setT_sim a k v : InvA a -> k < MAXIDX -> Sim (setT primI a k v) (setT primS (absA a) k v).
Proof.
  intros Hinv Hk. destruct (mstep_refines a (MSet k v) Hinv Hk) as [H1 H2].
  unfold i_mstep, s_mstep in *. unfold setT. simpl p_set.
  destruct (i_set a k v) as [a' b]; destruct (s_set (absA a) k v) as [s' b']. simpl in *.
  split; auto.
Qed.

Lemma delT_sim a k : InvA a -> k < MAXIDX -> Sim (delT primI a k) (delT primS (absA a) k).
Proof.
  intros Hinv Hk. destruct (mstep_refines a (MDelete k) Hinv Hk) as [H1 H2].
  unfold i_mstep, s_mstep in *. unfold delT. simpl p_del.
  destruct (i_delete a k) as [a' b]; destruct (s_delete (absA a) k) as [s' b']. simpl in *.
  split; auto.
Qed.

Lemma setlen_sim a n : InvA a -> Sim (i_setlen a n) (s_setlen (absA a) n).
Proof.
  intros Hinv. unfold i_setlen, s_setlen. rewrite absA_form. simpl s_exotic. simpl s_lw.
  destruct (i_lw a) eqn:Ew; simpl negb; cbv iota.
  2:{ split; [simpl; rewrite absA_form, Ew; reflexivity|auto]. }
  destruct (N.ltb_spec 4294967295 n).
  { split; [simpl; rewrite absA_form, Ew; reflexivity|auto]. }
  destruct (mstep_refines a (MSetLen n) Hinv H) as [H1 H2].
  unfold i_mstep, s_mstep, s_setlen in H1, H2. rewrite absA_form in H1. simpl s_exotic in H1. simpl s_lw in H1.
  rewrite Ew in H1. simpl negb in H1. cbv iota in H1.
  destruct (N.ltb_spec 4294967295 n); [lia|].
  destruct (i_setLength a n) as [a' b]. simpl in *. split; auto.
Qed.

Lemma move1_sim a from to : InvA a -> from < MAXIDX -> to < MAXIDX ->
  Sim (move1 primI a from to) (move1 primS (absA a) from to).
Proof.
  intros Hinv Hf Ht. unfold move1. simpl p_has. simpl p_get. rewrite <- has_sim, <- get_sim by auto.
  destruct (i_has a from); [apply setT_sim|apply delT_sim]; auto.
Qed.

(* ---- the combinators ------------------------------------------------------------------------ *)
Lemma loop_sim (n : nat) (up : bool) (fI : iarr -> N -> iarr * N) (fS : sarr -> N -> sarr * N) (lo hi : N) :
  (forall a k, InvA a -> lo <= k <= hi -> Sim (fI a k) (fS (absA a) k)) ->
  forall a k, InvA a ->
  (if up then lo <= k /\ k + N.of_nat n <= hi + 1 else k <= hi /\ lo + N.of_nat n <= k + 1) ->
  Sim (loop n up fI a k) (loop n up fS (absA a) k).
Proof.
  intros Hf. induction n as [|n IH]; intros a k Hinv Hr; simpl.
  - split; auto.
  - assert (Hk : lo <= k <= hi) by (destruct up; lia).
    destruct (Hf a k Hinv Hk) as [H1 H2]. rewrite H1.
    destruct (fI a k) as [a' e]. simpl in *.
    destruct (e =? 0); [|split; auto].
    apply IH; auto. destruct up; lia.
Qed.

Lemma set_items_sim items : forall a k, InvA a -> k + nlen items <= MAXIDX ->
  Sim (set_items primI a k items) (set_items primS (absA a) k items).
Proof.
  induction items as [|v r IH]; intros a k Hinv Hb; simpl.
  - split; auto.
  - rewrite nlen_cons in Hb.
    destruct (setT_sim a k v Hinv ltac:(lia)) as [H1 H2]. rewrite H1.
    destruct (setT primI a k v) as [a' e]. simpl in *.
    destruct (e =? 0); [|split; auto]. apply IH; auto. lia.
Qed.

Lemma fin_sim (rI : iarr * N) (rS : sarr * N) okI okS :
  Sim rI rS -> (forall a, InvA a -> Sim (okI a) (okS (absA a))) ->
  Sim (fin rI okI) (fin rS okS).
Proof.
  intros [H1 H2] Hok. rewrite H1. destruct rI as [a e]. simpl in *.
  destruct (e =? 0); [apply Hok; auto|split; auto].
Qed.

Lemma ret_sim {X} a (x : X) : InvA a -> Sim (a, x) (absA a, x).
Proof. intros H. split; auto. Qed.

(* ---- the methods ---------------------------------------------------------------------------- *)
Theorem push_refines a items : InvA a -> i_len a + nlen items <= MAXIDX ->
  Sim (a_push primI a items) (a_push primS (absA a) items).
Proof.
  intros Hinv Hb. unfold a_push. simpl p_len. rewrite <- len_sim.
  destruct (MAXLEN53 <? i_len a + nlen items); [apply ret_sim; auto|].
  apply fin_sim; [apply set_items_sim; auto|]. intros a1 H1.
  apply fin_sim; [apply setlen_sim; auto|]. intros a2 H2. apply ret_sim; auto.
Qed.

Theorem pop_refines a : InvA a -> i_len a <= MAXIDX ->
  Sim (a_pop primI a) (a_pop primS (absA a)).
Proof.
  intros Hinv Hb. unfold a_pop. simpl p_len. simpl p_get. rewrite <- len_sim.
  destruct (N.eqb_spec (i_len a) 0).
  - apply fin_sim; [apply setlen_sim; auto|]. intros a1 H1. apply ret_sim; auto.
  - rewrite <- get_sim by (auto; lia).
    apply fin_sim; [apply delT_sim; auto; lia|]. intros a1 H1.
    apply fin_sim; [apply setlen_sim; auto|]. intros a2 H2. apply ret_sim; auto.
Qed.

Theorem shift_refines a : InvA a -> i_len a <= MAXIDX ->
  Sim (a_shift primI a) (a_shift primS (absA a)).
Proof.
  intros Hinv Hb. unfold a_shift. simpl p_len. simpl p_get. rewrite <- len_sim.
  destruct (N.eqb_spec (i_len a) 0).
  - apply fin_sim; [apply setlen_sim; auto|]. intros a1 H1. apply ret_sim; auto.
  - rewrite <- get_sim by (auto; lia).
    apply fin_sim.
    + apply (loop_sim _ true _ _ 1 (i_len a - 1)); auto; [|lia].
      intros a0 k H0 Hk. apply move1_sim; auto; lia.
    + intros a1 H1. apply fin_sim; [apply delT_sim; auto; lia|]. intros a2 H2.
      apply fin_sim; [apply setlen_sim; auto|]. intros a3 H3. apply ret_sim; auto.
Qed.

Theorem unshift_refines a items : InvA a -> i_len a + nlen items <= MAXIDX ->
  Sim (a_unshift primI a items) (a_unshift primS (absA a) items).
Proof.
  intros Hinv Hb. unfold a_unshift. simpl p_len. rewrite <- len_sim.
  destruct (N.eqb_spec (nlen items) 0).
  - apply fin_sim; [apply setlen_sim; auto|]. intros a1 H1. apply ret_sim; auto.
  - destruct (MAXLEN53 <? i_len a + nlen items); [apply ret_sim; auto|].
    apply fin_sim.
    + destruct (N.eqb_spec (i_len a) 0) as [E0|E0].
      * rewrite E0. simpl. split; auto.
      * apply (loop_sim _ false _ _ 1 (i_len a)); auto; [|lia].
        intros a0 k H0 Hk. apply move1_sim; auto; lia.
    + intros a1 H1. apply fin_sim; [apply set_items_sim; auto; lia|]. intros a2 H2.
      apply fin_sim; [apply setlen_sim; auto|]. intros a3 H3. apply ret_sim; auto.
Qed.

(* ---- splice, and the read-only methods through [view] -------------------------------------------- *)
Lemma seqN_in' : forall n from i, In i (seqN from n) -> from <= i /\ i < from + N.of_nat n.
Proof.
  induction n as [|n IH]; intros from i H; simpl in H; [destruct H|].
  destruct H as [<-|H]; [lia|]. apply IH in H. lia.
Qed.

Lemma view_sim a from n : InvA a -> from + N.of_nat n <= MAXIDX ->
  view primI a from n = view primS (absA a) from n.
Proof.
  intros Hinv Hb. unfold view. apply map_ext_in. intros k Hk. apply seqN_in' in Hk. simpl p_has. simpl p_get.
  rewrite <- has_sim, <- get_sim by (auto; lia). reflexivity.
Qed.

Lemma rel_le z len : rel z len <= len.
Proof. unfold rel. destruct (Z.ltb_spec z 0); lia. Qed.

Theorem splice_refines a st dc items : InvA a -> i_len a + nlen items <= MAXIDX ->
  Sim (a_splice primI a st dc items) (a_splice primS (absA a) st dc items).
Proof.
  intros Hinv Hb. unfold a_splice. simpl p_len. rewrite <- len_sim.
  set (len := i_len a) in *. set (start := rel st len).
  set (del := match dc with None => len - start | Some z => N.min (Z.to_N (Z.max z 0)) (len - start) end).
  set (ic := nlen items) in *.
  assert (Hs : start <= len) by apply rel_le.
  assert (Hd : del <= len - start) by (unfold del; destruct dc; lia).
  destruct (MAXLEN53 <? len + ic - del); [apply ret_sim; auto|].
  rewrite <- (view_sim a start (N.to_nat del) Hinv) by lia.
  apply fin_sim.
  - destruct (N.ltb_spec ic del).
    + (* shrinking *)
      pose proof (loop_sim (N.to_nat (len - del - start)) true
                   (fun a k => move1 primI a (k + del) (k + ic)) (fun a k => move1 primS a (k + del) (k + ic))
                   start (len - del - 1)) as HL.
      destruct (N.eqb_spec (len - del - start) 0) as [E0|E0].
      * rewrite E0. simpl loop. simpl.
        apply (loop_sim _ false _ _ 1 len); auto; [|lia].
        intros a0 k Ha0 Hk. apply delT_sim; auto. lia.
      * destruct (HL ltac:(intros a0 k H0 Hk; apply move1_sim; auto; lia) a start Hinv ltac:(cbv iota; lia)) as [H1 H2].
        rewrite H1. destruct (loop (N.to_nat (len - del - start)) true _ a start) as [a1 e]. simpl in *.
        destruct (e =? 0); [|split; auto].
        apply (loop_sim _ false _ _ 1 len); auto; [|lia].
        intros a0 k Ha0 Hk. apply delT_sim; auto. lia.
    + destruct (N.ltb_spec del ic).
      * destruct (N.eqb_spec (len - del - start) 0) as [E0|E0].
        -- rewrite E0. simpl. split; auto.
        -- apply (loop_sim _ false _ _ (start + 1) (len - del)); auto; [|lia].
           intros a0 k Ha0 Hk. apply move1_sim; auto; lia.
      * split; auto.
  - intros a1 H1. apply fin_sim; [apply set_items_sim; auto; lia|]. intros a2 H2.
    apply fin_sim; [apply setlen_sim; auto|]. intros a3 H3. apply ret_sim; auto.
Qed.

(* slice / indexOf / includes only read *)
Theorem slice_refines a st en : InvA a -> i_len a <= MAXIDX ->
  a_slice primI a st en = a_slice primS (absA a) st en.
Proof.
  intros Hinv Hb. unfold a_slice. simpl p_len. rewrite <- len_sim. f_equal.
  apply view_sim; auto. pose proof (rel_le st (i_len a)).
  assert (rel_end en (i_len a) <= i_len a) by (unfold rel_end; destruct en; [apply rel_le|lia]). lia.
Qed.
