(* C07 — [[DefineOwnProperty]] on an index: both storages refine S, through every storage transition, and keep
   their invariant (outside the regions of the open findings). No axioms. *)
From Coq Require Import List NArith ZArith Bool Lia.
Import ListNotations.
From Verif.C07 Require Import Model Proofs ProofsLib ProofsLen.
Local Open Scope N_scope.

Definition i_items (a : iarr) : list (N * ival) :=
  match a with ID d => enum_from (da_values d) 0 | IS s => sa_items s end.
Definition i_pvcA (a : iarr) : Z := match a with ID d => da_pvc d | IS s => sa_pvc s end.

Lemma absA_form a :
  absA a = mkS true (i_len a) (i_lw a) (absL (i_items a)) (absL (b_ot (i_base a))) (b_ext (i_base a))
               (b_proto (i_base a)).
Proof. destruct a; reflexivity. Qed.

Lemma InvA_form a :
  (match a with ID d => nlen (da_values d) <= da_length d | IS _ => True end) ->
  InvItems (i_items a) (i_len a) (i_pvcA a) -> InvA a.
Proof. destruct a; simpl; unfold InvDn, InvSp; auto. Qed.

(* S's define on an index key, unfolded *)
Lemma s_define_idx len lw items ot ext pr k dsc : k < MAXIDX ->
  s_define (mkS true len lw (absL items) ot ext pr) k dsc =
    if (len <=? k) && negb lw then (mkS true len lw (absL items) ot ext pr, false) else
    match spec_define ext (option_map absE (alookup items k)) dsc with
    | None => (mkS true len lw (absL items) ot ext pr, false)
    | Some e => (mkS true (if len <=? k then k + 1 else len) lw (ains (absL items) k e) ot ext pr, true)
    end.
Proof.
  intros Hk. apply N.ltb_lt in Hk. unfold s_define, s_isidx, s_getown, s_put. simpl. rewrite Hk. simpl.
  rewrite alookup_absL. destruct ((len <=? k) && negb lw); auto.
  destruct (spec_define ext (option_map absE (alookup items k)) dsc); auto.
  unfold s_with_el, s_with_len. simpl. destruct (len <=? k); reflexivity.
Qed.

(* inserting into the item list keeps the invariant *)
Lemma items_put items len pvc k x len' pvc' :
  InvItems items len pvc -> len <= len' -> k < len' -> iv_clean x = true ->
  (pvc - ovpz (alookup items k) + vpz x <= pvc')%Z ->
  InvItems (ains items k x) len' pvc'.
Proof.
  intros (Hasc & Hkeys & Hclean & Hcnt) Hl Hk Hx Hp. repeat split.
  - apply ains_asc; auto. lia.
  - intros j y Hin. apply ains_in in Hin. destruct Hin as [[-> _]|Hin]; auto. specialize (Hkeys _ _ Hin). lia.
  - intros j y Hin. apply ains_in in Hin. destruct Hin as [[_ ->]|Hin]; eauto.
  - erewrite cnt_ains; eauto; lia.
Qed.

Lemma ovpz_nonneg o : (0 <= ovpz o)%Z.
Proof. destruct o as [[v|p]|]; unfold ovpz, vpz; simpl; lia. Qed.

(* ------------------------------------------------------------------------------------------- *)
(* dense *)

Lemma d_grow d k : nlen (da_values d) <= da_length d -> da_length d <= k -> da_lw d = true ->
  d_setLengthInt_chk d (k + 1) =
    (mkDA (da_values d) (k + 1) (da_objCount d) (da_pvc d) (da_lw d) (da_base d), true).
Proof.
  intros Hn Hl Hw. unfold d_setLengthInt_chk. destruct (N.eqb_spec (k + 1) (da_length d)); [lia|].
  rewrite Hw. simpl. unfold d_setLengthInt. destruct (N.leb_spec (k + 1) (da_length d)); [lia|]. simpl.
  destruct (N.leb_spec (k + 1) (nlen (da_values d))); [lia|]. rewrite ?Hw. reflexivity.
Qed.

Lemma d_expand_cases a k :
  (k + 1 <= nlen (da_values a) /\ d_expand a k = (ID a, true)) \/
  (nlen (da_values a) < k + 1 /\ d_expand a k = (IS (expand_d2s a), false)) \/
  (nlen (da_values a) < k + 1 /\
   d_expand a k = (ID (d_with_values a (da_values a ++ repeat None (N.to_nat (k + 1 - nlen (da_values a))))), true)).
Proof.
  unfold d_expand. destruct (N.leb_spec (k + 1) (nlen (da_values a))); [left; auto|].
  destruct ((4096 <? k) && ((da_objCount a =? 0)%Z || (10 <? k / Z.to_N (da_objCount a)))).
  - right; left. split; auto.
  - right; right. split; auto.
Qed.

Lemma dnth_ge vs k : nlen vs <= k -> dnth vs k = None.
Proof. intros H. unfold dnth. destruct (N.ltb_spec k (nlen vs)); [lia|auto]. Qed.

Lemma enum_grow vs m : enum_from (vs ++ repeat None m) 0 = enum_from vs 0.
Proof. rewrite enum_app, enum_nones, app_nil_r. auto. Qed.

Lemma nlen_grow (vs : list (option ival)) k : nlen vs < k + 1 ->
  nlen (vs ++ repeat None (N.to_nat (k + 1 - nlen vs))) = k + 1.
Proof. intros H. unfold nlen in *. rewrite app_length, repeat_length. lia. Qed.

Lemma dnth_grow vs m k : nlen vs <= k -> dnth (vs ++ repeat None m) k = None.
Proof.
  intros H. rewrite <- enum_lookup_dnth, enum_grow, enum_lookup_dnth. apply dnth_ge; auto.
Qed.

(* storing into a slot that exists *)
Lemma d_put_items a k x : k < nlen (da_values a) ->
  enum_from (da_values (d_put a k (Some x))) 0 = ains (enum_from (da_values a) 0) k x /\
  nlen (da_values (d_put a k (Some x))) = nlen (da_values a).
Proof.
  intros Hk. unfold d_put. simpl. apply N.ltb_lt in Hk. rewrite Hk. apply N.ltb_lt in Hk. split.
  - rewrite enum_upd_some by (unfold nlen in Hk; lia). f_equal. lia.
  - unfold nlen. rewrite lupd_length. auto.
Qed.

Theorem dense_define_refines d k dsc : InvDn d -> k < MAXIDX -> desc_wf dsc = true ->
  s_define (absD d) k dsc = (absA (fst (d_defineIdx d k dsc)), snd (d_defineIdx d k dsc)) /\
  InvA (fst (d_defineIdx d k dsc)).
Proof.
  intros [Hlen Hinv] Hk Hwf. pose proof Hinv as (Hasc & Hkeys & Hclean & Hcnt).
  set (vs := da_values d) in *. set (items := enum_from vs 0) in *.
  assert (Hex : oclean (dnth vs k) = true).
  { destruct (dnth vs k) eqn:E; simpl; auto. eapply Hclean. eapply alookup_in; eauto.
    unfold items. rewrite enum_lookup_dnth. eauto. }
  unfold absD. fold vs. fold items. rewrite s_define_idx by auto.
  replace (alookup items k) with (dnth vs k) by (unfold items; symmetry; apply enum_lookup_dnth).
  rewrite <- (define_refines_spec (b_ext (da_base d)) (dnth vs k) dsc Hwf Hex).
  unfold d_defineIdx. fold vs.
  destruct (goja_define (b_ext (da_base d)) (dnth vs k) dsc) as [prop|] eqn:Eg; simpl option_map.
  2:{ simpl. destruct ((da_length d <=? k) && negb (da_lw d)); (split; [reflexivity|exact (conj Hlen Hinv)]). }
  (* the length step *)
  assert (Hstep : exists a1,
     (if da_length d <=? k then d_setLengthInt_chk d (k + 1) else (d, true)) =
        (a1, negb ((da_length d <=? k) && negb (da_lw d))) /\
     ((da_length d <=? k) && negb (da_lw d) = true -> a1 = d) /\
     ((da_length d <=? k) && negb (da_lw d) = false ->
        a1 = mkDA vs (if da_length d <=? k then k + 1 else da_length d) (da_objCount d) (da_pvc d) (da_lw d) (da_base d))).
  { destruct (N.leb_spec (da_length d) k) as [Hl|Hl]; simpl.
    - destruct (da_lw d) eqn:Ew; simpl.
      + rewrite d_grow by auto. rewrite Ew. eexists; split; [reflexivity|]. split; [discriminate|auto].
      + unfold d_setLengthInt_chk. destruct (N.eqb_spec (k + 1) (da_length d)); [lia|]. rewrite Ew. simpl.
        eexists; split; [reflexivity|]. split; [auto|discriminate].
    - exists d. split; [reflexivity|]. split; [discriminate|]. intros _. destruct d; reflexivity. }
  destruct Hstep as (a1 & E1 & Hfail & Hok). rewrite E1. clear E1.
  destruct ((da_length d <=? k) && negb (da_lw d)) eqn:Eb; simpl.
  { rewrite (Hfail eq_refl). simpl. split; [reflexivity|exact (conj Hlen Hinv)]. }
  specialize (Hok eq_refl). clear Hfail.
  set (len' := if da_length d <=? k then k + 1 else da_length d) in *.
  assert (Hk' : k < len') by (unfold len'; destruct (N.leb_spec (da_length d) k); lia).
  assert (Hll : da_length d <= len') by (unfold len'; destruct (N.leb_spec (da_length d) k); lia).
  assert (Hcp : iv_clean prop = true).
  { pose proof (define_clean (b_ext (da_base d)) _ _ Hwf Hex) as Hc. rewrite Eg in Hc. exact Hc. }
  assert (Hlook : alookup items k = dnth vs k) by (unfold items; apply enum_lookup_dnth).
  (* the three outcomes of expand *)
  assert (Hv1 : da_values a1 = vs) by (subst a1; reflexivity).
  destruct (d_expand_cases a1 k) as [[Hc Ee]|[[Hc Ee]|[Hc Ee]]]; rewrite Ee; rewrite Hv1 in *; simpl fst; simpl snd.
  - (* the slot exists *)
    subst a1. simpl da_values in *.
    match goal with |- context [d_put ?A k (Some prop)] => set (a2 := A) end.
    destruct (d_put_items a2 k prop) as [Hi Hn]; [subst a2; simpl; lia|].
    assert (Ha2 : enum_from (da_values a2) 0 = items) by (subst a2; reflexivity).
    rewrite Ha2 in Hi.
    split.
    + rewrite absA_form. cbn [i_items]. rewrite Hi, absL_ains. subst a2. reflexivity.
    + apply InvA_form.
      * rewrite Hn. subst a2. simpl. lia.
      * cbn [i_items]. rewrite Hi. subst a2. simpl.
        apply (items_put items (da_length d) (da_pvc d)); auto. rewrite Hlook.
        destruct (dnth vs k) as [[v|p]|]; unfold ovpz, vpz; simpl; destruct (is_vp prop); lia.
  - (* dense -> sparse: the new property is counted on the new storage (8dbb372) *)
    subst a1. split.
    + rewrite absA_form. simpl. fold items. rewrite absL_ains. reflexivity.
    + apply InvA_form; auto. simpl. fold items.
      apply (items_put items (da_length d) (da_pvc d)); auto.
      rewrite Hlook, (dnth_ge vs k) by lia.
      unfold ovpz, vpz. destruct (is_vp prop); lia.
  - (* the slots are extended *)
    subst a1. unfold d_with_values. simpl da_values in *.
    set (vs' := vs ++ repeat None (N.to_nat (k + 1 - nlen vs))).
    assert (Hd : dnth vs' k = None) by (apply dnth_grow; lia).
    rewrite Hd.
    assert (Hn' : nlen vs' = k + 1) by (apply nlen_grow; lia).
    match goal with |- context [d_put ?A k (Some prop)] => set (a2 := A) end.
    destruct (d_put_items a2 k prop) as [Hi Hn]; [subst a2; simpl; lia|].
    assert (Ha2 : enum_from (da_values a2) 0 = items).
    { subst a2. simpl. unfold vs'. rewrite enum_grow. reflexivity. }
    rewrite Ha2 in Hi.
    split.
    + rewrite absA_form. cbn [i_items]. rewrite Hi, absL_ains. subst a2. reflexivity.
    + apply InvA_form.
      * rewrite Hn. subst a2. simpl. lia.
      * cbn [i_items]. rewrite Hi. subst a2. simpl.
        apply (items_put items (da_length d) (da_pvc d)); auto.
        rewrite Hlook, (dnth_ge vs k) by lia.
        unfold ovpz, vpz. destruct (is_vp prop); lia.
Qed.

(* ------------------------------------------------------------------------------------------- *)
(* sparse *)

Lemma sp_grow s k : (forall j x, In (j, x) (sa_items s) -> j < sa_length s) -> sa_length s <= k -> sa_lw s = true ->
  sp_setLengthInt_chk s (k + 1) = (mkSA (sa_items s) (k + 1) (sa_pvc s) (sa_lw s) (sa_base s), true).
Proof.
  intros Hkeys Hl Hw. unfold sp_setLengthInt_chk. destruct (N.eqb_spec (k + 1) (sa_length s)); [lia|].
  rewrite Hw. simpl. unfold sp_setLengthInt, sp_setLengthInt_gen.
  destruct (N.leb_spec (k + 1) (sa_length s)); [lia|]. simpl.
  rewrite acut_all; [rewrite ?Hw; reflexivity|]. intros j x Hin. specialize (Hkeys _ _ Hin). lia.
Qed.

Lemma sp_expand_cases s k :
  sp_expand s k = (IS s, true) \/
  sp_expand s k = (ID (expand_s2d s (N.max k (last_key (sa_items s)))), false).
Proof.
  unfold sp_expand, expand_s2d. destruct (1024 <=? nlen (sa_items s)); auto.
  destruct (N.shiftr (N.max k (last_key (sa_items s))) 3 <? nlen (sa_items s)); auto.
Qed.

Lemma fill_len items : forall n i, length (fill_from items i n) = n.
Proof.
  intros n. revert items. induction n as [|n IH]; intros items i; simpl; auto.
  destruct items as [|[k x] r]; simpl; [rewrite IH; auto|].
  destruct (k =? i); simpl; rewrite IH; auto.
Qed.

Lemma last_key_max l : forall lo j x, ascg lo l -> In (j, x) l -> j <= last_key l.
Proof.
  induction l as [|[k y] r IH]; intros lo j x Ha Hin; [destruct Hin|].
  apply ascg_inv in Ha. destruct Ha as [Hlo Hr]. destruct r as [|[k2 y2] r2].
  - destruct Hin as [E|[]]. inversion E; subst. simpl. lia.
  - change (last_key ((k, y) :: (k2, y2) :: r2)) with (last_key ((k2, y2) :: r2)).
    destruct Hin as [E|Hin].
    + inversion E; subst. assert (In (k2, y2) ((k2, y2) :: r2)) by (left; auto).
      pose proof (IH _ _ _ Hr H). pose proof (ascg_keys _ _ _ _ Hr H). lia.
    + eapply IH; eauto.
Qed.

Lemma last_key_bound l len : (forall j x, In (j, x) l -> j < len) -> 0 < len -> last_key l < len.
Proof.
  induction l as [|[k y] r IH]; intros H Hl; simpl; auto.
  destruct r as [|[k2 y2] r2].
  - eapply H. left. eauto.
  - apply IH; auto. intros; eapply H; right; eauto.
Qed.

Theorem sparse_define_refines s k dsc : InvSp s -> k < MAXIDX -> desc_wf dsc = true ->
  s_define (absS s) k dsc = (absA (fst (sp_defineIdx s k dsc)), snd (sp_defineIdx s k dsc)) /\
  InvA (fst (sp_defineIdx s k dsc)).
Proof.
  intros Hinv Hk Hwf. pose proof Hinv as (Hasc & Hkeys & Hclean & Hcnt).
  set (items := sa_items s) in *.
  assert (Hex : oclean (alookup items k) = true).
  { destruct (alookup items k) eqn:E; simpl; auto. eapply Hclean. eapply alookup_in; eauto. }
  unfold absS. fold items. rewrite s_define_idx by auto.
  rewrite <- (define_refines_spec (b_ext (sa_base s)) (alookup items k) dsc Hwf Hex).
  unfold sp_defineIdx. fold items.
  destruct (goja_define (b_ext (sa_base s)) (alookup items k) dsc) as [prop|] eqn:Eg; simpl option_map.
  2:{ simpl. destruct ((sa_length s <=? k) && negb (sa_lw s)); (split; [reflexivity|exact Hinv]). }
  assert (Hstep : exists s1,
     (if sa_length s <=? k then sp_setLengthInt_chk s (k + 1) else (s, true)) =
        (s1, negb ((sa_length s <=? k) && negb (sa_lw s))) /\
     ((sa_length s <=? k) && negb (sa_lw s) = true -> s1 = s) /\
     ((sa_length s <=? k) && negb (sa_lw s) = false ->
        s1 = mkSA items (if sa_length s <=? k then k + 1 else sa_length s) (sa_pvc s) (sa_lw s) (sa_base s))).
  { destruct (N.leb_spec (sa_length s) k) as [Hl|Hl]; simpl.
    - destruct (sa_lw s) eqn:Ew; simpl.
      + rewrite sp_grow by auto. rewrite Ew. eexists; split; [reflexivity|]. split; [discriminate|auto].
      + unfold sp_setLengthInt_chk. destruct (N.eqb_spec (k + 1) (sa_length s)); [lia|]. rewrite Ew. simpl.
        eexists; split; [reflexivity|]. split; [auto|discriminate].
    - exists s. split; [reflexivity|]. split; [discriminate|]. intros _. destruct s; reflexivity. }
  destruct Hstep as (s1 & E1 & Hfail & Hok). rewrite E1. clear E1.
  destruct ((sa_length s <=? k) && negb (sa_lw s)) eqn:Eb; simpl.
  { rewrite (Hfail eq_refl). simpl. split; auto. }
  specialize (Hok eq_refl). clear Hfail.
  set (len' := if sa_length s <=? k then k + 1 else sa_length s) in *.
  assert (Hk' : k < len') by (unfold len'; destruct (N.leb_spec (sa_length s) k); lia).
  assert (Hll : sa_length s <= len') by (unfold len'; destruct (N.leb_spec (sa_length s) k); lia).
  assert (Hcp : iv_clean prop = true).
  { pose proof (define_clean (b_ext (sa_base s)) _ _ Hwf Hex) as Hc. rewrite Eg in Hc. exact Hc. }
  assert (Hput : forall s2 pv, s2 = s1 ->
     (pv = (if is_vp prop then 1 else 0) \/
      exists old, alookup items k = Some old /\ pv = ((if is_vp old then -1 else 0) + (if is_vp prop then 1 else 0)))%Z ->
     (mkS true len' (sa_lw s) (ains (absL items) k (absE prop)) (absL (b_ot (sa_base s))) (b_ext (sa_base s))
          (b_proto (sa_base s)), true) =
     (absA (IS (sp_cnt (sp_put s2 k prop) pv)), true) /\
     InvA (IS (sp_cnt (sp_put s2 k prop) pv))).
  { intros s2 pv -> Hpv. subst s1. split.
    - rewrite absA_form. simpl. rewrite absL_ains. reflexivity.
    - simpl. unfold InvSp. simpl.
      apply (items_put items (sa_length s) (sa_pvc s)); auto.
      pose proof (ovpz_nonneg (alookup items k)). unfold vpz.
      destruct Hpv as [->|(old & Eo & ->)].
      + destruct (is_vp prop); lia.
      + rewrite Eo. unfold ovpz, vpz. destruct (is_vp old), (is_vp prop); lia. }
  destruct (alookup items k) as [old|] eqn:Eold.
  - (* redefinition of an existing element *)
    simpl fst. simpl snd. apply Hput; auto. right. exists old. auto.
  - destruct (sp_expand_cases s1 k) as [Ee|Ee]; rewrite Ee; simpl fst; simpl snd.
    + apply Hput; auto.
    + (* sparse -> dense: the new property is counted on the new storage (8dbb372) *)
      subst s1. unfold expand_s2d. cbn [sa_items sa_length sa_pvc sa_lw sa_base].
      set (m := N.max k (last_key items)).
      match goal with |- context [d_put ?A k (Some prop)] => set (a := A) end.
      assert (Hvals : enum_from (da_values a) 0 = items).
      { subst a. simpl. apply enum_fill; [apply asc_ascg; auto|].
        intros j x Hin. pose proof (last_key_max _ _ _ _ Hasc Hin). lia. }
      assert (Hnl : nlen (da_values a) = m + 1).
      { subst a. simpl. unfold nlen. rewrite fill_len. lia. }
      assert (Hm : m < len').
      { unfold m. assert (last_key items < len') by (apply last_key_bound; [intros j x Hin; specialize (Hkeys _ _ Hin)|]; lia). lia. }
      destruct (d_put_items a k prop) as [Hi Hn]; [rewrite Hnl; unfold m; lia|].
      rewrite Hvals in Hi.
      split.
      * rewrite absA_form. cbn [i_items]. rewrite Hi, absL_ains. subst a. reflexivity.
      * apply InvA_form.
        -- rewrite Hn, Hnl. subst a. simpl. lia.
        -- cbn [i_items]. rewrite Hi. subst a. simpl.
           apply (items_put items (sa_length s) (sa_pvc s)); auto.
           rewrite Eold. unfold ovpz, vpz. destruct (is_vp prop); lia.
Qed.
