(* C07 — Arrays behave as spec arrays whatever the storage.  Executable definitions only.
   S  = the ECMAScript Array exotic object (10.4.2) over an abstract finite map of elements, plus the
        Array.prototype algorithms (23.1.3) written over primitive operations;
   I  = goja's two storages transcribed from /repo/array.go (arrayObject: dense [values] + counters) and
        /repo/array_sparse.go (sparseArrayObject: sorted [items]), the transitions between them ([expand]),
        and baseObject._defineOwnProperty (object.go:650) as the literal decision tree. *)
From Coq Require Import List NArith ZArith Bool.
Import ListNotations.
Local Open Scope N_scope.

(* ------------------------------------------------------------------------------------------- *)
(* values, elements, descriptors *)

Definition val := N.                       (* 0 = undefined, n = the number n *)
Definition vundef : val := 0.
Definition gval (g : N) : val := 1000 + g.  (* what getter number g returns; getters are pure, setters no-ops *)
Definition MAXIDX : N := 4294967295.       (* 2^32-1: the first integer key that is NOT an array index *)
Definition MAXLEN53 : N := 9007199254740991.

Inductive element :=
| EData (v : val) (w e c : bool)
| EAcc (g s : option N) (e c : bool).

Definition el_conf (x : element) := match x with EData _ _ _ c => c | EAcc _ _ _ c => c end.
Definition el_enum (x : element) := match x with EData _ _ e _ => e | EAcc _ _ e _ => e end.

(* a partial property descriptor; [d_get = Some None] is [get: undefined] *)
Record pdesc := mkD { d_val : option val; d_wr : option bool; d_get : option (option N);
                      d_set : option (option N); d_en : option bool; d_cf : option bool }.

Definition isSome {A} (o : option A) := match o with Some _ => true | None => false end.
Definition dflt {A} (o : option A) (x : A) := match o with Some y => y | None => x end.
Definition is_true (o : option bool) := match o with Some true => true | _ => false end.
Definition differs (o : option bool) (b : bool) := match o with Some x => negb (Bool.eqb x b) | None => false end.
Definition opt_eqb (a b : option N) :=
  match a, b with None, None => true | Some x, Some y => x =? y | _, _ => false end.

Definition is_acc_desc (d : pdesc) := isSome (d_get d) || isSome (d_set d).
Definition is_data_desc (d : pdesc) := isSome (d_val d) || isSome (d_wr d).

(* ---- S: ValidateAndApplyPropertyDescriptor (10.1.6.3); None = reject *)
Definition spec_define (ext : bool) (cur : option element) (d : pdesc) : option element :=
  match cur with
  | None =>
      if ext then
        Some (if is_acc_desc d
              then EAcc (dflt (d_get d) None) (dflt (d_set d) None) (dflt (d_en d) false) (dflt (d_cf d) false)
              else EData (dflt (d_val d) vundef) (dflt (d_wr d) false) (dflt (d_en d) false) (dflt (d_cf d) false))
      else None
  | Some cu =>
      let c := el_conf cu in let e := el_enum cu in
      let e' := dflt (d_en d) e in let c' := dflt (d_cf d) c in
      if negb c && (is_true (d_cf d) || differs (d_en d) e) then None
      else match cu with
           | EData v w _ _ =>
               if is_acc_desc d then
                 (if c then Some (EAcc (dflt (d_get d) None) (dflt (d_set d) None) e' c') else None)
               else if negb c && negb w &&
                       (is_true (d_wr d) || match d_val d with Some x => negb (x =? v) | None => false end)
                    then None
                    else Some (EData (dflt (d_val d) v) (dflt (d_wr d) w) e' c')
           | EAcc g s _ _ =>
               if is_data_desc d then
                 (if c then Some (EData (dflt (d_val d) vundef) (dflt (d_wr d) false) e' c') else None)
               else if negb c &&
                       (match d_get d with Some x => negb (opt_eqb x g) | None => false end ||
                        match d_set d with Some x => negb (opt_eqb x s) | None => false end)
                    then None
                    else Some (EAcc (dflt (d_get d) g) (dflt (d_set d) s) e' c')
           end
  end.

(* ---- I: goja's valueProperty and baseObject._defineOwnProperty (object.go:650-751) *)
Record vprop := mkVP { vp_value : val; vp_w : bool; vp_e : bool; vp_c : bool; vp_acc : bool;
                       vp_get : option N; vp_set : option N }.
Inductive ival := IPlain (v : val) | IProp (p : vprop).   (* a bare Value or a *valueProperty *)

Definition goja_define (ext : bool) (existing : option ival) (d : pdesc) : option ival :=
  let getterObj := match d_get d with Some (Some g) => Some g | _ => None end in
  let setterObj := match d_set d with Some (Some g) => Some g | _ => None end in
  let validated : option vprop :=
    match existing with
    | None => if ext then Some (mkVP vundef false false false false None None) else None
    | Some ev =>
        let ex := match ev with IProp p => p | IPlain v => mkVP v true true true false None None end in
        if negb (vp_c ex) && (is_true (d_cf d) || differs (d_en d) (vp_e ex)) then None
        else if (vp_acc ex && (isSome (d_val d) || isSome (d_wr d))) || (negb (vp_acc ex) && (isSome (d_get d) || isSome (d_set d)))
        then (if vp_c ex then Some ex else None)
        else if negb (vp_acc ex)
        then (if negb (vp_c ex) && negb (vp_w ex) &&
                 (is_true (d_wr d) || match d_val d with Some x => negb (x =? vp_value ex) | None => false end)
              then None else Some ex)
        else (if negb (vp_c ex) &&
                 (match d_get d with Some _ => negb (opt_eqb (vp_get ex) getterObj) | None => false end ||
                  match d_set d with Some _ => negb (opt_eqb (vp_set ex) setterObj) | None => false end)
              then None else Some ex)
    end in
  match validated with
  | None => None
  | Some ex =>
      if isSome (d_val d) && is_true (d_wr d) && is_true (d_en d) && is_true (d_cf d)
      then Some (IPlain (dflt (d_val d) vundef)) else
      (* object.go:710-752 updates the record field by field; written here per field (same result, also for a
         descriptor carrying both kinds of fields):
         [data] = Value or Writable present: accessor -> data drops [[Get]]/[[Set]], [[Writable]] defaults to false;
         [accd] = Get or Set present (applied after): data -> accessor drops [[Value]]/[[Writable]]   (4561dbf) *)
      let data := isSome (d_val d) || isSome (d_wr d) in
      let accd := isSome (d_get d) || isSome (d_set d) in
      let p := mkVP
        (if accd then vundef else dflt (d_val d) (vp_value ex))
        (if accd then false else if data && vp_acc ex && negb (isSome (d_wr d)) then false else dflt (d_wr d) (vp_w ex))
        (dflt (d_en d) (vp_e ex))
        (dflt (d_cf d) (vp_c ex))
        (if accd then true else if data then false else vp_acc ex)
        (match d_get d with Some _ => getterObj | None => if data then None else vp_get ex end)
        (match d_set d with Some _ => setterObj | None => if data then None else vp_set ex end) in
      Some (IProp p)
  end.

(* what scripts see of an [ival]: getOwnPropertyDescriptor (builtin_object.go:31) *)
Definition absE (x : ival) : element :=
  match x with
  | IPlain v => EData v true true true
  | IProp p => if vp_acc p then EAcc (vp_get p) (vp_set p) (vp_e p) (vp_c p)
               else EData (vp_value p) (vp_w p) (vp_e p) (vp_c p)
  end.

(* valueProperty.isWritable / get / set (value.go:509-536): they look at getterFunc/setterFunc, not at [accessor] *)
Definition vp_isWritable (p : vprop) := vp_w p || isSome (vp_set p).
Definition vp_getv (p : vprop) : val := match vp_get p with Some g => gval g | None => vp_value p end.
Definition vp_setv (p : vprop) (v : val) : vprop :=
  match vp_set p with Some _ => p
  | None => mkVP v (vp_w p) (vp_e p) (vp_c p) (vp_acc p) (vp_get p) (vp_set p) end.
Definition iv_getv (x : ival) : val := match x with IPlain v => v | IProp p => vp_getv p end.
Definition iv_conf (x : ival) : bool := match x with IPlain _ => true | IProp p => vp_c p end.
Definition is_vp (x : ival) : bool := match x with IProp _ => true | _ => false end.

(* a valueProperty without stale fields *)
Definition vp_clean (p : vprop) : bool :=
  if vp_acc p then negb (vp_w p) && (vp_value p =? vundef)
  else negb (isSome (vp_get p)) && negb (isSome (vp_set p)).
Definition iv_clean (x : ival) := match x with IPlain _ => true | IProp p => vp_clean p end.

Definition el_getv (x : element) : val :=
  match x with EData v _ _ _ => v | EAcc (Some g) _ _ _ => gval g | EAcc None _ _ _ => vundef end.

(* ------------------------------------------------------------------------------------------- *)
(* finite maps as association lists: [a*] sorted by key (index keys), [o*] insertion ordered *)

Section Assoc.
Context {A : Type}.
Fixpoint alookup (l : list (N * A)) (k : N) : option A :=
  match l with [] => None | (j, x) :: r => if j =? k then Some x else alookup r k end.
Fixpoint ains (l : list (N * A)) (k : N) (x : A) : list (N * A) :=
  match l with
  | [] => [(k, x)]
  | (j, y) :: r => if k <? j then (k, x) :: l else if k =? j then (k, x) :: r else (j, y) :: ains r k x
  end.
Fixpoint adel (l : list (N * A)) (k : N) : list (N * A) :=
  match l with [] => [] | (j, y) :: r => if j =? k then r else (j, y) :: adel r k end.
Definition acut (l : list (N * A)) (n : N) : list (N * A) := filter (fun p => fst p <? n) l.
Fixpoint oput (l : list (N * A)) (k : N) (x : A) : list (N * A) :=
  match l with [] => [(k, x)] | (j, y) :: r => if j =? k then (k, x) :: r else (j, y) :: oput r k x end.
End Assoc.

(* ------------------------------------------------------------------------------------------- *)
(* S : the Array exotic object (and, with [s_exotic = false], an ordinary array-like object whose
   "length" is a plain data property) *)

Record sarr := mkS { s_exotic : bool; s_len : N; s_lw : bool; s_el : list (N * element);
                     s_ot : list (N * element); s_ext : bool; s_proto : list (N * element) }.

Definition s_with_len (a : sarr) (n : N) := mkS (s_exotic a) n (s_lw a) (s_el a) (s_ot a) (s_ext a) (s_proto a).
Definition s_with_lw (a : sarr) (w : bool) := mkS (s_exotic a) (s_len a) w (s_el a) (s_ot a) (s_ext a) (s_proto a).
Definition s_with_el (a : sarr) el := mkS (s_exotic a) (s_len a) (s_lw a) el (s_ot a) (s_ext a) (s_proto a).
Definition s_with_ot (a : sarr) ot := mkS (s_exotic a) (s_len a) (s_lw a) (s_el a) ot (s_ext a) (s_proto a).
Definition s_with_ext (a : sarr) x := mkS (s_exotic a) (s_len a) (s_lw a) (s_el a) (s_ot a) x (s_proto a).
Definition s_with_proto (a : sarr) p := mkS (s_exotic a) (s_len a) (s_lw a) (s_el a) (s_ot a) (s_ext a) p.

Definition s_getown (a : sarr) (k : N) : option element :=
  if k <? MAXIDX then alookup (s_el a) k else alookup (s_ot a) k.
Definition s_put (a : sarr) (k : N) (e : element) : sarr :=
  if k <? MAXIDX then s_with_el a (ains (s_el a) k e) else s_with_ot a (oput (s_ot a) k e).
Definition s_remove (a : sarr) (k : N) : sarr :=
  if k <? MAXIDX then s_with_el a (adel (s_el a) k) else s_with_ot a (adel (s_ot a) k).

Definition s_isidx (a : sarr) (k : N) := s_exotic a && (k <? MAXIDX).

(* 10.4.2.1 [[DefineOwnProperty]] for an array index / 10.1.6 for anything else *)
Definition s_define (a : sarr) (k : N) (d : pdesc) : sarr * bool :=
  if s_isidx a k && (s_len a <=? k) && negb (s_lw a) then (a, false) else
  match spec_define (s_ext a) (s_getown a k) d with
  | None => (a, false)
  | Some e => let a' := s_put a k e in
              (if s_isidx a k && (s_len a <=? k) then s_with_len a' (k + 1) else a', true)
  end.

Definition s_get (a : sarr) (k : N) : val :=
  match s_getown a k with
  | Some e => el_getv e
  | None => match alookup (s_proto a) k with Some e => el_getv e | None => vundef end
  end.
Definition s_has (a : sarr) (k : N) : bool := isSome (s_getown a k) || isSome (alookup (s_proto a) k).

Definition dv (v : val) := mkD (Some v) None None None None None.
Definition dnew (v : val) := mkD (Some v) (Some true) None None (Some true) (Some true).

(* 10.1.9 OrdinarySet with the object itself as receiver *)
Definition s_set (a : sarr) (k : N) (v : val) : sarr * bool :=
  match s_getown a k with
  | Some (EData _ w _ _) => if w then s_define a k (dv v) else (a, false)
  | Some (EAcc _ s _ _) => (a, isSome s)
  | None => match alookup (s_proto a) k with
            | Some (EData _ false _ _) => (a, false)
            | Some (EAcc _ s _ _) => (a, isSome s)
            | _ => s_define a k (dnew v)
            end
  end.

Definition s_delete (a : sarr) (k : N) : sarr * bool :=
  match s_getown a k with
  | None => (a, true)
  | Some e => if el_conf e then (s_remove a k, true) else (a, false)
  end.

(* ArraySetLength step 17: delete from the top down; [r] is the element list in DESCENDING key order.
   Returns the surviving elements (descending), the final length and the result *)
Fixpoint s_del_down (r : list (N * element)) (n : N) : list (N * element) * N * bool :=
  match r with
  | [] => ([], n, true)
  | (k, e) :: r' => if k <? n then (r, n, true)
                    else if el_conf e then s_del_down r' n
                    else (r, k + 1, false)
  end.

(* ArraySetLength when only [[Value]] is present (newLen valid) *)
Definition s_array_set_length (a : sarr) (n : N) : sarr * bool :=
  if s_len a <=? n then (if (n =? s_len a) || s_lw a then (s_with_len a n, true) else (a, false))
  else if negb (s_lw a) then (a, false)
  else let '(rest, n', ok) := s_del_down (rev (s_el a)) n in
       (s_with_len (s_with_el a (rev rest)) n', ok).

(* error codes: 0 = ok, 1 = TypeError, 2 = RangeError *)
Definition berr (b : bool) : N := if b then 0 else 1.

(* Set(O, "length", n, true) as used by assignment and by the Array.prototype methods *)
Definition s_setlen (a : sarr) (n : N) : sarr * N :=
  if s_exotic a then
    if negb (s_lw a) then (a, 1)
    else if 4294967295 <? n then (a, 2)
    else let '(a', ok) := s_array_set_length a n in (a', berr ok)
  else if s_lw a then (s_with_len a n, 0) else (a, 1).

Inductive lenarg := LValid (n : N) | LInvalid.

(* the ordinary "length" property as an element *)
Definition s_len_el (a : sarr) := EData (s_len a) (s_lw a) false false.

(* 10.4.2.4 ArraySetLength(A, Desc); returns error code *)
Definition s_define_length (a : sarr) (v : option lenarg) (d : pdesc) : sarr * N :=
  match v with
  | Some LInvalid => (a, 2)
  | None =>
      match spec_define true (Some (s_len_el a)) (mkD None (d_wr d) (d_get d) (d_set d) (d_en d) (d_cf d)) with
      | Some (EData _ w _ _) => (s_with_lw a w, 0)
      | _ => (a, 1)
      end
  | Some (LValid n) =>
      if s_len a <=? n then
        match spec_define true (Some (s_len_el a)) (mkD (Some n) (d_wr d) (d_get d) (d_set d) (d_en d) (d_cf d)) with
        | Some (EData n' w _ _) => (s_with_lw (s_with_len a n') w, 0)
        | _ => (a, 1)
        end
      else if negb (s_lw a) then (a, 1)
      else
        let newWritable := negb (match d_wr d with Some false => true | _ => false end) in
        match spec_define true (Some (s_len_el a)) (mkD (Some n) (Some true) (d_get d) (d_set d) (d_en d) (d_cf d)) with
        | Some (EData _ _ _ _) =>
            let '(rest, n', ok) := s_del_down (rev (s_el a)) n in
            let a' := s_with_len (s_with_el a (rev rest)) n' in
            (if newWritable then a' else s_with_lw a' false, berr ok)
        | _ => (a, 1)
        end
  end.

(* 7.3.15 SetIntegrityLevel *)
Definition d_seal := mkD None None None None None (Some false).
Definition d_frz := mkD None (Some false) None None None (Some false).
Definition s_integrity (frozen : bool) (a : sarr) : sarr :=
  let a := s_with_ext a false in
  let fz (e : element) := match e with
                          | EData v w e c => EData v (if frozen then false else w) e false
                          | EAcc g s e c => EAcc g s e false end in
  let a := s_with_el a (map (fun p => (fst p, fz (snd p))) (s_el a)) in
  let a := s_with_ot a (map (fun p => (fst p, fz (snd p))) (s_ot a)) in
  if frozen then s_with_lw a false else a.

(* ------------------------------------------------------------------------------------------- *)
(* I : dense storage (array.go) *)

Record base := mkB { b_ext : bool; b_ot : list (N * ival); b_proto : list (N * element) }.

Record darr := mkDA { da_values : list (option ival); da_length : N; da_objCount : Z; da_pvc : Z;
                      da_lw : bool; da_base : base }.
Record sparr := mkSA { sa_items : list (N * ival); sa_length : N; sa_pvc : Z; sa_lw : bool; sa_base : base }.
Inductive iarr := ID (d : darr) | IS (s : sparr).

Definition nlen {A} (l : list A) : N := N.of_nat (length l).
(* [N.to_nat] is only ever applied to numbers bounded by the length of a list (unary nat!) *)
Definition dnth (vs : list (option ival)) (i : N) : option ival :=
  if i <? nlen vs then match nth_error vs (N.to_nat i) with Some x => x | None => None end else None.
Fixpoint lupd {A} (l : list A) (i : nat) (x : A) : list A :=
  match l, i with
  | [], _ => []
  | _ :: r, O => x :: r
  | y :: r, S j => y :: lupd r j x
  end.

Definition count_present (vs : list (option ival)) : Z :=
  Z.of_nat (length (filter (fun x => isSome x) vs)).

(* the slow path loop of _setLengthInt (array.go:86-95); [r] = values[l..] reversed, [i] = index of its head *)
Fixpoint d_scan (r : list (option ival)) (i : N) (l : N) (pvc : Z) : N * bool * Z :=
  match r with
  | [] => (l, true, pvc)
  | x :: r' =>
      match x with
      | Some (IProp p) => if vp_c p then d_scan r' (i - 1) l (pvc - 1)%Z else (i + 1, false, pvc)
      | _ => d_scan r' (i - 1) l pvc
      end
  end.

(* arrayObject._setLengthInt (array.go:81) *)
Definition d_setLengthInt (a : darr) (l : N) : darr * bool :=
  let vs := da_values a in
  let '(l', ret, pvc') :=
    if (l <=? da_length a) && (0 <? da_pvc a)%Z
    then d_scan (rev (skipn (N.to_nat (N.min l (nlen vs))) vs)) (nlen vs - 1) l (da_pvc a)
    else (l, true, da_pvc a) in
  let vs' := if l' <=? nlen vs then firstn (N.to_nat l') vs else vs in
  let oc' := if l' <=? nlen vs then (da_objCount a - count_present (skipn (N.to_nat l') vs))%Z else da_objCount a in
  (mkDA vs' l' oc' pvc' (da_lw a) (da_base a), ret).

(* setLengthInt (array.go:118) / setLength (array.go:129) *)
Definition d_setLengthInt_chk (a : darr) (l : N) : darr * bool :=
  if l =? da_length a then (a, true) else if negb (da_lw a) then (a, false) else d_setLengthInt a l.
Definition d_setLength (a : darr) (l : N) : darr * bool :=
  if negb (da_lw a) then (a, false) else d_setLengthInt a l.

(* sparseArrayObject.setValues (array_sparse.go:275) *)
Fixpoint enum_from (vs : list (option ival)) (i : N) : list (N * ival) :=
  match vs with
  | [] => []
  | Some x :: r => (i, x) :: enum_from r (i + 1)
  | None :: r => enum_from r (i + 1)
  end.

(* arrayObject.expand (array.go:347); the cap()-dependent shortcut is not modelled (not observable) *)
Definition d_expand (a : darr) (idx : N) : iarr * bool :=
  let vs := da_values a in
  if idx + 1 <=? nlen vs then (ID a, true)
  else if (4096 <? idx) && ((da_objCount a =? 0)%Z || (10 <? idx / Z.to_N (da_objCount a)))
  then (IS (mkSA (enum_from vs 0) (da_length a) (da_pvc a) (da_lw a) (da_base a)), false)
  else (ID (mkDA (vs ++ repeat None (N.to_nat (idx + 1 - nlen vs))) (da_length a) (da_objCount a) (da_pvc a)
                 (da_lw a) (da_base a)), true).

(* what _setForeignIdx finds on the prototype chain (object.go:570): Some r = handled with result r *)
Definition proto_set_foreign (pr : list (N * element)) (k : N) : option bool :=
  match alookup pr k with
  | Some (EData _ w _ _) => if w then None else Some false
  | Some (EAcc _ s _ _) => Some (isSome s)
  | None => None
  end.

(* sparseArrayObject.add (array_sparse.go:142) *)
Definition sa_add (s : sparr) (idx : N) (x : ival) : sparr :=
  mkSA (ains (sa_items s) idx x) (sa_length s) (sa_pvc s) (sa_lw s) (sa_base s).

Definition d_put (a : darr) (idx : N) (x : option ival) : darr :=
  mkDA (if idx <? nlen (da_values a) then lupd (da_values a) (N.to_nat idx) x else da_values a) (da_length a) (da_objCount a) (da_pvc a) (da_lw a) (da_base a).
Definition d_cnt (a : darr) (oc pv : Z) : darr :=
  mkDA (da_values a) (da_length a) (da_objCount a + oc)%Z (da_pvc a + pv)%Z (da_lw a) (da_base a).

(* arrayObject._setOwnIdx (array.go:214) *)
Definition d_setOwnIdx (a : darr) (idx : N) (v : val) : iarr * bool :=
  match dnth (da_values a) idx with
  | None =>
      match proto_set_foreign (b_proto (da_base a)) idx with
      | Some r => (ID a, r)
      | None =>
          if negb (b_ext (da_base a)) then (ID a, false) else
          let '(a1, ok) := if da_length a <=? idx then d_setLengthInt_chk a (idx + 1) else (a, true) in
          if negb ok then (ID a1, false) else
          if nlen (da_values a1) <=? idx then
            match d_expand a1 idx with
            | (IS s, _) => (IS (sa_add s idx (IPlain v)), true)
            | (ID a2, _) => (ID (d_put (d_cnt a2 1 0) idx (Some (IPlain v))), true)
            end
          else (ID (d_put (d_cnt a1 1 0) idx (Some (IPlain v))), true)
      end
  | Some (IProp p) =>
      if negb (vp_isWritable p) then (ID a, false)
      else (ID (d_put a idx (Some (IProp (vp_setv p v)))), true)
  | Some (IPlain _) => (ID (d_put a idx (Some (IPlain v))), true)
  end.

(* arrayObject._defineIdxProperty (array.go:422) *)
Definition d_defineIdx (a : darr) (idx : N) (d : pdesc) : iarr * bool :=
  match goja_define (b_ext (da_base a)) (dnth (da_values a) idx) d with
  | None => (ID a, false)
  | Some prop =>
      let '(a1, ok) := if da_length a <=? idx then d_setLengthInt_chk a (idx + 1) else (a, true) in
      if negb ok then (ID a1, false) else
      match d_expand a1 idx with
      | (ID a2, _) =>
          let oc := match dnth (da_values a2) idx with None => 1%Z | Some _ => 0%Z end in
          let pv := ((match dnth (da_values a2) idx with Some (IProp _) => -1 | _ => 0 end) +
                     (if is_vp prop then 1 else 0))%Z in
          (ID (d_put (d_cnt a2 oc pv) idx (Some prop)), true)
      | (IS s, _) =>
          let s' := sa_add s idx prop in
          (IS (mkSA (sa_items s') (sa_length s') (sa_pvc s' + (if is_vp prop then 1 else 0))%Z (sa_lw s') (sa_base s')), true)
      end
  end.

(* arrayObject._deleteIdxProp (array.go:464) *)
Definition d_deleteIdx (a : darr) (idx : N) : darr * bool :=
  match dnth (da_values a) idx with
  | None => (a, true)
  | Some (IProp p) => if vp_c p then (d_put (d_cnt a (-1) (-1)) idx None, true) else (a, false)
  | Some (IPlain _) => (d_put (d_cnt a (-1) 0) idx None, true)
  end.

(* ------------------------------------------------------------------------------------------- *)
(* I : sparse storage (array_sparse.go) *)

(* the slow path loop of _setLengthInt (array_sparse.go:38-51); [r] = items reversed.
   [strict] = true is the code after fix a4a2aa5 ([item.idx < l] breaks); false is the former [<=] *)
Fixpoint sp_scan (strict : bool) (r : list (N * ival)) (l : N) (pvc : Z) : N * bool * Z :=
  match r with
  | [] => (l, true, pvc)
  | (i, x) :: r' =>
      if (if strict then i <? l else i <=? l) then (l, true, pvc)
      else match x with
           | IProp p => if vp_c p then sp_scan strict r' l (pvc - 1)%Z else (i + 1, false, pvc)
           | _ => sp_scan strict r' l pvc
           end
  end.

Definition sp_setLengthInt_gen (strict : bool) (s : sparr) (l : N) : sparr * bool :=
  let '(l', ret, pvc') :=
    if (l <=? sa_length s) && (0 <? sa_pvc s)%Z then sp_scan strict (rev (sa_items s)) l (sa_pvc s)
    else (l, true, sa_pvc s) in
  (mkSA (acut (sa_items s) l') l' pvc' (sa_lw s) (sa_base s), ret).
Definition sp_setLengthInt := sp_setLengthInt_gen true.      (* array_sparse.go:33 after a4a2aa5: [item.idx < l] *)

Definition sp_setLengthInt_chk (s : sparr) (l : N) : sparr * bool :=
  if l =? sa_length s then (s, true) else if negb (sa_lw s) then (s, false) else sp_setLengthInt s l.
Definition sp_setLength (s : sparr) (l : N) : sparr * bool :=
  if negb (sa_lw s) then (s, false) else sp_setLengthInt s l.

Fixpoint last_key (l : list (N * ival)) : N :=
  match l with [] => 0 | [(k, _)] => k | _ :: r => last_key r end.

(* arrayObject.setValuesFromSparse (array.go:552) *)
Fixpoint fill_from (items : list (N * ival)) (i : N) (n : nat) : list (option ival) :=
  match n with
  | O => []
  | S n' => match items with
            | (k, x) :: r => if k =? i then Some x :: fill_from r (i + 1) n' else None :: fill_from items (i + 1) n'
            | [] => None :: fill_from [] (i + 1) n'
            end
  end.

(* sparseArrayObject.expand (array_sparse.go:317) *)
Definition sp_expand (s : sparr) (idx : N) : iarr * bool :=
  let l := nlen (sa_items s) in
  if 1024 <=? l then
    let idx' := N.max idx (last_key (sa_items s)) in
    if N.shiftr idx' 3 <? l then
      (ID (mkDA (fill_from (sa_items s) 0 (N.to_nat (idx' + 1))) (sa_length s) (Z.of_N l) (sa_pvc s) (sa_lw s)
                (sa_base s)), false)
    else (IS s, true)
  else (IS s, true).

Definition sp_put (s : sparr) (idx : N) (x : ival) : sparr :=
  mkSA (ains (sa_items s) idx x) (sa_length s) (sa_pvc s) (sa_lw s) (sa_base s).

(* sparseArrayObject._setOwnIdx (array_sparse.go:152) *)
Definition sp_setOwnIdx (s : sparr) (idx : N) (v : val) : iarr * bool :=
  match alookup (sa_items s) idx with
  | None =>
      match proto_set_foreign (b_proto (sa_base s)) idx with
      | Some r => (IS s, r)
      | None =>
          if negb (b_ext (sa_base s)) then (IS s, false) else
          let '(s1, ok) := if sa_length s <=? idx then sp_setLengthInt_chk s (idx + 1) else (s, true) in
          if negb ok then (IS s1, false) else
          match sp_expand s1 idx with
          | (IS s2, _) => (IS (sp_put s2 idx (IPlain v)), true)
          | (ID a, _) => (ID (d_put (d_cnt a 1 0) idx (Some (IPlain v))), true)
          end
      end
  | Some (IProp p) =>
      if negb (vp_isWritable p) then (IS s, false) else (IS (sp_put s idx (IProp (vp_setv p v))), true)
  | Some (IPlain _) => (IS (sp_put s idx (IPlain v)), true)
  end.

Definition sp_cnt (s : sparr) (pv : Z) : sparr :=
  mkSA (sa_items s) (sa_length s) (sa_pvc s + pv)%Z (sa_lw s) (sa_base s).

(* sparseArrayObject._defineIdxProperty (array_sparse.go:339) *)
Definition sp_defineIdx (s : sparr) (idx : N) (d : pdesc) : iarr * bool :=
  let existing := alookup (sa_items s) idx in
  match goja_define (b_ext (sa_base s)) existing d with
  | None => (IS s, false)
  | Some prop =>
      let '(s1, ok) := if sa_length s <=? idx then sp_setLengthInt_chk s (idx + 1) else (s, true) in
      if negb ok then (IS s1, false) else
      let pv := if is_vp prop then 1%Z else 0%Z in
      match existing with
      | None =>
          match sp_expand s1 idx with
          | (IS s2, _) => (IS (sp_cnt (sp_put s2 idx prop) pv), true)
          | (ID a, _) => (ID (d_put (d_cnt a 1 pv) idx (Some prop)), true)
          end
      | Some old => (IS (sp_cnt (sp_put s1 idx prop) ((if is_vp old then -1 else 0) + pv)), true)
      end
  end.

(* sparseArrayObject._deleteIdxProp (array_sparse.go:393) *)
Definition sp_deleteIdx (s : sparr) (idx : N) : sparr * bool :=
  match alookup (sa_items s) idx with
  | None => (s, true)
  | Some (IProp p) =>
      if vp_c p then (mkSA (adel (sa_items s) idx) (sa_length s) (sa_pvc s - 1)%Z (sa_lw s) (sa_base s), true)
      else (s, false)
  | Some (IPlain _) => (mkSA (adel (sa_items s) idx) (sa_length s) (sa_pvc s) (sa_lw s) (sa_base s), true)
  end.

(* ------------------------------------------------------------------------------------------- *)
(* abstraction functions *)

Definition absL (l : list (N * ival)) : list (N * element) := map (fun p => (fst p, absE (snd p))) l.

Definition absD (a : darr) : sarr :=
  mkS true (da_length a) (da_lw a) (absL (enum_from (da_values a) 0)) (absL (b_ot (da_base a)))
      (b_ext (da_base a)) (b_proto (da_base a)).
Definition absS (s : sparr) : sarr :=
  mkS true (sa_length s) (sa_lw s) (absL (sa_items s)) (absL (b_ot (sa_base s)))
      (b_ext (sa_base s)) (b_proto (sa_base s)).
Definition absA (a : iarr) : sarr := match a with ID d => absD d | IS s => absS s end.

(* forced transitions (the conversions performed inside the two [expand]s) *)
Definition expand_d2s (a : darr) : sparr :=
  mkSA (enum_from (da_values a) 0) (da_length a) (da_pvc a) (da_lw a) (da_base a).
Definition expand_s2d (s : sparr) (maxidx : N) : darr :=
  mkDA (fill_from (sa_items s) 0 (N.to_nat (maxidx + 1))) (sa_length s) (Z.of_N (nlen (sa_items s))) (sa_pvc s)
       (sa_lw s) (sa_base s).

(* ------------------------------------------------------------------------------------------- *)
(* I : the combined object — dispatch on the current storage; non-index keys go to baseObject *)

Definition i_base (a : iarr) : base := match a with ID d => da_base d | IS s => sa_base s end.
Definition i_with_base (a : iarr) (b : base) : iarr :=
  match a with
  | ID d => ID (mkDA (da_values d) (da_length d) (da_objCount d) (da_pvc d) (da_lw d) b)
  | IS s => IS (mkSA (sa_items s) (sa_length s) (sa_pvc s) (sa_lw s) b)
  end.
Definition i_len (a : iarr) : N := match a with ID d => da_length d | IS s => sa_length s end.
Definition i_lw (a : iarr) : bool := match a with ID d => da_lw d | IS s => sa_lw s end.
Definition i_with_lw (a : iarr) (w : bool) : iarr :=
  match a with
  | ID d => ID (mkDA (da_values d) (da_length d) (da_objCount d) (da_pvc d) w (da_base d))
  | IS s => IS (mkSA (sa_items s) (sa_length s) (sa_pvc s) w (sa_base s))
  end.

Definition i_getown_iv (a : iarr) (k : N) : option ival :=
  if k <? MAXIDX then match a with ID d => dnth (da_values d) k | IS s => alookup (sa_items s) k end
  else alookup (b_ot (i_base a)) k.
Definition i_getown (a : iarr) (k : N) : option element := option_map absE (i_getown_iv a k).

Definition i_get (a : iarr) (k : N) : val :=
  match i_getown_iv a k with
  | Some x => iv_getv x
  | None => match alookup (b_proto (i_base a)) k with Some e => el_getv e | None => vundef end
  end.
Definition i_has (a : iarr) (k : N) : bool :=
  isSome (i_getown_iv a k) || isSome (alookup (b_proto (i_base a)) k).

(* baseObject for the non-index keys *)
Definition b_define (b : base) (k : N) (d : pdesc) : base * bool :=
  match goja_define (b_ext b) (alookup (b_ot b) k) d with
  | None => (b, false)
  | Some p => (mkB (b_ext b) (oput (b_ot b) k p) (b_proto b), true)
  end.
Definition b_set (b : base) (k : N) (v : val) : base * bool :=
  match alookup (b_ot b) k with
  | None => if b_ext b then (mkB (b_ext b) (oput (b_ot b) k (IPlain v)) (b_proto b), true) else (b, false)
  | Some (IProp p) => if negb (vp_isWritable p) then (b, false)
                      else (mkB (b_ext b) (oput (b_ot b) k (IProp (vp_setv p v))) (b_proto b), true)
  | Some (IPlain _) => (mkB (b_ext b) (oput (b_ot b) k (IPlain v)) (b_proto b), true)
  end.
Definition b_delete (b : base) (k : N) : base * bool :=
  match alookup (b_ot b) k with
  | None => (b, true)
  | Some x => if iv_conf x then (mkB (b_ext b) (adel (b_ot b) k) (b_proto b), true) else (b, false)
  end.

Definition i_set (a : iarr) (k : N) (v : val) : iarr * bool :=
  if k <? MAXIDX then match a with ID d => d_setOwnIdx d k v | IS s => sp_setOwnIdx s k v end
  else let '(b, r) := b_set (i_base a) k v in (i_with_base a b, r).
Definition i_define (a : iarr) (k : N) (d : pdesc) : iarr * bool :=
  if k <? MAXIDX then match a with ID da => d_defineIdx da k d | IS s => sp_defineIdx s k d end
  else let '(b, r) := b_define (i_base a) k d in (i_with_base a b, r).
Definition i_delete (a : iarr) (k : N) : iarr * bool :=
  if k <? MAXIDX then
    match a with
    | ID d => let '(d', r) := d_deleteIdx d k in (ID d', r)
    | IS s => let '(s', r) := sp_deleteIdx s k in (IS s', r)
    end
  else let '(b, r) := b_delete (i_base a) k in (i_with_base a b, r).

Definition i_setLength (a : iarr) (l : N) : iarr * bool :=
  match a with
  | ID d => let '(d', r) := d_setLength d l in (ID d', r)
  | IS s => let '(s', r) := sp_setLength s l in (IS s', r)
  end.

(* setOwnStr("length", v) : [[Writable]] first (85f74d9), then toLengthUint32 (RangeError), then setLength *)
Definition i_setlen (a : iarr) (n : N) : iarr * N :=
  if negb (i_lw a) then (a, 1) else
  if 4294967295 <? n then (a, 2) else let '(a', ok) := i_setLength a n in (a', berr ok).

(* Runtime.defineArrayLength (array.go:381) *)
Definition i_define_length (a : iarr) (v : option lenarg) (d : pdesc) : iarr * N :=
  match v with
  | Some LInvalid => (a, 2)
  | _ =>
      if is_true (d_cf d) || is_true (d_en d) || isSome (d_get d) || isSome (d_set d) then (a, 1) else
      let '(a1, ret) :=
        match v with
        | Some (LValid n) => if n =? i_len a then (a, true) else i_setLength a n
        | _ => (a, true)
        end in
      match d_wr d with
      | None => (a1, berr ret)
      | Some w => if i_lw a1 then (i_with_lw a1 w, berr ret)
                  else if w then (a1, 1) else (a1, berr ret)
      end
  end.

(* Object.preventExtensions / seal / freeze (builtin_object.go:259-310): valueProperties are updated in place,
   bare values are redefined through defineOwnProperty (which bumps the counters) *)
Definition i_prevent (a : iarr) : iarr :=
  let b := i_base a in i_with_base a (mkB false (b_ot b) (b_proto b)).

Definition frz_iv (frozen : bool) (p : vprop) : vprop :=
  mkVP (vp_value p) (if frozen && negb (vp_acc p) then false else vp_w p) (vp_e p) false (vp_acc p) (vp_get p) (vp_set p).

Fixpoint i_integrity_keys (frozen : bool) (keys : list N) (a : iarr) : iarr :=
  match keys with
  | [] => a
  | k :: r =>
      let a' :=
        match i_getown_iv a k with
        | Some (IProp p) =>
            let x := IProp (frz_iv frozen p) in
            if k <? MAXIDX then
              match a with
              | ID d => ID (d_put d k (Some x))
              | IS s => IS (sp_put s k x)
              end
            else let b := i_base a in i_with_base a (mkB (b_ext b) (oput (b_ot b) k x) (b_proto b))
        | Some (IPlain _) => fst (i_define a k (if frozen then d_frz else d_seal))
        | None => a
        end in
      i_integrity_keys frozen r a'
  end.

Definition i_idx_keys (a : iarr) : list N :=
  match a with ID d => map fst (enum_from (da_values d) 0) | IS s => map fst (sa_items s) end.

Definition i_integrity (frozen : bool) (a : iarr) : iarr :=
  let a := i_prevent a in
  let a := i_integrity_keys frozen (i_idx_keys a ++ map fst (b_ot (i_base a))) a in
  if frozen then i_with_lw a false else a.

(* arrayObject.export (array.go:495) and sparseArrayObject.export (array_sparse.go:432): one slot per
   index below length; None = Go nil *)
Definition ex_proto (pr : list (N * element)) (i : N) : option val :=
  match alookup pr i with Some e => Some (el_getv e) | None => None end.
Fixpoint seqN (from : N) (n : nat) : list N :=
  match n with O => [] | S n' => from :: seqN (from + 1) n' end.

Definition s_export (a : sarr) : list (option val) :=
  map (fun i => match s_getown a i with Some e => Some (el_getv e) | None => ex_proto (s_proto a) i end)
      (seqN 0 (N.to_nat (s_len a))).

Definition d_export (a : darr) : list (option val) :=
  if (da_pvc a =? 0)%Z && (da_length a =? nlen (da_values a)) && (da_objCount a =? Z.of_N (da_length a))%Z
  then map (fun x => match x with Some v => Some (iv_getv v) | None => None end) (da_values a)
  else map (fun i => match dnth (da_values a) i with Some x => Some (iv_getv x)
                                               | None => ex_proto (b_proto (da_base a)) i end)
           (seqN 0 (N.to_nat (da_length a))).
Definition sp_export (s : sparr) : list (option val) :=
  map (fun i => match alookup (sa_items s) i with Some x => Some (iv_getv x)
                                             | None => ex_proto (b_proto (sa_base s)) i end)
      (seqN 0 (N.to_nat (sa_length s))).
Definition i_export (a : iarr) := match a with ID d => d_export d | IS s => sp_export s end.

(* the counters as they should be *)
Definition count_vp (vs : list (option ival)) : Z :=
  Z.of_nat (length (filter (fun x => match x with Some (IProp _) => true | _ => false end) vs)).
Definition count_vp_items (l : list (N * ival)) : Z :=
  Z.of_nat (length (filter (fun p => is_vp (snd p)) l)).

(* ------------------------------------------------------------------------------------------- *)
(* Array.prototype algorithms (23.1.3) over primitive operations *)

Record prims (A : Type) := mkP {
  p_len : A -> N;                      (* LengthOfArrayLike *)
  p_get : A -> N -> val;               (* [[Get]] *)
  p_has : A -> N -> bool;              (* [[HasProperty]] *)
  p_set : A -> N -> val -> A * bool;   (* [[Set]] *)
  p_del : A -> N -> A * bool;          (* [[Delete]] *)
  p_setlen : A -> N -> A * N           (* Set(O,"length",n,true): error code *)
}.

Arguments p_len {A}. Arguments p_get {A}. Arguments p_has {A}. Arguments p_set {A}.
Arguments p_del {A}. Arguments p_setlen {A}.

Inductive result := RU | RV (n : N) | RB (b : bool) | RNone | RErr (e : N) | RA (l : list (option N)).
Arguments RV _%N.  Arguments RErr _%N.

Section Algo.
Context {A : Type} (P : prims A).

Definition setT (a : A) (k : N) (v : val) : A * N := let '(a', b) := p_set P a k v in (a', berr b).
Definition delT (a : A) (k : N) : A * N := let '(a', b) := p_del P a k in (a', berr b).

(* move one element: if HasProperty(from) then Set(to, Get(from)) else DeletePropertyOrThrow(to) *)
Definition move1 (a : A) (from to : N) : A * N :=
  if p_has P a from then setT a to (p_get P a from) else delT a to.

(* run [f k] for [n] steps with k going up (or down) from [k]; stop at the first error *)
Fixpoint loop (n : nat) (up : bool) (f : A -> N -> A * N) (a : A) (k : N) : A * N :=
  match n with
  | O => (a, 0)
  | S n' => let '(a', e) := f a k in
            if e =? 0 then loop n' up f a' (if up then k + 1 else k - 1) else (a', e)
  end.

Definition fin (r : A * N) (ok : A -> A * result) : A * result :=
  let '(a, e) := r in if e =? 0 then ok a else (a, RErr e).

Fixpoint set_items (a : A) (k : N) (items : list val) : A * N :=
  match items with
  | [] => (a, 0)
  | v :: r => let '(a', e) := setT a k v in if e =? 0 then set_items a' (k + 1) r else (a', e)
  end.

Definition a_push (a : A) (items : list val) : A * result :=
  let len := p_len P a in
  let n := len + nlen items in
  if MAXLEN53 <? n then (a, RErr 1) else
  fin (set_items a len items) (fun a => fin (p_setlen P a n) (fun a => (a, RV n))).

Definition a_pop (a : A) : A * result :=
  let len := p_len P a in
  if len =? 0 then fin (p_setlen P a 0) (fun a => (a, RV vundef))
  else let v := p_get P a (len - 1) in
       fin (delT a (len - 1)) (fun a => fin (p_setlen P a (len - 1)) (fun a => (a, RV v))).

Definition a_shift (a : A) : A * result :=
  let len := p_len P a in
  if len =? 0 then fin (p_setlen P a 0) (fun a => (a, RV vundef))
  else let first := p_get P a 0 in
       fin (loop (N.to_nat (len - 1)) true (fun a k => move1 a k (k - 1)) a 1)
           (fun a => fin (delT a (len - 1)) (fun a => fin (p_setlen P a (len - 1)) (fun a => (a, RV first)))).

Definition a_unshift (a : A) (items : list val) : A * result :=
  let len := p_len P a in
  let c := nlen items in
  if c =? 0 then fin (p_setlen P a len) (fun a => (a, RV len)) else
  if MAXLEN53 <? len + c then (a, RErr 1) else
  fin (loop (N.to_nat len) false (fun a k => move1 a (k - 1) (k + c - 1)) a len)
      (fun a => fin (set_items a 0 items) (fun a => fin (p_setlen P a (len + c)) (fun a => (a, RV (len + c))))).

Definition a_reverse (a : A) : A * result :=
  let len := p_len P a in
  let step (a : A) (lower : N) : A * N :=
    let upper := len - lower - 1 in
    let le := p_has P a lower in let lv := p_get P a lower in
    let ue := p_has P a upper in let uv := p_get P a upper in
    if le && ue then let '(a1, e) := setT a lower uv in if e =? 0 then setT a1 upper lv else (a1, e)
    else if ue then let '(a1, e) := setT a lower uv in if e =? 0 then delT a1 upper else (a1, e)
    else if le then let '(a1, e) := delT a lower in if e =? 0 then setT a1 upper lv else (a1, e)
    else (a, 0) in
  fin (loop (N.to_nat (len / 2)) true step a 0) (fun a => (a, RU)).

(* relative index (ToIntegerOrInfinity already applied): clamp into [0, len] *)
Definition rel (z : Z) (len : N) : N :=
  if (z <? 0)%Z then Z.to_N (Z.max (Z.of_N len + z) 0) else N.min (Z.to_N z) len.
Definition rel_end (z : option Z) (len : N) : N := match z with None => len | Some z => rel z len end.

Definition a_fill (a : A) (v : val) (st : Z) (en : option Z) : A * result :=
  let len := p_len P a in
  let k := rel st len in let final := rel_end en len in
  fin (loop (N.to_nat (final - k)) true (fun a k => setT a k v) a k) (fun a => (a, RU)).

Definition a_copyWithin (a : A) (target start : Z) (en : option Z) : A * result :=
  let len := p_len P a in
  let to := rel target len in let from := rel start len in let final := rel_end en len in
  let count := N.min (final - from) (len - to) in
  if (from <? to) && (to <? from + count) then
    fin (loop (N.to_nat count) false (fun a k => move1 a (from + k) (to + k)) a (count - 1)) (fun a => (a, RU))
  else
    fin (loop (N.to_nat count) true (fun a k => move1 a (from + k) (to + k)) a 0) (fun a => (a, RU)).

Definition a_indexOf (a : A) (x : val) (from : Z) : result :=
  let len := p_len P a in
  if len =? 0 then RNone else
  let n := if (from <? 0)%Z then Z.to_N (Z.max (Z.of_N len + from) 0) else Z.to_N from in
  match find (fun k => p_has P a k && (p_get P a k =? x)) (seqN n (N.to_nat (len - n))) with
  | Some k => RV k | None => RNone end.

Definition a_includes (a : A) (x : val) (from : Z) : result :=
  let len := p_len P a in
  if len =? 0 then RB false else
  let n := if (from <? 0)%Z then Z.to_N (Z.max (Z.of_N len + from) 0) else Z.to_N from in
  RB (existsb (fun k => p_get P a k =? x) (seqN n (N.to_nat (len - n)))).

Definition view (a : A) (from : N) (n : nat) : list (option val) :=
  map (fun k => if p_has P a k then Some (p_get P a k) else None) (seqN from n).

Definition a_slice (a : A) (st : Z) (en : option Z) : result :=
  let len := p_len P a in
  let k := rel st len in let final := rel_end en len in
  RA (view a k (N.to_nat (final - k))).

(* concat with the receiver first, then items: a plain value or a (fresh, ordinary) array given as its view *)
Definition a_concat (a : A) (items : list (val + list (option val))) : result :=
  RA (view a 0 (N.to_nat (p_len P a)) ++
      flat_map (fun it => match it with inl v => [Some v] | inr l => l end) items).

Definition a_splice (a : A) (st : Z) (dc : option Z) (items : list val) : A * result :=
  let len := p_len P a in
  let start := rel st len in
  let del := match dc with None => len - start | Some z => N.min (Z.to_N (Z.max z 0)) (len - start) end in
  let ic := nlen items in
  if MAXLEN53 <? len + ic - del then (a, RErr 1) else
  let removed := view a start (N.to_nat del) in
  let r1 :=
    if ic <? del then
      let '(a1, e) := loop (N.to_nat (len - del - start)) true (fun a k => move1 a (k + del) (k + ic)) a start in
      if e =? 0 then loop (N.to_nat (del - ic)) false (fun a k => delT a (k - 1)) a1 len else (a1, e)
    else if del <? ic then
      loop (N.to_nat (len - del - start)) false (fun a k => move1 a (k + del - 1) (k + ic - 1)) a (len - del)
    else (a, 0) in
  fin r1 (fun a => fin (set_items a start items)
                       (fun a => fin (p_setlen P a (len - del + ic)) (fun a => (a, RA removed)))).

(* 23.1.3.30: SortIndexedProperties with holes skipped, SortCompare (undefined last), a stable merge/insertion
   sort as the reference order, write back and delete the rest *)
Definition sort_le (cmp : val -> val -> Z) (x y : val) : bool :=
  if x =? vundef then (y =? vundef) else if y =? vundef then true else (cmp x y <=? 0)%Z.
Fixpoint insert_sorted (le : val -> val -> bool) (x : val) (l : list val) : list val :=
  match l with
  | [] => [x]
  | y :: r => if le y x then y :: insert_sorted le x r else x :: l
  end.
(* stable: elements are inserted left to right, each one after every element that is <= it *)
Definition isort (le : val -> val -> bool) (l : list val) : list val :=
  fold_left (fun acc x => insert_sorted le x acc) l [].

Definition a_sort_with (a : A) (sorted : list val) : A * result :=
  let len := p_len P a in
  let cnt := nlen sorted in
  fin (set_items a 0 sorted)
      (fun a => fin (loop (N.to_nat (len - cnt)) true (fun a k => delT a k) a cnt) (fun a => (a, RU))).

Definition collect (a : A) : list val :=
  flat_map (fun k => if p_has P a k then [p_get P a k] else []) (seqN 0 (N.to_nat (p_len P a))).

Definition a_sort (a : A) (cmp : val -> val -> Z) : A * result :=
  a_sort_with a (isort (sort_le cmp) (collect a)).

End Algo.

Definition primS : prims sarr := mkP sarr s_len s_get s_has s_set s_delete s_setlen.
Definition primI : prims iarr := mkP iarr i_len i_get i_has i_set i_delete i_setlen.

(* ------------------------------------------------------------------------------------------- *)
(* I : the fast paths of builtin_array.go, taken when checkStdArrayObj (builtin_array.go:1423) holds.
   (checkStdArrayObjWithProto never holds: Array.prototype is a templatedObject, so shift/unshift/slice
   always run the generic code.) *)
Definition d_guard (d : darr) : bool :=
  (da_pvc d =? 0)%Z && (da_length d =? nlen (da_values d)) && (da_objCount d =? Z.of_N (da_length d))%Z.
Definition d_with_values (d : darr) vs :=
  mkDA vs (da_length d) (da_objCount d) (da_pvc d) (da_lw d) (da_base d).
Definition d_with_length (d : darr) l :=
  mkDA (da_values d) l (da_objCount d) (da_pvc d) (da_lw d) (da_base d).

(* arrayproto_pop (builtin_array.go:130): no guard, bails out on a hole or a valueProperty *)
Definition i_pop (a : iarr) : iarr * result :=
  match a with
  | ID d =>
      let l := da_length d in
      if l =? 0 then (if da_lw d then (a, RV vundef) else (a, RErr 1)) else
      match dnth (da_values d) (l - 1) with
      | Some (IPlain v) =>
          let d1 := d_cnt (d_with_values d (firstn (N.to_nat (l - 1)) (da_values d))) (-1) 0 in
          if da_lw d then (ID (d_with_length d1 (l - 1)), RV v) else (ID d1, RErr 1)
      | _ => a_pop primI a
      end
  | _ => a_pop primI a
  end.

Definition i_reverse (a : iarr) : iarr * result :=
  match a with
  | ID d => if d_guard d then (ID (d_with_values d (rev (da_values d))), RU) else a_reverse primI a
  | _ => a_reverse primI a
  end.

Fixpoint lfill {A} (l : list A) (from n : nat) (x : A) : list A :=
  match l with
  | [] => []
  | y :: r => match from with
              | S f => y :: lfill r f n x
              | O => match n with O => l | S n' => x :: lfill r O n' x end
              end
  end.
Definition i_fill (a : iarr) (v : val) (st : Z) (en : option Z) : iarr * result :=
  match a with
  | ID d => if d_guard d then
              let len := da_length d in
              let k := rel st len in let final := rel_end en len in
              (ID (d_with_values d (lfill (da_values d) (N.to_nat k) (N.to_nat (final - k)) (Some (IPlain v)))), RU)
            else a_fill primI a v st en
  | _ => a_fill primI a v st en
  end.

Definition i_copyWithin (a : iarr) (target start : Z) (en : option Z) : iarr * result :=
  match a with
  | ID d => if d_guard d then
              let len := da_length d in let vs := da_values d in
              let to := rel target len in let from := rel start len in let final := rel_end en len in
              let count := N.min (final - from) (len - to) in
              if 0 <? count then
                (ID (d_with_values d (firstn (N.to_nat to) vs ++ firstn (N.to_nat count) (skipn (N.to_nat from) vs)
                                      ++ skipn (N.to_nat (to + count)) vs)), RU)
              else (a, RU)
            else a_copyWithin primI a target start en
  | _ => a_copyWithin primI a target start en
  end.

Fixpoint find_from (vs : list (option ival)) (i : N) (x : val) : option N :=
  match vs with
  | [] => None
  | Some (IPlain y) :: r => if y =? x then Some i else find_from r (i + 1) x
  | _ :: r => find_from r (i + 1) x
  end.
Definition i_indexOf (a : iarr) (x : val) (from : Z) : result :=
  match a with
  | ID d => if d_guard d then
              let len := da_length d in
              if len =? 0 then RNone else
              if (Z.of_N len <=? from)%Z then RNone else
              let n := if (from <? 0)%Z then Z.to_N (Z.max (Z.of_N len + from) 0) else Z.to_N from in
              match find_from (skipn (N.to_nat n) (da_values d)) n x with Some k => RV k | None => RNone end
            else a_indexOf primI a x from
  | _ => a_indexOf primI a x from
  end.
Definition i_includes (a : iarr) (x : val) (from : Z) : result :=
  match a with
  | ID d => if d_guard d then
              let len := da_length d in
              if len =? 0 then RB false else
              if (Z.of_N len <=? from)%Z then RB false else
              let n := if (from <? 0)%Z then Z.to_N (Z.max (Z.of_N len + from) 0) else Z.to_N from in
              RB (isSome (find_from (skipn (N.to_nat n) (da_values d)) n x))
            else a_includes primI a x from
  | _ => a_includes primI a x from
  end.

(* sort.Stable over the slots with sortCompare (builtin_array.go:1763): nil slots last, undefined before them *)
Definition plains (vs : list (option ival)) : list val :=
  flat_map (fun x => match x with Some y => [iv_getv y] | None => [] end) vs.
Definition i_sort_with (a : iarr) (sorted : list val) : iarr * result :=
  match a with
  | ID d => if d_guard d then
              (ID (d_with_values d (map (fun v => Some (IPlain v)) sorted ++
                                    repeat None (length (da_values d) - length sorted))), RU)
            else a_sort_with primI a sorted
  | _ => a_sort_with primI a sorted
  end.
Definition i_sort (a : iarr) (cmp : val -> val -> Z) : iarr * result :=
  match a with
  | ID d => if d_guard d then i_sort_with a (isort (sort_le cmp) (plains (da_values d))) else a_sort primI a cmp
  | _ => a_sort primI a cmp
  end.

(* arrayproto_splice (builtin_array.go:431), source fast path (growing only with a writable length, an extensible
   array and no index property on the prototype chain: c575eac, bbc0a30); the result array is filled with
   createDataPropertyOrThrow, which turns a nil slot into a present undefined *)
Definition i_splice (a : iarr) (st : Z) (dc : option Z) (items : list val) : iarr * result :=
  match a with
  | ID d => let len0 := da_length d in
            let start0 := rel st len0 in
            let del0 := match dc with None => len0 - start0 | Some z => N.min (Z.to_N (Z.max z 0)) (len0 - start0) end in
            if d_guard d && ((len0 - del0 + nlen items <=? len0) ||
                            (da_lw d && b_ext (da_base d) && match b_proto (da_base d) with [] => true | _ => false end)) then
              let len := da_length d in let vs := da_values d in
              let start := rel st len in
              let del := match dc with None => len - start | Some z => N.min (Z.to_N (Z.max z 0)) (len - start) end in
              let ic := nlen items in
              let removed := map (fun x => match x with Some y => Some (iv_getv y) | None => Some vundef end)
                                 (firstn (N.to_nat del) (skipn (N.to_nat start) vs)) in
              let vs' := firstn (N.to_nat start) vs ++ map (fun v => Some (IPlain v)) items
                         ++ skipn (N.to_nat (start + del)) vs in
              let d1 := mkDA vs' (da_length d) (Z.of_N (nlen vs')) (da_pvc d) (da_lw d) (da_base d) in
              let '(a2, e) := i_setlen (ID d1) (len - del + ic) in
              if e =? 0 then (a2, RA removed) else (a2, RErr e)
            else a_splice primI a st dc items
  | _ => a_splice primI a st dc items
  end.

(* ------------------------------------------------------------------------------------------- *)
(* the verified sort validator (see Proofs.v: check_sort_sound) *)

Fixpoint remove1 (x : val) (l : list val) : option (list val) :=
  match l with
  | [] => None
  | y :: r => if x =? y then Some r else match remove1 x r with Some r' => Some (y :: r') | None => None end
  end.
Fixpoint perm_check (i o : list val) : bool :=
  match i with
  | [] => match o with [] => true | _ => false end
  | x :: r => match remove1 x o with Some o' => perm_check r o' | None => false end
  end.
Fixpoint list_eqb (a b : list val) : bool :=
  match a, b with [] , [] => true | x :: r, y :: s => (x =? y) && list_eqb r s | _, _ => false end.

Definition cle (cmp : val -> val -> Z) (x y : val) : bool := (cmp x y <=? 0)%Z.
Definition ceq (cmp : val -> val -> Z) (x y : val) : bool := (cmp x y =? 0)%Z.

Fixpoint strongly_sortedb (cmp : val -> val -> Z) (l : list val) : bool :=
  match l with [] => true | x :: r => forallb (cle cmp x) r && strongly_sortedb cmp r end.
Definition stableb (cmp : val -> val -> Z) (i o : list val) : bool :=
  forallb (fun a => list_eqb (filter (ceq cmp a) o) (filter (ceq cmp a) i)) i.

(* the comparator answers behave as a total preorder on the elements of [l] *)
Definition consistentb (cmp : val -> val -> Z) (l : list val) : bool :=
  forallb (fun a => ceq cmp a a &&
    forallb (fun b => (Bool.eqb (cmp a b <? 0)%Z (0 <? cmp b a)%Z) && (Bool.eqb (ceq cmp a b) (ceq cmp b a)) &&
      forallb (fun c => (negb (cle cmp a b && cle cmp b c) || cle cmp a c)) l) l) l.

Definition check_sort (cmp : val -> val -> Z) (i o : list val) : bool :=
  perm_check i o && (negb (consistentb cmp i) || (strongly_sortedb cmp o && stableb cmp i o)).

(* the array-level check of 23.1.3.30: defined values first (validated by [check_sort]), then the undefineds,
   then the holes *)
Definition defined_of (l : list (option val)) : list val :=
  flat_map (fun x => match x with Some v => if v =? vundef then [] else [v] | None => [] end) l.
Definition count_undef (l : list (option val)) : nat :=
  length (filter (fun x => match x with Some v => v =? vundef | None => false end) l).
Definition count_holes (l : list (option val)) : nat :=
  length (filter (fun x => match x with None => true | _ => false end) l).
Fixpoint olist_eqb (a b : list (option val)) : bool :=
  match a, b with
  | [], [] => true
  | Some x :: r, Some y :: s => (x =? y) && olist_eqb r s
  | None :: r, None :: s => olist_eqb r s
  | _, _ => false
  end.
Definition check_sort_array (cmp : val -> val -> Z) (i o : list (option val)) : bool :=
  olist_eqb o (map Some (defined_of o) ++ repeat (Some vundef) (count_undef i) ++ repeat None (count_holes i))
  && check_sort cmp (defined_of i) (defined_of o).
