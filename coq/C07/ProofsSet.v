(* C07 — indexed write ([[Set]] with the array as receiver): both storages refine S, through every storage
   transition, and keep their invariant. No axioms. *)
From Coq Require Import List NArith ZArith Bool Lia.
Import ListNotations.
From Verif.C07 Require Import Model Proofs ProofsLib ProofsLen ProofsOps.
Local Open Scope N_scope.

Lemma ains_same {A} (l : list (N * A)) : forall lo k x, ascg lo l -> alookup l k = Some x -> ains l k x = l.
Proof.
  induction l as [|[j y] r IH]; intros lo k x Ha H; simpl in *; [discriminate|].
  apply ascg_inv in Ha. destruct Ha as [Hlo Hr]. destruct (N.eqb_spec j k).
  - subst. inversion H; subst. destruct (N.ltb_spec k k); [lia|]. rewrite N.eqb_refl. auto.
  - pose proof (alookup_in _ _ _ _ Hr H) as Hin. pose proof (ascg_keys _ _ _ _ Hr Hin).
    destruct (N.ltb_spec k j); [lia|]. destruct (N.eqb_spec k j); [lia|]. f_equal. eapply IH; eauto.
Qed.

Section S.
Variables (len : N) (lw : bool) (items : list (N * ival)) (ot : list (N * element)) (ext : bool)
          (pr : list (N * element)) (k : N) (v : val).
Let a := mkS true len lw (absL items) ot ext pr.
Hypothesis Hk : k < MAXIDX.

(* a write to a hole *)
Lemma s_set_new : alookup items k = None ->
  s_set a k v =
    match proto_set_foreign pr k with
    | Some r => (a, r)
    | None => if negb ext || ((len <=? k) && negb lw) then (a, false)
              else (mkS true (if len <=? k then k + 1 else len) lw (ains (absL items) k (EData v true true true))
                        ot ext pr, true)
    end.
Proof.
  intros Hn. unfold s_set, s_getown, proto_set_foreign. subst a. simpl.
  apply N.ltb_lt in Hk. rewrite Hk. apply N.ltb_lt in Hk. rewrite alookup_absL, Hn. simpl.
  assert (Hd : s_define (mkS true len lw (absL items) ot ext pr) k (dnew v) =
               if negb ext || ((len <=? k) && negb lw) then (mkS true len lw (absL items) ot ext pr, false)
               else (mkS true (if len <=? k then k + 1 else len) lw
                         (ains (absL items) k (EData v true true true)) ot ext pr, true)).
  { rewrite s_define_idx by auto. rewrite Hn. simpl.
    destruct ext, ((len <=? k) && negb lw); simpl; auto. }
  destruct (alookup pr k) as [[x w e c|g s e c]|]; auto. destruct w; auto.
Qed.

(* a write to an existing element *)
Lemma s_set_plain w : ascg 0 items -> k < len -> alookup items k = Some (IPlain w) ->
  s_set a k v = (mkS true len lw (absL (ains items k (IPlain v))) ot ext pr, true).
Proof.
  intros Ha Hl Hn. unfold s_set, s_getown. subst a. simpl.
  apply N.ltb_lt in Hk. rewrite Hk. apply N.ltb_lt in Hk. rewrite alookup_absL, Hn. simpl.
  rewrite s_define_idx by auto. rewrite Hn. simpl.
  destruct (N.leb_spec len k); [lia|]. simpl. rewrite absL_ains. reflexivity.
Qed.

Lemma s_set_prop p : ascg 0 items -> k < len -> alookup items k = Some (IProp p) -> vp_clean p = true ->
  s_set a k v = (if vp_isWritable p
                 then mkS true len lw (absL (ains items k (IProp (vp_setv p v)))) ot ext pr else a,
                 vp_isWritable p) /\
  (vp_isWritable p = true -> vp_clean (vp_setv p v) = true).
Proof.
  intros Ha Hl Hn Hc. unfold s_set, s_getown. subst a. simpl.
  apply N.ltb_lt in Hk. rewrite Hk. apply N.ltb_lt in Hk. rewrite alookup_absL, Hn.
  destruct p as [pv pw pe pc pa pg ps]. unfold vp_clean in Hc. simpl in Hc.
  unfold vp_isWritable, vp_setv, vp_clean. simpl.
  destruct pa; simpl in *.
  - apply andb_true_iff in Hc. destruct Hc as [Hw Hv]. apply negb_true_iff in Hw. subst pw. simpl.
    destruct ps as [s|]; simpl; [|split; [auto|discriminate]].
    split; [|rewrite Hv; auto].
    rewrite (ains_same items 0 k _ Ha Hn). reflexivity.
  - apply andb_true_iff in Hc. destruct Hc as [Hg Hs].
    destruct pg; simpl in Hg; try discriminate. destruct ps; simpl in Hs; try discriminate.
    rewrite orb_false_r. destruct pw; simpl; [|split; [auto|discriminate]]. split; auto.
    rewrite s_define_idx by auto. rewrite Hn. simpl.
    destruct (N.leb_spec len k); [lia|]. simpl.
    destruct pc; simpl; rewrite absL_ains; reflexivity.
Qed.
End S.

(* ------------------------------------------------------------------------------------------- *)
Theorem sparse_set_refines s k v : InvSp s -> k < MAXIDX ->
  s_set (absS s) k v = (absA (fst (sp_setOwnIdx s k v)), snd (sp_setOwnIdx s k v)) /\
  InvA (fst (sp_setOwnIdx s k v)).
Proof.
  intros Hinv Hk. pose proof Hinv as (Hasc & Hkeys & Hclean & Hcnt).
  set (items := sa_items s) in *.
  unfold absS. fold items. unfold sp_setOwnIdx. fold items.
  destruct (alookup items k) as [[w|p]|] eqn:Eold.
  - (* bare value *)
    pose proof (alookup_in _ _ _ _ Hasc Eold) as Hin. pose proof (Hkeys _ _ Hin) as Hl.
    rewrite (s_set_plain _ _ _ _ _ _ _ _ Hk w Hasc Hl Eold). simpl. split; [reflexivity|].
    unfold InvSp. simpl. apply (items_put items (sa_length s) (sa_pvc s)); auto; [lia|].
    fold items. rewrite Eold. unfold ovpz, vpz. simpl. lia.
  - pose proof (alookup_in _ _ _ _ Hasc Eold) as Hin. pose proof (Hkeys _ _ Hin) as Hl.
    pose proof (Hclean _ _ Hin) as Hc. simpl in Hc.
    destruct (s_set_prop (sa_length s) (sa_lw s) items (absL (b_ot (sa_base s))) (b_ext (sa_base s))
                (b_proto (sa_base s)) k v Hk p Hasc Hl Eold Hc) as [HS Hc']. rewrite HS.
    destruct (vp_isWritable p); simpl; split; auto.
    unfold InvSp. simpl.
    apply (items_put items (sa_length s) (sa_pvc s));
      [exact Hinv | lia | exact Hl | simpl; apply Hc'; reflexivity |].
    fold items. rewrite Eold. unfold ovpz, vpz. simpl. lia.
  - rewrite (s_set_new _ _ _ _ _ _ _ _ Hk Eold). simpl b_proto.
    destruct (proto_set_foreign (b_proto (sa_base s)) k) as [r|]; [simpl; split; auto|].
    destruct (b_ext (sa_base s)) eqn:Eext; simpl negb; simpl orb;
      [|simpl; unfold absS; fold items; rewrite Eext; split; auto].
    assert (Hstep : exists s1,
       (if sa_length s <=? k then sp_setLengthInt_chk s (k + 1) else (s, true)) =
          (s1, negb ((sa_length s <=? k) && negb (sa_lw s))) /\
       ((sa_length s <=? k) && negb (sa_lw s) = true -> s1 = s) /\
       ((sa_length s <=? k) && negb (sa_lw s) = false ->
          s1 = mkSA items (if sa_length s <=? k then k + 1 else sa_length s) (sa_pvc s) (sa_lw s) (sa_base s))).
    { destruct (N.leb_spec (sa_length s) k) as [Hl|Hl]; simpl.
      - destruct (sa_lw s) eqn:Ew; simpl.
        + rewrite sp_grow by auto. rewrite Ew. eexists; split; [reflexivity|]. split; [discriminate|auto].
        + unfold sp_setLengthInt_chk. destruct (N.eqb_spec (k + 1) (sa_length s)); [lia|]. rewrite Ew. simpl.
          eexists; split; [reflexivity|]. split; [auto|discriminate].
      - exists s. split; [reflexivity|]. split; [discriminate|]. intros _. destruct s; reflexivity. }
    destruct Hstep as (s1 & E1 & Hfail & Hok). rewrite E1. clear E1.
    destruct ((sa_length s <=? k) && negb (sa_lw s)) eqn:Eb; simpl.
    { rewrite (Hfail eq_refl). simpl. unfold absS. fold items. rewrite Eext. split; auto. }
    specialize (Hok eq_refl). clear Hfail.
    set (len' := if sa_length s <=? k then k + 1 else sa_length s) in *.
    assert (Hk' : k < len') by (unfold len'; destruct (N.leb_spec (sa_length s) k); lia).
    assert (Hll : sa_length s <= len') by (unfold len'; destruct (N.leb_spec (sa_length s) k); lia).
    destruct (sp_expand_cases s1 k) as [Ee|Ee]; rewrite Ee; simpl fst; simpl snd.
    + subst s1. split.
      * rewrite absA_form. simpl. rewrite Eext, absL_ains. reflexivity.
      * simpl. unfold InvSp. simpl. apply (items_put items (sa_length s) (sa_pvc s)); auto.
        rewrite Eold. unfold ovpz, vpz. simpl. lia.
    + subst s1. unfold expand_s2d. cbn [sa_items sa_length sa_pvc sa_lw sa_base].
      set (m := N.max k (last_key items)).
      match goal with |- context [d_put ?A k (Some (IPlain v))] => set (a := A) end.
      assert (Hvals : enum_from (da_values a) 0 = items).
      { subst a. simpl. apply enum_fill; [apply asc_ascg; auto|].
        intros j x Hin. pose proof (last_key_max _ _ _ _ Hasc Hin). lia. }
      assert (Hnl : nlen (da_values a) = m + 1).
      { subst a. simpl. unfold nlen. rewrite fill_len. lia. }
      assert (Hm : m < len').
      { unfold m. assert (last_key items < len') by (apply last_key_bound; [intros j x Hin; specialize (Hkeys _ _ Hin)|]; lia). lia. }
      destruct (d_put_items a k (IPlain v)) as [Hi Hn]; [rewrite Hnl; unfold m; lia|].
      rewrite Hvals in Hi.
      split.
      * rewrite absA_form. cbn [i_items]. rewrite Hi, absL_ains. subst a. simpl. rewrite Eext. reflexivity.
      * apply InvA_form.
        -- rewrite Hn, Hnl. subst a. simpl. lia.
        -- cbn [i_items]. rewrite Hi. subst a. simpl.
           apply (items_put items (sa_length s) (sa_pvc s)); auto.
           rewrite Eold. unfold ovpz, vpz. simpl. lia.
Qed.

(* ------------------------------------------------------------------------------------------- *)
Theorem dense_set_refines d k v : InvDn d -> k < MAXIDX ->
  s_set (absD d) k v = (absA (fst (d_setOwnIdx d k v)), snd (d_setOwnIdx d k v)) /\
  InvA (fst (d_setOwnIdx d k v)).
Proof.
  intros [Hlen Hinv] Hk. pose proof Hinv as (Hasc & Hkeys & Hclean & Hcnt).
  set (vs := da_values d) in *. set (items := enum_from vs 0) in *.
  assert (Hlook : alookup items k = dnth vs k) by (unfold items; apply enum_lookup_dnth).
  unfold absD. fold vs. fold items. unfold d_setOwnIdx. fold vs.
  destruct (dnth vs k) as [[w|p]|] eqn:Eold.
  - pose proof (alookup_in _ _ _ _ Hasc Hlook) as Hin. pose proof (Hkeys _ _ Hin) as Hl.
    pose proof (dnth_some_lt _ _ _ Eold) as Hlt.
    rewrite (s_set_plain _ _ _ _ _ _ _ _ Hk w Hasc Hl Hlook). simpl fst. simpl snd.
    destruct (d_put_items d k (IPlain v)) as [Hi Hn]; [exact Hlt|]. fold vs in Hi, Hn. fold items in Hi.
    split.
    + rewrite absA_form. cbn [i_items]. rewrite Hi. reflexivity.
    + apply InvA_form; [rewrite Hn; simpl; exact Hlen|].
      cbn [i_items]. rewrite Hi. simpl. apply (items_put items (da_length d) (da_pvc d)); auto; [lia|].
      rewrite Hlook. unfold ovpz, vpz. simpl. lia.
  - pose proof (alookup_in _ _ _ _ Hasc Hlook) as Hin. pose proof (Hkeys _ _ Hin) as Hl.
    pose proof (Hclean _ _ Hin) as Hc. simpl in Hc.
    pose proof (dnth_some_lt _ _ _ Eold) as Hlt.
    destruct (s_set_prop (da_length d) (da_lw d) items (absL (b_ot (da_base d))) (b_ext (da_base d))
                (b_proto (da_base d)) k v Hk p Hasc Hl Hlook Hc) as [HS Hc']. rewrite HS.
    destruct (vp_isWritable p); simpl fst; simpl snd; [|split; [reflexivity|split; auto]].
    destruct (d_put_items d k (IProp (vp_setv p v))) as [Hi Hn]; [exact Hlt|]. fold vs in Hi, Hn. fold items in Hi.
    split.
    + rewrite absA_form. cbn [i_items]. rewrite Hi. reflexivity.
    + apply InvA_form; [rewrite Hn; simpl; exact Hlen|].
      cbn [i_items]. rewrite Hi. simpl.
      apply (items_put items (da_length d) (da_pvc d));
        [exact Hinv | lia | exact Hl | simpl; apply Hc'; reflexivity |].
      rewrite Hlook. unfold ovpz, vpz. simpl. lia.
  - rewrite (s_set_new _ _ _ _ _ _ _ _ Hk Hlook). simpl b_proto.
    destruct (proto_set_foreign (b_proto (da_base d)) k) as [r|]; [simpl; split; [reflexivity|split; auto]|].
    destruct (b_ext (da_base d)) eqn:Eext; simpl negb; simpl orb;
      [|simpl; unfold absD; fold vs; fold items; rewrite Eext; split; [reflexivity|split; auto]].
    assert (Hstep : exists a1,
       (if da_length d <=? k then d_setLengthInt_chk d (k + 1) else (d, true)) =
          (a1, negb ((da_length d <=? k) && negb (da_lw d))) /\
       ((da_length d <=? k) && negb (da_lw d) = true -> a1 = d) /\
       ((da_length d <=? k) && negb (da_lw d) = false ->
          a1 = mkDA vs (if da_length d <=? k then k + 1 else da_length d) (da_objCount d) (da_pvc d) (da_lw d) (da_base d))).
    { destruct (N.leb_spec (da_length d) k) as [Hl|Hl]; simpl.
      - destruct (da_lw d) eqn:Ew; simpl.
        + rewrite d_grow by auto. rewrite Ew. eexists; split; [reflexivity|]. split; [discriminate|auto].
        + unfold d_setLengthInt_chk. destruct (N.eqb_spec (k + 1) (da_length d)); [lia|]. rewrite Ew. simpl.
          eexists; split; [reflexivity|]. split; [auto|discriminate].
      - exists d. split; [reflexivity|]. split; [discriminate|]. intros _. destruct d; reflexivity. }
    destruct Hstep as (a1 & E1 & Hfail & Hok). rewrite E1. clear E1.
    destruct ((da_length d <=? k) && negb (da_lw d)) eqn:Eb; simpl negb; cbv iota.
    { rewrite (Hfail eq_refl). simpl. unfold absD. fold vs. fold items. rewrite Eext. split; [reflexivity|split; auto]. }
    specialize (Hok eq_refl). clear Hfail.
    set (len' := if da_length d <=? k then k + 1 else da_length d) in *.
    assert (Hk' : k < len') by (unfold len'; destruct (N.leb_spec (da_length d) k); lia).
    assert (Hll : da_length d <= len') by (unfold len'; destruct (N.leb_spec (da_length d) k); lia).
    assert (Hfin : forall fin, i_items fin = ains items k (IPlain v) -> i_len fin = len' -> i_lw fin = da_lw d ->
                   i_base fin = da_base d -> i_pvcA fin = da_pvc d ->
                   (match fin with ID d0 => nlen (da_values d0) <= da_length d0 | IS _ => True end) ->
       (mkS true len' (da_lw d) (ains (absL items) k (EData v true true true)) (absL (b_ot (da_base d))) true
            (b_proto (da_base d)), true) = (absA fin, true) /\ InvA fin).
    { intros fin H1 H2 H3 H4 H5 H6. split.
      - rewrite absA_form, H1, H2, H3, H4, Eext, absL_ains. reflexivity.
      - apply InvA_form; auto. rewrite H1, H2, H5.
        apply (items_put items (da_length d) (da_pvc d)); auto.
        rewrite Hlook. unfold ovpz, vpz. simpl. lia. }
    assert (Hv1 : da_values a1 = vs) by (subst a1; reflexivity).
    rewrite Hv1.
    destruct (N.leb_spec (nlen vs) k) as [Hge|Hlt]; simpl fst; simpl snd.
    + destruct (d_expand_cases a1 k) as [[Hc Ee]|[[Hc Ee]|[Hc Ee]]]; rewrite Ee; rewrite Hv1 in *; simpl fst; simpl snd.
      * lia.
      * subst a1. apply Hfin; simpl; auto.
      * subst a1. unfold d_with_values. simpl da_values.
        set (vs' := vs ++ repeat None (N.to_nat (k + 1 - nlen vs))).
        assert (Hn' : nlen vs' = k + 1) by (apply nlen_grow; lia).
        match goal with |- context [d_put ?A k (Some (IPlain v))] => set (a2 := A) end.
        destruct (d_put_items a2 k (IPlain v)) as [Hi Hn]; [subst a2; simpl; lia|].
        assert (Ha2 : enum_from (da_values a2) 0 = items).
        { subst a2. simpl. unfold vs'. rewrite enum_grow. reflexivity. }
        rewrite Ha2 in Hi.
        apply Hfin; [cbn [i_items]; exact Hi | subst a2; reflexivity | subst a2; reflexivity | subst a2; reflexivity
                    | subst a2; simpl; lia | rewrite Hn; subst a2; simpl; lia].
    + match goal with |- context [d_put ?A k (Some (IPlain v))] => set (a2 := A) end.
      destruct (d_put_items a2 k (IPlain v)) as [Hi Hn]; [subst a2; simpl; rewrite Hv1; lia|].
      assert (Ha2 : enum_from (da_values a2) 0 = items) by (subst a2; simpl; rewrite Hv1; reflexivity).
      rewrite Ha2 in Hi.
      apply Hfin; [cbn [i_items]; exact Hi | subst a2 a1; reflexivity | subst a2 a1; reflexivity
                  | subst a2 a1; reflexivity | subst a2 a1; simpl; lia | rewrite Hn; subst a2 a1; simpl; lia].
Qed.
