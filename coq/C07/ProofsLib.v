(* C07 — library: sorted association lists, the index enumeration of the dense storage, counting. No axioms. *)
From Coq Require Import List NArith ZArith Bool Lia.
Import ListNotations.
From Verif.C07 Require Import Model Proofs.
Local Open Scope N_scope.

(* ------------------------------------------------------------------------------------------- *)
Section Gen.
Context {A : Type}.
Implicit Types l : list (N * A).

(* keys strictly ascending and >= lo *)
Inductive ascg : N -> list (N * A) -> Prop :=
| ascg_nil lo : ascg lo []
| ascg_cons lo k x r : lo <= k -> ascg (k + 1) r -> ascg lo ((k, x) :: r).

Lemma ascg_inv lo k x r : ascg lo ((k, x) :: r) -> lo <= k /\ ascg (k + 1) r.
Proof. intros H. inversion H; subst. auto. Qed.

Lemma ascg_weaken l : forall lo lo', lo' <= lo -> ascg lo l -> ascg lo' l.
Proof. destruct l as [|[k x] r]; intros lo lo' H Ha; inversion Ha; subst; constructor; auto; lia. Qed.

Lemma ascg_keys l : forall lo k x, ascg lo l -> In (k, x) l -> lo <= k.
Proof.
  induction l as [|[j y] r IH]; intros lo k x Ha Hin; [destruct Hin|].
  apply ascg_inv in Ha; destruct Ha as [Hlo Hr]. destruct Hin as [E|Hin]; [inversion E; subst; auto|].
  specialize (IH _ _ _ Hr Hin). lia.
Qed.

Lemma alookup_below l : forall lo k, ascg lo l -> k < lo -> alookup l k = None.
Proof.
  induction l as [|[j y] r IH]; intros lo k Ha Hk; simpl; auto.
  apply ascg_inv in Ha; destruct Ha as [Hlo Hr]. destruct (N.eqb_spec j k); [lia|]. eapply IH; eauto. lia.
Qed.

Lemma alookup_in l : forall lo k x, ascg lo l -> alookup l k = Some x -> In (k, x) l.
Proof.
  induction l as [|[j y] r IH]; intros lo k x Ha H; simpl in *; [discriminate|].
  apply ascg_inv in Ha; destruct Ha as [Hlo Hr]. destruct (N.eqb_spec j k).
  - inversion H; subst. auto.
  - right. eapply IH; eauto.
Qed.

Lemma in_alookup l : forall lo k x, ascg lo l -> In (k, x) l -> alookup l k = Some x.
Proof.
  induction l as [|[j y] r IH]; intros lo k x Ha Hin; [destruct Hin|].
  apply ascg_inv in Ha; destruct Ha as [Hlo Hr]. simpl. destruct Hin as [E|Hin].
  - inversion E; subst. rewrite N.eqb_refl. auto.
  - pose proof (ascg_keys _ _ _ _ Hr Hin). destruct (N.eqb_spec j k); [lia|]. eapply IH; eauto.
Qed.

Lemma ains_front l : forall lo k x, ascg lo l -> k < lo -> ains l k x = (k, x) :: l.
Proof.
  destruct l as [|[j y] r]; intros lo k x Ha Hk; simpl; auto.
  apply ascg_inv in Ha; destruct Ha as [Hlo Hr]. destruct (N.ltb_spec k j); [auto|lia].
Qed.

Lemma adel_absent l : forall lo k, ascg lo l -> k < lo -> adel l k = l.
Proof.
  induction l as [|[j y] r IH]; intros lo k Ha Hk; simpl; auto.
  apply ascg_inv in Ha; destruct Ha as [Hlo Hr]. destruct (N.eqb_spec j k); [lia|]. f_equal. eapply IH; eauto. lia.
Qed.

Lemma ains_asc l : forall lo k x, ascg lo l -> lo <= k -> ascg lo (ains l k x).
Proof.
  induction l as [|[j y] r IH]; intros lo k x Ha Hk; simpl.
  - constructor; auto. constructor.
  - apply ascg_inv in Ha; destruct Ha as [Hlo Hr]. destruct (N.ltb_spec k j).
    + constructor; auto. constructor; auto. lia.
    + destruct (N.eqb_spec k j).
      * subst. constructor; auto.
      * constructor; auto. apply IH; auto. lia.
Qed.

Lemma adel_asc l : forall lo k, ascg lo l -> ascg lo (adel l k).
Proof.
  induction l as [|[j y] r IH]; intros lo k Ha; simpl; auto.
  apply ascg_inv in Ha; destruct Ha as [Hlo Hr]. destruct (j =? k).
  - eapply ascg_weaken; [|eauto]. lia.
  - constructor; auto.
Qed.

Lemma acut_asc l : forall lo n, ascg lo l -> ascg lo (acut l n).
Proof.
  unfold acut. induction l as [|[j y] r IH]; intros lo n Ha; simpl; [constructor|].
  apply ascg_inv in Ha; destruct Ha as [Hlo Hr]. destruct (j <? n); simpl.
  - constructor; auto.
  - eapply ascg_weaken; [|eapply IH; eauto]. lia.
Qed.

Lemma acut_all l n : (forall k x, In (k, x) l -> k < n) -> acut l n = l.
Proof.
  unfold acut. induction l as [|[j y] r IH]; intros H; simpl; auto.
  assert (j < n) by (eapply H; left; eauto). apply N.ltb_lt in H0. rewrite H0. f_equal. apply IH.
  intros; eapply H; right; eauto.
Qed.

Lemma acut_none l n : (forall k x, In (k, x) l -> n <= k) -> acut l n = [].
Proof.
  unfold acut. induction l as [|[j y] r IH]; intros H; simpl; auto.
  assert (n <= j) by (eapply H; left; eauto). apply N.ltb_ge in H0. rewrite H0. apply IH.
  intros; eapply H; right; eauto.
Qed.

Lemma acut_app l1 l2 n : acut (l1 ++ l2) n = acut l1 n ++ acut l2 n.
Proof. unfold acut. apply filter_app. Qed.

Lemma acut_in l n k x : In (k, x) (acut l n) -> In (k, x) l /\ k < n.
Proof. unfold acut. intros H. apply filter_In in H. destruct H as [H1 H2]. simpl in H2. apply N.ltb_lt in H2. auto. Qed.

Lemma ains_in l : forall k x j y, In (j, y) (ains l k x) -> (j = k /\ y = x) \/ In (j, y) l.
Proof.
  induction l as [|[i z] r IH]; intros k x j y H; simpl in *.
  - destruct H as [E|[]]. inversion E; auto.
  - destruct (k <? i).
    + destruct H as [E|H]; [inversion E; auto|auto].
    + destruct (k =? i).
      * destruct H as [E|H]; [inversion E; auto|auto].
      * destruct H as [E|H]; [auto|]. apply IH in H. destruct H; auto.
Qed.

Lemma adel_in l : forall k j y, In (j, y) (adel l k) -> In (j, y) l.
Proof.
  induction l as [|[i z] r IH]; intros k j y H; simpl in *; auto.
  destruct (i =? k); auto. destruct H; auto. right. eapply IH; eauto.
Qed.

Lemma alookup_ains l : forall lo k x j, ascg lo l -> lo <= k ->
  alookup (ains l k x) j = if k =? j then Some x else alookup l j.
Proof.
  induction l as [|[i z] r IH]; intros lo k x j Ha Hk; simpl.
  - auto.
  - apply ascg_inv in Ha; destruct Ha as [Hlo Hr]. destruct (N.ltb_spec k i); simpl.
    + auto.
    + destruct (N.eqb_spec k i); simpl.
      * subst. destruct (N.eqb_spec i j); auto.
      * erewrite IH; eauto; [|lia]. destruct (N.eqb_spec i j); auto.
        subst. destruct (N.eqb_spec k j); [lia|auto].
Qed.

End Gen.

Lemma asc_ascg l : forall lo, asc lo l <-> ascg lo l.
Proof.
  induction l as [|[k x] r IH]; intros lo; split; intros H; inversion H; subst; constructor; auto; apply IH; auto.
Qed.

Lemma absL_asc l : forall lo, ascg lo l -> ascg lo (absL l).
Proof. induction l as [|[k x] r IH]; intros lo H; simpl; inversion H; subst; constructor; auto. Qed.

Lemma absL_in l k e : In (k, e) (absL l) -> exists x, In (k, x) l /\ e = absE x.
Proof.
  unfold absL. intros H. apply in_map_iff in H. destruct H as [[j x] [E Hin]]. simpl in E. inversion E; subst. eauto.
Qed.

Lemma absL_app a b : absL (a ++ b) = absL a ++ absL b.
Proof. unfold absL. apply map_app. Qed.

Lemma absL_rev a : absL (rev a) = rev (absL a).
Proof. unfold absL. apply map_rev. Qed.

(* ------------------------------------------------------------------------------------------- *)
(* counting valueProperties *)

Definition vpz (x : ival) : Z := if is_vp x then 1%Z else 0%Z.
Definition ovpz (o : option ival) : Z := match o with Some x => vpz x | None => 0%Z end.

Lemma cnt_nil : count_vp_items [] = 0%Z. Proof. reflexivity. Qed.
Lemma cnt_cons k x r : count_vp_items ((k, x) :: r) = (vpz x + count_vp_items r)%Z.
Proof. unfold count_vp_items, vpz. cbn [filter snd]. destruct (is_vp x); [cbn [length]; rewrite Nat2Z.inj_succ|]; lia. Qed.
Lemma cnt_app a b : count_vp_items (a ++ b) = (count_vp_items a + count_vp_items b)%Z.
Proof. induction a as [|[k x] r IH]; [rewrite cnt_nil; simpl; lia|]. simpl. rewrite !cnt_cons, IH. lia. Qed.
Lemma cnt_nonneg l : (0 <= count_vp_items l)%Z.
Proof. unfold count_vp_items. lia. Qed.

Lemma cnt_ains l : forall lo k x, ascg lo l -> lo <= k ->
  count_vp_items (ains l k x) = (count_vp_items l - ovpz (alookup l k) + vpz x)%Z.
Proof.
  induction l as [|[j y] r IH]; intros lo k x Ha Hk; simpl.
  - rewrite cnt_cons, cnt_nil. simpl. lia.
  - apply ascg_inv in Ha; destruct Ha as [Hlo Hr]. destruct (N.ltb_spec k j).
    + destruct (N.eqb_spec j k); [lia|]. rewrite !cnt_cons.
      rewrite (alookup_below _ _ _ Hr) by lia. simpl. lia.
    + destruct (N.eqb_spec k j).
      * subst. rewrite N.eqb_refl. rewrite !cnt_cons. simpl. lia.
      * destruct (N.eqb_spec j k); [lia|]. rewrite !cnt_cons. erewrite IH; eauto; lia.
Qed.

Lemma cnt_adel l : forall lo k, ascg lo l ->
  count_vp_items (adel l k) = (count_vp_items l - ovpz (alookup l k))%Z.
Proof.
  induction l as [|[j y] r IH]; intros lo k Ha; simpl.
  - rewrite cnt_nil. simpl. lia.
  - apply ascg_inv in Ha; destruct Ha as [Hlo Hr]. destruct (N.eqb_spec j k).
    + rewrite cnt_cons. simpl. lia.
    + rewrite !cnt_cons. erewrite IH; eauto. lia.
Qed.

Lemma cnt_zero_conf l : count_vp_items l = 0%Z -> forall k x, In (k, x) l -> is_vp x = false.
Proof.
  induction l as [|[j y] r IH]; intros H k x Hin; [destruct Hin|].
  rewrite cnt_cons in H. pose proof (cnt_nonneg r). unfold vpz in H.
  destruct Hin as [E|Hin].
  - inversion E; subst. destruct (is_vp x); auto; lia.
  - eapply IH; eauto. destruct (is_vp y); lia.
Qed.

(* ------------------------------------------------------------------------------------------- *)
(* the enumeration of the dense slots *)

Lemma nlen_cons {A} (x : A) r : nlen (x :: r) = nlen r + 1.
Proof. unfold nlen. simpl length. lia. Qed.
Lemma nlen_app {A} (a b : list A) : nlen (a ++ b) = nlen a + nlen b.
Proof. unfold nlen. rewrite app_length. lia. Qed.

Lemma enum_asc vs : forall i, ascg i (enum_from vs i).
Proof.
  induction vs as [|[x|] r IH]; intros i; simpl; [constructor| |].
  - constructor; [lia|apply IH].
  - eapply ascg_weaken; [|apply IH]. lia.
Qed.

Lemma enum_bound vs : forall i k x, In (k, x) (enum_from vs i) -> i <= k /\ k < i + nlen vs.
Proof.
  induction vs as [|[y|] r IH]; intros i k x H; simpl in H; [destruct H| |].
  - rewrite nlen_cons. destruct H as [E|H]; [inversion E; subst; lia|]. apply IH in H. lia.
  - rewrite nlen_cons. apply IH in H. lia.
Qed.

Lemma enum_app a : forall b i, enum_from (a ++ b) i = enum_from a i ++ enum_from b (i + nlen a).
Proof.
  induction a as [|[x|] r IH]; intros b i; simpl.
  - unfold nlen; simpl. rewrite N.add_0_r. auto.
  - rewrite IH, nlen_cons. f_equal. f_equal. f_equal. lia.
  - rewrite IH, nlen_cons. f_equal. f_equal. lia.
Qed.

Lemma enum_nones m : forall i, enum_from (repeat None m) i = [].
Proof. induction m; intros i; simpl; auto. Qed.

Lemma enum_upd_some vs : forall n i x, (n < length vs)%nat ->
  enum_from (lupd vs n (Some x)) i = ains (enum_from vs i) (i + N.of_nat n) x.
Proof.
  induction vs as [|y r IH]; intros n i x Hn; simpl in Hn; [lia|].
  destruct n as [|n]; simpl lupd.
  - replace (i + N.of_nat 0) with i by lia. destruct y as [y|]; simpl.
    + destruct (N.ltb_spec i i); [lia|]. rewrite N.eqb_refl. auto.
    + symmetry. eapply ains_front; [apply enum_asc|lia].
  - replace (i + N.of_nat (S n)) with (i + 1 + N.of_nat n) by lia.
    destruct y as [y|]; simpl.
    + destruct (N.ltb_spec (i + 1 + N.of_nat n) i); [lia|].
      destruct (N.eqb_spec (i + 1 + N.of_nat n) i); [lia|]. f_equal. apply IH. lia.
    + apply IH. lia.
Qed.

Lemma enum_upd_none vs : forall n i, (n < length vs)%nat ->
  enum_from (lupd vs n None) i = adel (enum_from vs i) (i + N.of_nat n).
Proof.
  induction vs as [|y r IH]; intros n i Hn; simpl in Hn; [lia|].
  destruct n as [|n]; simpl lupd.
  - replace (i + N.of_nat 0) with i by lia. destruct y as [y|]; simpl.
    + rewrite N.eqb_refl. auto.
    + symmetry. eapply adel_absent; [apply enum_asc|lia].
  - replace (i + N.of_nat (S n)) with (i + 1 + N.of_nat n) by lia.
    destruct y as [y|]; simpl.
    + destruct (N.eqb_spec i (i + 1 + N.of_nat n)); [lia|]. f_equal. apply IH. lia.
    + apply IH. lia.
Qed.

Lemma enum_firstn vs : forall n i, enum_from (firstn n vs) i = acut (enum_from vs i) (i + N.of_nat n).
Proof.
  induction vs as [|y r IH]; intros n i.
  - destruct n; reflexivity.
  - destruct n as [|n].
    + cbn [firstn]. change (enum_from [] i) with (@nil (N * ival)).
      symmetry. apply acut_none. intros k x H. apply enum_bound in H. lia.
    + cbn [firstn]. replace (i + N.of_nat (S n)) with (i + 1 + N.of_nat n) by lia.
      destruct y as [y|]; cbn [enum_from].
      * unfold acut. cbn [filter fst]. destruct (N.ltb_spec i (i + 1 + N.of_nat n)); [|lia]. f_equal. apply IH.
      * apply IH.
Qed.

Lemma enum_lookup_dnth vs k : alookup (enum_from vs 0) k = dnth vs k.
Proof.
  revert k. assert (G : forall vs i k, i <= k -> alookup (enum_from vs i) k = dnth vs (k - i)).
  { clear. induction vs as [|y r IH]; intros i k Hk.
    - simpl. unfold dnth. destruct (k - i <? nlen []); auto. destruct (N.to_nat (k - i)); auto.
    - unfold dnth. rewrite nlen_cons. destruct (N.eqb_spec i k) as [->|Hne].
      + rewrite N.sub_diag. destruct (N.ltb_spec 0 (nlen r + 1)); [|lia]. simpl.
        destruct y as [y|]; simpl.
        * rewrite N.eqb_refl. auto.
        * eapply alookup_below; [apply enum_asc|lia].
      + assert (E : alookup (enum_from (y :: r) i) k = alookup (enum_from r (i + 1)) k).
        { destruct y as [y|]; simpl; auto. destruct (N.eqb_spec i k); [lia|auto]. }
        rewrite E, IH by lia. unfold dnth.
        replace (k - i) with (N.succ (k - (i + 1))) by lia.
        rewrite N2Nat.inj_succ. simpl.
        destruct (N.ltb_spec (k - (i + 1)) (nlen r)), (N.ltb_spec (N.succ (k - (i + 1))) (nlen r + 1)); auto; lia. }
  intros k. rewrite G by lia. f_equal. lia.
Qed.

Lemma count_vp_cons x r : count_vp (x :: r) = (ovpz x + count_vp r)%Z.
Proof.
  destruct x as [[v|p]|]; unfold count_vp, ovpz, vpz; cbn [filter is_vp];
    [|cbn [length]; rewrite Nat2Z.inj_succ|]; lia.
Qed.

Lemma cnt_enum vs : forall i, count_vp_items (enum_from vs i) = count_vp vs.
Proof.
  induction vs as [|[x|] r IH]; intros i.
  - reflexivity.
  - cbn [enum_from]. rewrite cnt_cons, count_vp_cons, IH. reflexivity.
  - cbn [enum_from]. rewrite count_vp_cons, IH. simpl. lia.
Qed.
