(* C07 — executable instantiation used by the correspondence check (no proofs; depends on Model.v only). *)
From Coq Require Import List NArith ZArith Bool.
Import ListNotations.
From Verif.C07 Require Export Model.
Local Open Scope N_scope.

(* ---- compact case syntax written by the harness -------------------------------------------- *)
(* codes: option val / option N : 0 = absent, n+1 = Some n;  option bool : 0 absent, 1 false, 2 true;
          get/set : 0 absent, 1 = undefined, n+2 = function n *)
Inductive dsc := Dsc (v w g s e c : N).
Arguments Dsc (_ _ _ _ _ _)%N.
(* an own property as observed: data  E k f v 0 (f = 4w+2e+c); accessor E k (8+2e+c) g s (0 = undefined, n+1) *)
Inductive ent := E (k f x y : N).
Arguments E (_ _ _ _)%N.

Inductive top :=
| OSet (refl : bool) (k v : N)
| OSetLen (refl : bool) (valid : bool) (n : N)
| ODefine (refl : bool) (k : N) (d : dsc)
| ODefLen (refl : bool) (l : N) (d : dsc)          (* l: 0 = no value, 1 = invalid, n+2 = n *)
| ODelete (refl : bool) (k : N)
| OGet (k : N) | OHas (k : N)
| OFreeze | OSeal | OPrevent
| OProto (k f x y : N)                               (* define Array.prototype[k] as that element; f = 99: delete *)
| OPush (vs : list N) | OPop | OShift | OUnshift (vs : list N)
| OSplice (st : Z) (dc : option Z) (items : list N)
| OReverse | OFill (v : N) (st : Z) (en : option Z) | OCopyWithin (t s : Z) (en : option Z)
| OSlice (st : Z) (en : option Z) | OConcat (items : list (list (option N)))   (* singleton [Some v] lists are spread too: items are arrays *)
| OConcatV (v : N)
| OIndexOf (v : N) (from : Z) | OIncludes (v : N) (from : Z)
| OSort (ck : N)                                     (* a consistent comparator, see [cmp_of] *)
| OSortObs (log : list (N * N * Z)) (out : list (option N))   (* arbitrary recorded comparator + observed result *)
| OExport
| OToggle (to_sparse : bool) (drift : N)
| OBulk (from n : N)                                 (* a[from+i] = (from+i) mod 40 + 1 for i < n, strict mode *)
| OSetLenRe (refl : bool) (n eff k : N)             (* a.length = {valueOf(){ EFFECT; return n }}; eff 1 = freeze(a),
                                                        2 = defineProperty(a,'length',{writable:false}), 3 = a[k] = 7 *)
| OGoTrunc (k : N)
| ONullProto.                                        (* Object.setPrototypeOf(a, null) *)                                  (* Go side: buf = buf[:k] (Go slice wrapper only) *)                       (* twin only: the storage was switched (no-op for S) *)
Arguments OSet _ (_ _)%N.  Arguments OSetLen _ _ _%N.  Arguments ODefine _ _%N _.  Arguments ODefLen _ _%N _.
Arguments ODelete _ _%N.  Arguments OGet _%N.  Arguments OHas _%N.  Arguments OProto (_ _ _ _)%N.
Arguments OPush _%N.  Arguments OUnshift _%N.  Arguments OSplice _%Z _%Z _%N.  Arguments OFill _%N _%Z _%Z.
Arguments OCopyWithin (_ _)%Z _%Z.  Arguments OSlice _%Z _%Z.  Arguments OConcat _%N.  Arguments OConcatV _%N.
Arguments OToggle _ _%N.  Arguments OBulk (_ _)%N.  Arguments OSetLenRe _ (_ _ _)%N.  Arguments OGoTrunc _%N.  Arguments OIndexOf _%N _%Z.  Arguments OIncludes _%N _%Z.  Arguments OSort _%N.  Arguments OSortObs _ _%N.

Inductive dump := DSame | D (len : N) (lw ext : bool) (els ots : list ent).
Arguments D _%N _ _ _ _.
Inductive obs := Ob (r : result) (d : dump).

(* kind 0 = Array, 1 = array-like plain object.  init = the literal; obsN = the normal run; obsT = the twin
   forced through storage transitions (empty if there is none) *)
Record tcase := mkCase { c_strict : bool;      (* corpus cases of recorded findings: no explanation by I accepted *)
                         c_kind : N; c_init : list (option N); c_ops : list top; c_obsN : list obs;
                         c_opsT : list top;       (* [] = the same ops (differs only by recorded comparator logs) *)
                         c_obsT : list obs }.
Arguments mkCase _ _%N _%N _ _ _ _.

(* ---- decoding ------------------------------------------------------------------------------- *)
Definition oN (c : N) : option N := if c =? 0 then None else Some (c - 1).
Definition oB (c : N) : option bool := if c =? 0 then None else Some (c =? 2).
Definition oF (c : N) : option (option N) := if c =? 0 then None else if c =? 1 then Some None else Some (Some (c - 2)).
Definition dec_dsc (d : dsc) : pdesc :=
  match d with Dsc v w g s e c => mkD (oN v) (oB w) (oF g) (oF s) (oB e) (oB c) end.
Definition bit (f i : N) : bool := N.testbit f i.
Definition dec_ent (f x y : N) : element :=
  if f <? 8 then EData x (bit f 2) (bit f 1) (bit f 0) else EAcc (oN x) (oN y) (bit f 1) (bit f 0).
Definition cN (o : option N) : N := match o with None => 0 | Some n => n + 1 end.
Definition b2n (b : bool) : N := if b then 1 else 0.
Definition enc_ent (p : N * element) : ent :=
  match snd p with
  | EData v w e c => E (fst p) (4 * b2n w + 2 * b2n e + b2n c) v 0
  | EAcc g s e c => E (fst p) (8 + 2 * b2n e + b2n c) (cN g) (cN s)
  end.
Definition dec_len (valid : bool) (n : N) : lenarg := if valid then LValid n else LInvalid.
Definition dec_olen (l : N) : option lenarg := if l =? 0 then None else if l =? 1 then Some LInvalid else Some (LValid (l - 2)).

(* ---- comparators ---------------------------------------------------------------------------- *)
Fixpoint digits (fuel : nat) (n : N) (acc : list N) : list N :=
  match fuel with O => acc | S f => if n <? 10 then n :: acc else digits f (n / 10) (n mod 10 :: acc) end.
Fixpoint lex (a b : list N) : Z :=
  match a, b with
  | [], [] => 0%Z | [], _ => (-1)%Z | _, [] => 1%Z
  | x :: r, y :: s => if x <? y then (-1)%Z else if y <? x then 1%Z else lex r s
  end.
(* element codes >= 5000 stand for the STRING String(v - 5000): equal string form, distinguishable element *)
Definition strform (v : val) : N := if 5000 <=? v then v - 5000 else v.
Definition cmp_of (ck : N) (a b : val) : Z :=
  if ck =? 0 then lex (digits 25 (strform a) []) (digits 25 (strform b) [])   (* no comparator: string order *)
  else if ck =? 1 then (Z.of_N a - Z.of_N b)%Z
  else if ck =? 2 then (Z.of_N (a mod 8) - Z.of_N (b mod 8))%Z         (* many ties: stability is visible *)
  else if ck =? 3 then (Z.of_N b - Z.of_N a)%Z
  else 0%Z.
Fixpoint cmp_of_log (log : list (N * N * Z)) (a b : val) : Z :=
  match log with
  | [] => 0%Z
  | (x, y, r) :: l => if (x =? a) && (y =? b) then r else cmp_of_log l a b
  end.

(* ---- one generic stepper over an "object" --------------------------------------------------- *)
Record oops (A : Type) := mkO {
  o_prims : prims A;
  o_define : A -> N -> pdesc -> A * bool;
  o_assign_len : A -> lenarg -> A * N;
  o_define_len : A -> option lenarg -> pdesc -> A * N;
  o_getown : A -> N -> option element;
  o_integrity : option bool -> A -> A;          (* None = preventExtensions, Some frozen *)
  o_proto : A -> list (N * element);
  o_with_proto : A -> list (N * element) -> A;
  o_export : A -> list (option val);
  o_dump : A -> dump;
  o_setlen_re : A -> N -> N -> N -> A * N;      (* n eff k: length assignment with a re-entrant valueOf *)
  o_gotrunc : A -> N -> A
}.
Arguments o_prims {A}. Arguments o_define {A}. Arguments o_assign_len {A}. Arguments o_define_len {A}.
Arguments o_getown {A}. Arguments o_integrity {A}. Arguments o_proto {A}. Arguments o_with_proto {A}.
Arguments o_export {A}. Arguments o_dump {A}. Arguments o_setlen_re {A}. Arguments o_gotrunc {A}.

Definition bres (refl : bool) (b : bool) : result := if refl then RB b else if b then RU else RErr 1.
Definition eres (refl : bool) (e : N) : result :=
  if e =? 0 then (if refl then RB true else RU) else if (e =? 1) && refl then RB false else RErr e.
Definition norm_export (l : list (option val)) : list (option N) :=
  map (fun x => match x with Some v => if v =? vundef then None else Some v | None => None end) l.

Section Step.
Context {A : Type} (O : oops A).
Let P := o_prims O.

Definition looping (o : top) : bool :=
  match o with
  | OShift | OUnshift _ | OSplice _ _ _ | OReverse | OFill _ _ _ | OCopyWithin _ _ _ | OSlice _ _ | OConcat _
  | OConcatV _ | OIndexOf _ _ | OIncludes _ _ | OSort _ | OSortObs _ _ | OExport => true
  | _ => false
  end.

Definition step (a : A) (o : top) : A * result :=
  if looping o && (1000 <? p_len P a) then (a, RErr 95) else    (* the harness never issues these on long arrays *)
  match o with
  | OSet refl k v => let '(a', b) := p_set P a k v in (a', bres refl b)
  | OSetLen refl valid n => let '(a', e) := o_assign_len O a (dec_len valid n) in (a', eres refl e)
  | ODefine refl k d => let '(a', b) := o_define O a k (dec_dsc d) in (a', bres refl b)
  | ODefLen refl l d => let '(a', e) := o_define_len O a (dec_olen l) (dec_dsc d) in (a', eres refl e)
  | ODelete refl k => let '(a', b) := p_del P a k in (a', bres refl b)
  | OGet k => (a, RV (p_get P a k))
  | OHas k => (a, RB (p_has P a k))
  | OFreeze => (o_integrity O (Some true) a, RU)
  | OSeal => (o_integrity O (Some false) a, RU)
  | OPrevent => (o_integrity O None a, RU)
  | OProto k f x y =>
      (o_with_proto O a (if f =? 99 then adel (o_proto O a) k else ains (o_proto O a) k (dec_ent f x y)), RU)
  | OPush vs => a_push P a vs
  | OPop => a_pop P a
  | OShift => a_shift P a
  | OUnshift vs => a_unshift P a vs
  | OSplice st dc items => a_splice P a st dc items
  | OReverse => a_reverse P a
  | OFill v st en => a_fill P a v st en
  | OCopyWithin t s en => a_copyWithin P a t s en
  | OSlice st en => (a, a_slice P a st en)
  | OConcat items =>
      (* the argument arrays are ordinary arrays: their holes read through Array.prototype *)
      let fillp (it : list (option N)) :=
        map (fun p => match snd p with
                      | Some v => Some v
                      | None => match alookup (o_proto O a) (fst p) with Some e => Some (el_getv e) | None => None end
                      end) (combine (seqN 0 (length it)) it) in
      (a, a_concat P a (map (fun it => inr (fillp it)) items))
  | OConcatV v => (a, a_concat P a [inl v])
  | OIndexOf v from => (a, a_indexOf P a v from)
  | OIncludes v from => (a, a_includes P a v from)
  | OSort ck => a_sort P a (cmp_of ck)
  | OSortObs log out =>
      let input := view P a 0 (N.to_nat (p_len P a)) in
      if check_sort_array (cmp_of_log log) input out
      then a_sort_with P a (flat_map (fun x => match x with Some v => [v] | None => [] end) out)
      else (a, RErr 99)                    (* the validator rejected the observed result: never matches *)
  | OExport => (a, RA (norm_export (o_export O a)))
  | OToggle _ _ => (a, RU)
  | OBulk from n =>
      let '(a', e) := loop (N.to_nat n) true (fun a k => setT P a k (k mod 40 + 1)) a from in
      (a', if e =? 0 then RU else RErr e)
  | OSetLenRe refl n eff k => let '(a', e) := o_setlen_re O a n eff k in (a', eres refl e)
  | OGoTrunc k => (o_gotrunc O a k, RU)
  | ONullProto =>
      (* OrdinarySetPrototypeOf: a non-extensible object refuses a different prototype (TypeError from setPrototypeOf) *)
      match o_dump O a with
      | D _ _ false _ _ => (a, RErr 1)
      | _ => (o_with_proto O a [], RU)
      end
  end.

Definition dump_eqb_dec (x y : dump) : bool :=
  match x, y with
  | DSame, DSame => true
  | D l1 w1 e1 a1 b1, D l2 w2 e2 a2 b2 =>
      let eeq := fix eeq (p q : list ent) : bool :=
        match p, q with
        | [], [] => true
        | E a b c d :: r, E a' b' c' d' :: s => (a =? a') && (b =? b') && (c =? c') && (d =? d') && eeq r s
        | _, _ => false
        end in
      (l1 =? l2) && Bool.eqb w1 w2 && Bool.eqb e1 e2 && eeq a1 a2 && eeq b1 b2
  | _, _ => false
  end.

(* run the ops; the dump is replaced by DSame when equal to the previous one (as the harness does) *)
Fixpoint run (a : A) (prev : dump) (ops : list top) : list obs :=
  match ops with
  | [] => []
  | o :: r => let '(a', res) := step a o in
              let d := o_dump O a' in
              Ob res (if dump_eqb_dec d prev then DSame else d) :: run a' d r
  end.
End Step.

(* ---- the two instantiations ----------------------------------------------------------------- *)
Definition s_dump (a : sarr) : dump := D (s_len a) (s_lw a) (s_ext a) (map enc_ent (s_el a)) (map enc_ent (s_ot a)).
Definition s_assign_len (a : sarr) (l : lenarg) : sarr * N :=
  match l with
  | LValid n => s_setlen a n
  | LInvalid => if s_lw a then (a, 2) else (a, 1)      (* OrdinarySet looks at [[Writable]] first *)
  end.
Definition s_integ (m : option bool) (a : sarr) : sarr :=
  match m with None => s_with_ext a false | Some f => s_integrity f a end.
(* OrdinarySet checks [[Writable]] of "length" BEFORE the value is converted; ArraySetLength converts (valueOf runs,
   twice: the effects are idempotent) and then works on the state the conversion left behind, re-reading
   [[Writable]] (10.4.2.4 steps 3-12) *)
Definition s_setlen_re (a : sarr) (n eff k : N) : sarr * N :=
  if negb (s_lw a) then (a, 1) else
  let a' := if eff =? 1 then s_integrity true a else if eff =? 2 then s_with_lw a false else fst (s_set a k 7) in
  let '(a'', ok) := s_array_set_length a' n in (a'', berr ok).
Definition opsS : oops sarr :=
  mkO sarr primS s_define s_assign_len s_define_length s_getown s_integ s_proto s_with_proto s_export s_dump
      s_setlen_re (fun a _ => a).

Definition i_dump (a : iarr) : dump :=
  let els := match a with ID d => enum_from (da_values d) 0 | IS s => sa_items s end in
  D (i_len a) (i_lw a) (b_ext (i_base a)) (map enc_ent (absL els)) (map enc_ent (absL (b_ot (i_base a)))).
Definition i_assign_len (a : iarr) (l : lenarg) : iarr * N :=
  match l with LValid n => i_setlen a n | LInvalid => if i_lw a then (a, 2) else (a, 1) end.
Definition i_integ (m : option bool) (a : iarr) : iarr :=
  match m with None => i_prevent a | Some f => i_integrity f a end.
Definition i_with_proto (a : iarr) (p : list (N * element)) : iarr :=
  let b := i_base a in i_with_base a (mkB (b_ext b) (b_ot b) p).
(* arrayObject/sparseArrayObject.setOwnStr("length") after 3394dd8 + eef08c7: writable check, toLengthUint32(val) (user
   code), then setConvertedArrayLength on the CURRENT storage object: a length made read-only by the conversion accepts
   an unchanged value, anything else goes through setLength (which checks [[Writable]] again) *)
Definition same_kind (a b : iarr) : bool := match a, b with ID _, ID _ => true | IS _, IS _ => true | _, _ => false end.
Definition i_setlen_re (a : iarr) (n eff k : N) : iarr * N :=
  if negb (i_lw a) then (a, 1) else
  let a' := if eff =? 1 then i_integrity true a else if eff =? 2 then i_with_lw a false else fst (i_set a k 7) in
  if negb (i_lw a') && (n =? i_len a') then (a', 0) else
  let '(a'', ok) := i_setLength a' n in (a'', berr ok).
Definition opsI : oops iarr :=
  mkO iarr primI i_define i_assign_len i_define_length i_getown i_integ (fun a => b_proto (i_base a))
      i_with_proto i_export i_dump i_setlen_re (fun a _ => a).

(* I : the fast paths of builtin_array.go in front of the generic algorithms *)
Definition stepI (a : iarr) (o : top) : iarr * result :=
  if looping o && (1000 <? i_len a) then (a, RErr 95) else
  match o with
  | OPop => i_pop a
  | OReverse => i_reverse a
  | OFill v st en => i_fill a v st en
  | OCopyWithin t s en => i_copyWithin a t s en
  | OIndexOf v from => (a, i_indexOf a v from)
  | OIncludes v from => (a, i_includes a v from)
  | OSort ck => i_sort a (cmp_of ck)
  | OSplice st dc items => i_splice a st dc items
  | OSortObs log out =>
      let input := view primI a 0 (N.to_nat (i_len a)) in
      if check_sort_array (cmp_of_log log) input out
      then i_sort_with a (flat_map (fun x => match x with Some v => [v] | None => [] end) out)
      else (a, RErr 99)
  | OToggle to_sparse drift =>
      match a, to_sparse with
      | ID d, true => (IS (expand_d2s d), RU)
      | IS s, false =>
          if 8000 <? sa_length s then (a, RU) else
          let d := expand_s2d s (sa_length s - 1) in
          (* the real forcing adds ~1100 elements and truncates: objCount keeps that surplus *)
          (ID (mkDA (if sa_length s =? 0 then [] else da_values d) (da_length d) (da_objCount d + Z.of_N drift)%Z
                    (da_pvc d) (da_lw d) (da_base d)), RU)
      | _, _ => (a, RU)
      end
  | _ => step opsI a o
  end.
Fixpoint runIops (a : iarr) (prev : dump) (ops : list top) : list obs :=
  match ops with
  | [] => []
  | o :: r => let '(a', res) := stepI a o in
              let d := i_dump a' in
              Ob res (if dump_eqb_dec d prev then DSame else d) :: runIops a' d r
  end.

(* ---- G : the Go []interface{} wrapper (object_goslice.go), documented exotic variant: every index below the length
   is present (Go nil reads as null), writing undefined stores nil, writing past the end and growing the length fill
   with nil, delete stores nil, shrinking truncates; Go code may re-slice the buffer between calls ---- *)
Definition NULLC : val := 998.
Definition gfix (v : val) : val := if v =? vundef then NULLC else v.
Fixpoint gresize (l : list val) (n : nat) : list val :=
  match n with O => [] | S n' => match l with [] => NULLC :: gresize [] n' | x :: r => x :: gresize r n' end end.
Definition g_get (l : list val) (k : N) : val := if k <? nlen l then nth (N.to_nat k) l vundef else vundef.
Definition g_set (l : list val) (k : N) (v : val) : list val * bool :=
  if 100000 <? k then (l, false) else
  let l' := if k <? nlen l then l else gresize l (N.to_nat (k + 1)) in
  (lupd l' (N.to_nat k) (gfix v), true).
Definition g_del (l : list val) (k : N) : list val * bool :=
  (if k <? nlen l then lupd l (N.to_nat k) NULLC else l, true).
Definition g_setlen (l : list val) (n : N) : list val * N :=
  if 100000 <? n then (l, 2) else (gresize l (N.to_nat n), 0).
Definition primG : prims (list val) := mkP (list val) nlen g_get (fun l k => k <? nlen l) g_set g_del g_setlen.
Definition g_dump (l : list val) : dump :=
  D (nlen l) true true (map (fun p => E (fst p) 7 (snd p) 0) (combine (seqN 0 (length l)) l)) [].
Definition opsG : oops (list val) :=
  mkO (list val) primG (fun l _ _ => (l, false)) (fun l a => match a with LValid n => g_setlen l n | LInvalid => (l, 2) end)
      (fun l _ _ => (l, 1)) (fun l k => if k <? nlen l then Some (EData (g_get l k) true true false) else None)
      (fun _ l => l) (fun _ => []) (fun l _ => l) (fun l => map Some l) g_dump
      (fun l _ _ _ => (l, 0)) (fun l k => firstn (N.to_nat k) l).
Definition initG (l : list (option N)) : list val := map (fun x => match x with Some v => gfix v | None => NULLC end) l.

Fixpoint els_of (l : list (option N)) (i : N) : list (N * element) :=
  match l with
  | [] => []
  | Some v :: r => (i, EData v true true true) :: els_of r (i + 1)
  | None :: r => els_of r (i + 1)
  end.
Definition initS (kind : N) (l : list (option N)) : sarr :=
  mkS (kind =? 0) (nlen l) true (els_of l 0) [] true [].
Definition initI (l : list (option N)) : iarr :=
  ID (mkDA (map (option_map IPlain) l) (nlen l) (count_present (map (option_map IPlain) l)) 0 true (mkB true [] [])).

Definition res_eqb (x y : result) : bool :=
  match x, y with
  | RU, RU => true | RNone, RNone => true
  | RV a, RV b => a =? b | RB a, RB b => Bool.eqb a b | RErr a, RErr b => a =? b
  | RA a, RA b => olist_eqb a b
  | _, _ => false
  end.
Definition obs_eqb (x y : obs) : bool :=
  match x, y with Ob r d, Ob r' d' => res_eqb r r' && dump_eqb_dec d d' end.

(* position of the first difference (None = equal) *)
Fixpoint first_diff (i : N) (xs ys : list obs) : option N :=
  match xs, ys with
  | [], [] => None
  | x :: r, y :: s => if obs_eqb x y then first_diff (i + 1) r s else Some i
  | _, _ => Some i
  end.

Definition opsT_of (c : tcase) := match c_opsT c with [] => c_ops c | ops => ops end.

(* run a model along the observations and stop at the first difference (after a divergence the remaining ops
   would run on a state the harness's size guards know nothing about) *)
Section Diff.
Context {A : Type} (stepf : A -> top -> A * result) (dumpf : A -> dump).
Fixpoint diff_run (a : A) (prev : dump) (ops : list top) (os : list obs) (i : N) : option N :=
  match ops, os with
  | [], [] => None
  | o :: r, ob :: s =>
      let '(a', res) := stepf a o in
      let d := dumpf a' in
      if obs_eqb ob (Ob res (if dump_eqb_dec d prev then DSame else d)) then diff_run a' d r s (i + 1) else Some i
  | _, _ => Some i
  end.
(* what the model says at position n *)
Fixpoint obs_at (a : A) (prev : dump) (ops : list top) (n : nat) : option obs :=
  match ops with
  | [] => None
  | o :: r =>
      let '(a', res) := stepf a o in
      let d := dumpf a' in
      match n with
      | O => Some (Ob res (if dump_eqb_dec d prev then DSame else d))
      | S n' => obs_at a' d r n'
      end
  end.
End Diff.

(* ---- Array.prototype as a global ---------------------------------------------------------------------------
   The object models carry the prototype AS THE RECEIVER SEES IT.  Array.prototype itself is global: the fresh arrays
   passed to concat inherit from it whatever Object.setPrototypeOf(receiver, null) did to the receiver.  The runs
   therefore thread (global Array.prototype, receiver detached?) next to the object state. *)
Definition wst (A : Type) : Type := A * (list (N * element) * bool).
Definition winit {A} (a : A) : wst A := (a, ([], false)).
Definition fill_items (gp : list (N * element)) (it : list (option N)) : list (option N) :=
  map (fun p => match snd p with
                | Some v => Some v
                | None => match alookup gp (fst p) with Some e => Some (el_getv e) | None => None end
                end) (combine (seqN 0 (length it)) it).
Definition wstep {A} (stepf : A -> top -> A * result) (w : wst A) (o : top) : wst A * result :=
  let '(a, (gp, det)) := w in
  match o with
  | OProto k f x y =>
      let gp' := if f =? 99 then adel gp k else ains gp k (dec_ent f x y) in
      ((if det then a else fst (stepf a o), (gp', det)), RU)
  | ONullProto => let '(a', r) := stepf a o in ((a', (gp, match r with RU => true | _ => det end)), r)
  | OConcat items => let '(a', r) := stepf a (OConcat (map (fill_items gp) items)) in ((a', (gp, det)), r)
  | _ => let '(a', r) := stepf a o in ((a', (gp, det)), r)
  end.

Definition stepS := wstep (step opsS).
Definition stepIW := wstep stepI.
Definition stepGW := wstep (step opsG).
Definition s_dumpW (w : wst sarr) := s_dump (fst w).
Definition i_dumpW (w : wst iarr) := i_dump (fst w).
Definition g_dumpW (w : wst (list val)) := g_dump (fst w).
Definition diffN (c : tcase) :=
  if c_kind c =? 2 then diff_run stepGW g_dumpW (winit (initG (c_init c))) DSame (c_ops c) (c_obsN c) 0
  else diff_run stepS s_dumpW (winit (initS (c_kind c) (c_init c))) DSame (c_ops c) (c_obsN c) 0.
Definition diffT (c : tcase) :=
  match c_obsT c with [] => None | t => diff_run stepS s_dumpW (winit (initS (c_kind c) (c_init c))) DSame (opsT_of c) t 0 end.
Definition diffI (c : tcase) :=
  if c_kind c =? 0 then diff_run stepIW i_dumpW (winit (initI (c_init c))) DSame (c_ops c) (c_obsN c) 0 else Some 0.
Definition diffIT (c : tcase) :=
  match c_obsT c with [] => None | t => diff_run stepIW i_dumpW (winit (initI (c_init c))) DSame (opsT_of c) t 0 end.

(* ---- which recorded defect of the faithful model I is exercised at an op ---------------------- *)
Fixpoint istate_at (a : wst iarr) (ops : list top) (n : nat) : wst iarr * option top :=
  match n, ops with
  | _, [] => (a, None)
  | O, o :: _ => (a, Some o)
  | S n', o :: r => istate_at (fst (wstep stepI a o)) r n'
  end.

Definition nonconf_at (a : iarr) (k : N) : bool :=
  match i_getown_iv a k with Some x => negb (iv_conf x) | None => false end.
Definition idx_items (a : iarr) : list (N * ival) :=
  match a with ID d => enum_from (da_values d) 0 | IS s => sa_items s end.
Definition i_pvc (a : iarr) : Z := match a with ID d => da_pvc d | IS s => sa_pvc s end.
Definition holey_guard (a : iarr) : bool :=
  match a with
  | ID d => d_guard d && negb (count_present (da_values d) =? Z.of_N (da_length d))%Z
  | IS _ => false
  end.
Definition dirty (a : iarr) : bool :=
  existsb (fun p => negb (iv_clean (snd p))) (idx_items a ++ b_ot (i_base a)).
Definition shrink_target (a : iarr) (o : top) : option N :=
  match o with
  | OSetLen _ true n => if n <? i_len a then Some n else None
  | ODefLen _ l _ => if (2 <=? l) && (l - 2 <? i_len a) then Some (l - 2) else None
  | _ => None
  end.
Definition kind_change (a : iarr) (o : top) : bool :=
  match o with
  | ODefine _ k d =>
      match i_getown_iv a k with
      | Some x => let acc := match x with IProp p => vp_acc p | _ => false end in
                  let dd := dec_dsc d in
                  (acc && is_data_desc dd) || (negb acc && is_acc_desc dd)
      | None => false
      end
  | _ => false
  end.
Definition values_longer (a : iarr) : bool :=
  match a with ID d => da_length d <? nlen (da_values d) | _ => false end.

(* tags name the region of a recorded OPEN finding of the faithful model I in which a divergence from S is
   expected.  Every finding of C07 has been repaired in /repo (known/C07.json "fixed"; the last ones, C07-N13/N14/N15,
   by bbc0a30 / 3394dd8 / eef08c7): there is no such region, every divergence from S is a violation. *)
Definition tags (a : iarr) (o : top) : list N := [].

Definition tags_at (c : tcase) (ops : list top) (n : N) : list N :=
  let '(iw, o) := istate_at (winit (initI (c_init c))) ops (N.to_nat n) in
  let ia := fst iw in
  match o with Some o => tags ia o | None => [] end.

(* a divergence from S is explained when the faithful model I reproduces the observation up to and including
   the diverging op (afterwards S has left the implementation's state and nothing can be checked against it) and
   that op lies in the region of a recorded defect *)
Definition explainedN (c : tcase) : bool :=
  match diffN c with
  | None => true
  | Some n => negb (c_strict c) && (c_kind c =? 0) &&
              match diffI c with
              | None => negb (match tags_at c (c_ops c) n with [] => true | _ => false end)
              | Some m => (n <? m) && negb (match tags_at c (c_ops c) n with [] => true | _ => false end)
              end
  end.
Definition explainedT (c : tcase) : bool :=
  match diffT c with
  | None => true
  | Some n => negb (c_strict c) &&
              match diffIT c with
              | None => negb (match tags_at c (opsT_of c) n with [] => true | _ => false end)
              | Some m => (n <? m) && negb (match tags_at c (opsT_of c) n with [] => true | _ => false end)
              end
  end.

(* once the normal run has entered the region of a recorded (storage-dependent) defect the twin is no longer
   compared: it meets the same defect at other points of the history *)
Definition check_case (c : tcase) : bool :=
  explainedN c && match diffN c with Some _ => true | None => explainedT c end.

Fixpoint mismatch_from (i : N) (cs : list tcase) : list N :=
  match cs with
  | [] => []
  | c :: r => if check_case c then mismatch_from (N.succ i) r else i :: mismatch_from (N.succ i) r
  end.
Definition mismatch_ids := mismatch_from 0%N.

(* printed with a mismatch: (first difference normal/S, twin/S, normal/I, twin/I), tags at the first S
   difference of the normal and of the twin run, then op / S says / I says at the first difference *)
Definition expected (c : tcase) :=
  let tn := match diffN c with Some n => tags_at c (c_ops c) n | None => [] end in
  let tt := match diffT c with Some n => tags_at c (opsT_of c) n | None => [] end in
  let '(ops, p) :=
    match diffN c, diffT c with
    | Some n, _ => (c_ops c, Some n)
    | None, Some n => (opsT_of c, Some n)
    | None, None => ([], None)
    end in
  match p with
  | None => ((diffN c, diffT c, diffI c, diffIT c), (tn, tt), (@None top, @None obs, @None obs))
  | Some n => ((diffN c, diffT c, diffI c, diffIT c), (tn, tt),
               (nth_error ops (N.to_nat n),
                (if c_kind c =? 2 then obs_at stepGW g_dumpW (winit (initG (c_init c))) DSame ops (N.to_nat n)
                 else obs_at stepS s_dumpW (winit (initS (c_kind c) (c_init c))) DSame ops (N.to_nat n)),
                obs_at stepIW i_dumpW (winit (initI (c_init c))) DSame ops (N.to_nat n)))
  end.
