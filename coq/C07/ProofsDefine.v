(* C07 — lemmas.  No axioms. *)
From Coq Require Import List NArith ZArith Bool Lia Permutation Sorted.
Import ListNotations.
From Verif.C07 Require Import Model.
Local Open Scope N_scope.

(* ------------------------------------------------------------------------------------------- *)
(* 1. _defineOwnProperty against ValidateAndApplyPropertyDescriptor *)

(* the define does not turn an accessor into a data property or vice versa *)
Definition no_kind_change (ex : option ival) (d : pdesc) : bool :=
  match ex with
  | None => true
  | Some (IPlain _) => negb (is_acc_desc d)
  | Some (IProp p) => if vp_acc p then negb (is_data_desc d) else negb (is_acc_desc d)
  end.
Definition oclean (ex : option ival) : bool := match ex with Some x => iv_clean x | None => true end.
(* ToPropertyDescriptor never yields a descriptor with both kinds of fields *)
Definition desc_wf (d : pdesc) : bool := negb (is_acc_desc d && is_data_desc d).

Lemma neqb_sym_val (a b : N) : (a =? b) = (b =? a).
Proof. apply N.eqb_sym. Qed.

Lemma opt_eqb_sym a b : opt_eqb a b = opt_eqb b a.
Proof. destruct a, b; simpl; auto using N.eqb_sym. Qed.

Ltac dcrush :=
  unfold goja_define, spec_define, oclean, iv_clean, vp_clean, absE; simpl;
  rewrite ?N.eqb_refl; simpl;
  repeat match goal with |- context [?a =? ?b] => destruct (a =? b) eqn:?; simpl end; auto.

(* after the repairs 7dd46dd/8a03683/4561dbf the decision tree equals the specification for EVERY well-formed
   descriptor and every existing property without stale fields, kind conversions included, and it never leaves stale
   fields behind *)
Lemma define_spec_clean : forall ext ex d,
  desc_wf d = true -> oclean ex = true ->
  option_map absE (goja_define ext ex d) = spec_define ext (option_map absE ex) d /\
  oclean (goja_define ext ex d) = true.
Proof.
  intros ext ex [dv dw dg ds de dc] Hwf Hcl.
  destruct ex as [[v|[pv pw pe pc pa pg ps]]|]; simpl in *.
  - destruct dg as [[g|]|], ds as [[s|]|]; simpl in *;
    destruct dv as [x|], dw as [[|]|]; simpl in *; try discriminate;
    destruct de as [[|]|], dc as [[|]|]; dcrush.
  - destruct pa; simpl in *.
    + apply andb_true_iff in Hcl; destruct Hcl as [Hw Hv].
      simpl in Hw, Hv. apply negb_true_iff in Hw; apply N.eqb_eq in Hv; subst.
      destruct dv as [x|], dw as [[|]|]; simpl in *;
      destruct dg as [[g|]|], ds as [[s|]|]; simpl in *; try discriminate;
      destruct pc, pe, de as [[|]|], dc as [[|]|], pg as [pg|], ps as [ps|];
        try (rewrite (N.eqb_sym g pg)); try (rewrite (N.eqb_sym s ps));
        unfold goja_define, spec_define, oclean, iv_clean, vp_clean, absE; simpl;
        try (rewrite (N.eqb_sym g pg)); try (rewrite (N.eqb_sym s ps)); dcrush.
    + apply andb_true_iff in Hcl; destruct Hcl as [Hg Hs].
      simpl in Hg, Hs. destruct pg; simpl in Hg; try discriminate. destruct ps; simpl in Hs; try discriminate.
      destruct dg as [[g|]|], ds as [[s|]|]; simpl in *;
      destruct dv as [x|], dw as [[|]|]; simpl in *; try discriminate;
      destruct pc, pw, pe, de as [[|]|], dc as [[|]|]; dcrush.
  - destruct ext; [|dcrush].
    destruct dg as [[g|]|], ds as [[s|]|]; simpl in *;
    destruct dv as [x|], dw as [[|]|]; simpl in *; try discriminate;
    destruct de as [[|]|], dc as [[|]|]; dcrush.
Qed.

Lemma define_refines_spec : forall ext ex d,
  desc_wf d = true -> oclean ex = true ->
  option_map absE (goja_define ext ex d) = spec_define ext (option_map absE ex) d.
Proof. intros. apply define_spec_clean; auto. Qed.

Lemma define_clean : forall ext ex d,
  desc_wf d = true -> oclean ex = true -> oclean (goja_define ext ex d) = true.
Proof. intros. apply define_spec_clean; auto. Qed.
