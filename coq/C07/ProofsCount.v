(* C07 — the bookkeeping counters of the dense storage are exact for the operations that maintain them correctly
   (after fix d2f8653): write/define/delete on an existing slot; propValueCount also under length truncation.
   objCount under truncation is refuted (Proofs.counters_truncate_refuted, finding C07-N5). No axioms. *)
From Coq Require Import List NArith ZArith Bool Lia.
Import ListNotations.
From Verif.C07 Require Import Model Proofs ProofsLib ProofsLen ProofsOps.
Local Open Scope N_scope.

Definition ExactD (d : darr) : Prop :=
  da_objCount d = count_present (da_values d) /\ da_pvc d = count_vp (da_values d).

Definition opz (o : option ival) : Z := match o with Some _ => 1%Z | None => 0%Z end.

Lemma count_present_cons x r : count_present (x :: r) = (opz x + count_present r)%Z.
Proof.
  destruct x; unfold count_present, opz; cbn [filter isSome]; [cbn [length]; rewrite Nat2Z.inj_succ|]; lia.
Qed.

Lemma slot_lupd (vs : list (option ival)) : forall n x, (n < length vs)%nat ->
  count_present (lupd vs n x) = (count_present vs - opz (nth n vs None) + opz x)%Z /\
  count_vp (lupd vs n x) = (count_vp vs - ovpz (nth n vs None) + ovpz x)%Z.
Proof.
  induction vs as [|y r IH]; intros n x Hn; simpl in Hn; [lia|].
  destruct n as [|n]; cbn [lupd nth].
  - rewrite !count_present_cons, !count_vp_cons. lia.
  - rewrite !count_present_cons, !count_vp_cons. destruct (IH n x) as [H1 H2]; [lia|]. rewrite H1, H2. lia.
Qed.

Lemma dnth_nth vs k : k < nlen vs -> dnth vs k = nth (N.to_nat k) vs None.
Proof.
  intros H. unfold dnth. apply N.ltb_lt in H. rewrite H. apply N.ltb_lt in H.
  destruct (nth_error vs (N.to_nat k)) eqn:E.
  - symmetry. apply nth_error_nth. auto.
  - apply nth_error_None in E. unfold nlen in H. lia.
Qed.

Lemma d_put_counts a k x : k < nlen (da_values a) ->
  count_present (da_values (d_put a k x)) = (count_present (da_values a) - opz (dnth (da_values a) k) + opz x)%Z /\
  count_vp (da_values (d_put a k x)) = (count_vp (da_values a) - ovpz (dnth (da_values a) k) + ovpz x)%Z.
Proof.
  intros Hk. unfold d_put. simpl. pose proof Hk as Hk'. apply N.ltb_lt in Hk'. rewrite Hk'.
  rewrite dnth_nth by auto. apply slot_lupd. unfold nlen in Hk. lia.
Qed.

Theorem dense_delete_counters d k : ExactD d -> ExactD (fst (d_deleteIdx d k)).
Proof.
  intros [Ho Hp]. unfold d_deleteIdx.
  destruct (dnth (da_values d) k) as [[v|p]|] eqn:E; simpl; [| destruct (vp_c p); simpl |]; try (split; auto; fail).
  - pose proof (dnth_some_lt _ _ _ E) as Hlt.
    destruct (d_put_counts (d_cnt d (-1) 0) k None) as [H1 H2]; [exact Hlt|].
    split; simpl in *; [rewrite H1|rewrite H2]; rewrite E; simpl; unfold vpz; simpl; lia.
  - pose proof (dnth_some_lt _ _ _ E) as Hlt.
    destruct (d_put_counts (d_cnt d (-1) (-1)) k None) as [H1 H2]; [exact Hlt|].
    split; simpl in *; [rewrite H1|rewrite H2]; rewrite E; simpl; unfold vpz; simpl; lia.
Qed.

(* write to / redefinition of a slot that exists (the path repaired by d2f8653) *)
Theorem dense_set_counters d k v : ExactD d -> k < nlen (da_values d) -> nlen (da_values d) <= da_length d ->
  match fst (d_setOwnIdx d k v) with ID d' => ExactD d' | IS _ => False end.
Proof.
  intros [Ho Hp] Hk Hlen. unfold d_setOwnIdx.
  destruct (dnth (da_values d) k) as [[w|p]|] eqn:E.
  - simpl. destruct (d_put_counts d k (Some (IPlain v))) as [H1 H2]; [exact Hk|].
    split; simpl in *; [rewrite H1|rewrite H2]; rewrite E; simpl; unfold vpz; simpl; lia.
  - destruct (vp_isWritable p); simpl; [|split; auto].
    destruct (d_put_counts d k (Some (IProp (vp_setv p v)))) as [H1 H2]; [exact Hk|].
    split; simpl in *; [rewrite H1|rewrite H2]; rewrite E; simpl; unfold vpz; simpl; lia.
  - destruct (proto_set_foreign (b_proto (da_base d)) k); [simpl; split; auto|].
    destruct (b_ext (da_base d)); simpl; [|split; auto].
    destruct (N.leb_spec (da_length d) k); [lia|]. simpl.
    destruct (N.leb_spec (nlen (da_values d)) k); [lia|]. simpl.
    destruct (d_put_counts (d_cnt d 1 0) k (Some (IPlain v))) as [H1 H2]; [exact Hk|].
    split; simpl in *; [rewrite H1|rewrite H2]; rewrite E; simpl; unfold vpz; simpl; lia.
Qed.

Theorem dense_define_counters d k dsc : ExactD d -> k < nlen (da_values d) -> nlen (da_values d) <= da_length d ->
  match fst (d_defineIdx d k dsc) with ID d' => ExactD d' | IS _ => False end.
Proof.
  intros [Ho Hp] Hk Hlen. unfold d_defineIdx.
  destruct (goja_define (b_ext (da_base d)) (dnth (da_values d) k) dsc) as [prop|]; [|simpl; split; auto].
  destruct (N.leb_spec (da_length d) k); [lia|]. simpl.
  destruct (d_expand_cases d k) as [[Hc Ee]|[[Hc Ee]|[Hc Ee]]]; try lia. rewrite Ee. simpl fst.
  match goal with |- context [d_put ?A k (Some prop)] => set (a2 := A) end.
  destruct (d_put_counts a2 k (Some prop)) as [H1 H2]; [subst a2; simpl; exact Hk|].
  split; [rewrite H1|rewrite H2]; subst a2; simpl;
    destruct (dnth (da_values d) k) as [[w|p]|]; simpl; unfold vpz; simpl; destruct (is_vp prop); simpl; lia.
Qed.

(* length truncation keeps propValueCount exact *)
Theorem dense_setlength_pvc d l : InvDn d -> da_pvc d = count_vp (da_values d) ->
  da_pvc (fst (d_setLength d l)) = count_vp (da_values (fst (d_setLength d l))).
Proof.
  intros [Hlen (Hasc & Hkeys & Hclean & Hcnt)] Hp. unfold d_setLength.
  destruct (da_lw d); simpl; auto.
  unfold d_setLengthInt. rewrite d_scan_is_sp.
  set (items := enum_from (da_values d) 0) in *.
  assert (Hres : forall n' ok pvc',
     (if (l <=? da_length d) && (0 <? da_pvc d)%Z then sp_scan true (rev items) l (da_pvc d) else (l, true, da_pvc d))
       = (n', ok, pvc') -> pvc' = count_vp_items (acut items n')).
  { intros n' ok pvc' E. rewrite <- cnt_enum with (i := 0) in Hp. fold items in Hp.
    pose proof (cnt_partition items n') as Hpart.
    destruct ((l <=? da_length d) && (0 <? da_pvc d)%Z) eqn:Eb.
    - destruct (sp_scan_spec _ _ _ _ _ _ _ Hasc E) as (_ & Hq & _). lia.
    - inversion E; subst. apply andb_false_iff in Eb. destruct Eb as [Eb|Eb].
      + apply N.leb_gt in Eb. rewrite acut_all; [auto|]. intros k x Hin. specialize (Hkeys _ _ Hin). lia.
      + apply Z.ltb_ge in Eb. pose proof (cnt_nonneg items). pose proof (cnt_nonneg (acut items n')).
        pose proof (cnt_nonneg (filter (fun p => (n' <=? fst p)%N) items)). lia. }
  destruct (if (l <=? da_length d) && (0 <? da_pvc d)%Z then sp_scan true (rev items) l (da_pvc d)
            else (l, true, da_pvc d)) as [[n' ok] pvc'] eqn:E.
  simpl. rewrite (Hres _ _ _ eq_refl). rewrite <- cnt_enum with (i := 0).
  f_equal. destruct (N.leb_spec n' (nlen (da_values d))).
  - rewrite enum_firstn. f_equal. lia.
  - fold items. apply acut_all. intros k x Hin. apply enum_bound in Hin. lia.
Qed.

(* ------------------------------------------------------------------------------------------- *)
(* after 57195f1 / 8dbb372 the counters are exact for EVERY operation, in both storages and across both storage
   switches *)

Definition ExactA (a : iarr) : Prop :=
  match a with
  | ID d => ExactD d
  | IS s => sa_pvc s = count_vp_items (sa_items s)
  end.

Lemma count_present_app a b : count_present (a ++ b) = (count_present a + count_present b)%Z.
Proof. induction a as [|x r IH]; simpl app; [unfold count_present at 2; simpl; lia|]. rewrite !count_present_cons, IH. lia. Qed.
Lemma count_vp_app a b : count_vp (a ++ b) = (count_vp a + count_vp b)%Z.
Proof. induction a as [|x r IH]; simpl app; [unfold count_vp at 2; simpl; lia|]. rewrite !count_vp_cons, IH. lia. Qed.
Lemma count_nones m : count_present (repeat None m) = 0%Z /\ count_vp (repeat None m) = 0%Z.
Proof. induction m; simpl; [split; reflexivity|]. rewrite count_present_cons, count_vp_cons. simpl. lia. Qed.

(* length truncation: objCount is exact too (57195f1) *)
Theorem dense_setlength_counters d l : InvDn d -> ExactD d -> ExactD (fst (d_setLength d l)).
Proof.
  intros Hinv [Ho Hp]. split; [|apply dense_setlength_pvc; auto].
  unfold d_setLength. destruct (da_lw d); simpl; auto.
  unfold d_setLengthInt.
  destruct (if (l <=? da_length d) && (0 <? da_pvc d)%Z
            then d_scan (rev (skipn (N.to_nat (N.min l (nlen (da_values d)))) (da_values d))) (nlen (da_values d) - 1) l (da_pvc d)
            else (l, true, da_pvc d)) as [[n' ok] pvc'].
  simpl. destruct (n' <=? nlen (da_values d)); auto.
  rewrite Ho. rewrite <- (firstn_skipn (N.to_nat n') (da_values d)) at 1. rewrite count_present_app. lia.
Qed.

Lemma expand_dnth a1 k a2 b : d_expand a1 k = (ID a2, b) -> dnth (da_values a2) k = dnth (da_values a1) k.
Proof.
  intros E. destruct (d_expand_cases a1 k) as [[Hc Ee]|[[Hc Ee]|[Hc Ee]]]; rewrite Ee in E; inversion E; subst; auto.
  unfold d_with_values. simpl. rewrite dnth_grow by lia. symmetry. apply dnth_ge. lia.
Qed.

(* storing after [expand]: every outcome counts the stored property exactly once *)
Lemma expand_store_exact a1 k x : ExactD a1 ->
  match d_expand a1 k with
  | (ID a2, _) =>
      let old := dnth (da_values a2) k in
      ExactD (d_put (d_cnt a2 (match old with None => 1 | Some _ => 0 end)
                           ((match old with Some (IProp _) => -1 | _ => 0 end) + (if is_vp x then 1 else 0))%Z) k (Some x))
  | (IS s, _) => (sa_pvc s + (if is_vp x then 1 else 0))%Z = count_vp_items (ains (sa_items s) k x)
  end.
Proof.
  intros [Ho Hp].
  destruct (d_expand_cases a1 k) as [[Hc Ee]|[[Hc Ee]|[Hc Ee]]]; rewrite Ee.
  - cbv zeta. set (old := dnth (da_values a1) k).
    match goal with |- ExactD (d_put ?A k (Some x)) => set (a2 := A) end.
    destruct (d_put_counts a2 k (Some x)) as [H1 H2]; [subst a2; simpl; lia|].
    split; [rewrite H1|rewrite H2]; subst a2; simpl; fold old; destruct old as [[v|p]|]; simpl; unfold vpz; simpl;
      destruct (is_vp x); lia.
  - simpl. erewrite cnt_ains; [|apply enum_asc|lia]. rewrite enum_lookup_dnth, (dnth_ge _ k) by lia.
    rewrite cnt_enum. simpl. unfold vpz. destruct (is_vp x); lia.
  - unfold d_with_values. cbv zeta. simpl da_values.
    set (vs' := da_values a1 ++ repeat None (N.to_nat (k + 1 - nlen (da_values a1)))).
    assert (Hd : dnth vs' k = None) by (apply dnth_grow; lia).
    assert (Hn' : nlen vs' = k + 1) by (apply nlen_grow; lia).
    rewrite Hd.
    match goal with |- ExactD (d_put ?A k (Some x)) => set (a2 := A) end.
    destruct (d_put_counts a2 k (Some x)) as [H1 H2]; [subst a2; simpl; lia|].
    destruct (count_nones (N.to_nat (k + 1 - nlen (da_values a1)))) as [Hz1 Hz2].
    split; [rewrite H1|rewrite H2]; subst a2; simpl; rewrite Hd; unfold vs';
      rewrite ?count_present_app, ?count_vp_app, ?Hz1, ?Hz2; simpl; unfold vpz; simpl; destruct (is_vp x); lia.
Qed.

Lemma d_step_exact d k : nlen (da_values d) <= da_length d -> ExactD d ->
  forall a1 ok, (if da_length d <=? k then d_setLengthInt_chk d (k + 1) else (d, true)) = (a1, ok) ->
  da_values a1 = da_values d /\ ExactD a1.
Proof.
  intros Hlen Hex a1 ok E. destruct (N.leb_spec (da_length d) k).
  - destruct (da_lw d) eqn:Ew.
    + rewrite (d_grow d k Hlen H Ew) in E. inversion E; subst. simpl. auto.
    + unfold d_setLengthInt_chk in E. destruct (N.eqb_spec (k + 1) (da_length d)); [lia|].
      rewrite Ew in E. simpl in E. inversion E; subst. auto.
  - inversion E; subst. auto.
Qed.

Theorem dense_define_counters_all d k dsc : InvDn d -> ExactD d -> ExactA (fst (d_defineIdx d k dsc)).
Proof.
  intros [Hlen _] Hex. unfold d_defineIdx.
  destruct (goja_define (b_ext (da_base d)) (dnth (da_values d) k) dsc) as [prop|]; [|exact Hex].
  destruct (if da_length d <=? k then d_setLengthInt_chk d (k + 1) else (d, true)) as [a1 ok] eqn:E1.
  destruct (d_step_exact d k Hlen Hex a1 ok E1) as [Hv Hex1].
  destruct ok; simpl negb; cbv iota; [|exact Hex1].
  pose proof (expand_store_exact a1 k prop Hex1) as Hst.
  destruct (d_expand a1 k) as [[a2|s] b]; simpl.
  - exact Hst.
  - rewrite Hst. reflexivity.
Qed.

Theorem dense_set_counters_all d k v : InvDn d -> ExactD d -> ExactA (fst (d_setOwnIdx d k v)).
Proof.
  intros [Hlen _] Hex. unfold d_setOwnIdx.
  destruct (dnth (da_values d) k) as [[w|p]|] eqn:E.
  - pose proof (dnth_some_lt _ _ _ E) as Hk. pose proof (dense_set_counters d k v Hex Hk Hlen) as H.
    unfold d_setOwnIdx in H. rewrite E in H. exact H.
  - pose proof (dnth_some_lt _ _ _ E) as Hk. pose proof (dense_set_counters d k v Hex Hk Hlen) as H.
    unfold d_setOwnIdx in H. rewrite E in H. destruct (negb (vp_isWritable p)); exact H.
  - destruct (proto_set_foreign (b_proto (da_base d)) k); [exact Hex|].
    destruct (b_ext (da_base d)); simpl negb; cbv iota; [|exact Hex].
    destruct (if da_length d <=? k then d_setLengthInt_chk d (k + 1) else (d, true)) as [a1 ok] eqn:E1.
    destruct (d_step_exact d k Hlen Hex a1 ok E1) as [Hv Hex1].
    destruct ok; simpl negb; cbv iota; [|exact Hex1].
    pose proof (expand_store_exact a1 k (IPlain v) Hex1) as Hst.
    destruct (N.leb_spec (nlen (da_values a1)) k).
    + destruct (d_expand a1 k) as [[a2|s] b] eqn:Ee; simpl.
      * pose proof (expand_dnth _ _ _ _ Ee) as Hd. rewrite Hv, E in Hd. cbv zeta in Hst. rewrite Hd in Hst.
        simpl in Hst. exact Hst.
      * simpl in Hst. rewrite <- Hst. lia.
    + (* the slot exists and is a hole *)
      destruct (d_expand_cases a1 k) as [[Hc Ee]|[[Hc Ee]|[Hc Ee]]]; try lia.
      rewrite Ee in Hst. cbv zeta in Hst. rewrite Hv, E in Hst. simpl in Hst. simpl. exact Hst.
Qed.

(* sparse: propValueCount exact *)
Theorem sparse_delete_counters s k : ascg 0 (sa_items s) -> ExactA (IS s) -> ExactA (IS (fst (sp_deleteIdx s k))).
Proof.
  intros Hasc Hp. simpl in *. unfold sp_deleteIdx.
  destruct (alookup (sa_items s) k) as [[v|p]|] eqn:E; simpl; auto.
  - erewrite cnt_adel; eauto. rewrite E. simpl. unfold vpz; simpl. lia.
  - destruct (vp_c p); simpl; auto. erewrite cnt_adel; eauto. rewrite E. simpl. unfold vpz; simpl. lia.
Qed.

Theorem sparse_setlength_counters s l : InvSp s -> ExactA (IS s) -> ExactA (IS (fst (sp_setLength s l))).
Proof.
  intros (Hasc & Hkeys & Hclean & Hcnt) Hp. simpl in *. unfold sp_setLength.
  destruct (sa_lw s); simpl; auto.
  unfold sp_setLengthInt, sp_setLengthInt_gen.
  destruct (if (l <=? sa_length s) && (0 <? sa_pvc s)%Z then sp_scan true (rev (sa_items s)) l (sa_pvc s)
            else (l, true, sa_pvc s)) as [[n' ok] pvc'] eqn:E.
  simpl. pose proof (cnt_partition (sa_items s) n') as Hpart.
  destruct ((l <=? sa_length s) && (0 <? sa_pvc s)%Z) eqn:Eb.
  - destruct (sp_scan_spec _ _ _ _ _ _ _ Hasc E) as (_ & Hq & _). lia.
  - inversion E; subst. apply andb_false_iff in Eb. destruct Eb as [Eb|Eb].
    + apply N.leb_gt in Eb. rewrite acut_all; [auto|]. intros k x Hin. specialize (Hkeys _ _ Hin). lia.
    + apply Z.ltb_ge in Eb. pose proof (cnt_nonneg (sa_items s)). pose proof (cnt_nonneg (acut (sa_items s) n')).
      pose proof (cnt_nonneg (filter (fun p => (n' <=? fst p)%N) (sa_items s))). lia.
Qed.
