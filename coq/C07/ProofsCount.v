(* C07 — the bookkeeping counters of the dense storage are exact for the operations that maintain them correctly
   (after fix d2f8653): write/define/delete on an existing slot; propValueCount also under length truncation.
   objCount under truncation is refuted (Proofs.counters_truncate_refuted, finding C07-N5). No axioms. *)
From Coq Require Import List NArith ZArith Bool Lia.
Import ListNotations.
From Verif.C07 Require Import Model Proofs ProofsLib ProofsLen ProofsOps.
Local Open Scope N_scope.

Definition ExactD (d : darr) : Prop :=
  da_objCount d = count_present (da_values d) /\ da_pvc d = count_vp (da_values d).

Definition opz (o : option ival) : Z := match o with Some _ => 1%Z | None => 0%Z end.

Lemma count_present_cons x r : count_present (x :: r) = (opz x + count_present r)%Z.
Proof.
  destruct x; unfold count_present, opz; cbn [filter isSome]; [cbn [length]; rewrite Nat2Z.inj_succ|]; lia.
Qed.

Lemma slot_lupd (vs : list (option ival)) : forall n x, (n < length vs)%nat ->
  count_present (lupd vs n x) = (count_present vs - opz (nth n vs None) + opz x)%Z /\
  count_vp (lupd vs n x) = (count_vp vs - ovpz (nth n vs None) + ovpz x)%Z.
Proof.
  induction vs as [|y r IH]; intros n x Hn; simpl in Hn; [lia|].
  destruct n as [|n]; cbn [lupd nth].
  - rewrite !count_present_cons, !count_vp_cons. lia.
  - rewrite !count_present_cons, !count_vp_cons. destruct (IH n x) as [H1 H2]; [lia|]. rewrite H1, H2. lia.
Qed.

Lemma dnth_nth vs k : k < nlen vs -> dnth vs k = nth (N.to_nat k) vs None.
Proof.
  intros H. unfold dnth. apply N.ltb_lt in H. rewrite H. apply N.ltb_lt in H.
  destruct (nth_error vs (N.to_nat k)) eqn:E.
  - symmetry. apply nth_error_nth. auto.
  - apply nth_error_None in E. unfold nlen in H. lia.
Qed.

Lemma d_put_counts a k x : k < nlen (da_values a) ->
  count_present (da_values (d_put a k x)) = (count_present (da_values a) - opz (dnth (da_values a) k) + opz x)%Z /\
  count_vp (da_values (d_put a k x)) = (count_vp (da_values a) - ovpz (dnth (da_values a) k) + ovpz x)%Z.
Proof.
  intros Hk. unfold d_put. simpl. pose proof Hk as Hk'. apply N.ltb_lt in Hk'. rewrite Hk'.
  rewrite dnth_nth by auto. apply slot_lupd. unfold nlen in Hk. lia.
Qed.

Theorem dense_delete_counters d k : ExactD d -> ExactD (fst (d_deleteIdx d k)).
Proof.
  intros [Ho Hp]. unfold d_deleteIdx.
  destruct (dnth (da_values d) k) as [[v|p]|] eqn:E; simpl; [| destruct (vp_c p); simpl |]; try (split; auto; fail).
  - pose proof (dnth_some_lt _ _ _ E) as Hlt.
    destruct (d_put_counts (d_cnt d (-1) 0) k None) as [H1 H2]; [exact Hlt|].
    split; simpl in *; [rewrite H1|rewrite H2]; rewrite E; simpl; unfold vpz; simpl; lia.
  - pose proof (dnth_some_lt _ _ _ E) as Hlt.
    destruct (d_put_counts (d_cnt d (-1) (-1)) k None) as [H1 H2]; [exact Hlt|].
    split; simpl in *; [rewrite H1|rewrite H2]; rewrite E; simpl; unfold vpz; simpl; lia.
Qed.

(* write to / redefinition of a slot that exists (the path repaired by d2f8653) *)
Theorem dense_set_counters d k v : ExactD d -> k < nlen (da_values d) -> nlen (da_values d) <= da_length d ->
  match fst (d_setOwnIdx d k v) with ID d' => ExactD d' | IS _ => False end.
Proof.
  intros [Ho Hp] Hk Hlen. unfold d_setOwnIdx.
  destruct (dnth (da_values d) k) as [[w|p]|] eqn:E.
  - simpl. destruct (d_put_counts d k (Some (IPlain v))) as [H1 H2]; [exact Hk|].
    split; simpl in *; [rewrite H1|rewrite H2]; rewrite E; simpl; unfold vpz; simpl; lia.
  - destruct (vp_isWritable p); simpl; [|split; auto].
    destruct (d_put_counts d k (Some (IProp (vp_setv p v)))) as [H1 H2]; [exact Hk|].
    split; simpl in *; [rewrite H1|rewrite H2]; rewrite E; simpl; unfold vpz; simpl; lia.
  - destruct (proto_set_foreign (b_proto (da_base d)) k); [simpl; split; auto|].
    destruct (b_ext (da_base d)); simpl; [|split; auto].
    destruct (N.leb_spec (da_length d) k); [lia|]. simpl.
    destruct (N.leb_spec (nlen (da_values d)) k); [lia|]. simpl.
    destruct (d_put_counts (d_cnt d 1 0) k (Some (IPlain v))) as [H1 H2]; [exact Hk|].
    split; simpl in *; [rewrite H1|rewrite H2]; rewrite E; simpl; unfold vpz; simpl; lia.
Qed.

Theorem dense_define_counters d k dsc : ExactD d -> k < nlen (da_values d) -> nlen (da_values d) <= da_length d ->
  match fst (d_defineIdx d k dsc) with ID d' => ExactD d' | IS _ => False end.
Proof.
  intros [Ho Hp] Hk Hlen. unfold d_defineIdx.
  destruct (goja_define (b_ext (da_base d)) (dnth (da_values d) k) dsc) as [prop|]; [|simpl; split; auto].
  destruct (N.leb_spec (da_length d) k); [lia|]. simpl.
  destruct (d_expand_cases d k) as [[Hc Ee]|[[Hc Ee]|[Hc Ee]]]; try lia. rewrite Ee. simpl fst.
  match goal with |- context [d_put ?A k (Some prop)] => set (a2 := A) end.
  destruct (d_put_counts a2 k (Some prop)) as [H1 H2]; [subst a2; simpl; exact Hk|].
  split; [rewrite H1|rewrite H2]; subst a2; simpl;
    destruct (dnth (da_values d) k) as [[w|p]|]; simpl; unfold vpz; simpl; destruct (is_vp prop); simpl; lia.
Qed.

(* length truncation keeps propValueCount exact *)
Theorem dense_setlength_pvc d l : InvDn d -> da_pvc d = count_vp (da_values d) ->
  da_pvc (fst (d_setLength d l)) = count_vp (da_values (fst (d_setLength d l))).
Proof.
  intros [Hlen (Hasc & Hkeys & Hclean & Hcnt)] Hp. unfold d_setLength.
  destruct (da_lw d); simpl; auto.
  unfold d_setLengthInt. rewrite d_scan_is_sp.
  set (items := enum_from (da_values d) 0) in *.
  assert (Hres : forall n' ok pvc',
     (if (l <=? da_length d) && (0 <? da_pvc d)%Z then sp_scan true (rev items) l (da_pvc d) else (l, true, da_pvc d))
       = (n', ok, pvc') -> pvc' = count_vp_items (acut items n')).
  { intros n' ok pvc' E. rewrite <- cnt_enum with (i := 0) in Hp. fold items in Hp.
    pose proof (cnt_partition items n') as Hpart.
    destruct ((l <=? da_length d) && (0 <? da_pvc d)%Z) eqn:Eb.
    - destruct (sp_scan_spec _ _ _ _ _ _ _ Hasc E) as (_ & Hq & _). lia.
    - inversion E; subst. apply andb_false_iff in Eb. destruct Eb as [Eb|Eb].
      + apply N.leb_gt in Eb. rewrite acut_all; [auto|]. intros k x Hin. specialize (Hkeys _ _ Hin). lia.
      + apply Z.ltb_ge in Eb. pose proof (cnt_nonneg items). pose proof (cnt_nonneg (acut items n')).
        pose proof (cnt_nonneg (filter (fun p => (n' <=? fst p)%N) items)). lia. }
  destruct (if (l <=? da_length d) && (0 <? da_pvc d)%Z then sp_scan true (rev items) l (da_pvc d)
            else (l, true, da_pvc d)) as [[n' ok] pvc'] eqn:E.
  simpl. rewrite (Hres _ _ _ eq_refl). rewrite <- cnt_enum with (i := 0).
  f_equal. destruct (N.leb_spec n' (nlen (da_values d))).
  - rewrite enum_firstn. f_equal. lia.
  - fold items. apply acut_all. intros k x Hin. apply enum_bound in Hin. lia.
Qed.
