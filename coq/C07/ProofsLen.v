(* C07 — length truncation and delete: both storages refine S and keep their invariant. No axioms. *)
From Coq Require Import List NArith ZArith Bool Lia.
Import ListNotations.
From Verif.C07 Require Import Model Proofs ProofsLib.
Local Open Scope N_scope.

(* ------------------------------------------------------------------------------------------- *)
(* the storage invariants *)

Definition InvItems (l : list (N * ival)) (len : N) (pvc : Z) : Prop :=
  ascg 0 l /\ (forall k x, In (k, x) l -> k < len) /\ (forall k x, In (k, x) l -> iv_clean x = true) /\
  (count_vp_items l <= pvc)%Z.

(* sparse: items sorted, below length, without stale fields, propValueCount is an upper bound of the number of
   valueProperties (that is what the "slow path" guards need) *)
Definition InvSp (s : sparr) : Prop := InvItems (sa_items s) (sa_length s) (sa_pvc s).
(* dense: additionally len(values) <= length *)
Definition InvDn (d : darr) : Prop :=
  nlen (da_values d) <= da_length d /\ InvItems (enum_from (da_values d) 0) (da_length d) (da_pvc d).
Definition InvA (a : iarr) : Prop := match a with ID d => InvDn d | IS s => InvSp s end.

(* ------------------------------------------------------------------------------------------- *)
(* the sparse scan against ArraySetLength's loop *)

Lemma ascg_app_inv {A} (a : list (N * A)) : forall b lo, ascg lo (a ++ b) ->
  ascg lo a /\ (forall k x j y, In (k, x) a -> In (j, y) b -> k < j).
Proof.
  induction a as [|[i z] r IH]; intros b lo H; simpl in *.
  - split; [constructor|]. intros ? ? ? ? [].
  - apply ascg_inv in H. destruct H as [Hlo Hr].
    pose proof (IH _ _ Hr) as [Ha Hb]. split.
    + constructor; auto.
    + intros k x j y [E|Hin] Hj.
      * inversion E; subst.
        assert (Hj' : In (j, y) (r ++ b)) by (apply in_or_app; auto).
        pose proof (ascg_keys _ _ _ _ Hr Hj'). lia.
      * eauto.
Qed.

Lemma filter_ge_none (l : list (N * ival)) n :
  (forall k x, In (k, x) l -> k < n) -> filter (fun p => (n <=? fst p)%N) l = [].
Proof.
  induction l as [|[j y] r IH]; intros H; simpl; auto.
  assert (j < n) by (eapply H; left; eauto). destruct (N.leb_spec n j); [lia|]. apply IH.
  intros; eapply H; right; eauto.
Qed.

Lemma cnt_partition l n :
  count_vp_items l = (count_vp_items (acut l n) + count_vp_items (filter (fun p => (n <=? fst p)%N) l))%Z.
Proof.
  unfold acut. induction l as [|[j y] r IH]; simpl; [rewrite cnt_nil; lia|].
  rewrite cnt_cons. destruct (N.ltb_spec j n), (N.leb_spec n j); try lia; rewrite ?cnt_cons; lia.
Qed.

Lemma sp_scan_novp r : forall n pvc, (forall k x, In (k, x) r -> is_vp x = false) ->
  sp_scan true r n pvc = (n, true, pvc).
Proof.
  induction r as [|[k x] r IH]; intros n pvc H; simpl; auto.
  destruct (k <? n); auto.
  assert (Hx : is_vp x = false) by (eapply H; left; eauto).
  destruct x as [v|p]; [|discriminate]. apply IH. intros; eapply H; right; eauto.
Qed.

Lemma sp_scan_lt r n pvc : (forall k x, In (k, x) r -> k < n) -> sp_scan true r n pvc = (n, true, pvc).
Proof.
  destruct r as [|[k x] r]; intros H; simpl; auto.
  assert (k < n) by (eapply H; left; eauto). apply N.ltb_lt in H0. rewrite H0. auto.
Qed.

Lemma sp_scan_spec : forall l lo n pvc n' ok pvc', ascg lo l ->
  sp_scan true (rev l) n pvc = (n', ok, pvc') ->
  (n' = n \/ exists p x, In (p, x) l /\ n' = p + 1) /\
  pvc' = (pvc - count_vp_items (filter (fun p => (n' <=? fst p)%N) l))%Z /\
  s_del_down (rev (absL l)) n = (rev (acut (absL l) n'), n', ok).
Proof.
  intros l. induction l as [|[k x] l' IH] using rev_ind; intros lo n pvc n' ok pvc' Ha E.
  - simpl in E. inversion E; subst. simpl. rewrite cnt_nil. repeat split; auto. lia.
  - apply ascg_app_inv in Ha. destruct Ha as [Ha Hlt].
    assert (Hk : forall j y, In (j, y) l' -> j < k) by (intros; eapply Hlt; eauto; left; auto).
    rewrite rev_app_distr in E. simpl in E.
    rewrite absL_app, rev_app_distr. simpl.
    assert (Hall : forall j y, In (j, y) (l' ++ [(k, x)]) -> j <= k).
    { intros j y Hin. apply in_app_or in Hin. destruct Hin as [Hin|[E'|[]]].
      - specialize (Hk _ _ Hin). lia.
      - inversion E'; subst. lia. }
    assert (Hcut : forall m, k < m -> acut (absL l' ++ [(k, absE x)]) m = absL l' ++ [(k, absE x)]).
    { intros m Hm. apply acut_all. intros j e Hin. change [(k, absE x)] with (absL [(k, x)]) in Hin. rewrite <- absL_app in Hin.
      apply absL_in in Hin. destruct Hin as [y [Hin _]]. specialize (Hall _ _ Hin). lia. }
    destruct (N.ltb_spec k n) as [Hkn|Hkn].
    + (* the top element is already below the new length *)
      inversion E; subst. split; [auto|]. split.
      * rewrite filter_ge_none; [rewrite cnt_nil; lia|]. intros j y Hin. specialize (Hall _ _ Hin). lia.
      * rewrite Hcut by lia. rewrite rev_app_distr. simpl. auto.
    + rewrite conf_abs.
      assert (Hrec : forall pvc2, sp_scan true (rev l') n pvc2 = (n', ok, pvc') ->
                (n' = n \/ exists p y, In (p, y) (l' ++ [(k, x)]) /\ n' = p + 1) /\
                pvc' = (pvc2 - count_vp_items (filter (fun p => (n' <=? fst p)%N) (l' ++ [(k, x)])) + vpz x)%Z /\
                s_del_down (rev (absL l')) n = (rev (acut (absL l' ++ [(k, absE x)]) n'), n', ok)).
      { intros pvc2 E2. destruct (IH _ _ _ _ _ _ Ha E2) as (Hd & Hp & Hs).
        assert (Hn' : n' <= k).
        { destruct Hd as [->|(p & y & Hin & ->)]; [lia|]. specialize (Hk _ _ Hin). lia. }
        split; [|split].
        - destruct Hd as [Hd|(p & y & Hin & Hd)]; [auto|]. right. exists p, y. split; auto. apply in_or_app; auto.
        - rewrite filter_app, cnt_app. simpl. destruct (N.leb_spec n' k); [|lia]. rewrite cnt_cons, cnt_nil. lia.
        - rewrite Hs. rewrite acut_app. unfold acut at 2. simpl. destruct (N.ltb_spec k n'); [lia|].
          rewrite app_nil_r. auto. }
      destruct x as [v|p]; simpl iv_conf.
      * destruct (Hrec _ E) as (H1 & H2 & H3). unfold vpz in H2; simpl in H2. repeat split; auto. lia.
      * destruct (vp_c p) eqn:Ec.
        -- destruct (Hrec _ E) as (H1 & H2 & H3). unfold vpz in H2; simpl in H2. repeat split; auto. lia.
        -- inversion E; subst. split; [|split].
           ++ right. exists k, (IProp p). split; auto. apply in_or_app. right. left. auto.
           ++ rewrite filter_ge_none; [rewrite cnt_nil; lia|]. intros j y Hin. specialize (Hall _ _ Hin). lia.
           ++ rewrite Hcut by lia. rewrite rev_app_distr. simpl. auto.
Qed.

(* ------------------------------------------------------------------------------------------- *)
(* the dense scan is the sparse scan over the enumeration of the slots *)

Lemma d_scan_sp : forall t i0 low n pvc, n <= i0 -> (forall k x, In (k, x) low -> k < n) ->
  d_scan (rev t) (i0 + nlen t - 1) n pvc = sp_scan true (rev (enum_from t i0) ++ low) n pvc.
Proof.
  intros t. induction t as [|y t' IH] using rev_ind; intros i0 low n pvc Hn Hlow.
  - simpl. symmetry. apply sp_scan_lt. auto.
  - rewrite rev_app_distr. simpl rev at 1. simpl app.
    rewrite nlen_app. replace (i0 + (nlen t' + nlen [y]) - 1) with (i0 + nlen t') by (unfold nlen; simpl; lia).
    rewrite enum_app, rev_app_distr.
    destruct y as [x|].
    + cbn [enum_from rev app]. try rewrite <- app_assoc. cbn [app].
      cbn [d_scan sp_scan]. destruct (N.ltb_spec (i0 + nlen t') n); [lia|].
      destruct x as [v|p].
      * apply IH; auto.
      * destruct (vp_c p); [apply IH; auto|reflexivity].
    + cbn [enum_from rev app d_scan]. apply IH; auto.
Qed.

Lemma d_scan_is_sp vs l pvc :
  d_scan (rev (skipn (N.to_nat (N.min l (nlen vs))) vs)) (nlen vs - 1) l pvc =
  sp_scan true (rev (enum_from vs 0)) l pvc.
Proof.
  destruct (N.leb_spec l (nlen vs)) as [Hl|Hl].
  - rewrite N.min_l by lia.
    set (m := N.to_nat l). assert (Hm : (m <= length vs)%nat) by (unfold nlen in Hl; lia).
    rewrite <- (firstn_skipn m vs) at 2 3.
    assert (Hp : nlen (firstn m vs) = l) by (unfold nlen; rewrite firstn_length; lia).
    rewrite nlen_app, Hp, enum_app, Hp, rev_app_distr. simpl (0 + l).
    replace (l + nlen (skipn m vs) - 1) with (l + nlen (skipn m vs) - 1) by auto.
    apply d_scan_sp; [lia|].
    intros k x Hin. apply in_rev in Hin. apply enum_bound in Hin. lia.
  - rewrite N.min_r by lia. rewrite skipn_all2 by (unfold nlen; lia). simpl.
    symmetry. apply sp_scan_lt. intros k x Hin. apply in_rev in Hin. apply enum_bound in Hin. lia.
Qed.

(* ------------------------------------------------------------------------------------------- *)
(* setLength at the level of the item list: what both storages compute *)

Definition items_setlen (items : list (N * ival)) (len : N) (pvc : Z) (l : N) : N * bool * Z :=
  if (l <=? len) && (0 <? pvc)%Z then sp_scan true (rev items) l pvc else (l, true, pvc).

Lemma items_setlen_refines items len pvc l ot ext pr n' ok pvc' :
  InvItems items len pvc -> items_setlen items len pvc l = (n', ok, pvc') ->
  s_array_set_length (mkS true len true (absL items) ot ext pr) l =
    (mkS true n' true (absL (acut items n')) ot ext pr, ok) /\
  InvItems (acut items n') n' pvc'.
Proof.
  intros (Hasc & Hkeys & Hclean & Hcnt) E. unfold items_setlen in E.
  assert (Hinv : forall m p, (count_vp_items (acut items m) <= p)%Z -> InvItems (acut items m) m p).
  { intros m p Hp. repeat split; auto.
    - apply acut_asc; auto.
    - intros k x Hin. apply acut_in in Hin. tauto.
    - intros k x Hin. apply acut_in in Hin. destruct Hin. eauto. }
  unfold s_array_set_length. simpl s_len. simpl s_lw. simpl s_el.
  destruct (N.leb_spec len l) as [Hll|Hll].
  - (* not shrinking *)
    rewrite orb_true_r.
    assert (E' : (n', ok, pvc') = (l, true, pvc)).
    { rewrite <- E. destruct ((l <=? len) && (0 <? pvc)%Z); auto.
      apply sp_scan_lt. intros k x Hin. apply in_rev in Hin. specialize (Hkeys _ _ Hin). lia. }
    inversion E'; subst.
    assert (Hc : acut items l = items) by (apply acut_all; intros k x Hin; specialize (Hkeys _ _ Hin); lia).
    rewrite Hc. split; [reflexivity|]. rewrite <- Hc. apply Hinv. rewrite Hc. auto.
  - simpl negb.
    destruct (N.leb_spec l len) as [_|]; [|lia]. simpl in E.
    assert (Hscan : exists p0, sp_scan true (rev items) l pvc = (n', ok, p0) /\
                      (pvc' = p0 \/ (pvc' = pvc /\ count_vp_items items = 0%Z))).
    { destruct (Z.ltb_spec 0 pvc).
      - exists pvc'. auto.
      - pose proof (cnt_nonneg items). assert (Hz : count_vp_items items = 0%Z) by lia.
        inversion E; subst. exists pvc'. split; auto.
        apply sp_scan_novp. intros k x Hin. apply in_rev in Hin. eapply cnt_zero_conf; eauto. }
    destruct Hscan as (p0 & Hs & Hp).
    destruct (sp_scan_spec _ _ _ _ _ _ _ Hasc Hs) as (Hd & Hp0 & HS).
    rewrite HS. rewrite rev_involutive, <- absL_acut. split; [reflexivity|].
    apply Hinv. pose proof (cnt_partition items n'). pose proof (cnt_nonneg (acut items n')).
    pose proof (cnt_nonneg (filter (fun p => (n' <=? fst p)%N) items)).
    destruct Hp as [->|[-> Hz]]; lia.
Qed.

(* ---- sparse --------------------------------------------------------------------------------- *)
Theorem sparse_setlength_refines s l : InvSp s -> l <= 4294967295 ->
  s_setlen (absS s) l = (absS (fst (sp_setLength s l)), berr (snd (sp_setLength s l))) /\
  InvSp (fst (sp_setLength s l)).
Proof.
  intros Hinv Hl. unfold sp_setLength, s_setlen, absS. simpl s_exotic. simpl s_lw.
  destruct (sa_lw s) eqn:Elw; simpl.
  - destruct (N.ltb_spec 4294967295 l); [lia|].
    unfold sp_setLengthInt, sp_setLengthInt_gen.
    change (if (l <=? sa_length s) && (0 <? sa_pvc s)%Z then sp_scan true (rev (sa_items s)) l (sa_pvc s)
            else (l, true, sa_pvc s)) with (items_setlen (sa_items s) (sa_length s) (sa_pvc s) l).
    destruct (items_setlen (sa_items s) (sa_length s) (sa_pvc s) l) as [[n' ok] pvc'] eqn:E.
    destruct (items_setlen_refines _ _ _ _ (absL (b_ot (sa_base s))) (b_ext (sa_base s)) (b_proto (sa_base s))
                _ _ _ Hinv E) as [HS HI].
    simpl. rewrite Elw. rewrite HS. simpl. split; auto.
  - rewrite Elw. split; auto.
Qed.

(* ---- dense ---------------------------------------------------------------------------------- *)
Theorem dense_setlength_refines d l : InvDn d -> l <= 4294967295 ->
  s_setlen (absD d) l = (absD (fst (d_setLength d l)), berr (snd (d_setLength d l))) /\
  InvDn (fst (d_setLength d l)).
Proof.
  intros [Hlen Hinv] Hl. unfold d_setLength, s_setlen, absD. simpl s_exotic. simpl s_lw.
  destruct (da_lw d) eqn:Elw; simpl.
  - destruct (N.ltb_spec 4294967295 l); [lia|].
    unfold d_setLengthInt. rewrite d_scan_is_sp.
    change (if (l <=? da_length d) && (0 <? da_pvc d)%Z
            then sp_scan true (rev (enum_from (da_values d) 0)) l (da_pvc d)
            else (l, true, da_pvc d))
      with (items_setlen (enum_from (da_values d) 0) (da_length d) (da_pvc d) l).
    destruct (items_setlen (enum_from (da_values d) 0) (da_length d) (da_pvc d) l) as [[n' ok] pvc'] eqn:E.
    destruct (items_setlen_refines _ _ _ _ (absL (b_ot (da_base d))) (b_ext (da_base d)) (b_proto (da_base d))
                _ _ _ Hinv E) as [HS HI].
    simpl. rewrite Elw, HS. simpl.
    assert (Hv : enum_from (if n' <=? nlen (da_values d) then firstn (N.to_nat n') (da_values d) else da_values d) 0
                 = acut (enum_from (da_values d) 0) n').
    { destruct (N.leb_spec n' (nlen (da_values d))).
      - rewrite enum_firstn. f_equal. lia.
      - symmetry. apply acut_all. intros k x Hin. apply enum_bound in Hin. lia. }
    rewrite Hv. split; [reflexivity|]. unfold InvDn. cbn [da_values da_length da_pvc]. rewrite Hv.
    split; [|exact HI].
    destruct (N.leb_spec n' (nlen (da_values d))).
    + unfold nlen. rewrite firstn_length. lia.
    + lia.
  - rewrite Elw. split; auto. split; auto.
Qed.

(* ------------------------------------------------------------------------------------------- *)
(* delete *)

Lemma lupd_length {A} (l : list A) : forall n x, length (lupd l n x) = length l.
Proof. induction l as [|y r IH]; intros [|n] x; simpl; auto. Qed.

Lemma dnth_some_lt vs k x : dnth vs k = Some x -> k < nlen vs.
Proof. unfold dnth. destruct (N.ltb_spec k (nlen vs)); [auto|discriminate]. Qed.

Theorem sparse_delete_refines s k : InvSp s -> k < MAXIDX ->
  s_delete (absS s) k = (absS (fst (sp_deleteIdx s k)), snd (sp_deleteIdx s k)) /\
  InvSp (fst (sp_deleteIdx s k)).
Proof.
  intros Hinv Hk. destruct (sparse_delete s k Hk) as [H1 H2]. split.
  - rewrite H1, H2. destruct (s_delete (absS s) k); auto.
  - destruct Hinv as (Hasc & Hkeys & Hclean & Hcnt). unfold sp_deleteIdx.
    assert (Hi : forall pv, (pv = sa_pvc s - ovpz (alookup (sa_items s) k))%Z ->
                 InvSp (mkSA (adel (sa_items s) k) (sa_length s) pv (sa_lw s) (sa_base s))).
    { intros pv Hpv. repeat split; simpl.
      - apply adel_asc; auto.
      - intros j y Hin. apply adel_in in Hin. eauto.
      - intros j y Hin. apply adel_in in Hin. eauto.
      - erewrite cnt_adel; eauto. lia. }
    destruct (alookup (sa_items s) k) as [[v|p]|] eqn:E; simpl.
    + apply Hi. simpl. unfold vpz; simpl. lia.
    + destruct (vp_c p); simpl; [|repeat split; auto]. apply Hi. simpl. unfold vpz; simpl. lia.
    + repeat split; auto.
Qed.

Theorem dense_delete_refines d k : InvDn d -> k < MAXIDX ->
  s_delete (absD d) k = (absD (fst (d_deleteIdx d k)), snd (d_deleteIdx d k)) /\
  InvDn (fst (d_deleteIdx d k)).
Proof.
  intros [Hlen (Hasc & Hkeys & Hclean & Hcnt)] Hk. apply N.ltb_lt in Hk.
  unfold d_deleteIdx, s_delete, s_getown, s_remove. simpl s_el. rewrite Hk.
  unfold absD at 1. simpl s_el. rewrite alookup_absL, enum_lookup_dnth.
  assert (Hi : forall oc pv x, dnth (da_values d) k = Some x -> (pv = - ovpz (Some x))%Z ->
     absD (d_put (d_cnt d oc pv) k None) =
       s_with_el (absD d) (adel (absL (enum_from (da_values d) 0)) k) /\
     InvDn (d_put (d_cnt d oc pv) k None)).
  { intros oc pv x Hx Hpv. pose proof (dnth_some_lt _ _ _ Hx) as Hlt.
    unfold d_put, d_cnt. simpl da_values. apply N.ltb_lt in Hlt. rewrite Hlt. apply N.ltb_lt in Hlt.
    assert (Hn : (N.to_nat k < length (da_values d))%nat) by (unfold nlen in Hlt; lia).
    assert (He : enum_from (lupd (da_values d) (N.to_nat k) None) 0 = adel (enum_from (da_values d) 0) k).
    { rewrite enum_upd_none by auto. f_equal. lia. }
    split.
    - unfold absD, s_with_el. simpl. rewrite He, absL_adel. reflexivity.
    - split; simpl.
      + unfold nlen. rewrite lupd_length. auto.
      + rewrite He. repeat split.
        * apply adel_asc; auto.
        * intros j y Hin. apply adel_in in Hin. eauto.
        * intros j y Hin. apply adel_in in Hin. eauto.
        * erewrite cnt_adel; eauto. rewrite enum_lookup_dnth, Hx. lia. }
  destruct (dnth (da_values d) k) as [[v|p]|] eqn:E; cbn [option_map]; rewrite ?conf_abs; cbn [iv_conf].
  - destruct (Hi (-1)%Z 0%Z (IPlain v) eq_refl) as [H1 H2]; [simpl; unfold vpz; simpl; lia|].
    cbn [fst snd]. rewrite H1. split; auto.
  - destruct (vp_c p); cbn [fst snd].
    + destruct (Hi (-1)%Z (-1)%Z (IProp p) eq_refl) as [H1 H2]; [simpl; unfold vpz; simpl; lia|].
      rewrite H1. split; auto.
    + split; auto. split; auto. repeat split; auto.
  - cbn [fst snd]. split; auto. split; auto. repeat split; auto.
Qed.
