(* C07 — counters, sparse side: propValueCount stays exact under write and define, and the sparse -> dense switch
   hands exact counters to the dense storage. No axioms. *)
From Coq Require Import List NArith ZArith Bool Lia.
Import ListNotations.
From Verif.C07 Require Import Model Proofs ProofsLib ProofsLen ProofsOps ProofsCount.
Local Open Scope N_scope.

Lemma present_enum vs : forall i, count_present vs = Z.of_nat (length (enum_from vs i)).
Proof.
  induction vs as [|[x|] r IH]; intros i; [reflexivity| |]; rewrite count_present_cons; cbn [enum_from length opz].
  - rewrite (IH (i + 1)). lia.
  - rewrite (IH (i + 1)). lia.
Qed.

(* the dense array produced by sparseArrayObject.expand has exact counters once the pending element is stored *)
Lemma s2d_store_exact s k x m : InvSp s -> sa_pvc s = count_vp_items (sa_items s) ->
  alookup (sa_items s) k = None -> k <= m -> (forall j y, In (j, y) (sa_items s) -> j <= m) ->
  ExactD (d_put (d_cnt (expand_s2d s m) 1 (if is_vp x then 1 else 0)) k (Some x)).
Proof.
  intros (Hasc & Hkeys & Hclean & Hcnt) Hp Hn Hk Hm.
  set (a := d_cnt (expand_s2d s m) 1 (if is_vp x then 1 else 0)).
  assert (Hvals : enum_from (da_values a) 0 = sa_items s).
  { subst a. simpl. apply enum_fill; [apply asc_ascg; auto|]. intros j y Hin. specialize (Hm _ _ Hin). lia. }
  assert (Hnl : nlen (da_values a) = m + 1) by (subst a; simpl; unfold nlen; rewrite fill_len; lia).
  assert (Hd : dnth (da_values a) k = None) by (rewrite <- enum_lookup_dnth, Hvals; auto).
  destruct (d_put_counts a k (Some x)) as [H1 H2]; [lia|].
  split; [rewrite H1|rewrite H2]; rewrite Hd.
  - rewrite (present_enum _ 0), Hvals. subst a. simpl. unfold nlen. lia.
  - rewrite <- (cnt_enum _ 0), Hvals. subst a. simpl. unfold vpz. destruct (is_vp x); lia.
Qed.

Theorem sparse_define_counters s k dsc : InvSp s -> ExactA (IS s) -> ExactA (fst (sp_defineIdx s k dsc)).
Proof.
  intros Hinv Hp. pose proof Hinv as (Hasc & Hkeys & Hclean & Hcnt). simpl in Hp. unfold sp_defineIdx.
  destruct (goja_define (b_ext (sa_base s)) (alookup (sa_items s) k) dsc) as [prop|]; [|exact Hp].
  assert (Hstep : exists s1 ok, (if sa_length s <=? k then sp_setLengthInt_chk s (k + 1) else (s, true)) = (s1, ok) /\
                  sa_items s1 = sa_items s /\ sa_pvc s1 = sa_pvc s /\ sa_length s <= sa_length s1 /\
                  (ok = true -> k < sa_length s1)).
  { destruct (N.leb_spec (sa_length s) k).
    - destruct (sa_lw s) eqn:Ew.
      + rewrite sp_grow by auto. eexists _, _. split; [reflexivity|]. simpl. repeat split; auto; lia.
      + unfold sp_setLengthInt_chk. destruct (N.eqb_spec (k + 1) (sa_length s)); [lia|]. rewrite Ew. simpl.
        eexists _, _. split; [reflexivity|]. repeat split; auto; [lia|discriminate].
    - eexists _, _. split; [reflexivity|]. repeat split; auto; lia. }
  destruct Hstep as (s1 & ok & E1 & Hi1 & Hp1 & Hl1 & Hk1). rewrite E1.
  destruct ok; simpl negb; cbv iota; [|simpl; rewrite Hi1, Hp1; exact Hp].
  specialize (Hk1 eq_refl).
  destruct (alookup (sa_items s) k) as [old|] eqn:Eold.
  - simpl. rewrite Hi1, Hp1. erewrite cnt_ains; eauto; [|lia]. rewrite Eold. simpl. unfold vpz.
    destruct (is_vp old), (is_vp prop); lia.
  - destruct (sp_expand_cases s1 k) as [Ee|Ee]; rewrite Ee.
    + simpl. rewrite Hi1, Hp1. erewrite cnt_ains; eauto; [|lia]. rewrite Eold. simpl. unfold vpz.
      destruct (is_vp prop); lia.
    + cbn [fst ExactA]. apply s2d_store_exact.
      * unfold InvSp. rewrite Hi1, Hp1. repeat split; auto. intros j y Hin. specialize (Hkeys _ _ Hin). lia.
      * rewrite Hi1, Hp1. exact Hp.
      * rewrite Hi1. exact Eold.
      * lia.
      * intros j y Hin. rewrite Hi1 in *. pose proof (last_key_max _ _ _ _ Hasc Hin). lia.
Qed.

Theorem sparse_set_counters s k v : InvSp s -> ExactA (IS s) -> ExactA (fst (sp_setOwnIdx s k v)).
Proof.
  intros Hinv Hp. pose proof Hinv as (Hasc & Hkeys & Hclean & Hcnt). simpl in Hp. unfold sp_setOwnIdx.
  destruct (alookup (sa_items s) k) as [[w|p]|] eqn:Eold.
  - simpl. erewrite cnt_ains; eauto; [|lia]. rewrite Eold. simpl. unfold vpz; simpl. lia.
  - destruct (negb (vp_isWritable p)); simpl; [exact Hp|].
    erewrite cnt_ains; eauto; [|lia]. rewrite Eold. simpl. unfold vpz; simpl. lia.
  - destruct (proto_set_foreign (b_proto (sa_base s)) k); [exact Hp|].
    destruct (b_ext (sa_base s)); simpl negb; cbv iota; [|exact Hp].
    assert (Hstep : exists s1 ok, (if sa_length s <=? k then sp_setLengthInt_chk s (k + 1) else (s, true)) = (s1, ok) /\
                    sa_items s1 = sa_items s /\ sa_pvc s1 = sa_pvc s /\ sa_length s <= sa_length s1).
    { destruct (N.leb_spec (sa_length s) k).
      - destruct (sa_lw s) eqn:Ew.
        + rewrite sp_grow by auto. eexists _, _. split; [reflexivity|]. simpl. repeat split; auto; lia.
        + unfold sp_setLengthInt_chk. destruct (N.eqb_spec (k + 1) (sa_length s)); [lia|]. rewrite Ew. simpl.
          eexists _, _. split; [reflexivity|]. repeat split; auto; lia.
      - eexists _, _. split; [reflexivity|]. repeat split; auto; lia. }
    destruct Hstep as (s1 & ok & E1 & Hi1 & Hp1 & Hl1). rewrite E1.
    destruct ok; simpl negb; cbv iota; [|simpl; rewrite Hi1, Hp1; exact Hp].
    destruct (sp_expand_cases s1 k) as [Ee|Ee]; rewrite Ee.
    + simpl. rewrite Hi1, Hp1. erewrite cnt_ains; eauto; [|lia]. rewrite Eold. simpl. unfold vpz; simpl. lia.
    + cbn [fst ExactA].
      change (d_cnt (expand_s2d s1 (N.max k (last_key (sa_items s1)))) 1 0)
        with (d_cnt (expand_s2d s1 (N.max k (last_key (sa_items s1)))) 1 (if is_vp (IPlain v) then 1 else 0)).
      apply s2d_store_exact.
      * unfold InvSp. rewrite Hi1, Hp1. repeat split; auto. intros j y Hin. specialize (Hkeys _ _ Hin). lia.
      * rewrite Hi1, Hp1. exact Hp.
      * rewrite Hi1. exact Eold.
      * lia.
      * intros j y Hin. rewrite Hi1 in *. pose proof (last_key_max _ _ _ _ Hasc Hin). lia.
Qed.

(* ------------------------------------------------------------------------------------------- *)
(* along every history the counters are exact *)
From Verif.C07 Require Import ProofsSet ProofsHist.

Lemma mstep_counters a o : InvA a -> ExactA a -> op_ok a o -> ExactA (fst (i_mstep a o)).
Proof.
  intros Hinv Hex Hok. destruct o as [k v|l|k|k dsc]; simpl in Hok.
  - apply N.ltb_lt in Hok. unfold i_mstep, i_set. rewrite Hok. destruct a as [d|s].
    + pose proof (dense_set_counters_all d k v Hinv Hex). destruct (d_setOwnIdx d k v); auto.
    + pose proof (sparse_set_counters s k v Hinv Hex). destruct (sp_setOwnIdx s k v); auto.
  - unfold i_mstep, i_setLength. destruct a as [d|s].
    + pose proof (dense_setlength_counters d l Hinv Hex). destruct (d_setLength d l); auto.
    + pose proof (sparse_setlength_counters s l Hinv Hex). destruct (sp_setLength s l); auto.
  - apply N.ltb_lt in Hok. unfold i_mstep, i_delete. rewrite Hok. destruct a as [d|s].
    + pose proof (dense_delete_counters d k Hex). destruct (d_deleteIdx d k); auto.
    + destruct Hinv as (Hasc & _). pose proof (sparse_delete_counters s k Hasc Hex). destruct (sp_deleteIdx s k); auto.
  - destruct Hok as [Hk _]. apply N.ltb_lt in Hk. unfold i_mstep, i_define. rewrite Hk. destruct a as [d|s].
    + pose proof (dense_define_counters_all d k dsc Hinv Hex). destruct (d_defineIdx d k dsc); auto.
    + pose proof (sparse_define_counters s k dsc Hinv Hex). destruct (sp_defineIdx s k dsc); auto.
Qed.

Theorem counters_history : forall ops a, InvA a -> ExactA a -> hist_ok a ops -> ExactA (fst (i_run a ops)).
Proof.
  induction ops as [|o r IH]; intros a Hinv Hex Hok; simpl; auto.
  destruct Hok as [Ho Hr].
  pose proof (mstep_counters a o Hinv Hex Ho) as Hex'.
  destruct (mstep_refines a o Hinv Ho) as [_ Hinv'].
  destruct (i_mstep a o) as [a' x]; simpl in *.
  specialize (IH a' Hinv' Hex' Hr). destruct (i_run a' r); simpl in *. auto.
Qed.

Lemma init_exact vs : (forall x, In (Some x) vs -> exists v, x = IPlain v) ->
  ExactA (ID (mkDA vs (nlen vs) (count_present vs) 0 true (mkB true [] []))).
Proof.
  intros Hpl. simpl. split; simpl; auto. unfold count_vp.
  assert (Hz : filter (fun x => match x with Some (IProp _) => true | _ => false end) vs = []).
  { induction vs as [|[[v|p]|] r IH]; simpl; auto.
    - apply IH. intros; apply Hpl; right; auto.
    - destruct (Hpl (IProp p) (or_introl eq_refl)) as [v Hv]. discriminate.
    - apply IH. intros; apply Hpl; right; auto. }
  rewrite Hz. reflexivity.
Qed.
