(* C07 — lemmas.  No axioms. *)
From Coq Require Import List NArith ZArith Bool Lia Permutation Sorted.
Import ListNotations.
From Verif.C07 Require Import Model.
From Verif.C07 Require Export ProofsDefine.
Local Open Scope N_scope.

(* ------------------------------------------------------------------------------------------- *)
(* 2. the abstraction commutes with the finite-map operations *)

Lemma conf_abs x : el_conf (absE x) = iv_conf x.
Proof. destruct x as [v|p]; simpl; auto. destruct (vp_acc p); auto. Qed.

Lemma getv_abs x : iv_clean x = true -> el_getv (absE x) = iv_getv x.
Proof.
  destruct x as [v|[pv pw pe pc pa pg ps]]; simpl; auto.
  unfold vp_clean, vp_getv; simpl. destruct pa; simpl; intros H.
  - apply andb_true_iff in H; destruct H as [_ H]. apply N.eqb_eq in H; subst. destruct pg; auto.
  - apply andb_true_iff in H; destruct H as [H _]. destruct pg; simpl in H; try discriminate; auto.
Qed.

Lemma alookup_absL l k : alookup (absL l) k = option_map absE (alookup l k).
Proof. induction l as [|[j x] r IH]; simpl; auto. destruct (j =? k); auto. Qed.

Lemma absL_ains l k x : absL (ains l k x) = ains (absL l) k (absE x).
Proof.
  induction l as [|[j y] r IH]; simpl; auto.
  destruct (k <? j); simpl; auto. destruct (k =? j); simpl; auto. f_equal; auto.
Qed.

Lemma absL_adel l k : absL (adel l k) = adel (absL l) k.
Proof. induction l as [|[j y] r IH]; simpl; auto. destruct (j =? k); simpl; auto. f_equal; auto. Qed.

Lemma absL_acut l n : absL (acut l n) = acut (absL l) n.
Proof.
  unfold acut. induction l as [|[j y] r IH]; simpl; auto.
  destruct (j <? n); simpl; auto. f_equal; auto.
Qed.

Lemma absL_oput l k x : absL (oput l k x) = oput (absL l) k (absE x).
Proof. induction l as [|[j y] r IH]; simpl; auto. destruct (j =? k); simpl; auto. f_equal; auto. Qed.

(* ------------------------------------------------------------------------------------------- *)
(* 3. the sparse storage refines S *)

Definition InvS (s : sparr) : Prop :=
  forall k x, alookup (sa_items s) k = Some x -> iv_clean x = true.

Lemma sparse_getown s k : i_getown (IS s) k = s_getown (absS s) k.
Proof.
  unfold i_getown, i_getown_iv, s_getown, absS; simpl.
  destruct (k <? MAXIDX); rewrite alookup_absL; auto.
Qed.

Lemma sparse_has s k : i_has (IS s) k = s_has (absS s) k.
Proof.
  unfold i_has, s_has. rewrite <- sparse_getown. unfold i_getown. simpl.
  destruct (i_getown_iv (IS s) k); auto.
Qed.

Lemma sparse_get s k : k < MAXIDX -> InvS s -> i_get (IS s) k = s_get (absS s) k.
Proof.
  intros Hk Hinv. unfold i_get, s_get. rewrite <- sparse_getown. unfold i_getown, i_getown_iv.
  apply N.ltb_lt in Hk. rewrite Hk. simpl.
  destruct (alookup (sa_items s) k) eqn:E; simpl; auto.
  symmetry; apply getv_abs. eapply Hinv; eauto.
Qed.

Lemma sparse_delete s k : k < MAXIDX ->
  absS (fst (sp_deleteIdx s k)) = fst (s_delete (absS s) k) /\
  snd (sp_deleteIdx s k) = snd (s_delete (absS s) k).
Proof.
  intros Hk. apply N.ltb_lt in Hk.
  unfold sp_deleteIdx, s_delete, s_getown, s_remove, absS; simpl. rewrite Hk. rewrite alookup_absL.
  destruct (alookup (sa_items s) k) as [[v|p]|] eqn:E; simpl; auto.
  - unfold s_with_el; simpl. rewrite absL_adel. auto.
  - destruct (vp_acc p) eqn:Ea; simpl; destruct (vp_c p); simpl; auto;
      unfold s_with_el; simpl; rewrite absL_adel; auto.
Qed.

(* ------------------------------------------------------------------------------------------- *)
(* 4. switching the storage is invisible *)

Lemma d2s_invisible a : absS (expand_d2s a) = absD a.
Proof. reflexivity. Qed.

Inductive asc : N -> list (N * ival) -> Prop :=
| asc_nil lo : asc lo []
| asc_cons lo k x r : lo <= k -> asc (k + 1) r -> asc lo ((k, x) :: r).

Lemma enum_fill items : forall n i, asc i items ->
  (forall k x, In (k, x) items -> k < i + N.of_nat n) ->
  enum_from (fill_from items i n) i = items.
Proof.
  intros n; revert items. induction n as [|n IH]; intros items i Hasc Hb.
  - destruct items as [|[k x] r]; auto. exfalso.
    inversion Hasc; subst. specialize (Hb k x (or_introl eq_refl)). simpl in Hb. lia.
  - destruct items as [|[k x] r]; simpl.
    + rewrite (IH [] (i + 1)); auto. constructor. intros ? ? [].
    + inversion Hasc; subst. destruct (k =? i) eqn:E.
      * apply N.eqb_eq in E; subst. simpl. f_equal. apply IH; auto.
        intros k' x' Hin. specialize (Hb k' x' (or_intror Hin)). lia.
      * apply N.eqb_neq in E. simpl. apply IH.
        -- constructor; auto; lia.
        -- intros k' x' Hin. specialize (Hb k' x' Hin). lia.
Qed.

Lemma s2d_invisible s m : asc 0 (sa_items s) ->
  (forall k x, In (k, x) (sa_items s) -> k <= m) ->
  absD (expand_s2d s m) = absS s.
Proof.
  intros Ha Hb. unfold absD, absS, expand_s2d; simpl. f_equal.
  rewrite enum_fill; auto. intros k x Hin. specialize (Hb k x Hin). lia.
Qed.

(* ------------------------------------------------------------------------------------------- *)
(* 5. ArraySetLength stops at the greatest non-configurable index *)

(* [r] in strictly descending key order *)
Inductive desc_sorted : list (N * element) -> Prop :=
| ds_nil : desc_sorted []
| ds_cons k e r : (forall k' e', In (k', e') r -> k' < k) -> desc_sorted r -> desc_sorted ((k, e) :: r).

Lemma filter_lt_all (r : list (N * element)) n :
  (forall k e, In (k, e) r -> k < n) -> filter (fun p => fst p <? n) r = r.
Proof.
  induction r as [|[k e] r IH]; simpl; auto. intros H.
  assert (k < n) by (eapply H; eauto). apply N.ltb_lt in H0. rewrite H0. f_equal. apply IH.
  intros; eapply H; eauto.
Qed.

Lemma del_down_spec : forall r n, desc_sorted r ->
  let '(rest, n', ok) := s_del_down r n in
  rest = filter (fun p => fst p <? n') r /\
  if ok then n' = n /\ (forall k e, In (k, e) r -> n <= k -> el_conf e = true)
  else exists p e, In (p, e) r /\ el_conf e = false /\ n <= p /\ n' = p + 1 /\
                   (forall k e', In (k, e') r -> p < k -> el_conf e' = true).
Proof.
  induction r as [|[k e] r IH]; intros n Hs; simpl.
  - repeat split; auto; intros ? ? [].
  - inversion Hs as [|? ? ? Hlt Hs']; subst.
    destruct (k <? n) eqn:E.
    + apply N.ltb_lt in E. simpl. rewrite (proj2 (N.ltb_lt _ _) E). split.
      * f_equal. symmetry. apply filter_lt_all. intros k' e' Hin. specialize (Hlt _ _ Hin). lia.
      * split; auto. intros k' e' [Heq|Hin] Hle.
        -- inversion Heq; subst. lia.
        -- specialize (Hlt _ _ Hin). lia.
    + apply N.ltb_ge in E. destruct (el_conf e) eqn:Ec.
      * specialize (IH n Hs'). destruct (s_del_down r n) as [[rest n'] ok]. destruct IH as [IH1 IH2].
        destruct ok.
        -- destruct IH2 as [-> IH2]. simpl. assert (k <? n = false) by (apply N.ltb_ge; lia). rewrite H.
           split; auto. split; auto. intros k' e' [Heq|Hin] Hle; [inversion Heq; subst; auto|eauto].
        -- destruct IH2 as (p & e0 & Hin & Hc & Hle & -> & Hgt). simpl.
           assert (k <? p + 1 = false).
           { apply N.ltb_ge. specialize (Hlt _ _ Hin). lia. }
           rewrite H. split; auto. exists p, e0. repeat split; auto.
           intros k' e' [Heq|Hin'] Hlt'; [inversion Heq; subst; auto|eauto].
      * simpl. assert (k <? k + 1 = true) by (apply N.ltb_lt; lia). rewrite H. split.
        -- f_equal. symmetry. apply filter_lt_all. intros k' e' Hin. specialize (Hlt _ _ Hin). lia.
        -- exists k, e. repeat split; auto. intros k' e' [Heq|Hin] Hgt.
           ++ inversion Heq; subst. lia.
           ++ specialize (Hlt _ _ Hin). lia.
Qed.

(* ------------------------------------------------------------------------------------------- *)
(* 6. recorded defects of the storages, exhibited on explicit states *)

Definition b0 := mkB true [] [].
Definition ncprop (v : val) := IProp (mkVP v false false false false None None).

(* the former F4 state (sparse, non-configurable element at 10, length := 10): refines since fix a4a2aa5 *)
Definition f4_state := mkSA [(10, ncprop 1); (5000, IPlain 1)] 5001 1 true b0.
Lemma sparse_setlength_f4_example :
  absS (fst (sp_setLength f4_state 10)) = fst (s_array_set_length (absS f4_state) 10) /\
  snd (sp_setLength f4_state 10) = false /\ sa_length (fst (sp_setLength f4_state 10)) = 11.
Proof. vm_compute. auto. Qed.

Definition f5_state := mkDA [Some (IPlain 1); Some (IPlain 2); Some (IPlain 3)] 3 3 0 true b0.
Definition counters_ok (d : darr) : bool :=
  (da_objCount d =? count_present (da_values d))%Z && (da_pvc d =? count_vp (da_values d))%Z.

(* the former witnesses of C07-N5 / F3 / C07-N6 now behave (fixes 57195f1, 8dbb372): regression examples *)
Example counters_truncate_example :
  counters_ok f5_state = true /\ counters_ok (fst (d_setLength f5_state 2)) = true.
Proof. vm_compute. auto. Qed.

Definition n6_state := mkDA [] 0 0 0 true b0.
Example pvc_after_switch_example :
  match fst (d_defineIdx n6_state 5000 (mkD (Some 1) None None None None (Some false))) with
  | IS s => sa_pvc s = 1%Z /\ count_vp_items (sa_items s) = 1%Z /\
            absS (fst (sp_setLength s 0)) = fst (s_array_set_length (absS s) 0)
  | _ => False end.
Proof. vm_compute. auto. Qed.

(* C07-N13 (repaired by bbc0a30): with an index property on Array.prototype the growing splice takes the generic
   path, which refines S (ProofsAlgo.splice_refines) *)
Definition n13_state :=
  mkDA [Some (IPlain 1); Some (IPlain 2); Some (IPlain 3)] 3 3 0 true (mkB true [] [(3, EAcc (Some 0) None false true)]).
Example splice_proto_example :
  i_splice (ID n13_state) 0 (Some 0%Z) [9] = a_splice primI (ID n13_state) 0 (Some 0%Z) [9] /\
  snd (i_splice (ID n13_state) 0 (Some 0%Z) [9]) = RErr 1.
Proof. vm_compute. auto. Qed.

(* ------------------------------------------------------------------------------------------- *)
(* 7. the sort validator *)

Lemma remove1_perm x : forall l l', remove1 x l = Some l' -> Permutation l (x :: l').
Proof.
  induction l as [|y r IH]; simpl; intros l' H; [discriminate|].
  destruct (x =? y) eqn:E.
  - apply N.eqb_eq in E; subst. inversion H; subst. apply Permutation_refl.
  - destruct (remove1 x r) as [r'|] eqn:E2; [|discriminate]. inversion H; subst.
    eapply perm_trans; [apply perm_skip; apply IH; reflexivity|apply perm_swap].
Qed.

Lemma perm_check_sound : forall i o, perm_check i o = true -> Permutation i o.
Proof.
  induction i as [|x r IH]; simpl; intros o H.
  - destruct o; [constructor|discriminate].
  - destruct (remove1 x o) as [o'|] eqn:E; [|discriminate].
    apply remove1_perm in E. eapply perm_trans; [apply perm_skip; apply IH; eauto|].
    apply Permutation_sym; auto.
Qed.

Lemma list_eqb_eq : forall a b, list_eqb a b = true -> a = b.
Proof.
  induction a as [|x r IH]; destruct b as [|y s]; simpl; intros H; try discriminate; auto.
  apply andb_true_iff in H; destruct H as [H1 H2]. apply N.eqb_eq in H1; subst. f_equal; auto.
Qed.

Lemma strongly_sortedb_sound cmp : forall l, strongly_sortedb cmp l = true ->
  StronglySorted (fun a b => (cmp a b <= 0)%Z) l.
Proof.
  induction l as [|x r IH]; simpl; intros H; constructor.
  - apply andb_true_iff in H; destruct H; auto.
  - apply andb_true_iff in H; destruct H as [H _]. rewrite forallb_forall in H.
    apply Forall_forall. intros y Hy. specialize (H y Hy). unfold cle in H. apply Z.leb_le; auto.
Qed.

Definition Stable (cmp : val -> val -> Z) (i o : list val) : Prop :=
  forall a, In a i -> filter (ceq cmp a) o = filter (ceq cmp a) i.

(* the recorded comparator is a total preorder on the elements of [l] *)
Definition Consistent (cmp : val -> val -> Z) (l : list val) : Prop :=
  (forall a, In a l -> cmp a a = 0%Z) /\
  (forall a b, In a l -> In b l -> ((cmp a b < 0)%Z <-> (0 < cmp b a)%Z) /\ (cmp a b = 0%Z <-> cmp b a = 0%Z)) /\
  (forall a b c, In a l -> In b l -> In c l -> (cmp a b <= 0)%Z -> (cmp b c <= 0)%Z -> (cmp a c <= 0)%Z).

Lemma consistentb_complete cmp l : Consistent cmp l -> consistentb cmp l = true.
Proof.
  intros (Hr & Hs & Ht). unfold consistentb. apply forallb_forall. intros a Ha.
  apply andb_true_iff; split.
  - unfold ceq. apply Z.eqb_eq; auto.
  - apply forallb_forall. intros b Hb. destruct (Hs a b Ha Hb) as [H1 H2].
    apply andb_true_iff; split; [apply andb_true_iff; split|].
    + apply eqb_true_iff. destruct (cmp a b <? 0)%Z eqn:E1, (0 <? cmp b a)%Z eqn:E2; auto.
      * apply Z.ltb_lt in E1. apply H1 in E1. apply Z.ltb_lt in E1. congruence.
      * apply Z.ltb_lt in E2. apply H1 in E2. apply Z.ltb_lt in E2. congruence.
    + apply eqb_true_iff. unfold ceq. destruct (cmp a b =? 0)%Z eqn:E1, (cmp b a =? 0)%Z eqn:E2; auto.
      * apply Z.eqb_eq in E1. apply H2 in E1. apply Z.eqb_eq in E1. congruence.
      * apply Z.eqb_eq in E2. apply H2 in E2. apply Z.eqb_eq in E2. congruence.
    + apply forallb_forall. intros c Hc. unfold cle.
      destruct ((cmp a b <=? 0)%Z && (cmp b c <=? 0)%Z) eqn:E; simpl; auto.
      apply andb_true_iff in E; destruct E as [E1 E2]. apply Z.leb_le in E1, E2.
      apply Z.leb_le. apply (Ht a b c); auto.
Qed.

Lemma check_sort_sound : forall cmp i o, check_sort cmp i o = true ->
  Permutation i o /\
  (Consistent cmp i -> StronglySorted (fun a b => (cmp a b <= 0)%Z) o /\ Stable cmp i o).
Proof.
  intros cmp i o H. unfold check_sort in H. apply andb_true_iff in H; destruct H as [Hp Hs].
  split; [apply perm_check_sound; auto|].
  intros Hc. apply consistentb_complete in Hc. rewrite Hc in Hs. simpl in Hs.
  apply andb_true_iff in Hs; destruct Hs as [Hs1 Hs2]. split.
  - apply strongly_sortedb_sound; auto.
  - unfold Stable, stableb in *. rewrite forallb_forall in Hs2. intros a Ha.
    apply list_eqb_eq. auto.
Qed.

(* shape of a sorted array (23.1.3.30): defined values, then the undefineds, then the holes *)
Lemma olist_eqb_eq : forall a b, olist_eqb a b = true -> a = b.
Proof.
  induction a as [|[x|] r IH]; destruct b as [|[y|] s]; simpl; intros H; try discriminate; auto.
  - apply andb_true_iff in H; destruct H as [H1 H2]. apply N.eqb_eq in H1; subst. f_equal; auto.
  - f_equal; auto.
Qed.

Lemma check_sort_array_sound : forall cmp i o, check_sort_array cmp i o = true ->
  o = map Some (defined_of o) ++ repeat (Some vundef) (count_undef i) ++ repeat None (count_holes i) /\
  Permutation (defined_of i) (defined_of o) /\
  (Consistent cmp (defined_of i) ->
     StronglySorted (fun a b => (cmp a b <= 0)%Z) (defined_of o) /\ Stable cmp (defined_of i) (defined_of o)).
Proof.
  intros cmp i o H. unfold check_sort_array in H. apply andb_true_iff in H; destruct H as [H1 H2].
  apply olist_eqb_eq in H1. apply check_sort_sound in H2. destruct H2. auto.
Qed.

(* non-vacuity *)
Example check_sort_accepts :
  let cmp := fun a b => (Z.of_N (a mod 8) - Z.of_N (b mod 8))%Z in
  check_sort cmp [9; 3; 1; 11; 2] [9; 1; 2; 3; 11] = true /\ consistentb cmp [9; 3; 1; 11; 2] = true /\
  check_sort cmp [9; 3; 1; 11; 2] [1; 9; 2; 3; 11] = false /\        (* not stable: 9 and 1 tie *)
  check_sort cmp [9; 3; 1; 11; 2] [9; 1; 2; 3; 3] = false.           (* not a permutation *)
Proof. vm_compute. auto. Qed.

Example sort_array_shape :
  check_sort_array (fun a b => (Z.of_N a - Z.of_N b)%Z) [Some 5; None; Some 0; Some 2] [Some 2; Some 5; Some 0; None] = true.
Proof. vm_compute. reflexivity. Qed.
