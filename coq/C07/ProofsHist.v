(* C07 — histories: the combined object I (either storage, switching at will) refines S along EVERY history of
   indexed writes, length assignments, deletes and defines (no side conditions beyond well-formed arguments).
   No axioms. *)
From Coq Require Import List NArith ZArith Bool Lia.
Import ListNotations.
From Verif.C07 Require Import Model Proofs ProofsLib ProofsLen ProofsOps ProofsSet.
Local Open Scope N_scope.

Inductive mop := MSet (k : N) (v : val) | MSetLen (l : N) | MDelete (k : N) | MDefine (k : N) (d : pdesc).

Definition i_mstep (a : iarr) (o : mop) : iarr * N :=
  match o with
  | MSet k v => let '(a', r) := i_set a k v in (a', berr r)
  | MSetLen l => let '(a', r) := i_setLength a l in (a', berr r)
  | MDelete k => let '(a', r) := i_delete a k in (a', berr r)
  | MDefine k d => let '(a', r) := i_define a k d in (a', berr r)
  end.
Definition s_mstep (a : sarr) (o : mop) : sarr * N :=
  match o with
  | MSet k v => let '(a', r) := s_set a k v in (a', berr r)
  | MSetLen l => s_setlen a l
  | MDelete k => let '(a', r) := s_delete a k in (a', berr r)
  | MDefine k d => let '(a', r) := s_define a k d in (a', berr r)
  end.

(* side conditions of one step: index keys, valid lengths, descriptors as ToPropertyDescriptor produces them *)
Definition op_ok (a : iarr) (o : mop) : Prop :=
  match o with
  | MSet k _ => k < MAXIDX
  | MSetLen l => l <= 4294967295
  | MDelete k => k < MAXIDX
  | MDefine k dsc => k < MAXIDX /\ desc_wf dsc = true
  end.

Lemma mstep_refines a o : InvA a -> op_ok a o ->
  s_mstep (absA a) o = (absA (fst (i_mstep a o)), snd (i_mstep a o)) /\ InvA (fst (i_mstep a o)).
Proof.
  intros Hinv Hok. destruct o as [k v|l|k|k dsc]; simpl in Hok.
  - pose proof Hok as Hk. apply N.ltb_lt in Hk. unfold i_mstep, s_mstep, i_set. rewrite Hk.
    destruct a as [d|s]; simpl absA.
    + destruct (dense_set_refines d k v Hinv Hok) as [H1 H2]. rewrite H1.
      destruct (d_setOwnIdx d k v); simpl in *. auto.
    + destruct (sparse_set_refines s k v Hinv Hok) as [H1 H2]. rewrite H1.
      destruct (sp_setOwnIdx s k v); simpl in *. auto.
  - unfold i_mstep, s_mstep, i_setLength. destruct a as [d|s]; simpl absA.
    + destruct (dense_setlength_refines d l Hinv Hok) as [H1 H2]. rewrite H1.
      destruct (d_setLength d l); simpl in *. auto.
    + destruct (sparse_setlength_refines s l Hinv Hok) as [H1 H2]. rewrite H1.
      destruct (sp_setLength s l); simpl in *. auto.
  - pose proof Hok as Hk. apply N.ltb_lt in Hk. unfold i_mstep, s_mstep, i_delete. rewrite Hk.
    destruct a as [d|s]; simpl absA.
    + destruct (dense_delete_refines d k Hinv Hok) as [H1 H2]. rewrite H1.
      destruct (d_deleteIdx d k); simpl in *. auto.
    + destruct (sparse_delete_refines s k Hinv Hok) as [H1 H2]. rewrite H1.
      destruct (sp_deleteIdx s k); simpl in *. auto.
  - destruct Hok as (Hk0 & Hwf). pose proof Hk0 as Hk. apply N.ltb_lt in Hk.
    unfold i_mstep, s_mstep, i_define. rewrite Hk.
    destruct a as [d|s]; simpl absA.
    + destruct (dense_define_refines d k dsc Hinv Hk0 Hwf) as [H1 H2]. rewrite H1.
      destruct (d_defineIdx d k dsc); simpl in *. auto.
    + destruct (sparse_define_refines s k dsc Hinv Hk0 Hwf) as [H1 H2]. rewrite H1.
      destruct (sp_defineIdx s k dsc); simpl in *. auto.
Qed.

Fixpoint i_run (a : iarr) (ops : list mop) : iarr * list N :=
  match ops with
  | [] => (a, [])
  | o :: r => let '(a', x) := i_mstep a o in let '(a'', xs) := i_run a' r in (a'', x :: xs)
  end.
Fixpoint s_run (a : sarr) (ops : list mop) : sarr * list N :=
  match ops with
  | [] => (a, [])
  | o :: r => let '(a', x) := s_mstep a o in let '(a'', xs) := s_run a' r in (a'', x :: xs)
  end.
Fixpoint hist_ok (a : iarr) (ops : list mop) : Prop :=
  match ops with
  | [] => True
  | o :: r => op_ok a o /\ hist_ok (fst (i_mstep a o)) r
  end.

Theorem history_refines : forall ops a, InvA a -> hist_ok a ops ->
  s_run (absA a) ops = (absA (fst (i_run a ops)), snd (i_run a ops)) /\ InvA (fst (i_run a ops)).
Proof.
  induction ops as [|o r IH]; intros a Hinv Hok; simpl.
  - auto.
  - destruct Hok as [Ho Hr]. destruct (mstep_refines a o Hinv Ho) as [H1 H2]. rewrite H1.
    destruct (i_mstep a o) as [a' x]; simpl in *.
    destruct (IH a' H2 Hr) as [H3 H4]. rewrite H3.
    destruct (i_run a' r) as [a'' xs]; simpl in *. auto.
Qed.

(* the empty dense array created by a literal satisfies the invariant *)
Lemma init_inv vs : (forall x, In (Some x) vs -> exists v, x = IPlain v) ->
  InvA (ID (mkDA vs (nlen vs) (count_present vs) 0 true (mkB true [] []))).
Proof.
  intros Hpl. simpl. unfold InvDn. simpl. split; [lia|]. repeat split.
  - apply enum_asc.
  - intros k x Hin. apply enum_bound in Hin. lia.
  - intros k x Hin. assert (Hs : In (Some x) vs).
    { pose proof (alookup_in _ _ _ _ (enum_asc vs 0) (in_alookup _ _ _ _ (enum_asc vs 0) Hin)) as _.
      pose proof (in_alookup _ _ _ _ (enum_asc vs 0) Hin) as Hl. rewrite enum_lookup_dnth in Hl.
      unfold dnth in Hl. destruct (k <? nlen vs); [|discriminate].
      destruct (nth_error vs (N.to_nat k)) eqn:E; [|discriminate]. subst. eapply nth_error_In; eauto. }
    destruct (Hpl _ Hs) as [v ->]. reflexivity.
  - rewrite cnt_enum. unfold count_vp.
    assert (Hz : filter (fun x => match x with Some (IProp _) => true | _ => false end) vs = []).
    { clear - Hpl. induction vs as [|[[v|p]|] r IH]; simpl; auto.
      - apply IH. intros; apply Hpl; right; auto.
      - destruct (Hpl (IProp p) (or_introl eq_refl)) as [v Hv]. discriminate.
      - apply IH. intros; apply Hpl; right; auto. }
    rewrite Hz. simpl. lia.
Qed.
