(* C07 — the dense storage: reads and delete refine S.  No axioms. *)
From Coq Require Import List NArith ZArith Bool Lia.
Import ListNotations.
From Verif.C07 Require Import Model Proofs.
Local Open Scope N_scope.

Definition slot (vs : list (option ival)) (n : nat) : option ival :=
  match nth_error vs n with Some x => x | None => None end.

Lemma enum_lookup : forall vs i k,
  alookup (enum_from vs i) k = if k <? i then None else slot vs (N.to_nat (k - i)).
Proof.
  unfold slot. induction vs as [|x r IH]; intros i k.
  - simpl. destruct (k <? i); auto. destruct (N.to_nat (k - i)); auto.
  - assert (Hstep : forall y, (if k <? i then None else
                      match nth_error (y :: r) (N.to_nat (k - i)) with Some z => z | None => None end) =
                     if i =? k then y else (if k <? i + 1 then None else
                      match nth_error r (N.to_nat (k - (i + 1))) with Some z => z | None => None end)).
    { intros y. destruct (N.eqb_spec i k) as [->|Hne].
      - rewrite N.ltb_irrefl. replace (N.to_nat (k - k)) with O by lia. reflexivity.
      - destruct (N.ltb_spec k i), (N.ltb_spec k (i + 1)); try lia; auto.
        replace (N.to_nat (k - i)) with (S (N.to_nat (k - (i + 1)))) by lia. reflexivity. }
    destruct x as [y|]; simpl.
    + rewrite IH. rewrite (Hstep (Some y)). reflexivity.
    + rewrite IH. rewrite (Hstep None). destruct (i =? k) eqn:E; auto.
      apply N.eqb_eq in E; subst. assert (k <? k + 1 = true) by (apply N.ltb_lt; lia). rewrite H. reflexivity.
Qed.

Lemma dnth_slot vs k : dnth vs k = slot vs (N.to_nat k).
Proof.
  unfold dnth, slot. destruct (k <? nlen vs) eqn:E; auto.
  apply N.ltb_ge in E. unfold nlen in E.
  assert (H : nth_error vs (N.to_nat k) = None) by (apply nth_error_None; lia). rewrite H. reflexivity.
Qed.

Lemma dense_getown d k : i_getown (ID d) k = s_getown (absD d) k.
Proof.
  unfold i_getown, i_getown_iv, s_getown, absD; simpl.
  destruct (k <? MAXIDX); rewrite alookup_absL; auto.
  rewrite enum_lookup, dnth_slot. simpl. rewrite N.sub_0_r. destruct k; reflexivity.
Qed.

Lemma dense_has d k : i_has (ID d) k = s_has (absD d) k.
Proof.
  unfold i_has, s_has. rewrite <- dense_getown. unfold i_getown. simpl.
  destruct (i_getown_iv (ID d) k); auto.
Qed.

Definition InvD (d : darr) : Prop :=
  forall k x, dnth (da_values d) k = Some x -> iv_clean x = true.

Lemma dense_get d k : k < MAXIDX -> InvD d -> i_get (ID d) k = s_get (absD d) k.
Proof.
  intros Hk Hinv. unfold i_get, s_get. rewrite <- dense_getown. unfold i_getown, i_getown_iv.
  apply N.ltb_lt in Hk. rewrite Hk. simpl.
  destruct (dnth (da_values d) k) eqn:E; simpl; auto.
  symmetry; apply getv_abs. eapply Hinv; eauto.
Qed.
