(* C08 — executable instantiation used by the correspondence check (depends on Model.v only). *)
From Coq Require Import List Arith NArith ZArith Bool.
Import ListNotations.
From Verif.C08 Require Export Model.

Fixpoint sl (l : list stmt) : stmts := match l with [] => SNil | s :: r => SCons s (sl r) end.

(* built-in consumers of an instrumented iterator (destructuring, spread, Array.from, new Map, Promise.all):
   want = Some k: the consumer stops after k values (array destructuring pattern of k elements);
   sthrow = Some (j, v): the consumer's own step on the j-th value throws v (mapFn, non-object entry, resolve). *)
(* the value thrown by a failing consumer step: 0 encodes a TypeError raised by the built-in itself *)
Definition sval (sv : nat) : val := match sv with O => VTypeErr | _ => VNum sv end.

Fixpoint consume (fuel : nat) (it : iterd) (want : option nat) (sthrow : option (nat * nat)) (idx : nat)
  : list event * outcome :=
  match fuel with O => ([], OStuck) | S n =>
  let id := it_id it in
  let close_normal :=
      match it_ret it with
      | RetMissing => ([], OValue VUndef)
      | RetOk => ([EReturn id], OValue VUndef)
      | RetThrow v => ([EReturn id], OThrow (VNum v))
      | RetNonObj => ([EReturn id], OThrow VTypeErr)
      end in
  let close_ev := match it_ret it with RetMissing => [] | _ => [EReturn id] end in
  if match want with Some k => Nat.eqb k idx | None => false end then close_normal
  else
    match it_throw it with
    | Some (j, v) =>
        if Nat.eqb j idx then ([ENext id], OThrow (VNum v)) else
        if Nat.leb (it_len it) idx then ([ENext id], OValue VUndef) else
        match sthrow with
        | Some (sj, sv) => if Nat.eqb sj idx then (ENext id :: close_ev, OThrow (sval sv))
                           else let '(t, o) := consume n it want sthrow (S idx) in (ENext id :: t, o)
        | None => let '(t, o) := consume n it want sthrow (S idx) in (ENext id :: t, o)
        end
    | None =>
        if Nat.leb (it_len it) idx then ([ENext id], OValue VUndef) else
        match sthrow with
        | Some (sj, sv) => if Nat.eqb sj idx then (ENext id :: close_ev, OThrow (sval sv))
                           else let '(t, o) := consume n it want sthrow (S idx) in (ENext id :: t, o)
        | None => let '(t, o) := consume n it want sthrow (S idx) in (ENext id :: t, o)
        end
    end
  end.

Inductive tcase :=
| CProg (fnmode : bool) (prog : stmts) (sc : list bool) (otrace : list event) (oout : outcome)
| CBuiltin (it : iterd) (want : option nat) (sthrow : option (nat * nat)) (otrace : list event) (oout : outcome)
| CGenCatch (it : iterd) (want : nat) (otrace : list event) (oout : outcome)
| CGenOuter (nested thr : bool) (it1 it2 : iterd) (k : nat) (otrace : list event) (oout : outcome)
| CFail.

(* generator bodies whose for-of is OUTSIDE the try/finally:
     plain : for (x of it1) { try { yield x } finally { ev 901 } }
     nested: for (x of it1) { try { for (y of it2) { yield y } } finally { ev 901 } }
   driven by k next() calls (the harness only generates iterators that do deliver those k values) and then
   return(7) or throw(777): every open iterator is closed exactly once, innermost first, the finally block in between;
   a throwing / non-object return() decides the outcome only if no throw is pending (IteratorClose). *)
Definition close_ev (it : iterd) : list event :=
  match it_ret it with RetMissing => [] | _ => [EReturn (it_id it)] end.
Definition close_out (it : iterd) (pending : outcome) : outcome :=
  match pending with
  | OThrow _ => pending
  | _ => match it_ret it with
         | RetThrow v => OThrow (VNum v)
         | RetNonObj => OThrow VTypeErr
         | _ => pending
         end
  end.
Definition gen_outer (nested thr : bool) (it1 it2 : iterd) (k : nat) : list event * outcome :=
  let start := if thr then OThrow (VNum 777) else OValue VUndef in
  if nested then
    let o2 := close_out it2 start in
    ([ENext (it_id it1)] ++ repeat (ENext (it_id it2)) k ++ close_ev it2 ++ [EEv 901] ++ close_ev it1,
     close_out it1 o2)
  else
    (* each resumed iteration leaves its try block normally, so its finally runs before the next step *)
    (concat (repeat [ENext (it_id it1); EEv 901] k) ++ close_ev it1, close_out it1 start).

(* a generator body  try { yield* it  |  for (x of it) yield x } catch (e) { ev 900; throw e }  driven by [want] next()
   calls and then return(): whatever is thrown while stepping or closing the iterator is thrown at the suspended
   position of the body, so the body's catch clause runs (and rethrows) *)
Definition gen_catch (it : iterd) (want : nat) : list event * outcome :=
  let '(t, o) := consume 200 it (Some want) None 0 in
  match o with OThrow v => (t ++ [EEv 900], OThrow v) | _ => (t, o) end.

Fixpoint trace_eqb (a b : list event) : bool :=
  match a, b with
  | [], [] => true
  | x :: a', y :: b' => event_eqb x y && trace_eqb a' b'
  | _, _ => false
  end.

Definition obs_eqb (a b : list event * outcome) : bool :=
  trace_eqb (fst a) (fst b) && outcome_eqb (snd a) (snd b).

Definition sfuel := 400.
Definition ifuel := N.to_nat 20000.

Definition model_S (c : tcase) : list event * outcome :=
  match c with
  | CProg fm p sc _ _ => run_S sfuel fm p sc
  | CBuiltin it w st _ _ => consume 200 it w st 0
  | CGenCatch it w _ _ => gen_catch it w
  | CGenOuter n t i1 i2 k _ _ => gen_outer n t i1 i2 k
  | CFail => ([], OStuck)
  end.

Definition model_I (c : tcase) : list event * outcome :=
  match c with
  | CProg fm p sc _ _ => run_I ifuel fm p sc
  | CBuiltin it w st _ _ => consume 200 it w st 0
  | CGenCatch it w _ _ => gen_catch it w
  | CGenOuter n t i1 i2 k _ _ => gen_outer n t i1 i2 k
  | CFail => ([], OStuck)
  end.

Definition observed (c : tcase) : list event * outcome :=
  match c with
  | CProg _ _ _ t o => (t, o)
  | CBuiltin _ _ _ t o => (t, o)
  | CGenCatch _ _ t o => (t, o)
  | CGenOuter _ _ _ _ _ t o => (t, o)
  | CFail => ([], OValue VUndef)
  end.

Definition agrees_S (c : tcase) : bool := obs_eqb (observed c) (model_S c).
(* against I a crash is a prediction: the model executing an unpatched nil placeholder (or running out of fuel)
   corresponds to a Go panic escaping goja (observed as ([], OStuck)) *)
Definition both_stuck (a b : outcome) : bool :=
  match a, b with OStuck, OStuck => true | _, _ => false end.
Definition obs_eqb_I (a b : list event * outcome) : bool :=
  trace_eqb (fst a) (fst b) && (outcome_eqb (snd a) (snd b) || both_stuck (snd a) (snd b)).
Definition agrees_I (c : tcase) : bool :=
  match c with CFail => false | _ => obs_eqb_I (observed c) (model_I c) end.

Fixpoint mismatch_from (f : tcase -> bool) (i : N) (cs : list tcase) : list N :=
  match cs with
  | [] => []
  | c :: r => if f c then mismatch_from f (N.succ i) r else i :: mismatch_from f (N.succ i) r
  end.

(* the oracle is S *)
Definition mismatch_ids := mismatch_from agrees_S 0%N.

(* printed in replays: (implementation agrees with the faithful model I?, S says, I says) *)
Definition expected (c : tcase) := (agrees_I c, model_S c, model_I c).
