(* C08 — control-fragment language, S = ECMA-262 completion-record semantics (big-step, fuelled),
   I = goja's compiler_stmt.go control skeleton (compile) + vm.go try/finally/iterator machinery (vm_step).
   Executable definitions only.

   Transcription notes (I):
   - goja back-patches forward jumps (c.emit(nil) + block.breaks/conts resolved in leaveBlock); here the same
     targets are obtained by compiling the body once with dummy targets to measure its length (the length does
     not depend on target values) and then with the real ones.  The emitted instruction sequence is the same.
   - conditions are calls of a host function c() popping a script of booleans (never constant-folded);
     [IJneC]/[IJeqC] stand for "call c(); jneP/jeqP".
   - catch is the parameter-less form: goja emits [pop] for the pushed exception value. *)
From Coq Require Import List Arith ZArith Bool Lia.
Import ListNotations.

Inductive val := VUndef | VNum (n : nat) | VTypeErr.
Inductive payload := PInterrupt | PStackOverflow.
Inductive retkind := RetOk | RetThrow (n : nat) | RetNonObj | RetMissing.
Record iterd := mkIter { it_id : nat; it_len : nat; it_throw : option (nat * nat); it_ret : retkind }.
Inductive event := EEv (n : nat) | ENext (id : nat) | EReturn (id : nat).
Inductive loopkind := LWhile | LDoWhile | LFor (u : nat).

Inductive stmt :=
| Ev (e : nat)
| ExprVal (v : nat)
| Unc (p : payload)
| Block (b : stmts)
| If (s1 s2 : stmt)
| Loop (k : loopkind) (l : option nat) (body : stmt)
| ForOf (l : option nat) (it : iterd) (body : stmt)
| Labeled (l : nat) (b : stmts)
| Try (b : stmts) (hasc : bool) (c : stmts) (hasf : bool) (f : stmts)
| Break (l : option nat)
| Continue (l : option nat)
| Return (v : nat)
| Throw (v : nat)
with stmts := SNil | SCons (s : stmt) (r : stmts).

Definition val_eqb (a b : val) : bool :=
  match a, b with
  | VUndef, VUndef => true | VTypeErr, VTypeErr => true
  | VNum x, VNum y => Nat.eqb x y | _, _ => false end.
Definition payload_eqb (a b : payload) : bool :=
  match a, b with PInterrupt, PInterrupt => true | PStackOverflow, PStackOverflow => true | _, _ => false end.
Definition event_eqb (a b : event) : bool :=
  match a, b with
  | EEv x, EEv y => Nat.eqb x y | ENext x, ENext y => Nat.eqb x y | EReturn x, EReturn y => Nat.eqb x y
  | _, _ => false end.
Definition olabel_eqb (a b : option nat) : bool :=
  match a, b with None, None => true | Some x, Some y => Nat.eqb x y | _, _ => false end.

Definition cond (sc : list bool) : bool * list bool :=
  match sc with [] => (false, []) | b :: r => (b, r) end.

(* ================================================================================================ *)
(* S: ECMA-262 completion records                                                                    *)

Inductive compl :=
| CNormal (v : option val)
| CBreak (l : option nat) (v : option val)
| CContinue (l : option nat) (v : option val)
| CReturn (v : val)
| CThrow (v : val)
| CUnc (p : payload).     (* not ECMAScript: interrupt / stack overflow; nothing of the script may run after it *)

Definition update_empty (c : compl) (v : option val) : compl :=
  match c with
  | CNormal None => CNormal v
  | CBreak l None => CBreak l v
  | CContinue l None => CContinue l v
  | _ => c
  end.

Definition cval (c : compl) : option val :=
  match c with CNormal v | CBreak _ v | CContinue _ v => v | _ => None end.

Definition is_normal (c : compl) : bool := match c with CNormal _ => true | _ => false end.
Definition is_unc (c : compl) : bool := match c with CUnc _ => true | _ => false end.
Definition is_throw (c : compl) : bool := match c with CThrow _ => true | _ => false end.

(* LoopContinues(completion, labelSet); labelSet = {l} or {} *)
Definition loop_continues (c : compl) (lbl : option nat) : bool :=
  match c with
  | CNormal _ => true
  | CContinue None _ => true
  | CContinue (Some x) _ => match lbl with Some y => Nat.eqb x y | None => false end
  | _ => false
  end.

(* BreakableStatement / LabelledStatement evaluation applied to the loop's result *)
Definition loop_exit (lbl : option nat) (c : compl) : compl :=
  match c with
  | CBreak None v => CNormal v
  | CBreak (Some x) v => match lbl with Some y => if Nat.eqb x y then CNormal v else c | None => c end
  | _ => c
  end.

Definition label_exit (l : nat) (c : compl) : compl :=
  match c with
  | CBreak (Some x) v => if Nat.eqb x l then CNormal v else c
  | _ => c
  end.

(* IteratorClose(iteratorRecord, completion) *)
Definition iter_close (it : iterd) (status : compl) : list event * compl :=
  match status with
  | CUnc _ => ([], status)
  | _ =>
    match it_ret it with
    | RetMissing => ([], status)
    | RetOk => ([EReturn (it_id it)], status)
    | RetThrow v => ([EReturn (it_id it)], if is_throw status then status else CThrow (VNum v))
    | RetNonObj => ([EReturn (it_id it)], if is_throw status then status else CThrow VTypeErr)
    end
  end.

Definition res := (list event * compl * list bool)%type.

Definition vor (o : option val) (d : val) : val := match o with Some v => v | None => d end.

Fixpoint exec (n : nat) (s : stmt) (sc : list bool) {struct n} : option res :=
  match n with O => None | S n' =>
  match s with
  | Ev e => Some ([EEv e], CNormal (Some (VNum e)), sc)
  | ExprVal v => Some ([], CNormal (Some (VNum v)), sc)
  | Unc p => Some ([], CUnc p, sc)
  | Block b => exec_list n' b None sc
  | If s1 s2 =>
      let '(b, sc1) := cond sc in
      match exec n' (if b then s1 else s2) sc1 with
      | Some (t, c, sc2) => Some (t, update_empty c (Some VUndef), sc2)
      | None => None
      end
  | Loop k l body =>
      exec_loop n' k l body VUndef (match k with LDoWhile => true | _ => false end) sc
  | ForOf l it body => exec_forof n' l it body VUndef 0 sc
  | Labeled l b =>
      match exec_list n' b None sc with
      | Some (t, c, sc1) => Some (t, label_exit l c, sc1)
      | None => None
      end
  | Try b hasc c hasf f =>
      match exec_list n' b None sc with
      | None => None
      | Some (tb, B, sc1) =>
        if is_unc B then Some (tb, B, sc1) else
        let rc := if hasc && is_throw B then
                    match exec_list n' c None sc1 with
                    | Some (tc, C, sc2) => Some (tb ++ tc, C, sc2)
                    | None => None
                    end
                  else Some (tb, B, sc1) in
        match rc with
        | None => None
        | Some (t1, C, sc2) =>
          if is_unc C then Some (t1, C, sc2) else
          if hasf then
            match exec_list n' f None sc2 with
            | None => None
            | Some (tf, F, sc3) =>
                Some (t1 ++ tf, update_empty (if is_normal F then C else F) (Some VUndef), sc3)
            end
          else Some (t1, update_empty C (Some VUndef), sc2)
        end
      end
  | Break l => Some ([], CBreak l None, sc)
  | Continue l => Some ([], CContinue l None, sc)
  | Return v => Some ([], CReturn (VNum v), sc)
  | Throw v => Some ([], CThrow (VNum v), sc)
  end end
with exec_list (n : nat) (ss : stmts) (acc : option val) (sc : list bool) {struct n} : option res :=
  match n with O => None | S n' =>
  match ss with
  | SNil => Some ([], CNormal acc, sc)
  | SCons s r =>
      match exec n' s sc with
      | None => None
      | Some (t, c, sc1) =>
          match update_empty c acc with
          | CNormal v =>
              match exec_list n' r v sc1 with
              | Some (t2, c2, sc2) => Some (t ++ t2, c2, sc2)
              | None => None
              end
          | c' => Some (t, c', sc1)
          end
      end
  end end
with exec_loop (n : nat) (k : loopkind) (l : option nat) (body : stmt) (V : val) (skip : bool)
               (sc : list bool) {struct n} : option res :=
  match n with O => None | S n' =>
  let '(go, sc1) := if skip then (true, sc) else cond sc in
  if negb go then Some ([], CNormal (Some V), sc1) else
  match exec n' body sc1 with
  | None => None
  | Some (t, c, sc2) =>
      if loop_continues c l then
        let V' := vor (cval c) V in
        let tu := match k with LFor u => [EEv u] | _ => [] end in
        match exec_loop n' k l body V' false sc2 with
        | Some (t2, c2, sc3) => Some (t ++ tu ++ t2, c2, sc3)
        | None => None
        end
      else Some (t, loop_exit l (update_empty c (Some V)), sc2)
  end end
with exec_forof (n : nat) (l : option nat) (it : iterd) (body : stmt) (V : val) (idx : nat)
                (sc : list bool) {struct n} : option res :=
  match n with O => None | S n' =>
  let thr := match it_throw it with Some (j, v) => if Nat.eqb j idx then Some v else None | None => None end in
  match thr with
  | Some v => Some ([ENext (it_id it)], CThrow (VNum v), sc)       (* next() threw: no IteratorClose *)
  | None =>
    if Nat.leb (it_len it) idx then Some ([ENext (it_id it)], CNormal (Some V), sc)   (* done: no close *)
    else
    match exec n' body sc with
    | None => None
    | Some (t, c, sc2) =>
        if loop_continues c l then
          match exec_forof n' l it body (vor (cval c) V) (S idx) sc2 with
          | Some (t2, c2, sc3) => Some (ENext (it_id it) :: t ++ t2, c2, sc3)
          | None => None
          end
        else
          let '(tr, c') := iter_close it (update_empty c (Some V)) in
          Some (ENext (it_id it) :: t ++ tr, loop_exit l c', sc2)
    end
  end end.

(* what an embedder observes *)
Inductive outcome :=
| OValue (v : val)          (* function returned v / script completion value v *)
| OThrow (v : val)
| OUnc (p : payload)
| OStuck.                   (* out of fuel, dangling break, nil instruction, ... never matches an observation *)

Definition outcome_eqb (a b : outcome) : bool :=
  match a, b with
  | OValue x, OValue y => val_eqb x y | OThrow x, OThrow y => val_eqb x y
  | OUnc p, OUnc q => payload_eqb p q | _, _ => false end.

(* fnmode = true: the program is a function body; false: a script (completion value observed) *)
Definition outcome_of (fnmode : bool) (c : compl) : outcome :=
  match c with
  | CNormal v => OValue (if fnmode then VUndef else vor v VUndef)
  | CReturn v => if fnmode then OValue v else OStuck
  | CThrow v => OThrow v
  | CUnc p => OUnc p
  | _ => OStuck
  end.

Definition run_S (fuel : nat) (fnmode : bool) (prog : stmts) (sc : list bool) : list event * outcome :=
  match exec_list fuel prog None sc with
  | Some (t, c, _) => (t, outcome_of fnmode c)
  | None => ([], OStuck)
  end.

(* ================================================================================================ *)
(* I: goja's compiler (control skeleton)                                                             *)

Inductive btyp := BTry | BLoop | BLoopEnum | BLabel.
Record blk := mkBlk { b_typ : btyp; b_label : option nat; b_brk : nat; b_cont : nat; b_nr : bool;
                      b_breaking : option nat (* index into the OUTER stack *) }.
Definition dflt_blk := mkBlk BLabel None 0 0 false None.

Inductive instr :=
| IEvent (e : nat) (push : bool)
| ILoad (v : val) | IPop
| ISaveResult | ILoadResult | IClearResult
| IJump (off : Z) | IJneC (off : Z) | IJeqC (off : Z)
| ITry (coff foff : nat) | ILeaveTry | IEnterFinally | ILeaveFinally
| IThrow | IRet
| IIterate (it : iterd) | IIterNext (off : Z) | IEnumPop | IEnumPopClose
| IUnc (p : payload)
| INil.                                 (* an unpatched placeholder: executing it crashes the host *)

Definition is_branch (s : stmt) : bool := match s with Break _ | Continue _ => true | _ => false end.

(* compiler_stmt.go isEmptyResult *)
Fixpoint is_empty_result (s : stmt) : bool :=
  match s with
  | Break _ | Continue _ => true
  | Labeled _ b => empty_list b
  | Block b => empty_list b
  | _ => false
  end
with empty_list (b : stmts) : bool :=
  match b with
  | SNil => true
  | SCons s r => if is_branch s then true else if is_empty_result s then empty_list r else false
  end.

Definition is_loop_typ (t : btyp) : bool := match t with BLoop | BLoopEnum => true | _ => false end.

(* findBreakBlock with a label: walk outwards; [k] = index of the current block.
   Returns (res, found). *)
Fixpoint fbb_label (bs : list blk) (k : nat) (lbl : nat) (is_break : bool) (res : option nat)
  : option nat * option (nat * btyp) :=
  match bs with
  | [] => (res, None)
  | b :: r =>
      let res' := match res with
                  | Some _ => res
                  | None => match b_breaking b with Some j => Some (k + 1 + j) | None => None end
                  end in
      let early := match res, res' with None, Some _ => is_break | _, _ => false end in
      if early then (res', None)
      else if olabel_eqb (b_label b) (Some lbl) then (res', Some (k, b_typ b))
           else fbb_label r (S k) lbl is_break res'
  end.

Fixpoint fbb_nolabel (bs : list blk) (k : nat) : option nat :=
  match bs with
  | [] => None
  | b :: r =>
      match b_breaking b with
      | Some j => Some (k + 1 + j)
      | None => if is_loop_typ (b_typ b) then Some k else fbb_nolabel r (S k)
      end
  end.

Definition find_break_block (bs : list blk) (lbl : option nat) (is_break : bool) : option nat :=
  match lbl with
  | None => fbb_nolabel bs 0
  | Some l =>
      match fbb_label bs 0 l is_break None with
      | (res, Some (k, t)) =>
          if negb is_break && negb (is_loop_typ t) then None (* SyntaxError: not an iteration statement *)
          else match res with Some r => Some r | None => Some k end
      | (res, None) => res
      end
  end.

Definition find_branch_block (bs : list blk) (s : stmt) : option nat :=
  match s with
  | Break l => find_break_block bs l true
  | Continue l => find_break_block bs l false
  | _ => None
  end.

(* scanStatements: (lastProducingIdx, breakingBlock) *)
Fixpoint scan (bs : list blk) (ss : stmts) (i : nat) (lp : option nat) : option nat * option nat :=
  match ss with
  | SNil => (lp, None)
  | SCons s r =>
      if is_branch s then (lp, find_branch_block bs s)
      else scan bs r (S i) (if is_empty_result s then lp else Some i)
  end.

(* compileStatements: None = all statements with needResult=false; Some lp = compileStatementsNeedResult *)
Definition list_mode (bs : list blk) (nr : bool) (ss : stmts) : option (option nat) :=
  let '(lp, blk) := scan bs ss 0 None in
  let nr' := match blk with Some k => b_nr (nth k bs dflt_blk) | None => nr end in
  if nr' then Some lp else None.

(* emitBlockExitCode: blocks 0..k-1 are left *)
Fixpoint exit_code (bs : list blk) (k : nat) : list instr :=
  match k, bs with
  | S k', b :: r =>
      (match b_typ b with BTry => [ILeaveTry] | BLoopEnum => [IEnumPopClose] | _ => [] end) ++ exit_code r k'
  | _, _ => []
  end.

Definition ret_code (bs : list blk) : list instr :=
  flat_map (fun b => match b_typ b with
                     | BTry => [ISaveResult; ILeaveTry; ILoadResult]
                     | BLoopEnum => [IEnumPopClose]
                     | _ => [] end) bs.

Definition clr (nr : bool) : list instr := if nr then [IClearResult] else [].
Definition zoff (target here : nat) : Z := (Z.of_nat target - Z.of_nat here)%Z.
Definition len {A} (l : list A) := length l.

Definition compile_branch (bs : list blk) (pos : nat) (lbl : option nat) (is_break : bool) : list instr :=
  match find_break_block bs lbl is_break with
  | None => [INil]
  | Some k =>
      let b := nth k bs dflt_blk in
      let ex := exit_code bs k in
      let here := pos + length ex in
      if is_break then ex ++ [IJump (zoff (b_brk b) here)]
      else if is_loop_typ (b_typ b) then ex ++ [IJump (zoff (b_cont b) here)]
           else ex ++ [INil]          (* conts of a non-loop block are never patched *)
  end.

Fixpoint compile (bs : list blk) (pos : nat) (nr : bool) (s : stmt) {struct s} : list instr :=
  match s with
  | Ev e => IEvent e nr :: (if nr then [ISaveResult] else [])
  | ExprVal v => if nr then [ILoad (VNum v); ISaveResult] else []
  | Unc p => [IUnc p]
  | Block b => compile_ss bs pos (list_mode bs nr b) 0 b
  | If s1 s2 =>
      let pre := clr nr in
      let p1 := pos + length pre + 1 in
      let c1 := compile bs p1 nr s1 in
      let p2 := p1 + length c1 + 1 in
      let c2 := compile bs p2 nr s2 in
      pre ++ [IJneC (Z.of_nat (length c1 + 2))] ++ c1 ++ [IJump (Z.of_nat (length c2 + 1))] ++ c2
  | Loop LWhile l body =>
      let pre := clr nr in
      let start := pos + length pre in
      let mk := fun brk => mkBlk BLoop l brk start nr None in
      let bodypos := start + 1 + length (clr nr) in
      let len0 := length (compile (mk 0 :: bs) bodypos nr body) in
      let brk := bodypos + len0 + 1 in
      let cb := compile (mk brk :: bs) bodypos nr body in
      pre ++ [IJneC (zoff brk start)] ++ clr nr ++ cb ++ [IJump (zoff start (bodypos + length cb))]
  | Loop LDoWhile l body =>
      let mk := fun brk cont => mkBlk BLoop l brk cont nr None in
      let len0 := length (compile (mk 0 0 :: bs) pos nr body) in
      let cont := pos + len0 in
      let cb := compile (mk (cont + 1) cont :: bs) pos nr body in
      cb ++ [IJeqC (zoff pos (pos + length cb))]
  | Loop (LFor u) l body =>
      let pre := clr nr in
      let start := pos + length pre in
      let mk := fun brk cont => mkBlk BLoop l brk cont nr None in
      let bodypos := start + 1 + length (clr nr) in
      let len0 := length (compile (mk 0 0 :: bs) bodypos nr body) in
      let cont := bodypos + len0 in
      let brk := cont + 2 in
      let cb := compile (mk brk cont :: bs) bodypos nr body in
      pre ++ [IJneC (zoff brk start)] ++ clr nr ++ cb ++ [IEvent u false; IJump (zoff start (bodypos + length cb + 1))]
  | ForOf l it body =>
      let start := pos + 1 + length (clr nr) in
      let mk := fun brk => mkBlk BLoopEnum l brk start nr None in
      let bodypos := start + 1 + length (clr nr) in
      let len0 := length (compile (mk 0 :: bs) bodypos nr body) in
      let brk := bodypos + len0 + 3 in
      let cb := compile (mk brk :: bs) bodypos nr body in
      let jpos := bodypos + length cb in
      [IIterate it] ++ clr nr ++ [IIterNext (zoff (jpos + 1) start)] ++ clr nr ++ cb
        ++ [IJump (zoff start jpos); IEnumPop; IJump 2; IEnumPopClose]
  | Labeled l b =>
      let mk := fun brk => mkBlk BLabel (Some l) brk 0 nr None in
      let len0 := length (compile_ss (mk 0 :: bs) pos (list_mode (mk 0 :: bs) nr b) 0 b) in
      let bs' := mk (pos + len0) :: bs in
      compile_ss bs' pos (list_mode bs' nr b) 0 b
  | Try b hasc c hasf f =>
      let tb0 := mkBlk BTry None 0 0 false None in
      let '(lp, fbrk) := if hasf then scan (tb0 :: bs) f 0 None else (None, None) in
      let breaking := match fbrk with Some (S j) => Some j | _ => None end in
      let body_nr := match fbrk with
                     | Some k => match lp with None => b_nr (nth k (tb0 :: bs) dflt_blk) | Some _ => false end
                     | None => nr end in
      let bs' := mkBlk BTry None 0 0 false breaking :: bs in
      let pre := clr nr in
      let pb := pos + 1 + length pre in
      let cb := compile_ss bs' pb (list_mode bs' body_nr b) 0 b in
      let pab := pb + length cb in
      let cc := if hasc then compile_ss bs' (pab + 2) (list_mode bs' body_nr c) 0 c else [] in
      let ccatch := if hasc then [IJump (Z.of_nat (length cc + 2)); IPop] ++ cc else [] in
      let coff := if hasc then pab + 1 - pos else 0 in
      let pf := pab + length ccatch in
      let fclr := match fbrk, lp with Some _, None => clr body_nr | _, _ => [] end in
      (* since fix f0be104 (finding C08-N7): block.breaking is cleared before the finally block is compiled *)
      let bsf := mkBlk BTry None 0 0 false None :: bs in
      let cf := if hasf then compile_ss bsf (pf + 1 + length fclr) (list_mode bsf false f) 0 f else [] in
      let foff := if hasf then pf + 1 - pos else 0 in
      [ITry coff foff] ++ pre ++ cb ++ ccatch
        ++ (if hasf then [IEnterFinally] ++ fclr ++ cf ++ [ILeaveFinally] else [ILeaveTry])
  | Break l => compile_branch bs pos l true
  | Continue l => compile_branch bs pos l false
  | Return v => [ILoad (VNum v)] ++ ret_code bs ++ [IRet]
  | Throw v => [ILoad (VNum v); IThrow]
  end
with compile_ss (bs : list blk) (pos : nat) (m : option (option nat)) (i : nat) (ss : stmts) {struct ss}
  : list instr :=
  match ss with
  | SNil => []
  | SCons s r =>
      let snr := match m with Some (Some j) => Nat.eqb i j | _ => false end in
      let c := compile bs pos snr s in
      match m with
      | Some _ => if is_branch s then c (* dummy mode: the rest is dropped *)
                  else c ++ compile_ss bs (pos + length c) m (S i) r
      | None => c ++ compile_ss bs (pos + length c) m (S i) r
      end
  end.

Definition compile_list (bs : list blk) (pos : nat) (nr : bool) (ss : stmts) : list instr :=
  compile_ss bs pos (list_mode bs nr ss) 0 ss.

(* whole program: a function body (needResult=false, then loadUndef; ret) or a script (needResult=true) *)
Definition compile_prog (fnmode : bool) (prog : stmts) : list instr :=
  if fnmode then compile_list [] 0 false prog ++ [ILoad VUndef; IRet]
  else compile_list [] 0 true prog.

(* ================================================================================================ *)
(* I: goja's VM (vm.go)                                                                              *)

Record frame := mkFrame { f_catch : option nat; f_fin : option nat; f_ret : option nat; f_exc : option val;
                          f_iterLen : nat; f_sp : nat; f_marker : bool }.
Record itst := mkIt { i_d : iterd; i_idx : nat; i_open : bool }.
Record vmstate := mkVM { pc : nat; stk : list val; result : val; trys : list frame; iters : list itst;
                         script : list bool; trace : list event; intr : bool }.

Inductive vout :=
| Running (st : vmstate)
| Halted (st : vmstate)
| Returned (v : val) (st : vmstate)
| Uncaught (v : val) (st : vmstate)
| UncOut (p : payload) (st : vmstate)
| Crashed.

Definition set_pc (st : vmstate) (p : nat) : vmstate :=
  mkVM p (stk st) (result st) (trys st) (iters st) (script st) (trace st) (intr st).
Definition set_stk (st : vmstate) (s : list val) : vmstate :=
  mkVM (pc st) s (result st) (trys st) (iters st) (script st) (trace st) (intr st).
Definition set_result (st : vmstate) (r : val) : vmstate :=
  mkVM (pc st) (stk st) r (trys st) (iters st) (script st) (trace st) (intr st).
Definition set_trys (st : vmstate) (t : list frame) : vmstate :=
  mkVM (pc st) (stk st) (result st) t (iters st) (script st) (trace st) (intr st).
Definition set_iters (st : vmstate) (i : list itst) : vmstate :=
  mkVM (pc st) (stk st) (result st) (trys st) i (script st) (trace st) (intr st).
Definition set_script (st : vmstate) (s : list bool) : vmstate :=
  mkVM (pc st) (stk st) (result st) (trys st) (iters st) s (trace st) (intr st).
Definition add_trace (st : vmstate) (e : list event) : vmstate :=
  mkVM (pc st) (stk st) (result st) (trys st) (iters st) (script st) (trace st ++ e) (intr st).
Definition set_intr (st : vmstate) (b : bool) : vmstate :=
  mkVM (pc st) (stk st) (result st) (trys st) (iters st) (script st) (trace st) b.

(* keep the bottom n elements of a stack whose head is the top *)
Definition keep {A} (n : nat) (l : list A) : list A := skipn (length l - n) l.

Definition jump_to (p : nat) (off : Z) : nat := Z.to_nat (Z.of_nat p + off).

(* iteratorRecord.returnIter as called by restoreStacks inside vm.try: every error is swallowed.
   When the interrupt flag is set the call is attempted but interrupted before its first instruction. *)
Definition close_events (interrupted : bool) (i : itst) : list event :=
  if i_open i then
    match it_ret (i_d i) with
    | RetMissing => []
    | _ => if interrupted then [] else [EReturn (it_id (i_d i))]
    end
  else [].

(* restoreStacks(iterLen): the iterators above iterLen, top first.  The iterator stack is always truncated
   (since bf68b95 in a deferred dropStacks, i.e. also when a return() call is interrupted); handleThrow re-reads
   its try frame afterwards (8652ed2) - in this pure model the frame was never aliased, so nothing changes. *)
Definition restore_stacks (st : vmstate) (iterLen : nat) : vmstate :=
  let n := length (iters st) - iterLen in
  let tail := firstn n (iters st) in
  add_trace (set_iters st (skipn n (iters st))) (flat_map (close_events (intr st)) tail).

(* dropStacks(iterLen): truncate without calling return() *)
Definition drop_stacks (st : vmstate) (iterLen : nat) : vmstate :=
  set_iters st (skipn (length (iters st) - iterLen) (iters st)).

Definition pending := option val.   (* Some v = catchable exception value; None = uncatchable *)

(* handleThrow; [fs] is the try stack being walked (top first) *)
Fixpoint handle_throw (ex : pending) (p : payload) (st : vmstate) (fs : list frame) : vout :=
  match fs with
  | [] => match ex with Some v => Uncaught v (set_trys st []) | None => UncOut p (set_trys st []) end
  | tf :: r =>
      let dead := match f_catch tf, f_fin tf with None, None => negb (f_marker tf) | _, _ => false end in
      let skipu := match ex with None => negb (f_marker tf) | Some _ => false end in
      if dead || skipu then handle_throw ex p st r
      else
        let st0 := set_stk st (keep (f_sp tf) (stk st)) in
        (* since fix 22853aa (finding F12): an uncatchable payload drops the iterators without closing them *)
        let st1 := match ex with
                   | Some _ => restore_stacks st0 (f_iterLen tf)
                   | None => drop_stacks st0 (f_iterLen tf)
                   end in
        if f_marker tf then
          match ex with Some v => Uncaught v (set_trys st1 (tf :: r)) | None => UncOut p (set_trys st1 (tf :: r)) end
        else
          match ex with
          | None => Crashed
          | Some v =>
            match f_catch tf with
            | Some cp =>
                let tf' := mkFrame None (f_fin tf) (f_ret tf) (f_exc tf) (f_iterLen tf) (f_sp tf) false in
                Running (set_pc (set_trys (set_stk st1 (v :: stk st1)) (tf' :: r)) cp)
            | None =>
              match f_fin tf with
              | Some fp =>
                  let tf' := mkFrame None None None (Some v) (f_iterLen tf) (f_sp tf) false in
                  Running (set_pc (set_trys st1 (tf' :: r)) fp)
              | None => Crashed
              end
            end
          end
  end.

Definition vthrow (st : vmstate) (v : val) : vout := handle_throw (Some v) PInterrupt st (trys st).

Definition vm_step (code : list instr) (st : vmstate) : vout :=
  match nth_error code (pc st) with
  | None => Halted st
  | Some i =>
    let next := set_pc st (S (pc st)) in
    match i with
    | IEvent e push =>
        let st1 := add_trace next [EEv e] in
        Running (if push then set_stk st1 (VNum e :: stk st1) else st1)
    | ILoad v => Running (set_stk next (v :: stk st))
    | IPop => Running (set_stk next (tl (stk st)))
    | ISaveResult => match stk st with v :: r => Running (set_result (set_stk next r) v) | [] => Crashed end
    | ILoadResult => Running (set_stk next (result st :: stk st))
    | IClearResult => Running (set_result next VUndef)
    | IJump off => Running (set_pc st (jump_to (pc st) off))
    | IJneC off =>
        let '(b, sc) := cond (script st) in
        Running (set_script (if b then next else set_pc st (jump_to (pc st) off)) sc)
    | IJeqC off =>
        let '(b, sc) := cond (script st) in
        Running (set_script (if b then set_pc st (jump_to (pc st) off) else next) sc)
    | ITry coff foff =>
        let cp := if Nat.ltb 0 coff then Some (pc st + coff) else None in
        let fp := if Nat.ltb 0 foff then Some (pc st + foff) else None in
        Running (set_trys next (mkFrame cp fp None None (length (iters st)) (length (stk st)) false :: trys st))
    | ILeaveTry =>
        match trys st with
        | [] => Crashed
        | tf :: r =>
            match f_fin tf with
            | Some fp =>
                let tf' := mkFrame None None (Some (S (pc st))) (f_exc tf) (f_iterLen tf) (f_sp tf) (f_marker tf) in
                Running (set_pc (set_trys (set_stk st (keep (f_sp tf) (stk st))) (tf' :: r)) fp)
            | None => Running (set_trys next r)
            end
        end
    | IEnterFinally =>
        match trys st with
        | [] => Crashed
        | tf :: r =>
            (* finallyPos and (since fix 303bd95, finding C08-N1) catchPos are reset *)
            let tf' := mkFrame None None (f_ret tf) (f_exc tf) (f_iterLen tf) (f_sp tf) (f_marker tf) in
            Running (set_trys next (tf' :: r))
        end
    | ILeaveFinally =>
        match trys st with
        | [] => Crashed
        | tf :: r =>
            let st1 := set_trys st r in
            match f_exc tf with
            | Some v => vthrow st1 v
            | None => match f_ret tf with
                      | Some p => Running (set_pc st1 p)
                      | None => Running (set_pc st1 (S (pc st)))
                      end
            end
        end
    | IThrow => match stk st with v :: _ => vthrow st v | [] => Crashed end
    | IRet => match stk st with v :: _ => Returned v st | [] => Crashed end
    | IIterate it => Running (set_iters next (mkIt it 0 true :: iters st))
    | IIterNext off =>
        match iters st with
        | [] => Crashed
        | i :: r =>
            let d := i_d i in
            let st1 := add_trace st [ENext (it_id d)] in
            let thr := match it_throw d with
                       | Some (j, v) => if Nat.eqb j (i_idx i) then Some v else None
                       | None => None end in
            match thr with
            | Some v => vthrow (set_iters st1 r) (VNum v)       (* popped first, then thrown *)
            | None =>
              if Nat.leb (it_len d) (i_idx i)
              then Running (set_pc (set_iters st1 (mkIt d (S (i_idx i)) false :: r)) (jump_to (pc st) off))
              else Running (set_pc (set_iters st1 (mkIt d (S (i_idx i)) true :: r)) (S (pc st)))
            end
        end
    | IEnumPop => match iters st with [] => Crashed | _ :: r => Running (set_iters next r) end
    | IEnumPopClose =>
        match iters st with
        | [] => Crashed
        | i :: r =>
            let st1 := set_iters st r in
            if i_open i then
              match it_ret (i_d i) with
              | RetMissing => Running (set_pc st1 (S (pc st)))
              | RetOk => Running (set_pc (add_trace st1 [EReturn (it_id (i_d i))]) (S (pc st)))
              | RetThrow v => vthrow (add_trace st1 [EReturn (it_id (i_d i))]) (VNum v)
              | RetNonObj => vthrow (add_trace st1 [EReturn (it_id (i_d i))]) VTypeErr
              end
            else Running (set_pc st1 (S (pc st)))
        end
    | IUnc p =>
        let st1 := match p with PInterrupt => set_intr st true | PStackOverflow => st end in
        handle_throw None p st1 (trys st1)
    | INil => Crashed
    end
  end.

Fixpoint vm_run (fuel : nat) (code : list instr) (st : vmstate) : vout :=
  match fuel with
  | O => Crashed
  | S n => match vm_step code st with Running st' => vm_run n code st' | o => o end
  end.

Definition marker_frame := mkFrame None None None None 0 0 true.
Definition boot (sc : list bool) : vmstate := mkVM 0 [] VUndef [marker_frame] [] sc [] false.

Definition vout_trace (o : vout) : list event :=
  match o with
  | Running st | Halted st | Returned _ st | Uncaught _ st | UncOut _ st => trace st
  | Crashed => []
  end.

Definition vout_outcome (o : vout) : outcome :=
  match o with
  | Halted st => OValue (result st)
  | Returned v _ => OValue v
  | Uncaught v _ => OThrow v
  | UncOut p _ => OUnc p
  | _ => OStuck
  end.

Definition run_I (fuel : nat) (fnmode : bool) (prog : stmts) (sc : list bool) : list event * outcome :=
  let o := vm_run fuel (compile_prog fnmode prog) (boot sc) in
  (vout_trace o, vout_outcome o).

(* balancedness of the final state: try stack back to the marker, iterator stack empty *)
Definition vout_balanced (o : vout) : bool :=
  match o with
  | Halted st => (Nat.eqb (length (trys st)) 1) && (Nat.eqb (length (iters st)) 0) && (Nat.eqb (length (stk st)) 0)
  | Returned _ st => (Nat.eqb (length (trys st)) 1) && (Nat.eqb (length (iters st)) 0)
  | Uncaught _ st | UncOut _ st => (Nat.eqb (length (trys st)) 1) && (Nat.eqb (length (iters st)) 0)
  | _ => false
  end.
