(* C08 — second run module: which cases disagree with the implementation-shaped model I. *)
From Coq Require Import List NArith.
From Verif.C08 Require Export Model Run.
Definition tcase := Run.tcase.
Definition mismatch_ids := mismatch_from agrees_I 0%N.
Definition expected := Run.expected.
