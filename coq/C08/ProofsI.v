(* C08 — lemmas about the implementation model I (goja's compiler + VM skeleton). *)
From Coq Require Import List Arith ZArith Bool Lia.
Import ListNotations.
From Verif.C08 Require Import Model.

Fixpoint sl (l : list stmt) : stmts := match l with [] => SNil | s :: r => SCons s (sl r) end.

(* witnesses of the open findings: the faithful transcription disagrees with the specification *)

(* C08-N1 (fixed in /repo by 303bd95; the model follows the repaired enterFinally): the former witness
   try { ev 1 } catch { ev 2 } finally { ev 3; throw 9 } now agrees with the specification *)
Definition w_n1 := sl [Try (sl [Ev 1]) true (sl [Ev 2]) true (sl [Ev 3; Throw 9])].
Lemma finally_throw_not_caught_by_own_catch :
  run_I 1000 true w_n1 [] = run_S 100 true w_n1 [] /\
  run_S 100 true w_n1 [] = ([EEv 1; EEv 3], OThrow (VNum 9)).
Proof. vm_compute. split; reflexivity. Qed.

(* C08-N2: try { return 1 } finally { L0: { try { return 2 } finally { break L0 } } } *)
Definition w_n2 :=
  sl [Try (sl [Return 1]) false SNil true
        (sl [Labeled 0 (sl [Try (sl [Return 2]) false SNil true (sl [Break (Some 0)])])])].
Lemma pending_return_value_refuted :
  exists prog sc, run_S 100 true prog sc = ([], OValue (VNum 1)) /\ run_I 1000 true prog sc = ([], OValue (VNum 2)).
Proof. exists w_n2, []. vm_compute. split; reflexivity. Qed.

(* C08-N4: L1: do { try { 2 } finally { L3: { break } } } while (c())  as a script: the break out of the finally
   block must carry undefined (UpdateEmpty(F, undefined)); scanStatements only looks at DIRECT branch statements of
   the finally list, so the try body keeps needResult and its stale value 2 survives *)
Definition w_n4 :=
  sl [Loop LDoWhile (Some 1) (Block (sl [Try (sl [ExprVal 2]) false SNil true (sl [Labeled 3 (sl [Break None])])]))].
Lemma finally_nested_break_value_refuted :
  exists prog sc, run_S 100 false prog sc = ([], OValue VUndef) /\ run_I 1000 false prog sc = ([], OValue (VNum 2)).
Proof. exists w_n4, []. vm_compute. split; reflexivity. Qed.

(* C08-N5: try { try { 4 } finally { throw 1 } } catch { }  as a script: the catch clause completes with an empty value,
   so the statement's value is undefined (UpdateEmpty(C, undefined)); goja only clears vm.result at the try entry and
   the value saved by the aborted body survives (V8 shows the same deviation) *)
Definition w_n5 := sl [Try (sl [Try (sl [ExprVal 4]) false SNil true (sl [Throw 1])]) true SNil false SNil].
Lemma caught_throw_stale_value_refuted :
  exists prog sc, run_S 100 false prog sc = ([], OValue VUndef) /\ run_I 1000 false prog sc = ([], OValue (VNum 4)).
Proof. exists w_n5, []. vm_compute. split; reflexivity. Qed.

(* C08-N6: L0: { 1; L1: { break L0 } 2 }  as a script: the break carries the value 1 of the statement list so far;
   compileStatementsNeedResult gives needResult only to the LAST producing statement (2), which is skipped *)
Definition w_n6 := sl [Labeled 0 (sl [ExprVal 1; Labeled 1 (sl [Break (Some 0)]); ExprVal 2])].
Lemma nested_branch_loses_value_refuted :
  exists prog sc, run_S 100 false prog sc = ([], OValue (VNum 1)) /\ run_I 1000 false prog sc = ([], OValue VUndef).
Proof. exists w_n6, []. vm_compute. split; reflexivity. Qed.

(* C08-N7 (fixed in /repo by f0be104: block.breaking is cleared before the finally block is compiled; the model
   follows): L1: { L2: { try { } finally { if (c()) break L2; break L1 } } ev 1 } ev 2  with c() = true *)
Definition w_n7 :=
  sl [Labeled 1 (sl [Labeled 2 (sl [Try SNil false SNil true (sl [If (Break (Some 2)) (Block SNil); Break (Some 1)])]); Ev 1]); Ev 2].
Lemma branch_in_breaking_finally_regression :
  run_I 1000 true w_n7 [true] = run_S 100 true w_n7 [true] /\
  run_S 100 true w_n7 [true] = ([EEv 1; EEv 2], OValue VUndef).
Proof. vm_compute. split; reflexivity. Qed.

(* F12 (fixed in /repo by 22853aa; handleThrow drops the iterator stack for uncatchable payloads, and the model
   follows): unwinding an uncatchable payload emits no event - for EVERY VM state, try stack and payload *)
Definition w_f12 := sl [ForOf None (mkIter 7 3 None RetOk) (Block (sl [Ev 5; Unc PStackOverflow]))].

Lemma uncatchable_runs_nothing : forall p fs st,
  match handle_throw None p st fs with
  | UncOut q st' => q = p /\ trace st' = trace st
  | Crashed => True
  | _ => False
  end.
Proof.
  induction fs as [|tf r IH]; intros st; simpl.
  - split; reflexivity.
  - destruct (match f_catch tf, f_fin tf with None, None => negb (f_marker tf) | _, _ => false end || negb (f_marker tf)) eqn:E.
    + apply IH.
    + destruct (f_marker tf) eqn:M.
      * split; reflexivity.
      * rewrite orb_true_r in E. discriminate.
Qed.

(* an interrupt or a stack overflow raised at any instruction position, in any state: nothing of the script runs *)
Lemma uncatchable_step_runs_nothing : forall code st p,
  nth_error code (pc st) = Some (IUnc p) ->
  match vm_step code st with
  | UncOut q st' => q = p /\ trace st' = trace st
  | Crashed => True
  | _ => False
  end.
Proof.
  intros code st p H. unfold vm_step. rewrite H.
  destruct p.
  - apply (uncatchable_runs_nothing PInterrupt (trys (set_intr st true)) (set_intr st true)).
  - apply (uncatchable_runs_nothing PStackOverflow (trys st) st).
Qed.

Lemma uncatchable_in_forof_regression :
  run_I 1000 true w_f12 [] = run_S 100 true w_f12 [] /\
  run_S 100 true w_f12 [] = ([ENext 7; EEv 5], OUnc PStackOverflow).
Proof. vm_compute. split; reflexivity. Qed.

(* the finally dispatch of the VM: leaveTry on a frame with a pending finally parks the continuation,
   and leaveFinally resumes exactly there with the frame popped — for every state *)
Lemma leaveTry_leaveFinally_roundtrip : forall code st tf r fp,
  nth_error code (pc st) = Some ILeaveTry -> trys st = tf :: r -> f_fin tf = Some fp ->
  exists st1, vm_step code st = Running st1 /\ pc st1 = fp /\ trace st1 = trace st /\
    exists tf', trys st1 = tf' :: r /\ f_catch tf' = None /\ f_fin tf' = None /\ f_ret tf' = Some (S (pc st)) /\
    forall code2 st2, nth_error code2 (pc st2) = Some ILeaveFinally -> trys st2 = tf' :: r -> f_exc tf' = None ->
      exists st3, vm_step code2 st2 = Running st3 /\ pc st3 = S (pc st) /\ trys st3 = r /\ trace st3 = trace st2.
Proof.
  intros code st tf r fp H HT HF. unfold vm_step. rewrite H, HT, HF.
  eexists. split; [reflexivity|]. simpl. repeat split.
  eexists. split; [reflexivity|]. simpl. repeat split.
  intros code2 st2 H2 HT2 HE. unfold vm_step. rewrite H2, HT2. simpl in *. rewrite HE.
  eexists. split; [reflexivity|]. simpl. repeat split.
Qed.
