(* C08 — lemmas about the implementation model I (goja's compiler + VM skeleton). *)
From Coq Require Import List Arith ZArith Bool Lia.
Import ListNotations.
From Verif.C08 Require Import Model.

Fixpoint sl (l : list stmt) : stmts := match l with [] => SNil | s :: r => SCons s (sl r) end.

(* witnesses of the open findings: the faithful transcription disagrees with the specification *)

(* C08-N1 (fixed in /repo by 303bd95; the model follows the repaired enterFinally): the former witness
   try { ev 1 } catch { ev 2 } finally { ev 3; throw 9 } now agrees with the specification *)
Definition w_n1 := sl [Try (sl [Ev 1]) true (sl [Ev 2]) true (sl [Ev 3; Throw 9])].
Lemma finally_throw_not_caught_by_own_catch :
  run_I 1000 true w_n1 [] = run_S 100 true w_n1 [] /\
  run_S 100 true w_n1 [] = ([EEv 1; EEv 3], OThrow (VNum 9)).
Proof. vm_compute. split; reflexivity. Qed.

(* C08-N2: try { return 1 } finally { L0: { try { return 2 } finally { break L0 } } } *)
Definition w_n2 :=
  sl [Try (sl [Return 1]) false SNil true
        (sl [Labeled 0 (sl [Try (sl [Return 2]) false SNil true (sl [Break (Some 0)])])])].
Lemma pending_return_value_refuted :
  exists prog sc, run_S 100 true prog sc = ([], OValue (VNum 1)) /\ run_I 1000 true prog sc = ([], OValue (VNum 2)).
Proof. exists w_n2, []. vm_compute. split; reflexivity. Qed.

(* C08-N4: L1: do { try { 2 } finally { L3: { break } } } while (c())  as a script: the break out of the finally
   block must carry undefined (UpdateEmpty(F, undefined)); scanStatements only looks at DIRECT branch statements of
   the finally list, so the try body keeps needResult and its stale value 2 survives *)
Definition w_n4 :=
  sl [Loop LDoWhile (Some 1) (Block (sl [Try (sl [ExprVal 2]) false SNil true (sl [Labeled 3 (sl [Break None])])]))].
Lemma finally_nested_break_value_refuted :
  exists prog sc, run_S 100 false prog sc = ([], OValue VUndef) /\ run_I 1000 false prog sc = ([], OValue (VNum 2)).
Proof. exists w_n4, []. vm_compute. split; reflexivity. Qed.

(* C08-N5: try { try { 4 } finally { throw 1 } } catch { }  as a script: the catch clause completes with an empty value,
   so the statement's value is undefined (UpdateEmpty(C, undefined)); goja only clears vm.result at the try entry and
   the value saved by the aborted body survives (V8 shows the same deviation) *)
Definition w_n5 := sl [Try (sl [Try (sl [ExprVal 4]) false SNil true (sl [Throw 1])]) true SNil false SNil].
Lemma caught_throw_stale_value_refuted :
  exists prog sc, run_S 100 false prog sc = ([], OValue VUndef) /\ run_I 1000 false prog sc = ([], OValue (VNum 4)).
Proof. exists w_n5, []. vm_compute. split; reflexivity. Qed.

(* C08-N6: L0: { 1; L1: { break L0 } 2 }  as a script: the break carries the value 1 of the statement list so far;
   compileStatementsNeedResult gives needResult only to the LAST producing statement (2), which is skipped *)
Definition w_n6 := sl [Labeled 0 (sl [ExprVal 1; Labeled 1 (sl [Break (Some 0)]); ExprVal 2])].
Lemma nested_branch_loses_value_refuted :
  exists prog sc, run_S 100 false prog sc = ([], OValue (VNum 1)) /\ run_I 1000 false prog sc = ([], OValue VUndef).
Proof. exists w_n6, []. vm_compute. split; reflexivity. Qed.

(* F12: for (x of it) { ev 5; <stack overflow> } : return() runs while an uncatchable error unwinds *)
Definition w_f12 := sl [ForOf None (mkIter 7 3 None RetOk) (Block (sl [Ev 5; Unc PStackOverflow]))].
Lemma uncatchable_runs_nothing_refuted :
  exists prog sc, run_S 100 true prog sc = ([ENext 7; EEv 5], OUnc PStackOverflow) /\
                  run_I 1000 true prog sc = ([ENext 7; EEv 5; EReturn 7], OUnc PStackOverflow).
Proof. exists w_f12, []. vm_compute. split; reflexivity. Qed.

(* what does hold on I: unwinding an uncatchable payload emits no event when the interrupt flag is set
   (every attempted return() call is itself interrupted) or when no iterator is open — for EVERY VM state. *)

Definition quiet (st : vmstate) : Prop := intr st = true \/ iters st = [].

Lemma restore_quiet : forall st n, quiet st -> trace (restore_stacks st n) = trace st /\ quiet (restore_stacks st n).
Proof.
  intros st n [Hi|He].
  - unfold restore_stacks. simpl. split.
    + replace (flat_map (close_events (intr st)) (firstn (length (iters st) - n) (iters st))) with (@nil event).
      { apply app_nil_r. }
      rewrite Hi. induction (firstn (length (iters st) - n) (iters st)) as [|i r IH]; [reflexivity|].
      simpl. rewrite <- IH. unfold close_events. destruct (i_open i); [destruct (it_ret (i_d i))|]; reflexivity.
    + left. exact Hi.
  - unfold restore_stacks. rewrite He. simpl. split.
    + apply app_nil_r.
    + right. reflexivity.
Qed.

Lemma handle_throw_unc_quiet : forall p fs st, quiet st ->
  match handle_throw None p st fs with
  | UncOut q st' => q = p /\ trace st' = trace st
  | Crashed => True
  | _ => False
  end.
Proof.
  induction fs as [|tf r IH]; intros st Q; simpl.
  - split; reflexivity.
  - destruct (match f_catch tf, f_fin tf with None, None => negb (f_marker tf) | _, _ => false end || negb (f_marker tf)) eqn:E.
    + apply IH. exact Q.
    + destruct (f_marker tf) eqn:M.
      * assert (Q' : quiet (set_stk st (keep (f_sp tf) (stk st)))) by (destruct Q; [left|right]; assumption).
        destruct (restore_quiet _ (f_iterLen tf) Q') as [Ht _]. split; [reflexivity|]. exact Ht.
      * rewrite orb_true_r in E. discriminate.
Qed.

(* an interrupt raised at any instruction position, in any state: nothing of the script runs *)
Lemma interrupt_runs_nothing : forall code st,
  nth_error code (pc st) = Some (IUnc PInterrupt) ->
  match vm_step code st with
  | UncOut q st' => q = PInterrupt /\ trace st' = trace st
  | Crashed => True
  | _ => False
  end.
Proof.
  intros code st H. unfold vm_step. rewrite H.
  apply (handle_throw_unc_quiet PInterrupt (trys (set_intr st true)) (set_intr st true)). left. reflexivity.
Qed.

(* a stack overflow with no open iterator: nothing runs either *)
Lemma stack_overflow_no_iter_runs_nothing : forall code st,
  nth_error code (pc st) = Some (IUnc PStackOverflow) -> iters st = [] ->
  match vm_step code st with
  | UncOut q st' => q = PStackOverflow /\ trace st' = trace st
  | Crashed => True
  | _ => False
  end.
Proof.
  intros code st H He. unfold vm_step. rewrite H.
  apply (handle_throw_unc_quiet PStackOverflow (trys st) st). right. exact He.
Qed.

(* the finally dispatch of the VM: leaveTry on a frame with a pending finally parks the continuation,
   and leaveFinally resumes exactly there with the frame popped — for every state *)
Lemma leaveTry_leaveFinally_roundtrip : forall code st tf r fp,
  nth_error code (pc st) = Some ILeaveTry -> trys st = tf :: r -> f_fin tf = Some fp ->
  exists st1, vm_step code st = Running st1 /\ pc st1 = fp /\ trace st1 = trace st /\
    exists tf', trys st1 = tf' :: r /\ f_catch tf' = None /\ f_fin tf' = None /\ f_ret tf' = Some (S (pc st)) /\
    forall code2 st2, nth_error code2 (pc st2) = Some ILeaveFinally -> trys st2 = tf' :: r -> f_exc tf' = None ->
      exists st3, vm_step code2 st2 = Running st3 /\ pc st3 = S (pc st) /\ trys st3 = r /\ trace st3 = trace st2.
Proof.
  intros code st tf r fp H HT HF. unfold vm_step. rewrite H, HT, HF.
  eexists. split; [reflexivity|]. simpl. repeat split.
  eexists. split; [reflexivity|]. simpl. repeat split.
  intros code2 st2 H2 HT2 HE. unfold vm_step. rewrite H2, HT2. simpl in *. rewrite HE.
  eexists. split; [reflexivity|]. simpl. repeat split.
Qed.
