(* C08 — compile_control_correct, part 2: VM execution facts and branch-resolution lemmas. *)
From Coq Require Import List Arith ZArith Bool Lia.
Import ListNotations.
From Verif.C08 Require Import Model ProofsC.

(* ------------------------------------------------------------------------------------------------ *)
(* syntactic guards of the partial theorem *)

Fixpoint direct_branch (ss : stmts) : bool :=
  match ss with SNil => false | SCons s r => is_branch s || direct_branch r end.

(* the fragment: no for-of *)
Fixpoint frag (s : stmt) : bool :=
  match s with
  | Block b | Labeled _ b => frags b
  | If a b => frag a && frag b
  | Loop _ _ body => frag body
  | ForOf _ _ _ => false
  | Try b _ c _ f => frags b && frags c && frags f
  | _ => true
  end
with frags (ss : stmts) : bool :=
  match ss with SNil => true | SCons s r => frag s && frags r end.

Fixpoint has_ret (s : stmt) : bool :=
  match s with
  | Return _ => true
  | Block b | Labeled _ b => has_rets b
  | If a b => has_ret a || has_ret b
  | Loop _ _ body | ForOf _ _ body => has_ret body
  | Try b _ c _ f => has_rets b || has_rets c || has_rets f
  | _ => false
  end
with has_rets (ss : stmts) : bool :=
  match ss with SNil => false | SCons s r => has_ret s || has_rets r end.

(* no return statement inside any finally block (region of finding C08-N2) *)
Fixpoint rff (s : stmt) : bool :=
  match s with
  | Block b | Labeled _ b => rffs b
  | If a b => rff a && rff b
  | Loop _ _ body | ForOf _ _ body => rff body
  | Try b _ c _ f => rffs b && rffs c && rffs f && negb (has_rets f)
  | _ => true
  end
with rffs (ss : stmts) : bool :=
  match ss with SNil => true | SCons s r => rff s && rffs r end.

(* ------------------------------------------------------------------------------------------------ *)
(* code layout *)

Definition code_at (code frag : list instr) (pos : nat) : Prop :=
  exists pre post, code = pre ++ frag ++ post /\ length pre = pos.

Lemma code_at_app : forall code a b pos, code_at code (a ++ b) pos ->
  code_at code a pos /\ code_at code b (pos + length a).
Proof.
  intros code a b pos (pre & post & -> & <-). split.
  - exists pre, (b ++ post). rewrite <- app_assoc. auto.
  - exists (pre ++ a), post. rewrite <- !app_assoc. rewrite app_length. auto.
Qed.

Lemma code_at_head : forall code i r pos, code_at code (i :: r) pos -> nth_error code pos = Some i.
Proof.
  intros code i r pos (pre & post & -> & <-). rewrite nth_error_app2 by lia. rewrite Nat.sub_diag. reflexivity.
Qed.

Lemma code_at_tail : forall code i r pos, code_at code (i :: r) pos -> code_at code r (S pos).
Proof.
  intros. change (i :: r) with ([i] ++ r) in H. apply code_at_app in H. destruct H as [_ H].
  simpl in H. replace (S pos) with (pos + 1) by lia. exact H.
Qed.

Lemma code_at_in : forall code i r pos, code_at code (i :: r) pos -> In i code.
Proof. intros. apply code_at_head in H. eapply nth_error_In; eauto. Qed.

(* ------------------------------------------------------------------------------------------------ *)
(* multi-step execution *)

Fixpoint stepsn (code : list instr) (n : nat) (st st' : vmstate) : Prop :=
  match n with
  | O => st = st'
  | S k => exists st1, vm_step code st = Running st1 /\ stepsn code k st1 st'
  end.
Definition steps (code : list instr) (st st' : vmstate) : Prop := exists n, stepsn code n st st'.

Lemma steps_refl : forall code st, steps code st st.
Proof. intros. exists 0. reflexivity. Qed.

Lemma steps_step : forall code st st1 st', vm_step code st = Running st1 -> steps code st1 st' -> steps code st st'.
Proof. intros code st st1 st' H [n Hn]. exists (S n). simpl. eauto. Qed.

Lemma stepsn_trans : forall code n m a b c, stepsn code n a b -> stepsn code m b c -> stepsn code (n + m) a c.
Proof.
  induction n; simpl; intros m a b c H1 H2.
  - subst. assumption.
  - destruct H1 as (st1 & Hs & Hr). exists st1. split; auto. eapply IHn; eauto.
Qed.

Lemma steps_trans : forall code a b c, steps code a b -> steps code b c -> steps code a c.
Proof. intros code a b c [n Hn] [m Hm]. exists (n + m). eapply stepsn_trans; eauto. Qed.

Lemma steps_one : forall code st st1, vm_step code st = Running st1 -> steps code st st1.
Proof. intros. eapply steps_step; eauto. apply steps_refl. Qed.

Lemma vm_run_stepsn : forall code n st st' k, stepsn code n st st' -> vm_run (n + k) code st = vm_run k code st'.
Proof.
  induction n; simpl; intros st st' k H.
  - subst. reflexivity.
  - destruct H as (st1 & Hs & Hr). rewrite Hs. apply IHn. assumption.
Qed.

(* ------------------------------------------------------------------------------------------------ *)
(* block stacks of function-body mode: no needResult *)

Definition bs_ok (bs : list blk) : Prop := Forall (fun b => b_nr b = false) bs.

Lemma bs_ok_nth : forall bs k, bs_ok bs -> b_nr (nth k bs dflt_blk) = false.
Proof.
  intros bs k H. revert k. induction H as [|b r Hn _ IH]; intros [|k]; simpl; auto.
Qed.

Lemma list_mode_fn : forall bs ss, bs_ok bs -> list_mode bs false ss = None.
Proof.
  intros. unfold list_mode. destruct (scan bs ss 0 None) as [lp [k|]]; auto. rewrite bs_ok_nth; auto.
Qed.

Lemma scan_no_direct : forall bs ss i lp, direct_branch ss = false -> snd (scan bs ss i lp) = None.
Proof.
  intros bs ss. induction ss; intros i lp H; simpl in *; auto.
  apply orb_false_iff in H. destruct H as [H1 H2]. rewrite H1. apply IHss. assumption.
Qed.

Lemma fbb_nolabel_shift : forall bs k, fbb_nolabel bs (S k) = option_map S (fbb_nolabel bs k).
Proof.
  induction bs as [|b r IH]; intro k; simpl; auto.
  destruct (b_breaking b); simpl; auto. destruct (is_loop_typ (b_typ b)); simpl; auto.
Qed.

Definition shift_found (f : option (nat * btyp)) := match f with Some (i, t) => Some (S i, t) | None => None end.

Lemma fbb_label_shift : forall bs k x ib res,
  fbb_label bs (S k) x ib (option_map S res) =
  (option_map S (fst (fbb_label bs k x ib res)), shift_found (snd (fbb_label bs k x ib res))).
Proof.
  induction bs as [|b r IH]; intros k x ib res; simpl; auto.
  destruct res as [r0|]; simpl.
  - destruct (olabel_eqb (b_label b) (Some x)); simpl; auto. apply (IH (S k) x ib (Some r0)).
  - destruct (b_breaking b) as [j|]; simpl.
    + destruct ib; simpl; auto.
      destruct (olabel_eqb (b_label b) (Some x)); simpl; auto. apply (IH (S k) x false (Some (k + 1 + j))).
    + destruct (olabel_eqb (b_label b) (Some x)); simpl; auto. apply (IH (S k) x ib None).
Qed.

Definition pre_of (b : blk) : list instr :=
  match b_typ b with BTry => [ILeaveTry] | BLoopEnum => [IEnumPopClose] | _ => [] end.

(* is block b the target of the branch (l, ib)?  (no 'breaking') *)
Definition is_target (b : blk) (l : option nat) : bool :=
  match l with
  | None => is_loop_typ (b_typ b)
  | Some x => olabel_eqb (b_label b) (Some x)
  end.

Lemma find_skip : forall b bs l ib, b_breaking b = None -> is_target b l = false ->
  find_break_block (b :: bs) l ib = option_map S (find_break_block bs l ib).
Proof.
  intros b bs l ib Hb Ht. unfold find_break_block. destruct l as [x|]; simpl in *.
  - rewrite Hb, Ht. simpl.
    pose proof (fbb_label_shift bs 0 x ib None) as E. simpl in E. rewrite E.
    destruct (fbb_label bs 0 x ib None) as [res [[k t]|]]; simpl.
    + destruct (negb ib && negb (is_loop_typ t)); simpl; auto. destruct res; reflexivity.
    + reflexivity.
  - rewrite Hb, Ht. apply (fbb_nolabel_shift bs 0).
Qed.

Lemma compile_branch_skip : forall b bs p l ib, b_breaking b = None -> is_target b l = false ->
  compile_branch (b :: bs) p l ib =
  match find_break_block bs l ib with
  | None => [INil]
  | Some _ => pre_of b ++ compile_branch bs (p + length (pre_of b)) l ib
  end.
Proof.
  intros b bs p l ib Hb Ht. unfold compile_branch at 1. rewrite find_skip by assumption.
  destruct (find_break_block bs l ib) as [k|] eqn:E; simpl; auto.
  unfold compile_branch. rewrite E.
  replace (match b_typ b with BTry => [ILeaveTry] | BLoopEnum => [IEnumPopClose] | _ => [] end) with (pre_of b) by reflexivity.
  rewrite app_length, Nat.add_assoc.
  destruct ib; [|destruct (is_loop_typ (b_typ (nth k bs dflt_blk)))]; rewrite <- app_assoc; reflexivity.
Qed.

Lemma find_hit : forall b bs l ib, b_breaking b = None -> is_target b l = true ->
  find_break_block (b :: bs) l ib =
  if ib || is_loop_typ (b_typ b) then Some 0 else None.
Proof.
  intros b bs l ib Hb Ht. unfold find_break_block. destruct l as [x|]; simpl in *.
  - rewrite Hb, Ht. simpl. destruct ib; simpl; auto. destruct (is_loop_typ (b_typ b)); reflexivity.
  - rewrite Hb, Ht. rewrite orb_true_r. reflexivity.
Qed.

Lemma compile_branch_hit_break : forall b bs p l, b_breaking b = None -> is_target b l = true ->
  compile_branch (b :: bs) p l true = [IJump (zoff (b_brk b) p)].
Proof.
  intros. unfold compile_branch. rewrite find_hit by assumption. simpl. rewrite Nat.add_0_r. reflexivity.
Qed.

Lemma compile_branch_hit_cont : forall b bs p l, b_breaking b = None -> is_target b l = true ->
  is_loop_typ (b_typ b) = true ->
  compile_branch (b :: bs) p l false = [IJump (zoff (b_cont b) p)].
Proof.
  intros b bs p l Hb Ht Hl. unfold compile_branch. rewrite find_hit by assumption. rewrite Hl. simpl.
  rewrite Hl, Nat.add_0_r. reflexivity.
Qed.


(* 'breaking' resolutions: a branch compiled under a try block whose finally list has a direct branch *)
Lemma fbb_label_res : forall bs k x ib r, fst (fbb_label bs k x ib (Some r)) = Some r.
Proof.
  induction bs as [|b bs IH]; intros k x ib r; simpl; auto.
  destruct (olabel_eqb (b_label b) (Some x)); simpl; auto.
Qed.

Lemma find_breaking : forall bs j l ib,
  find_break_block (mkBlk BTry None 0 0 false (Some j) :: bs) l ib = Some (S j) \/
  find_break_block (mkBlk BTry None 0 0 false (Some j) :: bs) l ib = None.
Proof.
  intros bs j l ib. unfold find_break_block. destruct l as [x|]; simpl.
  - destruct ib; simpl. { left. reflexivity. }
    pose proof (fbb_label_res bs 1 x false (S j)) as E.
    destruct (fbb_label bs 1 x false (Some (S j))) as [res [[k t]|]]; simpl in *; subst.
    + destruct (negb (is_loop_typ t)); [right; reflexivity|left; reflexivity].
    + left. reflexivity.
  - left. reflexivity.
Qed.

Lemma compile_branch_breaking_head : forall bs j p l ib,
  compile_branch (mkBlk BTry None 0 0 false (Some j) :: bs) p l ib = [INil] \/
  exists r, compile_branch (mkBlk BTry None 0 0 false (Some j) :: bs) p l ib = ILeaveTry :: r.
Proof.
  intros bs j p l ib. unfold compile_branch.
  destruct (find_breaking bs j l ib) as [E|E]; rewrite E; [|left; reflexivity].
  right. cbn [exit_code b_typ]. simpl app.
  destruct ib; [|destruct (is_loop_typ _)]; eexists; reflexivity.
Qed.

Lemma direct_branch_abrupt : forall n ss acc sc t c sc',
  direct_branch ss = true -> exec_list n ss acc sc = Some (t, c, sc') -> is_normal c = false.
Proof.
  induction n as [|n IH]; intros ss acc sc t c sc' Hd H; [discriminate|].
  destruct ss as [|s r]; [discriminate|]. simpl in Hd.
  change (exec_list (S n) (SCons s r) acc sc) with
    (match exec n s sc with
     | None => None
     | Some (t, c, sc1) =>
         match update_empty c acc with
         | CNormal v => match exec_list n r v sc1 with
                        | Some (t2, c2, sc2) => Some (t ++ t2, c2, sc2) | None => None end
         | c' => Some (t, c', sc1)
         end
     end) in H.
  destruct (exec n s sc) as [[[t0 c0] sc1]|] eqn:E; [|discriminate].
  destruct (update_empty c0 acc) eqn:EU; try (injection H as <- <- <-; reflexivity).
  destruct (is_branch s) eqn:IB.
  - exfalso. destruct s; try discriminate; destruct n; try discriminate; simpl in E; injection E as <- <- <-;
      destruct acc; discriminate.
  - simpl in Hd. destruct (exec_list n r v sc1) as [[[t2 c2] sc2]|] eqn:E2; [|discriminate].
    injection H as <- <- <-. eapply IH; eauto.
Qed.

Lemma scan_some_direct : forall bs ss i lp k, snd (scan bs ss i lp) = Some k -> direct_branch ss = true.
Proof.
  intros bs ss i lp k H. destruct (direct_branch ss) eqn:E; auto.
  rewrite scan_no_direct in H by assumption. discriminate.
Qed.
