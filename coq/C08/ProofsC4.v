(* C08 — compile_control_correct, part 4: the induction. *)
From Coq Require Import List Arith ZArith Bool Lia.
Import ListNotations.
From Verif.C08 Require Import Model Proofs ProofsC ProofsC2 ProofsC3.

Lemma set_pc_same : forall s, set_pc s (pc s) = s.
Proof. destruct s; reflexivity. Qed.

Lemma jump_to_zoff : forall p t, jump_to p (zoff t p) = t.
Proof. intros. unfold jump_to, zoff. lia. Qed.

Lemma jump_to_nat : forall p k, jump_to p (Z.of_nat k) = p + k.
Proof. intros. unfold jump_to. lia. Qed.

Lemma arrives_seq : forall code bs st mid e pres g v c tr1 sc1 tr2 sc2,
  arrives code bs st mid pres g (CNormal v) tr1 sc1 ->
  (forall s, pc s = mid -> script s = sc1 -> arrives code bs s e pres g c tr2 sc2) ->
  arrives code bs st e pres g c (tr1 ++ tr2) sc2.
Proof.
  intros code bs st mid e pres g v c tr1 sc1 tr2 sc2 (s' & S1 & B1 & K1 & P1 & R1) H2.
  eapply arrives_prefix; eauto. apply H2; auto. destruct B1 as (_ & _ & _ & _ & X). exact X.
Qed.

(* after a normal arrival, some more context-preserving steps *)
Lemma arrives_normal_steps : forall code bs st mid e pres g c tr sc',
  arrives code bs st mid pres g c tr sc' ->
  (forall s, pc s = mid -> steps code s (set_pc s e)) ->
  arrives code bs st e pres g c tr sc'.
Proof.
  intros code bs st mid e pres g c tr sc' H HS. destruct c; try exact H.
  destruct H as (s' & S1 & (A1 & A2 & A3 & A4 & A5) & K1 & P1 & R1).
  exists (set_pc s' e). split; [eapply steps_trans; [exact S1|]; apply HS; exact P1|].
  split; [unfold bal; simpl; auto|]. split; [assumption|]. split; [reflexivity|]. assumption.
Qed.

(* a loop or label block that is not the target of the completion is transparent *)
Definition passes (b : blk) (c : compl) : bool :=
  match c with
  | CBreak l _ | CContinue l _ => negb (is_target b l)
  | _ => true
  end.

Lemma arrives_pop_block : forall code b bs st e pres g c tr sc',
  ~ In INil code ->
  (b_typ b = BLoop \/ b_typ b = BLabel) -> b_breaking b = None -> passes b c = true ->
  arrives code (b :: bs) st e pres g c tr sc' -> arrives code bs st e pres g c tr sc'.
Proof.
  intros code b bs st e pres g c tr sc' NN Ht Hb Hp H.
  assert (PO : pre_of b = []). { unfold pre_of. destruct Ht as [-> | ->]; reflexivity. }
  assert (BR : forall p l ib, is_target b l = false -> code_at code (compile_branch (b :: bs) p l ib) p ->
                              code_at code (compile_branch bs p l ib) p).
  { intros p l ib Hi Hc. rewrite compile_branch_skip in Hc by assumption. rewrite PO in Hc. simpl in Hc.
    rewrite Nat.add_0_r in Hc. destruct (find_break_block bs l ib) eqn:E; auto.
    exfalso. apply NN. eapply code_at_in; eauto. }
  destruct c; simpl in *; auto.
  - destruct H as (s' & S1 & B1 & K1 & P1 & R1). exists s'.
    split; [exact S1|]. split; [exact B1|]. split; [exact K1|]. split; [|exact R1].
    apply BR; auto. apply negb_true_iff. exact Hp.
  - destruct H as (s' & S1 & B1 & K1 & P1 & R1). exists s'.
    split; [exact S1|]. split; [exact B1|]. split; [exact K1|]. split; [|exact R1].
    apply BR; auto. apply negb_true_iff. exact Hp.
  - destruct H as (s' & v' & S1 & B1 & K1 & P1 & R1). exists s', v'.
    split; [exact S1|]. split; [exact B1|]. split; [exact K1|]. split; [|exact R1].
    assert (E : ret_code (b :: bs) = ret_code bs).
    { unfold ret_code. simpl. destruct Ht as [-> | ->]; reflexivity. }
    rewrite <- E. exact P1.
Qed.

(* compileTryStatement in function-body mode *)
Lemma try_code_fn : forall bs pos b hasc c hasf f,
  bs_ok bs ->
  try_code bs pos false b hasc c hasf f =
  let bs' := tbr (try_breaking bs hasf f) :: bs in
  let pb := pos + 1 in
  let cb := compile_ss bs' pb None 0 b in
  let pab := pb + length cb in
  let cc := if hasc then compile_ss bs' (pab + 2) None 0 c else [] in
  let ccatch := if hasc then [IJump (Z.of_nat (length cc + 2)); IPop] ++ cc else [] in
  let pf := pab + length ccatch in
  let cf := if hasf then compile_ss (tblk :: bs) (pf + 1) None 0 f else [] in
  [ITry (if hasc then pab + 1 - pos else 0) (if hasf then pf + 1 - pos else 0)] ++ cb ++ ccatch
    ++ (if hasf then [IEnterFinally] ++ cf ++ [ILeaveFinally] else [ILeaveTry]).
Proof.
  intros bs pos b hasc c hasf f Hbs.
  assert (OK0 : bs_ok (tb0 :: bs)) by (constructor; [reflexivity|assumption]).
  assert (NR : try_bnr bs false hasf f = false).
  { unfold try_bnr. destruct (snd (try_scan bs hasf f)) as [k|]; auto.
    destruct (fst (try_scan bs hasf f)); auto. apply bs_ok_nth. exact OK0. }
  assert (FC : try_fclr bs false hasf f = []).
  { unfold try_fclr. rewrite NR. destruct (snd (try_scan bs hasf f)); auto. destruct (fst (try_scan bs hasf f)); auto. }
  assert (OK1 : bs_ok (tbr (try_breaking bs hasf f) :: bs)) by (constructor; [reflexivity|assumption]).
  assert (OK2 : bs_ok (tblk :: bs)) by (constructor; [reflexivity|assumption]).
  unfold try_code. rewrite NR, FC. fold tblk. fold (tbr (try_breaking bs hasf f)). cbv zeta.
  rewrite !(list_mode_fn (tbr (try_breaking bs hasf f) :: bs)) by assumption.
  rewrite !(list_mode_fn (tblk :: bs)) by assumption.
  simpl (clr false). simpl (length []). rewrite !Nat.add_0_r. reflexivity.
Qed.

(* ------------------------------------------------------------------------------------------------ *)

Definition goal_stmt (n : nat) : Prop :=
  forall s sc tr c sc', exec n s sc = Some (tr, c, sc') -> frag s = true ->
  forall code bs pos st, ~ In INil code -> bs_ok bs ->
    code_at code (compile bs pos false s) pos -> pc st = pos -> script st = sc ->
    arrives code bs st (pos + length (compile bs pos false s)) (negb (has_ret s)) (rff s) c tr sc'.

Definition goal_list (n : nat) : Prop :=
  forall ss acc sc tr c sc', exec_list n ss acc sc = Some (tr, c, sc') -> frags ss = true ->
  forall code bs pos st i, ~ In INil code -> bs_ok bs ->
    code_at code (compile_ss bs pos None i ss) pos -> pc st = pos -> script st = sc ->
    arrives code bs st (pos + length (compile_ss bs pos None i ss)) (negb (has_rets ss)) (rffs ss) c tr sc'.

Definition loop_tu (k : loopkind) : list event := match k with LFor u => [EEv u] | _ => [] end.

Definition goal_loop (n : nat) : Prop :=
  forall k l body V skip sc tr c sc', exec_loop n k l body V skip sc = Some (tr, c, sc') -> frag body = true ->
  forall code bs lb testpos bodypos st, ~ In INil code -> bs_ok bs ->
    b_typ lb = BLoop -> b_label lb = l -> b_nr lb = false -> b_breaking lb = None ->
    code_at code (compile (lb :: bs) bodypos false body) bodypos ->
    (forall s0, pc s0 = testpos ->
       steps code s0 (set_script (set_pc s0 (if fst (cond (script s0)) then bodypos else b_brk lb)) (snd (cond (script s0))))) ->
    (forall s0, pc s0 = bodypos + length (compile (lb :: bs) bodypos false body) ->
       steps code s0 (add_trace (set_pc s0 testpos) (loop_tu k))) ->
    (forall s0, pc s0 = b_cont lb -> steps code s0 (add_trace (set_pc s0 testpos) (loop_tu k))) ->
    pc st = (if skip then bodypos else testpos) -> script st = sc ->
    arrives code bs st (b_brk lb) (negb (has_ret body)) (rff body) c tr sc'.

Lemma negb_orb_l : forall a b, negb (a || b) = true -> negb a = true.
Proof. intros [|] [|]; simpl; auto. Qed.
Lemma negb_orb_r : forall a b, negb (a || b) = true -> negb b = true.
Proof. intros [|] [|]; simpl; auto. Qed.
Lemma andb_l : forall a b, a && b = true -> a = true.
Proof. intros [|] [|]; simpl; auto. Qed.
Lemma andb_r : forall a b, a && b = true -> b = true.
Proof. intros [|] [|]; simpl; auto. Qed.

Lemma case_list : forall n, goal_stmt n -> goal_list n -> goal_list (S n).
Proof.
  intros n IHs IHl ss acc sc tr c sc' H Hfr code bs pos st i NN Hbs Hc Hpc Hsc.
  destruct ss as [|s r].
  - simpl in H. inversion H; subst. simpl. rewrite Nat.add_0_r. exists st.
    split; [apply steps_refl|]. split; [apply bal_refl|]. auto.
  - simpl in Hfr. pose proof (andb_l _ _ Hfr) as Hf1. pose proof (andb_r _ _ Hfr) as Hf2.
    rewrite Proofs.exec_list_cons in H.
    destruct (exec n s sc) as [[[t0 c0] sc1]|] eqn:E; [|discriminate].
    cbn [compile_ss] in Hc |- *. cbn [has_rets rffs].
    set (cs := compile bs pos false s) in *.
    apply code_at_app in Hc. destruct Hc as [Hc1 Hc2].
    pose proof (IHs s sc t0 c0 sc1 E Hf1 code bs pos st NN Hbs Hc1 Hpc Hsc) as A1. fold cs in A1.
    assert (A1' : arrives code bs st (pos + length cs) (negb (has_ret s || has_rets r)) (rff s && rffs r) c0 t0 sc1).
    { eapply arrives_weaken; [| |exact A1]. apply negb_orb_l. apply andb_l. }
    rewrite app_length, Nat.add_assoc.
    destruct c0 as [v0|l0 v0|l0 v0|v0|v0|p0].
    + (* normal: continue with the rest *)
      assert (EU : exists w, update_empty (CNormal v0) acc = CNormal w) by (destruct v0; simpl; eauto).
      destruct EU as [w EU]. rewrite EU in H.
      destruct (exec_list n r w sc1) as [[[t2 c2] sc2]|] eqn:E2; [|discriminate].
      injection H as Ht Hcc Hsc'. subst tr c2 sc2.
      eapply arrives_seq; [exact A1'|]. intros s0 Hp0 Hs0.
      eapply arrives_weaken; [| |apply (IHl r w sc1 t2 c sc' E2 Hf2 code bs (pos + length cs) s0 (S i) NN Hbs Hc2 Hp0 Hs0)].
      apply negb_orb_r. apply andb_r.
    + assert (EU : update_empty (CBreak l0 v0) acc = CBreak l0 (match v0 with Some _ => v0 | None => acc end)) by (destruct v0; reflexivity).
      rewrite EU in H. inversion H; subst. exact A1'.
    + assert (EU : update_empty (CContinue l0 v0) acc = CContinue l0 (match v0 with Some _ => v0 | None => acc end)) by (destruct v0; reflexivity).
      rewrite EU in H. inversion H; subst. exact A1'.
    + simpl in H. inversion H; subst. exact A1'.
    + simpl in H. inversion H; subst. exact A1'.
    + simpl in H. inversion H; subst. exact A1'.
Qed.

Lemma exec_loop_S : forall n k l body V skip sc,
  exec_loop (S n) k l body V skip sc =
  let '(go, sc1) := if skip then (true, sc) else cond sc in
  if negb go then Some ([], CNormal (Some V), sc1) else
  match exec n body sc1 with
  | None => None
  | Some (t, c, sc2) =>
      if loop_continues c l then
        match exec_loop n k l body (vor (cval c) V) false sc2 with
        | Some (t2, c2, sc3) => Some (t ++ loop_tu k ++ t2, c2, sc3)
        | None => None
        end
      else Some (t, loop_exit l (update_empty c (Some V)), sc2)
  end.
Proof. intros. destruct k; reflexivity. Qed.

Lemma loop_target : forall lb l l0, b_typ lb = BLoop -> b_label lb = l ->
  is_target lb l0 = match l0 with
                    | None => true
                    | Some x => match l with Some y => Nat.eqb x y | None => false end
                    end.
Proof.
  intros lb l l0 Ht Hl. unfold is_target. destruct l0 as [x|]; [|rewrite Ht; reflexivity].
  rewrite Hl. destruct l as [y|]; simpl; auto. apply Nat.eqb_sym.
Qed.

Lemma case_loop : forall n, goal_stmt n -> goal_loop n -> goal_loop (S n).
Proof.
  intros n IHs IHL k l body V skip sc tr c sc' H Hfr code bs lb testpos bodypos st NN Hbs Hty Hlab Hnr Hbrk Hc HT HA HC Hpc Hsc.
  rewrite exec_loop_S in H.
  set (cb := compile (lb :: bs) bodypos false body) in *.
  assert (OKb : bs_ok (lb :: bs)) by (constructor; [assumption|assumption]).
  set (pres := negb (has_ret body)). set (g := rff body).
  (* from the start of the body *)
  assert (CONT : forall s1 sc1 tr1 c1 sc1', pc s1 = bodypos -> script s1 = sc1 ->
     match exec n body sc1 with
     | None => None
     | Some (t, c, sc2) =>
         if loop_continues c l then
           match exec_loop n k l body (vor (cval c) V) false sc2 with
           | Some (t2, c2, sc3) => Some (t ++ loop_tu k ++ t2, c2, sc3)
           | None => None
           end
         else Some (t, loop_exit l (update_empty c (Some V)), sc2)
     end = Some (tr1, c1, sc1') ->
     arrives code bs s1 (b_brk lb) pres g c1 tr1 sc1').
  { intros s1 sc1 tr1 c1 sc1' Hp1 Hs1 HX.
    destruct (exec n body sc1) as [[[t0 c0] sc2]|] eqn:EB; [|discriminate].
    pose proof (IHs body sc1 t0 c0 sc2 EB Hfr code (lb :: bs) bodypos s1 NN OKb Hc Hp1 Hs1) as A0.
    fold cb pres g in A0.
    destruct (loop_continues c0 l) eqn:LC.
    - destruct (exec_loop n k l body (vor (cval c0) V) false sc2) as [[[t2 c2] sc3]|] eqn:ER; [|discriminate].
      injection HX as <- <- <-.
      assert (REC : forall s0, pc s0 = testpos -> script s0 = sc2 -> arrives code bs s0 (b_brk lb) pres g c2 t2 sc3).
      { intros s0 Hp0 Hs0.
        exact (IHL k l body (vor (cval c0) V) false sc2 t2 c2 sc3 ER Hfr code bs lb testpos bodypos s0 NN Hbs Hty Hlab Hnr Hbrk Hc HT HA HC Hp0 Hs0). }
      destruct c0 as [v0|l0 v0|l0 v0|v0|v0|p0]; try discriminate.
      + destruct A0 as (s' & S1 & (B1 & B2 & B3 & B4 & B5) & K1 & P1 & R1).
        pose proof (HA s' P1) as S2.
        rewrite app_assoc.
        eapply (arrives_prefix code bs s1 (add_trace (set_pc s' testpos) (loop_tu k))).
        * eapply steps_trans; eauto.
        * unfold bal. simpl. repeat split; auto. rewrite B4, app_assoc. reflexivity.
        * simpl. assumption.
        * simpl. assumption.
        * apply REC; simpl; auto.
      + (* continue of this loop *)
        assert (TG : is_target lb l0 = true).
        { rewrite (loop_target lb l l0 Hty Hlab). simpl in LC. destruct l0; auto. }
        destruct A0 as (s' & S1 & (B1 & B2 & B3 & B4 & B5) & K1 & P1 & R1).
        rewrite compile_branch_hit_cont in P1; auto; [|rewrite Hty; reflexivity].
        pose proof (code_at_head _ _ _ _ P1) as IJ.
        assert (E1 : vm_step code s' = Running (set_pc s' (b_cont lb))).
        { unfold vm_step. rewrite IJ, jump_to_zoff. reflexivity. }
        pose proof (HC (set_pc s' (b_cont lb)) eq_refl) as S2.
        rewrite app_assoc.
        eapply (arrives_prefix code bs s1 (add_trace (set_pc (set_pc s' (b_cont lb)) testpos) (loop_tu k))).
        * eapply steps_trans; [exact S1|]. eapply steps_step; [exact E1|]. exact S2.
        * unfold bal. simpl. repeat split; auto. rewrite B4, app_assoc. reflexivity.
        * simpl. assumption.
        * simpl. assumption.
        * apply REC; simpl; auto.
    - injection HX as <- <- <-.
      destruct c0 as [v0|l0 v0|l0 v0|v0|v0|p0]; try discriminate.
      + (* break *)
        destruct (is_target lb l0) eqn:TG.
        * assert (LE : exists w, loop_exit l (update_empty (CBreak l0 v0) (Some V)) = CNormal w).
          { rewrite (loop_target lb l l0 Hty Hlab) in TG.
            destruct v0; simpl; destruct l0 as [x|]; simpl; eauto; destruct l as [y|]; try discriminate; rewrite TG; eauto. }
          destruct LE as [w ->].
          destruct A0 as (s' & S1 & BB & K1 & P1 & R1).
          rewrite compile_branch_hit_break in P1; auto.
          pose proof (code_at_head _ _ _ _ P1) as IJ.
          assert (E1 : vm_step code s' = Running (set_pc s' (b_brk lb))).
          { unfold vm_step. rewrite IJ, jump_to_zoff. reflexivity. }
          exists (set_pc s' (b_brk lb)). split; [eapply steps_trans; [exact S1|]; apply steps_one; exact E1|].
          split; [exact BB|]. split; [exact K1|]. split; [reflexivity|exact R1].
        * assert (LE : loop_exit l (update_empty (CBreak l0 v0) (Some V)) =
                       CBreak l0 (match v0 with Some _ => v0 | None => Some V end)).
          { rewrite (loop_target lb l l0 Hty Hlab) in TG.
            destruct v0; simpl; destruct l0 as [x|]; simpl; try discriminate; destruct l as [y|]; auto; rewrite TG; auto. }
          rewrite LE. eapply arrives_pop_block; eauto. simpl. rewrite TG. reflexivity.
      + (* continue of an outer loop *)
        assert (TG : is_target lb l0 = false).
        { rewrite (loop_target lb l l0 Hty Hlab). simpl in LC. destruct l0; auto. }
        assert (LE : loop_exit l (update_empty (CContinue l0 v0) (Some V)) =
                     CContinue l0 (match v0 with Some _ => v0 | None => Some V end)) by (destruct v0; reflexivity).
        rewrite LE. eapply arrives_pop_block; eauto. simpl. rewrite TG. reflexivity.
      + change (loop_exit l (update_empty (CReturn v0) (Some V))) with (CReturn v0). eapply arrives_pop_block; eauto.
      + change (loop_exit l (update_empty (CThrow v0) (Some V))) with (CThrow v0). eapply arrives_pop_block; eauto.
      + change (loop_exit l (update_empty (CUnc p0) (Some V))) with (CUnc p0). eapply arrives_pop_block; eauto. }
  destruct skip.
  - (* do-while: first iteration without test *)
    cbv beta iota in H. simpl negb in H. cbv iota in H. eapply CONT; eauto.
  - pose proof (HT st Hpc) as ST. rewrite Hsc in ST.
    destruct (cond sc) as [go sc1] eqn:EC. simpl fst in ST. simpl snd in ST.
    destruct go; simpl negb in H; cbv iota in H.
    + replace tr with ([] ++ tr) by reflexivity.
      eapply (arrives_prefix code bs st (set_script (set_pc st bodypos) sc1));
        [exact ST | unfold bal; simpl; rewrite app_nil_r; auto | reflexivity | intros; reflexivity | eapply CONT; eauto].
    + injection H as <- <- <-.
      exists (set_script (set_pc st (b_brk lb)) sc1). split; [exact ST|].
      split; [unfold bal; simpl; rewrite app_nil_r; auto|]. auto.
Qed.

Lemma add_trace_nil : forall s, add_trace s [] = s.
Proof. destruct s. unfold add_trace. simpl. rewrite app_nil_r. reflexivity. Qed.

Definition stmt_goal_at (n : nat) (s : stmt) : Prop :=
  forall sc tr c sc', exec (S n) s sc = Some (tr, c, sc') -> frag s = true ->
  forall code bs pos st, ~ In INil code -> bs_ok bs ->
    code_at code (compile bs pos false s) pos -> pc st = pos -> script st = sc ->
    arrives code bs st (pos + length (compile bs pos false s)) (negb (has_ret s)) (rff s) c tr sc'.

Lemma jnec_step : forall code s0 off, nth_error code (pc s0) = Some (IJneC off) ->
  vm_step code s0 =
  Running (set_script (set_pc s0 (if fst (cond (script s0)) then S (pc s0) else jump_to (pc s0) off)) (snd (cond (script s0)))).
Proof.
  intros. unfold vm_step. rewrite H. destruct (cond (script s0)) as [b sc1]. simpl. destruct b; reflexivity.
Qed.

Lemma jeqc_step : forall code s0 off, nth_error code (pc s0) = Some (IJeqC off) ->
  vm_step code s0 =
  Running (set_script (set_pc s0 (if fst (cond (script s0)) then jump_to (pc s0) off else S (pc s0))) (snd (cond (script s0)))).
Proof.
  intros. unfold vm_step. rewrite H. destruct (cond (script s0)) as [b sc1]. simpl. destruct b; reflexivity.
Qed.

Lemma case_loopstmt : forall n k l body, goal_stmt n -> goal_loop n -> stmt_goal_at n (Loop k l body).
Proof.
  intros n k l body IHs IHL sc tr c sc' H Hfr code bs pos st NN Hbs Hc Hpc Hsc.
  change (exec (S n) (Loop k l body) sc) with
    (exec_loop n k l body VUndef (match k with LDoWhile => true | _ => false end) sc) in H.
  simpl in Hfr. cbn [has_ret rff].
  destruct k as [| |u].
  - (* while *)
    cbn [compile] in Hc |- *. simpl (clr false) in *. simpl (length (@nil instr)) in *. cbn [app] in *.
    rewrite !Nat.add_0_r in *.
    set (lb0 := mkBlk BLoop l 0 pos false None) in *.
    set (len0 := length (compile (lb0 :: bs) (pos + 1) false body)) in *.
    set (brk := pos + 1 + len0 + 1) in *.
    set (lb := mkBlk BLoop l brk pos false None) in *.
    set (cb := compile (lb :: bs) (pos + 1) false body) in *.
    assert (L0 : len0 = length cb).
    { unfold len0, cb. apply (proj1 len_indep). apply shape_cons; [repeat split|apply shape_refl]. }
    pose proof (code_at_head _ _ _ _ Hc) as I1. apply code_at_tail in Hc.
    apply code_at_app in Hc. destruct Hc as [Hcb Hj]. pose proof (code_at_head _ _ _ _ Hj) as I2.
    replace (S pos) with (pos + 1) in * by lia.
    assert (EQ : pos + length (IJneC (zoff brk pos) :: cb ++ [IJump (zoff pos (pos + 1 + length cb))]) = b_brk lb).
    { simpl. rewrite app_length. simpl. unfold brk. lia. }
    rewrite EQ.
    eapply (IHL LWhile l body VUndef false sc tr c sc' H Hfr code bs lb pos (pos + 1) st); auto.
    + intros s0 Hp0. apply steps_one. rewrite jnec_step with (off := zoff brk pos) by (rewrite Hp0; exact I1).
      rewrite Hp0, jump_to_zoff. replace (S pos) with (pos + 1) by lia. reflexivity.
    + intros s0 Hp0. fold cb in Hp0. simpl loop_tu. rewrite add_trace_nil. apply steps_one.
      unfold vm_step. rewrite Hp0, I2, jump_to_zoff. reflexivity.
    + intros s0 Hp0. simpl in Hp0. simpl loop_tu. rewrite add_trace_nil. rewrite <- Hp0, set_pc_same. apply steps_refl.
  - (* do-while *)
    cbn [compile] in Hc |- *.
    set (lb0 := mkBlk BLoop l 0 0 false None) in *.
    set (len0 := length (compile (lb0 :: bs) pos false body)) in *.
    set (lb := mkBlk BLoop l (pos + len0 + 1) (pos + len0) false None) in *.
    set (cb := compile (lb :: bs) pos false body) in *.
    assert (L0 : len0 = length cb).
    { unfold len0, cb. apply (proj1 len_indep). apply shape_cons; [repeat split|apply shape_refl]. }
    apply code_at_app in Hc. destruct Hc as [Hcb Hj]. pose proof (code_at_head _ _ _ _ Hj) as I2.
    assert (EQ : pos + length (cb ++ [IJeqC (zoff pos (pos + length cb))]) = b_brk lb).
    { rewrite app_length. simpl. lia. }
    rewrite EQ.
    eapply (IHL LDoWhile l body VUndef true sc tr c sc' H Hfr code bs lb (pos + length cb) pos st); auto.
    + intros s0 Hp0. apply steps_one. rewrite jeqc_step with (off := zoff pos (pos + length cb)) by (rewrite Hp0; exact I2).
      rewrite Hp0, jump_to_zoff. simpl b_brk. replace (S (pos + length cb)) with (pos + len0 + 1) by lia. reflexivity.
    + intros s0 Hp0. fold cb in Hp0. simpl loop_tu. rewrite add_trace_nil. rewrite <- Hp0, set_pc_same. apply steps_refl.
    + intros s0 Hp0. simpl in Hp0. simpl loop_tu. rewrite add_trace_nil.
      replace (pos + length cb) with (pc s0) by lia. rewrite set_pc_same. apply steps_refl.
  - (* for *)
    cbn [compile] in Hc |- *. simpl (clr false) in *. simpl (length (@nil instr)) in *. cbn [app] in *.
    rewrite !Nat.add_0_r in *.
    set (lb0 := mkBlk BLoop l 0 0 false None) in *.
    set (len0 := length (compile (lb0 :: bs) (pos + 1) false body)) in *.
    set (cont := pos + 1 + len0) in *.
    set (lb := mkBlk BLoop l (cont + 2) cont false None) in *.
    set (cb := compile (lb :: bs) (pos + 1) false body) in *.
    assert (L0 : len0 = length cb).
    { unfold len0, cb. apply (proj1 len_indep). apply shape_cons; [repeat split|apply shape_refl]. }
    pose proof (code_at_head _ _ _ _ Hc) as I1. apply code_at_tail in Hc.
    apply code_at_app in Hc. destruct Hc as [Hcb Hj]. pose proof (code_at_head _ _ _ _ Hj) as I2.
    apply code_at_tail in Hj. pose proof (code_at_head _ _ _ _ Hj) as I3.
    replace (S pos) with (pos + 1) in * by lia.
    assert (EQ : pos + length (IJneC (zoff (cont + 2) pos) :: cb ++ [IEvent u false; IJump (zoff pos (pos + 1 + length cb + 1))]) = b_brk lb).
    { simpl. rewrite app_length. simpl. unfold cont. lia. }
    rewrite EQ.
    assert (UPD : forall s0, pc s0 = pos + 1 + length cb -> steps code s0 (add_trace (set_pc s0 pos) [EEv u])).
    { intros s0 Hp0.
      eapply steps_step. { unfold vm_step. rewrite Hp0, I2. reflexivity. }
      apply steps_one. unfold vm_step. simpl pc. rewrite I3.
      replace (jump_to (S (pos + 1 + length cb)) (zoff pos (pos + 1 + length cb + 1))) with pos
        by (unfold jump_to, zoff; lia).
      destruct s0; reflexivity. }
    eapply (IHL (LFor u) l body VUndef false sc tr c sc' H Hfr code bs lb pos (pos + 1) st); auto.
    all: intros s0 Hp0.
    1: { apply steps_one. rewrite jnec_step with (off := zoff (cont + 2) pos) by (rewrite Hp0; exact I1).
         rewrite Hp0, jump_to_zoff. replace (S pos) with (pos + 1) by lia. reflexivity. }
    all: apply UPD; first [exact Hp0 | simpl in Hp0; unfold cont in Hp0; lia].
Qed.

Lemma exec_try_S : forall n b hasc c hasf f sc,
  exec (S n) (Try b hasc c hasf f) sc =
  match exec_list n b None sc with
  | None => None
  | Some (tb, B, sc1) =>
    if is_unc B then Some (tb, B, sc1) else
    match (if hasc && is_throw B then
             match exec_list n c None sc1 with
             | Some (tc, C, sc2) => Some (tb ++ tc, C, sc2)
             | None => None
             end
           else Some (tb, B, sc1)) with
    | None => None
    | Some (t1, C, sc2) =>
      if is_unc C then Some (t1, C, sc2) else
      if hasf then
        match exec_list n f None sc2 with
        | None => None
        | Some (tf, F, sc3) => Some (t1 ++ tf, update_empty (if is_normal F then C else F) (Some VUndef), sc3)
        end
      else Some (t1, update_empty C (Some VUndef), sc2)
    end
  end.
Proof. reflexivity. Qed.

(* an uncatchable payload raised inside a region guarded by one more (non-marker) frame *)
Lemma unc_through_frame : forall code bs bs' so sR fr tr0 prs e e' p1 g1 p2 g2 p t sc,
  based code so sR fr tr0 prs -> f_marker fr = false ->
  arrives code bs' sR e p1 g1 (CUnc p) t sc ->
  arrives code bs so e' p2 g2 (CUnc p) (tr0 ++ t) sc.
Proof.
  intros code bs bs' so sR fr tr0 prs e e' p1 g1 p2 g2 p t sc (Bs & Bt & Bi & Bn & Btr & Bk & Br) Hm
         (s1 & s2 & S1 & V1 & (frs & F1 & F2) & I1 & T1).
  exists s1, s2. split; [eapply steps_trans; eauto|]. split; [exact V1|].
  split. { exists (frs ++ [fr]). split. { rewrite F1, Bt, <- app_assoc. reflexivity. }
           apply Forall_app. split; [assumption|]. constructor; [assumption|constructor]. }
  split; [congruence|]. rewrite T1, Btr, app_assoc. reflexivity.
Qed.

Lemma case_try : forall n b hasc cc hasf f, goal_list n -> stmt_goal_at n (Try b hasc cc hasf f).
Proof.
  intros n b hasc cc hasf f IHl sc tr c sc' H Hfr code bs pos st NN Hbs Hc Hpc Hsc.
  cbn [frag] in Hfr.
  pose proof (andb_r _ _ Hfr) as Ff. pose proof (andb_l _ _ Hfr) as Hfr1.
  pose proof (andb_r _ _ Hfr1) as Fc. pose proof (andb_l _ _ Hfr1) as Fb. clear Hfr Hfr1.
  rewrite compile_try_eq, try_code_fn in Hc |- * by auto. cbv zeta in Hc |- *.
  set (br := try_breaking bs hasf f) in *.
  set (bs' := tbr br :: bs) in *.
  set (cb := compile_ss bs' (pos + 1) None 0 b) in *.
  set (pab := pos + 1 + length cb) in *.
  set (cc' := if hasc then compile_ss bs' (pab + 2) None 0 cc else []) in *.
  set (ccatch := if hasc then [IJump (Z.of_nat (length cc' + 2)); IPop] ++ cc' else []) in *.
  set (pf := pab + length ccatch) in *.
  set (cf := if hasf then compile_ss (tblk :: bs) (pf + 1) None 0 f else []) in *.
  set (fin := if hasf then [IEnterFinally] ++ cf ++ [ILeaveFinally] else [ILeaveTry]) in *.
  set (coff := if hasc then pab + 1 - pos else 0) in *.
  set (foff := if hasf then pf + 1 - pos else 0) in *.
  assert (OK' : bs_ok bs') by (constructor; [reflexivity|assumption]).
  assert (OKf : bs_ok (tblk :: bs)) by (constructor; [reflexivity|assumption]).
  cbn [has_ret rff].
  set (pres := negb (has_rets b || has_rets cc || has_rets f)).
  set (g := rffs b && rffs cc && rffs f && negb (has_rets f)).
  assert (Pb : pres = true -> negb (has_rets b) = true).
  { unfold pres. destruct (has_rets b); simpl; auto. }
  assert (Pc : pres = true -> negb (has_rets cc) = true).
  { unfold pres. destruct (has_rets b), (has_rets cc); simpl; auto. }
  assert (Pf : pres = true -> negb (has_rets f) = true).
  { unfold pres. destruct (has_rets b), (has_rets cc), (has_rets f); simpl; auto. }
  assert (Gb : g = true -> rffs b = true) by (unfold g; destruct (rffs b); simpl; auto).
  assert (Gc : g = true -> rffs cc = true) by (unfold g; destruct (rffs b), (rffs cc); simpl; auto).
  assert (Gf : g = true -> rffs f = true) by (unfold g; destruct (rffs b), (rffs cc), (rffs f); simpl; auto).
  assert (Gp : g = true -> negb (has_rets f) = true)
    by (unfold g; destruct (rffs b), (rffs cc), (rffs f), (has_rets f); simpl; auto).
  (* code layout *)
  pose proof (code_at_head _ _ _ _ Hc) as Itry. apply code_at_tail in Hc.
  replace (S pos) with (pos + 1) in Hc by lia.
  apply code_at_app in Hc. destruct Hc as [Hcb Hc]. fold pab in Hc.
  apply code_at_app in Hc. destruct Hc as [Hcc Hfin]. fold pf in Hfin.
  set (il := length (iters st)). set (sp := length (stk st)).
  set (cp := if hasc then Some (pab + 1) else None).
  set (fp := if hasf then Some (pf + 1) else None).
  set (F0 := mkFrame cp fp None None il sp false).
  set (s1 := set_trys (set_pc st (S pos)) (F0 :: trys st)).
  assert (E0 : vm_step code st = Running s1).
  { unfold vm_step. rewrite Hpc, Itry. unfold s1, F0, cp, fp, coff, foff.
    assert (X1 : (if Nat.ltb 0 (if hasc then pab + 1 - pos else 0) then Some (pos + (if hasc then pab + 1 - pos else 0)) else None)
                 = if hasc then Some (pab + 1) else None).
    { destruct hasc; [|reflexivity]. replace (Nat.ltb 0 (pab + 1 - pos)) with true by (symmetry; apply Nat.ltb_lt; unfold pab; lia).
      f_equal. unfold pab. lia. }
    assert (X2 : (if Nat.ltb 0 (if hasf then pf + 1 - pos else 0) then Some (pos + (if hasf then pf + 1 - pos else 0)) else None)
                 = if hasf then Some (pf + 1) else None).
    { destruct hasf; [|reflexivity]. replace (Nat.ltb 0 (pf + 1 - pos)) with true by (symmetry; apply Nat.ltb_lt; unfold pf, pab; lia).
      f_equal. unfold pf, pab. lia. }
    rewrite X1, X2. reflexivity. }
  assert (BASE1 : forall prs, based code st s1 F0 [] prs).
  { intro prs. unfold based, s1. simpl. rewrite app_nil_r. repeat split; auto. apply steps_one. exact E0. }
  set (endpos := pos + length (ITry coff foff :: cb ++ ccatch ++ fin)).
  assert (EP : endpos = pf + length fin).
  { unfold endpos. simpl. rewrite !app_length. unfold pf, pab. lia. }
  (* the tail: a region result followed by finally / leaveTry *)
  assert (TAIL : forall sR cpR endR presR gR C1 t1 tr0 sc2 tr1 c1 sc1',
     based code st sR (mkFrame cpR fp None None il sp false) tr0 pres ->
     arrives code bs' sR endR presR gR C1 t1 sc2 ->
     (forall st', pc st' = endR -> steps code st' (set_pc st' pf)) ->
     (is_throw C1 = true -> cpR = None) -> is_unc C1 = false ->
     (pres = true -> presR = true) -> (g = true -> gR = true) ->
     (if hasf then
        match exec_list n f None sc2 with
        | None => None
        | Some (tf, F, sc3) => Some ((tr0 ++ t1) ++ tf, update_empty (if is_normal F then C1 else F) (Some VUndef), sc3)
        end
      else Some (tr0 ++ t1, update_empty C1 (Some VUndef), sc2)) = Some (tr1, c1, sc1') ->
     arrives code bs st endpos pres g c1 tr1 sc1').
  { intros sR cpR endR presR gR C1 t1 tr0 sc2 tr1 c1 sc1' HB HR HN HT HU Hp1 Hg1 HX.
    rewrite EP. unfold fin, fp, cf in *. destruct hasf.
    - destruct (exec_list n f None sc2) as [[[tf F] sc3]|] eqn:EF; [|discriminate].
      injection HX as <- <- <-. apply arrives_update_empty. rewrite <- app_assoc.
      assert (HF : forall sF, pc sF = pf + 1 -> script sF = sc2 ->
                arrives code (tblk :: bs) sF (pf + 1 + length (compile_ss (tblk :: bs) (pf + 1) None 0 f))
                        (negb (has_rets f)) (rffs f) F tf sc3).
      { intros sF HpF HsF. apply code_at_app in Hfin. destruct Hfin as [_ Hf2]. apply code_at_app in Hf2. destruct Hf2 as [Hf2 _].
        simpl in Hf2. exact (IHl f None sc2 tf F sc3 EF Ff code (tblk :: bs) (pf + 1) sF 0 NN OKf Hf2 HpF HsF). }
      assert (HBR : br <> None -> is_normal F = false).
      { intro Hne. unfold br, try_breaking in Hne.
        destruct (snd (try_scan bs true f)) as [k|] eqn:ES; [|congruence].
        unfold try_scan in ES. apply scan_some_direct in ES. eapply direct_branch_abrupt; eauto. }
      pose proof (try_tail_fin code bs f pf NN Hfin (negb (has_rets f)) (rffs f) sc2 sc3 tf F HF br HBR
                   st sR cpR endR presR gR pres g C1 t1 tr0 HB HR HN HT HU Hp1 Pf Hg1 Gf Gp) as X.
      replace (pf + length ([IEnterFinally] ++ compile_ss (tblk :: bs) (pf + 1) None 0 f ++ [ILeaveFinally]))
        with (pf + 1 + length (compile_ss (tblk :: bs) (pf + 1) None 0 f) + 1).
      2:{ simpl. rewrite app_length. simpl. lia. }
      exact X.
    - injection HX as <- <- <-. apply arrives_update_empty.
      simpl length. exact (try_tail_nofin code bs pf st sR cpR endR presR gR pres g C1 t1 tr0 sc2 NN Hfin HB HR HN HT HU Hp1 Hg1). }
  (* the try body *)
  rewrite exec_try_S in H.
  destruct (exec_list n b None sc) as [[[tb B] sc1]|] eqn:EB; [|discriminate].
  assert (AB : arrives code bs' s1 pab (negb (has_rets b)) (rffs b) B tb sc1).
  { exact (IHl b None sc tb B sc1 EB Fb code bs' (pos + 1) s1 0 NN OK' Hcb ltac:(simpl; lia) Hsc). }
  destruct (is_unc B) eqn:UB.
  { injection H as <- <- <-. destruct B; try discriminate.
    replace tb with ([] ++ tb) by reflexivity.
    eapply unc_through_frame; [apply (BASE1 true)|reflexivity|exact AB]. }
  destruct (hasc && is_throw B) eqn:HCT.
  - (* caught: run the catch block *)
    apply andb_true_iff in HCT. destruct HCT as [HC HTB]. destruct B as [| | | |v|]; try discriminate.
    destruct (exec_list n cc None sc1) as [[[tc C1] sc2]|] eqn:EC; [|discriminate].
    destruct AB as (sa & s2 & S1 & V1 & (A1 & A2 & A3 & A4 & A5) & (xs & K1) & R1).
    subst hasc.
    set (Fcat := mkFrame None fp None None il sp false).
    set (st3 := restore_stacks (set_stk s2 (keep sp (stk s2))) il).
    set (s3 := set_pc (set_trys (set_stk st3 (v :: stk st3)) (Fcat :: trys st)) (pab + 1)).
    assert (E1 : vm_step code sa = Running s3).
    { rewrite V1. unfold vthrow. rewrite A1. unfold s1. simpl trys. reflexivity. }
    assert (KS : keep sp (stk s2) = stk st). { rewrite K1. unfold s1. simpl stk. apply keep_app. }
    assert (RS : st3 = add_trace (set_stk s2 (stk st)) []).
    { unfold st3. rewrite KS. unfold il.
      replace (iters st) with (iters (set_stk s2 (stk st))) by (simpl; rewrite A2; reflexivity).
      apply restore_none. }
    unfold ccatch, cc' in Hcc. 
    apply code_at_tail in Hcc. pose proof (code_at_head _ _ _ _ Hcc) as Ipop. apply code_at_tail in Hcc.
    replace (S (S pab)) with (pab + 2) in Hcc by lia.
    set (s4 := set_stk (set_pc s3 (pab + 2)) (stk st)).
    assert (E2 : vm_step code s3 = Running s4).
    { unfold vm_step. change (pc s3) with (pab + 1). replace (pab + 1) with (S pab) by lia. rewrite Ipop.
      unfold s4, s3. rewrite RS. simpl. replace (S (S pab)) with (pab + 2) by lia. reflexivity. }
    assert (BASE4 : based code st s4 Fcat tb pres).
    { unfold based. unfold s4, s3. rewrite RS. simpl.
      split. { eapply steps_trans; [apply steps_one; exact E0|]. eapply steps_trans; [exact S1|].
               eapply steps_step; [exact E1|]. apply steps_one. rewrite E2. unfold s4, s3. rewrite RS. reflexivity. }
      repeat split; auto; try (rewrite A2; reflexivity); try (rewrite A3; reflexivity);
        try (rewrite app_nil_r, A4; unfold s1; simpl; reflexivity); try (intro; rewrite R1; auto). }
    assert (AC : arrives code bs' s4 (pab + 2 + length (compile_ss bs' (pab + 2) None 0 cc)) (negb (has_rets cc)) (rffs cc) C1 tc sc2).
    { apply (IHl cc None sc1 tc C1 sc2 EC Fc code bs' (pab + 2) s4 0 NN OK' Hcc); [reflexivity|].
      unfold s4, s3. rewrite RS. simpl. exact A5. }
    destruct (is_unc C1) eqn:UC.
    { injection H as <- <- <-. destruct C1; try discriminate.
      eapply unc_through_frame; [exact BASE4|reflexivity|exact AC]. }
    eapply (TAIL s4 None _ _ _ C1 tc tb sc2); eauto.
    intros st' Hp'. replace pf with (pc st'). { rewrite set_pc_same. apply steps_refl. }
    rewrite Hp'. unfold pf, ccatch, cc'. simpl. lia.
  - (* not caught here *)
    assert (HT : is_throw B = true -> cp = None).
    { intro E. rewrite E in HCT. rewrite andb_true_r in HCT. unfold cp. rewrite HCT. reflexivity. }
    eapply (TAIL s1 cp pab _ _ B tb [] sc1 tr c sc' (BASE1 pres) AB); auto.
    1: intros st' Hp'; unfold pf, ccatch, cc'; destruct hasc.
    + pose proof (code_at_head _ _ _ _ Hcc) as IJ. apply steps_one.
      unfold vm_step. rewrite Hp', IJ, jump_to_nat. simpl length. unfold cc'. cbv iota. f_equal. f_equal. lia.
    + simpl. rewrite Nat.add_0_r. rewrite <- Hp', set_pc_same. apply steps_refl.
    + rewrite UB in H. exact H.
Qed.

Lemma compile_if_fn : forall bs pos s1 s2,
  compile bs pos false (If s1 s2) =
  IJneC (Z.of_nat (length (compile bs (pos + 1) false s1) + 2)) :: compile bs (pos + 1) false s1 ++
  IJump (Z.of_nat (length (compile bs (pos + 1 + length (compile bs (pos + 1) false s1) + 1) false s2) + 1)) ::
  compile bs (pos + 1 + length (compile bs (pos + 1) false s1) + 1) false s2.
Proof. intros. cbn [compile]. simpl (clr false). simpl (length (@nil instr)). rewrite !Nat.add_0_r. reflexivity. Qed.

Lemma case_stmt : forall n, goal_stmt n -> goal_list n -> goal_loop n -> goal_stmt (S n).
Proof.
  intros n IHs IHl IHL s sc tr c sc' H Hfr code bs pos st NN Hbs Hc Hpc Hsc.
  destruct s as [e|v|p|b|s1 s2|k l body|l it body|l b|b hasc cc hasf f|l|l|v|v].
  - (* Ev *)
    simpl in H. injection H as <- <- <-. cbn [compile] in Hc |- *. simpl length.
    pose proof (code_at_head _ _ _ _ Hc) as I1.
    exists (add_trace (set_pc st (S (pc st))) [EEv e]).
    split. { apply steps_one. unfold vm_step. rewrite Hpc, I1. reflexivity. }
    split; [unfold bal; simpl; auto|]. split; [reflexivity|]. split; [simpl; lia|]. reflexivity.
  - (* ExprVal *)
    simpl in H. injection H as <- <- <-. cbn [compile]. simpl length. rewrite Nat.add_0_r.
    exists st. split; [apply steps_refl|]. split; [rewrite <- Hsc; apply bal_refl|]. auto.
  - (* Unc *)
    simpl in H. injection H as <- <- <-. cbn [compile] in Hc |- *.
    pose proof (code_at_head _ _ _ _ Hc) as I1.
    exists st, (match p with PInterrupt => set_intr st true | PStackOverflow => st end).
    split; [apply steps_refl|]. split. { unfold vm_step. rewrite Hpc, I1. reflexivity. }
    split. { exists []. split; [destruct p; reflexivity|constructor]. }
    split; [destruct p; reflexivity|]. rewrite app_nil_r. destruct p; reflexivity.
  - (* Block *)
    change (exec (S n) (Block b) sc) with (exec_list n b None sc) in H.
    cbn [compile] in Hc |- *. rewrite list_mode_fn in Hc |- * by assumption.
    exact (IHl b None sc tr c sc' H Hfr code bs pos st 0 NN Hbs Hc Hpc Hsc).
  - (* If *)
    simpl in Hfr. pose proof (andb_l _ _ Hfr) as F1. pose proof (andb_r _ _ Hfr) as F2.
    rewrite compile_if_fn in Hc |- *.
    set (c1 := compile bs (pos + 1) false s1) in *.
    set (p2 := pos + 1 + length c1 + 1) in *.
    set (c2 := compile bs p2 false s2) in *.
    pose proof (code_at_head _ _ _ _ Hc) as I1. apply code_at_tail in Hc. replace (S pos) with (pos + 1) in Hc by lia.
    apply code_at_app in Hc. destruct Hc as [Hc1 Hc]. pose proof (code_at_head _ _ _ _ Hc) as I2.
    apply code_at_tail in Hc. replace (S (pos + 1 + length c1)) with p2 in Hc by (unfold p2; lia).
    assert (EQ : pos + length (IJneC (Z.of_nat (length c1 + 2)) :: c1 ++ IJump (Z.of_nat (length c2 + 1)) :: c2) = p2 + length c2).
    { simpl. rewrite app_length. simpl. unfold p2. lia. }
    rewrite EQ. cbn [has_ret rff].
    change (exec (S n) (If s1 s2) sc) with
      (let '(b0, sc1) := cond sc in
       match exec n (if b0 then s1 else s2) sc1 with
       | Some (t, c, sc2) => Some (t, update_empty c (Some VUndef), sc2)
       | None => None
       end) in H.
    pose proof (jnec_step code st (Z.of_nat (length c1 + 2)) ltac:(rewrite Hpc; exact I1)) as E1.
    rewrite Hsc, Hpc, jump_to_nat in E1.
    destruct (cond sc) as [b0 sc1]. simpl fst in E1. simpl snd in E1.
    destruct (exec n (if b0 then s1 else s2) sc1) as [[[t0 c0] sc2]|] eqn:EX; [|discriminate].
    injection H as <- <- <-. apply arrives_update_empty.
    replace t0 with ([] ++ t0) by reflexivity.
    destruct b0.
    + eapply (arrives_prefix code bs st (set_script (set_pc st (S pos)) sc1));
        [apply steps_one; exact E1 | unfold bal; simpl; rewrite app_nil_r; auto | reflexivity | intros; reflexivity |].
      eapply arrives_normal_steps with (mid := pos + 1 + length c1).
      * eapply arrives_weaken; [| |apply (IHs s1 sc1 t0 c0 sc2 EX F1 code bs (pos + 1) _ NN Hbs Hc1); [simpl; lia|reflexivity]].
        { apply negb_orb_l. } { apply andb_l. }
      * intros s0 Hp0. apply steps_one. unfold vm_step. rewrite Hp0, I2, jump_to_nat. f_equal. f_equal. unfold p2. lia.
    + eapply (arrives_prefix code bs st (set_script (set_pc st (pos + (length c1 + 2))) sc1));
        [apply steps_one; exact E1 | unfold bal; simpl; rewrite app_nil_r; auto | reflexivity | intros; reflexivity |].
      eapply arrives_weaken; [| |apply (IHs s2 sc1 t0 c0 sc2 EX F2 code bs p2 _ NN Hbs Hc); [simpl; unfold p2; lia|reflexivity]].
      { apply negb_orb_r. } { apply andb_r. }
  - (* Loop *)
    exact (case_loopstmt n k l body IHs IHL sc tr c sc' H Hfr code bs pos st NN Hbs Hc Hpc Hsc).
  - (* ForOf: outside the fragment *)
    discriminate.
  - (* Labeled *)
    simpl in Hfr. cbn [has_ret rff].
    change (exec (S n) (Labeled l b) sc) with
      (match exec_list n b None sc with
       | Some (t, c, sc1) => Some (t, label_exit l c, sc1)
       | None => None
       end) in H.
    destruct (exec_list n b None sc) as [[[t0 c0] sc1]|] eqn:EX; [|discriminate]. injection H as <- <- <-.
    cbn [compile] in Hc |- *.
    set (lb0 := mkBlk BLabel (Some l) 0 0 false None) in *.
    set (len0 := length (compile_ss (lb0 :: bs) pos (list_mode (lb0 :: bs) false b) 0 b)) in *.
    set (lb := mkBlk BLabel (Some l) (pos + len0) 0 false None) in *.
    assert (OK0 : bs_ok (lb0 :: bs)) by (constructor; [reflexivity|assumption]).
    assert (OK1 : bs_ok (lb :: bs)) by (constructor; [reflexivity|assumption]).
    rewrite (list_mode_fn (lb :: bs)) in Hc |- * by assumption.
    set (cb := compile_ss (lb :: bs) pos None 0 b) in *.
    assert (L0 : len0 = length cb).
    { unfold len0, cb. rewrite (list_mode_fn (lb0 :: bs)) by assumption.
      apply (proj2 len_indep). apply shape_cons; [repeat split|apply shape_refl]. }
    pose proof (IHl b None sc t0 c0 sc1 EX Hfr code (lb :: bs) pos st 0 NN OK1 Hc Hpc Hsc) as A0. fold cb in A0.
    assert (POP : forall c1, passes lb c1 = true -> arrives code (lb :: bs) st (pos + length cb) (negb (has_rets b)) (rffs b) c1 t0 sc1 ->
                  arrives code bs st (pos + length cb) (negb (has_rets b)) (rffs b) c1 t0 sc1).
    { intros c1 Hp1 Ha1. eapply arrives_pop_block; eauto; [right; reflexivity|reflexivity]. }
    destruct c0 as [v0|l0 v0|l0 v0|v0|v0|p0];
      [apply POP; [reflexivity|exact A0] | | | apply POP; [reflexivity|exact A0] | apply POP; [reflexivity|exact A0]
       | apply POP; [reflexivity|exact A0]].
    + (* break *)
      destruct (is_target lb l0) eqn:TG.
      * assert (LE : label_exit l (CBreak l0 v0) = CNormal v0).
        { destruct l0 as [x|]; simpl in *; [|discriminate]. apply Nat.eqb_eq in TG. subst. rewrite Nat.eqb_refl. reflexivity. }
        rewrite LE. destruct A0 as (s' & S1 & BB & K1 & P1 & R1).
        rewrite compile_branch_hit_break in P1; auto.
        pose proof (code_at_head _ _ _ _ P1) as IJ.
        exists (set_pc s' (pos + len0)).
        split. { eapply steps_trans; [exact S1|]. apply steps_one. unfold vm_step. rewrite IJ, jump_to_zoff. reflexivity. }
        split; [exact BB|]. split; [exact K1|]. split; [simpl; lia|exact R1].
      * assert (LE : label_exit l (CBreak l0 v0) = CBreak l0 v0).
        { destruct l0 as [x|]; simpl in *; auto. rewrite Nat.eqb_sym, TG. reflexivity. }
        rewrite LE. apply POP; [simpl; rewrite TG; reflexivity|exact A0].
    + (* continue *)
      change (label_exit l (CContinue l0 v0)) with (CContinue l0 v0).
      destruct (is_target lb l0) eqn:TG.
      * exfalso. destruct A0 as (s' & S1 & BB & K1 & P1 & R1).
        unfold compile_branch in P1. rewrite find_hit in P1 by auto. simpl in P1.
        apply NN. eapply code_at_in; eauto.
      * apply POP; [simpl; rewrite TG; reflexivity|exact A0].
  - (* Try *)
    exact (case_try n b hasc cc hasf f IHl sc tr c sc' H Hfr code bs pos st NN Hbs Hc Hpc Hsc).
  - (* Break *)
    simpl in H. injection H as <- <- <-. cbn [compile] in Hc.
    exists st. split; [apply steps_refl|]. split; [rewrite <- Hsc; apply bal_refl|]. split; [reflexivity|].
    split; [rewrite Hpc; exact Hc|reflexivity].
  - (* Continue *)
    simpl in H. injection H as <- <- <-. cbn [compile] in Hc.
    exists st. split; [apply steps_refl|]. split; [rewrite <- Hsc; apply bal_refl|]. split; [reflexivity|].
    split; [rewrite Hpc; exact Hc|reflexivity].
  - (* Return *)
    simpl in H. injection H as <- <- <-.
    change (compile bs pos false (Return v)) with ([ILoad (VNum v)] ++ (ret_code bs ++ [IRet])) in Hc.
    apply code_at_app in Hc. destruct Hc as [H1 H2]. pose proof (code_at_head _ _ _ _ H1) as I1. simpl in H2.
    exists (set_stk (set_pc st (S (pc st))) (VNum v :: stk st)), (VNum v).
    split. { apply steps_one. unfold vm_step. rewrite Hpc, I1. reflexivity. }
    split; [unfold bal; simpl; rewrite app_nil_r; auto|]. split; [reflexivity|].
    split. { simpl. rewrite Hpc. replace (S pos) with (pos + 1) by lia. exact H2. }
    split; reflexivity.
  - (* Throw *)
    simpl in H. injection H as <- <- <-. cbn [compile] in Hc.
    pose proof (code_at_head _ _ _ _ Hc) as I1. apply code_at_tail in Hc. pose proof (code_at_head _ _ _ _ Hc) as I2.
    set (s1 := set_stk (set_pc st (S pos)) (VNum v :: stk st)).
    exists s1, s1.
    split. { apply steps_one. unfold vm_step. rewrite Hpc, I1. reflexivity. }
    split. { unfold vm_step. change (pc s1) with (S pos). rewrite I2. reflexivity. }
    split; [unfold bal; simpl; rewrite app_nil_r; auto|].
    split; [exists [VNum v]; reflexivity|reflexivity].
Qed.

Theorem compile_correct_all : forall n, goal_stmt n /\ goal_list n /\ goal_loop n.
Proof.
  induction n as [|n (IHs & IHl & IHL)].
  - repeat split; intro; intros; discriminate.
  - split; [|split].
    + apply case_stmt; assumption.
    + apply case_list; assumption.
    + apply case_loop; assumption.
Qed.

(* ------------------------------------------------------------------------------------------------ *)
(* the whole program, function-body mode *)

Definition okind (o : outcome) : outcome := match o with OValue _ => OValue VUndef | x => x end.

Lemma vm_run_last : forall code m st st' o, stepsn code m st st' -> vm_step code st' = o ->
  (forall s, o <> Running s) -> vm_run (m + 1) code st = o.
Proof.
  intros code m st st' o HS HV HN. rewrite (vm_run_stepsn code m st st' 1 HS). simpl. rewrite HV.
  destruct o; auto. exfalso. eapply HN; eauto.
Qed.

Theorem compile_control_correct_partial : forall n prog sc tr c sc',
  frags prog = true ->
  ~ In INil (compile_prog true prog) ->
  exec_list n prog None sc = Some (tr, c, sc') ->
  exists k, let o := vm_run k (compile_prog true prog) (boot sc) in
    vout_trace o = tr /\
    okind (vout_outcome o) = okind (outcome_of true c) /\
    (rffs prog = true -> vout_outcome o = outcome_of true c) /\
    vout_balanced o = true.
Proof.
  intros n prog sc tr c sc' Hfr NN H.
  set (code := compile_prog true prog) in *.
  assert (OK0 : bs_ok []) by constructor.
  assert (EC : code = compile_ss [] 0 None 0 prog ++ [ILoad VUndef; IRet]).
  { unfold code, compile_prog, compile_list. rewrite list_mode_fn by assumption. reflexivity. }
  set (body := compile_ss [] 0 None 0 prog) in *.
  assert (CA : code_at code body 0). { exists [], [ILoad VUndef; IRet]. rewrite EC. auto. }
  destruct (compile_correct_all n) as (_ & GL & _).
  pose proof (GL prog None sc tr c sc' H Hfr code [] 0 (boot sc) 0 NN OK0 CA eq_refl eq_refl) as A.
  fold body in A. simpl (0 + length body) in A.
  assert (I1 : nth_error code (length body) = Some (ILoad VUndef)).
  { rewrite EC, nth_error_app2, Nat.sub_diag by lia. reflexivity. }
  assert (I2 : nth_error code (S (length body)) = Some IRet).
  { rewrite EC, nth_error_app2 by lia. replace (S (length body) - length body) with 1 by lia. reflexivity. }
  destruct c as [v|l v|l v|v|v|p]; cbv beta iota delta [arrives] in A.
  - (* falls off the end: loadUndef; ret *)
    destruct A as (s' & (m & S1) & (A1 & A2 & A3 & A4 & A5) & K1 & P1 & R1).
    set (s2 := set_stk (set_pc s' (S (length body))) (VUndef :: stk s')).
    assert (E1 : vm_step code s' = Running s2). { unfold vm_step. rewrite P1, I1. reflexivity. }
    assert (E2 : vm_step code s2 = Returned VUndef s2).
    { unfold vm_step. change (pc s2) with (S (length body)). rewrite I2. reflexivity. }
    exists (m + 1 + 1).
    assert (RUN : vm_run (m + 1 + 1) code (boot sc) = Returned VUndef s2).
    { apply vm_run_last with (st' := s2); [|exact E2|discriminate].
      eapply stepsn_trans; [exact S1|]. simpl. exists s2. split; [exact E1|reflexivity]. }
    cbv zeta. rewrite RUN. simpl. rewrite A4, A1, A2. simpl. auto.
  - exfalso. destruct A as (s' & _ & _ & _ & P1 & _).
    replace (compile_branch [] (pc s') l true) with [INil] in P1 by (destruct l; reflexivity).
    apply NN. eapply code_at_in. exact P1.
  - exfalso. destruct A as (s' & _ & _ & _ & P1 & _).
    replace (compile_branch [] (pc s') l false) with [INil] in P1 by (destruct l; reflexivity).
    apply NN. eapply code_at_in. exact P1.
  - destruct A as (s' & v' & (m & S1) & (A1 & A2 & A3 & A4 & A5) & K1 & P1 & R1 & _).
    simpl in P1. pose proof (code_at_head _ _ _ _ P1) as IR.
    assert (E1 : vm_step code s' = Returned v' s'). { unfold vm_step. rewrite IR, K1. reflexivity. }
    exists (m + 1).
    assert (RUN : vm_run (m + 1) code (boot sc) = Returned v' s') by (apply vm_run_last with (st' := s'); [exact S1|exact E1|discriminate]).
    cbv zeta. rewrite RUN. simpl. rewrite A4, A1, A2. simpl. repeat split; auto.
    intro G. rewrite (R1 G). reflexivity.
  - destruct A as (s1 & s2 & (m & S1) & V1 & (A1 & A2 & A3 & A4 & A5) & (xs & K1) & R1).
    exists (m + 1).
    assert (E1 : vm_step code s1 = Uncaught v (set_trys (restore_stacks (set_stk s2 (keep 0 (stk s2))) 0) [marker_frame])).
    { rewrite V1. unfold vthrow. rewrite A1. reflexivity. }
    assert (RUN : vm_run (m + 1) code (boot sc) = Uncaught v (set_trys (restore_stacks (set_stk s2 (keep 0 (stk s2))) 0) [marker_frame]))
      by (apply vm_run_last with (st' := s1); [exact S1|exact E1|discriminate]).
    cbv zeta. rewrite RUN. unfold restore_stacks. simpl. rewrite A2, A4. simpl. rewrite app_nil_r. auto.
  - destruct A as (s1 & s2 & (m & S1) & V1 & (fr & F1 & F2) & I0 & T1).
    exists (m + 1).
    assert (E1 : vm_step code s1 = UncOut p (set_trys (drop_stacks (set_stk s2 (keep 0 (stk s2))) 0) [marker_frame])).
    { rewrite V1, F1. simpl trys. rewrite handle_throw_unc_skip by assumption. reflexivity. }
    assert (RUN : vm_run (m + 1) code (boot sc) = UncOut p (set_trys (drop_stacks (set_stk s2 (keep 0 (stk s2))) 0) [marker_frame]))
      by (apply vm_run_last with (st' := s1); [exact S1|exact E1|discriminate]).
    cbv zeta. rewrite RUN. unfold drop_stacks. simpl. rewrite I0, T1. simpl. auto.
Qed.
