(* C08 — compile_control_correct, part 4: the induction. *)
From Coq Require Import List Arith ZArith Bool Lia.
Import ListNotations.
From Verif.C08 Require Import Model Proofs ProofsC ProofsC2 ProofsC3.

Lemma set_pc_same : forall s, set_pc s (pc s) = s.
Proof. destruct s; reflexivity. Qed.

Lemma jump_to_zoff : forall p t, jump_to p (zoff t p) = t.
Proof. intros. unfold jump_to, zoff. lia. Qed.

Lemma jump_to_nat : forall p k, jump_to p (Z.of_nat k) = p + k.
Proof. intros. unfold jump_to. lia. Qed.

Lemma arrives_seq : forall code bs st mid e pres g v c tr1 sc1 tr2 sc2,
  arrives code bs st mid pres g (CNormal v) tr1 sc1 ->
  (forall s, pc s = mid -> script s = sc1 -> arrives code bs s e pres g c tr2 sc2) ->
  arrives code bs st e pres g c (tr1 ++ tr2) sc2.
Proof.
  intros code bs st mid e pres g v c tr1 sc1 tr2 sc2 (s' & S1 & B1 & K1 & P1 & R1) H2.
  eapply arrives_prefix; eauto. apply H2; auto. destruct B1 as (_ & _ & _ & _ & X). exact X.
Qed.

(* after a normal arrival, some more context-preserving steps *)
Lemma arrives_normal_steps : forall code bs st mid e pres g c tr sc',
  arrives code bs st mid pres g c tr sc' ->
  (forall s, pc s = mid -> steps code s (set_pc s e)) ->
  arrives code bs st e pres g c tr sc'.
Proof.
  intros code bs st mid e pres g c tr sc' H HS. destruct c; try exact H.
  destruct H as (s' & S1 & (A1 & A2 & A3 & A4 & A5) & K1 & P1 & R1).
  exists (set_pc s' e). split; [eapply steps_trans; [exact S1|]; apply HS; exact P1|].
  split; [unfold bal; simpl; auto|]. split; [assumption|]. split; [reflexivity|]. assumption.
Qed.

(* a loop or label block that is not the target of the completion is transparent *)
Definition passes (b : blk) (c : compl) : bool :=
  match c with
  | CBreak l _ | CContinue l _ => negb (is_target b l)
  | _ => true
  end.

Lemma arrives_pop_block : forall code b bs st e pres g c tr sc',
  ~ In INil code ->
  (b_typ b = BLoop \/ b_typ b = BLabel) -> b_breaking b = None -> passes b c = true ->
  arrives code (b :: bs) st e pres g c tr sc' -> arrives code bs st e pres g c tr sc'.
Proof.
  intros code b bs st e pres g c tr sc' NN Ht Hb Hp H.
  assert (PO : pre_of b = []). { unfold pre_of. destruct Ht as [-> | ->]; reflexivity. }
  assert (BR : forall p l ib, is_target b l = false -> code_at code (compile_branch (b :: bs) p l ib) p ->
                              code_at code (compile_branch bs p l ib) p).
  { intros p l ib Hi Hc. rewrite compile_branch_skip in Hc by assumption. rewrite PO in Hc. simpl in Hc.
    rewrite Nat.add_0_r in Hc. destruct (find_break_block bs l ib) eqn:E; auto.
    exfalso. apply NN. eapply code_at_in; eauto. }
  destruct c; simpl in *; auto.
  - destruct H as (s' & S1 & B1 & K1 & P1 & R1). exists s'.
    split; [exact S1|]. split; [exact B1|]. split; [exact K1|]. split; [|exact R1].
    apply BR; auto. apply negb_true_iff. exact Hp.
  - destruct H as (s' & S1 & B1 & K1 & P1 & R1). exists s'.
    split; [exact S1|]. split; [exact B1|]. split; [exact K1|]. split; [|exact R1].
    apply BR; auto. apply negb_true_iff. exact Hp.
  - destruct H as (s' & v' & S1 & B1 & K1 & P1 & R1). exists s', v'.
    split; [exact S1|]. split; [exact B1|]. split; [exact K1|]. split; [|exact R1].
    assert (E : ret_code (b :: bs) = ret_code bs).
    { unfold ret_code. simpl. destruct Ht as [-> | ->]; reflexivity. }
    rewrite <- E. exact P1.
Qed.

(* compileTryStatement in function-body mode inside the fragment *)
Lemma try_code_fn : forall bs pos b hasc c hasf f,
  bs_ok bs -> (hasf = true -> direct_branch f = false) ->
  try_code bs pos false b hasc c hasf f =
  let bs' := tblk :: bs in
  let pb := pos + 1 in
  let cb := compile_ss bs' pb None 0 b in
  let pab := pb + length cb in
  let cc := if hasc then compile_ss bs' (pab + 2) None 0 c else [] in
  let ccatch := if hasc then [IJump (Z.of_nat (length cc + 2)); IPop] ++ cc else [] in
  let pf := pab + length ccatch in
  let cf := if hasf then compile_ss bs' (pf + 1) None 0 f else [] in
  [ITry (if hasc then pab + 1 - pos else 0) (if hasf then pf + 1 - pos else 0)] ++ cb ++ ccatch
    ++ (if hasf then [IEnterFinally] ++ cf ++ [ILeaveFinally] else [ILeaveTry]).
Proof.
  intros bs pos b hasc c hasf f Hbs Hdb.
  assert (SC : snd (try_scan bs hasf f) = None).
  { unfold try_scan. destruct hasf; [|reflexivity]. apply scan_no_direct. auto. }
  assert (BR : try_breaking bs hasf f = None) by (unfold try_breaking; rewrite SC; reflexivity).
  assert (NR : try_bnr bs false hasf f = false) by (unfold try_bnr; rewrite SC; reflexivity).
  assert (FC : try_fclr bs false hasf f = []) by (unfold try_fclr; rewrite SC; reflexivity).
  assert (OK : bs_ok (tblk :: bs)) by (constructor; [split; reflexivity|assumption]).
  unfold try_code. rewrite BR, NR, FC. fold tblk. cbv zeta.
  rewrite !(list_mode_fn (tblk :: bs)) by assumption.
  simpl (clr false). simpl (length []). rewrite !Nat.add_0_r. reflexivity.
Qed.

(* ------------------------------------------------------------------------------------------------ *)

Definition goal_stmt (n : nat) : Prop :=
  forall s sc tr c sc', exec n s sc = Some (tr, c, sc') -> frag s = true ->
  forall code bs pos st, ~ In INil code -> bs_ok bs ->
    code_at code (compile bs pos false s) pos -> pc st = pos -> script st = sc ->
    arrives code bs st (pos + length (compile bs pos false s)) (negb (has_ret s)) (rff s) c tr sc'.

Definition goal_list (n : nat) : Prop :=
  forall ss acc sc tr c sc', exec_list n ss acc sc = Some (tr, c, sc') -> frags ss = true ->
  forall code bs pos st i, ~ In INil code -> bs_ok bs ->
    code_at code (compile_ss bs pos None i ss) pos -> pc st = pos -> script st = sc ->
    arrives code bs st (pos + length (compile_ss bs pos None i ss)) (negb (has_rets ss)) (rffs ss) c tr sc'.

Definition loop_tu (k : loopkind) : list event := match k with LFor u => [EEv u] | _ => [] end.

Definition goal_loop (n : nat) : Prop :=
  forall k l body V skip sc tr c sc', exec_loop n k l body V skip sc = Some (tr, c, sc') -> frag body = true ->
  forall code bs lb testpos bodypos st, ~ In INil code -> bs_ok bs ->
    b_typ lb = BLoop -> b_label lb = l -> b_nr lb = false -> b_breaking lb = None ->
    code_at code (compile (lb :: bs) bodypos false body) bodypos ->
    (forall s0, pc s0 = testpos ->
       steps code s0 (set_script (set_pc s0 (if fst (cond (script s0)) then bodypos else b_brk lb)) (snd (cond (script s0))))) ->
    (forall s0, pc s0 = bodypos + length (compile (lb :: bs) bodypos false body) ->
       steps code s0 (add_trace (set_pc s0 testpos) (loop_tu k))) ->
    (forall s0, pc s0 = b_cont lb -> steps code s0 (add_trace (set_pc s0 testpos) (loop_tu k))) ->
    pc st = (if skip then bodypos else testpos) -> script st = sc ->
    arrives code bs st (b_brk lb) (negb (has_ret body)) (rff body) c tr sc'.

Lemma negb_orb_l : forall a b, negb (a || b) = true -> negb a = true.
Proof. intros [|] [|]; simpl; auto. Qed.
Lemma negb_orb_r : forall a b, negb (a || b) = true -> negb b = true.
Proof. intros [|] [|]; simpl; auto. Qed.
Lemma andb_l : forall a b, a && b = true -> a = true.
Proof. intros [|] [|]; simpl; auto. Qed.
Lemma andb_r : forall a b, a && b = true -> b = true.
Proof. intros [|] [|]; simpl; auto. Qed.

Lemma case_list : forall n, goal_stmt n -> goal_list n -> goal_list (S n).
Proof.
  intros n IHs IHl ss acc sc tr c sc' H Hfr code bs pos st i NN Hbs Hc Hpc Hsc.
  destruct ss as [|s r].
  - simpl in H. inversion H; subst. simpl. rewrite Nat.add_0_r. exists st.
    split; [apply steps_refl|]. split; [apply bal_refl|]. auto.
  - simpl in Hfr. pose proof (andb_l _ _ Hfr) as Hf1. pose proof (andb_r _ _ Hfr) as Hf2.
    rewrite Proofs.exec_list_cons in H.
    destruct (exec n s sc) as [[[t0 c0] sc1]|] eqn:E; [|discriminate].
    cbn [compile_ss] in Hc |- *. cbn [has_rets rffs].
    set (cs := compile bs pos false s) in *.
    apply code_at_app in Hc. destruct Hc as [Hc1 Hc2].
    pose proof (IHs s sc t0 c0 sc1 E Hf1 code bs pos st NN Hbs Hc1 Hpc Hsc) as A1. fold cs in A1.
    assert (A1' : arrives code bs st (pos + length cs) (negb (has_ret s || has_rets r)) (rff s && rffs r) c0 t0 sc1).
    { eapply arrives_weaken; [| |exact A1]. apply negb_orb_l. apply andb_l. }
    rewrite app_length, Nat.add_assoc.
    destruct c0 as [v0|l0 v0|l0 v0|v0|v0|p0].
    + (* normal: continue with the rest *)
      assert (EU : exists w, update_empty (CNormal v0) acc = CNormal w) by (destruct v0; simpl; eauto).
      destruct EU as [w EU]. rewrite EU in H.
      destruct (exec_list n r w sc1) as [[[t2 c2] sc2]|] eqn:E2; [|discriminate].
      injection H as Ht Hcc Hsc'. subst tr c2 sc2.
      eapply arrives_seq; [exact A1'|]. intros s0 Hp0 Hs0.
      eapply arrives_weaken; [| |apply (IHl r w sc1 t2 c sc' E2 Hf2 code bs (pos + length cs) s0 (S i) NN Hbs Hc2 Hp0 Hs0)].
      apply negb_orb_r. apply andb_r.
    + assert (EU : update_empty (CBreak l0 v0) acc = CBreak l0 (match v0 with Some _ => v0 | None => acc end)) by (destruct v0; reflexivity).
      rewrite EU in H. inversion H; subst. exact A1'.
    + assert (EU : update_empty (CContinue l0 v0) acc = CContinue l0 (match v0 with Some _ => v0 | None => acc end)) by (destruct v0; reflexivity).
      rewrite EU in H. inversion H; subst. exact A1'.
    + simpl in H. inversion H; subst. exact A1'.
    + simpl in H. inversion H; subst. exact A1'.
    + simpl in H. inversion H; subst. exact A1'.
Qed.

Lemma exec_loop_S : forall n k l body V skip sc,
  exec_loop (S n) k l body V skip sc =
  let '(go, sc1) := if skip then (true, sc) else cond sc in
  if negb go then Some ([], CNormal (Some V), sc1) else
  match exec n body sc1 with
  | None => None
  | Some (t, c, sc2) =>
      if loop_continues c l then
        match exec_loop n k l body (vor (cval c) V) false sc2 with
        | Some (t2, c2, sc3) => Some (t ++ loop_tu k ++ t2, c2, sc3)
        | None => None
        end
      else Some (t, loop_exit l (update_empty c (Some V)), sc2)
  end.
Proof. intros. destruct k; reflexivity. Qed.

Lemma loop_target : forall lb l l0, b_typ lb = BLoop -> b_label lb = l ->
  is_target lb l0 = match l0 with
                    | None => true
                    | Some x => match l with Some y => Nat.eqb x y | None => false end
                    end.
Proof.
  intros lb l l0 Ht Hl. unfold is_target. destruct l0 as [x|]; [|rewrite Ht; reflexivity].
  rewrite Hl. destruct l as [y|]; simpl; auto. apply Nat.eqb_sym.
Qed.

Lemma case_loop : forall n, goal_stmt n -> goal_loop n -> goal_loop (S n).
Proof.
  intros n IHs IHL k l body V skip sc tr c sc' H Hfr code bs lb testpos bodypos st NN Hbs Hty Hlab Hnr Hbrk Hc HT HA HC Hpc Hsc.
  rewrite exec_loop_S in H.
  set (cb := compile (lb :: bs) bodypos false body) in *.
  assert (OKb : bs_ok (lb :: bs)) by (constructor; [split; assumption|assumption]).
  set (pres := negb (has_ret body)). set (g := rff body).
  (* from the start of the body *)
  assert (CONT : forall s1 sc1 tr1 c1 sc1', pc s1 = bodypos -> script s1 = sc1 ->
     match exec n body sc1 with
     | None => None
     | Some (t, c, sc2) =>
         if loop_continues c l then
           match exec_loop n k l body (vor (cval c) V) false sc2 with
           | Some (t2, c2, sc3) => Some (t ++ loop_tu k ++ t2, c2, sc3)
           | None => None
           end
         else Some (t, loop_exit l (update_empty c (Some V)), sc2)
     end = Some (tr1, c1, sc1') ->
     arrives code bs s1 (b_brk lb) pres g c1 tr1 sc1').
  { intros s1 sc1 tr1 c1 sc1' Hp1 Hs1 HX.
    destruct (exec n body sc1) as [[[t0 c0] sc2]|] eqn:EB; [|discriminate].
    pose proof (IHs body sc1 t0 c0 sc2 EB Hfr code (lb :: bs) bodypos s1 NN OKb Hc Hp1 Hs1) as A0.
    fold cb pres g in A0.
    destruct (loop_continues c0 l) eqn:LC.
    - destruct (exec_loop n k l body (vor (cval c0) V) false sc2) as [[[t2 c2] sc3]|] eqn:ER; [|discriminate].
      injection HX as <- <- <-.
      assert (REC : forall s0, pc s0 = testpos -> script s0 = sc2 -> arrives code bs s0 (b_brk lb) pres g c2 t2 sc3).
      { intros s0 Hp0 Hs0.
        exact (IHL k l body (vor (cval c0) V) false sc2 t2 c2 sc3 ER Hfr code bs lb testpos bodypos s0 NN Hbs Hty Hlab Hnr Hbrk Hc HT HA HC Hp0 Hs0). }
      destruct c0 as [v0|l0 v0|l0 v0|v0|v0|p0]; try discriminate.
      + destruct A0 as (s' & S1 & (B1 & B2 & B3 & B4 & B5) & K1 & P1 & R1).
        pose proof (HA s' P1) as S2.
        rewrite app_assoc.
        eapply (arrives_prefix code bs s1 (add_trace (set_pc s' testpos) (loop_tu k))).
        * eapply steps_trans; eauto.
        * unfold bal. simpl. repeat split; auto. rewrite B4, app_assoc. reflexivity.
        * simpl. assumption.
        * simpl. assumption.
        * apply REC; simpl; auto.
      + (* continue of this loop *)
        assert (TG : is_target lb l0 = true).
        { rewrite (loop_target lb l l0 Hty Hlab). simpl in LC. destruct l0; auto. }
        destruct A0 as (s' & S1 & (B1 & B2 & B3 & B4 & B5) & K1 & P1 & R1).
        rewrite compile_branch_hit_cont in P1; auto; [|rewrite Hty; reflexivity].
        pose proof (code_at_head _ _ _ _ P1) as IJ.
        assert (E1 : vm_step code s' = Running (set_pc s' (b_cont lb))).
        { unfold vm_step. rewrite IJ, jump_to_zoff. reflexivity. }
        pose proof (HC (set_pc s' (b_cont lb)) eq_refl) as S2.
        rewrite app_assoc.
        eapply (arrives_prefix code bs s1 (add_trace (set_pc (set_pc s' (b_cont lb)) testpos) (loop_tu k))).
        * eapply steps_trans; [exact S1|]. eapply steps_step; [exact E1|]. exact S2.
        * unfold bal. simpl. repeat split; auto. rewrite B4, app_assoc. reflexivity.
        * simpl. assumption.
        * simpl. assumption.
        * apply REC; simpl; auto.
    - injection HX as <- <- <-.
      destruct c0 as [v0|l0 v0|l0 v0|v0|v0|p0]; try discriminate.
      + (* break *)
        destruct (is_target lb l0) eqn:TG.
        * assert (LE : exists w, loop_exit l (update_empty (CBreak l0 v0) (Some V)) = CNormal w).
          { rewrite (loop_target lb l l0 Hty Hlab) in TG.
            destruct v0; simpl; destruct l0 as [x|]; simpl; eauto; destruct l as [y|]; try discriminate; rewrite TG; eauto. }
          destruct LE as [w ->].
          destruct A0 as (s' & S1 & BB & K1 & P1 & R1).
          rewrite compile_branch_hit_break in P1; auto.
          pose proof (code_at_head _ _ _ _ P1) as IJ.
          assert (E1 : vm_step code s' = Running (set_pc s' (b_brk lb))).
          { unfold vm_step. rewrite IJ, jump_to_zoff. reflexivity. }
          exists (set_pc s' (b_brk lb)). split; [eapply steps_trans; [exact S1|]; apply steps_one; exact E1|].
          split; [exact BB|]. split; [exact K1|]. split; [reflexivity|exact R1].
        * assert (LE : loop_exit l (update_empty (CBreak l0 v0) (Some V)) =
                       CBreak l0 (match v0 with Some _ => v0 | None => Some V end)).
          { rewrite (loop_target lb l l0 Hty Hlab) in TG.
            destruct v0; simpl; destruct l0 as [x|]; simpl; try discriminate; destruct l as [y|]; auto; rewrite TG; auto. }
          rewrite LE. eapply arrives_pop_block; eauto. simpl. rewrite TG. reflexivity.
      + (* continue of an outer loop *)
        assert (TG : is_target lb l0 = false).
        { rewrite (loop_target lb l l0 Hty Hlab). simpl in LC. destruct l0; auto. }
        assert (LE : loop_exit l (update_empty (CContinue l0 v0) (Some V)) =
                     CContinue l0 (match v0 with Some _ => v0 | None => Some V end)) by (destruct v0; reflexivity).
        rewrite LE. eapply arrives_pop_block; eauto. simpl. rewrite TG. reflexivity.
      + simpl. eapply arrives_pop_block; eauto.
      + simpl. eapply arrives_pop_block; eauto.
      + simpl. eapply arrives_pop_block; eauto. }
  destruct skip.
  - (* do-while: first iteration without test *)
    cbv beta iota in H. simpl negb in H. cbv iota in H. eapply CONT; eauto.
  - pose proof (HT st Hpc) as ST. rewrite Hsc in ST.
    destruct (cond sc) as [go sc1] eqn:EC. simpl fst in ST. simpl snd in ST.
    destruct go; simpl negb in H; cbv iota in H.
    + replace tr with ([] ++ tr) by reflexivity.
      eapply (arrives_prefix code bs st (set_script (set_pc st bodypos) sc1)); eauto.
      * unfold bal. simpl. rewrite app_nil_r. auto.
      * eapply CONT; eauto.
    + injection H as <- <- <-.
      exists (set_script (set_pc st (b_brk lb)) sc1). split; [exact ST|].
      split; [unfold bal; simpl; rewrite app_nil_r; auto|]. auto.
Qed.
